package fakekafka

// Higher (still non-flexible) versions of the offset / metadata APIs, added for the
// offsets engine (C19). Nothing here changes the default handlers: install
// `cluster.Intercept = fakekafka.ExtVersions` (or call it from your own intercept) and
// advertise the wider ranges with ExtDefaultVersions().
//
//	ListOffsets  v2..v5  (isolation level; v4+: current leader epoch in, leader epoch out)
//	OffsetFetch  v5      (committed leader epoch)
//	OffsetCommit v6..v7  (committed leader epoch; v7: group instance id)
//	Metadata     v7..v8  (leader epoch; v8: authorized operations)

import (
	"sort"

	"verifharness/kwire"
)

// ExtDefaultVersions is DefaultVersions() with the ranges ExtVersions adds.
func ExtDefaultVersions() map[int16]VersionRange {
	v := DefaultVersions()
	v[ListOffsets] = VersionRange{0, 5}
	v[OffsetFetch] = VersionRange{0, 5}
	v[OffsetCommit] = VersionRange{0, 7}
	v[Metadata] = VersionRange{0, 8}
	return v
}

// ExtVersions is an Intercept answering the versions listed above; nil for everything else.
func ExtVersions(req *Request) *Reply {
	b := req.Broker
	var rep Reply
	switch {
	case req.ApiKey == ListOffsets && req.Version >= 2 && req.Version <= 5:
		rep = b.listOffsetsExt(req)
	case req.ApiKey == OffsetFetch && req.Version == 5:
		rep = b.offsetFetchV5(req)
	case req.ApiKey == OffsetCommit && (req.Version == 6 || req.Version == 7):
		rep = b.offsetCommitExt(req)
	case req.ApiKey == Metadata && (req.Version == 7 || req.Version == 8):
		rep = b.metadataExt(req)
	default:
		return nil
	}
	return &rep
}

func (b *Broker) listOffsetsExt(req *Request) Reply {
	r := kwire.R{B: req.Body}
	r.I32() // replica id
	r.I8()  // isolation level
	type pq struct {
		p  int32
		ts int64
	}
	type tq struct {
		name  string
		parts []pq
	}
	var qs []tq
	nt := r.ArrayLen()
	for i := 0; i < nt; i++ {
		t := tq{name: r.Str()}
		np := r.ArrayLen()
		for j := 0; j < np; j++ {
			q := pq{p: r.I32()}
			if req.Version >= 4 {
				r.I32() // current leader epoch
			}
			q.ts = r.I64()
			t.parts = append(t.parts, q)
		}
		qs = append(qs, t)
	}
	c := b.C
	c.mu.Lock()
	defer c.mu.Unlock()
	info := []interface{}{}
	var w kwire.W
	w.I32(0) // throttle
	w.ArrayLen(len(qs))
	for _, t := range qs {
		w.Str(t.name)
		w.ArrayLen(len(t.parts))
		for _, q := range t.parts {
			info = append(info, []interface{}{t.name, int(q.p), q.ts})
			w.I32(q.p)
			p := c.Part(t.name, int(q.p))
			var code int16
			var off, ts int64 = -1, -1
			switch {
			case p == nil:
				code = 3
			case p.ListErr != 0:
				code = p.ListErr
			case p.Leader != b.ID:
				code = 6
			case p.ListErrTime != 0 && q.ts >= 0:
				code = p.ListErrTime
			default:
				off, ts = p.OffsetForTime(q.ts)
			}
			w.I16(code)
			w.I64(ts)
			w.I64(off)
			if req.Version >= 4 {
				if code == 0 && off >= 0 {
					w.I32(0)
				} else {
					w.I32(-1)
				}
			}
		}
	}
	b.journalLocked(req, map[string]interface{}{"q": info})
	return Body(w.B)
}

func (b *Broker) offsetFetchV5(req *Request) Reply {
	r := kwire.R{B: req.Body}
	gid := r.Str()
	type tq struct {
		name  string
		parts []int32
	}
	var qs []tq
	nt := r.ArrayLen()
	c := b.C
	c.mu.Lock()
	defer c.mu.Unlock()
	g, code := b.groupFor(gid)
	if nt < 0 {
		// null topic list: every partition the group has a committed offset for
		names := make([]string, 0, len(g.Committed))
		for name := range g.Committed {
			names = append(names, name)
		}
		sort.Strings(names)
		for _, name := range names {
			t := tq{name: name}
			ps := make([]int, 0)
			for p := range g.Committed[name] {
				ps = append(ps, p)
			}
			sort.Ints(ps)
			for _, p := range ps {
				t.parts = append(t.parts, int32(p))
			}
			qs = append(qs, t)
		}
	}
	for i := 0; i < nt; i++ {
		t := tq{name: r.Str()}
		np := r.ArrayLen()
		for j := 0; j < np; j++ {
			t.parts = append(t.parts, r.I32())
		}
		qs = append(qs, t)
	}
	info := []interface{}{}
	var w kwire.W
	w.I32(0)
	w.ArrayLen(len(qs))
	for _, t := range qs {
		w.Str(t.name)
		w.ArrayLen(len(t.parts))
		for _, p := range t.parts {
			w.I32(p)
			off := int64(-1)
			if code == 0 {
				if m := g.Committed[t.name]; m != nil {
					if o, ok := m[int(p)]; ok {
						off = o
					}
				}
			}
			info = append(info, []interface{}{t.name, int(p), off})
			w.I64(off)
			w.I32(-1) // committed leader epoch
			s := ""
			w.NStr(&s)
			w.I16(code)
		}
	}
	w.I16(code)
	b.journalLocked(req, map[string]interface{}{"group": gid, "offsets": info, "code": int(code)})
	return Body(w.B)
}

func (b *Broker) offsetCommitExt(req *Request) Reply {
	r := kwire.R{B: req.Body}
	gid := r.Str()
	gen := r.I32()
	memberID := r.Str()
	if req.Version >= 7 {
		r.NStr() // group instance id
	}
	type pq struct {
		p   int32
		off int64
	}
	type tq struct {
		name  string
		parts []pq
	}
	var qs []tq
	nt := r.ArrayLen()
	for i := 0; i < nt; i++ {
		t := tq{name: r.Str()}
		np := r.ArrayLen()
		for j := 0; j < np; j++ {
			q := pq{p: r.I32(), off: r.I64()}
			r.I32() // committed leader epoch
			r.NStr()
			t.parts = append(t.parts, q)
		}
		qs = append(qs, t)
	}
	c := b.C
	c.mu.Lock()
	defer c.mu.Unlock()
	g, code := b.groupFor(gid)
	if code == 0 && !(gen == -1 && memberID == "") {
		if _, ok := g.Members[memberID]; !ok {
			code = ErrUnknownMemberID
		} else if gen != g.Generation {
			code = ErrIllegalGeneration
		} else if g.State == "Joining" {
			code = ErrRebalanceInProgress
		}
	}
	info := []interface{}{}
	var w kwire.W
	w.I32(0)
	w.ArrayLen(len(qs))
	for _, t := range qs {
		w.Str(t.name)
		w.ArrayLen(len(t.parts))
		for _, q := range t.parts {
			w.I32(q.p)
			w.I16(code)
			info = append(info, []interface{}{t.name, int(q.p), q.off})
			if code == 0 {
				if g.Committed[t.name] == nil {
					g.Committed[t.name] = map[int]int64{}
				}
				g.Committed[t.name][int(q.p)] = q.off
				g.Commits = append(g.Commits, Commit{Seq: req.Seq, Member: memberID, Generation: gen, Topic: t.name, Partition: int(q.p), Offset: q.off})
			}
		}
	}
	b.journalLocked(req, map[string]interface{}{"group": gid, "member": memberID, "generation": int(gen), "offsets": info, "code": int(code)})
	return Body(w.B)
}

// metadataExt answers Metadata v7/v8 for existing topics (no auto-creation).
func (b *Broker) metadataExt(req *Request) Reply {
	r := kwire.R{B: req.Body}
	var names []string
	all := false
	n := r.ArrayLen()
	if n < 0 {
		all = true
	}
	for i := 0; i < n; i++ {
		names = append(names, r.Str())
	}
	r.Bool() // allow auto topic creation
	if req.Version >= 8 {
		r.Bool()
		r.Bool()
	}
	c := b.C
	c.mu.Lock()
	defer c.mu.Unlock()
	if all {
		for name := range c.Topics {
			names = append(names, name)
		}
		sort.Strings(names)
	}
	b.journalLocked(req, map[string]interface{}{"topics": names, "all": all})
	var w kwire.W
	w.I32(0)
	ids := c.BrokerIDs()
	w.ArrayLen(len(ids))
	for _, id := range ids {
		br := c.Brokers[id]
		w.I32(int32(br.ID))
		w.Str(br.Host)
		w.I32(int32(br.Port))
		if br.Rack == "" {
			w.NStr(nil)
		} else {
			w.NStr(&br.Rack)
		}
	}
	w.NStr(&c.ClusterID)
	w.I32(int32(c.Controller))
	w.ArrayLen(len(names))
	for _, name := range names {
		t := c.Topics[name]
		if t == nil {
			w.I16(3)
			w.Str(name)
			w.Bool(false)
			w.ArrayLen(0)
			if req.Version >= 8 {
				w.I32(0)
			}
			continue
		}
		w.I16(0)
		w.Str(name)
		w.Bool(t.Internal)
		w.ArrayLen(len(t.Partitions))
		for _, p := range t.Partitions {
			w.I16(p.Err)
			w.I32(int32(p.ID))
			w.I32(int32(p.Leader))
			w.I32(0) // leader epoch
			w.ArrayLen(len(p.Replicas))
			for _, x := range p.Replicas {
				w.I32(int32(x))
			}
			w.ArrayLen(len(p.ISR))
			for _, x := range p.ISR {
				w.I32(int32(x))
			}
			w.ArrayLen(len(p.Offline))
			for _, x := range p.Offline {
				w.I32(int32(x))
			}
		}
		if req.Version >= 8 {
			w.I32(0)
		}
	}
	if req.Version >= 8 {
		w.I32(0)
	}
	return Body(w.B)
}
