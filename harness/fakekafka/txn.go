package fakekafka

// Minimal transaction-coordinator APIs (non-flexible versions only), added for the transport
// engine (C12: routing of transactional requests). Nothing here changes the default handlers: an
// Intercept calls TxnHandle for these API keys and advertises them in its version tables.
//
//	InitProducerId     v0..v1
//	AddPartitionsToTxn v0..v2
//	AddOffsetsToTxn    v0..v2
//	EndTxn             v0..v2
//
// The answer identifies the request: InitProducerId returns producer id = pid and an epoch equal
// to the number in the transactional id ("tx-<n>" -> n); the other APIs echo topic/partitions.

import (
	"strconv"
	"strings"

	"verifharness/kwire"
)

const (
	InitProducerId     = 22
	AddPartitionsToTxn = 24
	AddOffsetsToTxn    = 25
	EndTxn             = 26
)

// TxnHandle answers one transactional request as the broker req.Broker; coordinator is the id of
// the transaction coordinator (any other broker answers NOT_COORDINATOR).
func TxnHandle(req *Request, coordinator int, pid int64) Reply {
	b := req.Broker
	code := int16(0)
	if b.ID != coordinator {
		code = ErrNotCoordinator
	}
	r := kwire.R{B: req.Body}
	var w kwire.W
	switch req.ApiKey {
	case InitProducerId:
		id := r.NStr()
		r.I32()
		txid := ""
		if id != nil {
			txid = *id
		}
		epoch := 0
		if i := strings.LastIndex(txid, "-"); i >= 0 {
			epoch, _ = strconv.Atoi(txid[i+1:])
		}
		b.journal(req, map[string]interface{}{"txid": txid, "code": int(code)})
		w.I32(0)
		w.I16(code)
		if code != 0 {
			w.I64(-1)
			w.I16(-1)
		} else {
			w.I64(pid)
			w.I16(int16(epoch % 30000))
		}
	case AddPartitionsToTxn:
		txid := r.Str()
		r.I64()
		r.I16()
		type tq struct {
			name  string
			parts []int32
		}
		var qs []tq
		nt := r.ArrayLen()
		for i := 0; i < nt; i++ {
			t := tq{name: r.Str()}
			np := r.ArrayLen()
			for j := 0; j < np; j++ {
				t.parts = append(t.parts, r.I32())
			}
			qs = append(qs, t)
		}
		b.journal(req, map[string]interface{}{"txid": txid, "code": int(code)})
		w.I32(0)
		w.ArrayLen(len(qs))
		for _, t := range qs {
			w.Str(t.name)
			w.ArrayLen(len(t.parts))
			for _, p := range t.parts {
				w.I32(p)
				w.I16(code)
			}
		}
	case AddOffsetsToTxn, EndTxn:
		txid := r.Str()
		b.journal(req, map[string]interface{}{"txid": txid, "code": int(code)})
		w.I32(0)
		w.I16(code)
	default:
		return Reply{Close: true, CutAt: -1}
	}
	return Body(w.B)
}
