package fakekafka

import (
	"bytes"
	"encoding/base64"
	"encoding/binary"
	"strings"

	"github.com/xdg-go/scram"
	"github.com/xdg-go/stringprep"

	"verifharness/fakenet"
	"verifharness/kwire"
)

// SaslConfig turns on authentication on every broker of the cluster.
//
// The front end behaves like Kafka's SaslServerAuthenticator:
//   - SaslHandshake is answered with the list of enabled mechanisms; an unknown mechanism gets error 33
//     (UnsupportedSASLMechanism) and the connection is closed after the response;
//   - after a v1 handshake the authentication bytes arrive in SaslAuthenticate requests; a failed step is
//     answered with error 58 (SASLAuthenticationFailed) and the connection is closed after the response;
//   - after a v0 handshake the bytes arrive as bare size-prefixed tokens; a failed step just closes the connection;
//   - any other request before the exchange completed closes the connection (broker.go handle()).
//
// PLAIN is a hand-written RFC 4616 check (empty user or password rejected, as Kafka does); SCRAM-SHA-256/512 run
// xdg-go/scram's server conversation, user names are looked up after SASLprep (RFC 5802 5.1).
type SaslConfig struct {
	Mechanisms []string          // enabled mechanisms, e.g. PLAIN, SCRAM-SHA-256, SCRAM-SHA-512
	Users      map[string]string // user -> password
	// Fault injection, all optional. Step numbers: 0 handshake, 1.. authenticate round.
	FailStep int    // step at which FailKind applies
	FailKind string // "" / "none": no fault; "error" (error code), "malformed", "badproof", "close"
	FailConn int    // 0: the fault applies to every connection; otherwise only to the fakenet connection with this ID
	// ErrorCode overrides the code sent by FailKind "error" (default: 34 IllegalSASLState at the handshake, 58 at an authenticate step).
	ErrorCode   int16
	HandshakeV1 bool // informational: whether v1 is advertised is decided by Versions
	// OnEvent, if set, receives the broker's verdicts in order, each before the bytes that carry it are written
	// (and before the connection is closed): hsok, hsrej, hsgarbled, authcont, authok, authfail, tamper, srvclose.
	OnEvent func(SaslEvent)
}

// SaslEvent is one verdict of the SASL front end about one connection.
type SaslEvent struct {
	Broker int
	ConnID int
	Owner  string
	Ev     string
	Round  int // 0 handshake, 1.. authenticate round
	Info   map[string]interface{}
}

func (b *Broker) saslEvent(conn *fakenet.Conn, ev string, round int, info map[string]interface{}) {
	cfg := b.C.Sasl
	if cfg == nil || cfg.OnEvent == nil {
		return
	}
	cfg.OnEvent(SaslEvent{Broker: b.ID, ConnID: conn.ID, Owner: conn.Owner, Ev: ev, Round: round, Info: info})
}

// fault returns the fault kind to inject at this step of this connection ("" if none).
func (cfg *SaslConfig) fault(conn *fakenet.Conn, step int) string {
	if cfg == nil || cfg.FailKind == "" || cfg.FailKind == "none" || cfg.FailStep != step {
		return ""
	}
	if cfg.FailConn != 0 && cfg.FailConn != conn.ID {
		return ""
	}
	return cfg.FailKind
}

// sendThenClose writes a complete response frame and tells the connection loop to close.
func sendThenClose(req *Request, body []byte) Reply {
	var w kwire.W
	w.I32(req.CorrID)
	w.Raw(body)
	req.Conn.Write(kwire.Frame(w.B))
	return Reply{Close: true, CutAt: -1}
}

func (b *Broker) saslHandshake(req *Request, st *connState) Reply {
	r := kwire.R{B: req.Body}
	mech := r.Str()
	cfg := b.C.Sasl
	b.journal(req, map[string]interface{}{"mechanism": mech})
	var ms []string
	if cfg != nil {
		ms = cfg.Mechanisms
	}
	enabled := false
	for _, m := range ms {
		if m == mech {
			enabled = true
		}
	}
	body := func(code int16) []byte {
		var w kwire.W
		w.I16(code)
		w.ArrayLen(len(ms))
		for _, m := range ms {
			w.Str(m)
		}
		return w.B
	}
	switch cfg.fault(req.Conn, 0) {
	case "close":
		b.saslEvent(req.Conn, "srvclose", 0, nil)
		return Reply{Close: true, CutAt: -1}
	case "error":
		code := int16(34) // IllegalSASLState
		if cfg.ErrorCode != 0 {
			code = cfg.ErrorCode
		}
		b.saslEvent(req.Conn, "hsrej", 0, map[string]interface{}{"code": int(code), "why": "injected"})
		return sendThenClose(req, body(code))
	case "malformed":
		// a response body that ends in the middle of the error code
		b.saslEvent(req.Conn, "hsgarbled", 0, nil)
		return Body([]byte{0})
	}
	if !enabled || st.saslMech != "" || st.saslDone {
		code := int16(33) // UnsupportedSASLMechanism
		why := "unsupported"
		if enabled {
			code, why = 34, "state"
		}
		b.saslEvent(req.Conn, "hsrej", 0, map[string]interface{}{"code": int(code), "why": why})
		return sendThenClose(req, body(code))
	}
	st.saslMech = mech
	if req.Version == 0 {
		st.rawSasl = true
	}
	b.saslEvent(req.Conn, "hsok", 0, map[string]interface{}{"mech": mech, "v": int(req.Version)})
	return Body(body(0))
}

type scramState struct {
	conv *scram.ServerConversation
	step int
}

// SaslPrepName is the form under which SCRAM user names are compared (SASLprep; the input itself if it cannot be prepared).
func SaslPrepName(s string) string {
	if p, err := stringprep.SASLprep.Prepare(s); err == nil {
		return p
	}
	return s
}

// scramPassword looks a SCRAM user up. The name arrives as the "saslname" of the client-first message: ',' and '=' are
// escaped as =2C and =3D (RFC 5802 5.1; xdg-go/scram's server hands the name over undecoded, Kafka's ScramSaslServer
// decodes it with ScramFormatter.username), and the client has applied SASLprep to it.
func (cfg *SaslConfig) scramPassword(saslname string) (string, bool) {
	user := strings.Replace(strings.Replace(saslname, "=2C", ",", -1), "=3D", "=", -1)
	if pw, ok := cfg.Users[user]; ok {
		return pw, true
	}
	for u, pw := range cfg.Users {
		if SaslPrepName(u) == user {
			return pw, true
		}
	}
	return "", false
}

// authStep runs one step of the mechanism; returns response bytes, whether auth is now complete, and ok=false on failure.
func (b *Broker) authStep(st *connState, in []byte) (out []byte, done bool, ok bool) {
	cfg := b.C.Sasl
	switch st.saslMech {
	case "PLAIN":
		// message = [authzid] NUL authcid NUL passwd
		parts := bytes.Split(in, []byte{0})
		if len(parts) != 3 {
			return nil, false, false
		}
		authz, user, pass := string(parts[0]), string(parts[1]), string(parts[2])
		if user == "" || pass == "" || (authz != "" && authz != user) {
			return nil, false, false
		}
		pw, exists := cfg.Users[user]
		if !exists || pw != pass {
			return nil, false, false
		}
		return []byte{}, true, true
	case "SCRAM-SHA-256", "SCRAM-SHA-512":
		ss, _ := st.scram.(*scramState)
		if ss == nil {
			hg := scram.SHA256
			if st.saslMech == "SCRAM-SHA-512" {
				hg = scram.SHA512
			}
			srv, err := hg.NewServer(func(user string) (scram.StoredCredentials, error) {
				pw, exists := cfg.scramPassword(user)
				if !exists {
					return scram.StoredCredentials{}, scramUnknownUser{}
				}
				cl, err := hg.NewClient(user, pw, "")
				if err != nil {
					return scram.StoredCredentials{}, err
				}
				return cl.GetStoredCredentials(scram.KeyFactors{Salt: "fakesalt-" + user, Iters: 4096}), nil
			})
			if err != nil {
				return nil, false, false
			}
			ss = &scramState{conv: srv.NewConversation()}
			st.scram = ss
		}
		ss.step++
		resp, err := ss.conv.Step(string(in))
		if err != nil {
			return []byte(resp), false, false
		}
		if ss.conv.Done() {
			return []byte(resp), true, ss.conv.Valid()
		}
		return []byte(resp), false, true
	}
	return nil, false, false
}

type scramUnknownUser struct{}

func (scramUnknownUser) Error() string { return "unknown user" }

// tamper replaces a well-formed SCRAM server message.
//   - malformed: bytes that are not a SCRAM message at all;
//   - badproof:  server-first: a nonce that does not extend the client's nonce;
//     server-final: a well-formed verifier (v=base64) with one bit of the signature flipped.
func tamper(kind string, out []byte) []byte {
	switch kind {
	case "malformed":
		return []byte("x=garbage,,")
	case "badproof":
		s := string(out)
		switch {
		case strings.HasPrefix(s, "v="):
			sig, err := base64.StdEncoding.DecodeString(s[2:])
			if err != nil || len(sig) == 0 {
				return []byte("v=AAAA")
			}
			sig[len(sig)/2] ^= 0x10
			return []byte("v=" + base64.StdEncoding.EncodeToString(sig))
		case strings.HasPrefix(s, "r=") && len(s) > 3:
			o := []byte(s)
			if o[2] == 'A' {
				o[2] = 'B'
			} else {
				o[2] = 'A'
			}
			return o
		}
		return []byte("v=AAAA")
	}
	return out
}

// saslStep runs round `round` with the injected fault, emits the verdict and returns what to do:
// reply bytes (nil: none), the error code (0: none) and whether to close the connection (after the reply, if any).
func (b *Broker) saslStep(conn *fakenet.Conn, st *connState, round int, in []byte) (out []byte, code int16, closeConn bool) {
	cfg := b.C.Sasl
	kind := cfg.fault(conn, round)
	if kind == "close" {
		b.saslEvent(conn, "srvclose", round, nil)
		return nil, 0, true
	}
	if st.saslDone {
		// the exchange is over: further authentication bytes are a protocol violation
		b.saslEvent(conn, "authfail", round, map[string]interface{}{"why": "state", "code": 34})
		return nil, 34, true
	}
	res, done, ok := b.authStep(st, in)
	if kind == "error" {
		c := int16(58)
		if cfg.ErrorCode != 0 {
			c = cfg.ErrorCode
		}
		b.saslEvent(conn, "authfail", round, map[string]interface{}{"why": "injected", "code": int(c)})
		return nil, c, true
	}
	if !ok {
		b.saslEvent(conn, "authfail", round, map[string]interface{}{"why": "creds", "code": 58})
		return nil, 58, true
	}
	if (kind == "malformed" || kind == "badproof") && st.saslMech != "PLAIN" {
		// the broker side of the conversation went well, but the client receives a message it must refuse
		b.saslEvent(conn, "tamper", round, map[string]interface{}{"kind": kind, "final": done})
		st.scram = &scramState{} // whatever comes next on this connection is not authenticated
		st.saslMech = "tampered"
		return tamper(kind, res), 0, false
	}
	if done {
		st.saslDone = true
		st.rawSasl = false
		b.saslEvent(conn, "authok", round, nil)
	} else {
		b.saslEvent(conn, "authcont", round, nil)
	}
	return res, 0, false
}

func (b *Broker) saslAuthenticate(req *Request, st *connState) Reply {
	r := kwire.R{B: req.Body}
	in := r.Bytes()
	st.saslRound++
	b.journal(req, map[string]interface{}{"round": st.saslRound, "bytes": len(in)})
	body := func(code int16, msg *string, data []byte) []byte {
		var w kwire.W
		w.I16(code)
		w.NStr(msg)
		w.Bytes(data)
		if req.Version >= 1 {
			w.I64(0) // session lifetime
		}
		return w.B
	}
	if st.saslMech == "" {
		b.saslEvent(req.Conn, "authfail", st.saslRound, map[string]interface{}{"why": "state", "code": 34})
		return sendThenClose(req, body(34, nil, []byte{})) // IllegalSASLState
	}
	out, code, closeConn := b.saslStep(req.Conn, st, st.saslRound, in)
	switch {
	case code != 0:
		msg := "Authentication failed"
		return sendThenClose(req, body(code, &msg, []byte{}))
	case closeConn:
		return Reply{Close: true, CutAt: -1}
	}
	if out == nil {
		out = []byte{}
	}
	return Body(body(0, nil, out))
}

// looksFramed tells whether a bare token is in fact a complete SaslAuthenticate request (header + bytes field).
func looksFramed(in []byte) bool {
	r := kwire.R{B: in}
	key, ver := r.I16(), r.I16()
	r.I32()
	r.NStr()
	if r.Err != nil || key != SaslAuthenticate || ver < 0 || ver > 2 {
		return false
	}
	r.Bytes()
	return r.Err == nil && len(r.B) == 0
}

// rawSaslToken handles one bare token of a handshake-v0 exchange; false closes the connection.
func (b *Broker) rawSaslToken(conn *fakenet.Conn, st *connState, in []byte) bool {
	st.saslRound++
	info := map[string]interface{}{"rawtoken": st.saslRound, "bytes": len(in)}
	if looksFramed(in) {
		info["looksFramed"] = true
	}
	b.C.record(JournalEntry{Broker: b.ID, ConnID: conn.ID, Owner: conn.Owner, ApiKey: -1, Info: info})
	out, code, closeConn := b.saslStep(conn, st, st.saslRound, in)
	if code != 0 || closeConn {
		return false // a real broker drops the connection on a failed raw exchange: there is no frame to carry an error code
	}
	var l [4]byte
	binary.BigEndian.PutUint32(l[:], uint32(len(out)))
	conn.Write(append(l[:], out...))
	return true
}
