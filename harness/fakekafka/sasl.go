package fakekafka

import (
	"bytes"
	"encoding/binary"

	"github.com/xdg-go/scram"

	"verifharness/fakenet"
	"verifharness/kwire"
)

// SaslConfig turns on authentication on every broker of the cluster.
type SaslConfig struct {
	Mechanisms []string          // enabled mechanisms, e.g. PLAIN, SCRAM-SHA-256, SCRAM-SHA-512
	Users      map[string]string // user -> password
	// Fault injection, all optional. Step numbers: 0 handshake, 1.. authenticate round.
	FailStep    int    // -1: none
	FailKind    string // "error" (error code), "malformed", "badproof", "close"
	HandshakeV1 bool   // informational: whether v1 is advertised is decided by Versions
}

func (b *Broker) saslHandshake(req *Request, st *connState) Reply {
	r := kwire.R{B: req.Body}
	mech := r.Str()
	cfg := b.C.Sasl
	b.journal(req, map[string]interface{}{"mechanism": mech})
	var w kwire.W
	ok := false
	if cfg != nil {
		for _, m := range cfg.Mechanisms {
			if m == mech {
				ok = true
			}
		}
	}
	if cfg != nil && cfg.FailStep == 0 {
		switch cfg.FailKind {
		case "close":
			return Reply{Close: true, CutAt: -1}
		case "error":
			ok = false
		}
	}
	if !ok {
		w.I16(33) // UnsupportedSASLMechanism
	} else {
		w.I16(0)
		st.saslMech = mech
		if req.Version == 0 {
			st.rawSasl = true
		}
	}
	var ms []string
	if cfg != nil {
		ms = cfg.Mechanisms
	}
	w.ArrayLen(len(ms))
	for _, m := range ms {
		w.Str(m)
	}
	return Body(w.B)
}

type scramState struct {
	conv *scram.ServerConversation
	step int
}

// authStep runs one step of the mechanism; returns response bytes, whether auth is now complete, and ok=false on failure.
func (b *Broker) authStep(st *connState, in []byte) (out []byte, done bool, ok bool) {
	cfg := b.C.Sasl
	switch st.saslMech {
	case "PLAIN":
		parts := bytes.Split(in, []byte{0})
		if len(parts) != 3 {
			return nil, false, false
		}
		pw, exists := cfg.Users[string(parts[1])]
		if !exists || pw != string(parts[2]) {
			return nil, false, false
		}
		return []byte{}, true, true
	case "SCRAM-SHA-256", "SCRAM-SHA-512":
		ss, _ := st.scram.(*scramState)
		if ss == nil {
			hg := scram.SHA256
			if st.saslMech == "SCRAM-SHA-512" {
				hg = scram.SHA512
			}
			srv, err := hg.NewServer(func(user string) (scram.StoredCredentials, error) {
				pw, exists := cfg.Users[user]
				if !exists {
					return scram.StoredCredentials{}, scramUnknownUser{}
				}
				cl, err := hg.NewClient(user, pw, "")
				if err != nil {
					return scram.StoredCredentials{}, err
				}
				return cl.GetStoredCredentials(scram.KeyFactors{Salt: "fakesalt-" + user, Iters: 4096}), nil
			})
			if err != nil {
				return nil, false, false
			}
			ss = &scramState{conv: srv.NewConversation()}
			st.scram = ss
		}
		ss.step++
		resp, err := ss.conv.Step(string(in))
		if err != nil {
			return []byte(resp), false, false
		}
		if ss.conv.Done() {
			return []byte(resp), true, ss.conv.Valid()
		}
		return []byte(resp), false, true
	}
	return nil, false, false
}

type scramUnknownUser struct{}

func (scramUnknownUser) Error() string { return "unknown user" }

func (b *Broker) saslFault(st *connState, round int, out []byte) (override []byte, kind string) {
	cfg := b.C.Sasl
	if cfg == nil || cfg.FailStep != round {
		return out, ""
	}
	switch cfg.FailKind {
	case "malformed":
		return []byte("x=garbage,,"), "malformed"
	case "badproof":
		if len(out) > 3 {
			o := append([]byte{}, out...)
			o[len(o)-2] ^= 0x15
			return o, "badproof"
		}
		return []byte("v=AAAA"), "badproof"
	}
	return out, cfg.FailKind
}

func (b *Broker) saslAuthenticate(req *Request, st *connState) Reply {
	r := kwire.R{B: req.Body}
	in := r.Bytes()
	st.saslRound++
	b.journal(req, map[string]interface{}{"round": st.saslRound, "bytes": len(in)})
	if st.saslMech == "" {
		var w kwire.W
		w.I16(34) // IllegalSASLState
		w.NStr(nil)
		w.Bytes([]byte{})
		return Body(w.B)
	}
	out, done, ok := b.authStep(st, in)
	out, kind := b.saslFault(st, st.saslRound, out)
	var w kwire.W
	switch {
	case kind == "close":
		return Reply{Close: true, CutAt: -1}
	case kind == "error" || !ok:
		w.I16(58) // SASLAuthenticationFailed
		msg := "authentication failed"
		w.NStr(&msg)
		w.Bytes([]byte{})
		rep := Body(w.B)
		return rep
	}
	if done && kind == "" {
		st.saslDone = true
	}
	w.I16(0)
	w.NStr(nil)
	w.Bytes(out)
	return Body(w.B)
}

// rawSaslToken handles one bare token of a handshake-v0 exchange; false closes the connection.
func (b *Broker) rawSaslToken(conn *fakenet.Conn, st *connState, in []byte) bool {
	st.saslRound++
	b.C.record(JournalEntry{Broker: b.ID, ConnID: conn.ID, Owner: conn.Owner, ApiKey: -1, Info: map[string]interface{}{"rawtoken": st.saslRound, "bytes": len(in)}})
	out, done, ok := b.authStep(st, in)
	out, kind := b.saslFault(st, st.saslRound, out)
	if kind == "close" || kind == "error" || !ok {
		return false // a real broker drops the connection on a failed raw exchange
	}
	var l [4]byte
	binary.BigEndian.PutUint32(l[:], uint32(len(out)))
	conn.Write(append(l[:], out...))
	if done && kind == "" {
		st.saslDone = true
		st.rawSasl = false
	}
	return true
}
