package fakekafka

// DescribeGroups and ListGroups (non-flexible versions), added for the transport engine (C12: requests
// the Transport splits into one sub-request per group / per broker). Nothing here changes the default
// handlers: an Intercept calls these for the two API keys and advertises them in its version tables.
//
//	DescribeGroups v0..v4   (answers every group of the request: NOT_COORDINATOR unless this broker coordinates it)
//	ListGroups     v0..v2   (the groups this broker coordinates)

import (
	"sort"

	"verifharness/kwire"
)

// DescribeGroupsHandle answers a DescribeGroups request as the broker req.Broker; coordOf gives the
// coordinator of a group id.
func DescribeGroupsHandle(req *Request, coordOf func(string) int) Reply {
	b := req.Broker
	r := kwire.R{B: req.Body}
	var ids []string
	n := r.ArrayLen()
	for i := 0; i < n; i++ {
		ids = append(ids, r.Str())
	}
	b.journal(req, map[string]interface{}{"groups": ids})
	var w kwire.W
	if req.Version >= 1 {
		w.I32(0)
	}
	w.ArrayLen(len(ids))
	for _, id := range ids {
		code := int16(0)
		state := "Empty"
		if coordOf(id) != b.ID {
			code, state = ErrNotCoordinator, ""
		}
		w.I16(code)
		w.Str(id)
		w.Str(state)
		w.Str("")
		w.Str("")
		w.ArrayLen(0)
		if req.Version >= 3 {
			w.I32(0)
		}
	}
	return Body(w.B)
}

// ListGroupsHandle answers with the groups (of the given list) this broker coordinates.
func ListGroupsHandle(req *Request, groups []string, coordOf func(string) int) Reply {
	b := req.Broker
	b.journal(req, nil)
	var mine []string
	for _, g := range groups {
		if coordOf(g) == b.ID {
			mine = append(mine, g)
		}
	}
	sort.Strings(mine)
	var w kwire.W
	if req.Version >= 1 {
		w.I32(0)
	}
	w.I16(0)
	w.ArrayLen(len(mine))
	for _, g := range mine {
		w.Str(g)
		w.Str("consumer")
	}
	return Body(w.B)
}
