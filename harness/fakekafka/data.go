package fakekafka

import (
	"fmt"
	"sort"

	"verifharness/krec"
	"verifharness/kwire"
)

// PBatch is one physical batch of a partition log, as stored on the broker.
type PBatch struct {
	Base, Last int64      // offset range the batch covers (Last >= every record's offset)
	Records    []krec.Rec // records present (may be empty: retained empty batch)
	Bytes      []byte     // encoded form
	Magic      int8
	Control    bool
}

type Partition struct {
	Topic    string
	ID       int
	Leader   int
	Replicas []int
	ISR      []int
	Offline  []int
	Err      int16 // error code reported in metadata for this partition
	LogStart int64
	HW       int64 // high watermark = log end offset
	Batches  []PBatch
	// Fault plans consumed by the handlers, one entry per request
	FetchPlan   []FetchFault
	ProducePlan []ProduceFault
	ListErr     int16 // error code for ListOffsets on this partition
	ListErrTime int16 // error code for ListOffsets lookups by timestamp (ts >= 0) only, e.g. UnsupportedForMessageFormat
	Timestamps  map[int64]int64
	Applied     [][]krec.Batch // produce requests applied, decoded by krec
}

type FetchFault struct {
	Err        int16 // error code in the partition response
	Empty      bool  // answer with no records (time-out)
	TruncAt    int   // > 0: cut the record set after this many bytes
	CutFrame   int   // >= 0 with UseCut: deliver only this many bytes of the frame, then close
	UseCut     bool
	MaxBatches int // > 0: at most this many batches in the response
}

type ProduceFault struct {
	Err        int16
	DropBefore bool // close the connection before applying
	DropAfter  bool // apply, then close the connection without answering
	CutFrame   int
	UseCut     bool
}

func (c *Cluster) AddTopic(name string, nparts int) *Topic {
	c.mu.Lock()
	defer c.mu.Unlock()
	return c.addTopicLocked(name, nparts)
}

func (c *Cluster) addTopicLocked(name string, nparts int) *Topic {
	t := &Topic{Name: name}
	ids := c.BrokerIDs()
	for p := 0; p < nparts; p++ {
		leader := ids[p%len(ids)]
		t.Partitions = append(t.Partitions, &Partition{Topic: name, ID: p, Leader: leader, Replicas: []int{leader}, ISR: []int{leader}})
	}
	c.Topics[name] = t
	return t
}

func (c *Cluster) Part(topic string, p int) *Partition {
	t := c.Topics[topic]
	if t == nil || p < 0 || p >= len(t.Partitions) {
		return nil
	}
	return t.Partitions[p]
}

// AppendBatch adds a physical batch to the log and advances the high watermark.
func (p *Partition) AppendBatch(b PBatch) {
	p.Batches = append(p.Batches, b)
	if b.Last+1 > p.HW {
		p.HW = b.Last + 1
	}
}

// AppendV2 appends records as one v2 batch with the given codec.
func (p *Partition) AppendV2(recs []krec.Rec, codec int) {
	p.AppendBatch(PBatch{Base: recs[0].Offset, Last: recs[len(recs)-1].Offset, Records: recs, Bytes: krec.SimpleV2(recs, codec), Magic: 2})
}

// AllRecords returns the stored, non-control records in offset order.
func (p *Partition) AllRecords() []krec.Rec {
	var out []krec.Rec
	for _, b := range p.Batches {
		if !b.Control {
			out = append(out, b.Records...)
		}
	}
	return out
}

// recordSet returns the bytes served for a fetch at offset off (whole batches from the one containing off).
func (p *Partition) recordSet(off int64, maxBytes int, maxBatches int, firstWhole bool) []byte {
	var out []byte
	n := 0
	for _, b := range p.Batches {
		if b.Last < off {
			continue
		}
		if maxBatches > 0 && n >= maxBatches {
			break
		}
		if len(out)+len(b.Bytes) > maxBytes {
			if n == 0 && firstWhole {
				out = append(out, b.Bytes...)
				break
			}
			room := maxBytes - len(out)
			if room > 0 {
				out = append(out, b.Bytes[:room]...)
			}
			break
		}
		out = append(out, b.Bytes...)
		n++
	}
	return out
}

// --- Metadata ------------------------------------------------------------------

func (b *Broker) metadata(req *Request) Reply {
	r := kwire.R{B: req.Body}
	var names []string
	all := false
	n := r.ArrayLen()
	if n < 0 || (req.Version == 0 && n == 0) {
		all = true
	}
	for i := 0; i < n; i++ {
		names = append(names, r.Str())
	}
	allowAuto := true
	if req.Version >= 4 {
		allowAuto = r.Bool()
	}
	c := b.C
	c.mu.Lock()
	defer c.mu.Unlock()
	if all {
		for name := range c.Topics {
			names = append(names, name)
		}
		sort.Strings(names)
	}
	b.journalLocked(req, map[string]interface{}{"topics": names, "all": all})
	var w kwire.W
	if req.Version >= 3 {
		w.I32(0)
	}
	ids := c.BrokerIDs()
	w.ArrayLen(len(ids))
	for _, id := range ids {
		br := c.Brokers[id]
		w.I32(int32(br.ID))
		w.Str(br.Host)
		w.I32(int32(br.Port))
		if req.Version >= 1 {
			if br.Rack == "" {
				w.NStr(nil)
			} else {
				w.NStr(&br.Rack)
			}
		}
	}
	if req.Version >= 2 {
		w.NStr(&c.ClusterID)
	}
	if req.Version >= 1 {
		w.I32(int32(c.Controller))
	}
	w.ArrayLen(len(names))
	for _, name := range names {
		t := c.Topics[name]
		if t == nil && allowAuto && c.AutoCreate > 0 {
			c.addTopicLocked(name, c.AutoCreate)
			// like a real broker: the first answer says the leader is not available yet
			w.I16(5)
			w.Str(name)
			if req.Version >= 1 {
				w.Bool(false)
			}
			w.ArrayLen(0)
			continue
		}
		if t == nil {
			w.I16(3)
			w.Str(name)
			if req.Version >= 1 {
				w.Bool(false)
			}
			w.ArrayLen(0)
			continue
		}
		w.I16(0)
		w.Str(name)
		if req.Version >= 1 {
			w.Bool(t.Internal)
		}
		w.ArrayLen(len(t.Partitions))
		for _, p := range t.Partitions {
			w.I16(p.Err)
			w.I32(int32(p.ID))
			w.I32(int32(p.Leader))
			w.ArrayLen(len(p.Replicas))
			for _, x := range p.Replicas {
				w.I32(int32(x))
			}
			w.ArrayLen(len(p.ISR))
			for _, x := range p.ISR {
				w.I32(int32(x))
			}
			if req.Version >= 5 {
				w.ArrayLen(len(p.Offline))
				for _, x := range p.Offline {
					w.I32(int32(x))
				}
			}
		}
	}
	return Body(w.B)
}

func (b *Broker) journalLocked(req *Request, info map[string]interface{}) {
	cid := ""
	if req.ClientID != nil {
		cid = *req.ClientID
	}
	e := JournalEntry{Seq: req.Seq, Broker: b.ID, ConnID: req.Conn.ID, Owner: req.Conn.Owner, ApiKey: req.ApiKey,
		Version: req.Version, CorrID: req.CorrID, ClientID: cid, Info: info}
	b.C.journal = append(b.C.journal, e)
	if f := b.C.OnJournal; f != nil {
		f(e)
	}
}

// --- ListOffsets -----------------------------------------------------------------

// OffsetForTime: -1 latest (HW), -2 earliest (log start), else the first offset whose timestamp >= ts.
func (p *Partition) OffsetForTime(ts int64) (int64, int64) {
	switch ts {
	case -1:
		return p.HW, -1
	case -2:
		return p.LogStart, -1
	}
	for _, r := range p.AllRecords() {
		if r.Offset >= p.LogStart && r.TsMs >= ts {
			return r.Offset, r.TsMs
		}
	}
	return -1, -1
}

func (b *Broker) listOffsets(req *Request) Reply {
	r := kwire.R{B: req.Body}
	r.I32() // replica id
	type pq struct {
		p  int32
		ts int64
	}
	type tq struct {
		name  string
		parts []pq
	}
	var qs []tq
	nt := r.ArrayLen()
	for i := 0; i < nt; i++ {
		t := tq{name: r.Str()}
		np := r.ArrayLen()
		for j := 0; j < np; j++ {
			q := pq{p: r.I32(), ts: r.I64()}
			if req.Version == 0 {
				r.I32() // max_num_offsets
			}
			t.parts = append(t.parts, q)
		}
		qs = append(qs, t)
	}
	c := b.C
	c.mu.Lock()
	defer c.mu.Unlock()
	info := []interface{}{}
	var w kwire.W
	if req.Version >= 2 {
		w.I32(0)
	}
	w.ArrayLen(len(qs))
	for _, t := range qs {
		w.Str(t.name)
		w.ArrayLen(len(t.parts))
		for _, q := range t.parts {
			info = append(info, []interface{}{t.name, int(q.p), q.ts})
			w.I32(q.p)
			p := c.Part(t.name, int(q.p))
			var code int16
			var off, ts int64 = -1, -1
			switch {
			case p == nil:
				code = 3
			case p.ListErr != 0:
				code = p.ListErr
			case p.Leader != b.ID:
				code = 6
			case p.ListErrTime != 0 && q.ts >= 0:
				code = p.ListErrTime
			default:
				off, ts = p.OffsetForTime(q.ts)
			}
			w.I16(code)
			if req.Version == 0 {
				if code == 0 {
					w.ArrayLen(1)
					w.I64(off)
				} else {
					w.ArrayLen(0)
				}
			} else {
				w.I64(ts)
				w.I64(off)
			}
		}
	}
	b.journalLocked(req, map[string]interface{}{"q": info})
	return Body(w.B)
}

// --- Fetch -------------------------------------------------------------------------

func (b *Broker) fetch(req *Request) Reply {
	r := kwire.R{B: req.Body}
	r.I32()
	maxWait := r.I32()
	minBytes := r.I32()
	maxBytesAll := int32(1 << 30)
	if req.Version >= 3 {
		maxBytesAll = r.I32()
	}
	if req.Version >= 4 {
		r.I8()
	}
	if req.Version >= 7 {
		r.I32()
		r.I32()
	}
	type pq struct {
		p   int32
		off int64
		max int32
	}
	type tq struct {
		name  string
		parts []pq
	}
	var qs []tq
	nt := r.ArrayLen()
	for i := 0; i < nt; i++ {
		t := tq{name: r.Str()}
		np := r.ArrayLen()
		for j := 0; j < np; j++ {
			q := pq{}
			q.p = r.I32()
			if req.Version >= 9 {
				r.I32()
			}
			q.off = r.I64()
			if req.Version >= 5 {
				r.I64()
			}
			q.max = r.I32()
			t.parts = append(t.parts, q)
		}
		qs = append(qs, t)
	}
	_ = maxWait
	_ = minBytes
	c := b.C
	c.mu.Lock()
	defer c.mu.Unlock()
	rep := Reply{CutAt: -1}
	info := []interface{}{}
	var w kwire.W
	if req.Version >= 1 {
		w.I32(0)
	}
	if req.Version >= 7 {
		w.I16(0)
		w.I32(0)
	}
	w.ArrayLen(len(qs))
	for _, t := range qs {
		w.Str(t.name)
		w.ArrayLen(len(t.parts))
		for _, q := range t.parts {
			w.I32(q.p)
			p := c.Part(t.name, int(q.p))
			var code int16
			var set []byte
			var hw, start int64 = -1, -1
			desc := map[string]interface{}{"topic": t.name, "p": int(q.p), "off": q.off, "max": int(q.max), "v": int(req.Version)}
			switch {
			case p == nil:
				code = 3
			case p.Leader != b.ID:
				code = 6
			default:
				hw, start = p.HW, p.LogStart
				var f FetchFault
				if len(p.FetchPlan) > 0 {
					f = p.FetchPlan[0]
					p.FetchPlan = p.FetchPlan[1:]
				}
				max := int(q.max)
				if int(maxBytesAll) < max {
					max = int(maxBytesAll)
				}
				switch {
				case f.Err != 0:
					code = f.Err
				case q.off < p.LogStart || q.off > p.HW:
					code = 1
				case f.Empty:
				default:
					set = p.recordSet(q.off, max, f.MaxBatches, req.Version >= 3)
					if f.TruncAt > 0 && f.TruncAt < len(set) {
						set = set[:f.TruncAt]
					}
				}
				if f.UseCut {
					rep.CutAt = f.CutFrame
				}
				desc["fault"] = fmt.Sprintf("%+v", f)
			}
			desc["code"] = int(code)
			desc["bytes"] = len(set)
			info = append(info, desc)
			w.I16(code)
			w.I64(hw)
			if req.Version >= 4 {
				w.I64(hw)
			}
			if req.Version >= 5 {
				w.I64(start)
			}
			if req.Version >= 4 {
				w.ArrayLen(-1)
			}
			w.I32(int32(len(set)))
			w.Raw(set)
		}
	}
	b.journalLocked(req, map[string]interface{}{"fetch": info})
	rep.Body = w.B
	return rep
}

// --- Produce -----------------------------------------------------------------------

func (b *Broker) produce(req *Request) Reply {
	r := kwire.R{B: req.Body}
	if req.Version >= 3 {
		r.NStr()
	}
	acks := r.I16()
	r.I32()
	type pq struct {
		p   int32
		set []byte
	}
	type tq struct {
		name  string
		parts []pq
	}
	var qs []tq
	nt := r.ArrayLen()
	for i := 0; i < nt; i++ {
		t := tq{name: r.Str()}
		np := r.ArrayLen()
		for j := 0; j < np; j++ {
			q := pq{p: r.I32()}
			q.set = r.Bytes()
			t.parts = append(t.parts, q)
		}
		qs = append(qs, t)
	}
	c := b.C
	c.mu.Lock()
	defer c.mu.Unlock()
	rep := Reply{CutAt: -1}
	info := []interface{}{}
	var w kwire.W
	w.ArrayLen(len(qs))
	for _, t := range qs {
		w.Str(t.name)
		w.ArrayLen(len(t.parts))
		for _, q := range t.parts {
			w.I32(q.p)
			p := c.Part(t.name, int(q.p))
			var code int16
			var base int64 = -1
			desc := map[string]interface{}{"topic": t.name, "p": int(q.p), "acks": int(acks), "bytes": len(q.set), "v": int(req.Version)}
			switch {
			case p == nil:
				code = 3
			case p.Leader != b.ID:
				code = 6
			default:
				var f ProduceFault
				if len(p.ProducePlan) > 0 {
					f = p.ProducePlan[0]
					p.ProducePlan = p.ProducePlan[1:]
				}
				desc["fault"] = fmt.Sprintf("%+v", f)
				if f.DropBefore {
					b.journalLocked(req, map[string]interface{}{"produce": append(info, desc), "dropped": "before"})
					return Reply{Close: true, CutAt: -1}
				}
				if f.Err != 0 {
					code = f.Err
					break
				}
				batches, err := krec.DecodeSet(q.set)
				if err != nil {
					desc["decodeError"] = err.Error()
					code = 2 // CorruptMessage
					break
				}
				base = p.HW
				next := p.HW
				var stored []krec.Rec
				for bi := range batches {
					for ri := range batches[bi].Records {
						rec := batches[bi].Records[ri]
						rec.Offset = next
						next++
						stored = append(stored, rec)
					}
				}
				p.Applied = append(p.Applied, batches)
				if len(stored) > 0 {
					p.AppendV2(stored, krec.None)
				}
				desc["base"] = base
				desc["n"] = len(stored)
				if f.DropAfter {
					b.journalLocked(req, map[string]interface{}{"produce": append(info, desc), "dropped": "after"})
					return Reply{Close: true, CutAt: -1}
				}
				if f.UseCut {
					rep.CutAt = f.CutFrame
				}
			}
			desc["code"] = int(code)
			info = append(info, desc)
			w.I16(code)
			w.I64(base)
			if req.Version >= 2 {
				w.I64(-1)
			}
			if req.Version >= 5 {
				w.I64(p0(p))
			}
		}
	}
	if req.Version >= 1 {
		w.I32(0)
	}
	b.journalLocked(req, map[string]interface{}{"produce": info})
	if acks == 0 {
		return Reply{None: true, CutAt: -1}
	}
	rep.Body = w.B
	return rep
}

func p0(p *Partition) int64 {
	if p == nil {
		return -1
	}
	return p.LogStart
}
