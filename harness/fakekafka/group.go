package fakekafka

import (
	"sort"
	"time"

	"verifharness/kwire"
)

// Error codes used by the coordinator.
const (
	ErrCoordinatorNotAvailable = 15
	ErrNotCoordinator          = 16
	ErrIllegalGeneration       = 22
	ErrInconsistentProtocol    = 23
	ErrUnknownMemberID         = 25
	ErrRebalanceInProgress     = 27
)

type Member struct {
	ID         string
	ClientID   string
	Protocols  []GroupProtocol
	Joined     bool // joined the round in progress
	Assignment []byte
	Synced     bool
}

type GroupProtocol struct {
	Name     string
	Metadata []byte
}

type Commit struct {
	Seq        int
	Member     string
	Generation int32
	Topic      string
	Partition  int
	Offset     int64
}

type Group struct {
	ID               string
	Coordinator      int
	State            string // Empty, Joining, AwaitSync, Stable
	Generation       int32
	Members          map[string]*Member
	Leader           string
	Protocol         string
	nextMember       int
	joinGate         chan struct{} // closed when the join round completes
	syncGate         chan struct{} // closed when the leader's assignments arrived
	Committed        map[string]map[int]int64
	Commits          []Commit // acknowledged commits, in order
	Leaves           []string
	RebalanceTimeout time.Duration
	opts             *GroupOptions // the cluster's GroupOpts (groupopts.go)
}

func (c *Cluster) group(id string) *Group {
	g := c.Groups[id]
	if g == nil {
		g = &Group{ID: id, Coordinator: c.BrokerIDs()[0], State: "Empty", Members: map[string]*Member{},
			Committed: map[string]map[int]int64{}, opts: &c.GroupOpts}
		c.Groups[id] = g
	}
	return g
}

// Group returns the coordinator state of a group (created on first use). Call with the cluster locked or quiescent.
func (c *Cluster) GroupState(id string) *Group {
	c.mu.Lock()
	defer c.mu.Unlock()
	return c.group(id)
}

// Evict removes a member as a session time-out would, forcing a rebalance.
func (c *Cluster) Evict(group, member string) {
	c.mu.Lock()
	defer c.mu.Unlock()
	g := c.group(group)
	if _, ok := g.Members[member]; ok {
		delete(g.Members, member)
		g.startRebalance()
		g.maybeCompleteJoin()
	}
}

// TriggerRebalance makes the coordinator ask every member to rejoin.
func (c *Cluster) TriggerRebalance(group string) {
	c.mu.Lock()
	defer c.mu.Unlock()
	g := c.group(group)
	if len(g.Members) > 0 {
		g.startRebalance()
	}
}

func (g *Group) startRebalance() {
	if g.State == "Joining" {
		return
	}
	g.State = "Joining"
	g.joinGate = make(chan struct{})
	for _, m := range g.Members {
		m.Joined = false
		m.Synced = false
	}
	if g.syncGate != nil {
		// members blocked in SyncGroup are told to rejoin
		select {
		case <-g.syncGate:
		default:
			close(g.syncGate)
		}
	}
}

func (g *Group) maybeCompleteJoin() {
	if g.State != "Joining" {
		return
	}
	if len(g.Members) == 0 {
		g.State = "Empty"
		close(g.joinGate)
		return
	}
	for _, m := range g.Members {
		if !m.Joined {
			return
		}
	}
	if !g.joinRoundMayComplete() {
		return
	}
	g.completeJoin()
}

func (g *Group) completeJoin() {
	g.Generation++
	ids := g.memberIDs()
	g.electLeader(ids)
	// first protocol of the leader that every member supports
	g.Protocol = ""
	for _, p := range g.Members[g.Leader].Protocols {
		all := true
		for _, m := range g.Members {
			has := false
			for _, q := range m.Protocols {
				if q.Name == p.Name {
					has = true
				}
			}
			all = all && has
		}
		if all {
			g.Protocol = p.Name
			break
		}
	}
	g.State = "AwaitSync"
	g.syncGate = make(chan struct{})
	close(g.joinGate)
	if g.opts != nil && g.opts.OnRound != nil {
		g.opts.OnRound(g.Generation, g.Leader, g.listing(ids))
	}
}

func (g *Group) memberIDs() []string {
	ids := make([]string, 0, len(g.Members))
	for id := range g.Members {
		ids = append(ids, id)
	}
	sort.Strings(ids)
	return ids
}

func (b *Broker) groupFor(id string) (*Group, int16) {
	g := b.C.group(id)
	if g.Coordinator != b.ID {
		return g, ErrNotCoordinator
	}
	return g, 0
}

func (b *Broker) findCoordinator(req *Request) Reply {
	r := kwire.R{B: req.Body}
	key := r.Str()
	if req.Version >= 1 {
		r.I8()
	}
	c := b.C
	c.mu.Lock()
	defer c.mu.Unlock()
	g := c.group(key)
	b.journalLocked(req, map[string]interface{}{"key": key, "coordinator": g.Coordinator})
	var w kwire.W
	if req.Version >= 1 {
		w.I32(0)
	}
	br := c.Brokers[g.Coordinator]
	if br == nil {
		w.I16(ErrCoordinatorNotAvailable)
		if req.Version >= 1 {
			w.NStr(nil)
		}
		w.I32(-1)
		w.Str("")
		w.I32(-1)
		return Body(w.B)
	}
	w.I16(0)
	if req.Version >= 1 {
		w.NStr(nil)
	}
	w.I32(int32(br.ID))
	w.Str(br.Host)
	w.I32(int32(br.Port))
	return Body(w.B)
}

func (b *Broker) joinGroup(req *Request) Reply {
	r := kwire.R{B: req.Body}
	gid := r.Str()
	sessionTimeout := r.I32()
	rebalanceTimeout := sessionTimeout
	if req.Version >= 1 {
		rebalanceTimeout = r.I32()
	}
	memberID := r.Str()
	ptype := r.Str()
	var protos []GroupProtocol
	np := r.ArrayLen()
	for i := 0; i < np; i++ {
		protos = append(protos, GroupProtocol{Name: r.Str(), Metadata: r.Bytes()})
	}
	_ = ptype
	c := b.C
	c.mu.Lock()
	g, code := b.groupFor(gid)
	fail := func(code int16) Reply {
		var w kwire.W
		if req.Version >= 2 {
			w.I32(0)
		}
		w.I16(code)
		w.I32(-1)
		w.Str("")
		w.Str("")
		w.Str(memberID)
		w.ArrayLen(0)
		return Body(w.B)
	}
	if code != 0 {
		b.journalLocked(req, map[string]interface{}{"group": gid, "member": memberID, "code": int(code)})
		c.mu.Unlock()
		return fail(code)
	}
	if memberID != "" {
		if _, ok := g.Members[memberID]; !ok {
			b.journalLocked(req, map[string]interface{}{"group": gid, "member": memberID, "code": ErrUnknownMemberID})
			c.mu.Unlock()
			return fail(ErrUnknownMemberID)
		}
	} else {
		g.nextMember++
		cid := ""
		if req.ClientID != nil {
			cid = *req.ClientID
		}
		memberID = c.memberIDFor(cid, g.nextMember)
		g.Members[memberID] = &Member{ID: memberID, ClientID: cid}
	}
	m := g.Members[memberID]
	m.Protocols = protos
	g.startRebalance()
	m.Joined = true
	if d := time.Duration(rebalanceTimeout) * time.Millisecond; d > 0 {
		g.RebalanceTimeout = d
	}
	gate := g.joinGate
	g.maybeCompleteJoin()
	b.journalLocked(req, map[string]interface{}{"group": gid, "member": memberID, "code": 0, "round": int(g.Generation) + 1})
	timeout := g.RebalanceTimeout
	c.mu.Unlock()

	// the rebalance timeout evicts members that did not rejoin
	go func() {
		select {
		case <-gate:
		case <-time.After(timeout):
			c.mu.Lock()
			if g.State == "Joining" && g.joinGate == gate {
				for id, mm := range g.Members {
					if !mm.Joined {
						delete(g.Members, id)
					}
				}
				g.maybeCompleteJoin()
			}
			c.mu.Unlock()
		}
	}()

	return Reply{CutAt: -1, Gate: gate, Lazy: func() Reply {
		c.mu.Lock()
		defer c.mu.Unlock()
		if _, ok := g.Members[memberID]; !ok {
			return fail(ErrUnknownMemberID)
		}
		var w kwire.W
		if req.Version >= 2 {
			w.I32(0)
		}
		w.I16(0)
		w.I32(g.Generation)
		w.Str(g.Protocol)
		w.Str(g.Leader)
		w.Str(memberID)
		if memberID == g.Leader {
			ids := g.listing(g.memberIDs())
			w.ArrayLen(len(ids))
			for _, id := range ids {
				w.Str(id)
				var md []byte
				for _, p := range g.Members[id].Protocols {
					if p.Name == g.Protocol {
						md = p.Metadata
					}
				}
				w.Bytes(md)
			}
		} else {
			w.ArrayLen(0)
		}
		return Body(w.B)
	}}
}

func (b *Broker) syncGroup(req *Request) Reply {
	r := kwire.R{B: req.Body}
	gid := r.Str()
	gen := r.I32()
	memberID := r.Str()
	type asg struct {
		member string
		data   []byte
	}
	var asgs []asg
	n := r.ArrayLen()
	for i := 0; i < n; i++ {
		asgs = append(asgs, asg{r.Str(), r.Bytes()})
	}
	c := b.C
	c.mu.Lock()
	g, code := b.groupFor(gid)
	fail := func(code int16) Reply {
		var w kwire.W
		if req.Version >= 1 {
			w.I32(0)
		}
		w.I16(code)
		w.Bytes([]byte{})
		return Body(w.B)
	}
	if code == 0 {
		if _, ok := g.Members[memberID]; !ok {
			code = ErrUnknownMemberID
		} else if gen != g.Generation {
			code = ErrIllegalGeneration
		} else if g.State == "Joining" {
			code = ErrRebalanceInProgress
		}
	}
	b.journalLocked(req, map[string]interface{}{"group": gid, "member": memberID, "generation": int(gen), "code": int(code), "assignments": len(asgs)})
	if g != nil && g.opts != nil && g.opts.OnSync != nil {
		am := map[string][]byte{}
		for _, a := range asgs {
			am[a.member] = a.data
		}
		g.opts.OnSync(memberID, gen, am, code)
	}
	if code != 0 {
		c.mu.Unlock()
		return fail(code)
	}
	if memberID == g.Leader && g.State == "AwaitSync" {
		for _, a := range asgs {
			if m := g.Members[a.member]; m != nil {
				m.Assignment = a.data
			}
		}
		g.State = "Stable"
		close(g.syncGate)
	}
	gate := g.syncGate
	c.mu.Unlock()
	return Reply{CutAt: -1, Gate: gate, Lazy: func() Reply {
		c.mu.Lock()
		defer c.mu.Unlock()
		m := g.Members[memberID]
		if m == nil {
			return fail(ErrUnknownMemberID)
		}
		if g.State != "Stable" || gen != g.Generation {
			return fail(ErrRebalanceInProgress)
		}
		m.Synced = true
		var w kwire.W
		if req.Version >= 1 {
			w.I32(0)
		}
		w.I16(0)
		a := m.Assignment
		if a == nil {
			a = []byte{}
		}
		w.Bytes(a)
		return Body(w.B)
	}}
}

func (b *Broker) heartbeat(req *Request) Reply {
	r := kwire.R{B: req.Body}
	gid := r.Str()
	gen := r.I32()
	memberID := r.Str()
	c := b.C
	c.mu.Lock()
	defer c.mu.Unlock()
	g, code := b.groupFor(gid)
	if code == 0 {
		if _, ok := g.Members[memberID]; !ok {
			code = ErrUnknownMemberID
		} else if gen != g.Generation {
			code = ErrIllegalGeneration
		} else if g.State != "Stable" {
			code = ErrRebalanceInProgress
		}
	}
	b.journalLocked(req, map[string]interface{}{"group": gid, "member": memberID, "generation": int(gen), "code": int(code)})
	var w kwire.W
	if req.Version >= 1 {
		w.I32(0)
	}
	w.I16(code)
	return Body(w.B)
}

func (b *Broker) leaveGroup(req *Request) Reply {
	r := kwire.R{B: req.Body}
	gid := r.Str()
	memberID := r.Str()
	c := b.C
	c.mu.Lock()
	defer c.mu.Unlock()
	g, code := b.groupFor(gid)
	if code == 0 {
		if _, ok := g.Members[memberID]; !ok {
			code = ErrUnknownMemberID
		} else {
			delete(g.Members, memberID)
			g.Leaves = append(g.Leaves, memberID)
			g.startRebalance()
			g.maybeCompleteJoin()
		}
	}
	b.journalLocked(req, map[string]interface{}{"group": gid, "member": memberID, "code": int(code)})
	var w kwire.W
	if req.Version >= 1 {
		w.I32(0)
	}
	w.I16(code)
	return Body(w.B)
}

func (b *Broker) offsetFetch(req *Request) Reply {
	r := kwire.R{B: req.Body}
	gid := r.Str()
	type tq struct {
		name  string
		parts []int32
	}
	var qs []tq
	nt := r.ArrayLen()
	for i := 0; i < nt; i++ {
		t := tq{name: r.Str()}
		np := r.ArrayLen()
		for j := 0; j < np; j++ {
			t.parts = append(t.parts, r.I32())
		}
		qs = append(qs, t)
	}
	c := b.C
	c.mu.Lock()
	defer c.mu.Unlock()
	g, code := b.groupFor(gid)
	info := []interface{}{}
	var w kwire.W
	if req.Version >= 3 {
		w.I32(0)
	}
	if c.OffsetFetchOrder == "reverse" {
		// a coordinator need not answer in the order of the request (it may build the answer from its own tables)
		for i, j := 0, len(qs)-1; i < j; i, j = i+1, j-1 {
			qs[i], qs[j] = qs[j], qs[i]
		}
		for _, t := range qs {
			for i, j := 0, len(t.parts)-1; i < j; i, j = i+1, j-1 {
				t.parts[i], t.parts[j] = t.parts[j], t.parts[i]
			}
		}
	}
	w.ArrayLen(len(qs))
	for _, t := range qs {
		w.Str(t.name)
		w.ArrayLen(len(t.parts))
		for _, p := range t.parts {
			w.I32(p)
			off := int64(-1)
			if code == 0 {
				if m := g.Committed[t.name]; m != nil {
					if o, ok := m[int(p)]; ok {
						off = o
					}
				}
			}
			info = append(info, []interface{}{t.name, int(p), off})
			w.I64(off)
			s := ""
			w.NStr(&s)
			w.I16(code)
		}
	}
	if req.Version >= 2 {
		w.I16(code)
	}
	b.journalLocked(req, map[string]interface{}{"group": gid, "offsets": info, "code": int(code)})
	return Body(w.B)
}

func (b *Broker) offsetCommit(req *Request) Reply {
	r := kwire.R{B: req.Body}
	gid := r.Str()
	gen := int32(-1)
	memberID := ""
	if req.Version >= 1 {
		gen = r.I32()
		memberID = r.Str()
	}
	if req.Version >= 2 && req.Version <= 4 {
		r.I64()
	}
	type pq struct {
		p   int32
		off int64
	}
	type tq struct {
		name  string
		parts []pq
	}
	var qs []tq
	nt := r.ArrayLen()
	for i := 0; i < nt; i++ {
		t := tq{name: r.Str()}
		np := r.ArrayLen()
		for j := 0; j < np; j++ {
			q := pq{p: r.I32(), off: r.I64()}
			if req.Version == 1 {
				r.I64()
			}
			r.NStr()
			t.parts = append(t.parts, q)
		}
		qs = append(qs, t)
	}
	c := b.C
	c.mu.Lock()
	defer c.mu.Unlock()
	g, code := b.groupFor(gid)
	if code == 0 && !(gen == -1 && memberID == "") {
		if _, ok := g.Members[memberID]; !ok {
			code = ErrUnknownMemberID
		} else if gen != g.Generation {
			code = ErrIllegalGeneration
		} else if g.State == "Joining" {
			code = ErrRebalanceInProgress
		}
	}
	info := []interface{}{}
	var w kwire.W
	if req.Version >= 3 {
		w.I32(0)
	}
	w.ArrayLen(len(qs))
	for _, t := range qs {
		w.Str(t.name)
		w.ArrayLen(len(t.parts))
		for _, q := range t.parts {
			w.I32(q.p)
			w.I16(code)
			info = append(info, []interface{}{t.name, int(q.p), q.off})
			if code == 0 {
				if g.Committed[t.name] == nil {
					g.Committed[t.name] = map[int]int64{}
				}
				g.Committed[t.name][int(q.p)] = q.off
				g.Commits = append(g.Commits, Commit{Seq: req.Seq, Member: memberID, Generation: gen, Topic: t.name, Partition: int(q.p), Offset: q.off})
			}
		}
	}
	b.journalLocked(req, map[string]interface{}{"group": gid, "member": memberID, "generation": int(gen), "offsets": info, "code": int(code)})
	return Body(w.B)
}

// --- topics -------------------------------------------------------------------------

func (b *Broker) createTopics(req *Request) Reply {
	r := kwire.R{B: req.Body}
	type tq struct {
		name  string
		parts int32
	}
	var qs []tq
	n := r.ArrayLen()
	for i := 0; i < n; i++ {
		t := tq{name: r.Str(), parts: r.I32()}
		r.I16()
		na := r.ArrayLen()
		for j := 0; j < na; j++ {
			r.I32()
			nr := r.ArrayLen()
			for k := 0; k < nr; k++ {
				r.I32()
			}
		}
		nc := r.ArrayLen()
		for j := 0; j < nc; j++ {
			r.Str()
			r.NStr()
		}
		qs = append(qs, t)
	}
	c := b.C
	c.mu.Lock()
	defer c.mu.Unlock()
	var w kwire.W
	if req.Version >= 2 {
		w.I32(0)
	}
	w.ArrayLen(len(qs))
	names := []string{}
	for _, t := range qs {
		names = append(names, t.name)
		code := int16(0)
		if b.ID != c.Controller {
			code = 41 // NotController
		} else if c.Topics[t.name] != nil {
			code = 36
		} else {
			np := int(t.parts)
			if np <= 0 {
				np = 1
			}
			c.addTopicLocked(t.name, np)
		}
		w.Str(t.name)
		w.I16(code)
		if req.Version >= 1 {
			w.NStr(nil)
		}
	}
	b.journalLocked(req, map[string]interface{}{"topics": names})
	return Body(w.B)
}

func (b *Broker) deleteTopics(req *Request) Reply {
	r := kwire.R{B: req.Body}
	var names []string
	n := r.ArrayLen()
	for i := 0; i < n; i++ {
		names = append(names, r.Str())
	}
	c := b.C
	c.mu.Lock()
	defer c.mu.Unlock()
	var w kwire.W
	if req.Version >= 1 {
		w.I32(0)
	}
	w.ArrayLen(len(names))
	for _, name := range names {
		code := int16(0)
		if b.ID != c.Controller {
			code = 41
		} else if c.Topics[name] == nil {
			code = 3
		} else {
			delete(c.Topics, name)
		}
		w.Str(name)
		w.I16(code)
	}
	b.journalLocked(req, map[string]interface{}{"topics": names})
	return Body(w.B)
}
