package fakekafka

// Brokers that change their advertised address, added for the transport engine (C12: the
// connection group of a broker id must follow every change of its address). Nothing here changes
// the default handlers.

// Readdress re-registers the broker under a new host / port / rack: the metadata advertises the new
// values from now on and the broker also listens on the new address. The listener on the old
// address stays up (served by the same broker): requests that still arrive there are identifiable by
// the local address of their connection (Request.Conn.LocalAddr()).
func (b *Broker) Readdress(host string, port int, rack string) {
	c := b.C
	c.mu.Lock()
	if host != "" {
		b.Host = host
	}
	if port != 0 {
		b.Port = port
	}
	b.Rack = rack
	addr := b.Addr()
	c.mu.Unlock()
	c.Net.Listen(addr, b.serve)
}

// Renumber re-registers the broker with id old under the id new (same address): what it led, and the
// controller role, follow the new id.
func (c *Cluster) Renumber(old, new int) *Broker {
	c.mu.Lock()
	defer c.mu.Unlock()
	b := c.Brokers[old]
	if b == nil {
		return nil
	}
	delete(c.Brokers, old)
	b.ID = new
	c.Brokers[new] = b
	for _, t := range c.Topics {
		for _, p := range t.Partitions {
			if p.Leader == old {
				p.Leader, p.Replicas, p.ISR = new, []int{new}, []int{new}
			}
		}
	}
	if c.Controller == old {
		c.Controller = new
	}
	for _, g := range c.Groups {
		if g.Coordinator == old {
			g.Coordinator = new
		}
	}
	return b
}
