package fakekafka

// Last stable offsets and group-level coordinator errors, added for the offsets engine (C19).
// Nothing here changes the default handlers or ExtVersions: the state lives in an OffsetsExt
// value and only a cluster whose Intercept is (*OffsetsExt).Intercept sees it.
//
//	ox := fakekafka.NewOffsetsExt()
//	ox.SetLSO("topic", 0, 2)        // last stable offset of topic/0 (default: the high watermark)
//	ox.SetGroupErr("group", 14)     // the coordinator refuses OffsetFetch / OffsetCommit of the group
//	cluster.Intercept = ox.Intercept
//
// ListOffsets v2..v5 honour the isolation level of the request the way brokers do
// (Partition.fetchOffsetForTimestamp): the last fetchable offset is the last stable offset under
// read_committed (1) and the high watermark under read_uncommitted (0); timestamp -1 answers the last
// fetchable offset, -2 the log start offset, a look-up by timestamp only finds offsets below the last
// fetchable offset. ListOffsets v0/v1 have no isolation level: the default handler answers them.
//
// A group-level error is answered the way brokers do per version (OffsetFetchRequest.getErrorResponse,
// OffsetCommitRequest.getErrorResponse): OffsetFetch v0/v1 repeat the code in every requested partition
// (offset -1, empty metadata), OffsetFetch v2+ answer the top-level error code with an empty topic list,
// OffsetCommit (every version) repeats the code in every partition and commits nothing.
// Everything else is passed to Next (ExtVersions by default).

import (
	"sync"

	"verifharness/kwire"
)

type OffsetsExt struct {
	mu   sync.Mutex
	lso  map[string]map[int]int64
	gerr map[string]int16
	Next Intercept
}

func NewOffsetsExt() *OffsetsExt {
	return &OffsetsExt{lso: map[string]map[int]int64{}, gerr: map[string]int16{}, Next: ExtVersions}
}

// SetLSO sets the last stable offset of a partition (records from it up to the high watermark belong to open transactions).
func (x *OffsetsExt) SetLSO(topic string, partition int, lso int64) {
	x.mu.Lock()
	defer x.mu.Unlock()
	if x.lso[topic] == nil {
		x.lso[topic] = map[int]int64{}
	}
	x.lso[topic][partition] = lso
}

// SetGroupErr makes the coordinator answer `code` to OffsetFetch / OffsetCommit of the group (0: back to normal).
func (x *OffsetsExt) SetGroupErr(group string, code int16) {
	x.mu.Lock()
	defer x.mu.Unlock()
	if code == 0 {
		delete(x.gerr, group)
	} else {
		x.gerr[group] = code
	}
}

func (x *OffsetsExt) groupErr(group string) int16 {
	x.mu.Lock()
	defer x.mu.Unlock()
	return x.gerr[group]
}

// lastFetchable: last stable offset under read_committed, high watermark otherwise.
func (x *OffsetsExt) lastFetchable(p *Partition, isolation int8) int64 {
	if isolation != 1 {
		return p.HW
	}
	x.mu.Lock()
	defer x.mu.Unlock()
	if m := x.lso[p.Topic]; m != nil {
		if v, ok := m[p.ID]; ok {
			return v
		}
	}
	return p.HW
}

func (x *OffsetsExt) Intercept(req *Request) *Reply {
	switch {
	case req.ApiKey == ListOffsets && req.Version >= 2 && req.Version <= 5:
		rep := x.listOffsets(req)
		return &rep
	case req.ApiKey == OffsetFetch && req.Version <= 5:
		if rep := x.offsetFetchRefused(req); rep != nil {
			return rep
		}
	case req.ApiKey == OffsetCommit && req.Version <= 7:
		if rep := x.offsetCommitRefused(req); rep != nil {
			return rep
		}
	}
	if x.Next != nil {
		return x.Next(req)
	}
	return nil
}

// offsetForTimeBounded is OffsetForTime with the last fetchable offset `last` in the place of the high watermark.
func (p *Partition) offsetForTimeBounded(ts int64, last int64) (int64, int64) {
	switch ts {
	case -1:
		return last, -1
	case -2:
		return p.LogStart, -1
	}
	for _, r := range p.AllRecords() {
		if r.Offset >= p.LogStart && r.Offset < last && r.TsMs >= ts {
			return r.Offset, r.TsMs
		}
	}
	return -1, -1
}

// listOffsets answers ListOffsets v2..v5 (same layout as listOffsetsExt) honouring the isolation level.
func (x *OffsetsExt) listOffsets(req *Request) Reply {
	b := req.Broker
	r := kwire.R{B: req.Body}
	r.I32() // replica id
	isolation := r.I8()
	type pq struct {
		p  int32
		ts int64
	}
	type tq struct {
		name  string
		parts []pq
	}
	var qs []tq
	nt := r.ArrayLen()
	for i := 0; i < nt; i++ {
		t := tq{name: r.Str()}
		np := r.ArrayLen()
		for j := 0; j < np; j++ {
			q := pq{p: r.I32()}
			if req.Version >= 4 {
				r.I32() // current leader epoch
			}
			q.ts = r.I64()
			t.parts = append(t.parts, q)
		}
		qs = append(qs, t)
	}
	c := b.C
	c.mu.Lock()
	defer c.mu.Unlock()
	info := []interface{}{}
	var w kwire.W
	w.I32(0) // throttle
	w.ArrayLen(len(qs))
	for _, t := range qs {
		w.Str(t.name)
		w.ArrayLen(len(t.parts))
		for _, q := range t.parts {
			info = append(info, []interface{}{t.name, int(q.p), q.ts})
			w.I32(q.p)
			p := c.Part(t.name, int(q.p))
			var code int16
			var off, ts int64 = -1, -1
			switch {
			case p == nil:
				code = 3
			case p.ListErr != 0:
				code = p.ListErr
			case p.Leader != b.ID:
				code = 6
			case p.ListErrTime != 0 && q.ts >= 0:
				code = p.ListErrTime
			default:
				off, ts = p.offsetForTimeBounded(q.ts, x.lastFetchable(p, isolation))
			}
			w.I16(code)
			w.I64(ts)
			w.I64(off)
			if req.Version >= 4 {
				if code == 0 && off >= 0 {
					w.I32(0)
				} else {
					w.I32(-1)
				}
			}
		}
	}
	b.journalLocked(req, map[string]interface{}{"q": info, "isolation": int(isolation)})
	return Body(w.B)
}

// offsetFetchRefused answers OffsetFetch of a group with a group-level error on its coordinator; nil otherwise.
func (x *OffsetsExt) offsetFetchRefused(req *Request) *Reply {
	b := req.Broker
	r := kwire.R{B: req.Body}
	gid := r.Str()
	code := x.groupErr(gid)
	if code == 0 || r.Err != nil {
		return nil
	}
	type tq struct {
		name  string
		parts []int32
	}
	var qs []tq
	nt := r.ArrayLen()
	for i := 0; i < nt; i++ {
		t := tq{name: r.Str()}
		np := r.ArrayLen()
		for j := 0; j < np; j++ {
			t.parts = append(t.parts, r.I32())
		}
		qs = append(qs, t)
	}
	c := b.C
	c.mu.Lock()
	defer c.mu.Unlock()
	if g := c.group(gid); g.Coordinator != b.ID {
		return nil // not the coordinator: the default handler says so
	}
	info := []interface{}{}
	var w kwire.W
	if req.Version >= 3 {
		w.I32(0)
	}
	if req.Version >= 2 {
		w.ArrayLen(0)
		w.I16(code)
	} else {
		w.ArrayLen(len(qs))
		for _, t := range qs {
			w.Str(t.name)
			w.ArrayLen(len(t.parts))
			for _, p := range t.parts {
				info = append(info, []interface{}{t.name, int(p), int64(-1)})
				w.I32(p)
				w.I64(-1)
				s := ""
				w.NStr(&s)
				w.I16(code)
			}
		}
	}
	b.journalLocked(req, map[string]interface{}{"group": gid, "offsets": info, "code": int(code), "groupLevel": true})
	rep := Body(w.B)
	return &rep
}

// offsetCommitRefused answers OffsetCommit of a group with a group-level error on its coordinator; nil otherwise.
func (x *OffsetsExt) offsetCommitRefused(req *Request) *Reply {
	b := req.Broker
	r := kwire.R{B: req.Body}
	gid := r.Str()
	code := x.groupErr(gid)
	if code == 0 || r.Err != nil {
		return nil
	}
	gen := int32(-1)
	memberID := ""
	if req.Version >= 1 {
		gen = r.I32()
		memberID = r.Str()
	}
	if req.Version >= 2 && req.Version <= 4 {
		r.I64() // retention time
	}
	if req.Version >= 7 {
		r.NStr() // group instance id
	}
	type tq struct {
		name  string
		parts []int32
	}
	var qs []tq
	info := []interface{}{}
	nt := r.ArrayLen()
	for i := 0; i < nt; i++ {
		t := tq{name: r.Str()}
		np := r.ArrayLen()
		for j := 0; j < np; j++ {
			p := r.I32()
			off := r.I64()
			if req.Version == 1 {
				r.I64() // commit timestamp
			}
			if req.Version >= 6 {
				r.I32() // committed leader epoch
			}
			r.NStr()
			t.parts = append(t.parts, p)
			info = append(info, []interface{}{t.name, int(p), off})
		}
		qs = append(qs, t)
	}
	c := b.C
	c.mu.Lock()
	defer c.mu.Unlock()
	if g := c.group(gid); g.Coordinator != b.ID {
		return nil
	}
	var w kwire.W
	if req.Version >= 3 {
		w.I32(0)
	}
	w.ArrayLen(len(qs))
	for _, t := range qs {
		w.Str(t.name)
		w.ArrayLen(len(t.parts))
		for _, p := range t.parts {
			w.I32(p)
			w.I16(code)
		}
	}
	b.journalLocked(req, map[string]interface{}{"group": gid, "member": memberID, "generation": int(gen), "offsets": info, "code": int(code), "groupLevel": true})
	rep := Body(w.B)
	return &rep
}
