package fakekafka

import "fmt"

// Options of the fake group coordinator added for the leader path of the balancer engine (C14):
// who is elected leader, how the members are listed in the leader's JoinGroup response, which ids the
// members get, and how many members a join round waits for.  The zero values keep the default
// behaviour (first member in id order leads, ids listed in ascending order, "<client id>-m<n>",
// a round completes as soon as every known member has joined).

type GroupOptions struct {
	MinJoin      int                                                               // the first round completes only when this many members joined
	PreferLeader string                                                            // elected leader whenever it is a member
	MemberID     func(clientID string, n int) string                               // id of the n-th new member
	OnRound      func(gen int32, leader string, members []string)                  // a join round completed (called with the cluster locked)
	OnSync       func(member string, gen int32, asg map[string][]byte, code int16) // a SyncGroup request was handled (cluster locked)
	Listing      func(ids []string) []string                                       // order of the member list in the leader's JoinGroup response
}

func (c *Cluster) memberIDFor(clientID string, n int) string {
	if c.GroupOpts.MemberID != nil {
		return c.GroupOpts.MemberID(clientID, n)
	}
	return fmt.Sprintf("%s-m%d", clientID, n)
}

func (g *Group) joinRoundMayComplete() bool {
	return g.opts == nil || g.Generation > 0 || len(g.Members) >= g.opts.MinJoin
}

func (g *Group) electLeader(ids []string) {
	if p := g.prefer(); p != "" {
		if _, ok := g.Members[p]; ok {
			g.Leader = p
			return
		}
	}
	if _, ok := g.Members[g.Leader]; !ok {
		g.Leader = ids[0]
	}
}

func (g *Group) prefer() string {
	if g.opts == nil {
		return ""
	}
	return g.opts.PreferLeader
}

func (g *Group) listing(ids []string) []string {
	if g.opts != nil && g.opts.Listing != nil {
		return g.opts.Listing(append([]string(nil), ids...))
	}
	return ids
}
