// Package fakekafka is a scriptable in-memory Kafka cluster speaking the wire
// protocol through package kwire/krec (never through kafka-go's codecs).
package fakekafka

import (
	"encoding/binary"
	"fmt"
	"io"
	"sort"
	"sync"
	"time"

	"verifharness/fakenet"
	"verifharness/kwire"
)

// API keys used here.
const (
	Produce          = 0
	Fetch            = 1
	ListOffsets      = 2
	Metadata         = 3
	OffsetCommit     = 8
	OffsetFetch      = 9
	FindCoordinator  = 10
	JoinGroup        = 11
	Heartbeat        = 12
	LeaveGroup       = 13
	SyncGroup        = 14
	DescribeGroups   = 15
	ListGroups       = 16
	SaslHandshake    = 17
	ApiVersions      = 18
	CreateTopics     = 19
	DeleteTopics     = 20
	InitProducerID   = 22
	SaslAuthenticate = 36
)

var ApiNames = map[int16]string{0: "Produce", 1: "Fetch", 2: "ListOffsets", 3: "Metadata", 8: "OffsetCommit", 9: "OffsetFetch",
	10: "FindCoordinator", 11: "JoinGroup", 12: "Heartbeat", 13: "LeaveGroup", 14: "SyncGroup", 15: "DescribeGroups",
	16: "ListGroups", 17: "SaslHandshake", 18: "ApiVersions", 19: "CreateTopics", 20: "DeleteTopics", 22: "InitProducerId",
	36: "SaslAuthenticate"}

// Request is one decoded request frame.
type Request struct {
	Broker   *Broker
	Conn     *fakenet.Conn
	ConnSeq  int // index of the request on its connection (0-based)
	ApiKey   int16
	Version  int16
	CorrID   int32
	ClientID *string
	Body     []byte // after the header
	Frame    []byte // whole frame without the size prefix
	Seq      int    // global arrival number
	st       *connState
}

// Reply tells the connection loop what to send back.
type Reply struct {
	Body     []byte        // response body, placed after the correlation id
	None     bool          // send nothing (produce with acks=0)
	Close    bool          // close the connection instead of answering
	CutAt    int           // >= 0: send only the first CutAt bytes of the frame, then close
	Delay    time.Duration // wait before sending
	Raw      []byte        // send these bytes verbatim instead of a frame
	Chunks   []int         // deliver the frame in pieces of these sizes with small pauses
	StallAt  int           // > 0: send this many bytes of the frame (at most all but one), pause for StallFor, send the rest
	StallFor time.Duration
	OnRest   func()        // called right before the rest of a stalled frame is written
	CorrID   *int32        // override the correlation id
	Gate     chan struct{} // wait for this channel before sending
	Lazy     func() Reply  // evaluated after Gate opened; replaces this reply
	OnSend   func()        // called right before the bytes are written
}

func Body(b []byte) Reply { return Reply{Body: b, CutAt: -1} }

type JournalEntry struct {
	Seq      int
	Broker   int
	ConnID   int
	Owner    string
	ApiKey   int16
	Version  int16
	CorrID   int32
	ClientID string
	Info     map[string]interface{}
	At       time.Time
}

// VersionRange advertised for one API.
type VersionRange struct{ Min, Max int16 }

type Broker struct {
	ID       int
	Host     string
	Port     int
	Rack     string
	C        *Cluster
	Versions map[int16]VersionRange // nil: cluster default
}

func (b *Broker) Addr() string { return fmt.Sprintf("%s:%d", b.Host, b.Port) }

// Intercept may return a reply to override the default behaviour (fault injection).
type Intercept func(req *Request) *Reply

type Cluster struct {
	Net        *fakenet.Net
	mu         sync.Mutex
	Brokers    map[int]*Broker
	Topics     map[string]*Topic
	Groups     map[string]*Group
	Controller int
	ClusterID  string
	Versions   map[int16]VersionRange
	journal    []JournalEntry
	seq        int
	Intercept  Intercept
	OnJournal  func(JournalEntry)
	// OffsetFetchOrder "reverse": OffsetFetch answers list topics and partitions in the reverse of the request's order
	OffsetFetchOrder string
	AutoCreate       int // partitions for auto-created topics; 0: no auto-creation
	Sasl             *SaslConfig
	GroupOpts        GroupOptions // groupopts.go
}

type Topic struct {
	Name       string
	Partitions []*Partition
	Internal   bool
}

// DefaultVersions are the (non-flexible) ranges the fake brokers implement.
func DefaultVersions() map[int16]VersionRange {
	return map[int16]VersionRange{
		Produce: {0, 7}, Fetch: {0, 10}, ListOffsets: {0, 1}, Metadata: {0, 6}, OffsetCommit: {0, 2}, OffsetFetch: {0, 1},
		FindCoordinator: {0, 0}, JoinGroup: {0, 2}, Heartbeat: {0, 0}, LeaveGroup: {0, 0}, SyncGroup: {0, 0},
		ListGroups: {0, 1}, SaslHandshake: {0, 1}, ApiVersions: {0, 0}, CreateTopics: {0, 2}, DeleteTopics: {0, 1},
		SaslAuthenticate: {0, 0},
	}
}

func NewCluster(n *fakenet.Net, nbrokers int) *Cluster {
	c := &Cluster{Net: n, Brokers: map[int]*Broker{}, Topics: map[string]*Topic{}, Groups: map[string]*Group{},
		Controller: 1, ClusterID: "fake", Versions: DefaultVersions()}
	for i := 1; i <= nbrokers; i++ {
		c.AddBroker(i)
	}
	return c
}

func (c *Cluster) AddBroker(id int) *Broker {
	b := &Broker{ID: id, Host: fmt.Sprintf("b%d", id), Port: 9092, C: c}
	c.mu.Lock()
	c.Brokers[id] = b
	c.mu.Unlock()
	c.Net.Listen(b.Addr(), b.serve)
	return b
}

func (c *Cluster) Lock()   { c.mu.Lock() }
func (c *Cluster) Unlock() { c.mu.Unlock() }

func (c *Cluster) BrokerIDs() []int {
	ids := make([]int, 0, len(c.Brokers))
	for id := range c.Brokers {
		ids = append(ids, id)
	}
	sort.Ints(ids)
	return ids
}

func (c *Cluster) Journal() []JournalEntry {
	c.mu.Lock()
	defer c.mu.Unlock()
	return append([]JournalEntry{}, c.journal...)
}

func (c *Cluster) record(e JournalEntry) {
	c.mu.Lock()
	c.journal = append(c.journal, e)
	f := c.OnJournal
	c.mu.Unlock()
	if f != nil {
		f(e)
	}
}

func (b *Broker) versions() map[int16]VersionRange {
	if b.Versions != nil {
		return b.Versions
	}
	return b.C.Versions
}

// serve is the connection loop: one request at a time, in order.
func (b *Broker) serve(conn *fakenet.Conn) {
	defer conn.Close()
	st := &connState{}
	for n := 0; ; n++ {
		var szb [4]byte
		if _, err := io.ReadFull(conn, szb[:]); err != nil {
			return
		}
		size := int(binary.BigEndian.Uint32(szb[:]))
		if size < 0 || size > 64<<20 || (size < 8 && !st.rawSasl) {
			return
		}
		frame := make([]byte, size)
		if _, err := io.ReadFull(conn, frame); err != nil {
			return
		}
		if st.rawSasl {
			// SASL handshake v0: the authentication bytes travel as bare size-prefixed tokens
			if !b.rawSaslToken(conn, st, frame) {
				return
			}
			continue
		}
		r := kwire.R{B: frame}
		req := &Request{Broker: b, Conn: conn, ConnSeq: n, Frame: frame, st: st}
		req.ApiKey = r.I16()
		req.Version = r.I16()
		req.CorrID = r.I32()
		req.ClientID = r.NStr()
		if r.Err != nil {
			return
		}
		req.Body = r.B
		b.C.mu.Lock()
		b.C.seq++
		req.Seq = b.C.seq
		icpt := b.C.Intercept
		b.C.mu.Unlock()

		var rep *Reply
		if icpt != nil {
			rep = icpt(req)
		}
		if rep == nil {
			rp := b.handle(req, st)
			rep = &rp
		}
		if !b.send(conn, req, rep) {
			return
		}
	}
}

type connState struct {
	rawSasl   bool
	saslMech  string
	saslDone  bool
	saslRound int
	scram     interface{}
}

func (b *Broker) send(conn *fakenet.Conn, req *Request, rep *Reply) bool {
	if rep.Gate != nil {
		select {
		case <-rep.Gate:
		case <-conn.Done():
			return false
		}
	}
	if rep.Lazy != nil {
		r2 := rep.Lazy()
		r2.Gate, r2.Lazy = nil, nil
		if r2.Delay == 0 {
			r2.Delay = rep.Delay
		}
		if r2.OnSend == nil {
			r2.OnSend = rep.OnSend
		}
		return b.send(conn, req, &r2)
	}
	if rep.Delay > 0 {
		select {
		case <-time.After(rep.Delay):
		case <-conn.Done():
			return false
		}
	}
	if rep.Close {
		return false
	}
	if rep.None {
		return true
	}
	if conn.IsClosed() {
		return false
	}
	if rep.OnSend != nil {
		rep.OnSend()
	}
	var frame []byte
	if rep.Raw != nil {
		frame = rep.Raw
	} else {
		id := req.CorrID
		if rep.CorrID != nil {
			id = *rep.CorrID
		}
		var w kwire.W
		w.I32(id)
		w.Raw(rep.Body)
		frame = kwire.Frame(w.B)
	}
	if rep.CutAt >= 0 && rep.CutAt < len(frame) {
		conn.Write(frame[:rep.CutAt])
		return false
	}
	if rep.StallAt > 0 && len(frame) > 1 {
		n := rep.StallAt
		if n > len(frame)-1 {
			n = len(frame) - 1
		}
		conn.Write(frame[:n])
		time.Sleep(rep.StallFor)
		if rep.OnRest != nil {
			rep.OnRest()
		}
		conn.Write(frame[n:])
		return true
	}
	if len(rep.Chunks) > 0 {
		p := frame
		for _, n := range rep.Chunks {
			if n > len(p) {
				n = len(p)
			}
			conn.Write(p[:n])
			p = p[n:]
			time.Sleep(2 * time.Millisecond)
		}
		if len(p) > 0 {
			conn.Write(p)
		}
		return true
	}
	conn.Write(frame)
	return true
}

func (b *Broker) journal(req *Request, info map[string]interface{}) {
	cid := ""
	if req.ClientID != nil {
		cid = *req.ClientID
	}
	b.C.record(JournalEntry{Seq: req.Seq, Broker: b.ID, ConnID: req.Conn.ID, Owner: req.Conn.Owner, ApiKey: req.ApiKey,
		Version: req.Version, CorrID: req.CorrID, ClientID: cid, Info: info, At: time.Now()})
}

// Handle runs the default behaviour for a request (used by intercepts that only decorate the reply).
func (b *Broker) Handle(req *Request) Reply { return b.handle(req, req.st) }

func (b *Broker) handle(req *Request, st *connState) Reply {
	if b.C.Sasl != nil && !st.saslDone {
		switch req.ApiKey {
		case ApiVersions, SaslHandshake, SaslAuthenticate:
		default:
			// a real broker closes the connection when an unauthenticated client sends anything else
			b.journal(req, map[string]interface{}{"preauth": true})
			return Reply{Close: true, CutAt: -1}
		}
	}
	switch req.ApiKey {
	case ApiVersions:
		return b.apiVersions(req)
	case Metadata:
		return b.metadata(req)
	case ListOffsets:
		return b.listOffsets(req)
	case Fetch:
		return b.fetch(req)
	case Produce:
		return b.produce(req)
	case FindCoordinator:
		return b.findCoordinator(req)
	case JoinGroup:
		return b.joinGroup(req)
	case SyncGroup:
		return b.syncGroup(req)
	case Heartbeat:
		return b.heartbeat(req)
	case LeaveGroup:
		return b.leaveGroup(req)
	case OffsetFetch:
		return b.offsetFetch(req)
	case OffsetCommit:
		return b.offsetCommit(req)
	case CreateTopics:
		return b.createTopics(req)
	case DeleteTopics:
		return b.deleteTopics(req)
	case SaslHandshake:
		return b.saslHandshake(req, st)
	case SaslAuthenticate:
		return b.saslAuthenticate(req, st)
	}
	b.journal(req, map[string]interface{}{"unsupported": true})
	return Reply{Close: true, CutAt: -1}
}

func (b *Broker) apiVersions(req *Request) Reply {
	b.journal(req, nil)
	var w kwire.W
	w.I16(0)
	vs := b.versions()
	keys := make([]int, 0, len(vs))
	for k := range vs {
		keys = append(keys, int(k))
	}
	sort.Ints(keys)
	w.ArrayLen(len(keys))
	for _, k := range keys {
		w.I16(int16(k))
		w.I16(vs[int16(k)].Min)
		w.I16(vs[int16(k)].Max)
	}
	if req.Version >= 1 {
		w.I32(0)
	}
	return Body(w.B)
}
