//go:build verif

package transdrv

import (
	"context"
	"encoding/binary"
	"errors"
	"fmt"
	"io"
	"net"
	"sort"
	"strconv"
	"strings"
	"sync"
	"time"

	kafka "github.com/segmentio/kafka-go"
	"github.com/segmentio/kafka-go/protocol"
	"github.com/segmentio/kafka-go/sasl/plain"

	"verifharness/fakekafka"
	"verifharness/fakenet"
	"verifharness/krec"
	"verifharness/kwire"
	"verifharness/trace"
)

const (
	tsBase     = int64(1_700_000_000_000)
	nrecs      = 6
	fetchBytes = 1 << 20
)

// API keys by name (the names used in scripts, journals and the TLA+ modules).
var ApiKeys = map[string]int16{"Produce": 0, "Fetch": 1, "ListOffsets": 2, "Metadata": 3, "OffsetCommit": 8, "OffsetFetch": 9,
	"FindCoordinator": 10, "JoinGroup": 11, "DescribeGroups": 15, "ListGroups": 16, "Heartbeat": 12, "LeaveGroup": 13, "SyncGroup": 14, "ApiVersions": 18,
	"SaslHandshake": 17, "SaslAuthenticate": 36, "CreateTopics": 19, "DeleteTopics": 20, "InitProducerId": 22, "AddPartitionsToTxn": 24, "AddOffsetsToTxn": 25, "EndTxn": 26}

var apiNames = func() map[int16]string {
	m := map[int16]string{}
	for k, v := range ApiKeys {
		m[v] = k
	}
	return m
}()

// highest version of each API the fake cluster (with this package's patches) can answer
var servable = map[int16]int16{0: 8, 1: 11, 2: 5, 3: 8, 8: 7, 9: 5, 10: 2, 11: 2, 12: 2, 13: 2, 14: 2, 15: 4, 16: 2, 17: 1, 18: 0, 36: 1, 19: 4, 20: 3, 22: 1, 24: 2, 25: 2, 26: 2}

// ClientRanges reports what the library implements (protocol.ApiKey.MinVersion/MaxVersion).
func ClientRanges() map[string][]int {
	out := map[string][]int{}
	for name, k := range ApiKeys {
		a := protocol.ApiKey(k)
		out[name] = []int{int(a.MinVersion()), int(a.MaxVersion())}
	}
	return out
}

func apiName(k int16) string {
	if n, ok := apiNames[k]; ok {
		return n
	}
	return "Api" + strconv.Itoa(int(k))
}

type run struct {
	sc     *Script
	rec    *trace.Recorder
	net    *fakenet.Net
	cl     *fakekafka.Cluster
	tr     *kafka.Transport
	client *kafka.Client

	cmu      sync.Mutex // serialises cluster changes and request handling: the journal order is a linearisation
	cond     *sync.Cond
	coord    int
	txn      int
	ops      map[int]*Op
	held     map[int]chan struct{}
	arrived  map[int]chan struct{}
	wcount   map[string]int
	bconns   map[int][]*fakenet.Conn
	metaReq  int
	lastMove time.Time
	moveReq  int // number of metadata requests that had arrived when the cluster last changed
	pidSeq   int64
	dialHook func()
	anyOp    bool // a call was made: the pool exists
	listOp   int  // the listgroups call in progress
	listSeen int
	dmu      sync.Mutex // serialises dials with the tear-down of the scenario
	down     bool
}

func tpBase(sc *Script, t string, p int) int64 {
	idx := 0
	for i, ts := range sc.Topics {
		if ts.Name == t {
			idx = i
		}
	}
	if strings.HasPrefix(t, "new-") {
		idx = 7
	}
	return int64(100 * (1 + idx*4 + p))
}

func valueOf(t string, p int, off int64) string { return fmt.Sprintf("rec-%s-%d-%d", t, p, off) }

func (r *run) populate(t string, p *fakekafka.Partition) {
	base := tpBase(r.sc, t, p.ID)
	p.LogStart, p.HW = base, base
	for k := 0; k < nrecs; k++ {
		off := base + int64(k)
		p.AppendV2([]krec.Rec{{Offset: off, TsMs: tsBase + int64(k)*1000, Key: []byte("k"), Value: []byte(valueOf(t, p.ID, off))}}, krec.None)
	}
}

func (r *run) versionsFor(b int) map[int16]fakekafka.VersionRange {
	vs := fakekafka.ExtDefaultVersions()
	vs[fakekafka.FindCoordinator] = fakekafka.VersionRange{Min: 0, Max: 2}
	vs[15] = fakekafka.VersionRange{Min: 0, Max: 4}
	vs[16] = fakekafka.VersionRange{Min: 0, Max: 2}
	vs[22] = fakekafka.VersionRange{Min: 0, Max: 1}
	vs[24] = fakekafka.VersionRange{Min: 0, Max: 2}
	vs[26] = fakekafka.VersionRange{Min: 0, Max: 2}
	for _, key := range []string{"0", strconv.Itoa(b)} {
		for name, mm := range r.sc.VTab[key] {
			k, ok := ApiKeys[name]
			if !ok || len(mm) != 2 {
				continue
			}
			if mm[0] < 0 {
				delete(vs, k) // not advertised
			} else {
				vs[k] = fakekafka.VersionRange{Min: int16(mm[0]), Max: int16(mm[1])}
			}
		}
	}
	return vs
}

func (r *run) vtabEvent(ids []int) []interface{} {
	var out []interface{}
	for _, b := range ids {
		vs := r.versionsFor(b)
		var apis []interface{}
		keys := make([]int, 0, len(vs))
		for k := range vs {
			keys = append(keys, int(k))
		}
		sort.Ints(keys)
		for _, k := range keys {
			apis = append(apis, map[string]interface{}{"api": apiName(int16(k)), "min": int(vs[int16(k)].Min), "max": int(vs[int16(k)].Max)})
		}
		out = append(out, map[string]interface{}{"b": b, "apis": apis})
	}
	return out
}

func allBrokers(sc *Script) []int {
	seen := map[int]bool{}
	for _, b := range sc.Brokers {
		seen[b] = true
	}
	var walk func(st []Step)
	walk = func(st []Step) {
		for _, s := range st {
			if s.Move != nil && s.Move.Kind == "brokeradd" {
				seen[s.Move.B] = true
			}
		}
	}
	walk(sc.Steps)
	var ids []int
	for b := range seen {
		ids = append(ids, b)
	}
	sort.Ints(ids)
	return ids
}

func setup(sc *Script) *run {
	r := &run{sc: sc, rec: trace.New(), ops: map[int]*Op{}, held: map[int]chan struct{}{}, arrived: map[int]chan struct{}{},
		wcount: map[string]int{}, bconns: map[int][]*fakenet.Conn{}, coord: sc.Coord, txn: sc.Txn, pidSeq: 4000}
	r.cond = sync.NewCond(&r.cmu)
	r.net = fakenet.NewNet()
	r.net.Name = sc.ID
	r.cl = fakekafka.NewCluster(r.net, 0)
	for _, b := range sc.Brokers {
		br := r.cl.AddBroker(b)
		br.Versions = r.versionsFor(b)
	}
	r.cl.Controller = sc.Ctrlr
	for _, ts := range sc.Topics {
		t := r.cl.AddTopic(ts.Name, len(ts.Leaders))
		for i, p := range t.Partitions {
			p.Leader, p.Replicas, p.ISR = ts.Leaders[i], []int{ts.Leaders[i]}, []int{ts.Leaders[i]}
			r.populate(ts.Name, p)
		}
	}
	for _, b := range sc.DownAtStart {
		r.net.SetDown(fmt.Sprintf("b%d:9092", b), "refuse")
	}
	if sc.Sasl != nil {
		r.cl.Sasl = &fakekafka.SaslConfig{Mechanisms: []string{"PLAIN"}, Users: map[string]string{sc.Sasl.User: sc.Sasl.Pass}}
	}
	r.cl.Intercept = r.intercept
	var each func(op *Op)
	each = func(op *Op) {
		r.ops[op.O] = op
		r.arrived[op.O] = make(chan struct{})
		if op.Fault != nil && op.Fault.Hold {
			r.held[op.O] = make(chan struct{})
		}
	}
	for i := range sc.Steps {
		s := &sc.Steps[i]
		if s.Op != nil {
			each(s.Op)
		}
		for g := range s.Par {
			for j := range s.Par[g] {
				each(&s.Par[g][j])
			}
		}
		for g := range s.Bg {
			for j := range s.Bg[g] {
				each(&s.Bg[g][j])
			}
		}
	}
	for i := range sc.WFaults {
		if sc.WFaults[i].Hold {
			r.held[-sc.WFaults[i].ID] = make(chan struct{})
		}
	}
	ttl := time.Duration(sc.TTLMs) * time.Millisecond
	idle := time.Duration(sc.IdleMs) * time.Millisecond
	r.tr = &kafka.Transport{Dial: r.dial, MetadataTTL: ttl, IdleTimeout: idle, ClientID: "vh-" + sc.ID, DialTimeout: 3 * time.Second,
		MetadataTopics: sc.MetaTopics}
	if sc.Sasl != nil {
		r.tr.SASL = plain.Mechanism{Username: sc.Sasl.User, Password: sc.Sasl.Pass}
	}
	var addrs []string
	for _, b := range sc.Boot {
		addrs = append(addrs, fmt.Sprintf("b%d:9092", b))
	}
	r.client = &kafka.Client{Addr: kafka.TCP(addrs...), Transport: r.tr}
	return r
}

// --- client side of the network ----------------------------------------------------------------

// cconn is the client end of a connection: it reports every complete request frame the client writes.
type cconn struct {
	*fakenet.Conn
	r    *run
	mu   sync.Mutex
	hdr  []byte
	need int // bytes of the current frame still to come (after the header was seen)
}

func (c *cconn) Write(p []byte) (int, error) {
	c.mu.Lock()
	q := p
	for len(q) > 0 {
		if c.need == 0 {
			take := 12 - len(c.hdr)
			if take > len(q) {
				take = len(q)
			}
			c.hdr = append(c.hdr, q[:take]...)
			q = q[take:]
			if len(c.hdr) == 12 {
				size := int(binary.BigEndian.Uint32(c.hdr[0:4]))
				key := int16(binary.BigEndian.Uint16(c.hdr[4:6]))
				ver := int16(binary.BigEndian.Uint16(c.hdr[6:8]))
				corr := int32(binary.BigEndian.Uint32(c.hdr[8:12]))
				c.need = size - 8
				c.hdr = c.hdr[:0]
				if _, known := apiNames[key]; known { // (raw SASL tokens of a v0 handshake are not request frames)
					c.r.rec.Emit(trace.Event{"ev": "cwrite", "conn": c.ID, "api": apiName(key), "v": int(ver), "corr": int(corr)})
				}
				if c.need < 0 {
					c.need = 0
				}
			}
			continue
		}
		n := c.need
		if n > len(q) {
			n = len(q)
		}
		c.need -= n
		q = q[n:]
	}
	c.mu.Unlock()
	return c.Conn.Write(p)
}

func brokerOfAddr(a string) int {
	h := strings.TrimPrefix(strings.SplitN(a, ":", 2)[0], "b")
	k := 0
	for k < len(h) && h[k] >= '0' && h[k] <= '9' {
		k++
	}
	n, _ := strconv.Atoi(h[:k])
	return n
}

func (r *run) dial(ctx context.Context, network, address string) (net.Conn, error) {
	if h := r.dialHook; h != nil {
		h()
	}
	r.dmu.Lock()
	defer r.dmu.Unlock()
	if r.down {
		return nil, errors.New("scenario over")
	}
	nc, err := r.net.DialOwner(ctx, r.sc.ID, address)
	if err != nil {
		r.rec.Emit(trace.Event{"ev": "dial", "conn": 0, "broker": brokerOfAddr(address), "ep": address, "ok": false})
		return nil, err
	}
	fc := nc.(*fakenet.Conn)
	id := fc.ID
	fc.OnClose = func() { r.rec.Emit(trace.Event{"ev": "cclose", "conn": id}) }
	r.rec.Emit(trace.Event{"ev": "dial", "conn": id, "broker": brokerOfAddr(address), "ep": address, "ok": true})
	return &cconn{Conn: fc, r: r}, nil
}

// --- broker side --------------------------------------------------------------------------------

func tagNum(s, prefix string) int {
	if !strings.HasPrefix(s, prefix) {
		return 0
	}
	h := strings.TrimPrefix(s, prefix)
	k := 0
	for k < len(h) && h[k] >= '0' && h[k] <= '9' {
		k++
	}
	n, _ := strconv.Atoi(h[:k])
	return n
}

// first version of each API that uses the flexible encoding (compact strings, tagged fields)
var flexibleFrom = map[int16]int16{8: 8, 9: 6, 10: 3, 11: 6, 12: 4, 13: 4, 14: 4, 15: 5, 16: 3, 19: 5, 20: 4, 22: 2, 24: 3, 25: 3, 26: 3}

// compactStr reads the first compact string of a flexible request body (after the header's tag buffer).
func compactStr(b []byte, skip int) string {
	if len(b) < 1+skip {
		return ""
	}
	b = b[1+skip:] // tagged fields of the request header (empty), then e.g. a compact array length
	n, k := binary.Uvarint(b)
	if k <= 0 || n == 0 || int(n)-1 > len(b)-k {
		return ""
	}
	return string(b[k : k+int(n)-1])
}

// classify finds the application call (o) and leg a request belongs to, from its content.
func classify(req *fakekafka.Request) (o, leg int, info trace.Event) {
	info = trace.Event{"t": "", "p": 0, "key": "", "keytype": 0, "parts": []interface{}{}, "groups": []interface{}{}}
	rd := kwire.R{B: req.Body}
	v := req.Version
	if from, ok := flexibleFrom[req.ApiKey]; ok && v >= from {
		// versions the fake cluster cannot answer: only the key that identifies the call is decoded
		switch req.ApiKey {
		case fakekafka.CreateTopics, fakekafka.DeleteTopics:
			name := compactStr(req.Body, 1)
			info["t"] = name
			return tagNum(name, "new-"), 1, info
		case fakekafka.FindCoordinator:
			key := compactStr(req.Body, 0)
			info["key"] = key
			if n := tagNum(key, "g-"); n > 0 {
				return n, 1, info
			}
			return tagNum(key, "tx-"), 1, info
		default:
			key := compactStr(req.Body, 0)
			info["key"] = key
			if n := tagNum(key, "g-"); n > 0 {
				return n, 2, info
			}
			return tagNum(key, "tx-"), 2, info
		}
	}
	switch req.ApiKey {
	case fakekafka.ApiVersions:
		return -1, 0, info
	case fakekafka.Metadata:
		return 0, 1, info
	case fakekafka.Produce:
		if v >= 3 {
			rd.NStr()
		}
		rd.I16()
		rd.I32()
		if rd.ArrayLen() > 0 {
			info["t"] = rd.Str()
			if rd.ArrayLen() > 0 {
				info["p"] = int(rd.I32())
				set := rd.Bytes()
				if bs, err := krec.DecodeSet(set); err == nil {
					for _, b := range bs {
						for _, rec := range b.Records {
							if n := tagNum(string(rec.Value), "v-"); n > 0 {
								o = n
							}
						}
					}
				}
			}
		}
		info["parts"] = []interface{}{map[string]interface{}{"t": info["t"], "p": info["p"]}}
		return o, 1, info
	case fakekafka.Fetch:
		rd.I32()
		rd.I32()
		rd.I32()
		if v >= 3 {
			rd.I32()
		}
		if v >= 4 {
			rd.I8()
		}
		if v >= 7 {
			rd.I32()
			rd.I32()
		}
		if rd.ArrayLen() > 0 {
			info["t"] = rd.Str()
			if rd.ArrayLen() > 0 {
				info["p"] = int(rd.I32())
				if v >= 9 {
					rd.I32()
				}
				info["off"] = int(rd.I64())
				if v >= 5 {
					rd.I64()
				}
				o = int(rd.I32()) - fetchBytes
			}
		}
		info["parts"] = []interface{}{map[string]interface{}{"t": info["t"], "p": info["p"]}}
		return o, 1, info
	case fakekafka.ListOffsets:
		rd.I32()
		if v >= 2 {
			rd.I8()
		}
		// every partition the request names (a request the Transport routes carries exactly one)
		parts := []interface{}{}
		nt := rd.ArrayLen()
		for i := 0; i < nt && rd.Err == nil; i++ {
			t := rd.Str()
			np := rd.ArrayLen()
			for j := 0; j < np && rd.Err == nil; j++ {
				p := int(rd.I32())
				if v >= 4 {
					rd.I32()
				}
				ts := rd.I64()
				if v == 0 {
					rd.I32()
				}
				if len(parts) == 0 {
					info["t"], info["p"] = t, p
					if ts > 0 {
						o = int((tsBase + 1_000_000_000 - ts) % 1000)
					}
				}
				parts = append(parts, map[string]interface{}{"t": t, "p": p})
			}
		}
		info["parts"] = parts
		return o, 1, info
	case 15:
		groups := []interface{}{}
		n := rd.ArrayLen()
		for i := 0; i < n && rd.Err == nil; i++ {
			g := rd.Str()
			if i == 0 {
				info["key"] = g
				o = tagNum(g, "g-")
			}
			groups = append(groups, g)
		}
		info["groups"] = groups
		return o, 2, info
	case 16:
		return -2, 1, info // ListGroups carries nothing that identifies the call: attributed by the intercept
	case fakekafka.FindCoordinator:
		key := rd.Str()
		kt := 0
		if v >= 1 {
			kt = int(rd.I8())
		}
		info["key"], info["keytype"] = key, kt
		if n := tagNum(key, "g-"); n > 0 {
			return n, 1, info
		}
		return tagNum(key, "tx-"), 1, info
	case fakekafka.OffsetCommit, fakekafka.OffsetFetch, fakekafka.JoinGroup, fakekafka.Heartbeat, fakekafka.SyncGroup, fakekafka.LeaveGroup:
		key := rd.Str()
		info["key"] = key
		return tagNum(key, "g-"), 2, info
	case fakekafka.CreateTopics, fakekafka.DeleteTopics:
		if rd.ArrayLen() > 0 {
			name := rd.Str()
			info["t"] = name
			return tagNum(name, "new-"), 1, info
		}
	case 22:
		s := rd.NStr()
		if s != nil {
			info["key"] = *s
			return tagNum(*s, "tx-"), 2, info
		}
	case 24, 25, 26:
		key := rd.Str()
		info["key"] = key
		return tagNum(key, "tx-"), 2, info
	}
	return 0, 0, info
}

func (r *run) snapshotLocked() (alive []interface{}, topics []interface{}, ctrlr int) {
	c := r.cl
	c.Lock()
	defer c.Unlock()
	for _, id := range c.BrokerIDs() {
		alive = append(alive, id)
	}
	names := make([]string, 0, len(c.Topics))
	for n := range c.Topics {
		names = append(names, n)
	}
	sort.Strings(names)
	for _, n := range names {
		if r.sc.MetaTopics != nil {
			found := false
			for _, m := range r.sc.MetaTopics {
				found = found || m == n
			}
			if !found {
				continue
			}
		}
		var ls []interface{}
		for _, p := range c.Topics[n].Partitions {
			ls = append(ls, p.Leader)
		}
		topics = append(topics, map[string]interface{}{"name": n, "leaders": ls})
	}
	return alive, topics, c.Controller
}

// coordFor: the coordinator of a group id (scenarios may give individual groups their own)
func (r *run) coordFor(key string) int {
	if b, ok := r.sc.GCoord[key]; ok {
		return b
	}
	return r.coord
}

func (r *run) groupKeys() []string {
	ks := make([]string, 0, len(r.sc.GCoord))
	for k := range r.sc.GCoord {
		ks = append(ks, k)
	}
	sort.Strings(ks)
	return ks
}

func (r *run) findCoordinator(req *fakekafka.Request, info trace.Event) (fakekafka.Reply, int) {
	node := r.coordFor(info["key"].(string))
	if info["keytype"].(int) == 1 {
		node = r.txn
	}
	var w kwire.W
	if req.Version >= 1 {
		w.I32(0)
	}
	r.cl.Lock()
	_, ok := r.cl.Brokers[node]
	r.cl.Unlock()
	if !ok {
		w.I16(15)
		if req.Version >= 1 {
			w.NStr(nil)
		}
		w.I32(-1)
		w.Str("")
		w.I32(-1)
		return fakekafka.Body(w.B), -1
	}
	w.I16(0)
	if req.Version >= 1 {
		w.NStr(nil)
	}
	w.I32(int32(node))
	w.Str(fmt.Sprintf("b%d", node))
	w.I32(9092)
	return fakekafka.Body(w.B), node
}

func insertAt(b []byte, pos int, ins []byte) []byte {
	if pos < 0 || pos > len(b) {
		return b
	}
	out := make([]byte, 0, len(b)+len(ins))
	out = append(out, b[:pos]...)
	out = append(out, ins...)
	return append(out, b[pos:]...)
}

// answer computes the reply of the fake broker, adding what the shared cluster lacks: coordinator
// look-ups for both key types, the newest Produce/Fetch versions the library implements, transaction APIs.
// canServe: the fake cluster implements this version and the broker advertised it. Otherwise (a real broker
// would answer UNSUPPORTED_VERSION in a format the client cannot rely on) the fake closes the connection
// without executing the request.
func (r *run) canServe(req *fakekafka.Request) bool {
	max, ok := servable[req.ApiKey]
	if !ok || req.Version > max {
		return false
	}
	if vr, ok := req.Broker.Versions[req.ApiKey]; ok && (req.Version < vr.Min || req.Version > vr.Max) {
		return false
	}
	return true
}

func (r *run) answer(req *fakekafka.Request, info trace.Event) (rep fakekafka.Reply, node int) {
	if !r.canServe(req) {
		return fakekafka.Reply{Close: true, CutAt: -1}, 0
	}
	switch req.ApiKey {
	case fakekafka.FindCoordinator:
		return r.findCoordinator(req, info)
	case fakekafka.OffsetCommit, fakekafka.OffsetFetch, fakekafka.JoinGroup, fakekafka.Heartbeat, fakekafka.SyncGroup, fakekafka.LeaveGroup:
		g := r.cl.GroupState(info["key"].(string))
		r.cl.Lock()
		g.Coordinator = r.coordFor(info["key"].(string))
		r.cl.Unlock()
	case 15:
		return fakekafka.DescribeGroupsHandle(req, r.coordFor), 0
	case 16:
		return fakekafka.ListGroupsHandle(req, r.groupKeys(), r.coordFor), 0
	case 22, 24, 25, 26:
		r.pidSeq++
		return fakekafka.TxnHandle(req, r.txn, r.pidSeq), 0
	}
	if x := fakekafka.ExtVersions(req); x != nil {
		return *x, 0
	}
	rep = req.Broker.Handle(req)
	if rep.Body != nil && req.ApiKey == fakekafka.Produce && req.Version == 8 {
		// v8: record_errors (empty array) and error_message (null) after log_start_offset
		rep.Body = insertAt(rep.Body, len(rep.Body)-4, []byte{0, 0, 0, 0, 0xff, 0xff})
	}
	if rep.Body != nil && req.ApiKey == fakekafka.Fetch && req.Version == 11 {
		// v11: preferred_read_replica after the aborted transactions of the (single) partition
		t, _ := info["t"].(string)
		rep.Body = insertAt(rep.Body, 4+2+4+4+2+len(t)+4+4+2+8+8+8+4, []byte{0xff, 0xff, 0xff, 0xff})
	}
	return rep, 0
}

func (r *run) faultFor(req *fakekafka.Request, o, leg int, info trace.Event) (f *Fault, holdKey int) {
	name := apiName(req.ApiKey)
	for _, key := range []string{name, fmt.Sprintf("%s@%d", name, req.Broker.ID)} {
		r.wcount[key]++
	}
	for i := range r.sc.WFaults {
		w := &r.sc.WFaults[i]
		if w.Api != name {
			continue
		}
		n := r.wcount[name]
		if w.Broker != 0 {
			if w.Broker != req.Broker.ID {
				continue
			}
			n = r.wcount[fmt.Sprintf("%s@%d", name, req.Broker.ID)]
		}
		if n == w.Nth {
			return &Fault{Cut: w.Cut, DelayMs: w.DelayMs, Chunks: w.Chunks, Hold: w.Hold}, -w.ID
		}
	}
	op := r.ops[o]
	if o <= 0 || op == nil || op.Fault == nil {
		return nil, 0
	}
	want := 0
	if leg == 1 && req.ApiKey == fakekafka.FindCoordinator && op.Kind != "findcoordinator" {
		want = 1
	}
	if op.Fault.Leg != want {
		return nil, 0
	}
	if op.Kind == "listoffsets" && len(op.Parts) > 0 {
		q := op.Parts[op.Fault.Part%len(op.Parts)]
		if info["t"] != q.T || info["p"] != q.P {
			return nil, 0
		}
	}
	return op.Fault, o
}

func (r *run) intercept(req *fakekafka.Request) *fakekafka.Reply {
	r.cmu.Lock()
	defer r.cmu.Unlock()
	b := req.Broker.ID
	cid := req.Conn.ID
	if req.ConnSeq == 0 {
		r.bconns[b] = append(r.bconns[b], req.Conn)
		req.Conn.OnClose = func() { r.rec.Emit(trace.Event{"ev": "peerclosed", "conn": cid}) }
	}
	o, leg, info := classify(req)
	name := apiName(req.ApiKey)
	if req.ApiKey == fakekafka.DeleteTopics {
		// the topic name carries the number of the call that created it: find the deleting call
		for _, op := range r.ops {
			if op.Kind == "deletetopics" && op.K == o {
				o = op.O
				break
			}
		}
	}
	if req.ApiKey == 16 {
		// ListGroups carries nothing of its own: it belongs to the listgroups call in progress
		o, leg = r.listOp, 0
		r.listSeen++
		leg = r.listSeen
	}
	if op := r.ops[o]; o > 0 && op != nil && op.Kind == "describegroups" {
		for i, g := range op.Groups {
			if g == info["key"] {
				leg = 2*i + 2
				if req.ApiKey == fakekafka.FindCoordinator {
					leg = 2*i + 1
				}
			}
		}
	}
	if op := r.ops[o]; o > 0 && op != nil && op.Kind == "listoffsets" {
		for i, q := range op.Parts {
			if q.T == info["t"] && q.P == info["p"] {
				leg = i + 1
			}
		}
	}
	n := 0
	if req.ApiKey == fakekafka.Metadata {
		r.metaReq++
		n = r.metaReq
		r.cond.Broadcast()
	}
	ep := req.Conn.LocalAddr().String() // the endpoint the client dialled
	ev := trace.Event{"ev": "req", "conn": cid, "broker": b, "ep": ep, "api": name, "v": int(req.Version), "corr": int(req.CorrID), "o": o, "leg": leg,
		"t": info["t"], "p": info["p"], "key": info["key"], "keytype": info["keytype"], "parts": info["parts"], "groups": info["groups"], "n": n, "unserved": !r.canServe(req)}
	r.rec.Emit(ev)
	if ch := r.arrived[o]; ch != nil && o > 0 {
		select {
		case <-ch:
		default:
			if op := r.ops[o]; op != nil && !(op.Fault != nil && op.Fault.Leg == 0 && leg == 1 && req.ApiKey == fakekafka.FindCoordinator && op.Kind != "findcoordinator") {
				close(ch)
			}
		}
	}
	rep, node := r.answer(req, info)
	alive, topics, ctrlr := []interface{}{}, []interface{}{}, 0
	addrs := []interface{}{}
	if req.ApiKey == fakekafka.Metadata {
		alive, topics, ctrlr = r.snapshotLocked()
		r.cl.Lock()
		for _, id := range r.cl.BrokerIDs() {
			br := r.cl.Brokers[id]
			addrs = append(addrs, map[string]interface{}{"b": id, "ep": br.Addr(), "rack": br.Rack})
		}
		r.cl.Unlock()
	}
	f, holdKey := r.faultFor(req, o, leg, info)
	if f != nil && !rep.Close && !rep.None {
		if f.Cut != nil {
			rep.CutAt = *f.Cut
		}
		if f.DelayMs > 0 {
			rep.Delay = time.Duration(f.DelayMs) * time.Millisecond
		}
		if len(f.Chunks) > 0 {
			rep.Chunks = f.Chunks
		}
		if f.Hold && r.held[holdKey] != nil {
			if rep.Gate == nil {
				rep.Gate = r.held[holdKey]
			} else {
				// a reply the coordinator already gates (JoinGroup, SyncGroup): both gates must open
				both, first, second := make(chan struct{}), rep.Gate, r.held[holdKey]
				go func() {
					<-first
					<-second
					close(both)
				}()
				rep.Gate = both
			}
		}
	}
	if rep.Close || rep.None {
		r.rec.Emit(trace.Event{"ev": "reply", "conn": cid, "broker": b, "ep": ep, "addrs": addrs, "keytype": info["keytype"], "key": info["key"], "api": name, "v": int(req.Version), "corr": int(req.CorrID), "o": o, "leg": leg,
			"cut": 0, "len": 0, "closed": rep.Close, "node": node, "n": n, "alive": alive, "topics": topics, "ctrlr": ctrlr, "ranges": []interface{}{}})
		return &rep
	}
	cut := -1
	flen := 8 + len(rep.Body)
	if rep.CutAt >= 0 && rep.CutAt < flen {
		cut = rep.CutAt
	}
	rev := trace.Event{"ev": "reply", "conn": cid, "broker": b, "ep": ep, "addrs": addrs, "keytype": info["keytype"], "key": info["key"], "api": name, "v": int(req.Version), "corr": int(req.CorrID), "o": o, "leg": leg,
		"cut": cut, "len": flen, "closed": false, "node": node, "n": n, "alive": alive, "topics": topics, "ctrlr": ctrlr, "ranges": []interface{}{}}
	if rep.Lazy != nil {
		// gated replies of the group coordinator: the frame is built when the gate opens
		lazy := rep.Lazy
		cutAt, chunks := rep.CutAt, rep.Chunks
		rep.Lazy = func() fakekafka.Reply {
			x := lazy()
			n := 8 + len(x.Body)
			rev["len"] = n
			if cutAt >= 0 && cutAt < n {
				x.CutAt = cutAt
				rev["cut"] = cutAt
			} else {
				rev["cut"] = -1
			}
			x.Chunks = chunks
			return x
		}
	}
	rep.OnSend = func() { r.rec.Emit(rev) }
	return &rep
}

// --- cluster changes ----------------------------------------------------------------------------

func (r *run) move(m *Move) {
	r.cmu.Lock()
	defer r.cmu.Unlock()
	c := r.cl
	ev := trace.Event{"ev": "move", "kind": m.Kind, "t": m.T, "p": m.P, "to": m.To, "b": m.B, "h": m.H, "leaders": []interface{}{},
		"ep": "", "addrChanged": m.Host != "" || m.Port != 0}
	switch m.Kind {
	case "leader":
		c.Lock()
		if p := c.Part(m.T, m.P); p != nil {
			p.Leader, p.Replicas, p.ISR = m.To, []int{m.To}, []int{m.To}
		}
		c.Unlock()
	case "brokeradd":
		r.net.SetDown(fmt.Sprintf("b%d:9092", m.B), "")
		br := c.AddBroker(m.B)
		br.Versions = r.versionsFor(m.B)
	case "brokerremove":
		r.net.SetDown(fmt.Sprintf("b%d:9092", m.B), "refuse")
		c.Lock()
		delete(c.Brokers, m.B)
		var moved []interface{}
		names := make([]string, 0, len(c.Topics))
		for n := range c.Topics {
			names = append(names, n)
		}
		sort.Strings(names)
		for _, n := range names {
			for _, p := range c.Topics[n].Partitions {
				if p.Leader == m.B {
					p.Leader, p.Replicas, p.ISR = m.H, []int{m.H}, []int{m.H}
					moved = append(moved, map[string]interface{}{"t": n, "p": p.ID})
				}
			}
		}
		if c.Controller == m.B {
			c.Controller = m.H
		}
		c.Unlock()
		if r.coord == m.B {
			r.coord = m.H
		}
		if r.txn == m.B {
			r.txn = m.H
		}
		ev["leaders"] = nz(moved)
		for _, sc := range r.bconns[m.B] {
			sc.Close()
		}
		r.bconns[m.B] = nil
	case "topiccreate":
		t := c.AddTopic(m.T, len(m.Leaders))
		c.Lock()
		var ls []interface{}
		for i, p := range t.Partitions {
			p.Leader, p.Replicas, p.ISR = m.Leaders[i], []int{m.Leaders[i]}, []int{m.Leaders[i]}
			r.populate(m.T, p)
			ls = append(ls, m.Leaders[i])
		}
		c.Unlock()
		ev["leaders"] = nz(ls)
	case "readdress":
		// broker B re-registers under the same id with another host / port / rack; the old endpoint stays up
		c.Lock()
		br := c.Brokers[m.B]
		c.Unlock()
		if br != nil {
			br.Readdress(m.Host, m.Port, m.Rack)
			ev["ep"] = br.Addr()
		}
	case "renumber":
		// broker B re-registers under the id To at the same address
		if br := c.Renumber(m.B, m.To); br != nil {
			br.Versions = r.versionsFor(m.To)
			ev["ep"] = br.Addr()
		}
		if r.coord == m.B {
			r.coord = m.To
		}
		if r.txn == m.B {
			r.txn = m.To
		}
		r.bconns[m.To], r.bconns[m.B] = r.bconns[m.B], nil
	case "up":
		r.net.SetDown(fmt.Sprintf("b%d:9092", m.B), "")
	case "coord":
		r.coord = m.To
	case "txn":
		r.txn = m.To
	case "ctrlr":
		c.Lock()
		c.Controller = m.To
		c.Unlock()
	}
	r.lastMove = time.Now()
	r.moveReq = r.metaReq
	ev["reqn"] = r.metaReq
	r.rec.Emit(ev)
}

// waitRefresh waits until a metadata request that arrived after the last cluster change has been
// answered and applied: the discover loop only sends its next request after connPool.update returned,
// so the arrival of the second request after the change proves the first one's answer is in the cache.
func (r *run) waitRefresh() {
	r.cmu.Lock()
	none := r.metaReq == 0 && !r.anyOp
	r.cmu.Unlock()
	if none {
		return // no pool yet: nothing is cached, the first request will load the current layout
	}
	bound := time.Duration(r.sc.TTLMs)*3*time.Millisecond + 2*time.Second
	deadline := time.Now().Add(bound)
	timer := time.AfterFunc(bound, func() { r.cmu.Lock(); r.cond.Broadcast(); r.cmu.Unlock() })
	defer timer.Stop()
	r.cmu.Lock()
	target := r.moveReq + 2
	since := r.lastMove
	for r.metaReq < target && time.Now().Before(deadline) {
		r.cond.Wait()
	}
	ok := r.metaReq >= target
	n := r.metaReq
	r.cmu.Unlock()
	r.rec.Emit(trace.Event{"ev": "refreshed", "ok": ok, "sinceMoveMs": int(time.Since(since) / time.Millisecond), "boundMs": int(bound / time.Millisecond), "reqn": n})
}

// --- application calls ----------------------------------------------------------------------------

type result struct {
	cls     string // response ctxerr kafkaError ioError hang panic
	code    int    // application-level error code carried by a response / kafka.Error
	own     bool
	ctx     string // canceled | deadline
	info    string
	topics  []interface{}
	brokers []interface{}
	ctrlr   int
}

func errClass(err error) (string, int, string) {
	var ke kafka.Error
	switch {
	case err == nil:
		return "response", 0, ""
	case errors.Is(err, context.Canceled):
		return "ctxerr", 0, "canceled"
	case errors.Is(err, context.DeadlineExceeded):
		return "ctxerr", 0, "deadline"
	case errors.As(err, &ke):
		return "kafkaError", int(ke), ""
	}
	return "ioError", 0, ""
}

func codeOf(err error) int {
	var ke kafka.Error
	if err != nil && errors.As(err, &ke) {
		return int(ke)
	}
	if err != nil {
		return -1
	}
	return 0
}

func (r *run) exec(ctx context.Context, op *Op) (res result) {
	defer func() {
		if p := recover(); p != nil {
			res = result{cls: "panic", info: fmt.Sprint(p)}
		}
	}()
	c := r.client
	group := fmt.Sprintf("g-%d", op.O)
	txid := fmt.Sprintf("tx-%d", op.O)
	var err error
	switch op.Kind {
	case "produce":
		var x *kafka.ProduceResponse
		x, err = c.Produce(ctx, &kafka.ProduceRequest{Topic: op.T, Partition: op.P, RequiredAcks: kafka.RequireAll,
			Records: kafka.NewRecordReader(kafka.Record{Value: kafka.NewBytes([]byte(fmt.Sprintf("v-%d", op.O)))})})
		if err == nil && x != nil {
			res.code = codeOf(x.Error)
			res.info = fmt.Sprintf("base=%d", x.BaseOffset)
			if x.Error == nil {
				r.cl.Lock()
				if p := r.cl.Part(op.T, op.P); p != nil {
					for _, rec := range p.AllRecords() {
						if rec.Offset == x.BaseOffset && string(rec.Value) == fmt.Sprintf("v-%d", op.O) {
							res.own = true
						}
					}
				}
				r.cl.Unlock()
			}
		}
	case "fetch":
		off := tpBase(r.sc, op.T, op.P) + int64(op.K)
		var x *kafka.FetchResponse
		x, err = c.Fetch(ctx, &kafka.FetchRequest{Topic: op.T, Partition: op.P, Offset: off, MinBytes: 1, MaxBytes: int64(fetchBytes + op.O), MaxWait: 200 * time.Millisecond})
		if err == nil && x != nil {
			res.code = codeOf(x.Error)
			if x.Error == nil && x.Records != nil {
				rec, rerr := x.Records.ReadRecord()
				if rerr == nil && rec != nil {
					var val []byte
					if rec.Value != nil {
						val, _ = io.ReadAll(rec.Value)
					}
					res.own = x.Topic == op.T && x.Partition == op.P && rec.Offset == off && string(val) == valueOf(op.T, op.P, off)
					res.info = fmt.Sprintf("off=%d val=%s", rec.Offset, val)
				} else {
					res.info = fmt.Sprint("read: ", rerr)
				}
			}
		}
	case "listoffsets":
		parts := op.Parts
		if len(parts) == 0 {
			parts = []TP{{T: op.T, P: op.P, K: op.K}}
		}
		topics := map[string][]kafka.OffsetRequest{}
		for _, q := range parts {
			topics[q.T] = append(topics[q.T], kafka.OffsetRequest{Partition: q.P, Timestamp: tsBase + int64(q.K)*1000 - int64(op.O)})
		}
		var x *kafka.ListOffsetsResponse
		x, err = c.ListOffsets(ctx, &kafka.ListOffsetsRequest{Topics: topics})
		if err == nil && x != nil {
			res.own = true
			for _, q := range parts {
				want := tpBase(r.sc, q.T, q.P) + int64(q.K)
				found := false
				for _, po := range x.Topics[q.T] {
					if po.Partition == q.P {
						if po.Error != nil {
							res.code = codeOf(po.Error)
						}
						if _, ok := po.Offsets[want]; ok && po.Error == nil && len(po.Offsets) == 1 {
							found = true
						}
						res.info += fmt.Sprintf("%s/%d:%v:%v ", q.T, q.P, po.Offsets, po.Error)
					}
				}
				res.own = res.own && found
			}
		}
	case "metadata":
		names := op.Names
		if op.AllTopics {
			names = nil
		} else if names == nil {
			names = []string{}
		}
		var x *kafka.MetadataResponse
		x, err = c.Metadata(ctx, &kafka.MetadataRequest{Topics: names})
		if err == nil && x != nil {
			// the answer is about the topics that were asked for, in that order
			res.own = names == nil || len(x.Topics) == len(names)
			for i := range x.Topics {
				if names != nil && i < len(names) && x.Topics[i].Name != names[i] {
					res.own = false
				}
			}
			res.ctrlr = x.Controller.ID
			for _, b := range x.Brokers {
				res.brokers = append(res.brokers, b.ID)
			}
			for _, t := range x.Topics {
				var ls []interface{}
				for _, p := range t.Partitions {
					ls = append(ls, p.Leader.ID)
				}
				if ls == nil {
					ls = []interface{}{}
				}
				res.topics = append(res.topics, map[string]interface{}{"name": t.Name, "err": codeOf(t.Error), "leaders": ls})
			}
		}
	case "offsetcommit":
		var x *kafka.OffsetCommitResponse
		want := int64(2000 + op.O)
		x, err = c.OffsetCommit(ctx, &kafka.OffsetCommitRequest{GroupID: group, GenerationID: -1, Topics: map[string][]kafka.OffsetCommit{op.T: {{Partition: op.P, Offset: want}}}})
		if err == nil && x != nil {
			for _, p := range x.Topics[op.T] {
				res.code = codeOf(p.Error)
				if p.Partition == op.P && p.Error == nil {
					g := r.cl.GroupState(group)
					r.cl.Lock()
					res.own = g.Committed[op.T] != nil && g.Committed[op.T][op.P] == want
					r.cl.Unlock()
				}
			}
		}
	case "offsetfetch":
		want := int64(1000 + op.O)
		g := r.cl.GroupState(group)
		r.cl.Lock()
		g.Committed[op.T] = map[int]int64{op.P: want}
		r.cl.Unlock()
		var x *kafka.OffsetFetchResponse
		x, err = c.OffsetFetch(ctx, &kafka.OffsetFetchRequest{GroupID: group, Topics: map[string][]int{op.T: {op.P}}})
		if err == nil && x != nil {
			res.code = codeOf(x.Error)
			for _, p := range x.Topics[op.T] {
				if p.Error != nil {
					res.code = codeOf(p.Error)
				}
				res.own = p.Partition == op.P && p.CommittedOffset == want && p.Error == nil
				res.info = fmt.Sprint(p.CommittedOffset)
			}
		}
	case "joingroup":
		proto := fmt.Sprintf("proto-%d", op.O)
		var x *kafka.JoinGroupResponse
		x, err = c.JoinGroup(ctx, &kafka.JoinGroupRequest{GroupID: group, SessionTimeout: 10 * time.Second, RebalanceTimeout: 10 * time.Second,
			ProtocolType: "consumer", Protocols: []kafka.GroupProtocol{{Name: proto, Metadata: kafka.GroupProtocolSubscription{Topics: []string{"t1"}}}}})
		if err == nil && x != nil {
			res.code = codeOf(x.Error)
			res.own = x.Error == nil && x.ProtocolName == proto
			res.info = x.MemberID
		}
	case "heartbeat":
		var x *kafka.HeartbeatResponse
		x, err = c.Heartbeat(ctx, &kafka.HeartbeatRequest{GroupID: group, GenerationID: 1, MemberID: "nobody"})
		if err == nil && x != nil {
			res.code = codeOf(x.Error)
			res.own = res.code == 25 // the coordinator does not know this member; any other broker says NOT_COORDINATOR
		}
	case "describegroups":
		var x *kafka.DescribeGroupsResponse
		x, err = c.DescribeGroups(ctx, &kafka.DescribeGroupsRequest{GroupIDs: op.Groups})
		if err == nil && x != nil {
			res.own = len(x.Groups) == len(op.Groups)
			for _, g := range x.Groups {
				if g.Error != nil {
					res.code = codeOf(g.Error)
				}
				found := false
				for _, want := range op.Groups {
					found = found || want == g.GroupID
				}
				res.own = res.own && found && g.Error == nil
				res.info += fmt.Sprintf("%s:%v ", g.GroupID, g.Error)
			}
		}
	case "listgroups":
		var x *kafka.ListGroupsResponse
		x, err = c.ListGroups(ctx, &kafka.ListGroupsRequest{})
		if err == nil && x != nil {
			res.code = codeOf(x.Error)
			keys := r.groupKeys()
			res.own = x.Error == nil && len(x.Groups) == len(keys)
			for _, g := range x.Groups {
				res.own = res.own && g.Coordinator == r.coordFor(g.GroupID)
				res.info += fmt.Sprintf("%s@%d ", g.GroupID, g.Coordinator)
			}
		}
	case "findcoordinator":
		var x *kafka.FindCoordinatorResponse
		x, err = c.FindCoordinator(ctx, &kafka.FindCoordinatorRequest{Key: group, KeyType: kafka.CoordinatorKeyTypeConsumer})
		if err == nil && x != nil {
			res.code = codeOf(x.Error)
			if x.Coordinator != nil {
				res.ctrlr = x.Coordinator.NodeID
				res.own = x.Coordinator.Host == fmt.Sprintf("b%d", x.Coordinator.NodeID)
			}
		}
	case "createtopics":
		name := fmt.Sprintf("new-%d", op.O)
		var x *kafka.CreateTopicsResponse
		x, err = c.CreateTopics(ctx, &kafka.CreateTopicsRequest{Topics: []kafka.TopicConfig{{Topic: name, NumPartitions: 2, ReplicationFactor: 1}}})
		if err == nil && x != nil {
			e, ok := x.Errors[name]
			res.code = codeOf(e)
			res.own = ok && len(x.Errors) == 1
		}
	case "deletetopics":
		name := fmt.Sprintf("new-%d", op.K)
		var x *kafka.DeleteTopicsResponse
		x, err = c.DeleteTopics(ctx, &kafka.DeleteTopicsRequest{Topics: []string{name}})
		if err == nil && x != nil {
			e, ok := x.Errors[name]
			res.code = codeOf(e)
			res.own = ok && len(x.Errors) == 1
		}
	case "initproducerid":
		var x *kafka.InitProducerIDResponse
		x, err = c.InitProducerID(ctx, &kafka.InitProducerIDRequest{TransactionalID: txid, TransactionTimeoutMs: 1000})
		if err == nil && x != nil {
			res.code = codeOf(x.Error)
			res.own = x.Error == nil && x.Producer != nil && x.Producer.ProducerEpoch == op.O%30000
		}
	case "addpartitionstotxn":
		var x *kafka.AddPartitionsToTxnResponse
		x, err = c.AddPartitionsToTxn(ctx, &kafka.AddPartitionsToTxnRequest{TransactionalID: txid, ProducerID: 4000 + op.O, ProducerEpoch: 1,
			Topics: map[string][]kafka.AddPartitionToTxn{op.T: {{Partition: op.P}}}})
		if err == nil && x != nil {
			for _, p := range x.Topics[op.T] {
				res.code = codeOf(p.Error)
				res.own = p.Partition == op.P && p.Error == nil && len(x.Topics) == 1
			}
		}
	case "endtxn":
		var x *kafka.EndTxnResponse
		x, err = c.EndTxn(ctx, &kafka.EndTxnRequest{TransactionalID: txid, ProducerID: 4000 + op.O, ProducerEpoch: 1, Committed: true})
		if err == nil && x != nil {
			res.code = codeOf(x.Error)
			res.own = x.Error == nil
		}
	default:
		err = fmt.Errorf("unknown op kind %q", op.Kind)
	}
	cls, code, cx := errClass(err)
	res.cls, res.ctx = cls, cx
	if err != nil {
		res.code, res.own = code, false
		res.info = err.Error()
	}
	return
}

func nz(x []interface{}) []interface{} {
	if x == nil {
		return []interface{}{}
	}
	return x
}

func (r *run) planOf(op *Op) map[string]interface{} {
	f := map[string]interface{}{"cut": -1, "hold": false, "delayMs": 0, "leg": 0}
	if op.Fault != nil {
		if op.Fault.Cut != nil {
			f["cut"] = *op.Fault.Cut
		}
		f["hold"], f["delayMs"], f["leg"] = op.Fault.Hold, op.Fault.DelayMs, op.Fault.Leg
	}
	parts := []interface{}{}
	for _, q := range op.Parts {
		parts = append(parts, map[string]interface{}{"t": q.T, "p": q.P})
	}
	names := []interface{}{}
	for _, n := range op.Names {
		names = append(names, n)
	}
	groups := []interface{}{}
	for _, g := range op.Groups {
		groups = append(groups, g)
	}
	return map[string]interface{}{"o": op.O, "kind": op.Kind, "t": op.T, "p": op.P, "k": op.K, "parts": parts, "names": names, "groups": groups, "all": op.AllTopics,
		"cancelAfterMs": op.CancelAfterMs, "deadlineMs": op.DeadlineMs, "expectCtx": op.ExpectCtx, "mustSucceed": op.MustSucceed, "fault": f}
}

// runOp performs one call under a watchdog.
func (r *run) runOp(op *Op) {
	ctx, cancel := context.WithCancel(context.Background())
	defer cancel()
	if op.DeadlineMs > 0 {
		var c2 context.CancelFunc
		ctx, c2 = context.WithTimeout(ctx, time.Duration(op.DeadlineMs)*time.Millisecond)
		defer c2()
	} else if op.CancelAfterMs == 0 {
		var c2 context.CancelFunc
		ctx, c2 = context.WithTimeout(ctx, 6*time.Second)
		defer c2()
	}
	r.cmu.Lock()
	r.anyOp = true
	if op.Kind == "listgroups" {
		r.listOp, r.listSeen = op.O, 0
	}
	r.cmu.Unlock()
	ev := trace.Event(r.planOf(op))
	ev["ev"] = "opbegin"
	r.rec.Emit(ev)
	begin := time.Now()
	ch := make(chan result, 1)
	go func() { ch <- r.exec(ctx, op) }()
	var cancelled time.Time
	if op.CancelAfterMs > 0 {
		// cancel once the request is in flight (it reached a broker), or after a while when it never gets there
		early := false
		arrived := r.arrived[op.O]
		if op.CancelBlind {
			arrived = make(chan struct{})
			close(arrived)
		}
		select {
		case <-arrived:
		case <-time.After(1500 * time.Millisecond):
		case x := <-ch:
			ch <- x
			early = true
		}
		if !early {
			select {
			case <-time.After(time.Duration(op.CancelAfterMs) * time.Millisecond):
			case x := <-ch:
				ch <- x
				early = true
			}
		}
		if !early {
			r.rec.Emit(trace.Event{"ev": "cancel", "o": op.O, "how": "cancel"})
			cancelled = time.Now()
			cancel()
		}
	} else if op.DeadlineMs > 0 {
		cancelled = begin.Add(time.Duration(op.DeadlineMs) * time.Millisecond)
	}
	var res result
	select {
	case res = <-ch:
	case <-time.After(12 * time.Second):
		res = result{cls: "hang"}
	}
	since := -1
	if !cancelled.IsZero() {
		since = int(time.Since(cancelled) / time.Millisecond)
		if since < 0 {
			since = 0
		}
	}
	r.rec.Emit(trace.Event{"ev": "opend", "o": op.O, "kind": op.Kind, "result": res.cls, "code": res.code, "own": res.own, "ctx": res.ctx,
		"info": res.info, "elapsedMs": int(time.Since(begin) / time.Millisecond), "sinceCancelMs": since,
		"topics": nz(res.topics), "brokers": nz(res.brokers), "ctrlr": res.ctrlr})
}

// Run executes one scenario and returns its journal.
func Run(sc *Script) []trace.Event {
	r := setup(sc)
	var plans []interface{}
	ids := make([]int, 0, len(r.ops))
	for o := range r.ops {
		ids = append(ids, o)
	}
	sort.Ints(ids)
	for _, o := range ids {
		plans = append(plans, r.planOf(r.ops[o]))
	}
	var topics []interface{}
	for _, ts := range sc.Topics {
		var ls []interface{}
		for _, l := range ts.Leaders {
			ls = append(ls, l)
		}
		topics = append(topics, map[string]interface{}{"name": ts.Name, "leaders": ls})
	}
	ints := func(xs []int) []interface{} {
		out := []interface{}{}
		for _, x := range xs {
			out = append(out, x)
		}
		return out
	}
	var crange []interface{}
	cr := ClientRanges()
	names := make([]string, 0, len(cr))
	for n := range cr {
		names = append(names, n)
	}
	sort.Strings(names)
	for _, n := range names {
		crange = append(crange, map[string]interface{}{"api": n, "min": cr[n][0], "max": cr[n][1]})
	}
	mt := []interface{}{}
	for _, n := range sc.MetaTopics {
		mt = append(mt, n)
	}
	r.rec.Emit(trace.Event{"ev": "cfg", "id": sc.ID, "kind": sc.Kind, "alive": ints(sc.Brokers), "boot": ints(sc.Boot), "topics": nz(topics),
		"coord": sc.Coord, "txn": sc.Txn, "ctrlr": sc.Ctrlr, "vtab": r.vtabEvent(allBrokers(sc)), "crange": crange,
		"ttlMs": sc.TTLMs, "idleMs": sc.IdleMs, "ops": nz(plans), "metaTopics": mt, "metaFiltered": sc.MetaTopics != nil, "down": ints(sc.DownAtStart), "noconf": sc.NoConf})
	var bg sync.WaitGroup
	for i := range sc.Steps {
		s := &sc.Steps[i]
		switch {
		case s.Op != nil:
			r.runOp(s.Op)
		case len(s.Par) > 0:
			var wg sync.WaitGroup
			for g := range s.Par {
				wg.Add(1)
				go func(list []Op) {
					defer wg.Done()
					for j := range list {
						r.runOp(&list[j])
					}
				}(s.Par[g])
			}
			wg.Wait()
		case len(s.Bg) > 0:
			for g := range s.Bg {
				bg.Add(1)
				go func(list []Op) {
					defer bg.Done()
					for j := range list {
						r.runOp(&list[j])
					}
				}(s.Bg[g])
			}
		case s.Join:
			bg.Wait()
		case s.WaitArrived != 0:
			select {
			case <-r.arrived[s.WaitArrived]:
			case <-time.After(3 * time.Second):
			}
		case s.CensusMs > 0:
			time.Sleep(time.Duration(s.CensusMs) * time.Millisecond)
			open := []interface{}{}
			for _, c := range r.net.Open(r.sc.ID) {
				open = append(open, c.ID)
			}
			r.rec.Emit(trace.Event{"ev": "census", "open": open})
		case s.Move != nil:
			r.move(s.Move)
		case s.SleepMs > 0:
			time.Sleep(time.Duration(s.SleepMs) * time.Millisecond)
		case s.WaitRefresh:
			r.waitRefresh()
		case s.Slack:
			time.Sleep(time.Duration(sc.TTLMs)*3*time.Millisecond + 2*time.Second)
			r.rec.Emit(trace.Event{"ev": "slack"})
		case s.Release != 0:
			if ch := r.held[s.Release]; ch != nil {
				r.rec.Emit(trace.Event{"ev": "release", "o": s.Release})
				select {
				case <-ch:
				default:
					close(ch)
				}
			}
		case s.CloseIdle:
			r.rec.Emit(trace.Event{"ev": "closeidle"})
			r.tr.CloseIdleConnections()
		}
	}
	bg.Wait()
	r.rec.Emit(trace.Event{"ev": "end"})
	// tear down: stop the discover loop and every connection
	r.tr.CloseIdleConnections()
	for _, ch := range r.held {
		select {
		case <-ch:
		default:
			close(ch)
		}
	}
	evs := r.rec.Events()
	r.dmu.Lock()
	r.down = true
	open := r.net.Open("")
	r.dmu.Unlock()
	for _, c := range open {
		c.Close()
	}
	return evs
}
