//go:build verif

// Package transdrv runs scripted scenarios on a real kafka.Transport / kafka.Client against a
// multi-broker fake cluster whose layout changes at scripted points, and records one totally
// ordered journal per scenario: what the application called and got, what every broker received
// (connection, api, version, correlation id, decoded request), what it answered, every dial, every
// request frame the client wrote and every close. The journals are judged by
// spec/transport/TransportMon.tla and validated against spec/transport/Transport.tla by TLC.
package transdrv

// Fault describes what happens to one response.
type Fault struct {
	Cut     *int  `json:"cut,omitempty"`     // deliver only this many bytes of the frame, then close
	DelayMs int   `json:"delayMs,omitempty"` // delay the response
	Chunks  []int `json:"chunks,omitempty"`  // deliver in pieces
	Hold    bool  `json:"hold,omitempty"`    // keep the response until a "release" step (or the end of the scenario)
	Leg     int   `json:"leg,omitempty"`     // 0: the request itself; 1: the FindCoordinator leg of a coordinator request
	Part    int   `json:"part,omitempty"`    // for split requests: index of the partition leg (0-based)
}

// WFault is a fault placed on the n-th response of an API that is not tied to an application call
// (ApiVersions during connect, Metadata of the discover loop).
type WFault struct {
	Api     string `json:"api"`
	Broker  int    `json:"broker,omitempty"` // 0: any
	Nth     int    `json:"nth"`              // 1-based occurrence (per api, per broker when Broker # 0)
	Cut     *int   `json:"cut,omitempty"`
	DelayMs int    `json:"delayMs,omitempty"`
	Chunks  []int  `json:"chunks,omitempty"`
	Hold    bool   `json:"hold,omitempty"`
	ID      int    `json:"id,omitempty"` // release key for Hold
}

type TP struct {
	T string `json:"t"`
	P int    `json:"p"`
	K int    `json:"k,omitempty"` // record index asked for (ListOffsets timestamp / Fetch offset)
}

// Op is one application call.
type Op struct {
	O             int      `json:"o"`
	Kind          string   `json:"kind"` // produce fetch listoffsets metadata offsetcommit offsetfetch joingroup heartbeat findcoordinator createtopics deletetopics initproducerid addpartitionstotxn endtxn
	T             string   `json:"t,omitempty"`
	P             int      `json:"p,omitempty"`
	K             int      `json:"k,omitempty"`
	Parts         []TP     `json:"parts,omitempty"`
	Names         []string `json:"names,omitempty"`
	Groups        []string `json:"groups,omitempty"`    // describegroups: the group ids
	AllTopics     bool     `json:"allTopics,omitempty"` // metadata without a filter
	Fault         *Fault   `json:"fault,omitempty"`
	CancelAfterMs int      `json:"cancelAfterMs,omitempty"` // cancel the context this long after the request reached the broker (or after the call began when nothing is held)
	DeadlineMs    int      `json:"deadlineMs,omitempty"`    // context.WithTimeout
	CancelBlind   bool     `json:"cancelBlind,omitempty"`   // cancel cancelAfterMs after the call began, without waiting for its request to reach a broker
	MustSucceed   bool     `json:"mustSucceed,omitempty"`   // nothing is wrong with this call: it must return its own response
	ExpectCtx     bool     `json:"expectCtx,omitempty"`     // nothing but the end of the context can make this call return (a wire fault holds what it waits for)
}

type Move struct {
	Kind string `json:"kind"`           // leader brokeradd brokerremove topiccreate coord txn ctrlr readdress renumber up
	Host string `json:"host,omitempty"` // readdress: new host name ("" = unchanged)
	Port int    `json:"port,omitempty"` // readdress: new port (0 = unchanged)
	Rack string `json:"rack,omitempty"` // readdress: new rack
	T    string `json:"t,omitempty"`
	P    int    `json:"p,omitempty"`
	To   int    `json:"to,omitempty"`
	B    int    `json:"b,omitempty"`
	H    int    `json:"h,omitempty"` // heir of a removed broker's roles
	// leaders of a created topic
	Leaders []int `json:"leaders,omitempty"`
}

type Step struct {
	Op          *Op    `json:"op,omitempty"`
	Par         [][]Op `json:"par,omitempty"`
	Move        *Move  `json:"move,omitempty"`
	SleepMs     int    `json:"sleepMs,omitempty"`
	WaitRefresh bool   `json:"waitRefresh,omitempty"` // wait until a refresh that started after the last move was applied
	Slack       bool   `json:"slack,omitempty"`       // sleep MetadataTTL x 3 + 2 s (the real-time clause of C12)
	Release     int    `json:"release,omitempty"`     // release the held response of op <release> (or wire fault id -<n>)
	CloseIdle   bool   `json:"closeIdle,omitempty"`
	Bg          [][]Op `json:"bg,omitempty"`          // like par, but the script goes on while the goroutines run (see join)
	Join        bool   `json:"join,omitempty"`        // wait for every goroutine started by bg
	WaitArrived int    `json:"waitArrived,omitempty"` // wait until the request of op <n> reached a broker
	CensusMs    int    `json:"censusMs,omitempty"`    // let things settle this long, then record which connections are still open
}

type SaslSpec struct {
	User string `json:"user"`
	Pass string `json:"pass"`
}

type TopicSpec struct {
	Name    string `json:"name"`
	Leaders []int  `json:"leaders"`
}

type Script struct {
	ID         string                      `json:"id"`
	Kind       string                      `json:"kind"` // c12 c06 c17 c09
	Brokers    []int                       `json:"brokers"`
	Boot       []int                       `json:"boot"`
	Topics     []TopicSpec                 `json:"topics"`
	Coord      int                         `json:"coord"`
	Txn        int                         `json:"txn"`
	Ctrlr      int                         `json:"ctrlr"`
	VTab       map[string]map[string][]int `json:"vtab"` // broker id -> api name -> [min, max]; missing broker: "0"; missing api: the fake's default
	TTLMs      int                         `json:"ttlMs"`
	IdleMs     int                         `json:"idleMs"`
	MetaTopics []string                    `json:"metaTopics,omitempty"`
	WFaults    []WFault                    `json:"wfaults,omitempty"`
	Steps      []Step                      `json:"steps"`
	// brokers whose address refuses connections when the scenario starts (move kind "up" brings one up)
	DownAtStart []int `json:"downAtStart,omitempty"`
	// coordinator of individual group ids (default: Coord)
	GCoord map[string]int `json:"gcoord,omitempty"`
	// the journal of this scenario is judged by the monitor only (a kind of call Transport.tla does not describe)
	NoConf bool `json:"noconf,omitempty"`
	// SASL/PLAIN: the Transport authenticates with this user, the brokers require it
	Sasl *SaslSpec `json:"sasl,omitempty"`
}
