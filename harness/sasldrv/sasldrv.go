//go:build verif

// Package sasldrv performs real dials (kafka.Dialer.DialContext, kafka.Dialer.DialLeader, kafka.Transport round trips)
// with a SASL mechanism configured against the fake cluster and records, per connection and in one total order,
// what the broker received, the broker's verdicts, the result of the call, and when the client closed its end.
// The journals are judged by spec/sasl/SaslTrace.tla (C18).
package sasldrv

import (
	"context"
	"fmt"
	"net"
	"strings"
	"sync"
	"time"

	kafka "github.com/segmentio/kafka-go"
	"github.com/segmentio/kafka-go/sasl"
	"github.com/segmentio/kafka-go/sasl/plain"
	"github.com/segmentio/kafka-go/sasl/scram"

	"verifharness/fakekafka"
	"verifharness/fakenet"
	"verifharness/trace"
)

// Scenario is one tuple of the C18 scenario space with concrete credentials.
type Scenario struct {
	ID   string `json:"id"`
	Mech string `json:"mech"` // PLAIN | SCRAM-SHA-256 | SCRAM-SHA-512
	// What the broker's ApiVersions response says about SaslHandshake (key 17) and SaslAuthenticate (key 36):
	//   HsAdv:   absent (no entry) | v0 (0..0) | v0v1 (0..1) | v1 (1..1)
	//   AuthAdv: absent | v0 (0..0) | v0v1 (0..1)
	// Scenarios written before these fields existed carry HvMax / AuthV instead (highest advertised version).
	HsAdv   string `json:"hsadv"`
	AuthAdv string `json:"authadv"`
	HvMax   int    `json:"hvmax"`
	AuthV   int    `json:"authv"`
	Creds   string `json:"creds"` // right | wrongPassword | unknownUser
	FKind   string `json:"fkind"` // none | unsupported | error | malformed | badproof | close
	FStep   int    `json:"fstep"` // 0 handshake, 1, 2 authenticate round
	FCode   int    `json:"fcode"` // fkind error: the error code of the answer (33 | 34 | 58 | -1)
	FConn   int    `json:"fconn"` // 0: the fault applies to every connection, k: only to the k-th connection dialled
	Entry   string `json:"entry"` // dial | leader | transport | transportconc
	Conc    int    `json:"conc"`  // transportconc: number of concurrent requests
	Class   string `json:"class"` // credential class (informational)
	// registered on the broker
	User string `json:"user"`
	Pass string `json:"pass"`
	// used by the client
	CUser string `json:"cuser"`
	CPass string `json:"cpass"`
	// Delivery of the broker's bytes to the client (every reply of the connection, raw tokens and frames alike; see tap.Read):
	//   whole (or empty): whatever is there; prefix: the 4-byte length prefix alone, then the rest of the message;
	//   halves: length prefix + first half of the message, then the second half; pieces: DelivK bytes per Read.
	Deliv  string `json:"deliv"`
	DelivK int    `json:"delivk"`
	// Overlapping authentications (entries dialovl | transportovl): OvN connections are authenticated at once through ONE
	// Dialer / ONE Transport, i.e. with one sasl.Mechanism value (see overlap.go).
	//   OvHold[k-1]: the step of connection k (0 handshake, i authenticate round i) whose answer the broker holds back until
	//   connection k+1 has sent its first authentication bytes (OvMode start | lock) or has finished its dial (OvMode done);
	//   lock: in addition the answer to the last connection's first authentication bytes waits until the connection before it
	//   has consumed its released answer (sent its next request, closed, or its call returned).
	OvN    int    `json:"ovn"`
	OvHold []int  `json:"ovhold"`
	OvMode string `json:"ovmode"`
	// transportovl: "requests" (default): requests routed to brokers 1, 2, ... of one pool, each dials a connection of its own;
	// "pools": one Client per bootstrap address on the same Transport, the pools' control connections are the overlapping ones
	OvVia string `json:"ovvia"`
}

const topic = "t"

type run struct {
	sc   *Scenario
	rec  *trace.Recorder
	net  *fakenet.Net
	cl   *fakekafka.Cluster
	mu   sync.Mutex
	last int                   // fakenet ID of the connection dialled last
	ids  []int                 // connections in dial order
	addr map[int]string        // address each connection was dialled to
	cli  map[int]*fakenet.Conn // client ends
	ov   *overlap              // overlapping authentications (nil otherwise)
}

// tap is the client end of a connection: every write attempt is journalled before the bytes are delivered.
type tap struct {
	*fakenet.Conn
	r *run
	// piecewise delivery (Scenario.Deliv)
	rmu    sync.Mutex
	pend   []byte // bytes taken from the connection, not yet handed to the client
	off    int    // bytes of the current message already handed over (the 4-byte length prefix included)
	size   int    // length announced by the prefix of the current message
	broken bool   // the stream is not a sequence of length-prefixed messages: no more splitting
}

// Read hands the broker's bytes to the client in the pieces chosen by the scenario.  Raw SASL tokens and response frames
// are both a 4-byte length followed by that many bytes, so the same boundaries apply to both.  Nothing is delayed: a piece
// is what one Read returns, as with a TCP stream that was segmented on its way.
func (t *tap) Read(p []byte) (int, error) {
	sc := t.r.sc
	if sc.Deliv == "" || sc.Deliv == "whole" || len(p) == 0 {
		return t.Conn.Read(p)
	}
	t.rmu.Lock()
	defer t.rmu.Unlock()
	if t.broken && len(t.pend) == 0 {
		return t.Conn.Read(p)
	}
	need := 1
	if sc.Deliv != "pieces" && t.off == 0 && !t.broken {
		need = 4 // the length prefix says where the pieces of this message end
	}
	var rerr error
	for len(t.pend) < need && rerr == nil {
		buf := make([]byte, 32<<10)
		n, err := t.Conn.Read(buf)
		t.pend = append(t.pend, buf[:n]...)
		rerr = err
	}
	if len(t.pend) == 0 {
		return 0, rerr
	}
	limit := len(t.pend)
	switch {
	case t.broken:
	case sc.Deliv == "pieces":
		limit = sc.DelivK
		if limit < 1 {
			limit = 1
		}
	default:
		if t.off == 0 {
			if len(t.pend) < 4 {
				t.broken = true // an error cut the stream inside a length prefix: hand over what is there
				break
			}
			t.size = int(int32(uint32(t.pend[0])<<24 | uint32(t.pend[1])<<16 | uint32(t.pend[2])<<8 | uint32(t.pend[3])))
			if t.size < 0 || t.size > 64<<20 {
				t.broken = true
				break
			}
		}
		end := 4 + t.size
		cut := 4 // prefix: the length prefix alone
		if sc.Deliv == "halves" {
			cut = 4 + t.size/2
		}
		if t.off < cut {
			limit = cut - t.off
		} else {
			limit = end - t.off
		}
	}
	if limit > len(t.pend) {
		limit = len(t.pend)
	}
	n := copy(p, t.pend[:limit])
	t.pend = t.pend[n:]
	if !t.broken && sc.Deliv != "pieces" {
		t.off += n
		if t.off >= 4+t.size {
			t.off = 0
		}
	}
	return n, nil
}

func (t *tap) Write(p []byte) (int, error) {
	t.r.rec.Emit(trace.Event{"ev": "write", "conn": t.Conn.ID, "n": len(p)})
	return t.Conn.Write(p)
}

func (r *run) dial(ctx context.Context, network, address string) (net.Conn, error) {
	c, err := r.net.DialOwner(ctx, "client", address)
	if err != nil {
		return nil, err
	}
	fc := c.(*fakenet.Conn)
	id := fc.ID
	fc.OnClose = func() {
		r.rec.Emit(trace.Event{"ev": "closed", "conn": id})
		r.ov.onClosed(id)
	}
	r.mu.Lock()
	r.last = id
	r.ids = append(r.ids, id)
	if r.addr == nil {
		r.addr, r.cli = map[int]string{}, map[int]*fakenet.Conn{}
	}
	r.addr[id], r.cli[id] = address, fc
	r.mu.Unlock()
	r.ov.onDial(id, address)
	r.rec.Emit(trace.Event{"ev": "open", "conn": id, "addr": address})
	return &tap{Conn: fc, r: r}, nil
}

func (r *run) lastConn() int {
	r.mu.Lock()
	defer r.mu.Unlock()
	return r.last
}

func (r *run) nconns() int {
	r.mu.Lock()
	defer r.mu.Unlock()
	return len(r.ids)
}

func mechanism(sc *Scenario) (sasl.Mechanism, error) {
	switch sc.Mech {
	case "PLAIN":
		return plain.Mechanism{Username: sc.CUser, Password: sc.CPass}, nil
	case "SCRAM-SHA-256":
		return scram.Mechanism(scram.SHA256, sc.CUser, sc.CPass)
	case "SCRAM-SHA-512":
		return scram.Mechanism(scram.SHA512, sc.CUser, sc.CPass)
	}
	return nil, fmt.Errorf("unknown mechanism %q", sc.Mech)
}

func delivOf(sc *Scenario) string {
	switch sc.Deliv {
	case "", "whole":
		return "whole"
	case "pieces":
		return fmt.Sprintf("pieces/%d", sc.DelivK)
	}
	return sc.Deliv
}

func errClass(err error) string {
	if err == nil {
		return ""
	}
	s := err.Error()
	if len(s) > 200 {
		s = s[:200]
	}
	return s
}

func (r *run) setup() {
	sc := r.sc
	r.net = fakenet.NewNet()
	nb := 2
	if sc.OvN > nb {
		nb = sc.OvN // overlapping authentications: one broker per connection
	}
	r.cl = fakekafka.NewCluster(r.net, nb)
	r.cl.AddTopic(topic, nb) // partition 0 on broker 1, partition 1 on broker 2, ...
	if sc.HsAdv == "" {
		sc.HsAdv = map[int]string{0: "v0", 1: "v0v1"}[sc.HvMax]
	}
	if sc.AuthAdv == "" {
		sc.AuthAdv = map[int]string{0: "v0", 1: "v0v1"}[sc.AuthV]
	}
	vs := fakekafka.DefaultVersions()
	switch sc.HsAdv {
	case "absent":
		delete(vs, fakekafka.SaslHandshake) // the ApiVersions response has no entry for key 17
	case "v0":
		vs[fakekafka.SaslHandshake] = fakekafka.VersionRange{Min: 0, Max: 0}
	case "v0v1":
		vs[fakekafka.SaslHandshake] = fakekafka.VersionRange{Min: 0, Max: 1}
	case "v1":
		vs[fakekafka.SaslHandshake] = fakekafka.VersionRange{Min: 1, Max: 1}
	}
	switch sc.AuthAdv {
	case "absent":
		delete(vs, fakekafka.SaslAuthenticate)
	case "v0":
		vs[fakekafka.SaslAuthenticate] = fakekafka.VersionRange{Min: 0, Max: 0}
	case "v0v1":
		vs[fakekafka.SaslAuthenticate] = fakekafka.VersionRange{Min: 0, Max: 1}
	}
	r.cl.Versions = vs
	var mechs []string
	for _, m := range []string{"PLAIN", "SCRAM-SHA-256", "SCRAM-SHA-512"} {
		if sc.FKind == "unsupported" && m == sc.Mech {
			continue
		}
		mechs = append(mechs, m)
	}
	cfg := &fakekafka.SaslConfig{
		Mechanisms: mechs,
		Users:      map[string]string{sc.User: sc.Pass, "someone-else": "another-secret"},
		FailStep:   -1,
		FailConn:   sc.FConn,
	}
	switch sc.FKind {
	case "error", "malformed", "badproof", "close":
		cfg.FailKind, cfg.FailStep = sc.FKind, sc.FStep
	}
	if sc.FKind == "error" {
		if sc.FCode == 0 { // older scenarios: the broker's default codes
			sc.FCode = 58
			if sc.FStep == 0 {
				sc.FCode = 34
			}
		}
		cfg.ErrorCode = int16(sc.FCode)
	}
	cfg.OnEvent = func(e fakekafka.SaslEvent) {
		code, _ := e.Info["code"].(int)
		r.rec.Emit(trace.Event{"ev": "srv", "conn": e.ConnID, "what": e.Ev, "round": e.Round, "broker": e.Broker, "code": code})
		r.ov.onVerdict(e.ConnID, e.Round) // may hold the answer back (the verdict is journalled, its bytes are not written yet)
	}
	r.cl.Sasl = cfg
	r.cl.OnJournal = func(e fakekafka.JournalEntry) {
		ev := trace.Event{"ev": "req", "conn": e.ConnID, "v": int(e.Version), "broker": e.Broker, "form": "req"}
		switch {
		case e.ApiKey == -1:
			ev["api"], ev["form"] = "RawSaslToken", "raw"
			if lf, _ := e.Info["looksFramed"].(bool); lf {
				// the broker expected a bare token and got a complete SaslAuthenticate request
				ev["api"], ev["form"], ev["inraw"] = "SaslAuthenticate", "framed", true
			}
		case e.ApiKey == fakekafka.SaslAuthenticate:
			ev["api"], ev["form"] = "SaslAuthenticate", "framed"
		default:
			name := fakekafka.ApiNames[e.ApiKey]
			if name == "" {
				name = fmt.Sprintf("Unknown(%d)", e.ApiKey)
			}
			ev["api"] = name
		}
		r.rec.Emit(ev)
		r.ov.onRequest(e.ConnID, fmt.Sprint(ev["api"]))
		if pre, _ := e.Info["preauth"].(bool); pre {
			// a request other than ApiVersions/SaslHandshake/SaslAuthenticate from an unauthenticated client: the broker closes
			r.rec.Emit(trace.Event{"ev": "srv", "conn": e.ConnID, "what": "preauthclose", "round": 0, "broker": e.Broker})
		}
		if un, _ := e.Info["unsupported"].(bool); un {
			r.rec.Emit(trace.Event{"ev": "srv", "conn": e.ConnID, "what": "preauthclose", "round": 0, "broker": e.Broker})
		}
	}
	r.cl.Intercept = func(req *fakekafka.Request) *fakekafka.Reply {
		if req.ApiKey != fakekafka.ApiVersions {
			return nil
		}
		rep := req.Broker.Handle(req) // journals the request
		r.rec.Emit(trace.Event{"ev": "srv", "conn": req.Conn.ID, "what": "versions", "round": 0, "broker": req.Broker.ID, "hsadv": sc.HsAdv, "authadv": sc.AuthAdv})
		return &rep
	}
}

// result records the outcome of an API call, attributed to the connection dialled last during the call (0: none was dialled).
func (r *run) result(call string, before int, err error) {
	conn := 0
	if r.nconns() > before {
		conn = r.lastConn()
	}
	res := "ok"
	if err != nil {
		res = "error"
	}
	r.rec.Emit(trace.Event{"ev": "result", "conn": conn, "call": call, "res": res, "err": errClass(err)})
}

func (r *run) use(conn int, call string, err error) {
	r.rec.Emit(trace.Event{"ev": "use", "conn": conn, "call": call, "ok": err == nil, "err": errClass(err)})
}

func guard(f func() error) (err error) {
	defer func() {
		if p := recover(); p != nil {
			err = fmt.Errorf("PANIC: %v", p)
		}
	}()
	return f()
}

func (r *run) runDialer(m sasl.Mechanism) {
	sc := r.sc
	d := &kafka.Dialer{ClientID: "vh", DialFunc: r.dial, SASLMechanism: m, Timeout: 4 * time.Second}
	ctx, cancel := context.WithTimeout(context.Background(), 5*time.Second)
	defer cancel()
	var conn *kafka.Conn
	before := r.nconns()
	err := guard(func() error {
		var e error
		if sc.Entry == "leader" {
			conn, e = d.DialLeader(ctx, "tcp", "b1:9092", topic, 1) // partition 1 is led by broker 2
		} else {
			conn, e = d.DialContext(ctx, "tcp", "b1:9092")
		}
		return e
	})
	r.result(sc.Entry, before, err)
	if err != nil || conn == nil {
		return
	}
	id := r.lastConn()
	conn.SetDeadline(time.Now().Add(3 * time.Second))
	_, uerr := conn.ReadPartitions(topic)
	r.use(id, "ReadPartitions", uerr)
	if sc.Entry == "leader" {
		_, uerr = conn.ReadLastOffset()
		r.use(id, "ReadLastOffset", uerr)
	}
	conn.Close()
}

func (r *run) listOffsets(ctx context.Context, client *kafka.Client, partition int) error {
	_, err := client.ListOffsets(ctx, &kafka.ListOffsetsRequest{Topics: map[string][]kafka.OffsetRequest{topic: {kafka.LastOffsetOf(partition)}}})
	return err
}

func (r *run) runTransport(m sasl.Mechanism) {
	sc := r.sc
	tr := &kafka.Transport{Dial: r.dial, SASL: m, ClientID: "vh", MetadataTTL: time.Hour, DialTimeout: 4 * time.Second, IdleTimeout: time.Hour}
	client := &kafka.Client{Addr: kafka.TCP("b1:9092"), Transport: tr, Timeout: 5 * time.Second}
	defer tr.CloseIdleConnections()
	ctx, cancel := context.WithTimeout(context.Background(), 6*time.Second)
	defer cancel()
	// A: the pool's metadata loop dials the control connection, authenticates and asks for the metadata
	before := r.nconns()
	err := guard(func() error { _, e := client.Metadata(ctx, &kafka.MetadataRequest{}); return e })
	r.result("Metadata", before, err)
	if err != nil {
		return
	}
	if sc.Entry == "transport" {
		// B: a request routed to the leader of partition 1 (broker 2): a second connection, authenticated on its own
		before = r.nconns()
		err = guard(func() error { return r.listOffsets(ctx, client, 1) })
		r.result("ListOffsets", before, err)
		return
	}
	// transportconc: concurrent requests share the pool; each may dial (and authenticate) its own connection
	var wg sync.WaitGroup
	for i := 0; i < sc.Conc; i++ {
		wg.Add(1)
		go func(i int) {
			defer wg.Done()
			e := guard(func() error { return r.listOffsets(ctx, client, i%2) })
			r.rec.Emit(trace.Event{"ev": "call", "conn": 0, "call": "ListOffsets", "k": i, "ok": e == nil, "err": errClass(e)})
		}(i)
	}
	wg.Wait()
}

// Run executes one scenario and returns its journal: for every connection, in dial order, a "cfg" line followed by the
// connection's events in recorder order and an "end" line with the census.
func Run(sc *Scenario) []trace.Event {
	r := &run{sc: sc, rec: trace.New()}
	if sc.Entry == "dialovl" || sc.Entry == "transportovl" {
		r.ov = newOverlap(r)
	}
	r.setup()
	m, err := mechanism(sc)
	if err != nil {
		return []trace.Event{{"ev": "setuperror", "id": sc.ID, "err": err.Error()}}
	}
	if sc.Entry == "dialovl" || sc.Entry == "transportovl" {
		r.runOverlap(m)
	} else if strings.HasPrefix(sc.Entry, "transport") {
		r.runTransport(m)
	} else {
		r.runDialer(m)
	}
	// after the scenario: give stray writes / late closes a chance to show up, then take the census
	deadline := time.Now().Add(400 * time.Millisecond)
	time.Sleep(50 * time.Millisecond)
	for len(r.net.Open("client")) > 0 && time.Now().Before(deadline) {
		time.Sleep(5 * time.Millisecond)
	}
	open := map[int]bool{}
	for _, c := range r.net.Open("client") {
		open[c.ID] = true
	}
	evs := r.rec.Events()
	r.mu.Lock()
	ids := append([]int{}, r.ids...)
	r.mu.Unlock()
	attr := map[int]bool{}
	for _, e := range evs {
		if e["ev"] == "result" {
			if c, _ := e["conn"].(int); c != 0 {
				attr[c] = true
			}
		}
	}
	var out []trace.Event
	for k, id := range ids {
		fk, fs, fc := "none", 0, 0
		if sc.FKind == "unsupported" || (sc.FKind != "none" && (sc.FConn == 0 || sc.FConn == id)) {
			fk, fs = sc.FKind, sc.FStep
			if fk == "error" {
				fc = sc.FCode
			}
		}
		out = append(out, trace.Event{"ev": "cfg", "id": fmt.Sprintf("%s#%d", sc.ID, k+1), "scenario": sc.ID, "conn": id,
			"mech": sc.Mech, "hsadv": sc.HsAdv, "authadv": sc.AuthAdv, "creds": sc.Creds, "fkind": fk, "fstep": fs, "fcode": fc, "attr": attr[id],
			"entry": sc.Entry, "class": sc.Class, "nconns": len(ids), "deliv": delivOf(sc), "ov": r.ov.describe(id)})
		for _, e := range evs {
			if c, _ := e["conn"].(int); c == id {
				out = append(out, e)
			}
		}
		out = append(out, trace.Event{"ev": "end", "conn": id, "closed": !open[id]})
	}
	// calls that cannot be attributed to a connection (informational)
	for _, e := range evs {
		if c, _ := e["conn"].(int); c == 0 {
			e["scenario"] = sc.ID
			e["ev"] = "x" + fmt.Sprint(e["ev"])
			out = append(out, e)
		}
	}
	if len(ids) == 0 {
		out = append(out, trace.Event{"ev": "xnoconn", "scenario": sc.ID})
	}
	return out
}
