//go:build verif

package sasldrv

import (
	"context"
	"fmt"
	"sync"
	"time"

	kafka "github.com/segmentio/kafka-go"
	"github.com/segmentio/kafka-go/sasl"

	"verifharness/trace"
)

// Overlapping authentications.
//
// A sasl.Mechanism value is shared by every connection of a Dialer / Transport; each authentication must nevertheless be
// a conversation of its own.  The scenarios dialovl / transportovl authenticate OvN connections at once with ONE Dialer /
// ONE Transport (connection k goes to broker k, so that the result of a call is attributed by address) and let the broker
// side choose the interleaving without any sleep:
//
//   - the answer to step OvHold[k-1] of connection k (0: the handshake, i: authenticate round i) is held back - its verdict
//     is journalled, its bytes are not yet written - and the driver starts the call of connection k+1 only then;
//   - the answer is released when connection k+1 has sent its first authentication bytes, i.e. its Mechanism.Start ran
//     (modes start, lock), or when connection k+1 is through (mode done: it sent an ordinary request, was closed, or its
//     call returned);
//   - mode lock: the answer to the first authentication bytes of the last connection waits in turn until the connection
//     before it has consumed the released answer (its next request arrived, it was closed, or its call returned), which
//     makes the order  k sent step r < k+1 started < k processed the answer to r < k+1 processed its first answer  certain.
//
// Every wait also ends when the client end of the held connection is closed and after a watchdog, which never fires on a
// correct client (each awaited event is produced by the exchange itself); the journals say why a hold ended.
type overlap struct {
	r                          *run
	n                          int
	hold                       []int // hold[k], k = 1..n-1
	mode                       string
	mu                         sync.Mutex
	active                     bool
	ord                        map[int]int // fakenet connection -> ordinal 1..n
	conn                       []int       // ordinal -> fakenet connection (0: not dialled)
	held                       []*signal   // the answer of connection k is being held
	first                      []*signal   // connection k sent its first authentication bytes
	done                       []*signal   // connection k is through
	adv                        []*signal   // connection k went on after its held answer was released
	didHold, released, didLock []bool
}

type signal struct {
	ch   chan struct{}
	once sync.Once
}

func newSignal() *signal { return &signal{ch: make(chan struct{})} }
func (s *signal) fire()  { s.once.Do(func() { close(s.ch) }) }

const ovWatchdog = 3 * time.Second

func newOverlap(r *run) *overlap {
	sc := r.sc
	n := sc.OvN
	if n < 2 {
		n = 2
		sc.OvN = 2
	}
	o := &overlap{r: r, n: n, mode: sc.OvMode, ord: map[int]int{}, hold: make([]int, n+1), conn: make([]int, n+2),
		didHold: make([]bool, n+2), released: make([]bool, n+2), didLock: make([]bool, n+2)}
	if o.mode == "" {
		o.mode = "start"
	}
	for k := 1; k < n; k++ {
		o.hold[k] = 1
		if k-1 < len(sc.OvHold) {
			o.hold[k] = sc.OvHold[k-1]
		}
	}
	for k := 0; k <= n+1; k++ {
		o.held, o.first, o.done, o.adv = append(o.held, newSignal()), append(o.first, newSignal()), append(o.done, newSignal()), append(o.adv, newSignal())
	}
	return o
}

func ovAddr(k int) string { return fmt.Sprintf("b%d:9092", k) }

// onDial gives the first connection dialled to broker k during the overlapping phase the ordinal k.
func (o *overlap) onDial(id int, address string) {
	if o == nil {
		return
	}
	o.mu.Lock()
	defer o.mu.Unlock()
	if !o.active {
		return
	}
	for k := 1; k <= o.n; k++ {
		if address == ovAddr(k) && o.conn[k] == 0 {
			o.conn[k], o.ord[id] = id, k
			return
		}
	}
}

func (o *overlap) ordinal(id int) int {
	if o == nil {
		return 0
	}
	o.mu.Lock()
	defer o.mu.Unlock()
	return o.ord[id]
}

func (o *overlap) connOf(k int) int {
	o.mu.Lock()
	defer o.mu.Unlock()
	return o.conn[k]
}

func (o *overlap) describe(id int) string {
	k := o.ordinal(id)
	if k == 0 {
		return ""
	}
	s := fmt.Sprintf("%d/%d mode=%s", k, o.n, o.mode)
	if k < o.n {
		s += fmt.Sprintf(" hold=%d", o.hold[k])
	}
	return s
}

// wait blocks until one of the signals fires, the client end of connection id is closed, or the watchdog expires.
func (o *overlap) wait(id int, sigs ...*signal) string {
	o.r.mu.Lock()
	cli := o.r.cli[id]
	o.r.mu.Unlock()
	var gone <-chan struct{}
	if cli != nil {
		gone = cli.Done()
	}
	t := time.NewTimer(ovWatchdog)
	defer t.Stop()
	var a, b <-chan struct{}
	a = sigs[0].ch
	if len(sigs) > 1 {
		b = sigs[1].ch
	}
	select {
	case <-a:
		return "event"
	case <-b:
		return "peerdone"
	case <-gone:
		return "clientclosed"
	case <-t.C:
		return "watchdog"
	}
}

// onVerdict runs in the broker's connection goroutine after a verdict was journalled and before its bytes are written.
func (o *overlap) onVerdict(id, round int) {
	k := o.ordinal(id)
	if k == 0 {
		return
	}
	o.mu.Lock()
	holdNow := k < o.n && round == o.hold[k] && !o.didHold[k]
	if holdNow {
		o.didHold[k] = true
	}
	lockNow := o.mode == "lock" && k == o.n && round == 1 && !o.didLock[k]
	if lockNow {
		o.didLock[k] = true
	}
	o.mu.Unlock()
	if holdNow {
		o.r.rec.Emit(trace.Event{"ev": "hold", "conn": id, "round": round, "until": o.mode})
		o.held[k].fire()
		cond := o.first[k+1]
		if o.mode == "done" {
			cond = o.done[k+1]
		}
		var why string
		if o.mode == "done" {
			why = o.wait(id, cond)
		} else {
			why = o.wait(id, cond, o.done[k+1]) // a connection that never gets to its authentication bytes must not block the other
		}
		o.mu.Lock()
		o.released[k] = true
		o.mu.Unlock()
		o.r.rec.Emit(trace.Event{"ev": "release", "conn": id, "round": round, "why": why})
	}
	if lockNow {
		o.r.rec.Emit(trace.Event{"ev": "hold", "conn": id, "round": round, "until": "peeradvanced"})
		why := o.wait(id, o.adv[k-1])
		o.r.rec.Emit(trace.Event{"ev": "release", "conn": id, "round": round, "why": why})
	}
}

// onRequest: the broker received a request / raw token on connection id.
func (o *overlap) onRequest(id int, api string) {
	k := o.ordinal(id)
	if k == 0 {
		return
	}
	switch api {
	case "ApiVersions", "SaslHandshake":
	case "SaslAuthenticate", "RawSaslToken":
		o.first[k].fire()
	default:
		o.done[k].fire()
	}
	o.mu.Lock()
	rel := o.released[k]
	o.mu.Unlock()
	if rel {
		o.adv[k].fire()
	}
}

func (o *overlap) through(k int) {
	o.done[k].fire()
	o.adv[k].fire()
}

func (o *overlap) onClosed(id int) {
	if k := o.ordinal(id); k != 0 {
		o.through(k)
	}
}

// runOverlap authenticates OvN connections at once through one Dialer (dialovl) or one Transport (transportovl).
func (r *run) runOverlap(m sasl.Mechanism) {
	sc, o := r.sc, r.ov
	ctx, cancel := context.WithTimeout(context.Background(), 8*time.Second)
	defer cancel()
	var call func(k int)
	if sc.Entry == "dialovl" {
		d := &kafka.Dialer{ClientID: "vh", DialFunc: r.dial, SASLMechanism: m, Timeout: 6 * time.Second}
		call = func(k int) {
			var conn *kafka.Conn
			err := guard(func() error {
				var e error
				conn, e = d.DialContext(ctx, "tcp", ovAddr(k))
				return e
			})
			id := o.connOf(k)
			r.resultOn(id, "dial", err)
			o.through(k)
			if err != nil || conn == nil {
				return
			}
			conn.SetDeadline(time.Now().Add(3 * time.Second))
			_, uerr := conn.ReadPartitions(topic)
			r.use(id, "ReadPartitions", uerr)
			conn.Close()
		}
	} else {
		tr := &kafka.Transport{Dial: r.dial, SASL: m, ClientID: "vh", MetadataTTL: time.Hour, DialTimeout: 6 * time.Second, IdleTimeout: time.Hour}
		defer tr.CloseIdleConnections()
		if sc.OvVia == "pools" {
			// one Transport, one pool per bootstrap address: the control connections of the pools (to broker 1, 2, ...) are
			// dialled and authenticated at once, all with the Transport's Mechanism value
			call = func(k int) {
				ck := &kafka.Client{Addr: kafka.TCP(ovAddr(k)), Transport: tr, Timeout: 7 * time.Second}
				err := guard(func() error { _, e := ck.Metadata(ctx, &kafka.MetadataRequest{}); return e })
				r.resultOn(o.connOf(k), "Metadata", err)
				o.through(k)
			}
		} else {
			client := &kafka.Client{Addr: kafka.TCP("b1:9092"), Transport: tr, Timeout: 7 * time.Second}
			// the control connection of the pool is dialled and authenticated on its own, before the overlapping phase
			before := r.nconns()
			err := guard(func() error { _, e := client.Metadata(ctx, &kafka.MetadataRequest{}); return e })
			r.result("Metadata", before, err)
			if err != nil {
				return
			}
			call = func(k int) {
				// a request routed to the leader of partition k-1 (broker k): the pool dials and authenticates a connection for it
				err := guard(func() error { return r.listOffsets(ctx, client, k-1) })
				r.resultOn(o.connOf(k), "ListOffsets", err)
				o.through(k)
			}
		}
	}
	o.mu.Lock()
	o.active = true
	o.mu.Unlock()
	var wg sync.WaitGroup
	for k := 1; k <= o.n; k++ {
		wg.Add(1)
		go func(k int) {
			defer wg.Done()
			call(k)
		}(k)
		if k < o.n {
			// the next call starts when the answer of this connection is being held (or the connection is through already)
			select {
			case <-o.held[k].ch:
			case <-o.done[k].ch:
			case <-time.After(ovWatchdog):
			}
		}
	}
	wg.Wait()
}

// resultOn records the outcome of an API call on the connection it dialled (0: none).
func (r *run) resultOn(conn int, call string, err error) {
	res := "ok"
	if err != nil {
		res = "error"
	}
	r.rec.Emit(trace.Event{"ev": "result", "conn": conn, "call": call, "res": res, "err": errClass(err)})
}
