//go:build verif

package cdriver

import (
	"bytes"
	"errors"
	"fmt"
	"hash/fnv"
	"io"
	"reflect"
	"runtime"
	"strconv"

	"github.com/segmentio/kafka-go/compress"
	"github.com/segmentio/kafka-go/compress/gzip"
	"github.com/segmentio/kafka-go/compress/lz4"
	"github.com/segmentio/kafka-go/compress/snappy"
	"github.com/segmentio/kafka-go/compress/zstd"

	"verifharness/trace"
)

// Script is one history: a sequence of uses of codec readers / writers that share the
// (process-wide) object pools.  The pools are emptied before the history starts.
type Script struct {
	ID    string `json:"id"`
	Class string `json:"class"`
	Uses  []Use  `json:"uses"`
}

type Op struct {
	Op     string `json:"op"` // w: write flush readfrom close abandon; r: read drain writeto close abandon
	N      int    `json:"n"`  // write size / read buffer size
	Chunks []int  `json:"chunks,omitempty"`
}

type Src struct {
	Kind   string `json:"kind"` // "use": output of use U of this history; "ref": built by a reference encoder
	U      int    `json:"u"`
	Enc    string `json:"enc"` // ref: "raw" (one snappy block), "xerial" (hand framed, Blocks), "lib" (gzip/lz4/zstd reference encoder)
	PClass string `json:"pclass"`
	PSeed  int64  `json:"pseed"`
	Total  int    `json:"total"`
	Blocks []int  `json:"blocks"`
}

type Trunc struct {
	Item int    `json:"item"` // snappy: 1-based index of the stream item that is cut (hdr, len, blk, len, blk ...)
	Part string `json:"part"` // "none": cut at the start of the item; "mid": inside; "hdr_lt8" / "hdr_ge8": inside the header
	Frac int    `json:"frac"` // other codecs: cut at len*frac/1000
	Kind string `json:"kind"` // "eof": the source just ends; "ioerr": the source returns an error there
}

type Use struct {
	Kind   string `json:"kind"` // "w" | "r"
	Codec  string `json:"codec"`
	Mode   string `json:"mode"` // snappy: framed | unframed
	Level  string `json:"level"` // "" = the codec's default; snappy: faster | better | best; gzip, zstd: the integer Level of the Codec
	Key    string `json:"key"`  // identifies the use script (same key = same use, whatever came before)
	PClass string `json:"pclass"`
	PSeed  int64  `json:"pseed"`
	Ops    []Op   `json:"ops"`
	Budget int    `json:"budget"` // w: number of underlying Write calls that succeed (-1: all)
	Src    *Src   `json:"src"`
	Trunc  *Trunc `json:"trunc"`
	// how the source hands out its bytes (the result must not depend on it)
	SrcChunk    int  `json:"srcchunk"`
	EOFWithData bool `json:"eofwithdata"`
}

var errInjected = errors.New("verif: injected I/O error")

// sink is the underlying io.Writer of a codec writer (deliberately nothing but Write).
type sink struct {
	buf    bytes.Buffer
	budget int
	calls  []int // sizes of the successful calls since the last take()
	failed bool
}

func (s *sink) Write(b []byte) (int, error) {
	if s.budget == 0 {
		s.failed = true
		return 0, errInjected
	}
	if s.budget > 0 {
		s.budget--
	}
	s.buf.Write(b)
	s.calls = append(s.calls, len(b))
	return len(b), nil
}

func (s *sink) take() []int {
	c := s.calls
	s.calls = nil
	if c == nil {
		c = []int{}
	}
	if len(c) > 64 {
		c = c[:64]
	}
	return c
}

// source is the underlying io.Reader of a codec reader (nothing but Read).
type source struct {
	b           []byte
	off         int
	chunk       int
	endErr      error // what is returned at the end of b (io.EOF or the injected error)
	eofWithData bool
}

func (s *source) Read(p []byte) (int, error) {
	if s.off >= len(s.b) {
		return 0, s.endErr
	}
	n := len(p)
	if s.chunk > 0 && n > s.chunk {
		n = s.chunk
	}
	n = copy(p[:n], s.b[s.off:])
	s.off += n
	if s.eofWithData && s.off >= len(s.b) && n > 0 {
		return n, s.endErr
	}
	return n, nil
}

// chunked hands out data in the scripted chunk sizes (for ReadFrom).
type chunked struct {
	b      []byte
	chunks []int
	i, rem int
}

func (c *chunked) Read(p []byte) (int, error) {
	for c.rem == 0 {
		if c.i >= len(c.chunks) {
			return 0, io.EOF
		}
		c.rem = c.chunks[c.i]
		c.i++
	}
	n := len(p)
	if n > c.rem {
		n = c.rem
	}
	n = copy(p[:n], c.b)
	c.b = c.b[n:]
	c.rem -= n
	return n, nil
}

// rle collects a run-length encoding of a sequence of sizes.
type rle struct{ runs [][2]int }

func (r *rle) add(n int) {
	if k := len(r.runs); k > 0 && r.runs[k-1][0] == n {
		r.runs[k-1][1]++
		return
	}
	r.runs = append(r.runs, [2]int{n, 1})
}

func (r *rle) get() [][2]int {
	if r.runs == nil {
		return [][2]int{}
	}
	return r.runs
}

// checker is the destination of WriteTo: compares with the expected payload and records sizes.
type checker struct {
	want []byte
	pos  int
	eq   bool
	r    rle
}

func (c *checker) Write(b []byte) (int, error) {
	if c.pos+len(b) > len(c.want) || !bytes.Equal(b, c.want[c.pos:c.pos+len(b)]) {
		c.eq = false
	}
	c.pos += len(b)
	c.r.add(len(b))
	return len(b), nil
}

// objID reads the identity of the pooled object behind a reader / writer handed out by a codec.
func objID(v interface{}) uintptr {
	rv := reflect.ValueOf(v)
	if rv.Kind() != reflect.Ptr || rv.IsNil() || rv.Elem().Kind() != reflect.Struct {
		return 0
	}
	e := rv.Elem()
	for i := 0; i < e.NumField(); i++ {
		f := e.Field(i)
		if f.Kind() != reflect.Ptr || f.IsNil() {
			continue
		}
		switch f.Type().Elem().Name() {
		case "xerialReader", "xerialWriter", "Reader", "Writer", "Decoder", "Encoder":
			return f.Pointer()
		}
	}
	return 0
}

// codecs holds the codec VALUES of one history, one per (codec, framing, level), made on first use.  The snappy, lz4 and
// gzip-reader / zstd-decoder pools are package-wide (shared by all values); the gzip writer and zstd encoder pools belong to the value.
type codecs struct {
	m map[string]compress.Codec
}

// SnappyLevels / GzipLevels / ZstdLevels: the non-default levels the Codec types can be configured with.
var SnappyLevels = map[string]snappy.Compression{"": snappy.DefaultCompression, "faster": snappy.FasterCompression,
	"better": snappy.BetterCompression, "best": snappy.BestCompression}

// NewCodec makes a fresh codec value.
func NewCodec(codec, mode, level string) compress.Codec {
	lv := 0
	if level != "" && codec != "snappy" {
		n, err := strconv.Atoi(level)
		if err != nil {
			panic("bad level " + level)
		}
		lv = n
	}
	switch codec {
	case "gzip":
		return &gzip.Codec{Level: lv}
	case "snappy":
		c, ok := SnappyLevels[level]
		if !ok {
			panic("bad snappy level " + level)
		}
		f := snappy.Framed
		if mode == "unframed" {
			f = snappy.Unframed
		}
		return &snappy.Codec{Framing: f, Compression: c}
	case "lz4":
		if level != "" {
			panic("lz4.Codec has no level")
		}
		return &lz4.Codec{}
	case "zstd":
		return &zstd.Codec{Level: lv}
	}
	panic("unknown codec " + codec)
}

func (c *codecs) get(codec, mode, level string) compress.Codec {
	k := codec + "/" + mode + "/" + level
	if v, ok := c.m[k]; ok {
		return v
	}
	v := NewCodec(codec, mode, level)
	c.m[k] = v
	return v
}

func hash(b []byte) int {
	h := fnv.New32a()
	h.Write(b)
	return int(h.Sum32() & 0x7fffffff)
}

type useOut struct {
	out     []byte // w: what reached the sink
	payload []byte // w: the accepted payload; r: the payload of the stream
	ok      bool   // w: closed without any error
}

// Run executes one history and returns its events ("hist" first, then one "use" event per use).
func Run(sc *Script) []trace.Event {
	// empty the pools: sync.Pool drops everything after two collections
	runtime.GC()
	runtime.GC()
	cs := &codecs{m: map[string]compress.Codec{}}
	evs := []trace.Event{{"ev": "hist", "id": sc.ID, "class": sc.Class}}
	ids := map[uintptr]int{}
	outs := make([]*useOut, len(sc.Uses)+1)
	for i := range sc.Uses {
		u := &sc.Uses[i]
		var e trace.Event
		func() {
			// a panic inside the codec (or the library it wraps) ends the use; it is recorded, not hidden
			defer func() {
				if p := recover(); p != nil {
					e = trace.Event{"crash": fmt.Sprint(p)}
					if u.Kind == "w" {
						outs[i+1] = &useOut{}
					}
				}
			}()
			if u.Kind == "w" {
				e, outs[i+1] = runWriter(cs, u, ids)
			} else {
				e = runReader(cs, u, ids, outs)
			}
		}()
		e["ev"], e["hid"], e["u"], e["kind"], e["codec"], e["mode"], e["level"], e["key"] = "use", sc.ID, i+1, u.Kind, u.Codec, u.Mode, u.Level, u.Key
		if _, crashed := e["crash"]; crashed {
			e["ev"] = "crash"
		}
		evs = append(evs, e)
	}
	return evs
}

func ident(ids map[uintptr]int, v interface{}) (int, bool) {
	p := objID(v)
	if p == 0 {
		return 0, false
	}
	if id, ok := ids[p]; ok {
		return id, true
	}
	ids[p] = len(ids) + 1
	return ids[p], false
}

func runWriter(cs *codecs, u *Use, ids map[uintptr]int) (trace.Event, *useOut) {
	total := 0
	for _, op := range u.Ops {
		if op.Op == "write" {
			total += op.N
		}
		for _, c := range op.Chunks {
			total += c
		}
	}
	payload := Payload(u.PClass, u.PSeed, total)
	sk := &sink{budget: u.Budget}
	w := cs.get(u.Codec, u.Mode, u.Level).NewWriter(sk)
	obj, reused := ident(ids, w)
	pos := 0
	failed, closed := false, false
	ops := []map[string]interface{}{}
	for _, op := range u.Ops {
		r := map[string]interface{}{"op": op.Op, "n": op.N, "ret": 0, "err": false, "chunks": []int{}}
		switch op.Op {
		case "write":
			n, err := w.Write(payload[pos : pos+op.N])
			pos += n
			r["ret"], r["err"] = n, err != nil
		case "flush":
			if f, ok := w.(interface{ Flush() error }); ok {
				r["err"] = f.Flush() != nil
				r["n"] = 1
			}
		case "readfrom":
			sum := 0
			for _, c := range op.Chunks {
				sum += c
			}
			r["n"], r["chunks"] = sum, op.Chunks
			src := &chunked{b: payload[pos : pos+sum], chunks: op.Chunks}
			var n int64
			var err error
			if rf, ok := w.(io.ReaderFrom); ok {
				n, err = rf.ReadFrom(src)
			} else {
				n, err = io.Copy(struct{ io.Writer }{w}, src)
			}
			pos += int(n)
			r["ret"], r["err"] = int(n), err != nil
		case "close":
			r["err"] = w.Close() != nil
			closed = true
		case "abandon":
		}
		if r["err"].(bool) {
			failed = true
		}
		r["uw"] = sk.take()
		ops = append(ops, r)
	}
	out := append([]byte{}, sk.buf.Bytes()...)
	e := trace.Event{"obj": obj, "reused": reused, "budget": u.Budget, "ops": ops, "total": pos, "failed": failed || sk.failed,
		"closed": closed, "outlen": len(out), "osum": hash(out), "psum": hash(payload[:pos])}
	frames := [][3]int{}
	hdr, rest, refok, eq, declen := false, 0, false, false, -1
	// the reference decoder of the format and its verdict on every block of the output (snappy: the strict block decoder)
	refdec, referr := map[string]string{"gzip": "stdlib-gzip", "lz4": "pierrec-lz4-frame", "zstd": "klauspost-zstd-frame"}[u.Codec], ""
	strict := []map[string]interface{}{}
	if u.Codec == "snappy" {
		refdec = "snappy-block-strict"
		p := ParseSnappy(out)
		hdr, rest = p.Hdr, p.Rest
		for _, f := range p.Frames {
			frames = append(frames, [3]int{f.Prefix, f.CLen, f.DLen})
			strict = append(strict, f.Strict())
		}
		referr = p.FirstBad()
		refok = rest == 0
		for _, f := range p.Frames {
			if f.DLen < 0 {
				refok = false
			}
		}
		declen = len(p.Decoded)
		eq = bytes.Equal(p.Decoded, payload[:pos])
	} else {
		d, err := RefDecode(u.Codec, out)
		refok = err == nil
		if err != nil {
			referr = err.Error()
		}
		declen = len(d)
		eq = err == nil && bytes.Equal(d, payload[:pos])
	}
	e["hdr"], e["frames"], e["rest"], e["refok"], e["eq"], e["declen"] = hdr, frames, rest, refok, eq, declen
	e["refdec"], e["strict"], e["referr"] = refdec, strict, referr
	return e, &useOut{out: out, payload: payload[:pos], ok: closed && !failed && !sk.failed}
}

func runReader(cs *codecs, u *Use, ids map[uintptr]int, outs []*useOut) trace.Event {
	var stream, payload []byte
	srcdesc := ""
	srcok := true
	switch {
	case u.Src.Kind == "use":
		o := outs[u.Src.U]
		stream, payload = o.out, o.payload
		srcdesc = "use"
		srcok = o.ok
	default:
		payload = Payload(u.Src.PClass, u.Src.PSeed, u.Src.Total)
		srcdesc = "ref:" + u.Src.Enc
		switch u.Src.Enc {
		case "raw":
			stream = snappyRaw(payload)
		case "xerial":
			stream = BuildXerial(payload, u.Src.Blocks)
		default:
			var err error
			stream, err = RefEncode(u.Codec, payload)
			if err != nil {
				panic(err)
			}
		}
	}
	// structure of the full stream as this framer sees it
	hdr, blocks, nitems := false, []int{}, 1
	var items [][2]int
	if u.Codec == "snappy" {
		p := ParseSnappy(stream)
		hdr, items, nitems = p.Hdr, p.Items, len(p.Items)
		for _, f := range p.Frames {
			blocks = append(blocks, f.DLen)
		}
	}
	cut, endErr := len(stream), io.EOF
	tr := map[string]interface{}{"item": 0, "part": "none", "kind": "none", "frac": 0}
	if t := u.Trunc; t != nil {
		if u.Codec == "snappy" && t.Item >= 1 && t.Item <= len(items) {
			it := items[t.Item-1]
			switch t.Part {
			case "none":
				cut = it[0]
			case "hdr_lt8":
				cut = it[0] + 5
			case "hdr_ge8":
				cut = it[0] + 11
			default:
				cut = it[0] + (it[1]-it[0])/2
				if cut == it[0] {
					cut++
				}
			}
		} else if u.Codec == "snappy" && t.Item == len(items)+1 {
			cut = len(stream) // complete stream, but the source ends with the injected error
		} else {
			cut = len(stream) * t.Frac / 1000
		}
		if t.Kind == "ioerr" {
			endErr = errInjected
		}
		tr = map[string]interface{}{"item": t.Item, "part": t.Part, "kind": t.Kind, "frac": t.Frac}
	}
	src := &source{b: stream[:cut], chunk: u.SrcChunk, endErr: endErr, eofWithData: u.EOFWithData}
	r := cs.get(u.Codec, u.Mode, u.Level).NewReader(src)
	obj, reused := ident(ids, r)
	pos, eq := 0, true
	final := "none"
	buf := make([]byte, 0)
	check := func(b []byte) {
		if pos+len(b) > len(payload) || !bytes.Equal(b, payload[pos:pos+len(b)]) {
			eq = false
		}
		pos += len(b)
	}
	resOf := func(err error) string {
		switch {
		case err == nil:
			return "ok"
		case err == io.EOF:
			return "eof"
		}
		return "err"
	}
	ops := []map[string]interface{}{}
	for _, op := range u.Ops {
		o := map[string]interface{}{"op": op.Op, "n": op.N, "ret": 0, "res": "ok", "runs": [][2]int{}, "calls": 0}
		if cap(buf) < op.N {
			buf = make([]byte, op.N)
		}
		switch op.Op {
		case "read":
			n, err := r.Read(buf[:op.N])
			check(buf[:n])
			o["ret"], o["res"], o["calls"] = n, resOf(err), 1
			if err != nil {
				final = resOf(err)
			}
		case "drain":
			var rl rle
			tot, calls, idle := 0, 0, 0
			res := "stuck"
			for idle < 1000 {
				n, err := r.Read(buf[:op.N])
				calls++
				check(buf[:n])
				tot += n
				if n > 0 {
					rl.add(n)
					idle = 0
				} else {
					idle++
				}
				if err != nil {
					res = resOf(err)
					break
				}
			}
			o["ret"], o["res"], o["runs"], o["calls"] = tot, res, rl.get(), calls
			final = res
		case "writeto":
			ck := &checker{want: payload, pos: pos, eq: true}
			var n int64
			var err error
			if wt, ok := r.(io.WriterTo); ok {
				n, err = wt.WriteTo(ck)
				o["n"] = 1
			} else {
				n, err = io.Copy(ck, struct{ io.Reader }{r})
			}
			if !ck.eq {
				eq = false
			}
			pos = ck.pos
			res := resOf(err)
			if err == nil {
				res = "eof" // WriteTo returns nil at the end of the stream
			}
			o["ret"], o["res"], o["runs"], o["calls"] = int(n), res, ck.r.get(), 1
			final = res
		case "close":
			if r.Close() != nil {
				o["res"] = "err"
			}
		case "abandon":
		}
		ops = append(ops, o)
	}
	return trace.Event{"obj": obj, "reused": reused, "ops": ops, "total": pos, "eq": eq, "final": final,
		"plen": len(payload), "src": srcdesc, "srcchunk": u.SrcChunk, "eofwithdata": u.EOFWithData,
		"stream": map[string]interface{}{"srcok": srcok, "hdr": hdr, "blocks": blocks, "nitems": nitems, "trunc": tr, "len": len(stream), "cut": cut}}
}
