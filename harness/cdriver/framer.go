//go:build verif

// Package cdriver replays op histories on the compression codecs of kafka-go
// (compress/gzip, compress/snappy, compress/lz4, compress/zstd) and records what
// happened.  Everything in this file is independent of /repo: the xerial framer
// is written here from the format description (16-byte magic header once, then
// [4-byte big-endian length][raw snappy block]*), and the format libraries are
// used directly as reference encoders / decoders.  Snappy BLOCKS are decoded by
// the strict hand-written decoder of snappystrict.go (the klauspost block API is
// s2.Decode, the decoder family of the code under test, which also accepts S2-only
// elements); klauspost/compress/snappy is only the reference ENCODER of the streams
// fed to the library's reader (and its blocks pass through the strict decoder too).
package cdriver

import (
	"bytes"
	stdgzip "compress/gzip"
	"encoding/binary"
	"fmt"
	"io"
	"math/rand"

	ksnappy "github.com/klauspost/compress/snappy"
	kzstd "github.com/klauspost/compress/zstd"
	plz4 "github.com/pierrec/lz4/v4"
)

// xerial magic: 0x82 "SNAPPY" 0x00, version 1, compatible version 1.
var xerialMagic = []byte{0x82, 'S', 'N', 'A', 'P', 'P', 'Y', 0, 0, 0, 0, 1, 0, 0, 0, 1}

// Frame is one parsed xerial frame: the length prefix, the number of bytes of the
// block that were really there, and the uncompressed length obtained by decoding
// the block with the strict snappy block decoder (-1: the block does not decode).
type Frame struct {
	Prefix int
	CLen   int
	DLen   int
	Err    string // why the strict decoder rejected the block (names the offending element)
	S2     bool   // diagnostic only, set for a rejected block: the lenient klauspost decoder (snappy + S2 extensions) accepts it
}

// Strict is what goes to the judge for every block: the strict decoder's verdict.
func (f Frame) Strict() map[string]interface{} {
	return map[string]interface{}{"ok": f.DLen >= 0 && f.Err == "", "n": f.DLen, "s2only": f.S2, "err": f.Err}
}

// FirstBad describes the first block the strict decoder rejected ("" when there is none).
func (p *Parsed) FirstBad() string {
	for i, f := range p.Frames {
		if f.DLen < 0 {
			why := f.Err
			if why == "" {
				why = "block truncated"
			}
			if f.S2 {
				why += " [the klauspost snappy/S2 decoder accepts the block]"
			}
			return fmt.Sprintf("block %d (%d bytes): %s", i, f.CLen, why)
		}
	}
	return ""
}

func decodeBlock(blk []byte, prefix int) (Frame, []byte) {
	d, err := StrictSnappyDecode(blk)
	if err != nil {
		_, lerr := ksnappy.Decode(nil, blk)
		return Frame{Prefix: prefix, CLen: len(blk), DLen: -1, Err: err.Error(), S2: lerr == nil}, nil
	}
	return Frame{Prefix: prefix, CLen: len(blk), DLen: len(d)}, d
}

// Parsed is the structure of a snappy codec output as seen by this framer.
type Parsed struct {
	Hdr     bool    // the stream starts with the 16-byte magic header
	Frames  []Frame // framed: the chunks after the header; unframed: one pseudo frame (Prefix = CLen = len(stream))
	Rest    int     // bytes that could not be parsed (truncated prefix or block)
	Decoded []byte  // concatenation of the decoded blocks
	// item boundaries of the stream in bytes, in order: header, len, blk, len, blk ... (framed) or blk (unframed)
	Items [][2]int
}

// ParseSnappy parses the output of a snappy codec writer.
func ParseSnappy(b []byte) *Parsed {
	p := &Parsed{}
	if len(b) >= 16 && bytes.Equal(b[:8], xerialMagic[:8]) {
		p.Hdr = true
		p.Items = append(p.Items, [2]int{0, 16})
		off := 16
		for off < len(b) {
			if len(b)-off < 4 {
				p.Rest = len(b) - off
				return p
			}
			n := int(binary.BigEndian.Uint32(b[off:]))
			p.Items = append(p.Items, [2]int{off, off + 4})
			off += 4
			if n > len(b)-off {
				p.Frames = append(p.Frames, Frame{Prefix: n, CLen: len(b) - off, DLen: -1, Err: "block truncated"})
				p.Rest = len(b) - off
				return p
			}
			blk := b[off : off+n]
			p.Items = append(p.Items, [2]int{off, off + n})
			off += n
			f, d := decodeBlock(blk, n)
			p.Frames = append(p.Frames, f)
			p.Decoded = append(p.Decoded, d...)
		}
		return p
	}
	if len(b) == 0 {
		return p
	}
	p.Items = append(p.Items, [2]int{0, len(b)})
	f, d := decodeBlock(b, len(b))
	p.Frames = append(p.Frames, f)
	p.Decoded = d
	return p
}

// BuildXerial frames data by hand: header, then one frame per block of the given sizes
// (the last size is repeated until the data is exhausted).
func BuildXerial(data []byte, blocks []int) []byte {
	out := append([]byte{}, xerialMagic...)
	i := 0
	for len(data) > 0 {
		n := blocks[len(blocks)-1]
		if i < len(blocks) {
			n = blocks[i]
		}
		i++
		if n > len(data) {
			n = len(data)
		}
		c := ksnappy.Encode(nil, data[:n])
		var l [4]byte
		binary.BigEndian.PutUint32(l[:], uint32(len(c)))
		out = append(out, l[:]...)
		out = append(out, c...)
		data = data[n:]
	}
	return out
}

// RefEncode compresses data with the reference encoder of the format.
func RefEncode(codec string, data []byte) ([]byte, error) {
	var buf bytes.Buffer
	switch codec {
	case "gzip":
		w := stdgzip.NewWriter(&buf)
		if _, err := w.Write(data); err != nil {
			return nil, err
		}
		if err := w.Close(); err != nil {
			return nil, err
		}
	case "lz4":
		w := plz4.NewWriter(&buf)
		if _, err := w.Write(data); err != nil {
			return nil, err
		}
		if err := w.Close(); err != nil {
			return nil, err
		}
	case "zstd":
		w, err := kzstd.NewWriter(&buf)
		if err != nil {
			return nil, err
		}
		if _, err := w.Write(data); err != nil {
			return nil, err
		}
		if err := w.Close(); err != nil {
			return nil, err
		}
	}
	return buf.Bytes(), nil
}

// RefDecode decompresses a complete stream with the reference decoder of the format.
func RefDecode(codec string, b []byte) ([]byte, error) {
	switch codec {
	case "gzip":
		r, err := stdgzip.NewReader(bytes.NewReader(b))
		if err != nil {
			return nil, err
		}
		return io.ReadAll(r)
	case "lz4":
		return io.ReadAll(plz4.NewReader(bytes.NewReader(b)))
	case "zstd":
		r, err := kzstd.NewReader(bytes.NewReader(b))
		if err != nil {
			return nil, err
		}
		defer r.Close()
		return io.ReadAll(r)
	}
	return nil, io.ErrUnexpectedEOF
}

var words = []string{"kafka", "offset", "partition", "leader", "0123456789", "batch", " ", "\n", "{\"k\":", "compression", "xx", "e"}

// Payload makes n bytes of the given class, a pure function of (class, seed, n).
//   rand  incompressible pseudo-random bytes
//   rep   one byte value repeated (highly compressible)
//   text  words from a small dictionary with random noise (compressible, many matches)
func Payload(class string, seed int64, n int) []byte {
	rng := rand.New(rand.NewSource(seed*1000003 + int64(n)))
	b := make([]byte, n)
	switch class {
	case "rep":
		c := byte('a' + rng.Intn(26))
		for i := range b {
			b[i] = c
		}
	case "text":
		i := 0
		for i < n {
			w := words[rng.Intn(len(words))]
			if rng.Intn(8) == 0 {
				w = string([]byte{byte(rng.Intn(256)), byte(rng.Intn(256))})
			}
			i += copy(b[i:], w)
		}
	default:
		rng.Read(b)
	}
	return b
}

// snappyRaw is what a producer without xerial framing sends: one raw snappy block.
func snappyRaw(data []byte) []byte { return ksnappy.Encode(nil, data) }
