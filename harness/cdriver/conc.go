//go:build verif

package cdriver

import (
	"bytes"
	"fmt"
	"io"
	"math/rand"
	"sync"

	"github.com/segmentio/kafka-go/compress"
	"github.com/segmentio/kafka-go/compress/snappy"

	"verifharness/trace"
)

var concSizes = []int{1, 1024, 4096, 40000, 70000, 140000}
var concClasses = []string{"rand", "rep", "text"}
var concBufs = []int{1, 15, 16, 17, 4096, 32768, 100000}

// Conc uses ONE codec value from many goroutines at once.  Every goroutine does complete round trips
// (library writer -> reference decoder, library writer -> library reader, reference encoder -> library
// reader) with its own payloads and chunkings and checks its own results.  One event per goroutine.
func Conc(seed int64, goroutines, iters int) []trace.Event {
	unframed := &snappy.Codec{Framing: snappy.Unframed}
	type cv struct {
		name, mode string
		c          compress.Codec
	}
	list := []cv{{"gzip", "", compress.Gzip.Codec()}, {"snappy", "framed", compress.Snappy.Codec()}, {"snappy", "unframed", unframed},
		{"lz4", "", compress.Lz4.Codec()}, {"zstd", "", compress.Zstd.Codec()}}
	var evs []trace.Event
	for _, c := range list {
		res := make([]trace.Event, goroutines)
		var wg sync.WaitGroup
		start := make(chan struct{})
		for g := 0; g < goroutines; g++ {
			wg.Add(1)
			go func(g int) {
				defer wg.Done()
				rng := rand.New(rand.NewSource(seed*7907 + int64(g)*131 + int64(len(c.name))))
				<-start
				fails, first := 0, ""
				nbytes := 0
				defer func() {
					if p := recover(); p != nil { // a panic inside a codec: this goroutine's run failed
						res[g] = trace.Event{"ev": "conc", "codec": c.name, "mode": c.mode, "g": g, "goroutines": goroutines, "iters": iters,
							"fails": fails + 1, "first": fmt.Sprint("panic: ", p), "bytes": nbytes}
					}
				}()
				for it := 0; it < iters; it++ {
					n := concSizes[rng.Intn(len(concSizes))]
					if g%3 == 0 && n > 4096 { // some goroutines hammer the pools with small streams
						n = 1 + rng.Intn(2048)
					}
					class := concClasses[rng.Intn(len(concClasses))]
					data := Payload(class, seed*100000+int64(g*1000+it), n)
					nbytes += n
					if why := roundTrip(c.name, c.c, data, rng); why != "" {
						fails++
						if first == "" {
							first = fmt.Sprintf("iter=%d class=%s n=%d: %s", it, class, n, why)
						}
					}
				}
				res[g] = trace.Event{"ev": "conc", "codec": c.name, "mode": c.mode, "g": g, "goroutines": goroutines, "iters": iters,
					"fails": fails, "first": first, "bytes": nbytes}
			}(g)
		}
		close(start)
		wg.Wait()
		evs = append(evs, res...)
	}
	return evs
}

func roundTrip(name string, c compress.Codec, data []byte, rng *rand.Rand) string {
	// library writer with a random write chunking
	sk := &sink{budget: -1}
	w := c.NewWriter(sk)
	for rest := data; len(rest) > 0; {
		n := 1 + rng.Intn(len(rest))
		if rng.Intn(3) == 0 && n > 1024 {
			n = 1024
		}
		k, err := w.Write(rest[:n])
		if err != nil || k != n {
			w.Close()
			return fmt.Sprintf("Write(%d) = %d, %v", n, k, err)
		}
		rest = rest[n:]
	}
	if err := w.Close(); err != nil {
		return "Close: " + err.Error()
	}
	out := sk.buf.Bytes()
	// reference decoder
	var dec []byte
	if name == "snappy" {
		p := ParseSnappy(out)
		if p.Rest != 0 {
			return "output not parsable by the framer"
		}
		for _, f := range p.Frames {
			if f.DLen < 0 || f.Prefix != f.CLen {
				return "bad frame in output"
			}
		}
		dec = p.Decoded
	} else {
		var err error
		if dec, err = RefDecode(name, out); err != nil {
			return "reference decoder: " + err.Error()
		}
	}
	if !bytes.Equal(dec, data) {
		return "reference decoder returns different bytes"
	}
	// library reader on the library's output and on a reference-encoded stream
	var ref []byte
	switch {
	case name == "snappy" && rng.Intn(2) == 0:
		ref = snappyRaw(data)
	case name == "snappy":
		ref = BuildXerial(data, []int{32768})
	default:
		var err error
		if ref, err = RefEncode(name, data); err != nil {
			return "reference encoder: " + err.Error()
		}
	}
	for k, stream := range [][]byte{out, ref} {
		r := c.NewReader(&source{b: stream, endErr: io.EOF, chunk: []int{0, 1000, 7}[rng.Intn(3)]})
		bs := concBufs[rng.Intn(len(concBufs))]
		if len(data) > 50000 && bs < 15 {
			bs = 4096
		}
		buf := make([]byte, bs)
		var got []byte
		var err error
		for idle := 0; idle < 1000; {
			var n int
			n, err = r.Read(buf)
			got = append(got, buf[:n]...)
			if err != nil {
				break
			}
			if n == 0 {
				idle++
			} else {
				idle = 0
			}
		}
		r.Close()
		if err != io.EOF {
			return fmt.Sprintf("reader on stream %d: %v", k, err)
		}
		if !bytes.Equal(got, data) {
			return fmt.Sprintf("reader on stream %d returns different bytes (%d for %d)", k, len(got), len(data))
		}
	}
	return ""
}
