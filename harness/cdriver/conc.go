//go:build verif

package cdriver

import (
	"bytes"
	"fmt"
	"io"
	"math/rand"
	"sync"

	"github.com/segmentio/kafka-go/compress"
	"github.com/segmentio/kafka-go/compress/snappy"

	"verifharness/trace"
)

var concSizes = []int{1, 1024, 4096, 40000, 70000, 140000}
var concClasses = []string{"rand", "rep", "text"}
var concBufs = []int{1, 15, 16, 17, 4096, 32768, 100000}

// ConcLevels: (codec, framing, level) of the non-default codec values used concurrently.
var ConcLevels = [][3]string{
	{"snappy", "framed", "faster"}, {"snappy", "framed", "better"}, {"snappy", "framed", "best"},
	{"snappy", "unframed", "faster"}, {"snappy", "unframed", "better"}, {"snappy", "unframed", "best"},
	{"gzip", "", "-2"}, {"gzip", "", "1"}, {"gzip", "", "9"},
	{"zstd", "", "1"}, {"zstd", "", "7"}, {"zstd", "", "11"},
}

// Conc uses ONE codec value from many goroutines at once.  Every goroutine does complete round trips
// (library writer -> reference decoder, library writer -> library reader, reference encoder -> library
// reader) with its own payloads and chunkings and checks its own results.  One event per goroutine.
//
// The five default codec values (the package-level ones of compress) get the full load; one value per non-default
// compression level (ConcLevels) gets a reduced load (half the goroutines, a third of the round trips).
func Conc(seed int64, goroutines, iters int) []trace.Event {
	unframed := &snappy.Codec{Framing: snappy.Unframed}
	type cv struct {
		name, mode, level string
		c                 compress.Codec
	}
	list := []cv{{"gzip", "", "", compress.Gzip.Codec()}, {"snappy", "framed", "", compress.Snappy.Codec()}, {"snappy", "unframed", "", unframed},
		{"lz4", "", "", compress.Lz4.Codec()}, {"zstd", "", "", compress.Zstd.Codec()}}
	for _, l := range ConcLevels {
		list = append(list, cv{l[0], l[1], l[2], NewCodec(l[0], l[1], l[2])})
	}
	fullG, fullIters := goroutines, iters
	var evs []trace.Event
	for ci, c := range list {
		ci := ci
		goroutines, iters := fullG, fullIters
		if c.level != "" {
			goroutines, iters = (fullG+1)/2, (fullIters+2)/3
		}
		res := make([]trace.Event, goroutines)
		var wg sync.WaitGroup
		start := make(chan struct{})
		for g := 0; g < goroutines; g++ {
			wg.Add(1)
			go func(g int) {
				defer wg.Done()
				rng := rand.New(rand.NewSource(seed*7907 + int64(g)*131 + int64(len(c.name)) + lvSalt(ci)))
				<-start
				fails, first := 0, ""
				nbytes := 0
				defer func() {
					if p := recover(); p != nil { // a panic inside a codec: this goroutine's run failed
						res[g] = trace.Event{"ev": "conc", "codec": c.name, "mode": c.mode, "level": c.level, "g": g, "goroutines": goroutines, "iters": iters,
							"fails": fails + 1, "first": fmt.Sprint("panic: ", p), "bytes": nbytes}
					}
				}()
				for it := 0; it < iters; it++ {
					n := concSizes[rng.Intn(len(concSizes))]
					if g%3 == 0 && n > 4096 { // some goroutines hammer the pools with small streams
						n = 1 + rng.Intn(2048)
					}
					class := classFor(c.name, c.level, concClasses[rng.Intn(len(concClasses))], n)
					data := Payload(class, seed*100000+int64(g*1000+it), n)
					nbytes += n
					if why := roundTrip(c.name, c.c, data, rng); why != "" {
						fails++
						if first == "" {
							first = fmt.Sprintf("iter=%d class=%s n=%d: %s", it, class, n, why)
						}
					}
				}
				res[g] = trace.Event{"ev": "conc", "codec": c.name, "mode": c.mode, "level": c.level, "g": g, "goroutines": goroutines, "iters": iters,
					"fails": fails, "first": first, "bytes": nbytes}
			}(g)
		}
		close(start)
		wg.Wait()
		evs = append(evs, res...)
	}
	// pooled objects after lifecycle corner cases, with several users alive at the same time (one goroutine, fixed
	// interleaving): Close twice (protocol/record_v1.go does that itself), abandon, then k writers / k readers open at once
	for ci, c := range list {
		rng := rand.New(rand.NewSource(seed*31337 + int64(len(c.name)+len(c.mode)) + lvSalt(ci)))
		fails, first, nbytes, rounds := 0, "", 0, 12
		if c.level != "" {
			rounds = 4
		}
		func() {
			defer func() {
				if p := recover(); p != nil {
					fails++
					if first == "" {
						first = fmt.Sprint("panic: ", p)
					}
				}
			}()
			for round := 0; round < rounds; round++ {
				if why := interleaved(c.name, c.level, c.c, seed*1000+int64(round), rng, &nbytes); why != "" {
					fails++
					if first == "" {
						first = fmt.Sprintf("round=%d: %s", round, why)
					}
				}
			}
		}()
		evs = append(evs, trace.Event{"ev": "conc", "codec": c.name, "mode": c.mode, "level": c.level, "g": 1000, "goroutines": 1, "iters": rounds,
			"fails": fails, "first": first, "bytes": nbytes, "kind": "interleaved"})
	}
	return evs
}

// classFor: klauspost flate at level 9 needs seconds for more than 64 KiB of one repeated byte (a cost of the wrapped
// library, not a result): those payloads become dictionary text.
func classFor(name, level, class string, n int) string {
	if name == "gzip" && level == "9" && class == "rep" && n > 60000 {
		return "text"
	}
	return class
}

// lvSalt keeps the random streams of the five default values as they were and gives every level value its own.
func lvSalt(ci int) int64 {
	if ci < 5 {
		return 0
	}
	return int64(ci) * 977
}

// interleaved: some writers and readers are closed twice, then k writers are open at the same time and written to in turn,
// then k readers likewise; every stream must decode to its own payload.
func interleaved(name, level string, c compress.Codec, seed int64, rng *rand.Rand, nbytes *int) string {
	for i := 0; i < 1+rng.Intn(3); i++ {
		sk := &sink{budget: -1}
		w := c.NewWriter(sk)
		w.Write(Payload("text", seed+int64(i), 1+rng.Intn(5000)))
		if err := w.Close(); err != nil {
			return "Close: " + err.Error()
		}
		w.Close() // a second Close must be harmless
		ref, err := refEncodeAny(name, Payload("rep", seed+7, 3000), rng)
		if err != nil {
			return err.Error()
		}
		r := c.NewReader(&source{b: ref, endErr: io.EOF})
		io.Copy(io.Discard, r)
		r.Close()
		r.Close()
	}
	k := 2 + rng.Intn(3)
	datas := make([][]byte, k)
	sinks := make([]*sink, k)
	ws := make([]io.WriteCloser, k)
	for i := range ws {
		n := []int{1, 1500, 4096, 40000, 70000}[rng.Intn(5)]
		datas[i] = Payload(classFor(name, level, concClasses[rng.Intn(len(concClasses))], n), seed*10+int64(i), n)
		*nbytes += n
		sinks[i] = &sink{budget: -1}
		ws[i] = c.NewWriter(sinks[i])
	}
	pos := make([]int, k)
	for done := 0; done < k; {
		done = 0
		for i := range ws {
			if pos[i] >= len(datas[i]) {
				done++
				continue
			}
			n := 4096
			if n > len(datas[i])-pos[i] {
				n = len(datas[i]) - pos[i]
			}
			if m, err := ws[i].Write(datas[i][pos[i] : pos[i]+n]); err != nil || m != n {
				return fmt.Sprintf("writer %d of %d open at once: Write(%d) = %d, %v", i, k, n, m, err)
			}
			pos[i] += n
		}
	}
	for i := range ws {
		if err := ws[i].Close(); err != nil {
			return fmt.Sprintf("writer %d of %d: Close: %v", i, k, err)
		}
	}
	for i := range ws {
		out := sinks[i].buf.Bytes()
		var dec []byte
		if name == "snappy" {
			p := ParseSnappy(out)
			if p.Rest != 0 {
				return fmt.Sprintf("writer %d of %d open at once: output not parsable", i, k)
			}
			if bad := p.FirstBad(); bad != "" {
				return fmt.Sprintf("writer %d of %d open at once: strict snappy reference decoder: %s", i, k, bad)
			}
			dec = p.Decoded
		} else {
			var err error
			if dec, err = RefDecode(name, out); err != nil {
				return fmt.Sprintf("writer %d of %d open at once: reference decoder: %v", i, k, err)
			}
		}
		if !bytes.Equal(dec, datas[i]) {
			return fmt.Sprintf("writer %d of %d open at once: stream decodes to %d bytes, %d were written", i, k, len(dec), len(datas[i]))
		}
	}
	// k readers open at once
	rs := make([]io.ReadCloser, k)
	gots := make([][]byte, k)
	for i := range rs {
		ref, err := refEncodeAny(name, datas[i], rng)
		if err != nil {
			return err.Error()
		}
		rs[i] = c.NewReader(&source{b: ref, endErr: io.EOF})
	}
	buf := make([]byte, 4096)
	open := k
	eof := make([]bool, k)
	for idle := 0; open > 0 && idle < 100000; idle++ {
		for i := range rs {
			if eof[i] {
				continue
			}
			n, err := rs[i].Read(buf)
			gots[i] = append(gots[i], buf[:n]...)
			if err == io.EOF {
				eof[i] = true
				open--
			} else if err != nil {
				return fmt.Sprintf("reader %d of %d open at once: %v", i, k, err)
			}
		}
	}
	for i := range rs {
		rs[i].Close()
		if !bytes.Equal(gots[i], datas[i]) {
			return fmt.Sprintf("reader %d of %d open at once returns different bytes (%d for %d)", i, k, len(gots[i]), len(datas[i]))
		}
	}
	return ""
}

func refEncodeAny(name string, data []byte, rng *rand.Rand) ([]byte, error) {
	switch {
	case name == "snappy" && rng.Intn(2) == 0:
		return snappyRaw(data), nil
	case name == "snappy":
		return BuildXerial(data, []int{32768}), nil
	}
	return RefEncode(name, data)
}

func roundTrip(name string, c compress.Codec, data []byte, rng *rand.Rand) string {
	// library writer with a random write chunking
	sk := &sink{budget: -1}
	w := c.NewWriter(sk)
	for rest := data; len(rest) > 0; {
		n := 1 + rng.Intn(len(rest))
		if rng.Intn(3) == 0 && n > 1024 {
			n = 1024
		}
		k, err := w.Write(rest[:n])
		if err != nil || k != n {
			w.Close()
			return fmt.Sprintf("Write(%d) = %d, %v", n, k, err)
		}
		rest = rest[n:]
	}
	if err := w.Close(); err != nil {
		return "Close: " + err.Error()
	}
	out := sk.buf.Bytes()
	// reference decoder
	var dec []byte
	if name == "snappy" {
		p := ParseSnappy(out)
		if p.Rest != 0 {
			return "output not parsable by the framer"
		}
		if bad := p.FirstBad(); bad != "" {
			return "strict snappy reference decoder: " + bad
		}
		for _, f := range p.Frames {
			if f.Prefix != f.CLen {
				return "bad frame in output"
			}
		}
		dec = p.Decoded
	} else {
		var err error
		if dec, err = RefDecode(name, out); err != nil {
			return "reference decoder: " + err.Error()
		}
	}
	if !bytes.Equal(dec, data) {
		return "reference decoder returns different bytes"
	}
	// library reader on the library's output and on a reference-encoded stream
	var ref []byte
	switch {
	case name == "snappy" && rng.Intn(2) == 0:
		ref = snappyRaw(data)
	case name == "snappy":
		ref = BuildXerial(data, []int{32768})
	default:
		var err error
		if ref, err = RefEncode(name, data); err != nil {
			return "reference encoder: " + err.Error()
		}
	}
	for k, stream := range [][]byte{out, ref} {
		r := c.NewReader(&source{b: stream, endErr: io.EOF, chunk: []int{0, 1000, 7}[rng.Intn(3)]})
		bs := concBufs[rng.Intn(len(concBufs))]
		if len(data) > 50000 && bs < 15 {
			bs = 4096
		}
		buf := make([]byte, bs)
		var got []byte
		var err error
		for idle := 0; idle < 1000; {
			var n int
			n, err = r.Read(buf)
			got = append(got, buf[:n]...)
			if err != nil {
				break
			}
			if n == 0 {
				idle++
			} else {
				idle = 0
			}
		}
		r.Close()
		if err != io.EOF {
			return fmt.Sprintf("reader on stream %d: %v", k, err)
		}
		if !bytes.Equal(got, data) {
			return fmt.Sprintf("reader on stream %d returns different bytes (%d for %d)", k, len(got), len(data))
		}
	}
	return ""
}
