//go:build verif

package cdriver

import "fmt"

// StrictSnappyDecode is THE reference decoder of the snappy block format in this harness.  It is written from the
// format description (google/snappy format_description.txt) and shares nothing with the decoder family of the code
// under test (klauspost/compress snappy.Decode == s2.Decode, which also accepts the S2 extensions):
//
//	block    = uvarint(uncompressed length, at most 32 bits) element*
//	element  = literal | copy1 | copy2 | copy4, selected by the two low bits of the tag byte
//	literal  (00): length-1 in the upper 6 bits; 60..63 mean the length-1 follows in 1..4 little-endian bytes
//	copy1    (01): length 4..11 in bits 2-4, offset = bits 5-7 (high) + one byte (low): 11 bits
//	copy2    (10): length 1..64 in the upper 6 bits, offset in two little-endian bytes
//	copy4    (11): length 1..64 in the upper 6 bits, offset in four little-endian bytes
//
// A copy must have 1 <= offset <= number of bytes produced so far (offset 0 is how S2 encodes its "repeat" operation:
// not snappy), no element may produce more than the announced length, and the elements must produce exactly that length.
// The error names the offending element (position in the block, tag, what is wrong).
func StrictSnappyDecode(b []byte) ([]byte, error) {
	var want uint64
	p := 0
	for shift := uint(0); ; shift += 7 {
		if p >= len(b) {
			return nil, fmt.Errorf("length varint truncated after %d bytes", p)
		}
		if shift > 28 {
			return nil, fmt.Errorf("length varint longer than 5 bytes")
		}
		c := b[p]
		p++
		want |= uint64(c&0x7f) << shift
		if c < 0x80 {
			break
		}
	}
	if want > 0xffffffff {
		return nil, fmt.Errorf("announced length %d exceeds 32 bits", want)
	}
	room := want
	if max := uint64(len(b)) * 32; room > max { // a snappy element produces at most 64 bytes from 3: never allocate more on the word of a prefix
		room = max
	}
	out := make([]byte, 0, room)
	for p < len(b) {
		at, tag := p, b[p]
		p++
		need := func(n int) error {
			if len(b)-p < n {
				return fmt.Errorf("element at %d (tag 0x%02x) truncated: needs %d more bytes, %d left", at, tag, n, len(b)-p)
			}
			return nil
		}
		le := func(n int) int {
			v := 0
			for i := 0; i < n; i++ {
				v |= int(b[p+i]) << (8 * uint(i))
			}
			p += n
			return v
		}
		var length, offset int
		switch tag & 3 {
		case 0:
			length = int(tag>>2) + 1
			if x := int(tag >> 2); x >= 60 {
				if err := need(x - 59); err != nil {
					return nil, err
				}
				v := le(x - 59)
				if v < 0 || v >= 1<<31 {
					return nil, fmt.Errorf("literal at %d (tag 0x%02x): length %d out of range", at, tag, v)
				}
				length = v + 1
			}
			if err := need(length); err != nil {
				return nil, fmt.Errorf("literal of %d bytes: %v", length, err)
			}
			if uint64(len(out)+length) > want {
				return nil, fmt.Errorf("literal at %d (tag 0x%02x) of %d bytes exceeds the announced length %d (produced %d)", at, tag, length, want, len(out))
			}
			out = append(out, b[p:p+length]...)
			p += length
			continue
		case 1:
			if err := need(1); err != nil {
				return nil, err
			}
			length = 4 + int(tag>>2)&7
			offset = int(tag>>5)<<8 | le(1)
		case 2:
			if err := need(2); err != nil {
				return nil, err
			}
			length = int(tag>>2) + 1
			offset = le(2)
		case 3:
			if err := need(4); err != nil {
				return nil, err
			}
			length = int(tag>>2) + 1
			offset = le(4)
		}
		kind := [4]string{"literal", "copy1", "copy2", "copy4"}[tag&3]
		if offset == 0 {
			return nil, fmt.Errorf("%s at %d (tag 0x%02x, length %d) with offset 0 after %d bytes produced: not a snappy element (S2 repeat)", kind, at, tag, length, len(out))
		}
		if offset < 0 || offset > len(out) {
			return nil, fmt.Errorf("%s at %d (tag 0x%02x, length %d): offset %d reaches before the start (%d bytes produced)", kind, at, tag, length, offset, len(out))
		}
		if uint64(len(out)+length) > want {
			return nil, fmt.Errorf("%s at %d (tag 0x%02x) of %d bytes exceeds the announced length %d (produced %d)", kind, at, tag, length, want, len(out))
		}
		for i := 0; i < length; i++ { // byte by byte: a copy may overlap its own output
			out = append(out, out[len(out)-offset])
		}
	}
	if uint64(len(out)) != want {
		return nil, fmt.Errorf("block produces %d bytes, announced %d", len(out), want)
	}
	return out, nil
}
