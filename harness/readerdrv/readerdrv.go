//go:build verif

// Package readerdrv runs a non-group kafka.Reader against a fake leader that
// stores a scripted physical log layout, injects scripted faults into fetch
// responses, and records what the broker served and what the application got.
package readerdrv

import (
	"context"
	"errors"
	"fmt"
	"io"
	"strconv"
	"strings"
	"sync"
	"sync/atomic"
	"time"

	kafka "github.com/segmentio/kafka-go"

	"verifharness/fakekafka"
	"verifharness/fakenet"
	"verifharness/krec"
	"verifharness/kwire"
	"verifharness/trace"
)

type BatchDesc struct {
	Base    int64   `json:"base"`
	Last    int64   `json:"last"`
	Present []int64 `json:"present"`
	Fmt     string  `json:"fmt"` // v0 v1 v1w v2
	Codec   int     `json:"codec"`
}

// Fault applies to the next fetch response that carries data (or to the next fetch at all for errors).
type Fault struct {
	Kind    string `json:"kind"`              // err empty trunc cut
	Code    int    `json:"code,omitempty"`    // error code for kind=err
	Batches int    `json:"batches,omitempty"` // whole batches before the truncation / cut point
	Records int    `json:"records,omitempty"` // complete records of the following batch
	Extra   int    `json:"extra,omitempty"`   // extra bytes into the next record
}

type Step struct {
	Op    string     `json:"op"` // fetch setoffset sleep fault moveleader logstart append close
	N     int        `json:"n,omitempty"`
	O     int64      `json:"o,omitempty"`
	Ms    int        `json:"ms,omitempty"`
	Fault *Fault     `json:"fault,omitempty"`
	To    int        `json:"to,omitempty"`
	Batch *BatchDesc `json:"batch,omitempty"`
	// op fetch: calls made with a context that is already done.  Done "cancel" (cancelled before the call) or "deadline"
	// (deadline = now); every Every-th call of the burst is such a call (0/1: all of them), after a pause of Pause ms
	// (the background reader refills the queue meanwhile).  A call that returns the context's error delivered nothing
	// and does not count towards N; at most Max such calls are made (default 4*N+12), the others are ordinary calls.
	Done  string `json:"done,omitempty"`
	Every int    `json:"every,omitempty"`
	Pause int    `json:"pause,omitempty"`
	Max   int    `json:"max,omitempty"`
	Api   string `json:"api,omitempty"` // "read": ReadMessage instead of FetchMessage
}

// Trigger is a broker-side action tied to the arrival of a request: the K-th Fetch request since the Gen-th "setoffset"
// step of the script (Gen 0: since the beginning), the K-th ListOffsets request of a connection made since then (the
// Reader's lag probe asks twice on a connection of its own, reader.initialize four times: K = 3, 4 are the requests of
// its Seek, after the position was resolved), or the first Fetch request that asks for offset Off.
// Before that request is answered the batch is appended to the log, the leader is moved, and the fault (Fetch only) is
// applied to this very request.
type Trigger struct {
	Req    string     `json:"req"` // fetch | list
	K      int        `json:"k,omitempty"`
	Gen    int        `json:"gen,omitempty"`
	Off    *int64     `json:"off,omitempty"`
	Batch  *BatchDesc `json:"batch,omitempty"`
	Fault  *Fault     `json:"fault,omitempty"`
	Leader int        `json:"leader,omitempty"`
	fired  bool
}

type Script struct {
	ID       string      `json:"id"`
	Log      []BatchDesc `json:"log"`
	LogStart int64       `json:"logStart"`
	Start    int64       `json:"start"` // -2 first, -1 last, or an offset
	QCap     int         `json:"qcap"`
	FetchV   int         `json:"fetchVersion"`
	MaxBytes int         `json:"maxBytes"`
	Steps    []Step      `json:"steps"`
	Chunk    int         `json:"chunk,omitempty"` // > 0: every fetch response arrives in pieces of this many bytes
	On       []Trigger   `json:"on,omitempty"`
}

const topic = "t"

// callTimeout bounds one FetchMessage call of the application. It is deliberately generous: a
// time-out is taken as "nothing more is coming" and must not be caused by a loaded machine.
var callTimeout = 6 * time.Second

func tsOf(off int64) int64 { return 1_600_000_000_000 + off*1000 + off%7 }
func keyOf(off int64) []byte {
	if off%5 == 4 {
		return nil
	}
	if off%11 == 3 {
		return []byte(fmt.Sprintf("k%d-%s", off, strings.Repeat("K", 80)))
	}
	return []byte(fmt.Sprintf("k%d", off))
}
func valueOf(off int64) []byte {
	n := int(off % 9)
	if off%4 == 1 {
		n = 70 + int(off%60) // lengths that need a two-byte varint
	}
	return []byte(fmt.Sprintf("value-%d-%s", off, strings.Repeat("x", n)))
}
func headersOf(off int64) []krec.Hdr {
	if off%3 == 0 {
		return []krec.Hdr{{Key: "h", Value: []byte(fmt.Sprint(off))}}
	}
	return nil
}

type pbatch struct {
	fakekafka.PBatch
	ends []int // byte offsets at which each present record is complete
	desc BatchDesc
}

func build(d BatchDesc) pbatch {
	var recs []krec.Rec
	for _, o := range d.Present {
		r := krec.Rec{Offset: o, TsMs: tsOf(o), Key: keyOf(o), Value: valueOf(o)}
		if d.Fmt == "v2" {
			r.Headers = headersOf(o)
		}
		recs = append(recs, r)
	}
	pb := pbatch{desc: d}
	pb.Base, pb.Last, pb.Records = d.Base, d.Last, recs
	switch d.Fmt {
	case "v2":
		pb.Magic = 2
		o := krec.V2Opts{Codec: d.Codec, BaseOffset: d.Base, LastOffsetDelta: int32(d.Last - d.Base), FirstTsMs: tsOf(d.Base), MaxTsMs: tsOf(d.Last),
			ProducerID: -1, ProducerEpoch: -1, BaseSequence: -1}
		pb.Bytes = krec.BatchV2(recs, o)
		if d.Codec == krec.None {
			pb.ends = krec.RecordEndsV2(recs, o)
		} else {
			pb.ends = make([]int, len(recs))
			for i := range pb.ends {
				pb.ends[i] = len(pb.Bytes)
			}
		}
	case "v1w", "v0w":
		m := int8(1)
		if d.Fmt == "v0w" {
			m = 0
		}
		pb.Magic = m
		codec := d.Codec
		if codec == krec.None {
			codec = krec.Gzip
		}
		pb.Bytes = krec.WrapperV1(m, codec, recs)
		pb.ends = make([]int, len(recs))
		for i := range pb.ends {
			pb.ends[i] = len(pb.Bytes)
		}
	default: // v1, v0: plain messages
		m := int8(1)
		if d.Fmt == "v0" {
			m = 0
		}
		pb.Magic = m
		for _, r := range recs {
			pb.Bytes = append(pb.Bytes, krec.MessageV01(m, 0, r.Offset, r.TsMs, r.Key, r.Value)...)
			pb.ends = append(pb.ends, len(pb.Bytes))
		}
	}
	return pb
}

type run struct {
	noTs      map[int64]bool // offsets stored in message format 0 (no timestamp on the wire)
	sc        *Script
	rec       *trace.Recorder
	net       *fakenet.Net
	cl        *fakekafka.Cluster
	mu        sync.Mutex
	batches   []pbatch
	faults    []Fault
	nfetch    int
	quiet     bool // consecutive identical empty polls at the end of the log are recorded once
	quietAt   int64
	quietConn int
	lastKey   string
	lastClose int64
	trig      []Trigger
	gen       int // number of "setoffset" steps begun
	nfetchG   int // Fetch requests received since then
	lconn     map[int]*listState
}

// listState: what one connection was told by ListOffsets so far
type listState struct {
	first int64
	nlast int
	nreq  int
}

var (
	runsMu   sync.RWMutex
	runs     = map[string]*run{}
	counter  int64
	byReader sync.Map // *kafka.Reader -> *run
)

// InstallHook routes Batch.close events of readers to their run (by the fakenet name in the client address).
func InstallHook(prev func(string, ...interface{})) func(string, ...interface{}) {
	return func(ev string, args ...interface{}) {
		if ev == "reader.start" && len(args) > 1 {
			// a new background reader (generation) replaces the previous one: first call, or SetOffset to another position
			if rd, ok := args[0].(*kafka.Reader); ok {
				if v, ok := byReader.Load(rd); ok {
					ver, _ := args[1].(int64)
					v.(*run).rec.Emit(trace.Event{"ev": "start", "version": ver})
					return
				}
			}
		}
		if ev == "batch.close" && len(args) > 0 {
			if c, ok := args[0].(*kafka.Conn); ok && c != nil {
				parts := strings.Split(c.LocalAddr().String(), ":")
				if len(parts) == 3 {
					runsMu.RLock()
					r := runs[parts[1]]
					runsMu.RUnlock()
					if r != nil {
						err, _ := args[2].(error)
						off := args[1].(int64)
						r.mu.Lock()
						skip := r.quiet && off == r.quietAt
						r.lastClose = off
						r.mu.Unlock()
						if !skip {
							cid, _ := strconv.Atoi(parts[2])
							// timeout: the read deadline passed (or the broker said RequestTimedOut) before the end of the answer
							r.rec.Emit(trace.Event{"ev": "close", "offset": off, "err": errString(err), "conn": cid, "timeout": err != nil && errors.Is(err, kafka.RequestTimedOut)})
						}
						return
					}
				}
			}
		}
		if prev != nil {
			prev(ev, args...)
		}
	}
}

func errString(err error) string {
	if err == nil {
		return ""
	}
	return err.Error()
}

func (r *run) served(off int64) []int {
	var idx []int
	for i, b := range r.batches {
		if b.Last >= off {
			idx = append(idx, i)
		}
	}
	return idx
}

// intercept answers Fetch requests from the scripted layout and records what it served.
func (r *run) intercept(req *fakekafka.Request) *fakekafka.Reply {
	switch req.ApiKey {
	case fakekafka.ListOffsets:
		// the answer to the first "latest" lookup on a connection is what a Reader positioned at LastOffset resolves to:
		// it is recorded (with the connection's "earliest" answer) in the same atomic step in which it is computed
		ts := listArgs(req)
		r.fire("list", 0, req.Conn.ID)
		var rep fakekafka.Reply
		r.rec.EmitWith(func() trace.Event {
			rep = req.Broker.Handle(req)
			code, ans := listAnswer(req.Version, rep.Body)
			r.mu.Lock()
			defer r.mu.Unlock()
			st := r.lconn[req.Conn.ID]
			if st == nil {
				st = &listState{first: -1}
				r.lconn[req.Conn.ID] = st
			}
			switch {
			case ts == -2 && code == 0:
				st.first = ans
				return nil
			case ts == -1:
				st.nlast++
				return trace.Event{"ev": "listoffsets", "conn": req.Conn.ID, "at": ts, "off": ans, "code": code, "k": st.nlast, "first": st.first}
			}
			return nil
		})
		return &rep
	case fakekafka.Fetch:
	default:
		return nil
	}
	off, maxBytes := fetchArgs(req)
	forced := r.fire("fetch", off, req.Conn.ID)
	r.cl.Lock()
	p := r.cl.Part(topic, 0)
	leader, hw, start := p.Leader, p.HW, p.LogStart
	r.cl.Unlock()
	r.mu.Lock()
	defer r.mu.Unlock()
	ev := trace.Event{"ev": "fetch", "off": off, "conn": req.Conn.ID, "kind": "data", "nb": 0, "truncated": false, "hdr": false, "j": 0, "code": 0, "v": int(req.Version)}
	emit := func() { r.rec.Emit(ev) }
	if leader != req.Broker.ID {
		ev["kind"], ev["code"] = "err", 6
		rep := r.reply(req, 6, hw, start, nil)
		rep.OnSend = emit
		return &rep
	}
	if off < start || off > hw {
		ev["kind"], ev["code"] = "err", 1
		rep := r.reply(req, 1, hw, start, nil)
		rep.OnSend = emit
		return &rep
	}
	idx := r.served(off)
	var f *Fault
	if forced != nil {
		f = forced
	} else if len(r.faults) > 0 && (r.faults[0].Kind == "err" || r.faults[0].Kind == "empty" || len(idx) > 0) {
		f = &r.faults[0]
		r.faults = r.faults[1:]
	}
	if f != nil && f.Kind == "err" {
		ev["kind"], ev["code"] = "err", f.Code
		rep := r.reply(req, int16(f.Code), hw, start, nil)
		rep.OnSend = emit
		return &rep
	}
	if len(idx) == 0 || (f != nil && f.Kind == "empty") {
		ev["kind"] = "empty"
		rep := r.reply(req, 0, hw, start, []byte{})
		rep.Delay = 25 * time.Millisecond // a real broker waits for MaxWait before answering without data
		if r.quiet && r.quietAt == off && r.quietConn == req.Conn.ID && f == nil {
			return &rep
		}
		if f == nil {
			r.quiet, r.quietAt, r.quietConn = true, off, req.Conn.ID
		}
		rep.OnSend = emit
		return &rep
	}
	r.quiet = false
	// assemble whole batches up to maxBytes (the first one always whole for fetch v3+)
	var set []byte
	nb := 0
	for k, i := range idx {
		b := r.batches[i]
		if len(set)+len(b.Bytes) > maxBytes && !(k == 0 && req.Version >= 3) {
			break
		}
		set = append(set, b.Bytes...)
		nb++
		if len(set) >= maxBytes {
			break
		}
	}
	truncated, j := false, 0
	if f != nil && (f.Kind == "trunc" || f.Kind == "cut") {
		// cut after f.Batches whole batches + f.Records complete records (+ f.Extra bytes) of the next one
		want := f.Batches
		if want > nb {
			want = nb
		}
		if want < len(idx) {
			set = nil
			for k := 0; k < want; k++ {
				set = append(set, r.batches[idx[k]].Bytes...)
			}
			nxt := r.batches[idx[want]]
			n := 0
			jr := f.Records
			if jr > len(nxt.ends) {
				jr = len(nxt.ends)
			}
			if jr > 0 {
				n = nxt.ends[jr-1]
			} else if nxt.Magic == 2 {
				n = 0
			}
			n += f.Extra
			if n >= len(nxt.Bytes) {
				n = len(nxt.Bytes) - 1
			}
			if n < 0 {
				n = 0
			}
			// records completely contained in the first n bytes
			j = 0
			for _, e := range nxt.ends {
				if e <= n {
					j++
				}
			}
			set = append(set, nxt.Bytes[:n]...)
			nb, truncated = want, n > 0
			if n == 0 {
				truncated = false
			}
		}
	}
	if len(set) == 0 && (f == nil || f.Kind != "cut") {
		// the fault left nothing to send: an answer without data
		ev["kind"] = "empty"
		rep := r.reply(req, 0, hw, start, []byte{})
		rep.Delay = 25 * time.Millisecond
		rep.OnSend = emit
		return &rep
	}
	ev["nb"], ev["truncated"], ev["j"] = nb, truncated, j
	if truncated {
		// did the header of the truncated batch arrive completely?
		whole := 0
		for k := 0; k < nb; k++ {
			whole += len(r.batches[idx[k]].Bytes)
		}
		need := 61
		switch r.batches[idx[nb]].Magic {
		case 1:
			need = 26
		case 0:
			need = 18
		}
		ev["hdr"] = len(set)-whole >= need
	}
	if nb == 0 && truncated && j == 0 {
		// is the header of the first batch complete? (61 bytes for a record batch, 26/18 for a v1/v0 message)
		hdr := 61
		switch r.batches[idx[0]].Magic {
		case 1:
			hdr = 26
		case 0:
			hdr = 18
		}
		if len(set) < hdr && (f == nil || f.Kind != "cut") {
			ev["kind"] = "shorthdr"
		}
	}
	rep := r.reply(req, 0, hw, start, set)
	key := fmt.Sprintf("%d/%d/%d/%v/%d/%v", req.Conn.ID, off, nb, truncated, j, f != nil)
	if f == nil && key == r.lastKey && r.lastClose == off {
		// the same answer to the same request without progress in between (e.g. a compacted tail the
		// client cannot step over): record the cycle once and slow it down
		r.quiet, r.quietAt, r.quietConn = true, off, req.Conn.ID
		rep.Delay = 5 * time.Millisecond
		return &rep
	}
	r.lastKey = key
	if f != nil && f.Kind == "cut" {
		// the connection is lost right after these bytes: the frame announces the full length
		ev["kind"] = "cut"
		full := r.reply(req, 0, hw, start, append(append([]byte{}, set...), make([]byte, 64)...))
		cutAt := 4 + 4 + len(rep.Body)
		full.CutAt = cutAt
		full.OnSend = emit
		return &full
	}
	rep.OnSend = emit
	if c := r.sc.Chunk; c > 0 {
		n := (8 + len(rep.Body) + c - 1) / c
		if n > 400 {
			n = 400
		}
		rep.Chunks = make([]int, n)
		for i := range rep.Chunks {
			rep.Chunks[i] = c
		}
	}
	return &rep
}

func fetchArgs(req *fakekafka.Request) (off int64, max int) {
	r := kwire.R{B: req.Body}
	r.I32()
	r.I32()
	r.I32()
	if req.Version >= 3 {
		r.I32()
	}
	if req.Version >= 4 {
		r.I8()
	}
	if req.Version >= 7 {
		r.I32()
		r.I32()
	}
	r.ArrayLen()
	r.Str()
	r.ArrayLen()
	r.I32()
	if req.Version >= 9 {
		r.I32()
	}
	off = r.I64()
	if req.Version >= 5 {
		r.I64()
	}
	max = int(r.I32())
	return
}

// listArgs: the timestamp asked for by a ListOffsets request (first topic, first partition)
func listArgs(req *fakekafka.Request) int64 {
	r := kwire.R{B: req.Body}
	r.I32()
	r.ArrayLen()
	r.Str()
	r.ArrayLen()
	r.I32()
	return r.I64()
}

// listAnswer: error code and offset of a ListOffsets answer (first topic, first partition)
func listAnswer(version int16, body []byte) (code int, off int64) {
	r := kwire.R{B: body}
	if version >= 2 {
		r.I32()
	}
	r.ArrayLen()
	r.Str()
	r.ArrayLen()
	r.I32()
	code, off = int(r.I16()), -1
	if version == 0 {
		if r.ArrayLen() > 0 {
			off = r.I64()
		}
	} else {
		r.I64()
		off = r.I64()
	}
	if r.Err != nil {
		return -1, -1
	}
	return
}

// fire counts an arriving request and performs the triggers tied to it; the fault of a trigger is returned.
func (r *run) fire(kind string, off int64, conn int) *Fault {
	r.mu.Lock()
	n := 0
	if kind == "fetch" {
		r.nfetch++
		r.nfetchG++
		n = r.nfetchG
	} else {
		st := r.lconn[conn]
		if st == nil {
			st = &listState{first: -1}
			r.lconn[conn] = st
		}
		st.nreq++
		n = st.nreq
	}
	var hit []*Trigger
	for i := range r.trig {
		t := &r.trig[i]
		if t.fired || t.Req != kind {
			continue
		}
		if t.Off != nil {
			if kind != "fetch" || off != *t.Off {
				continue
			}
		} else if t.Gen != r.gen || t.K != n {
			continue
		}
		t.fired = true
		hit = append(hit, t)
	}
	r.mu.Unlock()
	var f *Fault
	for _, t := range hit {
		if t.Batch != nil {
			r.appendBatch(*t.Batch)
		}
		if t.Leader != 0 {
			r.cl.Lock()
			r.cl.Part(topic, 0).Leader = t.Leader
			r.cl.Unlock()
			r.rec.Emit(trace.Event{"ev": "moveleader", "to": t.Leader})
		}
		if t.Fault != nil {
			f = t.Fault
		}
	}
	return f
}

// appendBatch stores a batch and records the event in one atomic step (no answer of the broker falls in between).
func (r *run) appendBatch(d BatchDesc) {
	r.rec.EmitWith(func() trace.Event {
		r.install(d)
		return trace.Event{"ev": "append", "batch": descEvent(d)}
	})
}

func (r *run) reply(req *fakekafka.Request, code int16, hw, start int64, set []byte) fakekafka.Reply {
	var w kwire.W
	if req.Version >= 1 {
		w.I32(0)
	}
	if req.Version >= 7 {
		w.I16(0)
		w.I32(0)
	}
	w.ArrayLen(1)
	w.Str(topic)
	w.ArrayLen(1)
	w.I32(0)
	w.I16(code)
	w.I64(hw)
	if req.Version >= 4 {
		w.I64(hw)
	}
	if req.Version >= 5 {
		w.I64(start)
	}
	if req.Version >= 4 {
		w.ArrayLen(-1)
	}
	w.I32(int32(len(set)))
	w.Raw(set)
	return fakekafka.Body(w.B)
}

func (r *run) install(d BatchDesc) {
	pb := build(d)
	r.mu.Lock()
	if d.Fmt == "v0" || d.Fmt == "v0w" {
		for _, o := range d.Present {
			r.noTs[o] = true
		}
	}
	r.batches = append(r.batches, pb)
	r.mu.Unlock()
	r.cl.Lock()
	p := r.cl.Part(topic, 0)
	p.AppendBatch(pb.PBatch)
	r.cl.Unlock()
}

func descEvent(d BatchDesc) map[string]interface{} {
	pr := make([]interface{}, len(d.Present))
	for i, o := range d.Present {
		pr[i] = o
	}
	return map[string]interface{}{"base": d.Base, "last": d.Last, "present": pr, "fmt": d.Fmt, "codec": d.Codec}
}

// Run executes one script and returns its trace.
func Run(sc *Script) []trace.Event {
	name := fmt.Sprintf("r%d", atomic.AddInt64(&counter, 1))
	r := &run{sc: sc, rec: trace.New(), net: fakenet.NewNet(), noTs: map[int64]bool{}, lconn: map[int]*listState{}}
	r.trig = append([]Trigger{}, sc.On...)
	r.rec.Cap, r.rec.Always = 20000, map[string]bool{"end": true, "hang": true, "close.call": true, "close.return": true, "panic": true}
	r.net.Name = name
	r.cl = fakekafka.NewCluster(r.net, 2)
	vs := fakekafka.DefaultVersions()
	if sc.FetchV > 0 {
		vs[fakekafka.Fetch] = fakekafka.VersionRange{Min: 0, Max: int16(sc.FetchV)}
	}
	r.cl.Versions = vs
	t := r.cl.AddTopic(topic, 1)
	t.Partitions[0].Leader, t.Partitions[0].Replicas, t.Partitions[0].ISR = 1, []int{1, 2}, []int{1, 2}
	t.Partitions[0].LogStart = sc.LogStart
	runsMu.Lock()
	runs[name] = r
	runsMu.Unlock()
	defer func() {
		runsMu.Lock()
		delete(runs, name)
		runsMu.Unlock()
	}()
	logEv := make([]interface{}, len(sc.Log))
	for i, d := range sc.Log {
		logEv[i] = descEvent(d)
	}
	for _, d := range sc.Log {
		r.install(d)
	}
	r.cl.Lock()
	hw := r.cl.Part(topic, 0).HW
	r.cl.Unlock()
	qcap := sc.QCap
	if qcap <= 0 {
		qcap = 1
	}
	r.rec.Emit(trace.Event{"ev": "cfg", "id": sc.ID, "log": logEv, "logStart": sc.LogStart, "hw": hw, "start": sc.Start, "qcap": qcap})
	r.cl.Intercept = r.intercept

	maxBytes := sc.MaxBytes
	if maxBytes <= 0 {
		maxBytes = 1 << 20
	}
	rd := kafka.NewReader(kafka.ReaderConfig{
		Brokers: []string{"b2:9092", "b1:9092"}, Topic: topic, Partition: 0,
		Dialer:        &kafka.Dialer{DialFunc: r.net.DialContext, Timeout: 2 * time.Second, ClientID: "vh"},
		QueueCapacity: qcap, MinBytes: 1, MaxBytes: maxBytes, MaxWait: 500 * time.Millisecond,
		ReadBackoffMin: time.Millisecond, ReadBackoffMax: 5 * time.Millisecond, ReadBatchTimeout: 500 * time.Millisecond,
		MaxAttempts: 3,
	})
	byReader.Store(rd, r)
	defer byReader.Delete(rd)
	if sc.Start != -2 {
		// FirstOffset is the default; anything else is set explicitly before the first fetch
		r.rec.Emit(trace.Event{"ev": "setoffset.begin", "o": sc.Start, "initial": true})
		err := rd.SetOffset(sc.Start)
		r.rec.Emit(trace.Event{"ev": "setoffset.end", "o": sc.Start, "err": errString(err), "initial": true})
	}
	closed := false
	for _, st := range sc.Steps {
		switch st.Op {
		case "fetch":
			maxDone := st.Max
			if maxDone <= 0 {
				maxDone = 4*st.N + 12
			}
			calls, doneCalls := 0, 0
			for i := 0; i < st.N; i++ {
				calls++
				done := st.Done != "" && (st.Every <= 1 || calls%st.Every == 0) && doneCalls < maxDone
				var ctx context.Context
				var cancel context.CancelFunc
				if done {
					doneCalls++
					if st.Pause > 0 {
						time.Sleep(time.Duration(st.Pause) * time.Millisecond)
					}
					if st.Done == "deadline" {
						ctx, cancel = context.WithDeadline(context.Background(), time.Now())
					} else {
						ctx, cancel = context.WithCancel(context.Background())
						cancel()
					}
					r.rec.Emit(trace.Event{"ev": "call", "done": st.Done})
				} else {
					ctx, cancel = context.WithTimeout(context.Background(), callTimeout)
					r.rec.Emit(trace.Event{"ev": "call"})
				}
				var m kafka.Message
				var err error
				if st.Api == "read" {
					m, err = rd.ReadMessage(ctx)
				} else {
					m, err = rd.FetchMessage(ctx)
				}
				cancel()
				switch {
				case err == nil:
					r.mu.Lock()
					noTs := r.noTs[m.Offset]
					r.mu.Unlock()
					ok := string(m.Value) == string(valueOf(m.Offset)) && (noTs || m.Time.UnixMilli() == tsOf(m.Offset)) && m.Topic == topic && m.Partition == 0
					wk := keyOf(m.Offset)
					if string(m.Key) != string(wk) {
						ok = false
					}
					r.rec.Emit(trace.Event{"ev": "msg", "off": m.Offset, "ok": ok, "nheaders": len(m.Headers)})
				case done && (errors.Is(err, context.Canceled) || errors.Is(err, context.DeadlineExceeded)):
					// the call was refused because of its context: nothing was delivered, the call does not count
					r.rec.Emit(trace.Event{"ev": "ctxerr", "err": err.Error()})
					i--
				case errors.Is(err, context.DeadlineExceeded):
					r.rec.Emit(trace.Event{"ev": "nomsg"})
					i = st.N // stop this burst: nothing more is coming
				case errors.Is(err, io.EOF):
					r.rec.Emit(trace.Event{"ev": "eof"})
					i = st.N
				default:
					r.rec.Emit(trace.Event{"ev": "fetcherr", "err": err.Error()})
				}
			}
		case "setoffset":
			r.mu.Lock()
			r.gen++
			r.nfetchG = 0
			r.mu.Unlock()
			r.rec.Emit(trace.Event{"ev": "setoffset.begin", "o": st.O})
			err := rd.SetOffset(st.O)
			r.rec.Emit(trace.Event{"ev": "setoffset.end", "o": st.O, "err": errString(err)})
		case "sleep":
			time.Sleep(time.Duration(st.Ms) * time.Millisecond)
		case "fault":
			if st.Fault != nil {
				r.mu.Lock()
				r.faults = append(r.faults, *st.Fault)
				r.mu.Unlock()
			}
		case "moveleader":
			r.cl.Lock()
			r.cl.Part(topic, 0).Leader = st.To
			r.cl.Unlock()
			r.rec.Emit(trace.Event{"ev": "moveleader", "to": st.To})
		case "logstart":
			r.cl.Lock()
			r.cl.Part(topic, 0).LogStart = st.O
			r.cl.Unlock()
			r.rec.Emit(trace.Event{"ev": "logstart", "o": st.O})
		case "append":
			if st.Batch != nil {
				r.appendBatch(*st.Batch)
			}
		case "close":
			done := make(chan struct{})
			go func() { rd.Close(); close(done) }()
			select {
			case <-done:
				r.rec.Emit(trace.Event{"ev": "closed"})
			case <-time.After(8 * time.Second):
				r.rec.Emit(trace.Event{"ev": "hang", "what": "close"})
			}
			closed = true
		}
	}
	if !closed {
		done := make(chan struct{})
		go func() { rd.Close(); close(done) }()
		select {
		case <-done:
			r.rec.Emit(trace.Event{"ev": "closed"})
		case <-time.After(8 * time.Second):
			r.rec.Emit(trace.Event{"ev": "hang", "what": "close"})
		}
	}
	time.Sleep(20 * time.Millisecond)
	r.rec.Emit(trace.Event{"ev": "end", "openConns": len(r.net.Open(""))})
	return r.rec.Events()
}
