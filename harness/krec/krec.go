// Package krec is an independent reference encoder/decoder for Kafka message
// sets (magic 0/1) and record batches (magic 2). It is written from the Kafka
// protocol definition and never calls kafka-go's record code.
package krec

import (
	"bytes"
	"compress/gzip"
	"encoding/binary"
	"errors"
	"fmt"
	"hash/crc32"
	"io"

	ksnappy "github.com/klauspost/compress/snappy"
	"github.com/klauspost/compress/zstd"
	"github.com/pierrec/lz4/v4"

	"verifharness/kwire"
)

type Hdr struct {
	Key   string
	Value []byte
}

// Rec is one abstract record. Key/Value nil means null.
type Rec struct {
	Offset  int64
	TsMs    int64
	Key     []byte
	Value   []byte
	Headers []Hdr
}

const (
	None   = 0
	Gzip   = 1
	Snappy = 2
	Lz4    = 3
	Zstd   = 4
)

var castagnoli = crc32.MakeTable(crc32.Castagnoli)

// Compress returns data compressed the way the Java client does for the codec.
func Compress(codec int, data []byte) []byte {
	var buf bytes.Buffer
	switch codec {
	case None:
		return data
	case Gzip:
		w := gzip.NewWriter(&buf)
		w.Write(data)
		w.Close()
	case Snappy:
		// xerial framing: magic header, version, compat, then [len][block]*
		buf.Write([]byte{0x82, 'S', 'N', 'A', 'P', 'P', 'Y', 0, 0, 0, 0, 1, 0, 0, 0, 1})
		for len(data) > 0 {
			n := len(data)
			if n > 32*1024 {
				n = 32 * 1024
			}
			blk := ksnappy.Encode(nil, data[:n])
			var l [4]byte
			binary.BigEndian.PutUint32(l[:], uint32(len(blk)))
			buf.Write(l[:])
			buf.Write(blk)
			data = data[n:]
		}
	case Lz4:
		w := lz4.NewWriter(&buf)
		w.Write(data)
		w.Close()
	case Zstd:
		w, _ := zstd.NewWriter(&buf)
		w.Write(data)
		w.Close()
	default:
		panic("krec: unknown codec")
	}
	return buf.Bytes()
}

// Decompress inverts Compress (and accepts unframed snappy).
func Decompress(codec int, data []byte) ([]byte, error) {
	switch codec {
	case None:
		return data, nil
	case Gzip:
		r, err := gzip.NewReader(bytes.NewReader(data))
		if err != nil {
			return nil, err
		}
		return io.ReadAll(r)
	case Snappy:
		if len(data) >= 16 && bytes.Equal(data[:8], []byte{0x82, 'S', 'N', 'A', 'P', 'P', 'Y', 0}) {
			var out []byte
			p := data[16:]
			for len(p) > 0 {
				if len(p) < 4 {
					return nil, errors.New("krec: truncated xerial frame")
				}
				n := int(binary.BigEndian.Uint32(p))
				p = p[4:]
				if n > len(p) {
					return nil, errors.New("krec: xerial frame longer than data")
				}
				blk, err := ksnappy.Decode(nil, p[:n])
				if err != nil {
					return nil, err
				}
				out = append(out, blk...)
				p = p[n:]
			}
			return out, nil
		}
		return ksnappy.Decode(nil, data)
	case Lz4:
		return io.ReadAll(lz4.NewReader(bytes.NewReader(data)))
	case Zstd:
		r, err := zstd.NewReader(bytes.NewReader(data))
		if err != nil {
			return nil, err
		}
		defer r.Close()
		return io.ReadAll(r)
	}
	return nil, fmt.Errorf("krec: unknown codec %d", codec)
}

// --- magic 0/1 ---------------------------------------------------------------

// MessageV01 encodes one message-set entry: offset, size, crc, magic, attributes, [timestamp], key, value.
func MessageV01(magic int8, attrs int8, offset, tsMs int64, key, value []byte) []byte {
	var body kwire.W
	body.I8(magic)
	body.I8(attrs)
	if magic >= 1 {
		body.I64(tsMs)
	}
	body.Bytes(key)
	body.Bytes(value)
	crc := crc32.ChecksumIEEE(body.B)
	var w kwire.W
	w.I64(offset)
	w.I32(int32(4 + len(body.B)))
	w.I32(int32(crc))
	w.Raw(body.B)
	return w.B
}

// SetV01 encodes records as an uncompressed message set with absolute offsets.
func SetV01(magic int8, recs []Rec) []byte {
	var out []byte
	for _, r := range recs {
		out = append(out, MessageV01(magic, 0, r.Offset, r.TsMs, r.Key, r.Value)...)
	}
	return out
}

// WrapperV1 encodes records as one compressed wrapper message. With magic 1 the
// inner offsets are relative (0..n-1) and the wrapper carries the absolute
// offset of the last inner record; with magic 0 inner offsets are absolute.
func WrapperV1(magic int8, codec int, recs []Rec) []byte {
	if len(recs) == 0 {
		return nil
	}
	inner := make([]Rec, len(recs))
	copy(inner, recs)
	last := recs[len(recs)-1]
	if magic >= 1 {
		for i := range inner {
			// relative offsets keep holes: offset - (last - (n-1)) would be wrong with holes,
			// Kafka assigns inner offsets 0..n-1 on produce and the broker keeps them; after
			// compaction of a v1 log the inner offsets stay relative to the wrapper's base.
			inner[i].Offset = inner[i].Offset - (last.Offset - int64(maxInnerDelta(recs)))
		}
	}
	payload := Compress(codec, SetV01(magic, inner))
	return MessageV01(magic, int8(codec), last.Offset, last.TsMs, nil, payload)
}

func maxInnerDelta(recs []Rec) int64 { return recs[len(recs)-1].Offset - recs[0].Offset }

// --- magic 2 -----------------------------------------------------------------

type V2Opts struct {
	Codec           int
	Control         bool
	Transactional   bool
	BaseOffset      int64 // batch base offset (may be lower than the first record present)
	LastOffsetDelta int32 // delta of the batch's last offset (may be higher than the last record present)
	FirstTsMs       int64
	MaxTsMs         int64
	ProducerID      int64
	ProducerEpoch   int16
	BaseSequence    int32
	LeaderEpoch     int32
	CorruptCRC      bool
	LogAppendTime   bool
}

// BatchV2 encodes a record batch; records carry absolute offsets and timestamps.
func BatchV2(recs []Rec, o V2Opts) []byte {
	var rs kwire.W
	for _, r := range recs {
		var b kwire.W
		b.I8(0) // attributes
		b.Varint(r.TsMs - o.FirstTsMs)
		b.Varint(r.Offset - o.BaseOffset)
		if r.Key == nil {
			b.Varint(-1)
		} else {
			b.Varint(int64(len(r.Key)))
			b.Raw(r.Key)
		}
		if r.Value == nil {
			b.Varint(-1)
		} else {
			b.Varint(int64(len(r.Value)))
			b.Raw(r.Value)
		}
		b.Varint(int64(len(r.Headers)))
		for _, h := range r.Headers {
			b.Varint(int64(len(h.Key)))
			b.Raw([]byte(h.Key))
			if h.Value == nil {
				b.Varint(-1)
			} else {
				b.Varint(int64(len(h.Value)))
				b.Raw(h.Value)
			}
		}
		rs.Varint(int64(len(b.B)))
		rs.Raw(b.B)
	}
	payload := Compress(o.Codec, rs.B)
	attrs := int16(o.Codec)
	if o.LogAppendTime {
		attrs |= 1 << 3
	}
	if o.Transactional {
		attrs |= 1 << 4
	}
	if o.Control {
		attrs |= 1 << 5
	}
	var tail kwire.W // attributes .. end (covered by the CRC)
	tail.I16(attrs)
	tail.I32(o.LastOffsetDelta)
	tail.I64(o.FirstTsMs)
	tail.I64(o.MaxTsMs)
	tail.I64(o.ProducerID)
	tail.I16(o.ProducerEpoch)
	tail.I32(o.BaseSequence)
	tail.I32(int32(len(recs)))
	tail.Raw(payload)
	crc := crc32.Checksum(tail.B, castagnoli)
	if o.CorruptCRC {
		crc ^= 0x5a5a5a5a
	}
	var w kwire.W
	w.I64(o.BaseOffset)
	w.I32(int32(4 + 1 + 4 + len(tail.B))) // leader epoch + magic + crc + tail
	w.I32(o.LeaderEpoch)
	w.I8(2)
	w.I32(int32(crc))
	w.Raw(tail.B)
	return w.B
}

// SimpleV2 encodes contiguous-or-not records with defaults derived from them.
func SimpleV2(recs []Rec, codec int) []byte {
	if len(recs) == 0 {
		panic("krec: SimpleV2 needs records; use BatchV2 for empty batches")
	}
	o := V2Opts{Codec: codec, BaseOffset: recs[0].Offset, LastOffsetDelta: int32(recs[len(recs)-1].Offset - recs[0].Offset),
		FirstTsMs: recs[0].TsMs, MaxTsMs: recs[0].TsMs, ProducerID: -1, ProducerEpoch: -1, BaseSequence: -1}
	for _, r := range recs {
		if r.TsMs > o.MaxTsMs {
			o.MaxTsMs = r.TsMs
		}
	}
	return BatchV2(recs, o)
}

// --- decoding (for what the library under test produces) ----------------------

type Batch struct {
	Magic      int8
	Codec      int
	BaseOffset int64
	LastDelta  int32
	Count      int32
	Control    bool
	CRCOK      bool
	LenOK      bool
	FirstTsMs  int64
	MaxTsMs    int64
	Records    []Rec
}

// DecodeSet decodes a record set (sequence of v2 batches or v0/v1 messages), checking
// every length field and checksum. Compressed v0/v1 wrappers are expanded one level.
func DecodeSet(b []byte) ([]Batch, error) {
	var out []Batch
	for len(b) > 0 {
		if len(b) < 17 {
			return out, fmt.Errorf("krec: %d trailing bytes", len(b))
		}
		magic := int8(b[16])
		size := int(int32(binary.BigEndian.Uint32(b[8:12])))
		if size < 0 || 12+size > len(b) {
			return out, fmt.Errorf("krec: entry of size %d exceeds the %d bytes left", size, len(b)-12)
		}
		entry := b[:12+size]
		b = b[12+size:]
		switch {
		case magic == 2:
			bt, err := decodeV2(entry)
			if err != nil {
				return out, err
			}
			out = append(out, bt)
		case magic == 0 || magic == 1:
			bt, err := decodeV01(entry)
			if err != nil {
				return out, err
			}
			out = append(out, bt)
		default:
			return out, fmt.Errorf("krec: unknown magic %d", magic)
		}
	}
	return out, nil
}

func decodeV01(entry []byte) (Batch, error) {
	r := kwire.R{B: entry}
	off := r.I64()
	r.I32()
	crc := uint32(r.I32())
	body := r.B
	magic := r.I8()
	attrs := r.I8()
	var ts int64 = -1
	if magic >= 1 {
		ts = r.I64()
	}
	key := r.Bytes()
	val := r.Bytes()
	if r.Err != nil {
		return Batch{}, fmt.Errorf("krec: message v%d: %w", magic, r.Err)
	}
	bt := Batch{Magic: magic, Codec: int(attrs & 7), BaseOffset: off, Count: 1, CRCOK: crc32.ChecksumIEEE(body) == crc, LenOK: len(r.B) == 0}
	if bt.Codec == None {
		bt.Records = []Rec{{Offset: off, TsMs: ts, Key: key, Value: val}}
		return bt, nil
	}
	raw, err := Decompress(bt.Codec, val)
	if err != nil {
		return bt, fmt.Errorf("krec: wrapper payload: %w", err)
	}
	inner, err := DecodeSet(raw)
	if err != nil {
		return bt, fmt.Errorf("krec: inner set: %w", err)
	}
	var recs []Rec
	for _, ib := range inner {
		if ib.Codec != None {
			return bt, errors.New("krec: nested compression")
		}
		bt.CRCOK = bt.CRCOK && ib.CRCOK
		bt.LenOK = bt.LenOK && ib.LenOK
		recs = append(recs, ib.Records...)
	}
	if magic >= 1 && len(recs) > 0 {
		// relative inner offsets: absolute = wrapper offset - (lastInner - inner)
		last := recs[len(recs)-1].Offset
		for i := range recs {
			recs[i].Offset = off - (last - recs[i].Offset)
		}
	}
	bt.Records = recs
	bt.Count = int32(len(recs))
	return bt, nil
}

func decodeV2(entry []byte) (Batch, error) {
	r := kwire.R{B: entry}
	base := r.I64()
	r.I32() // length, checked by the caller
	r.I32() // leader epoch
	r.I8()  // magic
	crc := uint32(r.I32())
	tail := r.B
	attrs := r.I16()
	lastDelta := r.I32()
	firstTs := r.I64()
	maxTs := r.I64()
	r.I64()
	r.I16()
	r.I32()
	count := r.I32()
	if r.Err != nil {
		return Batch{}, fmt.Errorf("krec: batch header: %w", r.Err)
	}
	bt := Batch{Magic: 2, Codec: int(attrs & 7), BaseOffset: base, LastDelta: lastDelta, Count: count, Control: attrs&(1<<5) != 0,
		CRCOK: crc32.Checksum(tail, castagnoli) == crc, FirstTsMs: firstTs, MaxTsMs: maxTs}
	payload, err := Decompress(bt.Codec, r.B)
	if err != nil {
		return bt, fmt.Errorf("krec: batch payload: %w", err)
	}
	p := kwire.R{B: payload}
	for i := int32(0); i < count; i++ {
		n := int(p.Varint())
		body := p.Take(n)
		if p.Err != nil {
			return bt, fmt.Errorf("krec: record %d: %w", i, p.Err)
		}
		q := kwire.R{B: body}
		q.I8()
		tsd := q.Varint()
		od := q.Varint()
		var rec Rec
		rec.TsMs = firstTs + tsd
		rec.Offset = base + od
		if kl := int(q.Varint()); kl >= 0 {
			rec.Key = append([]byte{}, q.Take(kl)...)
		}
		if vl := int(q.Varint()); vl >= 0 {
			rec.Value = append([]byte{}, q.Take(vl)...)
		}
		nh := int(q.Varint())
		for h := 0; h < nh && q.Err == nil; h++ {
			kl := int(q.Varint())
			k := string(q.Take(kl))
			var v []byte
			if vl := int(q.Varint()); vl >= 0 {
				v = append([]byte{}, q.Take(vl)...)
			}
			rec.Headers = append(rec.Headers, Hdr{k, v})
		}
		if q.Err != nil || len(q.B) != 0 {
			return bt, fmt.Errorf("krec: record %d: inconsistent length field", i)
		}
		bt.Records = append(bt.Records, rec)
	}
	bt.LenOK = len(p.B) == 0
	return bt, nil
}

// RecordEndsV2 returns, for an uncompressed v2 batch of these records, the byte offset inside the
// encoded batch at which each record ends (the batch header is 61 bytes).
func RecordEndsV2(recs []Rec, o V2Opts) []int {
	ends := make([]int, len(recs))
	pos := 61
	for i := range recs {
		one := BatchV2(recs[i:i+1], V2Opts{Codec: None, BaseOffset: o.BaseOffset, FirstTsMs: o.FirstTsMs})
		pos += len(one) - 61
		ends[i] = pos
	}
	return ends
}
