package krec

// Structural ("raw") description of a record set: every field as found on the
// wire, nothing reconstructed. DecodeSet answers "which records does this set
// carry"; ParseRaw answers "what exactly is written in each field", so that a
// specification can recompute every length field, count and delta itself
// (spec/records/Records.tla). Like the rest of the package it is written from
// the Kafka protocol definition and never calls kafka-go's record code.

import (
	"encoding/binary"
	"fmt"
	"hash/crc32"

	"verifharness/kwire"
)

// RawRec is one record of a magic-2 batch.
type RawRec struct {
	LenField  int64 // the varint length prefix
	LenActual int   // bytes the record body occupies when parsed field by field
	Attrs     int8
	TsDelta   int64
	OffDelta  int64
	Key       []byte // nil: null
	Value     []byte // nil: null
	Headers   []Hdr
}

// RawEntry is one top-level entry of a record set: a magic-2 batch or a
// magic-0/1 message (possibly a compressed wrapper with Inner entries).
type RawEntry struct {
	Magic     int8
	Offset    int64 // bytes 0..8: base offset (v2) or message offset (v0/v1)
	SizeField int32 // bytes 8..12: batchLength (v2) or message size (v0/v1)
	Consumed  int   // bytes after the 12-byte prefix that the fields of the entry occupy
	CRC       uint32
	CRCPoly   string // "castagnoli" (v2) or "ieee" (v0/v1)
	CRCFrom   int    // checksum verified over entry[CRCFrom:CRCTo]
	CRCTo     int
	CRCOK     bool
	Attrs     int16
	Codec     int

	// magic 2
	LeaderEpoch     int32
	LastOffsetDelta int32
	FirstTs         int64
	MaxTs           int64
	ProducerID      int64
	ProducerEpoch   int16
	BaseSeq         int32
	Count           int32
	PayloadLen      int // bytes on the wire after the 61-byte header
	RawLen          int // length of the (decompressed) records section
	RecBytes        int // bytes of the records section occupied by the Count records
	Records         []RawRec

	// magic 0/1
	Ts            int64 // magic 1 only
	Key           []byte
	Value         []byte     // for a wrapper: the compressed payload
	Inner         []RawEntry // wrapper: entries of the decompressed message set
	InnerTrailing int        // wrapper: bytes of the decompressed payload after the last whole inner entry
}

// ParseRaw splits a record set into entries. trailing is the number of bytes
// after the last whole entry (0 for a well-formed produce request). An error
// means a field could not be parsed at all (truncated header, undecodable
// compressed payload, record running past its batch).
func ParseRaw(b []byte) (entries []RawEntry, trailing int, err error) {
	for len(b) > 0 {
		if len(b) < 17 {
			return entries, len(b), nil
		}
		size := int(int32(binary.BigEndian.Uint32(b[8:12])))
		if size < 0 {
			return entries, len(b), fmt.Errorf("krec: negative entry size %d", size)
		}
		if 12+size > len(b) {
			return entries, len(b), nil
		}
		entry := b[:12+size]
		b = b[12+size:]
		var e RawEntry
		switch magic := int8(entry[16]); magic {
		case 2:
			e, err = rawV2(entry)
		case 0, 1:
			e, err = rawV01(entry)
		default:
			err = fmt.Errorf("krec: unknown magic %d", magic)
		}
		if err != nil {
			return entries, len(b), err
		}
		entries = append(entries, e)
	}
	return entries, 0, nil
}

func rawV01(entry []byte) (RawEntry, error) {
	r := kwire.R{B: entry}
	var e RawEntry
	e.Offset = r.I64()
	e.SizeField = r.I32()
	e.CRC = uint32(r.I32())
	e.CRCPoly, e.CRCFrom, e.CRCTo = "ieee", 16, len(entry)
	e.Magic = r.I8()
	a := r.I8()
	e.Attrs, e.Codec = int16(a), int(a&7)
	if e.Magic >= 1 {
		e.Ts = r.I64()
	}
	e.Key = r.Bytes()
	e.Value = r.Bytes()
	if r.Err != nil {
		return e, fmt.Errorf("krec: message v%d: %w", e.Magic, r.Err)
	}
	e.Consumed = len(entry) - 12 - len(r.B)
	e.CRCOK = crc32.ChecksumIEEE(entry[16:]) == e.CRC
	if e.Codec != None {
		raw, err := Decompress(e.Codec, e.Value)
		if err != nil {
			return e, fmt.Errorf("krec: wrapper payload: %w", err)
		}
		e.RawLen = len(raw)
		inner, trailing, err := ParseRaw(raw)
		if err != nil {
			return e, fmt.Errorf("krec: inner set: %w", err)
		}
		e.Inner, e.InnerTrailing = inner, trailing
	}
	return e, nil
}

func rawV2(entry []byte) (RawEntry, error) {
	r := kwire.R{B: entry}
	var e RawEntry
	e.Magic = 2
	e.Offset = r.I64()
	e.SizeField = r.I32()
	e.LeaderEpoch = r.I32()
	r.I8()
	e.CRC = uint32(r.I32())
	e.CRCPoly, e.CRCFrom, e.CRCTo = "castagnoli", 21, len(entry)
	e.Attrs = r.I16()
	e.Codec = int(e.Attrs & 7)
	e.LastOffsetDelta = r.I32()
	e.FirstTs = r.I64()
	e.MaxTs = r.I64()
	e.ProducerID = r.I64()
	e.ProducerEpoch = r.I16()
	e.BaseSeq = r.I32()
	e.Count = r.I32()
	if r.Err != nil {
		return e, fmt.Errorf("krec: batch header: %w", r.Err)
	}
	e.CRCOK = crc32.Checksum(entry[21:], castagnoli) == e.CRC
	e.PayloadLen = len(r.B)
	payload, err := Decompress(e.Codec, r.B)
	if err != nil {
		return e, fmt.Errorf("krec: batch payload: %w", err)
	}
	e.RawLen = len(payload)
	p := kwire.R{B: payload}
	for i := int32(0); i < e.Count; i++ {
		var rec RawRec
		rec.LenField = p.Varint()
		if p.Err != nil {
			return e, fmt.Errorf("krec: record %d: %w", i, p.Err)
		}
		// parse field by field from the remaining payload, independently of the length prefix
		q := kwire.R{B: p.B}
		rec.Attrs = q.I8()
		rec.TsDelta = q.Varint()
		rec.OffDelta = q.Varint()
		if kl := q.Varint(); kl >= 0 {
			rec.Key = append([]byte{}, q.Take(int(kl))...)
		}
		if vl := q.Varint(); vl >= 0 {
			rec.Value = append([]byte{}, q.Take(int(vl))...)
		}
		nh := q.Varint()
		for h := int64(0); h < nh && q.Err == nil; h++ {
			kl := q.Varint()
			k := string(q.Take(int(kl)))
			var v []byte
			if vl := q.Varint(); vl >= 0 {
				v = append([]byte{}, q.Take(int(vl))...)
			}
			rec.Headers = append(rec.Headers, Hdr{k, v})
		}
		if q.Err != nil {
			return e, fmt.Errorf("krec: record %d: %w", i, q.Err)
		}
		rec.LenActual = len(p.B) - len(q.B)
		e.Records = append(e.Records, rec)
		// continue after the bytes the record really occupies; a wrong length prefix is reported, not followed
		p.B = q.B
	}
	e.RecBytes = len(payload) - len(p.B)
	e.Consumed = 49 + e.PayloadLen
	return e, nil
}
