//go:build verif

package racedrv

import (
	"context"
	"fmt"
	"time"

	kafka "github.com/segmentio/kafka-go"

	"verifharness/fakekafka"
	"verifharness/fakenet"
)

// ---- kafka.Writer on a kafka.Transport on the fake network (the whole produce stack runs) ---------

var writerMethods = []string{"WriteMessages", "WriteMany", "WriteMulti", "WriteCancel", "WriteEmpty", "WriteTooLarge", "Stats", "Close"}

type writerTarget struct {
	p      *Program
	net    *fakenet.Net
	cl     *fakekafka.Cluster
	w      *kafka.Writer
	tr     *kafka.Transport
	closes bool
}

func init() {
	register("writer", writerMethods, func(p *Program) (target, error) {
		t := &writerTarget{p: p}
		t.net, t.cl = newCluster(0)
		for _, th := range p.Threads {
			for _, m := range th {
				if m == "Close" {
					t.closes = true
				}
			}
		}
		return t, nil
	})
}

func (t *writerTarget) newWriter() {
	v := t.p.Variant
	t.tr = &kafka.Transport{Dial: t.net.DialContext, DialTimeout: 2 * time.Second, MetadataTTL: 150 * time.Millisecond, IdleTimeout: 5 * time.Second, ClientID: "race-w"}
	w := &kafka.Writer{
		Addr:            kafka.TCP("b1:9092", "b2:9092"),
		Transport:       t.tr,
		MaxAttempts:     2,
		WriteBackoffMin: time.Millisecond,
		WriteBackoffMax: 3 * time.Millisecond,
		BatchTimeout:    15 * time.Millisecond,
		ReadTimeout:     2 * time.Second,
		WriteTimeout:    2 * time.Second,
	}
	switch v % 7 { // balancer (nil: the writer's own RoundRobin)
	case 1:
		w.Balancer = &kafka.LeastBytes{}
	case 2:
		w.Balancer = &kafka.Hash{}
	case 3:
		w.Balancer = kafka.CRC32Balancer{}
	case 4:
		w.Balancer = kafka.Murmur2Balancer{}
	case 5:
		w.Balancer = &kafka.ReferenceHash{}
	case 6:
		w.Balancer = &kafka.RoundRobin{ChunkSize: 2}
	}
	w.BatchSize = []int{1, 2, 3, 100}[(v/7)%4]
	w.Compression = kafka.Compression((v / 3) % 5)
	w.RequiredAcks = []kafka.RequiredAcks{kafka.RequireOne, kafka.RequireAll, kafka.RequireNone}[(v/2)%3]
	w.Async = v%5 == 3
	if v%2 == 0 {
		w.Topic = topicT
	}
	if v%3 == 1 {
		w.Completion = func(ms []kafka.Message, err error) { _ = len(ms) } // shares nothing: no synchronisation added
	}
	t.w = w
}

func (t *writerTarget) prepare(round int) error {
	if t.w == nil || t.closes {
		if t.w != nil {
			t.w.Close()
			t.tr.CloseIdleConnections()
		}
		t.newWriter()
	}
	return nil
}

func (t *writerTarget) msg(k, i int, topic string) kafka.Message {
	m := kafka.Message{Value: []byte(fmt.Sprintf("w%d-%d-%s", k, i, "xxxxxxxxxxxxxxxx"[:(k+i)%16]))}
	if (k+i)%3 != 0 {
		m.Key = []byte(fmt.Sprintf("key-%d", (k+i)%5))
	}
	if t.w.Topic == "" {
		m.Topic = topic
	}
	return m
}

func (t *writerTarget) call(th, k int, m string) error {
	w := t.w
	ctx, cancel := context.WithTimeout(context.Background(), 4*time.Second)
	defer cancel()
	switch m {
	case "WriteMessages":
		return w.WriteMessages(ctx, t.msg(k, 0, topicT))
	case "WriteMany":
		return w.WriteMessages(ctx, t.msg(k, 0, topicT), t.msg(k, 1, topicT), t.msg(k, 2, topicT), t.msg(k, 3, topicT), t.msg(k, 4, topicT))
	case "WriteMulti": // two topics when the writer has no topic of its own
		return w.WriteMessages(ctx, t.msg(k, 0, topicT), t.msg(k, 1, topicU), t.msg(k, 2, topicT))
	case "WriteCancel":
		c2, cancel2 := context.WithTimeout(context.Background(), time.Duration(k%4)*time.Millisecond)
		defer cancel2()
		return w.WriteMessages(c2, t.msg(k, 0, topicT), t.msg(k, 1, topicT))
	case "WriteEmpty":
		return w.WriteMessages(ctx)
	case "WriteTooLarge":
		big := t.msg(k, 0, topicT)
		big.Value = make([]byte, 2<<20)
		return w.WriteMessages(ctx, big)
	case "Stats":
		w.Stats()
		return nil
	case "Close":
		return w.Close()
	}
	return errUnknown("writer", m)
}

func (t *writerTarget) teardown() {
	if t.w != nil {
		t.w.Close()
		t.tr.CloseIdleConnections()
	}
}
