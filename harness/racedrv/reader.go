//go:build verif

package racedrv

import (
	"context"
	"time"

	kafka "github.com/segmentio/kafka-go"

	"verifharness/fakekafka"
	"verifharness/fakenet"
)

// ---- kafka.Reader, without a group ("reader") and as a group member ("greader") ---------------------

var readerMethods = []string{"FetchMessage", "ReadMessage", "CommitMessages", "SetOffset", "SetOffsetFirst", "SetOffsetAt",
	"Offset", "Lag", "ReadLag", "Stats", "Close", "Config"}

type readerTarget struct {
	p      *Program
	group  bool
	net    *fakenet.Net
	cl     *fakekafka.Cluster
	rd     *kafka.Reader
	closes bool
	last   []kafka.Message // per thread: the last message it fetched (only thread i touches last[i])
	gen    int
}

func init() {
	mk := func(group bool) func(p *Program) (target, error) {
		return func(p *Program) (target, error) {
			t := &readerTarget{p: p, group: group, last: make([]kafka.Message, len(p.Threads))}
			t.net, t.cl = newCluster((p.Variant / 4) % 5)
			for _, th := range p.Threads {
				for _, m := range th {
					if m == "Close" {
						t.closes = true
					}
				}
			}
			return t, nil
		}
	}
	register("reader", readerMethods, mk(false))
	register("greader", readerMethods, mk(true))
}

func (t *readerTarget) newReader() {
	v := t.p.Variant
	cfg := kafka.ReaderConfig{
		Brokers: []string{"b1:9092", "b2:9092"}, Topic: topicT,
		Dialer:   &kafka.Dialer{DialFunc: t.net.DialContext, Timeout: 2 * time.Second, ClientID: "race-r"},
		MinBytes: 1, MaxBytes: 1 << 20, MaxWait: 150 * time.Millisecond,
		QueueCapacity:  []int{1, 10, 100}[v%3],
		ReadBackoffMin: time.Millisecond, ReadBackoffMax: 5 * time.Millisecond, ReadBatchTimeout: 500 * time.Millisecond,
		MaxAttempts: 3,
	}
	if t.group {
		cfg.GroupID = "g"
		cfg.HeartbeatInterval = 30 * time.Millisecond
		cfg.SessionTimeout = 6 * time.Second
		cfg.RebalanceTimeout = 1500 * time.Millisecond
		cfg.JoinGroupBackoff = 60 * time.Millisecond
		cfg.StartOffset = kafka.FirstOffset
		if v%2 == 1 {
			cfg.CommitInterval = 15 * time.Millisecond
		}
		if v%4 >= 2 {
			cfg.WatchPartitionChanges = true
			cfg.PartitionWatchInterval = 40 * time.Millisecond
		}
	} else {
		cfg.Partition = 0
		if v%2 == 1 {
			cfg.ReadLagInterval = 20 * time.Millisecond
		}
	}
	t.rd = kafka.NewReader(cfg)
	t.gen++
	// Half of the configurations start the round on a reader whose fetchers already run (for a group:
	// that has joined); the others on a value that was never used.
	if t.group || v%4 >= 2 {
		ctx, cancel := context.WithTimeout(context.Background(), 3*time.Second)
		t.rd.FetchMessage(ctx)
		cancel()
	}
}

func (t *readerTarget) prepare(round int) error {
	if t.rd == nil || t.closes {
		if t.rd != nil {
			t.rd.Close()
		}
		t.newReader()
	}
	if t.group && (t.p.Variant/2+round)%3 == 0 {
		// a rebalance (new generation: unsubscribe, subscribe, new fetchers) overlaps with the round
		t.cl.TriggerRebalance("g")
	}
	return nil
}

func (t *readerTarget) call(th, k int, m string) error {
	rd := t.rd
	ctx, cancel := context.WithTimeout(context.Background(), 400*time.Millisecond)
	defer cancel()
	switch m {
	case "FetchMessage":
		msg, err := rd.FetchMessage(ctx)
		if err == nil {
			t.last[th] = msg
		}
		return err
	case "ReadMessage":
		msg, err := rd.ReadMessage(ctx)
		if err == nil {
			t.last[th] = msg
		}
		return err
	case "CommitMessages":
		msg := t.last[th]
		if msg.Topic == "" {
			msg = kafka.Message{Topic: topicT, Partition: k % 2, Offset: int64(k % 10)}
		}
		return rd.CommitMessages(ctx, msg)
	case "SetOffset":
		return rd.SetOffset(int64(k % 30))
	case "SetOffsetFirst":
		return rd.SetOffset(kafka.FirstOffset)
	case "SetOffsetAt":
		return rd.SetOffsetAt(ctx, time.UnixMilli(tsOf(int64(k%30))))
	case "Offset":
		rd.Offset()
		return nil
	case "Lag":
		rd.Lag()
		return nil
	case "ReadLag":
		_, err := rd.ReadLag(ctx)
		return err
	case "Stats":
		rd.Stats()
		return nil
	case "Close":
		return rd.Close()
	case "Config":
		rd.Config()
		return nil
	}
	if t.group {
		return errUnknown("greader", m)
	}
	return errUnknown("reader", m)
}

func (t *readerTarget) teardown() {
	if t.rd != nil {
		t.rd.Close()
	}
}
