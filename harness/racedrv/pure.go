//go:build verif

package racedrv

import (
	"bytes"
	"fmt"
	"hash/fnv"
	"io"
	"runtime"

	kafka "github.com/segmentio/kafka-go"
	"github.com/segmentio/kafka-go/compress"
	"github.com/segmentio/kafka-go/compress/gzip"
	"github.com/segmentio/kafka-go/compress/lz4"
	"github.com/segmentio/kafka-go/compress/snappy"
	"github.com/segmentio/kafka-go/compress/zstd"
)

// ---- the built-in balancers: ONE balancer value, Balance from several goroutines ----------------------

var balancerMethods = []string{"BalanceKey", "BalanceNil", "BalanceEmpty", "BalanceMore", "BalanceOne"}

type balancerTarget struct {
	p    *Program
	name string
	b    kafka.Balancer
}

// BalancerNames are the balancer values selected by Program.Variant.
var BalancerNames = []string{"RoundRobin", "RoundRobinChunk", "LeastBytes", "Hash", "HashHasher", "ReferenceHash", "ReferenceHashHasher", "CRC32", "CRC32Consistent", "Murmur2", "Murmur2Consistent"}

func newBalancer(v int) (string, kafka.Balancer) {
	name := BalancerNames[v%len(BalancerNames)]
	switch name {
	case "RoundRobin":
		return name, &kafka.RoundRobin{}
	case "RoundRobinChunk":
		return name, &kafka.RoundRobin{ChunkSize: 3}
	case "LeastBytes":
		return name, &kafka.LeastBytes{}
	case "Hash":
		return name, &kafka.Hash{}
	case "HashHasher":
		return name, &kafka.Hash{Hasher: fnv.New32a()}
	case "ReferenceHash":
		return name, &kafka.ReferenceHash{}
	case "ReferenceHashHasher":
		return name, &kafka.ReferenceHash{Hasher: fnv.New32a()}
	case "CRC32":
		return name, kafka.CRC32Balancer{}
	case "CRC32Consistent":
		return name, kafka.CRC32Balancer{Consistent: true}
	case "Murmur2":
		return name, kafka.Murmur2Balancer{}
	}
	return name, kafka.Murmur2Balancer{Consistent: true}
}

func init() {
	register("balancer", balancerMethods, func(p *Program) (target, error) {
		t := &balancerTarget{p: p}
		t.name, t.b = newBalancer(p.Variant)
		return t, nil
	})
}

func (t *balancerTarget) prepare(round int) error { return nil }

func (t *balancerTarget) call(th, k int, m string) error {
	parts := []int{0, 1, 2, 3}
	msg := kafka.Message{Value: []byte(fmt.Sprintf("value-%d", k))}
	switch m {
	case "BalanceKey":
		msg.Key = []byte(fmt.Sprintf("key-%d", k%9))
	case "BalanceNil":
	case "BalanceEmpty":
		msg.Key = []byte{}
	case "BalanceMore": // another partition list: LeastBytes rebuilds its counters
		msg.Key = []byte("k")
		parts = []int{0, 1, 2, 3, 4, 5, 6}
	case "BalanceOne":
		parts = []int{5}
	default:
		return errUnknown("balancer", m)
	}
	for i := 0; i < 20; i++ {
		got := t.b.Balance(msg, parts...)
		found := false
		for _, p := range parts {
			found = found || p == got
		}
		if !found {
			return fmt.Errorf("%s returned %d, not in %v", t.name, got, parts)
		}
	}
	return nil
}

func (t *balancerTarget) teardown() {}

// ---- the compression codecs: ONE codec value used from several goroutines (pools inside) --------------

var codecMethods = []string{"Encode", "Decode", "RoundTrip", "EncodeLarge", "OpenClose"}

// CodecNames are the codec values selected by Program.Variant.
var CodecNames = []string{"gzip", "snappy", "snappy-unframed", "lz4", "zstd", "gzip-level1", "zstd-level1",
	"gzip-shared", "snappy-shared", "lz4-shared", "zstd-shared"} // -shared: the package-level values Conn / Writer / Client use

type codecTarget struct {
	p    *Program
	name string
	c    compress.Codec
	enc  []byte // a stream encoded before the rounds start (read-only afterwards)
	data []byte
}

func newCodec(v int) (string, compress.Codec) {
	name := CodecNames[v%len(CodecNames)]
	switch name {
	case "gzip":
		return name, &gzip.Codec{}
	case "snappy":
		return name, &snappy.Codec{}
	case "snappy-unframed":
		return name, &snappy.Codec{Framing: snappy.Unframed}
	case "lz4":
		return name, &lz4.Codec{}
	case "zstd":
		return name, &zstd.Codec{}
	case "gzip-level1":
		return name, &gzip.Codec{Level: 1}
	case "gzip-shared":
		return name, compress.Gzip.Codec()
	case "snappy-shared":
		return name, compress.Snappy.Codec()
	case "lz4-shared":
		return name, compress.Lz4.Codec()
	case "zstd-shared":
		return name, compress.Zstd.Codec()
	}
	return name, &zstd.Codec{Level: 1}
}

func payload(k, n int) []byte {
	b := make([]byte, n)
	x := uint32(k*2654435761 + 12345)
	for i := range b {
		if i%64 < 40 {
			b[i] = byte('a' + i%7)
		} else {
			x = x*1664525 + 1013904223
			b[i] = byte(x >> 24)
		}
	}
	return b
}

func encode(c compress.Codec, data []byte) ([]byte, error) {
	var buf bytes.Buffer
	w := c.NewWriter(&buf)
	if _, err := w.Write(data); err != nil {
		w.Close()
		return nil, err
	}
	if err := w.Close(); err != nil {
		return nil, err
	}
	return buf.Bytes(), nil
}

func decode(c compress.Codec, enc []byte) ([]byte, error) {
	r := c.NewReader(bytes.NewReader(enc))
	out, err := io.ReadAll(r)
	if cerr := r.Close(); err == nil {
		err = cerr
	}
	return out, err
}

func init() {
	register("codec", codecMethods, func(p *Program) (target, error) {
		t := &codecTarget{p: p}
		t.name, t.c = newCodec(p.Variant)
		t.data = payload(p.Variant, 1200)
		enc, err := encode(t.c, t.data)
		if err != nil {
			return nil, err
		}
		t.enc = enc
		return t, nil
	})
}

func (t *codecTarget) prepare(round int) error { return nil }

// codecIters short uses per call: the pooled readers / writers of the codec value travel between the goroutines
// (runtime.Gosched between the uses lets the other threads run on this P; it is a scheduling hint, not a synchronisation).
const codecIters = 10

func (t *codecTarget) call(th, k int, m string) error {
	var first error
	n := codecIters
	if m == "EncodeLarge" {
		n = 1
	}
	for i := 0; i < n; i++ {
		if err := t.once(k*codecIters+i, m); err != nil && first == nil {
			first = err
		}
		runtime.Gosched()
	}
	return first
}

func (t *codecTarget) once(k int, m string) error {
	switch m {
	case "Encode":
		_, err := encode(t.c, payload(k, 200+k%300))
		return err
	case "EncodeLarge":
		_, err := encode(t.c, payload(k, 60000))
		return err
	case "Decode":
		out, err := decode(t.c, t.enc)
		if err == nil && !bytes.Equal(out, t.data) {
			err = fmt.Errorf("%s: decoded stream differs", t.name)
		}
		return err
	case "RoundTrip":
		data := payload(k, 500+k%1500)
		enc, err := encode(t.c, data)
		if err != nil {
			return err
		}
		out, err := decode(t.c, enc)
		if err == nil && !bytes.Equal(out, data) {
			err = fmt.Errorf("%s: round trip differs", t.name)
		}
		return err
	case "OpenClose": // two writers and a reader taken from the pools at once and given back
		var b1, b2 bytes.Buffer
		w1 := t.c.NewWriter(&b1)
		w2 := t.c.NewWriter(&b2)
		r := t.c.NewReader(bytes.NewReader(t.enc))
		w1.Write([]byte("a"))
		err := w1.Close()
		if cerr := w2.Close(); err == nil {
			err = cerr
		}
		if cerr := r.Close(); err == nil {
			err = cerr
		}
		return err
	}
	return errUnknown("codec", m)
}

func (t *codecTarget) teardown() {}
