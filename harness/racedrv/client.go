//go:build verif

package racedrv

import (
	"context"
	"fmt"
	"io"
	"time"

	kafka "github.com/segmentio/kafka-go"
	metadataAPI "github.com/segmentio/kafka-go/protocol/metadata"

	"verifharness/fakekafka"
	"verifharness/fakenet"
)

// ---- kafka.Client on ONE kafka.Transport (connection pools, metadata cache, page buffers) ----------

var clientMethods = []string{"Metadata", "Produce", "ProduceCompressed", "Fetch", "ListOffsets", "CreateTopics", "DeleteTopics",
	"ApiVersions", "FindCoordinator", "OffsetFetch", "OffsetCommit", "ConsumerOffsets", "RoundTrip", "CloseIdleConnections", "ClusterChange"}

type clientTarget struct {
	p   *Program
	net *fakenet.Net
	cl  *fakekafka.Cluster
	tr  *kafka.Transport
	c   *kafka.Client
	b3  *fakekafka.Broker // a third broker that joins and leaves the cluster (environment step "ClusterChange")
	ttl time.Duration
}

func init() {
	register("client", clientMethods, func(p *Program) (target, error) {
		t := &clientTarget{p: p}
		t.net, t.cl = newCluster((p.Variant / 2) % 5)
		t.cl.Versions = fakekafka.ExtDefaultVersions()
		t.cl.Intercept = fakekafka.ExtVersions
		ttl := []time.Duration{20 * time.Millisecond, 200 * time.Millisecond, 6 * time.Second}[p.Variant%3]
		idle := []time.Duration{5 * time.Millisecond, 5 * time.Second}[p.Variant%2]
		t.tr = &kafka.Transport{Dial: t.net.DialContext, DialTimeout: 2 * time.Second, MetadataTTL: ttl, IdleTimeout: idle, ClientID: "race-c"}
		t.c = &kafka.Client{Addr: kafka.TCP("b1:9092", "b2:9092"), Transport: t.tr, Timeout: 3 * time.Second}
		t.ttl = ttl
		t.b3 = t.cl.AddBroker(3)
		t.cl.Lock()
		delete(t.cl.Brokers, 3) // listening, but not part of the cluster until ClusterChange adds it
		t.cl.Unlock()
		return t, nil
	})
}

func (t *clientTarget) prepare(round int) error { return nil }

func (t *clientTarget) call(th, k int, m string) error {
	c := t.c
	ctx, cancel := context.WithTimeout(context.Background(), 3*time.Second)
	defer cancel()
	var err error
	switch m {
	case "Metadata":
		var topics []string
		if k%2 == 0 {
			topics = []string{topicT}
		}
		_, err = c.Metadata(ctx, &kafka.MetadataRequest{Topics: topics})
	case "Produce", "ProduceCompressed":
		req := &kafka.ProduceRequest{Topic: topicT, Partition: k % 2, RequiredAcks: kafka.RequireAll,
			Records: kafka.NewRecordReader(
				kafka.Record{Key: kafka.NewBytes([]byte("k")), Value: kafka.NewBytes([]byte(fmt.Sprintf("p-%d", k)))},
				kafka.Record{Value: kafka.NewBytes([]byte(fmt.Sprintf("q-%d", k)))})}
		if m == "ProduceCompressed" {
			req.Compression = kafka.Compression(1 + k%4)
		}
		var x *kafka.ProduceResponse
		if x, err = c.Produce(ctx, req); err == nil && x.Error != nil {
			err = x.Error
		}
	case "Fetch":
		var x *kafka.FetchResponse
		x, err = c.Fetch(ctx, &kafka.FetchRequest{Topic: topicT, Partition: k % 2, Offset: int64(k % 40), MinBytes: 1, MaxBytes: 1 << 16, MaxWait: 100 * time.Millisecond})
		if err == nil {
			if x.Error != nil {
				err = x.Error
			}
			for i := 0; i < 6 && x.Records != nil; i++ {
				rec, rerr := x.Records.ReadRecord()
				if rerr != nil {
					break
				}
				if rec.Key != nil {
					io.Copy(io.Discard, rec.Key)
					rec.Key.Close()
				}
				if rec.Value != nil {
					io.Copy(io.Discard, rec.Value)
					rec.Value.Close()
				}
			}
		}
	case "ListOffsets":
		_, err = c.ListOffsets(ctx, &kafka.ListOffsetsRequest{Topics: map[string][]kafka.OffsetRequest{
			topicT: {kafka.FirstOffsetOf(0), kafka.LastOffsetOf(1)}, topicU: {kafka.LastOffsetOf(0)}}})
	case "CreateTopics":
		_, err = c.CreateTopics(ctx, &kafka.CreateTopicsRequest{Topics: []kafka.TopicConfig{{Topic: fmt.Sprintf("new-%d", k), NumPartitions: 2, ReplicationFactor: 1}}})
	case "DeleteTopics":
		_, err = c.DeleteTopics(ctx, &kafka.DeleteTopicsRequest{Topics: []string{fmt.Sprintf("new-%d", k-1)}})
	case "ApiVersions":
		_, err = c.ApiVersions(ctx, &kafka.ApiVersionsRequest{})
	case "FindCoordinator":
		_, err = c.FindCoordinator(ctx, &kafka.FindCoordinatorRequest{Key: "grp", KeyType: kafka.CoordinatorKeyTypeConsumer})
	case "OffsetFetch":
		_, err = c.OffsetFetch(ctx, &kafka.OffsetFetchRequest{GroupID: "grp", Topics: map[string][]int{topicT: {0, 1}}})
	case "OffsetCommit":
		_, err = c.OffsetCommit(ctx, &kafka.OffsetCommitRequest{GroupID: "grp", GenerationID: -1,
			Topics: map[string][]kafka.OffsetCommit{topicT: {{Partition: k % 2, Offset: int64(k)}}}})
	case "ConsumerOffsets":
		_, err = c.ConsumerOffsets(ctx, kafka.TopicAndGroup{Topic: topicT, GroupId: "grp"})
	case "RoundTrip":
		_, err = t.tr.RoundTrip(ctx, c.Addr, &metadataAPI.Request{TopicNames: []string{topicU}})
	case "CloseIdleConnections":
		t.tr.CloseIdleConnections()
	case "ClusterChange":
		// not an API call: the cluster layout changes (a broker joins, later leaves) while the other threads use the
		// Transport; the pool applies it at its next metadata refresh
		toggle := func() {
			t.cl.Lock()
			if _, ok := t.cl.Brokers[3]; ok {
				delete(t.cl.Brokers, 3)
			} else {
				t.cl.Brokers[3] = t.b3
			}
			t.cl.Unlock()
		}
		pause := t.ttl + 15*time.Millisecond
		if pause > 250*time.Millisecond {
			pause = 30 * time.Millisecond
		}
		toggle()
		time.Sleep(pause)
		toggle()
		time.Sleep(pause)
	default:
		return errUnknown("client", m)
	}
	return err
}

func (t *clientTarget) teardown() { t.tr.CloseIdleConnections() }
