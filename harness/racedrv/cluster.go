//go:build verif

package racedrv

import (
	"fmt"
	"strings"
	"sync"

	"verifharness/fakekafka"
	"verifharness/fakenet"
	"verifharness/krec"
)

const (
	topicT = "t" // 2 partitions, leaders b1 / b2, nrecs records each
	topicU = "u" // 1 partition, leader b1
	nrecs  = 48
)

func tsOf(k int64) int64 { return 1_600_000_000_000 + k*1000 }

func valueOf(t string, p int, off int64) []byte {
	return []byte(fmt.Sprintf("%s/%d@%d-%s", t, p, off, strings.Repeat("v", int(off%11))))
}

// versionProfiles are the API version ranges the brokers advertise to a kafka.Conn: Conn has a separate code path per
// negotiated version (produce v2 / v3 / v7, fetch v2 / v5 / v10, metadata v1 / v6), each of them has to be raced against
// the other methods. Program.Variant % 3 selects the profile.
var versionProfiles = [][3]int16{{7, 10, 6}, {3, 5, 1}, {2, 2, 6}}

// VersionProfiles describes the profiles (for the evidence file).
func VersionProfiles() []map[string]int {
	var out []map[string]int
	for _, v := range versionProfiles {
		out = append(out, map[string]int{"produce": int(v[0]), "fetch": int(v[1]), "metadata": int(v[2])})
	}
	return out
}

func applyProfile(cl *fakekafka.Cluster, variant int) {
	v := versionProfiles[variant%len(versionProfiles)]
	vs := fakekafka.DefaultVersions()
	vs[fakekafka.Produce] = fakekafka.VersionRange{Min: 0, Max: v[0]}
	vs[fakekafka.Fetch] = fakekafka.VersionRange{Min: 0, Max: v[1]}
	vs[fakekafka.Metadata] = fakekafka.VersionRange{Min: 0, Max: v[2]}
	cl.Versions = vs
}

// encoded batches are the same for every program: build them once per (topic, partition, codec)
var (
	batchMu    sync.Mutex
	batchCache = map[string][]fakekafka.PBatch{}
)

func batchesOf(name string, part, codec int) []fakekafka.PBatch {
	key := fmt.Sprintf("%s/%d/%d", name, part, codec)
	batchMu.Lock()
	defer batchMu.Unlock()
	bs, ok := batchCache[key]
	if !ok {
		var recs []krec.Rec
		for i := int64(0); i < nrecs; i++ {
			recs = append(recs, krec.Rec{Offset: i, TsMs: tsOf(i), Key: []byte(fmt.Sprintf("k%d", i)), Value: valueOf(name, part, i)})
			if len(recs) == 4 {
				c := krec.None
				if (i/4)%3 == 1 { // every third batch is compressed
					c = codec
				}
				bs = append(bs, fakekafka.PBatch{Base: recs[0].Offset, Last: recs[len(recs)-1].Offset, Records: recs, Bytes: krec.SimpleV2(recs, c), Magic: 2})
				recs = nil
			}
		}
		batchCache[key] = bs
	}
	out := make([]fakekafka.PBatch, len(bs))
	for i, b := range bs {
		b.Bytes = append([]byte(nil), b.Bytes...)
		b.Records = append([]krec.Rec(nil), b.Records...)
		out[i] = b
	}
	return out
}

// newCluster builds the cluster every program starts from: brokers b1, b2; topics t (2 partitions)
// and u (1 partition) filled with v2 batches of 4 records (every third one compressed with the codec).
func newCluster(codec int) (*fakenet.Net, *fakekafka.Cluster) {
	n := fakenet.NewNet()
	n.Name = "race"
	cl := fakekafka.NewCluster(n, 2)
	fill := func(name string, parts int) {
		t := cl.AddTopic(name, parts)
		for _, p := range t.Partitions {
			p.Leader = 1 + p.ID%2
			p.Replicas, p.ISR = []int{p.Leader}, []int{p.Leader}
			for _, b := range batchesOf(name, p.ID, codec) {
				p.AppendBatch(b)
			}
		}
	}
	fill(topicT, 2)
	fill(topicU, 1)
	return n, cl
}
