//go:build verif

package racedrv

import (
	"fmt"
	"strings"
	"sync"

	"verifharness/fakekafka"
	"verifharness/fakenet"
	"verifharness/krec"
)

const (
	topicT = "t" // 2 partitions, leaders b1 / b2, nrecs records each
	topicU = "u" // 1 partition, leader b1
	nrecs  = 48
)

func tsOf(k int64) int64 { return 1_600_000_000_000 + k*1000 }

func valueOf(t string, p int, off int64) []byte {
	return []byte(fmt.Sprintf("%s/%d@%d-%s", t, p, off, strings.Repeat("v", int(off%11))))
}

// encoded batches are the same for every program: build them once per (topic, partition, codec)
var (
	batchMu    sync.Mutex
	batchCache = map[string][]fakekafka.PBatch{}
)

func batchesOf(name string, part, codec int) []fakekafka.PBatch {
	key := fmt.Sprintf("%s/%d/%d", name, part, codec)
	batchMu.Lock()
	defer batchMu.Unlock()
	bs, ok := batchCache[key]
	if !ok {
		var recs []krec.Rec
		for i := int64(0); i < nrecs; i++ {
			recs = append(recs, krec.Rec{Offset: i, TsMs: tsOf(i), Key: []byte(fmt.Sprintf("k%d", i)), Value: valueOf(name, part, i)})
			if len(recs) == 4 {
				c := krec.None
				if (i/4)%3 == 1 { // every third batch is compressed
					c = codec
				}
				bs = append(bs, fakekafka.PBatch{Base: recs[0].Offset, Last: recs[len(recs)-1].Offset, Records: recs, Bytes: krec.SimpleV2(recs, c), Magic: 2})
				recs = nil
			}
		}
		batchCache[key] = bs
	}
	out := make([]fakekafka.PBatch, len(bs))
	for i, b := range bs {
		b.Bytes = append([]byte(nil), b.Bytes...)
		b.Records = append([]krec.Rec(nil), b.Records...)
		out[i] = b
	}
	return out
}

// newCluster builds the cluster every program starts from: brokers b1, b2; topics t (2 partitions)
// and u (1 partition) filled with v2 batches of 4 records (every third one compressed with the codec).
func newCluster(codec int) (*fakenet.Net, *fakekafka.Cluster) {
	n := fakenet.NewNet()
	n.Name = "race"
	cl := fakekafka.NewCluster(n, 2)
	fill := func(name string, parts int) {
		t := cl.AddTopic(name, parts)
		for _, p := range t.Partitions {
			p.Leader = 1 + p.ID%2
			p.Replicas, p.ISR = []int{p.Leader}, []int{p.Leader}
			for _, b := range batchesOf(name, p.ID, codec) {
				p.AppendBatch(b)
			}
		}
	}
	fill(topicT, 2)
	fill(topicU, 1)
	return n, cl
}
