//go:build verif

package racedrv

import (
	"context"
	"fmt"
	"time"

	kafka "github.com/segmentio/kafka-go"

	"verifharness/fakekafka"
	"verifharness/fakenet"
)

// ---- kafka.Conn: several goroutines on ONE connection ---------------------------------------------

var connMethods = []string{
	"Close", "SetDeadline", "SetReadDeadline", "SetWriteDeadline", "Offset", "Seek", "SeekStart", "SeekEnd", "SeekCurrent",
	"Read", "ReadMessage", "ReadBatch", "ReadOffset", "ReadFirstOffset", "ReadLastOffset", "ReadOffsets", "ReadPartitions",
	"Write", "WriteMessages", "WriteCompressedMessages", "SetRequiredAcks", "Brokers", "Controller", "ApiVersions",
	"CreateTopics", "DeleteTopics", "Broker", "LocalAddr", "RemoteAddr",
}

type connTarget struct {
	p      *Program
	net    *fakenet.Net
	cl     *fakekafka.Cluster
	conn   *kafka.Conn
	closes bool // the program closes the connection: a new one is dialled for every round
}

func init() {
	register("conn", connMethods, func(p *Program) (target, error) {
		t := &connTarget{p: p}
		t.net, t.cl = newCluster((p.Variant / 3) % 5)
		applyProfile(t.cl, p.Variant)
		for _, th := range p.Threads {
			for _, m := range th {
				if m == "Close" {
					t.closes = true
				}
			}
		}
		return t, nil
	})
}

func dialConn(n *fakenet.Net) (*kafka.Conn, error) {
	nc, err := n.DialContext(context.Background(), "tcp", "b1:9092")
	if err != nil {
		return nil, err
	}
	return kafka.NewConnWith(nc, kafka.ConnConfig{ClientID: "race", Topic: topicT, Partition: 0}), nil
}

func (t *connTarget) prepare(round int) error {
	if t.conn != nil {
		healthy := !t.closes
		if healthy {
			t.conn.SetDeadline(time.Now().Add(2 * time.Second))
			if _, err := t.conn.ReadFirstOffset(); err != nil {
				healthy = false
			}
		}
		if !healthy {
			t.conn.Close()
			t.conn = nil
		}
	}
	if t.conn == nil {
		c, err := dialConn(t.net)
		if err != nil {
			return err
		}
		t.conn = c
	}
	t.conn.SetDeadline(time.Now().Add(3 * time.Second))
	return nil
}

func connCall(c *kafka.Conn, variant, k int, m string) (bool, error) {
	var err error
	switch m {
	case "Close":
		err = c.Close()
	case "SetDeadline":
		err = c.SetDeadline(time.Now().Add(2 * time.Second))
	case "SetReadDeadline":
		err = c.SetReadDeadline(time.Now().Add(2 * time.Second))
	case "SetWriteDeadline":
		err = c.SetWriteDeadline(time.Now().Add(2 * time.Second))
	case "Offset":
		c.Offset()
	case "Seek":
		_, err = c.Seek(int64(k%20), kafka.SeekAbsolute|kafka.SeekDontCheck)
	case "SeekStart":
		_, err = c.Seek(int64(k%7), kafka.SeekStart)
	case "SeekEnd":
		_, err = c.Seek(int64(1+k%7), kafka.SeekEnd)
	case "SeekCurrent":
		_, err = c.Seek(1, kafka.SeekCurrent|kafka.SeekDontCheck)
	case "Read":
		buf := make([]byte, 1024)
		_, err = c.Read(buf)
	case "ReadMessage":
		_, err = c.ReadMessage(1 << 16)
	case "ReadBatch":
		b := c.ReadBatch(1, 1<<16)
		b.ReadMessage()
		b.ReadMessage()
		err = b.Close()
	case "ReadOffset":
		_, err = c.ReadOffset(time.UnixMilli(tsOf(int64(k % 30))))
	case "ReadFirstOffset":
		_, err = c.ReadFirstOffset()
	case "ReadLastOffset":
		_, err = c.ReadLastOffset()
	case "ReadOffsets":
		_, _, err = c.ReadOffsets()
	case "ReadPartitions":
		_, err = c.ReadPartitions(topicT, topicU)
	case "Write":
		_, err = c.Write([]byte(fmt.Sprintf("w-%d", k)))
	case "WriteMessages":
		_, err = c.WriteMessages(kafka.Message{Key: []byte("a"), Value: []byte(fmt.Sprintf("m-%d", k))}, kafka.Message{Value: []byte("n")})
	case "WriteCompressedMessages":
		codec := kafka.Compression(1 + (variant/3)%4).Codec()
		_, err = c.WriteCompressedMessages(codec, kafka.Message{Key: []byte("a"), Value: []byte(fmt.Sprintf("c-%d", k))}, kafka.Message{Value: []byte("n")})
	case "SetRequiredAcks":
		err = c.SetRequiredAcks(1 - 2*(k%2))
	case "Brokers":
		_, err = c.Brokers()
	case "Controller":
		_, err = c.Controller()
	case "ApiVersions":
		_, err = c.ApiVersions()
	case "CreateTopics":
		err = c.CreateTopics(kafka.TopicConfig{Topic: fmt.Sprintf("new-%d", k), NumPartitions: 1, ReplicationFactor: 1})
	case "DeleteTopics":
		err = c.DeleteTopics(fmt.Sprintf("new-%d", k-1))
	case "Broker":
		c.Broker()
	case "LocalAddr":
		c.LocalAddr()
	case "RemoteAddr":
		c.RemoteAddr()
	default:
		return false, nil
	}
	return true, err
}

func (t *connTarget) call(th, k int, m string) error {
	ok, err := connCall(t.conn, t.p.Variant, k, m)
	if !ok {
		return errUnknown("conn", m)
	}
	return err
}

func (t *connTarget) teardown() {
	if t.conn != nil {
		t.conn.Close()
	}
}

// ---- kafka.Batch: several goroutines on ONE batch (and on the connection it was read from) --------

var batchMethods = []string{
	"Read", "ReadShort", "ReadMessage", "Offset", "HighWaterMark", "Partition", "Throttle", "Err", "Close",
	"Conn.Offset", "Conn.Seek", "Conn.SeekCurrent", "Conn.SetDeadline", "Conn.SetReadDeadline", "Conn.Close", "Conn.RemoteAddr",
}

type batchTarget struct {
	p     *Program
	net   *fakenet.Net
	cl    *fakekafka.Cluster
	conn  *kafka.Conn
	batch *kafka.Batch
}

func init() {
	register("batch", batchMethods, func(p *Program) (target, error) {
		t := &batchTarget{p: p}
		t.net, t.cl = newCluster((p.Variant / 3) % 5)
		applyProfile(t.cl, p.Variant)
		return t, nil
	})
}

func (t *batchTarget) prepare(round int) error {
	if t.batch != nil {
		t.batch.Close() // releases the connection's read lock; closing twice is allowed
		t.batch = nil
	}
	if t.conn != nil {
		t.conn.SetDeadline(time.Now().Add(2 * time.Second))
		if _, err := t.conn.ReadFirstOffset(); err != nil {
			t.conn.Close()
			t.conn = nil
		}
	}
	if t.conn == nil {
		c, err := dialConn(t.net)
		if err != nil {
			return err
		}
		t.conn = c
	}
	t.conn.SetDeadline(time.Now().Add(3 * time.Second))
	// start inside a stored batch (offset not a multiple of 4) so that ReadMessage skips records
	if _, err := t.conn.Seek(int64(1+(round*5+t.p.Variant)%30), kafka.SeekAbsolute|kafka.SeekDontCheck); err != nil {
		return err
	}
	t.batch = t.conn.ReadBatch(1, 1<<16)
	return nil
}

func (t *batchTarget) call(th, k int, m string) error {
	b, c := t.batch, t.conn
	var err error
	switch m {
	case "Read":
		buf := make([]byte, 1024)
		_, err = b.Read(buf)
	case "ReadShort":
		buf := make([]byte, 2)
		_, err = b.Read(buf)
	case "ReadMessage":
		_, err = b.ReadMessage()
	case "Offset":
		b.Offset()
	case "HighWaterMark":
		b.HighWaterMark()
	case "Partition":
		b.Partition()
	case "Throttle":
		b.Throttle()
	case "Err":
		err = b.Err()
	case "Close":
		err = b.Close()
	case "Conn.Offset":
		c.Offset()
	case "Conn.Seek":
		_, err = c.Seek(int64(k%20), kafka.SeekAbsolute|kafka.SeekDontCheck)
	case "Conn.SeekCurrent":
		_, err = c.Seek(1, kafka.SeekCurrent|kafka.SeekDontCheck)
	case "Conn.SetDeadline":
		err = c.SetDeadline(time.Now().Add(2 * time.Second))
	case "Conn.SetReadDeadline":
		err = c.SetReadDeadline(time.Now().Add(2 * time.Second))
	case "Conn.Close":
		err = c.Close()
	case "Conn.RemoteAddr":
		c.RemoteAddr()
	default:
		return errUnknown("batch", m)
	}
	return err
}

func (t *batchTarget) teardown() {
	if t.batch != nil {
		t.batch.Close()
	}
	if t.conn != nil {
		t.conn.Close()
	}
}
