// Package trace records events of one scenario in a single total order.
package trace

import (
	"bufio"
	"encoding/json"
	"io"
	"sync"
	"time"
)

// Event is one trace line. Keys are the field names used by the TLA+ trace specs.
type Event map[string]interface{}

// Recorder assigns a global sequence number to every event under one mutex.
// Emitters call Emit while still holding the lock that protects the state the
// event describes, so the recorded order is a linearisation.
type Recorder struct {
	mu     sync.Mutex
	events []Event
	start  time.Time
}

func New() *Recorder { return &Recorder{start: time.Now()} }

func (r *Recorder) Emit(e Event) {
	r.mu.Lock()
	e["seq"] = len(r.events) + 1
	e["ts"] = int(time.Since(r.start) / time.Millisecond)
	r.events = append(r.events, e)
	r.mu.Unlock()
}

// EmitWith runs f under the recorder lock; f may compute fields that depend on
// recorder-ordered state (for instance identifiers assigned in trace order).
func (r *Recorder) EmitWith(f func() Event) {
	r.mu.Lock()
	e := f()
	if e != nil {
		e["seq"] = len(r.events) + 1
		e["ts"] = int(time.Since(r.start) / time.Millisecond)
		r.events = append(r.events, e)
	}
	r.mu.Unlock()
}

func (r *Recorder) Events() []Event {
	r.mu.Lock()
	defer r.mu.Unlock()
	out := make([]Event, len(r.events))
	copy(out, r.events)
	return out
}

// WriteNDJSON writes events one JSON object per line.
func WriteNDJSON(w io.Writer, evs []Event) error {
	bw := bufio.NewWriter(w)
	for _, e := range evs {
		b, err := json.Marshal(e)
		if err != nil {
			return err
		}
		bw.Write(b)
		bw.WriteByte('\n')
	}
	return bw.Flush()
}
