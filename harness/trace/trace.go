// Package trace records events of one scenario in a single total order.
package trace

import (
	"bufio"
	"encoding/json"
	"io"
	"sync"
	"time"
)

// Event is one trace line. Keys are the field names used by the TLA+ trace specs.
type Event map[string]interface{}

// Recorder assigns a global sequence number to every event under one mutex.
// Emitters call Emit while still holding the lock that protects the state the
// event describes, so the recorded order is a linearisation.
type Recorder struct {
	mu     sync.Mutex
	events []Event
	start  time.Time
	// Cap > 0 bounds the trace: once Cap events are recorded, further events are dropped (and counted) unless their
	// "ev" is in Always.  A scenario on a defective tree can loop at full speed (endless re-delivery, rejoin loops);
	// the verdict is decided on the prefix, the bound keeps the check's run time and memory finite.
	Cap     int
	Always  map[string]bool
	dropped int
}

// keep reports (under mu) whether e is recorded; the first dropped event leaves an "overflow" marker.
func (r *Recorder) keep(e Event) bool {
	if r.Cap <= 0 || len(r.events) < r.Cap {
		return true
	}
	if name, _ := e["ev"].(string); r.Always[name] {
		return true
	}
	if r.dropped == 0 {
		r.events = append(r.events, Event{"ev": "overflow", "seq": len(r.events) + 1, "ts": int(time.Since(r.start) / time.Millisecond)})
	}
	r.dropped++
	return false
}

func New() *Recorder { return &Recorder{start: time.Now()} }

func (r *Recorder) Emit(e Event) {
	r.mu.Lock()
	if !r.keep(e) {
		r.mu.Unlock()
		return
	}
	e["seq"] = len(r.events) + 1
	e["ts"] = int(time.Since(r.start) / time.Millisecond)
	r.events = append(r.events, e)
	r.mu.Unlock()
}

// EmitWith runs f under the recorder lock; f may compute fields that depend on
// recorder-ordered state (for instance identifiers assigned in trace order).
func (r *Recorder) EmitWith(f func() Event) {
	r.mu.Lock()
	e := f()
	if e != nil && r.keep(e) {
		e["seq"] = len(r.events) + 1
		e["ts"] = int(time.Since(r.start) / time.Millisecond)
		r.events = append(r.events, e)
	}
	r.mu.Unlock()
}

func (r *Recorder) Events() []Event {
	r.mu.Lock()
	defer r.mu.Unlock()
	out := make([]Event, len(r.events))
	copy(out, r.events)
	return out
}

// WriteNDJSON writes events one JSON object per line.
func WriteNDJSON(w io.Writer, evs []Event) error {
	bw := bufio.NewWriter(w)
	for _, e := range evs {
		b, err := json.Marshal(e)
		if err != nil {
			return err
		}
		bw.Write(b)
		bw.WriteByte('\n')
	}
	return bw.Flush()
}
