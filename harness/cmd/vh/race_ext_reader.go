//go:build verif

package main

import (
	"encoding/json"

	"verifharness/readerdrv"
)

// Scripts of the reader engine run by `vh race ext -engine reader`: same driver, no hook installed.
func init() {
	raceExt["reader"] = func(line []byte) error {
		s := new(readerdrv.Script)
		if err := json.Unmarshal(line, s); err != nil {
			return err
		}
		readerdrv.Run(s)
		return nil
	}
}
