//go:build verif

package main

import (
	"bufio"
	"encoding/json"
	"flag"
	"fmt"
	"os"

	"verifharness/bdriver"
)

func init() { commands["balancers"] = balancersMain }

// vh balancers -mode vectors -in v.ndjson -out o.ndjson [-par 8]
// vh balancers -mode histories -in scripts.ndjson -out histories.ndjson
func balancersMain(args []string) int {
	fs := flag.NewFlagSet("balancers", flag.ExitOnError)
	mode := fs.String("mode", "vectors", "vectors | histories")
	in := fs.String("in", "", "input ndjson")
	out := fs.String("out", "", "output ndjson")
	par := fs.Int("par", 8, "goroutines sharing the balancer values (vectors mode)")
	fs.Parse(args)
	f, err := os.Open(*in)
	if err != nil {
		fmt.Fprintln(os.Stderr, err)
		return 2
	}
	defer f.Close()
	of, err := os.Create(*out)
	if err != nil {
		fmt.Fprintln(os.Stderr, err)
		return 2
	}
	defer of.Close()
	bw := bufio.NewWriterSize(of, 1<<20)
	defer bw.Flush()
	enc := json.NewEncoder(bw)
	sc := bufio.NewScanner(f)
	sc.Buffer(make([]byte, 1<<20), 1<<26)
	switch *mode {
	case "vectors":
		var vs []*bdriver.Vector
		for sc.Scan() {
			if len(sc.Bytes()) == 0 {
				continue
			}
			v := new(bdriver.Vector)
			if err := json.Unmarshal(sc.Bytes(), v); err != nil {
				fmt.Fprintln(os.Stderr, "bad vector:", err)
				return 2
			}
			if v.Key == nil {
				v.Key = []int{}
			}
			vs = append(vs, v)
		}
		bdriver.RunVectors(vs, *par)
		for _, v := range vs {
			if err := enc.Encode(v); err != nil {
				fmt.Fprintln(os.Stderr, err)
				return 2
			}
		}
	case "histories":
		for sc.Scan() {
			if len(sc.Bytes()) == 0 {
				continue
			}
			s := new(bdriver.Script)
			if err := json.Unmarshal(sc.Bytes(), s); err != nil {
				fmt.Fprintln(os.Stderr, "bad script:", err)
				return 2
			}
			if err := enc.Encode(bdriver.RunScript(s)); err != nil {
				fmt.Fprintln(os.Stderr, err)
				return 2
			}
		}
	default:
		fmt.Fprintln(os.Stderr, "unknown mode", *mode)
		return 2
	}
	if err := sc.Err(); err != nil {
		fmt.Fprintln(os.Stderr, err)
		return 2
	}
	return 0
}
