//go:build verif

package main

import (
	"encoding/json"
	"flag"
	"fmt"
	"os"

	"verifharness/wiredrv"
)

func init() { commands["wire"] = wireMain }

// vh wire -mode info                                         version ranges of the registered message types
// vh wire -mode vectors -schemas S -in vectors.ndjson -out results.ndjson -build default|unsafe [-par N]
// vh wire -mode records -out blobs.ndjson                    record-set blobs with their layout (C20 base frames)
// vh wire -mode fuzz -cases cases.ndjson -out results.ndjson [-par N]   runs every case in a child process
// vh wire -mode fuzzchild | vecchild                         (internal) read cases / vectors on stdin, one result per line
func wireMain(args []string) int {
	fs := flag.NewFlagSet("wire", flag.ExitOnError)
	mode := fs.String("mode", "vectors", "info | vectors | records | fuzz | fuzzchild")
	schemas := fs.String("schemas", "", "normalised schemas (ndjson)")
	in := fs.String("in", "", "vectors (ndjson)")
	cases := fs.String("cases", "", "fuzz cases (ndjson)")
	out := fs.String("out", "", "output ndjson")
	build := fs.String("build", "default", "label of this binary's build (default | unsafe)")
	par := fs.Int("par", 8, "parallelism")
	fs.Parse(args)
	switch *mode {
	case "info":
		return wireInfo()
	case "vectors":
		return wiredrv.VectorsMain(*schemas, *in, *out, *build, *par)
	case "vecchild":
		return wiredrv.VectorChild(*schemas, *build)
	case "records":
		return wiredrv.RecordsMain(*out)
	case "fuzz":
		return wiredrv.FuzzMain(*cases, *out, *par)
	case "fuzzchild":
		return wiredrv.FuzzChild()
	case "marshal":
		return wiredrv.MarshalMain(*out)
	}
	fmt.Fprintln(os.Stderr, "vh wire: unknown mode", *mode)
	return 2
}

func wireInfo() int {
	type info struct {
		Api string `json:"api"`
		Key int    `json:"key"`
		Min int    `json:"min"`
		Max int    `json:"max"`
	}
	enc := json.NewEncoder(os.Stdout)
	for name, e := range wiredrv.Registry {
		enc.Encode(info{name, int(e.Key), int(e.Key.MinVersion()), int(e.Key.MaxVersion())})
	}
	return 0
}
