//go:build verif

package main

import (
	"bufio"
	"encoding/json"
	"flag"
	"fmt"
	"os"
	"sync"

	"verifharness/sasldrv"
	"verifharness/trace"
)

func init() { commands["sasl"] = saslMain }

// vh sasl -scripts scenarios.ndjson -out journals.ndjson [-par 16]
func saslMain(args []string) int {
	fs := flag.NewFlagSet("sasl", flag.ExitOnError)
	scripts := fs.String("scripts", "", "ndjson file of scenarios")
	out := fs.String("out", "", "output ndjson journal file")
	par := fs.Int("par", 16, "scenarios run concurrently")
	fs.Parse(args)
	f, err := os.Open(*scripts)
	if err != nil {
		fmt.Fprintln(os.Stderr, err)
		return 2
	}
	defer f.Close()
	var list []*sasldrv.Scenario
	sc := bufio.NewScanner(f)
	sc.Buffer(make([]byte, 1<<20), 1<<26)
	for sc.Scan() {
		if len(sc.Bytes()) == 0 {
			continue
		}
		s := new(sasldrv.Scenario)
		if err := json.Unmarshal(sc.Bytes(), s); err != nil {
			fmt.Fprintln(os.Stderr, "bad scenario:", err)
			return 2
		}
		list = append(list, s)
	}
	results := make([][]trace.Event, len(list))
	sem := make(chan struct{}, *par)
	var wg sync.WaitGroup
	for i, s := range list {
		wg.Add(1)
		sem <- struct{}{}
		go func(i int, s *sasldrv.Scenario) {
			defer wg.Done()
			defer func() { <-sem }()
			results[i] = sasldrv.Run(s)
		}(i, s)
	}
	wg.Wait()
	of, err := os.Create(*out)
	if err != nil {
		fmt.Fprintln(os.Stderr, err)
		return 2
	}
	defer of.Close()
	for _, evs := range results {
		if err := trace.WriteNDJSON(of, evs); err != nil {
			fmt.Fprintln(os.Stderr, err)
			return 2
		}
	}
	return 0
}
