//go:build verif

package main

import (
	"bufio"
	"encoding/json"
	"flag"
	"fmt"
	"os"
	"sync"

	"verifharness/trace"
	"verifharness/transdrv"
)

func init() { commands["transport"] = transportMain }

// vh transport -scripts s.ndjson -out traces.ndjson [-par 32]
// vh transport -ranges            (prints the client's version ranges as JSON)
func transportMain(args []string) int {
	fs := flag.NewFlagSet("transport", flag.ExitOnError)
	scripts := fs.String("scripts", "", "ndjson file of scripts")
	out := fs.String("out", "", "output ndjson trace file")
	par := fs.Int("par", 32, "scripts run concurrently")
	ranges := fs.Bool("ranges", false, "print the API version ranges the library implements")
	fs.Parse(args)
	if *ranges {
		b, _ := json.Marshal(transdrv.ClientRanges())
		fmt.Println(string(b))
		return 0
	}
	f, err := os.Open(*scripts)
	if err != nil {
		fmt.Fprintln(os.Stderr, err)
		return 2
	}
	defer f.Close()
	var list []*transdrv.Script
	sc := bufio.NewScanner(f)
	sc.Buffer(make([]byte, 1<<20), 1<<26)
	for sc.Scan() {
		if len(sc.Bytes()) == 0 {
			continue
		}
		s := new(transdrv.Script)
		if err := json.Unmarshal(sc.Bytes(), s); err != nil {
			fmt.Fprintln(os.Stderr, "bad script:", err)
			return 2
		}
		list = append(list, s)
	}
	results := make([][]trace.Event, len(list))
	sem := make(chan struct{}, *par)
	var wg sync.WaitGroup
	for i, s := range list {
		wg.Add(1)
		sem <- struct{}{}
		go func(i int, s *transdrv.Script) {
			defer wg.Done()
			defer func() { <-sem }()
			results[i] = transdrv.Run(s)
		}(i, s)
	}
	wg.Wait()
	of, err := os.Create(*out)
	if err != nil {
		fmt.Fprintln(os.Stderr, err)
		return 2
	}
	defer of.Close()
	for _, evs := range results {
		if err := trace.WriteNDJSON(of, evs); err != nil {
			fmt.Fprintln(os.Stderr, err)
			return 2
		}
	}
	return 0
}
