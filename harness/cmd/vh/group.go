//go:build verif

package main

import (
	"bufio"
	"encoding/json"
	"flag"
	"fmt"
	"os"
	"sync"

	kafka "github.com/segmentio/kafka-go"

	"verifharness/groupdrv"
	"verifharness/trace"
)

func init() { commands["group"] = groupMain }

// vh group -scripts s.ndjson -out traces.ndjson [-par 16]
func groupMain(args []string) int {
	fs := flag.NewFlagSet("group", flag.ExitOnError)
	scripts := fs.String("scripts", "", "ndjson file of scripts")
	out := fs.String("out", "", "output ndjson trace file")
	par := fs.Int("par", 16, "scripts run concurrently")
	fs.Parse(args)
	f, err := os.Open(*scripts)
	if err != nil {
		fmt.Fprintln(os.Stderr, err)
		return 2
	}
	defer f.Close()
	var list []*groupdrv.Script
	sc := bufio.NewScanner(f)
	sc.Buffer(make([]byte, 1<<20), 1<<26)
	for sc.Scan() {
		if len(sc.Bytes()) == 0 {
			continue
		}
		s := new(groupdrv.Script)
		if err := json.Unmarshal(sc.Bytes(), s); err != nil {
			fmt.Fprintln(os.Stderr, "bad script:", err)
			return 2
		}
		list = append(list, s)
	}
	kafka.VerifHook = groupdrv.InstallHook(kafka.VerifHook)
	results := make([][]trace.Event, len(list))
	sem := make(chan struct{}, *par)
	var wg sync.WaitGroup
	for i, s := range list {
		wg.Add(1)
		sem <- struct{}{}
		go func(i int, s *groupdrv.Script) {
			defer wg.Done()
			defer func() { <-sem }()
			results[i] = groupdrv.Run(s)
		}(i, s)
	}
	wg.Wait()
	of, err := os.Create(*out)
	if err != nil {
		fmt.Fprintln(os.Stderr, err)
		return 2
	}
	defer of.Close()
	for _, evs := range results {
		if err := trace.WriteNDJSON(of, evs); err != nil {
			fmt.Fprintln(os.Stderr, err)
			return 2
		}
	}
	return 0
}
