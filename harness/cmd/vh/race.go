//go:build verif

package main

import (
	"bufio"
	"encoding/json"
	"flag"
	"fmt"
	"os"
	"strings"
	"time"

	"verifharness/racedrv"
)

func init() { commands["race"] = raceMain }

// raceExt holds the runners of other engines' scenario scripts WITHOUT their hooks (kafka.VerifHook
// stays nil): one entry per cmd/vh/race_ext_<engine>.go that is part of the build. A runner gets one
// script (a JSON line) and executes it; its trace is discarded, the race detector is the only observer.
var raceExt = map[string]func(line []byte) error{}

// vh race types                                      the value types and methods the driver executes (JSON)
// vh race run -programs p.ndjson -out res.ndjson     TLC-generated programs, one after the other
// vh race ext -engine E -scripts s.ndjson -out res.ndjson   scripts of engine E (writer conn reader group), hooks off
//
// Build with `go build -race` and run with GORACE="halt_on_error=0 exitcode=0 log_path=<prefix> history_size=5":
// every result line carries the size of <prefix>.<pid> before and after the program, which attributes the
// reports written in between to that program.
func raceMain(args []string) int {
	if len(args) < 1 {
		fmt.Fprintln(os.Stderr, "usage: vh race types|run|ext ...")
		return 2
	}
	switch args[0] {
	case "types":
		b, _ := json.Marshal(map[string]interface{}{"types": racedrv.Types(), "balancers": racedrv.BalancerNames, "codecs": racedrv.CodecNames, "versionProfiles": racedrv.VersionProfiles(),
			"ext": extNames()})
		fmt.Println(string(b))
		return 0
	case "run":
		return raceRun(args[1:])
	case "ext":
		return raceExtMain(args[1:])
	}
	fmt.Fprintln(os.Stderr, "vh race: unknown mode", args[0])
	return 2
}

func extNames() []string {
	var out []string
	for k := range raceExt {
		out = append(out, k)
	}
	return out
}

func logPrefix() string {
	for _, f := range strings.Fields(os.Getenv("GORACE")) {
		if strings.HasPrefix(f, "log_path=") {
			return strings.TrimPrefix(f, "log_path=")
		}
	}
	return ""
}

func readLines(path string) ([][]byte, error) {
	f, err := os.Open(path)
	if err != nil {
		return nil, err
	}
	defer f.Close()
	var out [][]byte
	sc := bufio.NewScanner(f)
	sc.Buffer(make([]byte, 1<<20), 1<<26)
	for sc.Scan() {
		if len(sc.Bytes()) == 0 {
			continue
		}
		out = append(out, append([]byte(nil), sc.Bytes()...))
	}
	return out, sc.Err()
}

func raceRun(args []string) int {
	fs := flag.NewFlagSet("race run", flag.ExitOnError)
	progs := fs.String("programs", "", "ndjson file of programs")
	out := fs.String("out", "", "ndjson file of results")
	fs.Parse(args)
	lines, err := readLines(*progs)
	if err != nil {
		fmt.Fprintln(os.Stderr, err)
		return 2
	}
	of, err := os.Create(*out)
	if err != nil {
		fmt.Fprintln(os.Stderr, err)
		return 2
	}
	defer of.Close()
	prefix := logPrefix()
	enc := json.NewEncoder(of)
	for _, ln := range lines {
		p := new(racedrv.Program)
		if err := json.Unmarshal(ln, p); err != nil {
			fmt.Fprintln(os.Stderr, "bad program:", err)
			return 2
		}
		from := racedrv.LogSize(prefix)
		res := racedrv.Run(p)
		time.Sleep(2 * time.Millisecond) // goroutines of the value that are still winding down
		res.LogFrom, res.LogTo = from, racedrv.LogSize(prefix)
		if err := enc.Encode(res); err != nil {
			fmt.Fprintln(os.Stderr, err)
			return 2
		}
	}
	return 0
}

type extResult struct {
	ID      string `json:"id"`
	Engine  string `json:"engine"`
	Ms      int    `json:"ms"`
	Err     string `json:"err,omitempty"`
	LogFrom int64  `json:"logFrom"`
	LogTo   int64  `json:"logTo"`
}

func raceExtMain(args []string) int {
	fs := flag.NewFlagSet("race ext", flag.ExitOnError)
	engine := fs.String("engine", "", "writer | conn | reader | group")
	scripts := fs.String("scripts", "", "ndjson file of scripts of that engine")
	out := fs.String("out", "", "ndjson file of results")
	fs.Parse(args)
	run := raceExt[*engine]
	if run == nil {
		fmt.Fprintf(os.Stderr, "vh race ext: engine %q is not part of this build\n", *engine)
		return 2
	}
	lines, err := readLines(*scripts)
	if err != nil {
		fmt.Fprintln(os.Stderr, err)
		return 2
	}
	of, err := os.Create(*out)
	if err != nil {
		fmt.Fprintln(os.Stderr, err)
		return 2
	}
	defer of.Close()
	prefix := logPrefix()
	enc := json.NewEncoder(of)
	for _, ln := range lines {
		var hdr struct {
			ID string `json:"id"`
		}
		json.Unmarshal(ln, &hdr)
		res := extResult{ID: hdr.ID, Engine: *engine, LogFrom: racedrv.LogSize(prefix)}
		t0 := time.Now()
		if err := run(ln); err != nil {
			res.Err = err.Error()
		}
		time.Sleep(2 * time.Millisecond)
		res.Ms = int(time.Since(t0) / time.Millisecond)
		res.LogTo = racedrv.LogSize(prefix)
		if err := enc.Encode(res); err != nil {
			fmt.Fprintln(os.Stderr, err)
			return 2
		}
	}
	return 0
}
