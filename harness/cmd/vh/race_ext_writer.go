//go:build verif

package main

import (
	"encoding/json"

	"verifharness/wdriver"
)

// Scripts of the writer engine run by `vh race ext -engine writer`: same driver, no hook installed.
func init() {
	raceExt["writer"] = func(line []byte) error {
		s := new(wdriver.Script)
		if err := json.Unmarshal(line, s); err != nil {
			return err
		}
		wdriver.Run(s)
		return nil
	}
}
