//go:build verif

package main

import (
	"bufio"
	"encoding/json"
	"flag"
	"fmt"
	"os"
	"strconv"
	"strings"
	"sync"

	"verifharness/connwire"
)

func init() { commands["connwire"] = connwireMain }

// vh connwire -tier quick|thorough -out conns.ndjson -log scenarios.ndjson [-par N] [-only substring] [-probe]
//
// Runs the scenarios of driver B of C04 (requests written by the hand-written Conn codec) and writes one line per
// captured connection: {scenario, conn, addr, clientId, advertised:[{k,lo,hi}], stream:[bytes], werr}.
func connwireMain(args []string) int {
	fs := flag.NewFlagSet("connwire", flag.ExitOnError)
	tier := fs.String("tier", "quick", "quick | thorough")
	out := fs.String("out", "", "output ndjson (connections)")
	logp := fs.String("log", "", "output ndjson (one account per scenario)")
	par := fs.Int("par", 8, "scenarios run concurrently")
	only := fs.String("only", "", "run only scenarios whose name contains this")
	probe := fs.Bool("probe", false, "also run the probe scenario (hard-coded versions against a broker that advertises less; not part of the check)")
	fs.Parse(args)
	seed, _ := strconv.ParseInt(os.Getenv("VERIF_SEED"), 10, 64)
	var list []*connwire.Scenario
	for _, s := range connwire.Scenarios(*tier, *probe) {
		if *only == "" || strings.Contains(s.Name, *only) {
			list = append(list, s)
		}
	}
	recs := make([][]connwire.Rec, len(list))
	logs := make([]connwire.Log, len(list))
	sem := make(chan struct{}, *par)
	var wg sync.WaitGroup
	for i, s := range list {
		wg.Add(1)
		sem <- struct{}{}
		go func(i int, s *connwire.Scenario) {
			defer wg.Done()
			defer func() { <-sem }()
			recs[i], logs[i] = connwire.RunScenario(s, seed*1000003+int64(i))
		}(i, s)
	}
	wg.Wait()
	write := func(path string, n int, line func(int) interface{}) bool {
		f, err := os.Create(path)
		if err != nil {
			fmt.Fprintln(os.Stderr, err)
			return false
		}
		w := bufio.NewWriterSize(f, 1<<20)
		enc := json.NewEncoder(w)
		for i := 0; i < n; i++ {
			if v := line(i); v != nil {
				if err := enc.Encode(v); err != nil {
					fmt.Fprintln(os.Stderr, err)
					return false
				}
			}
		}
		return w.Flush() == nil && f.Close() == nil
	}
	var flat []connwire.Rec
	for _, r := range recs {
		flat = append(flat, r...)
	}
	if !write(*out, len(flat), func(i int) interface{} { return flat[i] }) {
		return 2
	}
	if *logp != "" && !write(*logp, len(logs), func(i int) interface{} {
		if logs[i].Errs == nil {
			logs[i].Errs = []string{}
		}
		return logs[i]
	}) {
		return 2
	}
	return 0
}
