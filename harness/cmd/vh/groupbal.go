//go:build verif

package main

import (
	"bufio"
	"encoding/json"
	"flag"
	"fmt"
	"os"
	"sync"

	"verifharness/gbdriver"
)

func init() { commands["groupbal"] = groupbalMain }

// vh groupbal -in inputs.ndjson -out lines.ndjson [-reps 8]
// One output line per input and distinct result (RackAffinity is called -reps times per input).
func groupbalMain(args []string) int {
	fs := flag.NewFlagSet("groupbal", flag.ExitOnError)
	inPath := fs.String("in", "", "ndjson file of inputs")
	outPath := fs.String("out", "", "ndjson file of (input, output) lines")
	reps := fs.Int("reps", 8, "calls per RackAffinity input")
	tracePath := fs.String("trace", "", "ndjson file for the protocol events of the leader-path runs (GroupJoinTrace.tla)")
	par := fs.Int("par", 16, "groups formed side by side on the leader path")
	fs.Parse(args)
	f, err := os.Open(*inPath)
	if err != nil {
		fmt.Fprintln(os.Stderr, err)
		return 2
	}
	defer f.Close()
	of, err := os.Create(*outPath)
	if err != nil {
		fmt.Fprintln(os.Stderr, err)
		return 2
	}
	w := bufio.NewWriterSize(of, 1<<20)
	enc := json.NewEncoder(w)
	sc := bufio.NewScanner(f)
	sc.Buffer(make([]byte, 1<<20), 1<<26)
	inputs, lines, calls := 0, 0, 0
	var leaderIns []gbdriver.Input
	for sc.Scan() {
		if len(sc.Bytes()) == 0 {
			continue
		}
		var in gbdriver.Input
		if err := json.Unmarshal(sc.Bytes(), &in); err != nil {
			fmt.Fprintln(os.Stderr, "bad input:", err)
			return 2
		}
		if in.Leader != "" {
			leaderIns = append(leaderIns, in)
			continue
		}
		ls, err := gbdriver.Execute(in, *reps)
		if err != nil {
			fmt.Fprintln(os.Stderr, err)
			return 2
		}
		inputs++
		for _, l := range ls {
			calls += l.Reps
			if err := enc.Encode(l); err != nil {
				fmt.Fprintln(os.Stderr, err)
				return 2
			}
			lines++
		}
	}
	if err := sc.Err(); err != nil {
		fmt.Fprintln(os.Stderr, err)
		return 2
	}
	// leader path: real ConsumerGroups against a fake cluster, several groups side by side
	if len(leaderIns) > 0 {
		out := make([][]gbdriver.Line, len(leaderIns))
		evs := make([][]map[string]interface{}, len(leaderIns))
		errs := make([]error, len(leaderIns))
		sem := make(chan struct{}, *par)
		var wg sync.WaitGroup
		for i := range leaderIns {
			wg.Add(1)
			sem <- struct{}{}
			go func(i int) {
				defer wg.Done()
				defer func() { <-sem }()
				out[i], evs[i], errs[i] = gbdriver.ExecuteLeader(leaderIns[i])
			}(i)
		}
		wg.Wait()
		for i := range out {
			if errs[i] != nil {
				fmt.Fprintln(os.Stderr, errs[i])
				return 2
			}
			inputs++
			for _, l := range out[i] {
				calls++
				if err := enc.Encode(l); err != nil {
					fmt.Fprintln(os.Stderr, err)
					return 2
				}
				lines++
			}
		}
		if *tracePath != "" {
			tf, err := os.Create(*tracePath)
			if err != nil {
				fmt.Fprintln(os.Stderr, err)
				return 2
			}
			tw := bufio.NewWriterSize(tf, 1<<20)
			tenc := json.NewEncoder(tw)
			for i := range evs {
				bad := false
				for _, l := range out[i] {
					bad = bad || l.Err != ""
				}
				if bad {
					continue
				}
				for _, e := range evs[i] {
					if err := tenc.Encode(e); err != nil {
						fmt.Fprintln(os.Stderr, err)
						return 2
					}
				}
			}
			if err := tw.Flush(); err != nil {
				fmt.Fprintln(os.Stderr, err)
				return 2
			}
			tf.Close()
		}
	}
	if err := w.Flush(); err != nil {
		fmt.Fprintln(os.Stderr, err)
		return 2
	}
	if err := of.Close(); err != nil {
		fmt.Fprintln(os.Stderr, err)
		return 2
	}
	fmt.Printf("{\"inputs\":%d,\"lines\":%d,\"calls\":%d}\n", inputs, lines, calls)
	return 0
}
