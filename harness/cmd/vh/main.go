//go:build verif

// vh runs harness drivers against the kafka-go working tree.
package main

import (
	"fmt"
	"os"
)

var commands = map[string]func(args []string) int{}

func main() {
	if len(os.Args) < 2 {
		fmt.Fprintln(os.Stderr, "usage: vh <engine> [flags]")
		os.Exit(2)
	}
	f := commands[os.Args[1]]
	if f == nil {
		fmt.Fprintf(os.Stderr, "vh: unknown engine %q\n", os.Args[1])
		os.Exit(2)
	}
	os.Exit(f(os.Args[2:]))
}
