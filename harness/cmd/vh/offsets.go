//go:build verif

package main

import (
	"bufio"
	"encoding/json"
	"flag"
	"fmt"
	"os"
	"sync"

	"verifharness/offdrv"
)

func init() { commands["offsets"] = offsetsMain }

// vh offsets -jobs jobs.ndjson -out answers.ndjson [-par 16]
// One job = one cluster state + the queries to run against it; one output line per query.
func offsetsMain(args []string) int {
	fs := flag.NewFlagSet("offsets", flag.ExitOnError)
	jobs := fs.String("jobs", "", "ndjson file of jobs")
	out := fs.String("out", "", "output ndjson file of answers")
	par := fs.Int("par", 16, "jobs run concurrently")
	fs.Parse(args)
	f, err := os.Open(*jobs)
	if err != nil {
		fmt.Fprintln(os.Stderr, err)
		return 2
	}
	defer f.Close()
	var list []*offdrv.Job
	sc := bufio.NewScanner(f)
	sc.Buffer(make([]byte, 1<<20), 1<<28)
	for sc.Scan() {
		if len(sc.Bytes()) == 0 {
			continue
		}
		j := new(offdrv.Job)
		if err := json.Unmarshal(sc.Bytes(), j); err != nil {
			fmt.Fprintln(os.Stderr, "bad job:", err)
			return 2
		}
		list = append(list, j)
	}
	results := make([][]offdrv.Result, len(list))
	sem := make(chan struct{}, *par)
	var wg sync.WaitGroup
	for i, j := range list {
		wg.Add(1)
		sem <- struct{}{}
		go func(i int, j *offdrv.Job) {
			defer wg.Done()
			defer func() { <-sem }()
			results[i] = offdrv.RunJob(j)
		}(i, j)
	}
	wg.Wait()
	of, err := os.Create(*out)
	if err != nil {
		fmt.Fprintln(os.Stderr, err)
		return 2
	}
	defer of.Close()
	w := bufio.NewWriterSize(of, 1<<20)
	enc := json.NewEncoder(w)
	for _, rs := range results {
		for _, r := range rs {
			if err := enc.Encode(r); err != nil {
				fmt.Fprintln(os.Stderr, err)
				return 2
			}
		}
	}
	if err := w.Flush(); err != nil {
		fmt.Fprintln(os.Stderr, err)
		return 2
	}
	return 0
}
