//go:build verif

package main

import (
	"bufio"
	"encoding/json"
	"flag"
	"fmt"
	"os"
	"runtime/debug"
	"strconv"

	"verifharness/cdriver"
	"verifharness/trace"
)

func init() { commands["codecs"] = codecsMain }

// vh codecs -scripts s.ndjson -out events.ndjson        replay histories (sequentially: the pools are process-wide)
// vh codecs -conc G -iters N -out events.ndjson         concurrent use of one codec value
func codecsMain(args []string) int {
	fs := flag.NewFlagSet("codecs", flag.ExitOnError)
	scripts := fs.String("scripts", "", "ndjson file of histories")
	out := fs.String("out", "", "output ndjson file")
	conc := fs.Int("conc", 0, "goroutines for the concurrency run")
	iters := fs.Int("iters", 20, "round trips per goroutine")
	fs.Parse(args)
	of, err := os.Create(*out)
	if err != nil {
		fmt.Fprintln(os.Stderr, err)
		return 2
	}
	defer of.Close()
	if *conc > 0 {
		seed, _ := strconv.ParseInt(os.Getenv("VERIF_SEED"), 10, 64)
		if err := trace.WriteNDJSON(of, cdriver.Conc(seed, *conc, *iters)); err != nil {
			fmt.Fprintln(os.Stderr, err)
			return 2
		}
		return 0
	}
	f, err := os.Open(*scripts)
	if err != nil {
		fmt.Fprintln(os.Stderr, err)
		return 2
	}
	defer f.Close()
	// no collection inside a history: pooled objects stay pooled and addresses stay unique;
	// Run collects twice before each history, which also empties the pools
	debug.SetGCPercent(-1)
	sc := bufio.NewScanner(f)
	sc.Buffer(make([]byte, 1<<20), 1<<26)
	for sc.Scan() {
		if len(sc.Bytes()) == 0 {
			continue
		}
		s := new(cdriver.Script)
		if err := json.Unmarshal(sc.Bytes(), s); err != nil {
			fmt.Fprintln(os.Stderr, "bad script:", err)
			return 2
		}
		if err := trace.WriteNDJSON(of, cdriver.Run(s)); err != nil {
			fmt.Fprintln(os.Stderr, err)
			return 2
		}
	}
	return 0
}
