//go:build verif

package main

import (
	"encoding/json"

	"verifharness/groupdrv"
)

// Scripts of the group engine run by `vh race ext -engine group`: same driver, no hook installed.
func init() {
	raceExt["group"] = func(line []byte) error {
		s := new(groupdrv.Script)
		if err := json.Unmarshal(line, s); err != nil {
			return err
		}
		groupdrv.Run(s)
		return nil
	}
}
