//go:build verif

package main

import (
	"encoding/json"

	"verifharness/conndrv"
)

// Scripts of the conn engine run by `vh race ext -engine conn`: same driver, no hook installed.
func init() {
	raceExt["conn"] = func(line []byte) error {
		s := new(conndrv.Script)
		if err := json.Unmarshal(line, s); err != nil {
			return err
		}
		conndrv.Run(s)
		return nil
	}
}
