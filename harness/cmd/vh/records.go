//go:build verif

package main

import (
	"encoding/json"
	"flag"
	"fmt"
	"os"
	"time"

	"verifharness/recdrv"
)

func init() { commands["records"] = recordsMain }

// vh records -cases c.ndjson -out lines.ndjson [-par 16]
func recordsMain(args []string) int {
	fs := flag.NewFlagSet("records", flag.ExitOnError)
	cases := fs.String("cases", "", "ndjson file of cases")
	out := fs.String("out", "", "output ndjson file of lines")
	par := fs.Int("par", 16, "cases run concurrently")
	fs.Parse(args)
	list, err := recdrv.ReadCases(*cases)
	if err != nil {
		fmt.Fprintln(os.Stderr, err)
		return 2
	}
	of, err := os.Create(*out)
	if err != nil {
		fmt.Fprintln(os.Stderr, err)
		return 2
	}
	defer of.Close()
	t0 := time.Now()
	if err := recdrv.RunAll(list, *par, of); err != nil {
		fmt.Fprintln(os.Stderr, err)
		return 2
	}
	b, _ := json.Marshal(map[string]interface{}{"cases": len(list), "wall_ms": time.Since(t0).Milliseconds()})
	fmt.Println(string(b))
	return 0
}
