//go:build verif

// Package offdrv asks the real kafka.Conn and kafka.Client (+ kafka.Transport) offset and
// metadata questions about fake clusters built from abstract cluster-state descriptions,
// and records the answers field by field (C19). It never judges: the judge is
// spec/offsets/OffsetsCheck.tla evaluated by TLC on the ndjson this package writes.
package offdrv

import (
	"context"
	"encoding/json"
	"errors"
	"fmt"
	"net"
	"sort"
	"strings"
	"time"

	kafka "github.com/segmentio/kafka-go"

	"verifharness/fakekafka"
	"verifharness/fakenet"
	"verifharness/krec"
)

// --- abstract cluster state (the same JSON is read by TLC as the truth) -----------------

type Part struct {
	ID       int     `json:"id"`
	Leader   int     `json:"leader"`
	Replicas []int   `json:"replicas"`
	Isr      []int   `json:"isr"`
	Start    int64   `json:"start"` // log start offset
	End      int64   `json:"end"`   // log end offset (= high watermark)
	Ts       []int64 `json:"ts"`    // timestamp (ms) of the record at offset i, i in 0..end-1
	Lerr     int     `json:"lerr"`  // error code the leader answers to ListOffsets for this partition
	Merr     int     `json:"merr"`  // error code reported in metadata for this partition
	Lerrt    int     `json:"lerrt"` // error code the leader answers to ListOffsets lookups by timestamp (ts >= 0) only
	Lso      *int64  `json:"lso"`   // last stable offset (start <= lso <= end; absent: end): offsets lso..end-1 belong to open transactions
}

type Topic struct {
	Name  string `json:"name"`
	Parts []Part `json:"parts"`
}

type Commit struct {
	T   string `json:"t"`
	P   int    `json:"p"`
	Off int64  `json:"off"`
}

type Group struct {
	ID        string   `json:"id"`
	Coord     int      `json:"coord"`
	Committed []Commit `json:"committed"`
	Gerr      int      `json:"gerr"` // error code the coordinator answers to OffsetFetch / OffsetCommit for the whole group (0: none)
}

type BrokerState struct {
	ID   int    `json:"id"`
	Host string `json:"host"`
	Port int    `json:"port"`
}

type CS struct {
	Brokers    []BrokerState `json:"brokers"`
	Controller int           `json:"controller"`
	Down       []int         `json:"down"`     // brokers whose address does not accept connections
	DownMode   string        `json:"downMode"` // "refuse" | "blackhole"
	Topics     []Topic       `json:"topics"`
	Groups     []Group       `json:"groups"`
}

type Job struct {
	Csi      int            `json:"csi"`
	CS       CS             `json:"cs"`
	Versions map[string]int `json:"versions"` // api name -> highest version the brokers advertise
	Queries  []Query        `json:"queries"`
}

type Query struct {
	ID  string          `json:"id"`
	API string          `json:"api"`
	Q   json.RawMessage `json:"q"`
}

// Result is one output line.
type Result struct {
	ID  string          `json:"id"`
	API string          `json:"api"`
	Csi int             `json:"csi"`
	Q   json.RawMessage `json:"q"`
	A   interface{}     `json:"a"`
	V   map[string]int  `json:"v"` // API versions of the requests the fake brokers received for this query (coverage only)
}

var apiByName = map[string]int16{"listoffsets": fakekafka.ListOffsets, "offsetfetch": fakekafka.OffsetFetch,
	"offsetcommit": fakekafka.OffsetCommit, "metadata": fakekafka.Metadata}

// Error classes in the answers: 0 no error, n = kafka.Error(n) (so -1 is kafka.Unknown),
// -1000 Seek's "whence must be one of" error, -1001 anything else (text in emsg).
const (
	errWhence  = -1000
	errOther   = -1001
	errTimeout = -1002 // a time-out of the harness' own generous deadlines: never judged (see guard)
)

func isTimeout(err error) bool {
	var ne net.Error
	return errors.Is(err, context.DeadlineExceeded) || (errors.As(err, &ne) && ne.Timeout()) || strings.Contains(err.Error(), "i/o timeout")
}

func errCode(err error) int {
	var ke kafka.Error
	switch {
	case err == nil:
		return 0
	case errors.As(err, &ke):
		return int(ke)
	case strings.Contains(err.Error(), "whence must be one of"):
		return errWhence
	case isTimeout(err):
		return errTimeout
	}
	return errOther
}

func errMsg(err error) string {
	if err == nil {
		return ""
	}
	s := err.Error()
	if len(s) > 160 {
		s = s[:160]
	}
	return s
}

func tms(t time.Time) int64 {
	if t.IsZero() {
		return 0
	}
	return t.UnixNano() / int64(time.Millisecond)
}

func ints(a []int) []int {
	if a == nil {
		return []int{}
	}
	return a
}

// --- cluster construction ------------------------------------------------------------------

type env struct {
	job    *Job
	net    *fakenet.Net
	cl     *fakekafka.Cluster
	ox     *fakekafka.OffsetsExt
	tr     *kafka.Transport
	client *kafka.Client
}

func build(job *Job) *env {
	n := fakenet.NewNet()
	cl := fakekafka.NewCluster(n, 0)
	for _, bs := range job.CS.Brokers {
		b := cl.AddBroker(bs.ID)
		if b.Host != bs.Host || b.Port != bs.Port {
			panic(driverErr(fmt.Sprintf("cluster state says broker %d is %s:%d, the fake cluster has %s", bs.ID, bs.Host, bs.Port, b.Addr())))
		}
	}
	cl.Controller = job.CS.Controller
	vs := fakekafka.ExtDefaultVersions()
	for name, max := range job.Versions {
		if k, ok := apiByName[name]; ok {
			vs[k] = fakekafka.VersionRange{Min: 0, Max: int16(max)}
		}
	}
	cl.Versions = vs
	// last stable offsets / group-level errors of the state; everything else goes on to fakekafka.ExtVersions
	ox := fakekafka.NewOffsetsExt()
	cl.Intercept = ox.Intercept
	for _, ts := range job.CS.Topics {
		t := cl.AddTopic(ts.Name, len(ts.Parts))
		for i, ps := range ts.Parts {
			p := t.Partitions[i]
			p.ID = ps.ID
			p.Leader = ps.Leader
			p.Replicas = append([]int{}, ps.Replicas...)
			p.ISR = append([]int{}, ps.Isr...)
			p.Err = int16(ps.Merr)
			p.ListErr = int16(ps.Lerr)
			p.ListErrTime = int16(ps.Lerrt)
			var recs []krec.Rec
			for o := int64(0); o < ps.End; o++ {
				recs = append(recs, krec.Rec{Offset: o, TsMs: ps.Ts[o], Key: []byte(fmt.Sprintf("k%d", o)), Value: []byte(fmt.Sprintf("v%d", o))})
			}
			if len(recs) > 0 {
				p.AppendV2(recs, krec.None)
			}
			p.LogStart = ps.Start
			p.HW = ps.End
			if ps.Lso != nil {
				if *ps.Lso < ps.Start || *ps.Lso > ps.End {
					panic(driverErr(fmt.Sprintf("cluster state: last stable offset %d of %s/%d outside [%d, %d]", *ps.Lso, ts.Name, ps.ID, ps.Start, ps.End)))
				}
				ox.SetLSO(ts.Name, ps.ID, *ps.Lso)
			}
		}
	}
	for _, gs := range job.CS.Groups {
		setGroup(cl, gs.ID, gs.Coord, gs.Committed)
		ox.SetGroupErr(gs.ID, int16(gs.Gerr))
	}
	for _, id := range job.CS.Down {
		mode := job.CS.DownMode
		if mode == "" {
			mode = "refuse"
		}
		n.SetDown(fmt.Sprintf("b%d:9092", id), mode)
	}
	// Refused dials fail at once, so the dial time-out (which also covers the ApiVersions handshake) can be
	// generous: a loaded machine must never turn into an answer. A black-holed address makes every request
	// routed to it wait for the whole time-out, so such cluster states get few queries (one job each).
	dialTimeout := 15 * time.Second
	tr := &kafka.Transport{Dial: n.DialContext, DialTimeout: dialTimeout, ClientID: "offdrv", MetadataTTL: time.Hour}
	boot := fmt.Sprintf("b%d:9092", job.CS.Brokers[0].ID)
	return &env{job: job, net: n, cl: cl, ox: ox, tr: tr, client: &kafka.Client{Addr: kafka.TCP(boot), Transport: tr, Timeout: 40 * time.Second}}
}

func setGroup(cl *fakekafka.Cluster, id string, coord int, committed []Commit) {
	g := cl.GroupState(id)
	cl.Lock()
	if coord != 0 {
		g.Coordinator = coord
	}
	for _, c := range committed {
		if g.Committed[c.T] == nil {
			g.Committed[c.T] = map[int]int64{}
		}
		g.Committed[c.T][c.P] = c.Off
	}
	cl.Unlock()
}

func (e *env) close() {
	e.tr.CloseIdleConnections()
	for _, c := range e.net.Open("") {
		c.Close()
	}
}

func (e *env) conn(broker int, topic string, partition int) (*kafka.Conn, error) {
	nc, err := e.net.DialContext(context.Background(), "tcp", fmt.Sprintf("b%d:9092", broker))
	if err != nil {
		return nil, err
	}
	return kafka.NewConnWith(nc, kafka.ConnConfig{ClientID: "offdrv", Topic: topic, Partition: partition}), nil
}

// RunJob executes every query of a job against one freshly built cluster.
func RunJob(job *Job) (out []Result) {
	defer func() {
		if r := recover(); r != nil {
			// the cluster could not be built: every query of the job is a driver error
			out = out[:0]
			for i := range job.Queries {
				q := &job.Queries[i]
				out = append(out, Result{ID: q.ID, API: q.API, Csi: job.Csi, Q: q.Q, A: map[string]interface{}{"drivererr": fmt.Sprint(r)}})
			}
		}
	}()
	e := build(job)
	defer e.close()
	out = make([]Result, 0, len(job.Queries))
	for i := range job.Queries {
		q := &job.Queries[i]
		before := len(e.cl.Journal())
		a := e.guard(q)
		seen := map[string]int{}
		for _, je := range e.cl.Journal()[before:] {
			seen[fakekafka.ApiNames[je.ApiKey]] = int(je.Version)
		}
		out = append(out, Result{ID: q.ID, API: q.API, Csi: job.Csi, Q: q.Q, A: a, V: seen})
	}
	return out
}

// driverErr is a failure of the driver itself (bad query, no route to the broker): inconclusive, never a verdict.
type driverErr string

// guard runs one query with a watchdog; panics and hangs become answers (the judge rejects them).
func (e *env) guard(q *Query) (ans interface{}) {
	ch := make(chan interface{}, 1)
	go func() {
		defer func() {
			if r := recover(); r != nil {
				if de, ok := r.(driverErr); ok {
					ch <- map[string]interface{}{"drivererr": string(de)}
					return
				}
				ch <- map[string]interface{}{"panic": true, "hang": false, "emsg": fmt.Sprint(r)}
			}
		}()
		a := e.run(q)
		if b, err := json.Marshal(a); err == nil && (strings.Contains(string(b), `"err":-1002`) || strings.Contains(string(b), `"cerr":-1002`)) {
			blackhole := len(e.job.CS.Down) > 0 && e.job.CS.DownMode == "blackhole"
			if !blackhole {
				panic(driverErr("time-out of the harness deadlines (machine overloaded?): " + string(b)))
			}
		}
		ch <- a
	}()
	select {
	case a := <-ch:
		return a
	case <-time.After(120 * time.Second):
		return map[string]interface{}{"panic": false, "hang": true, "emsg": "no answer within 120 s"}
	}
}

func (e *env) run(q *Query) interface{} {
	switch q.API {
	case "seek":
		return e.seek(q)
	case "readoffset":
		return e.readOffset(q)
	case "readpartitions":
		return e.readPartitions(q)
	case "listoffsets":
		return e.listOffsets(q)
	case "offsetfetch":
		return e.offsetFetch(q)
	case "commit":
		return e.commit(q)
	case "metadata":
		return e.metadata(q)
	}
	panic(driverErr("unknown api " + q.API))
}

// --- Conn: Seek / Offset -------------------------------------------------------------------

type seekStep struct {
	Off    int64 `json:"off"`
	Whence int   `json:"whence"`
	Dc     bool  `json:"dc"`
}

type seekQ struct {
	T      string     `json:"t"`
	P      int        `json:"p"`
	Broker int        `json:"broker"`
	Steps  []seekStep `json:"steps"`
}

type seekStepA struct {
	Res  int64  `json:"res"`
	Err  int    `json:"err"`
	Emsg string `json:"emsg"`
	Aoff int64  `json:"aoff"` // Offset() after the step
	Awh  int    `json:"awh"`
}

type seekA struct {
	Panic bool        `json:"panic"`
	Hang  bool        `json:"hang"`
	Emsg  string      `json:"emsg"`
	Ioff  int64       `json:"ioff"` // Offset() of the fresh connection
	Iwh   int         `json:"iwh"`
	Steps []seekStepA `json:"steps"`
}

func (e *env) seek(q *Query) interface{} {
	var sq seekQ
	mustUnmarshal(q.Q, &sq)
	a := seekA{Steps: []seekStepA{}}
	c, err := e.conn(sq.Broker, sq.T, sq.P)
	if err != nil {
		panic(driverErr(err.Error()))
	}
	defer c.Close()
	c.SetDeadline(time.Now().Add(40 * time.Second))
	a.Ioff, a.Iwh = c.Offset()
	for _, s := range sq.Steps {
		wh := s.Whence
		if s.Dc {
			wh |= kafka.SeekDontCheck
		}
		res, err := c.Seek(s.Off, wh)
		sa := seekStepA{Res: res, Err: errCode(err), Emsg: errMsg(err)}
		sa.Aoff, sa.Awh = c.Offset()
		a.Steps = append(a.Steps, sa)
	}
	return a
}

// --- Conn: ReadFirstOffset / ReadLastOffset / ReadOffset / ReadOffsets ---------------------------

type readOffQ struct {
	T      string `json:"t"`
	P      int    `json:"p"`
	Broker int    `json:"broker"`
	Kind   string `json:"kind"` // first last time offsets
	Ts     int64  `json:"ts"`
}

type readOffA struct {
	Panic bool   `json:"panic"`
	Hang  bool   `json:"hang"`
	Emsg  string `json:"emsg"`
	Err   int    `json:"err"`
	Off   int64  `json:"off"`
	First int64  `json:"first"`
	Last  int64  `json:"last"`
}

func (e *env) readOffset(q *Query) interface{} {
	var rq readOffQ
	mustUnmarshal(q.Q, &rq)
	c, err := e.conn(rq.Broker, rq.T, rq.P)
	if err != nil {
		panic(driverErr(err.Error()))
	}
	defer c.Close()
	c.SetDeadline(time.Now().Add(40 * time.Second))
	a := readOffA{}
	switch rq.Kind {
	case "first":
		a.Off, err = c.ReadFirstOffset()
	case "last":
		a.Off, err = c.ReadLastOffset()
	case "time":
		a.Off, err = c.ReadOffset(time.Unix(0, rq.Ts*int64(time.Millisecond)))
	case "offsets":
		a.First, a.Last, err = c.ReadOffsets()
	default:
		panic(driverErr("kind " + rq.Kind))
	}
	a.Err, a.Emsg = errCode(err), errMsg(err)
	return a
}

// --- Conn: ReadPartitions -----------------------------------------------------------------------

type readPartsQ struct {
	Broker int      `json:"broker"`
	Ctopic string   `json:"ctopic"`
	Topics []string `json:"topics"`
}

type brokerA struct {
	ID   int    `json:"id"`
	Host string `json:"host"`
	Port int    `json:"port"`
}

type partA struct {
	Topic    string    `json:"topic"`
	ID       int       `json:"id"`
	Leader   brokerA   `json:"leader"`
	Replicas []brokerA `json:"replicas"`
	Isr      []brokerA `json:"isr"`
	Err      int       `json:"err"`
}

type readPartsA struct {
	Panic bool    `json:"panic"`
	Hang  bool    `json:"hang"`
	Emsg  string  `json:"emsg"`
	Err   int     `json:"err"`
	Parts []partA `json:"parts"`
}

func brokerOf(b kafka.Broker) brokerA { return brokerA{ID: b.ID, Host: b.Host, Port: b.Port} }

func brokersOf(bs []kafka.Broker) []brokerA {
	out := make([]brokerA, 0, len(bs))
	for _, b := range bs {
		out = append(out, brokerOf(b))
	}
	return out
}

func partOf(p kafka.Partition) partA {
	return partA{Topic: p.Topic, ID: p.ID, Leader: brokerOf(p.Leader), Replicas: brokersOf(p.Replicas), Isr: brokersOf(p.Isr), Err: errCode(p.Error)}
}

func (e *env) readPartitions(q *Query) interface{} {
	var rq readPartsQ
	mustUnmarshal(q.Q, &rq)
	c, err := e.conn(rq.Broker, rq.Ctopic, 0)
	if err != nil {
		panic(driverErr(err.Error()))
	}
	defer c.Close()
	c.SetDeadline(time.Now().Add(40 * time.Second))
	ps, err := c.ReadPartitions(rq.Topics...)
	a := readPartsA{Err: errCode(err), Emsg: errMsg(err), Parts: []partA{}}
	for _, p := range ps {
		a.Parts = append(a.Parts, partOf(p))
	}
	return a
}

// --- Client: ListOffsets ------------------------------------------------------------------------

type loReq struct {
	T  string `json:"t"`
	P  int    `json:"p"`
	Ts int64  `json:"ts"` // -2 first, -1 last, otherwise a time in ms
}

type loQ struct {
	Reqs []loReq `json:"reqs"`
	Iso  int     `json:"iso"` // ListOffsetsRequest.IsolationLevel: 0 ReadUncommitted, 1 ReadCommitted
}

type loPartA struct {
	T       string     `json:"t"`
	P       int        `json:"p"`
	First   int64      `json:"first"`
	Last    int64      `json:"last"`
	Offsets [][2]int64 `json:"offsets"` // (offset, time in ms) pairs of the Offsets map
	Err     int        `json:"err"`
}

type loA struct {
	Panic bool      `json:"panic"`
	Hang  bool      `json:"hang"`
	Emsg  string    `json:"emsg"`
	Err   int       `json:"err"`
	Parts []loPartA `json:"parts"`
}

func (e *env) listOffsets(q *Query) interface{} {
	var lq loQ
	mustUnmarshal(q.Q, &lq)
	req := &kafka.ListOffsetsRequest{Topics: map[string][]kafka.OffsetRequest{}, IsolationLevel: kafka.IsolationLevel(lq.Iso)}
	for _, r := range lq.Reqs {
		var or kafka.OffsetRequest
		switch {
		case r.Ts == -2:
			or = kafka.FirstOffsetOf(r.P)
		case r.Ts == -1:
			or = kafka.LastOffsetOf(r.P)
		default:
			or = kafka.TimeOffsetOf(r.P, time.Unix(0, r.Ts*int64(time.Millisecond)))
		}
		req.Topics[r.T] = append(req.Topics[r.T], or)
	}
	ctx, cancel := context.WithTimeout(context.Background(), 40*time.Second)
	defer cancel()
	res, err := e.client.ListOffsets(ctx, req)
	a := loA{Err: errCode(err), Emsg: errMsg(err), Parts: []loPartA{}}
	if err != nil {
		return a
	}
	for name, parts := range res.Topics {
		for _, p := range parts {
			pa := loPartA{T: name, P: p.Partition, First: p.FirstOffset, Last: p.LastOffset, Offsets: [][2]int64{}, Err: errCode(p.Error)}
			for off, tm := range p.Offsets {
				pa.Offsets = append(pa.Offsets, [2]int64{off, tms(tm)})
			}
			sort.Slice(pa.Offsets, func(i, j int) bool { return pa.Offsets[i][0] < pa.Offsets[j][0] })
			a.Parts = append(a.Parts, pa)
		}
	}
	sort.SliceStable(a.Parts, func(i, j int) bool {
		if a.Parts[i].T != a.Parts[j].T {
			return a.Parts[i].T < a.Parts[j].T
		}
		return a.Parts[i].P < a.Parts[j].P
	})
	return a
}

// --- Client: OffsetFetch / OffsetCommit / ConsumerOffsets --------------------------------------

type tpList struct {
	T     string `json:"t"`
	Parts []int  `json:"parts"`
}

type ofQ struct {
	Group  string   `json:"group"`
	Topics []tpList `json:"topics"`
}

type ofPartA struct {
	T   string `json:"t"`
	P   int    `json:"p"`
	Off int64  `json:"off"`
	Err int    `json:"err"`
}

type ofA struct {
	Panic bool      `json:"panic"`
	Hang  bool      `json:"hang"`
	Emsg  string    `json:"emsg"`
	Err   int       `json:"err"`
	Gerr  int       `json:"gerr"`
	Parts []ofPartA `json:"parts"`
}

func (e *env) fetchOffsets(group string, topics []tpList) ofA {
	req := &kafka.OffsetFetchRequest{GroupID: group, Topics: map[string][]int{}}
	for _, t := range topics {
		req.Topics[t.T] = append(req.Topics[t.T], t.Parts...)
	}
	ctx, cancel := context.WithTimeout(context.Background(), 40*time.Second)
	defer cancel()
	res, err := e.client.OffsetFetch(ctx, req)
	a := ofA{Err: errCode(err), Emsg: errMsg(err), Parts: []ofPartA{}}
	if err != nil {
		return a
	}
	a.Gerr = errCode(res.Error)
	for name, parts := range res.Topics {
		for _, p := range parts {
			a.Parts = append(a.Parts, ofPartA{T: name, P: p.Partition, Off: p.CommittedOffset, Err: errCode(p.Error)})
		}
	}
	sort.SliceStable(a.Parts, func(i, j int) bool {
		if a.Parts[i].T != a.Parts[j].T {
			return a.Parts[i].T < a.Parts[j].T
		}
		return a.Parts[i].P < a.Parts[j].P
	})
	return a
}

func (e *env) offsetFetch(q *Query) interface{} {
	var oq ofQ
	mustUnmarshal(q.Q, &oq)
	return e.fetchOffsets(oq.Group, oq.Topics)
}

type commitQ struct {
	Group   string   `json:"group"`
	Coord   int      `json:"coord"`
	Init    []Commit `json:"init"`    // committed offsets of the (case-private) group before the commit
	Commits []Commit `json:"commits"` // one OffsetCommit request
	Fetch   []tpList `json:"fetch"`   // OffsetFetch afterwards
	Ctopic  string   `json:"ctopic"`  // ConsumerOffsets afterwards
	Gerr    int      `json:"gerr"`    // error code the coordinator answers for the (case-private) group, 0: none
	Co      *bool    `json:"co"`      // ask ConsumerOffsets afterwards (absent: yes)
}

type ccPartA struct {
	T   string `json:"t"`
	P   int    `json:"p"`
	Err int    `json:"err"`
}

type coA struct {
	Err  int        `json:"err"`
	Emsg string     `json:"emsg"`
	Offs [][2]int64 `json:"offs"` // (partition, offset)
}

type commitA struct {
	Panic  bool      `json:"panic"`
	Hang   bool      `json:"hang"`
	Emsg   string    `json:"emsg"`
	Cerr   int       `json:"cerr"`
	Cparts []ccPartA `json:"cparts"`
	Fetch  ofA       `json:"fetch"`
	Co     coA       `json:"co"`
}

func (e *env) commit(q *Query) interface{} {
	var cq commitQ
	mustUnmarshal(q.Q, &cq)
	setGroup(e.cl, cq.Group, cq.Coord, cq.Init)
	e.ox.SetGroupErr(cq.Group, int16(cq.Gerr))
	req := &kafka.OffsetCommitRequest{GroupID: cq.Group, GenerationID: -1, MemberID: "", Topics: map[string][]kafka.OffsetCommit{}}
	for _, c := range cq.Commits {
		req.Topics[c.T] = append(req.Topics[c.T], kafka.OffsetCommit{Partition: c.P, Offset: c.Off, Metadata: "m"})
	}
	ctx, cancel := context.WithTimeout(context.Background(), 40*time.Second)
	defer cancel()
	res, err := e.client.OffsetCommit(ctx, req)
	a := commitA{Cerr: errCode(err), Emsg: errMsg(err), Cparts: []ccPartA{}}
	if err == nil {
		for name, parts := range res.Topics {
			for _, p := range parts {
				a.Cparts = append(a.Cparts, ccPartA{T: name, P: p.Partition, Err: errCode(p.Error)})
			}
		}
		sort.SliceStable(a.Cparts, func(i, j int) bool {
			if a.Cparts[i].T != a.Cparts[j].T {
				return a.Cparts[i].T < a.Cparts[j].T
			}
			return a.Cparts[i].P < a.Cparts[j].P
		})
	}
	a.Fetch = e.fetchOffsets(cq.Group, cq.Fetch)
	if cq.Co != nil && !*cq.Co {
		a.Co = coA{Offs: [][2]int64{}}
		return a
	}
	offs, err := e.client.ConsumerOffsets(ctx, kafka.TopicAndGroup{Topic: cq.Ctopic, GroupId: cq.Group})
	a.Co = coA{Err: errCode(err), Emsg: errMsg(err), Offs: [][2]int64{}}
	for p, o := range offs {
		a.Co.Offs = append(a.Co.Offs, [2]int64{int64(p), o})
	}
	sort.Slice(a.Co.Offs, func(i, j int) bool { return a.Co.Offs[i][0] < a.Co.Offs[j][0] })
	return a
}

// --- Client: Metadata -----------------------------------------------------------------------------

type metaQ struct {
	All    bool     `json:"all"`
	Topics []string `json:"topics"`
}

type metaTopicA struct {
	Name  string  `json:"name"`
	Err   int     `json:"err"`
	Parts []partA `json:"parts"`
}

type metaA struct {
	Panic      bool         `json:"panic"`
	Hang       bool         `json:"hang"`
	Emsg       string       `json:"emsg"`
	Err        int          `json:"err"`
	Brokers    []brokerA    `json:"brokers"`
	Controller brokerA      `json:"controller"`
	Topics     []metaTopicA `json:"topics"`
}

func (e *env) metadata(q *Query) interface{} {
	var mq metaQ
	mustUnmarshal(q.Q, &mq)
	req := &kafka.MetadataRequest{Topics: mq.Topics}
	if mq.All {
		req.Topics = nil
	}
	ctx, cancel := context.WithTimeout(context.Background(), 40*time.Second)
	defer cancel()
	res, err := e.client.Metadata(ctx, req)
	a := metaA{Err: errCode(err), Emsg: errMsg(err), Brokers: []brokerA{}, Topics: []metaTopicA{}}
	if err != nil {
		return a
	}
	a.Brokers = brokersOf(res.Brokers)
	a.Controller = brokerOf(res.Controller)
	for _, t := range res.Topics {
		ta := metaTopicA{Name: t.Name, Err: errCode(t.Error), Parts: []partA{}}
		for _, p := range t.Partitions {
			ta.Parts = append(ta.Parts, partOf(p))
		}
		a.Topics = append(a.Topics, ta)
	}
	return a
}

func mustUnmarshal(b []byte, v interface{}) {
	if err := json.Unmarshal(b, v); err != nil {
		panic(driverErr(fmt.Sprintf("bad query %s: %v", b, err)))
	}
}
