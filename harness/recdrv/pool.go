//go:build verif

package recdrv

import (
	"bufio"
	"bytes"
	"context"
	"encoding/binary"
	"errors"
	"fmt"
	"io"
	"math/rand"
	"sync"
	"time"

	kafka "github.com/segmentio/kafka-go"
	"github.com/segmentio/kafka-go/protocol"

	"verifharness/fakekafka"
	"verifharness/krec"
)

// The content of the pool log is a function of (partition, offset) only; the same
// functions are written in spec/records/Records.tla (PoolKey, PoolValue).
var poolValueLen = []int{30, 70000, 200, 5000, 65536, 40000, 140000}

func poolSeed(part int, off int64, field int) int { return part*1000000 + int(off)*2 + field }

func poolKey(part int, off int64) Sym {
	if off%5 == 0 {
		return Null()
	}
	return Sym{K: "pat", N: 25 + int(off%40), S: poolSeed(part, off, 0), B: []int{}}
}

func poolValue(part int, off int64) Sym {
	if off%13 == 0 {
		return Null()
	}
	if off%11 == 0 {
		return Sym{K: "lit", N: 0, B: []int{}}
	}
	return Sym{K: "pat", N: poolValueLen[off%7], S: poolSeed(part, off, 1), B: []int{}}
}

func symEq(a, b Sym) bool {
	if a.K != b.K || a.N != b.N || a.C != b.C || a.S != b.S || a.H != b.H || len(a.B) != len(b.B) {
		return false
	}
	for i := range a.B {
		if a.B[i] != b.B[i] {
			return false
		}
	}
	return true
}

const poolTopic = "pool"

type poolLog struct {
	bases [][]int64 // per partition: base offset of every batch
	hw    []int64
	sets  [][][]byte // per partition: encoded batches (for the direct path)
}

func buildPool(c *Case, cl *fakekafka.Cluster) (*poolLog, error) {
	t := cl.AddTopic(poolTopic, c.Parts)
	pl := &poolLog{}
	codecs := []int{krec.None, krec.Gzip, krec.Snappy, krec.Lz4, krec.Zstd}
	for pi, p := range t.Partitions {
		p.Leader, p.Replicas, p.ISR = 1, []int{1}, []int{1}
		off := int64(0)
		var bases []int64
		var sets [][]byte
		for b := 0; b < c.NBatch; b++ {
			n := 1 + (b+pi)%3
			var recs []krec.Rec
			for i := 0; i < n; i++ {
				k, err := poolKey(pi, off).Bytes()
				if err != nil {
					return nil, err
				}
				v, err := poolValue(pi, off).Bytes()
				if err != nil {
					return nil, err
				}
				recs = append(recs, krec.Rec{Offset: off, TsMs: 1_600_000_000_000 + off, Key: k, Value: v})
				off++
			}
			bases = append(bases, recs[0].Offset)
			codec := krec.None // case codec < 0: every partition uncompressed
			if c.Codec >= 0 {
				codec = codecs[(pi+c.Codec)%len(codecs)]
			}
			bytes := krec.SimpleV2(recs, codec)
			cl.Lock()
			p.AppendBatch(fakekafka.PBatch{Base: recs[0].Offset, Last: recs[n-1].Offset, Records: recs, Bytes: bytes, Magic: 2})
			cl.Unlock()
			sets = append(sets, bytes)
		}
		pl.bases = append(pl.bases, bases)
		pl.hw = append(pl.hw, off)
		pl.sets = append(pl.sets, sets)
	}
	return pl, nil
}

type held struct {
	part  int
	off   int64
	field string
	b     kafka.Bytes
	epoch int // decodes done by the goroutine when the handle was taken
}

func runPool(c *Case) *Line {
	l := newLine(c)
	if c.Parts <= 0 || c.NBatch <= 0 || c.G <= 0 {
		l.Harness = "case: pool needs parts, nbatch, g"
		return l
	}
	net, cl, _ := newCluster(0, 0)
	pl, err := buildPool(c, cl)
	if err != nil {
		l.Harness = "case: " + err.Error()
		return l
	}
	tr := &kafka.Transport{Dial: net.DialContext}
	defer tr.CloseIdleConnections()
	client := &kafka.Client{Addr: kafka.TCP("b1:9092"), Transport: tr, Timeout: 20 * time.Second}

	var mu sync.Mutex
	res := PoolRes{G: c.G, Samples: []PoolOb{}}
	goodSamples := 0
	observe := func(part int, off int64, field string, got []byte, late bool) {
		var want Sym
		if field == "key" {
			want = poolKey(part, off)
		} else {
			want = poolValue(part, off)
		}
		d := Describe(got)
		ok := symEq(d, want)
		mu.Lock()
		res.Verified++
		if late {
			res.Held++
		}
		if !ok {
			res.Bad++
			if res.Bad <= 20 {
				res.Samples = append(res.Samples, PoolOb{Off: off, Part: part, Field: field, Got: d, Late: late})
			}
		} else if late && goodSamples < 40 && (res.Verified%97 == 0 || goodSamples < 8) {
			goodSamples++
			res.Samples = append(res.Samples, PoolOb{Off: off, Part: part, Field: field, Got: d, Late: late})
		}
		mu.Unlock()
	}
	fail := func(err error) {
		mu.Lock()
		defer mu.Unlock()
		if isTimeout(err.Error()) {
			res.NetErrors++ // the fetch is simply repeated later with another offset
			return
		}
		res.Errors++
		if res.ErrText == "" {
			res.ErrText = errText(err)
		}
	}

	var wg sync.WaitGroup
	for g := 0; g < c.G; g++ {
		wg.Add(1)
		go func(g int) {
			defer wg.Done()
			defer func() {
				if p := recover(); p != nil {
					fail(fmt.Errorf("panic: %v", p))
				}
			}()
			rng := rand.New(rand.NewSource(c.Seed*7919 + int64(g)))
			var fifo []held
			release := func(h held, epoch int) {
				b, err := kafka.ReadAll(h.b)
				if err != nil {
					fail(fmt.Errorf("reading a held %s of offset %d: %w", h.field, h.off, err))
				}
				observe(h.part, h.off, h.field, b, epoch > h.epoch)
				h.b.Close()
				if rng.Intn(4) == 0 {
					h.b.Close() // Close is idempotent
					mu.Lock()
					res.Double++
					mu.Unlock()
				}
			}
			for d := 0; d < c.Decodes; d++ {
				part := rng.Intn(c.Parts)
				bi := rng.Intn(len(pl.bases[part]))
				from := pl.bases[part][bi]
				maxBytes := []int{1, 300 << 10, 2 << 20}[rng.Intn(3)]
				var records kafka.RecordReader
				if c.Path == "direct" {
					// the same decoder, fed from memory: 4-byte size then the batches
					var buf bytes.Buffer
					n := 0
					for j := bi; j < len(pl.sets[part]) && (j == bi || n+len(pl.sets[part][j]) <= maxBytes); j++ {
						n += len(pl.sets[part][j])
					}
					var sz [4]byte
					binary.BigEndian.PutUint32(sz[:], uint32(n))
					buf.Write(sz[:])
					for j, m := bi, 0; m < n; j++ {
						buf.Write(pl.sets[part][j])
						m += len(pl.sets[part][j])
					}
					var rs protocol.RecordSet
					if _, err := rs.ReadFrom(bufio.NewReader(&buf)); err != nil {
						fail(err)
						continue
					}
					records = rs.Records
					if records == nil {
						continue
					}
				} else {
					ctx, cancel := context.WithTimeout(context.Background(), 20*time.Second)
					fr, err := client.Fetch(ctx, &kafka.FetchRequest{Topic: poolTopic, Partition: part, Offset: from, MinBytes: 1,
						MaxBytes: int64(maxBytes), MaxWait: 100 * time.Millisecond})
					cancel()
					if err != nil {
						fail(err)
						continue
					}
					if fr.Error != nil {
						fail(fr.Error)
						continue
					}
					records = fr.Records
				}
				mu.Lock()
				res.Decodes++
				mu.Unlock()
				stopAfter := -1
				if rng.Intn(8) == 0 {
					stopAfter = rng.Intn(3) // abandon the rest of this response unread
				}
				for i := 0; ; i++ {
					if i == stopAfter {
						break
					}
					rec, err := records.ReadRecord()
					if err != nil {
						if !errors.Is(err, io.EOF) {
							fail(err)
						}
						break
					}
					mu.Lock()
					res.Records++
					mu.Unlock()
					off := rec.Offset
					if off < from || off >= pl.hw[part] {
						fail(fmt.Errorf("record with offset %d in a response for offset %d", off, from))
					}
					hold := rng.Intn(3) == 0
					for _, f := range []struct {
						name string
						b    kafka.Bytes
					}{{"key", rec.Key}, {"value", rec.Value}} {
						if f.b == nil {
							observe(part, off, f.name, nil, false)
							continue
						}
						if hold {
							fifo = append(fifo, held{part: part, off: off, field: f.name, b: f.b, epoch: d})
							continue
						}
						b, err := kafka.ReadAll(f.b)
						if err != nil {
							fail(err)
						}
						observe(part, off, f.name, b, false)
						f.b.Close()
					}
				}
				mu.Lock()
				if len(fifo) > res.MaxHeld {
					res.MaxHeld = len(fifo)
				}
				mu.Unlock()
				for len(fifo) > c.Hold {
					k := 0
					if rng.Intn(2) == 0 {
						k = rng.Intn(len(fifo))
					}
					h := fifo[k]
					fifo = append(fifo[:k], fifo[k+1:]...)
					release(h, d)
				}
			}
			for _, h := range fifo {
				release(h, c.Decodes+1)
			}
		}(g)
	}
	wg.Wait()
	if res.NetErrors > c.G*c.Decodes/4 {
		l.Harness = fmt.Sprintf("machine too loaded: %d of %d fetches timed out", res.NetErrors, c.G*c.Decodes)
	}
	l.Pool = res
	return l
}
