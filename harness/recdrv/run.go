//go:build verif

package recdrv

import (
	"bufio"
	"encoding/json"
	"fmt"
	"io"
	"os"
	"strings"
	"sync"
	"time"
)

// isTimeout recognises errors that machine load alone can produce.
func isTimeout(s string) bool {
	for _, w := range []string{"i/o timeout", "deadline exceeded", "timeout:", "hang:", "Request Timed Out"} {
		if strings.Contains(s, w) {
			return true
		}
	}
	return false
}

// RunCase executes one case and returns its line. A case whose library call timed out is run a
// second time with deadlines three times as long; what that attempt shows is what is judged.
func RunCase(c *Case) *Line {
	l := runOnce(c)
	if c.Dir != "pool" && isTimeout(l.Err) {
		c2 := *c
		c2.slow = 3
		l = runOnce(&c2)
		l.Retried = true
	}
	return l
}

func runOnce(c *Case) *Line {
	done := make(chan *Line, 1)
	go func() {
		var l *Line
		defer func() {
			if p := recover(); p != nil {
				l = newLine(c)
				l.Harness = fmt.Sprintf("driver panic: %v", p)
			}
			done <- l
		}()
		switch c.Dir {
		case "produce":
			l = runProduce(c)
		case "fetch":
			l = runFetch(c)
		case "pool":
			l = runPool(c)
		default:
			l = newLine(c)
			l.Harness = "unknown direction " + c.Dir
		}
	}()
	limit := c.wait(60 * time.Second)
	if c.Dir == "pool" {
		limit = 30 * time.Minute
	}
	var l *Line
	select {
	case l = <-done:
	case <-time.After(limit):
		l = newLine(c)
		l.Err = "hang: the call did not return within " + limit.String()
	}
	normalize(l)
	return l
}

// normalize replaces nil slices by empty ones (JSON null has no TLA+ counterpart).
func normalize(l *Line) {
	fixH := func(h *[]HdrSym) {
		if *h == nil {
			*h = []HdrSym{}
		}
		for i := range *h {
			fixSym(&(*h)[i].K)
			fixSym(&(*h)[i].V)
		}
	}
	fixRef := func(rs *[]RefRec) {
		if *rs == nil {
			*rs = []RefRec{}
		}
		for i := range *rs {
			fixSym(&(*rs)[i].Key)
			fixSym(&(*rs)[i].Value)
			fixH(&(*rs)[i].Headers)
		}
	}
	if l.Tags == nil {
		l.Tags = []string{}
	}
	if l.In == nil {
		l.In = []RecIn{}
	}
	for i := range l.In {
		fixSym(&l.In[i].Key)
		fixSym(&l.In[i].Value)
		fixH(&l.In[i].Headers)
	}
	fixRef(&l.Got)
	fixRef(&l.Wire.Decoded)
	if l.Log == nil {
		l.Log = []BatchIn{}
	}
	for i := range l.Log {
		fixRef(&l.Log[i].Recs)
	}
	var fixE func(es *[]WireEntry)
	fixE = func(es *[]WireEntry) {
		if *es == nil {
			*es = []WireEntry{}
		}
		for i := range *es {
			e := &(*es)[i]
			fixSym(&e.Key)
			fixSym(&e.Value)
			if e.Records == nil {
				e.Records = []WireRec{}
			}
			for j := range e.Records {
				fixSym(&e.Records[j].Key)
				fixSym(&e.Records[j].Value)
				fixH(&e.Records[j].Headers)
			}
			fixE(&e.Inner)
		}
	}
	fixE(&l.Wire.Entries)
	if l.Pool.Samples == nil {
		l.Pool.Samples = []PoolOb{}
	}
	for i := range l.Pool.Samples {
		fixSym(&l.Pool.Samples[i].Got)
	}
}

func fixSym(s *Sym) {
	if s.K == "" {
		s.K = "null"
	}
	if s.B == nil {
		s.B = []int{}
	}
}

// ReadCases reads an ndjson file of cases.
func ReadCases(path string) ([]*Case, error) {
	f, err := os.Open(path)
	if err != nil {
		return nil, err
	}
	defer f.Close()
	var out []*Case
	sc := bufio.NewScanner(f)
	sc.Buffer(make([]byte, 1<<20), 1<<28)
	for sc.Scan() {
		if len(sc.Bytes()) == 0 {
			continue
		}
		c := new(Case)
		if err := json.Unmarshal(sc.Bytes(), c); err != nil {
			return nil, fmt.Errorf("bad case: %w", err)
		}
		out = append(out, c)
	}
	return out, sc.Err()
}

// RunAll executes the cases with the given parallelism (pool cases run alone, after the others)
// and writes one line per case, in case order.
func RunAll(cases []*Case, par int, w io.Writer) error {
	lines := make([]*Line, len(cases))
	sem := make(chan struct{}, par)
	var wg sync.WaitGroup
	for i, c := range cases {
		if c.Dir == "pool" {
			continue
		}
		wg.Add(1)
		sem <- struct{}{}
		go func(i int, c *Case) {
			defer wg.Done()
			defer func() { <-sem }()
			lines[i] = RunCase(c)
		}(i, c)
	}
	wg.Wait()
	for i, c := range cases {
		if c.Dir == "pool" {
			lines[i] = RunCase(c)
		}
	}
	bw := bufio.NewWriterSize(w, 1<<20)
	for _, l := range lines {
		b, err := json.Marshal(l)
		if err != nil {
			return err
		}
		bw.Write(b)
		bw.WriteByte('\n')
	}
	return bw.Flush()
}
