//go:build verif

package recdrv

import (
	"fmt"
	"time"

	kafka "github.com/segmentio/kafka-go"

	"verifharness/krec"
)

// --- cases (written by lib/engines/records.py) -------------------------------------------------

// TsIn is the time of a record handed to the library: zero time, or origin second + S seconds + Ns nanoseconds.
type TsIn struct {
	Zero bool  `json:"zero"`
	S    int64 `json:"s"`
	Ns   int64 `json:"ns"`
}

type HdrSym struct {
	K Sym `json:"k"`
	V Sym `json:"v"`
}

type RecIn struct {
	Ts      TsIn     `json:"ts"`
	Key     Sym      `json:"key"`
	Value   Sym      `json:"value"`
	Headers []HdrSym `json:"headers"`
}

// RefRec is a record of the reference log (fetch direction) or a record returned by the library.
type RefRec struct {
	Off     int64    `json:"off"` // relative to the case's origin offset
	Ts      Limb     `json:"ts"`  // milliseconds relative to the origin second
	HasTs   bool     `json:"hasTs"`
	Key     Sym      `json:"key"`
	Value   Sym      `json:"value"`
	Headers []HdrSym `json:"headers"`
}

type BatchIn struct {
	Fmt     int      `json:"fmt"`     // 0, 1, 2
	Codec   int      `json:"codec"`   // 0..4
	Wrap    bool     `json:"wrap"`    // fmt 0/1: one compressed wrapper message
	Control bool     `json:"control"` // fmt 2: control batch
	Corrupt bool     `json:"corrupt"` // checksum does not match
	Base    int64    `json:"base"`    // fmt 2: base offset (<= first record), relative
	Last    int64    `json:"last"`    // last offset covered by the batch (>= last record), relative
	Recs    []RefRec `json:"recs"`
}

type Case struct {
	ID     string   `json:"id"`
	Dir    string   `json:"dir"`  // produce fetch pool
	Path   string   `json:"path"` // produce: client writer conn; fetch: client conn reader; pool: client direct
	PV     int      `json:"pv"`   // produce: highest Produce version the cluster advertises
	FV     int      `json:"fv"`   // fetch: highest Fetch version the cluster advertises
	Fmt    int      `json:"fmt"`
	Codec  int      `json:"codec"`
	T0     int64    `json:"t0"`     // origin second of all timestamps
	Origin int64    `json:"origin"` // origin of all offsets
	From   int64    `json:"from"`   // fetch: requested offset, relative
	Tags   []string `json:"tags"`

	Recs    []RecIn   `json:"recs"`    // produce
	Batches []BatchIn `json:"batches"` // fetch

	// pool
	G       int   `json:"g"`
	Decodes int   `json:"decodes"`
	Hold    int   `json:"hold"`
	Parts   int   `json:"parts"`
	NBatch  int   `json:"nbatch"`
	Seed    int64 `json:"seed"`

	slow int // deadline multiplier (second attempt after a time-out)
}

// --- lines (read by spec/records/RecordsCheck.tla) ----------------------------------------------

type CrcDesc struct {
	Poly string `json:"poly"`
	From int    `json:"from"`
	To   int    `json:"to"`
	OK   bool   `json:"ok"`
}

type WireRec struct {
	LenField  int64    `json:"lenField"`
	LenActual int      `json:"lenActual"`
	Attrs     int      `json:"attrs"`
	TsDelta   Limb     `json:"tsDelta"`
	OffDelta  int64    `json:"offDelta"`
	Key       Sym      `json:"key"`
	Value     Sym      `json:"value"`
	Headers   []HdrSym `json:"headers"`
}

type WireEntry struct {
	Magic         int         `json:"magic"`
	Off           int64       `json:"off"`
	SizeField     int         `json:"sizeField"`
	Consumed      int         `json:"consumed"`
	Crc           CrcDesc     `json:"crc"`
	Attrs         int         `json:"attrs"`
	Codec         int         `json:"codec"`
	LastDelta     int64       `json:"lastDelta"`
	FirstTs       Limb        `json:"firstTs"`
	MaxTs         Limb        `json:"maxTs"`
	Pid           int64       `json:"pid"`
	Pepoch        int         `json:"pepoch"`
	Bseq          int64       `json:"bseq"`
	Count         int64       `json:"count"`
	PayloadLen    int         `json:"payloadLen"`
	RawLen        int         `json:"rawLen"`
	RecBytes      int         `json:"recBytes"`
	Records       []WireRec   `json:"records"`
	Ts            Limb        `json:"ts"`
	Key           Sym         `json:"key"`
	Value         Sym         `json:"value"`
	Inner         []WireEntry `json:"inner"`
	InnerTrailing int         `json:"innerTrailing"`
}

type Wire struct {
	Requests  int         `json:"requests"`  // produce requests captured
	DecodeErr string      `json:"decodeErr"` // "" when the structural parser and krec.DecodeSet both got through
	Trailing  int         `json:"trailing"`  // bytes after the last whole entry
	Entries   []WireEntry `json:"entries"`
	// records as reconstructed by krec.DecodeSet (cross-check of the flattening done in TLA+)
	Decoded []RefRec `json:"decoded"`
}

type Line struct {
	ID      string   `json:"id"`
	Dir     string   `json:"dir"`
	Path    string   `json:"path"`
	PV      int      `json:"pv"`
	FV      int      `json:"fv"`
	Fmt     int      `json:"fmt"`
	Codec   int      `json:"codec"`
	Tags    []string `json:"tags"`
	Err     string   `json:"err"`     // error returned by the library ("" none)
	Harness string   `json:"harness"` // driver-side problem: the line is not a verdict about the code
	Retried bool     `json:"retried"` // the first attempt timed out; this is the second one with deadlines three times as long

	// produce
	In   []RecIn `json:"in"`
	Win  [2]Limb `json:"win"` // wall-clock window of the call (for records handed over with the zero time)
	Wire Wire    `json:"wire"`

	// fetch
	From int64     `json:"from"`
	Log  []BatchIn `json:"log"`
	Got  []RefRec  `json:"got"`
	HW   int64     `json:"hw"`

	// pool
	Pool PoolRes `json:"pool"`
}

type PoolRes struct {
	G         int      `json:"g"`
	Decodes   int      `json:"decodes"`   // fetch responses decoded
	Records   int      `json:"records"`   // records seen
	Held      int      `json:"held"`      // key/value handles read only after later decodes
	MaxHeld   int      `json:"maxHeld"`   // handles outstanding at once (maximum over goroutines)
	Verified  int      `json:"verified"`  // byte strings compared with the pattern of their offset
	Bad       int      `json:"bad"`       // of which different
	Errors    int      `json:"errors"`    // decoding / reading errors
	NetErrors int      `json:"netErrors"` // fetches that timed out (machine load); repeated, never judged
	ErrText   string   `json:"errText"`
	Double    int      `json:"double"`  // handles closed twice
	Samples   []PoolOb `json:"samples"` // every bad observation (first 20) and a sample of good ones
}

// PoolOb is one observed key or value of the pool run with the offset it belongs to.
type PoolOb struct {
	Off   int64  `json:"off"`
	Part  int    `json:"part"`
	Field string `json:"field"` // key value
	Got   Sym    `json:"got"`
	Late  bool   `json:"late"` // read after at least one later decode on the same goroutine
}

// --- helpers ---------------------------------------------------------------------------------------

func (t TsIn) Time(t0 int64) time.Time {
	if t.Zero {
		return time.Time{}
	}
	return time.Unix(t0+t.S, t.Ns)
}

func hdrsToKafka(hs []HdrSym) ([]kafka.Header, error) {
	if len(hs) == 0 {
		return nil, nil
	}
	out := make([]kafka.Header, len(hs))
	for i, h := range hs {
		k, err := h.K.Bytes()
		if err != nil {
			return nil, err
		}
		v, err := h.V.Bytes()
		if err != nil {
			return nil, err
		}
		out[i] = kafka.Header{Key: string(k), Value: v}
	}
	return out, nil
}

func hdrsToKrec(hs []HdrSym) ([]krec.Hdr, error) {
	var out []krec.Hdr
	for _, h := range hs {
		k, err := h.K.Bytes()
		if err != nil {
			return nil, err
		}
		v, err := h.V.Bytes()
		if err != nil {
			return nil, err
		}
		out = append(out, krec.Hdr{Key: string(k), Value: v})
	}
	return out, nil
}

func describeKafkaHdrs(hs []kafka.Header) []HdrSym {
	out := make([]HdrSym, 0, len(hs))
	for _, h := range hs {
		out = append(out, HdrSym{K: Describe([]byte(h.Key)), V: Describe(h.Value)})
	}
	return out
}

func describeKrecHdrs(hs []krec.Hdr) []HdrSym {
	out := make([]HdrSym, 0, len(hs))
	for _, h := range hs {
		out = append(out, HdrSym{K: Describe([]byte(h.Key)), V: Describe(h.Value)})
	}
	return out
}

func errText(err error) string {
	if err == nil {
		return ""
	}
	s := err.Error()
	if s == "" {
		s = fmt.Sprintf("%T", err)
	}
	if len(s) > 300 {
		s = s[:300]
	}
	return s
}

// wait scales a deadline for the second attempt of a case.
func (c *Case) wait(d time.Duration) time.Duration {
	if c.slow > 1 {
		return d * time.Duration(c.slow)
	}
	return d
}

func newLine(c *Case) *Line {
	l := &Line{ID: c.ID, Dir: c.Dir, Path: c.Path, PV: c.PV, FV: c.FV, Fmt: c.Fmt, Codec: c.Codec, Tags: c.Tags,
		In: []RecIn{}, Log: []BatchIn{}, Got: []RefRec{}, From: c.From}
	if l.Tags == nil {
		l.Tags = []string{}
	}
	l.Wire.Entries = []WireEntry{}
	l.Wire.Decoded = []RefRec{}
	l.Pool.Samples = []PoolOb{}
	return l
}
