//go:build verif

// Package recdrv is the driver of engine "records" (C05): it hands abstract
// record lists to kafka-go's writers and describes what reached the wire
// (produce direction), serves reference-encoded batch sequences from the fake
// cluster and describes what kafka-go's readers return (fetch direction), and
// stresses the page pool with concurrent decodes. It never judges: every line
// it writes is evaluated by spec/records/RecordsCheck.tla.
package recdrv

import (
	"crypto/sha256"
	"encoding/binary"
	"encoding/hex"
	"fmt"
)

// Sym is a symbolic byte string as used in spec/records/Records.tla:
//
//	null          the protocol's null
//	lit  b        the bytes b (at most LitMax of them)
//	rep  c n      n times the byte c             (n > LitMax)
//	pat  s n      the pseudo-random string Pat(s, n) (n > LitMax), self-describing: it starts with s
//	raw  h n      anything else: length and a hash (never generated, only ever observed)
//
// All fields are always present so that the TLA+ side can read any of them.
type Sym struct {
	K string `json:"k"`
	N int    `json:"n"`
	B []int  `json:"b"`
	C int    `json:"c"`
	S int    `json:"s"`
	H string `json:"h"`
}

const LitMax = 24

func Null() Sym { return Sym{K: "null", B: []int{}} }

// PatBytes is the self-describing pseudo-random string of length n for seed s (n >= 4).
func PatBytes(s uint32, n int) []byte {
	out := make([]byte, n)
	fillPat(out, s)
	return out
}

func fillPat(out []byte, s uint32) {
	var hd [4]byte
	binary.BigEndian.PutUint32(hd[:], s)
	copy(out, hd[:])
	x := s*2654435761 + 0x9e3779b9
	if x == 0 {
		x = 1
	}
	for i := 4; i < len(out); i++ {
		// xorshift32; one byte per step keeps the string incompressible enough to cross codec block sizes
		x ^= x << 13
		x ^= x >> 17
		x ^= x << 5
		out[i] = byte(x >> 11)
	}
}

// Bytes materialises a generated symbolic string (nil for null).
func (s Sym) Bytes() ([]byte, error) {
	switch s.K {
	case "null":
		return nil, nil
	case "lit":
		out := make([]byte, len(s.B))
		for i, v := range s.B {
			out[i] = byte(v)
		}
		return out, nil
	case "rep":
		out := make([]byte, s.N)
		for i := range out {
			out[i] = byte(s.C)
		}
		return out, nil
	case "pat":
		if s.N < 4 {
			return nil, fmt.Errorf("pat shorter than its seed")
		}
		return PatBytes(uint32(s.S), s.N), nil
	}
	return nil, fmt.Errorf("cannot materialise symbolic string of kind %q", s.K)
}

// Describe is the canonical symbolic form of observed bytes (nil: null). Two byte
// strings are equal iff their descriptions are equal (up to hash collisions of "raw").
func Describe(b []byte) Sym {
	if b == nil {
		return Null()
	}
	n := len(b)
	if n <= LitMax {
		s := Sym{K: "lit", N: n, B: make([]int, n)}
		for i, v := range b {
			s.B[i] = int(v)
		}
		return s
	}
	same := true
	for _, v := range b {
		if v != b[0] {
			same = false
			break
		}
	}
	if same {
		return Sym{K: "rep", N: n, C: int(b[0]), B: []int{}}
	}
	seed := binary.BigEndian.Uint32(b[:4])
	if seed < 1<<30 && isPat(b, seed) {
		return Sym{K: "pat", N: n, S: int(seed), B: []int{}}
	}
	h := sha256.Sum256(b)
	return Sym{K: "raw", N: n, H: hex.EncodeToString(h[:8]), B: []int{}}
}

func isPat(b []byte, seed uint32) bool {
	x := seed*2654435761 + 0x9e3779b9
	if x == 0 {
		x = 1
	}
	for i := 4; i < len(b); i++ {
		x ^= x << 13
		x ^= x >> 17
		x ^= x << 5
		if b[i] != byte(x>>11) {
			return false
		}
	}
	return true
}

// Limb is a millisecond quantity split so that both parts fit TLC's 32-bit integers:
// value = S*1000 + M with 0 <= M < 1000 (floor division, so negative values have S < 0).
type Limb struct {
	S int64 `json:"s"`
	M int64 `json:"m"`
}

const limbOut = 2000000000 // |S| beyond TLC's range is reported as this sentinel (equal to no generated value)

func limbOf(ms int64) Limb {
	s := ms / 1000
	m := ms % 1000
	if m < 0 {
		m += 1000
		s--
	}
	if s > limbOut || s < -limbOut {
		return Limb{S: limbOut, M: 0}
	}
	return Limb{S: s, M: m}
}

// relTs is an absolute millisecond timestamp relative to the case's origin second.
func relTs(ms int64, t0 int64) Limb {
	l := limbOf(ms)
	if l.S == limbOut {
		return l
	}
	l.S -= t0
	if l.S > limbOut || l.S < -limbOut {
		return Limb{S: limbOut, M: 0}
	}
	return l
}

// relOff is an absolute offset relative to the case's origin offset.
func relOff(off, origin int64) int64 {
	d := off - origin
	if d > limbOut || d < -limbOut || (off >= 0 && origin < 0 && d < 0) {
		return limbOut
	}
	return d
}

func clampInt(v int64) int64 {
	if v > limbOut || v < -limbOut {
		return limbOut
	}
	return v
}
