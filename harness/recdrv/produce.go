//go:build verif

package recdrv

import (
	"context"
	"fmt"
	"sync"
	"time"

	kafka "github.com/segmentio/kafka-go"

	"verifharness/fakekafka"
	"verifharness/fakenet"
	"verifharness/krec"
	"verifharness/kwire"
)

const topic = "t"

func newCluster(pv, fv int) (*fakenet.Net, *fakekafka.Cluster, *fakekafka.Partition) {
	n := fakenet.NewNet()
	cl := fakekafka.NewCluster(n, 1)
	vs := fakekafka.DefaultVersions()
	if pv > 0 {
		vs[fakekafka.Produce] = fakekafka.VersionRange{Min: 0, Max: int16(pv)}
	}
	if fv > 0 {
		vs[fakekafka.Fetch] = fakekafka.VersionRange{Min: 0, Max: int16(fv)}
	}
	cl.Versions = vs
	t := cl.AddTopic(topic, 1)
	p := t.Partitions[0]
	p.Leader, p.Replicas, p.ISR = 1, []int{1}, []int{1}
	return n, cl, p
}

// produceSets extracts the record-set bytes of every (topic, partition) entry of a produce request.
func produceSets(req *fakekafka.Request) [][]byte {
	r := kwire.R{B: req.Body}
	if req.Version >= 3 {
		r.NStr()
	}
	r.I16()
	r.I32()
	var out [][]byte
	nt := r.ArrayLen()
	for i := 0; i < nt && r.Err == nil; i++ {
		r.Str()
		np := r.ArrayLen()
		for j := 0; j < np && r.Err == nil; j++ {
			r.I32()
			set := r.Bytes()
			if set == nil {
				set = []byte{}
			}
			out = append(out, set)
		}
	}
	return out
}

type capture struct {
	mu   sync.Mutex
	sets [][]byte
	vers []int
}

func (c *capture) install(cl *fakekafka.Cluster) {
	cl.Intercept = func(req *fakekafka.Request) *fakekafka.Reply {
		if req.ApiKey == fakekafka.Produce {
			sets := produceSets(req)
			c.mu.Lock()
			c.sets = append(c.sets, sets...)
			for range sets {
				c.vers = append(c.vers, int(req.Version))
			}
			c.mu.Unlock()
		}
		return nil
	}
}

func runProduce(c *Case) *Line {
	l := newLine(c)
	l.In = c.Recs
	if l.In == nil {
		l.In = []RecIn{}
	}
	net, cl, _ := newCluster(c.PV, 0)
	var capt capture
	capt.install(cl)

	type kv struct{ k, v []byte }
	var mats []kv
	var msgs []kafka.Message
	var recs []kafka.Record
	for _, r := range c.Recs {
		k, err := r.Key.Bytes()
		if err != nil {
			l.Harness = "case: " + err.Error()
			return l
		}
		v, err := r.Value.Bytes()
		if err != nil {
			l.Harness = "case: " + err.Error()
			return l
		}
		hs, err := hdrsToKafka(r.Headers)
		if err != nil {
			l.Harness = "case: " + err.Error()
			return l
		}
		mats = append(mats, kv{k, v})
		msgs = append(msgs, kafka.Message{Key: k, Value: v, Headers: hs, Time: r.Ts.Time(c.T0)})
		recs = append(recs, kafka.Record{Key: kafka.NewBytes(k), Value: kafka.NewBytes(v), Headers: hs, Time: r.Ts.Time(c.T0)})
	}
	_ = mats

	ctx, cancel := context.WithTimeout(context.Background(), c.wait(20*time.Second))
	defer cancel()
	before := time.Now()
	var err error
	func() {
		defer func() {
			if p := recover(); p != nil {
				err = fmt.Errorf("panic: %v", p)
			}
		}()
		switch c.Path {
		case "client":
			tr := &kafka.Transport{Dial: net.DialContext}
			defer tr.CloseIdleConnections()
			client := &kafka.Client{Addr: kafka.TCP("b1:9092"), Transport: tr, Timeout: c.wait(4 * time.Second)}
			var res *kafka.ProduceResponse
			res, err = client.Produce(ctx, &kafka.ProduceRequest{Topic: topic, Partition: 0, RequiredAcks: kafka.RequireAll,
				Compression: kafka.Compression(c.Codec), Records: kafka.NewRecordReader(recs...)})
			if err == nil && res != nil && res.Error != nil {
				err = res.Error
			}
		case "writer":
			tr := &kafka.Transport{Dial: net.DialContext}
			defer tr.CloseIdleConnections()
			bs := len(msgs)
			if bs < 1 {
				bs = 1
			}
			w := &kafka.Writer{Addr: kafka.TCP("b1:9092"), Topic: topic, Transport: tr, Compression: kafka.Compression(c.Codec),
				BatchSize: bs, BatchBytes: 64 << 20, BatchTimeout: 5 * time.Millisecond, RequiredAcks: kafka.RequireAll,
				Balancer: &kafka.RoundRobin{}, MaxAttempts: 1, WriteTimeout: c.wait(4 * time.Second), ReadTimeout: c.wait(4 * time.Second)}
			err = w.WriteMessages(ctx, msgs...)
			if cerr := w.Close(); err == nil {
				err = cerr
			}
		case "conn":
			nc, derr := net.DialContext(ctx, "tcp", "b1:9092")
			if derr != nil {
				err = derr
				return
			}
			conn := kafka.NewConnWith(nc, kafka.ConnConfig{ClientID: "vh", Topic: topic, Partition: 0})
			defer conn.Close()
			conn.SetDeadline(time.Now().Add(c.wait(4 * time.Second)))
			_, err = conn.WriteCompressedMessages(kafka.Compression(c.Codec).Codec(), msgs...)
		default:
			err = fmt.Errorf("unknown produce path %q", c.Path)
			l.Harness = err.Error()
		}
	}()
	after := time.Now()
	l.Err = errText(err)
	l.Win = [2]Limb{relTs(before.UnixMilli(), c.T0), relTs(after.UnixMilli(), c.T0)}

	capt.mu.Lock()
	sets := capt.sets
	capt.mu.Unlock()
	l.Wire = describeSets(sets, c)
	return l
}

// describeSets turns captured record sets into the structural description judged by the specification.
func describeSets(sets [][]byte, c *Case) Wire {
	w := Wire{Requests: len(sets), Entries: []WireEntry{}, Decoded: []RefRec{}}
	for _, set := range sets {
		entries, trailing, err := krec.ParseRaw(set)
		w.Trailing += trailing
		for _, e := range entries {
			w.Entries = append(w.Entries, describeEntry(e, c))
		}
		if err != nil && w.DecodeErr == "" {
			w.DecodeErr = err.Error()
		}
		batches, derr := krec.DecodeSet(set)
		if derr != nil && w.DecodeErr == "" {
			w.DecodeErr = derr.Error()
		}
		for _, b := range batches {
			for i, r := range b.Records {
				// offsets of a produce request are only meaningful relative to the first record of their batch
				w.Decoded = append(w.Decoded, RefRec{Off: clampInt(r.Offset - b.Records[0].Offset), Ts: relTs(r.TsMs, c.T0), HasTs: b.Magic >= 1,
					Key: Describe(r.Key), Value: Describe(r.Value), Headers: describeKrecHdrs(r.Headers)})
				_ = i
			}
		}
	}
	return w
}

func describeEntry(e krec.RawEntry, c *Case) WireEntry {
	out := WireEntry{Magic: int(e.Magic), Off: clampInt(e.Offset), SizeField: int(e.SizeField), Consumed: e.Consumed,
		Crc:   CrcDesc{Poly: e.CRCPoly, From: e.CRCFrom, To: e.CRCTo, OK: e.CRCOK},
		Attrs: int(e.Attrs), Codec: e.Codec, LastDelta: int64(e.LastOffsetDelta), FirstTs: relTs(e.FirstTs, c.T0), MaxTs: relTs(e.MaxTs, c.T0),
		Pid: clampInt(e.ProducerID), Pepoch: int(e.ProducerEpoch), Bseq: int64(e.BaseSeq), Count: int64(e.Count),
		PayloadLen: e.PayloadLen, RawLen: e.RawLen, RecBytes: e.RecBytes, Records: []WireRec{}, Ts: relTs(e.Ts, c.T0),
		Key: Describe(e.Key), Value: Describe(e.Value), Inner: []WireEntry{}, InnerTrailing: e.InnerTrailing}
	if e.Magic == 2 {
		out.Key, out.Value = Null(), Null()
	}
	for _, r := range e.Records {
		out.Records = append(out.Records, WireRec{LenField: clampInt(r.LenField), LenActual: r.LenActual, Attrs: int(r.Attrs),
			TsDelta: limbOf(r.TsDelta), OffDelta: clampInt(r.OffDelta), Key: Describe(r.Key), Value: Describe(r.Value),
			Headers: describeKrecHdrs(r.Headers)})
	}
	for _, in := range e.Inner {
		out.Inner = append(out.Inner, describeEntry(in, c))
	}
	return out
}
