//go:build verif

package recdrv

import (
	"context"
	"errors"
	"fmt"
	"io"
	"time"

	kafka "github.com/segmentio/kafka-go"

	"verifharness/fakekafka"
	"verifharness/krec"
)

// buildLog encodes the case's batches with the reference encoder and stores them in the partition log.
func buildLog(c *Case, p *fakekafka.Partition) error {
	first := true
	for bi, b := range c.Batches {
		var recs []krec.Rec
		for _, r := range b.Recs {
			k, err := r.Key.Bytes()
			if err != nil {
				return err
			}
			v, err := r.Value.Bytes()
			if err != nil {
				return err
			}
			hs, err := hdrsToKrec(r.Headers)
			if err != nil {
				return err
			}
			ts := int64(-1)
			if r.HasTs {
				ts = (c.T0+r.Ts.S)*1000 + r.Ts.M
			}
			recs = append(recs, krec.Rec{Offset: c.Origin + r.Off, TsMs: ts, Key: k, Value: v, Headers: hs})
		}
		base, last := c.Origin+b.Base, c.Origin+b.Last
		var bytes []byte
		switch {
		case b.Fmt == 2:
			o := krec.V2Opts{Codec: b.Codec, Control: b.Control, BaseOffset: base, LastOffsetDelta: int32(last - base),
				ProducerID: -1, ProducerEpoch: -1, BaseSequence: -1, CorruptCRC: b.Corrupt}
			if len(recs) > 0 {
				o.FirstTsMs, o.MaxTsMs = recs[0].TsMs, recs[0].TsMs
				for _, r := range recs {
					if r.TsMs > o.MaxTsMs {
						o.MaxTsMs = r.TsMs
					}
				}
			}
			bytes = krec.BatchV2(recs, o)
		case b.Fmt == 0 || b.Fmt == 1:
			if len(recs) == 0 {
				return fmt.Errorf("batch %d: a message set needs records", bi)
			}
			if b.Wrap {
				bytes = krec.WrapperV1(int8(b.Fmt), b.Codec, recs)
			} else {
				bytes = krec.SetV01(int8(b.Fmt), recs)
			}
			if b.Corrupt {
				// flip a bit of the stored checksum of the first message (bytes 12..16)
				bytes = append([]byte{}, bytes...)
				bytes[13] ^= 0x5a
			}
		default:
			return fmt.Errorf("batch %d: unknown format %d", bi, b.Fmt)
		}
		if first {
			p.LogStart = base
			if len(recs) > 0 && b.Fmt != 2 {
				p.LogStart = recs[0].Offset
			}
			p.HW = p.LogStart
			first = false
		}
		p.AppendBatch(fakekafka.PBatch{Base: base, Last: last, Records: recs, Bytes: bytes, Magic: int8(b.Fmt), Control: b.Control})
	}
	return nil
}

const fetchMax = 32 << 20

func runFetch(c *Case) *Line {
	l := newLine(c)
	l.Log = c.Batches
	if l.Log == nil {
		l.Log = []BatchIn{}
	}
	net, cl, p := newCluster(0, c.FV)
	cl.Lock()
	err := buildLog(c, p)
	hw := p.HW
	cl.Unlock()
	if err != nil {
		l.Harness = "case: " + err.Error()
		return l
	}
	l.HW = relOff(hw, c.Origin)
	from := c.Origin + c.From
	ctx, cancel := context.WithTimeout(context.Background(), c.wait(30*time.Second))
	defer cancel()

	add := func(off int64, t time.Time, key, value []byte, hs []kafka.Header) {
		l.Got = append(l.Got, RefRec{Off: relOff(off, c.Origin), Ts: relTs(t.UnixMilli(), c.T0), HasTs: true,
			Key: Describe(key), Value: Describe(value), Headers: describeKafkaHdrs(hs)})
	}
	var rerr error
	func() {
		defer func() {
			if pn := recover(); pn != nil {
				rerr = fmt.Errorf("panic: %v", pn)
			}
		}()
		switch c.Path {
		case "client":
			tr := &kafka.Transport{Dial: net.DialContext}
			defer tr.CloseIdleConnections()
			client := &kafka.Client{Addr: kafka.TCP("b1:9092"), Transport: tr, Timeout: c.wait(4 * time.Second)}
			res, err := client.Fetch(ctx, &kafka.FetchRequest{Topic: topic, Partition: 0, Offset: from, MinBytes: 1, MaxBytes: fetchMax,
				MaxWait: 100 * time.Millisecond})
			if err != nil {
				rerr = err
				return
			}
			if res.Error != nil {
				rerr = res.Error
				return
			}
			for {
				rec, err := res.Records.ReadRecord()
				if err != nil {
					if !errors.Is(err, io.EOF) {
						rerr = err
					}
					return
				}
				k, kerr := kafka.ReadAll(rec.Key)
				v, verr := kafka.ReadAll(rec.Value)
				if rec.Key != nil {
					rec.Key.Close()
				}
				if rec.Value != nil {
					rec.Value.Close()
				}
				if kerr != nil || verr != nil {
					rerr = fmt.Errorf("reading key/value: %v %v", kerr, verr)
					return
				}
				add(rec.Offset, rec.Time, k, v, rec.Headers)
			}
		case "conn":
			nc, err := net.DialContext(ctx, "tcp", "b1:9092")
			if err != nil {
				rerr = err
				return
			}
			conn := kafka.NewConnWith(nc, kafka.ConnConfig{ClientID: "vh", Topic: topic, Partition: 0})
			defer conn.Close()
			conn.SetDeadline(time.Now().Add(c.wait(4 * time.Second)))
			if _, err := conn.Seek(from, kafka.SeekAbsolute|kafka.SeekDontCheck); err != nil {
				rerr = err
				return
			}
			next := from
			for rounds := 0; next < hw && rounds < 64; rounds++ {
				b := conn.ReadBatch(1, fetchMax)
				n := 0
				for {
					m, err := b.ReadMessage()
					if err != nil {
						if !errors.Is(err, io.EOF) {
							rerr = err
						}
						break
					}
					add(m.Offset, m.Time, m.Key, m.Value, m.Headers)
					n++
				}
				if cerr := b.Close(); cerr != nil && rerr == nil {
					rerr = cerr
				}
				off, _ := conn.Offset()
				if rerr != nil || (n == 0 && off <= next) {
					break
				}
				next = off
			}
		case "reader":
			r := kafka.NewReader(kafka.ReaderConfig{Brokers: []string{"b1:9092"}, Topic: topic, Partition: 0,
				Dialer: &kafka.Dialer{DialFunc: net.DialContext}, MinBytes: 1, MaxBytes: fetchMax, MaxWait: 50 * time.Millisecond,
				ReadBackoffMin: time.Millisecond, ReadBackoffMax: 5 * time.Millisecond, MaxAttempts: 1})
			defer r.Close()
			if err := r.SetOffset(from); err != nil {
				rerr = err
				return
			}
			next := from
			for next < hw {
				// a record may legitimately be missing (the judge decides); the wait for it is bounded
				mctx, mcancel := context.WithTimeout(ctx, c.wait(3*time.Second))
				m, err := r.FetchMessage(mctx)
				mcancel()
				if err != nil {
					if !errors.Is(err, context.DeadlineExceeded) {
						rerr = err
					} else {
						rerr = fmt.Errorf("timeout: no message at or after offset %d within %v", next, c.wait(3*time.Second))
					}
					return
				}
				add(m.Offset, m.Time, m.Key, m.Value, m.Headers)
				if m.Offset+1 > next {
					next = m.Offset + 1
				} else {
					next++ // no progress in offsets: bounded by hw anyway
				}
			}
		default:
			l.Harness = fmt.Sprintf("unknown fetch path %q", c.Path)
		}
	}()
	l.Err = errText(rerr)
	return l
}
