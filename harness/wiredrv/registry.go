//go:build verif

// Package wiredrv is driver A of engine E7 (properties C04 and C20): it binds the vectors computed by TLC from
// spec/wire/Wire.tla + the schema files to the reflective codec of kafka-go's protocol package.
package wiredrv

import (
	"github.com/segmentio/kafka-go/protocol"
	"github.com/segmentio/kafka-go/protocol/addoffsetstotxn"
	"github.com/segmentio/kafka-go/protocol/addpartitionstotxn"
	"github.com/segmentio/kafka-go/protocol/alterclientquotas"
	"github.com/segmentio/kafka-go/protocol/alterconfigs"
	"github.com/segmentio/kafka-go/protocol/alterpartitionreassignments"
	"github.com/segmentio/kafka-go/protocol/alteruserscramcredentials"
	"github.com/segmentio/kafka-go/protocol/apiversions"
	"github.com/segmentio/kafka-go/protocol/createacls"
	"github.com/segmentio/kafka-go/protocol/createpartitions"
	"github.com/segmentio/kafka-go/protocol/createtopics"
	"github.com/segmentio/kafka-go/protocol/deleteacls"
	"github.com/segmentio/kafka-go/protocol/deletegroups"
	"github.com/segmentio/kafka-go/protocol/deletetopics"
	"github.com/segmentio/kafka-go/protocol/describeacls"
	"github.com/segmentio/kafka-go/protocol/describeclientquotas"
	"github.com/segmentio/kafka-go/protocol/describeconfigs"
	"github.com/segmentio/kafka-go/protocol/describegroups"
	"github.com/segmentio/kafka-go/protocol/describeuserscramcredentials"
	"github.com/segmentio/kafka-go/protocol/electleaders"
	"github.com/segmentio/kafka-go/protocol/endtxn"
	"github.com/segmentio/kafka-go/protocol/fetch"
	"github.com/segmentio/kafka-go/protocol/findcoordinator"
	"github.com/segmentio/kafka-go/protocol/heartbeat"
	"github.com/segmentio/kafka-go/protocol/incrementalalterconfigs"
	"github.com/segmentio/kafka-go/protocol/initproducerid"
	"github.com/segmentio/kafka-go/protocol/joingroup"
	"github.com/segmentio/kafka-go/protocol/leavegroup"
	"github.com/segmentio/kafka-go/protocol/listgroups"
	"github.com/segmentio/kafka-go/protocol/listoffsets"
	"github.com/segmentio/kafka-go/protocol/listpartitionreassignments"
	"github.com/segmentio/kafka-go/protocol/metadata"
	"github.com/segmentio/kafka-go/protocol/offsetcommit"
	"github.com/segmentio/kafka-go/protocol/offsetdelete"
	"github.com/segmentio/kafka-go/protocol/offsetfetch"
	"github.com/segmentio/kafka-go/protocol/produce"
	"github.com/segmentio/kafka-go/protocol/saslauthenticate"
	"github.com/segmentio/kafka-go/protocol/saslhandshake"
	"github.com/segmentio/kafka-go/protocol/syncgroup"
	"github.com/segmentio/kafka-go/protocol/txnoffsetcommit"
)

type apiEntry struct {
	Key protocol.ApiKey
	Req func() protocol.Message
	Res func() protocol.Message
}

// Registry maps the Kafka API name (as in the schema files) to the message types of kafka-go.
var Registry = map[string]apiEntry{
	"AddOffsetsToTxn":              {protocol.AddOffsetsToTxn, func() protocol.Message { return &addoffsetstotxn.Request{} }, func() protocol.Message { return &addoffsetstotxn.Response{} }},
	"AddPartitionsToTxn":           {protocol.AddPartitionsToTxn, func() protocol.Message { return &addpartitionstotxn.Request{} }, func() protocol.Message { return &addpartitionstotxn.Response{} }},
	"AlterClientQuotas":            {protocol.AlterClientQuotas, func() protocol.Message { return &alterclientquotas.Request{} }, func() protocol.Message { return &alterclientquotas.Response{} }},
	"AlterConfigs":                 {protocol.AlterConfigs, func() protocol.Message { return &alterconfigs.Request{} }, func() protocol.Message { return &alterconfigs.Response{} }},
	"AlterPartitionReassignments":  {protocol.AlterPartitionReassignments, func() protocol.Message { return &alterpartitionreassignments.Request{} }, func() protocol.Message { return &alterpartitionreassignments.Response{} }},
	"AlterUserScramCredentials":    {protocol.AlterUserScramCredentials, func() protocol.Message { return &alteruserscramcredentials.Request{} }, func() protocol.Message { return &alteruserscramcredentials.Response{} }},
	"ApiVersions":                  {protocol.ApiVersions, func() protocol.Message { return &apiversions.Request{} }, func() protocol.Message { return &apiversions.Response{} }},
	"CreateAcls":                   {protocol.CreateAcls, func() protocol.Message { return &createacls.Request{} }, func() protocol.Message { return &createacls.Response{} }},
	"CreatePartitions":             {protocol.CreatePartitions, func() protocol.Message { return &createpartitions.Request{} }, func() protocol.Message { return &createpartitions.Response{} }},
	"CreateTopics":                 {protocol.CreateTopics, func() protocol.Message { return &createtopics.Request{} }, func() protocol.Message { return &createtopics.Response{} }},
	"DeleteAcls":                   {protocol.DeleteAcls, func() protocol.Message { return &deleteacls.Request{} }, func() protocol.Message { return &deleteacls.Response{} }},
	"DeleteGroups":                 {protocol.DeleteGroups, func() protocol.Message { return &deletegroups.Request{} }, func() protocol.Message { return &deletegroups.Response{} }},
	"DeleteTopics":                 {protocol.DeleteTopics, func() protocol.Message { return &deletetopics.Request{} }, func() protocol.Message { return &deletetopics.Response{} }},
	"DescribeAcls":                 {protocol.DescribeAcls, func() protocol.Message { return &describeacls.Request{} }, func() protocol.Message { return &describeacls.Response{} }},
	"DescribeClientQuotas":         {protocol.DescribeClientQuotas, func() protocol.Message { return &describeclientquotas.Request{} }, func() protocol.Message { return &describeclientquotas.Response{} }},
	"DescribeConfigs":              {protocol.DescribeConfigs, func() protocol.Message { return &describeconfigs.Request{} }, func() protocol.Message { return &describeconfigs.Response{} }},
	"DescribeGroups":               {protocol.DescribeGroups, func() protocol.Message { return &describegroups.Request{} }, func() protocol.Message { return &describegroups.Response{} }},
	"DescribeUserScramCredentials": {protocol.DescribeUserScramCredentials, func() protocol.Message { return &describeuserscramcredentials.Request{} }, func() protocol.Message { return &describeuserscramcredentials.Response{} }},
	"ElectLeaders":                 {protocol.ElectLeaders, func() protocol.Message { return &electleaders.Request{} }, func() protocol.Message { return &electleaders.Response{} }},
	"EndTxn":                       {protocol.EndTxn, func() protocol.Message { return &endtxn.Request{} }, func() protocol.Message { return &endtxn.Response{} }},
	"Fetch":                        {protocol.Fetch, func() protocol.Message { return &fetch.Request{} }, func() protocol.Message { return &fetch.Response{} }},
	"FindCoordinator":              {protocol.FindCoordinator, func() protocol.Message { return &findcoordinator.Request{} }, func() protocol.Message { return &findcoordinator.Response{} }},
	"Heartbeat":                    {protocol.Heartbeat, func() protocol.Message { return &heartbeat.Request{} }, func() protocol.Message { return &heartbeat.Response{} }},
	"IncrementalAlterConfigs":      {protocol.IncrementalAlterConfigs, func() protocol.Message { return &incrementalalterconfigs.Request{} }, func() protocol.Message { return &incrementalalterconfigs.Response{} }},
	"InitProducerId":               {protocol.InitProducerId, func() protocol.Message { return &initproducerid.Request{} }, func() protocol.Message { return &initproducerid.Response{} }},
	"JoinGroup":                    {protocol.JoinGroup, func() protocol.Message { return &joingroup.Request{} }, func() protocol.Message { return &joingroup.Response{} }},
	"LeaveGroup":                   {protocol.LeaveGroup, func() protocol.Message { return &leavegroup.Request{} }, func() protocol.Message { return &leavegroup.Response{} }},
	"ListGroups":                   {protocol.ListGroups, func() protocol.Message { return &listgroups.Request{} }, func() protocol.Message { return &listgroups.Response{} }},
	"ListOffsets":                  {protocol.ListOffsets, func() protocol.Message { return &listoffsets.Request{} }, func() protocol.Message { return &listoffsets.Response{} }},
	"ListPartitionReassignments":   {protocol.ListPartitionReassignments, func() protocol.Message { return &listpartitionreassignments.Request{} }, func() protocol.Message { return &listpartitionreassignments.Response{} }},
	"Metadata":                     {protocol.Metadata, func() protocol.Message { return &metadata.Request{} }, func() protocol.Message { return &metadata.Response{} }},
	"OffsetCommit":                 {protocol.OffsetCommit, func() protocol.Message { return &offsetcommit.Request{} }, func() protocol.Message { return &offsetcommit.Response{} }},
	"OffsetDelete":                 {protocol.OffsetDelete, func() protocol.Message { return &offsetdelete.Request{} }, func() protocol.Message { return &offsetdelete.Response{} }},
	"OffsetFetch":                  {protocol.OffsetFetch, func() protocol.Message { return &offsetfetch.Request{} }, func() protocol.Message { return &offsetfetch.Response{} }},
	"Produce":                      {protocol.Produce, func() protocol.Message { return &produce.Request{} }, func() protocol.Message { return &produce.Response{} }},
	"SaslAuthenticate":             {protocol.SaslAuthenticate, func() protocol.Message { return &saslauthenticate.Request{} }, func() protocol.Message { return &saslauthenticate.Response{} }},
	"SaslHandshake":                {protocol.SaslHandshake, func() protocol.Message { return &saslhandshake.Request{} }, func() protocol.Message { return &saslhandshake.Response{} }},
	"SyncGroup":                    {protocol.SyncGroup, func() protocol.Message { return &syncgroup.Request{} }, func() protocol.Message { return &syncgroup.Response{} }},
	"TxnOffsetCommit":              {protocol.TxnOffsetCommit, func() protocol.Message { return &txnoffsetcommit.Request{} }, func() protocol.Message { return &txnoffsetcommit.Response{} }},
}
