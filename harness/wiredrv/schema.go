//go:build verif

package wiredrv

import (
	"bufio"
	"encoding/json"
	"os"
)

// Field is one field descriptor of a normalised message definition (see lib/engines/wire.py: normalise()).
type Field struct {
	Name   string  `json:"name"`
	T      string  `json:"t"` // bool int8 int16 uint16 int32 int64 float64 uuid string bytes records struct
	Arr    bool    `json:"arr"`
	Vlo    int     `json:"vlo"`
	Vhi    int     `json:"vhi"`
	Nlo    int     `json:"nlo"`
	Nhi    int     `json:"nhi"`
	Tlo    int     `json:"tlo"`
	Thi    int     `json:"thi"`
	Tag    int     `json:"tag"`
	Fields []Field `json:"fields"`
}

func (f *Field) Active(v int) bool   { return f.Vlo <= v && v <= f.Vhi }
func (f *Field) Nullable(v int) bool { return f.Nlo <= v && v <= f.Nhi }
func (f *Field) Tagged(v int) bool   { return f.Tlo <= v && v <= f.Thi }

type Message struct {
	Name   string  `json:"name"`
	Api    string  `json:"api"`
	ApiKey int     `json:"apiKey"`
	Kind   string  `json:"kind"`
	Lo     int     `json:"lo"`
	Hi     int     `json:"hi"`
	Flo    int     `json:"flo"`
	Fhi    int     `json:"fhi"`
	Fields []Field `json:"fields"`
}

func LoadSchemas(path string) (map[string]*Message, error) {
	f, err := os.Open(path)
	if err != nil {
		return nil, err
	}
	defer f.Close()
	out := map[string]*Message{}
	sc := bufio.NewScanner(f)
	sc.Buffer(make([]byte, 1<<20), 1<<28)
	for sc.Scan() {
		if len(sc.Bytes()) == 0 {
			continue
		}
		m := new(Message)
		if err := json.Unmarshal(sc.Bytes(), m); err != nil {
			return nil, err
		}
		out[m.Name] = m
	}
	return out, sc.Err()
}

// ForEachLine calls fn for every non-empty line of an ndjson file.
func ForEachLine(path string, fn func([]byte) error) error {
	f, err := os.Open(path)
	if err != nil {
		return err
	}
	defer f.Close()
	sc := bufio.NewScanner(f)
	sc.Buffer(make([]byte, 1<<20), 1<<28)
	for sc.Scan() {
		if len(sc.Bytes()) == 0 {
			continue
		}
		b := append([]byte(nil), sc.Bytes()...)
		if err := fn(b); err != nil {
			return err
		}
	}
	return sc.Err()
}
