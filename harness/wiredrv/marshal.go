//go:build verif

package wiredrv

// Marshal / Unmarshal (kafka.Marshal, protocol.Marshal and their inverses: the encoding of consumer-group member metadata
// and assignments) after earlier uses of the pooled encoder / decoder that FAILED: "decoding an encoded value returns the
// same value" must not depend on what the recycled decoder saw before.

import (
	"bytes"
	"encoding/json"
	"fmt"
	"os"
	"reflect"

	kafka "github.com/segmentio/kafka-go"
	"github.com/segmentio/kafka-go/protocol"
	"github.com/segmentio/kafka-go/protocol/consumer"
)

type marshalResult struct {
	ID     string `json:"id"`
	Pre    string `json:"pre"`
	Type   string `json:"type"`
	V      int    `json:"v"`
	OK     bool   `json:"ok"`
	Detail string `json:"detail"`
	Hex    string `json:"hex"`
}

func marshalValues() []interface{} {
	return []interface{}{
		&consumer.Subscription{Version: 0, Topics: []string{"t"}},
		&consumer.Subscription{Version: 1, Topics: []string{"a", "bb", ""}, UserData: []byte{1, 2, 3},
			OwnedPartitions: []consumer.TopicPartition{{Topic: "a", Partitions: []int32{0, 2, 2147483647}}, {Topic: "bb", Partitions: []int32{}}}},
		&consumer.Assignment{Version: 0, AssignedPartitions: []consumer.TopicPartition{{Topic: "t", Partitions: []int32{0, 1}}}},
		&consumer.Assignment{Version: 1, AssignedPartitions: []consumer.TopicPartition{{Topic: "x", Partitions: []int32{5}}, {Topic: "y", Partitions: []int32{1, 2, 3}}}, UserData: []byte("user")},
	}
}

// MarshalMain runs every value after every kind of earlier use and writes one result line per (value, pre).
func MarshalMain(out string) int {
	f, err := os.Create(out)
	if err != nil {
		fmt.Fprintln(os.Stderr, err)
		return 2
	}
	defer f.Close()
	enc := json.NewEncoder(f)
	pres := []string{"none", "truncated", "empty", "garbage", "twice-truncated"}
	n := 0
	for round := 0; round < 3; round++ {
		for _, pre := range pres {
			for i, v := range marshalValues() {
				n++
				ver := int16(reflect.ValueOf(v).Elem().FieldByName("Version").Int())
				res := marshalResult{ID: fmt.Sprintf("m%d-%s-%d", round, pre, i), Pre: pre, Type: reflect.TypeOf(v).Elem().Name(), V: int(ver)}
				good, err := protocol.Marshal(ver, reflect.ValueOf(v).Elem().Interface())
				if err != nil {
					res.Detail = "Marshal: " + err.Error()
					enc.Encode(res)
					continue
				}
				// earlier uses of the pooled decoder that fail
				bad := func(b []byte) {
					w := reflect.New(reflect.TypeOf(v).Elem()).Interface()
					_ = protocol.Unmarshal(b, ver, w)
					var x kafka.Version = kafka.Version(ver)
					_ = x.Unmarshal(b, w)
				}
				switch pre {
				case "truncated":
					bad(good[:len(good)/2])
				case "twice-truncated":
					bad(good[:1])
					bad(good[:len(good)-1])
				case "empty":
					bad(nil)
				case "garbage":
					bad(bytes.Repeat([]byte{0xff}, 9))
				}
				w := reflect.New(reflect.TypeOf(v).Elem()).Interface()
				if err := protocol.Unmarshal(good, ver, w); err != nil {
					res.Detail = "Unmarshal of a well-formed encoding: " + err.Error()
					enc.Encode(res)
					continue
				}
				again, err := protocol.Marshal(ver, reflect.ValueOf(w).Elem().Interface())
				if err != nil || !bytes.Equal(again, good) {
					res.Detail = fmt.Sprintf("re-encoding the decoded value gives %x, the encoding was %x (%v)", again, good, err)
					enc.Encode(res)
					continue
				}
				res.OK, res.Hex = true, fmt.Sprintf("%x", good)
				enc.Encode(res)
			}
		}
	}
	return 0
}
