//go:build verif

package wiredrv

import (
	"encoding/binary"
	"encoding/json"
	"fmt"
	"hash/crc32"
	"os"

	"verifharness/krec"
)

var castagnoli = crc32.MakeTable(crc32.Castagnoli)

// patchCrcs recomputes the checksums of record batches / messages inside a frame whose length fields were mutated by
// the specification (TLC cannot compute CRC-32; it says where they are and what they cover).
func patchCrcs(frame []byte, fixes []CrcFix) error {
	for _, f := range fixes {
		if f.At < 0 || f.At+4 > len(frame) || f.From < 0 || f.To > len(frame) || f.From > f.To {
			return fmt.Errorf("crc fix out of range: %+v (frame %d bytes)", f, len(frame))
		}
		var sum uint32
		switch f.Kind {
		case "crc32c":
			sum = crc32.Checksum(frame[f.From:f.To], castagnoli)
		case "crc32":
			sum = crc32.ChecksumIEEE(frame[f.From:f.To])
		default:
			return fmt.Errorf("unknown checksum kind %q", f.Kind)
		}
		binary.BigEndian.PutUint32(frame[f.At:], sum)
	}
	return nil
}

// BlobTok is one token of a record-set blob handed to Wire.tla (same shape as the specification's own tokens, plus
// span/enc for the tokens whose value is the size of the `span` tokens that follow: the specification recomputes
// those after a mutation, so that only the mutated field is malformed).
type BlobTok struct {
	K    string `json:"k"`
	B    []int  `json:"b"`
	P    string `json:"p"`
	X    int    `json:"x"`
	Lb   int    `json:"lb"`
	Me   int    `json:"me"`
	Span int    `json:"span"`
	Enc  string `json:"enc"` // int32 | varint | ""
}

type blobBuilder struct{ toks []BlobTok }

func (b *blobBuilder) fix(p string, bytes []byte) int {
	b.toks = append(b.toks, BlobTok{K: "fix", B: tuple(bytes), P: p})
	return len(b.toks) - 1
}
func (b *blobBuilder) data(p string, bytes []byte) {
	b.toks = append(b.toks, BlobTok{K: "data", B: tuple(bytes), P: p})
}
func (b *blobBuilder) length(k, p, enc string, x, lb, me int) int {
	var w []byte
	if enc == "int32" {
		w = binary.BigEndian.AppendUint32(nil, uint32(int32(x)))
	} else {
		w = appendVarint(nil, int64(x))
	}
	b.toks = append(b.toks, BlobTok{K: k, B: tuple(w), P: p, X: x, Lb: lb, Me: me, Enc: enc})
	return len(b.toks) - 1
}

// derived closes a token opened at index i: it covers every token appended since
func (b *blobBuilder) derived(i int) {
	b.toks[i].Span = len(b.toks) - 1 - i
	n := 0
	for _, t := range b.toks[i+1:] {
		n += len(t.B)
	}
	b.toks[i].X = n
	if b.toks[i].Enc == "int32" {
		b.toks[i].B = tuple(binary.BigEndian.AppendUint32(nil, uint32(n)))
	} else if b.toks[i].Enc == "varint" {
		b.toks[i].B = tuple(appendVarint(nil, int64(n)))
	}
}

func appendVarint(b []byte, v int64) []byte {
	u := uint64((v << 1) ^ (v >> 63))
	for u >= 0x80 {
		b = append(b, byte(u)|0x80)
		u >>= 7
	}
	return append(b, byte(u))
}

func be(n int, v uint64) []byte {
	b := make([]byte, 8)
	binary.BigEndian.PutUint64(b, v)
	return b[8-n:]
}

type blobRecord struct {
	key, value []byte
	headers    [][2][]byte
}

// blobV2 builds one record batch (magic 2) token by token.
func blobV2(recs []blobRecord) []BlobTok {
	b := &blobBuilder{}
	b.fix("batch.baseOffset", be(8, 0))
	bl := b.length("batch-length", "batch.batchLength", "int32", 0, 0, 1)
	b.fix("batch.partitionLeaderEpoch", be(4, 0xffffffff))
	b.fix("batch.magic", []byte{2})
	crc := len(b.toks)
	b.toks = append(b.toks, BlobTok{K: "crc32c", B: []int{0, 0, 0, 0}, P: "batch.crc"})
	b.fix("batch.attributes", be(2, 0))
	b.fix("batch.lastOffsetDelta", be(4, uint64(len(recs)-1)))
	b.fix("batch.firstTimestamp", be(8, 1600000000000))
	b.fix("batch.maxTimestamp", be(8, 1600000000000))
	b.fix("batch.producerId", be(8, ^uint64(0)))
	b.fix("batch.producerEpoch", be(2, 0xffff))
	b.fix("batch.baseSequence", be(4, 0xffffffff))
	b.length("record-count", "batch.recordCount", "int32", len(recs), 0, 7)
	for i, r := range recs {
		p := fmt.Sprintf("batch.records[%d]", i)
		rl := b.length("record-length", p+".length", "varint", 0, 0, 1)
		b.fix(p+".attributes", []byte{0})
		b.fix(p+".timestampDelta", appendVarint(nil, 0))
		b.fix(p+".offsetDelta", appendVarint(nil, int64(i)))
		if r.key == nil {
			b.length("key-length", p+".key", "varint", -1, -1, 1)
		} else {
			b.length("key-length", p+".key", "varint", len(r.key), -1, 1)
			b.data(p+".key", r.key)
		}
		if r.value == nil {
			b.length("value-length", p+".value", "varint", -1, -1, 1)
		} else {
			b.length("value-length", p+".value", "varint", len(r.value), -1, 1)
			b.data(p+".value", r.value)
		}
		b.length("header-count", p+".headerCount", "varint", len(r.headers), 0, 2)
		for j, h := range r.headers {
			hp := fmt.Sprintf("%s.headers[%d]", p, j)
			b.length("header-key-length", hp+".key", "varint", len(h[0]), 0, 1)
			b.data(hp+".key", h[0])
			b.length("header-value-length", hp+".value", "varint", len(h[1]), -1, 1)
			b.data(hp+".value", h[1])
		}
		b.derived(rl)
	}
	b.derived(bl)
	b.toks[crc].Span = len(b.toks) - 1 - crc
	return b.toks
}

// blobV01 builds a message set of magic 0 or 1.
func blobV01(magic byte, recs []blobRecord) []BlobTok {
	b := &blobBuilder{}
	for i, r := range recs {
		p := fmt.Sprintf("messages[%d]", i)
		b.fix(p+".offset", be(8, uint64(i)))
		ms := b.length("message-size", p+".messageSize", "int32", 0, 0, 1)
		crc := len(b.toks)
		b.toks = append(b.toks, BlobTok{K: "crc32", B: []int{0, 0, 0, 0}, P: p + ".crc"})
		b.fix(p+".magic", []byte{magic})
		b.fix(p+".attributes", []byte{0})
		if magic == 1 {
			b.fix(p+".timestamp", be(8, 1600000000000))
		}
		if r.key == nil {
			b.length("message-key-length", p+".key", "int32", -1, -1, 1)
		} else {
			b.length("message-key-length", p+".key", "int32", len(r.key), -1, 1)
			b.data(p+".key", r.key)
		}
		if r.value == nil {
			b.length("message-value-length", p+".value", "int32", -1, -1, 1)
		} else {
			b.length("message-value-length", p+".value", "int32", len(r.value), -1, 1)
			b.data(p+".value", r.value)
		}
		b.derived(ms)
		b.toks[crc].Span = len(b.toks) - 1 - crc
	}
	return b.toks
}

// flattenBlob returns the bytes of a blob with its checksums filled in (used to cross-check the builder against the
// harness's independent record codec, krec).
func flattenBlob(toks []BlobTok) []byte {
	var out []byte
	offs := make([]int, len(toks)+1)
	for i, t := range toks {
		offs[i] = len(out)
		out = append(out, toBytes(t.B)...)
	}
	offs[len(toks)] = len(out)
	for i, t := range toks {
		if t.K == "crc32c" || t.K == "crc32" {
			patchCrcs(out, []CrcFix{{Kind: t.K, At: offs[i], From: offs[i+1], To: offs[i+t.Span+1]}})
		}
	}
	return out
}

// RecordsMain writes the record-set blobs used by WireFuzz as base frames: one line {name, tokens} each.
func RecordsMain(out string) int {
	recs := []blobRecord{
		{key: []byte("k"), value: []byte("vv"), headers: [][2][]byte{{[]byte("h"), []byte("x")}}},
		{key: nil, value: []byte("w")},
	}
	blobs := []struct {
		Name   string    `json:"name"`
		Tokens []BlobTok `json:"tokens"`
	}{
		{"v2", blobV2(recs)},
		{"v1", blobV01(1, recs)},
		{"v0", blobV01(0, recs)},
	}
	// self-check against the independent decoder: the blobs must be well-formed record sets
	for _, bl := range blobs {
		bs, err := krec.DecodeSet(flattenBlob(bl.Tokens))
		n := 0
		for _, x := range bs {
			n += len(x.Records)
			if !x.CRCOK || !x.LenOK {
				err = fmt.Errorf("crc/length check failed")
			}
		}
		if err != nil || n != len(recs) {
			fmt.Fprintf(os.Stderr, "blob %s is not a well-formed record set: %v (%d records)\n", bl.Name, err, n)
			return 2
		}
	}
	f, err := os.Create(out)
	if err != nil {
		fmt.Fprintln(os.Stderr, err)
		return 2
	}
	defer f.Close()
	enc := json.NewEncoder(f)
	for _, bl := range blobs {
		if err := enc.Encode(bl); err != nil {
			fmt.Fprintln(os.Stderr, err)
			return 2
		}
	}
	return 0
}
