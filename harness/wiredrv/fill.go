//go:build verif

package wiredrv

import (
	"encoding/binary"
	"encoding/json"
	"fmt"
	"math"
	"reflect"

	"github.com/segmentio/kafka-go/protocol"
)

var recordSetType = reflect.TypeOf(protocol.RecordSet{})

func sub(path, name string) string {
	if path == "" {
		return name
	}
	return path + "." + name
}

// object decodes a struct value: a JSON object, or [] for the struct without fields.
func object(raw json.RawMessage) (map[string]json.RawMessage, error) {
	m := map[string]json.RawMessage{}
	if len(raw) > 0 && raw[0] == '[' {
		return m, nil
	}
	err := json.Unmarshal(raw, &m)
	return m, err
}

func byteTuple(raw json.RawMessage) ([]byte, error) {
	var a []int
	if err := json.Unmarshal(raw, &a); err != nil {
		return nil, err
	}
	b := make([]byte, len(a))
	for i, x := range a {
		if x < 0 || x > 255 {
			return nil, fmt.Errorf("byte out of range: %d", x)
		}
		b[i] = byte(x)
	}
	return b, nil
}

// activeFields returns the schema fields of a struct that exist at version v.
func activeFields(fields []Field, v int) []*Field {
	var out []*Field
	for i := range fields {
		if fields[i].Active(v) {
			out = append(out, &fields[i])
		}
	}
	return out
}

// Filler builds Go messages from schema-shaped JSON values.  NilEmpty: an empty array / bytes value of a field that is
// not nullable at this version is given to the library as a nil slice (Go's usual empty slice).
type Filler struct {
	Msg      string
	NilEmpty bool
	Unmapped []string
}

// Fill sets the Go struct rv from the schema-shaped JSON value (absent key = null / not sent = Go zero value).
func (fl *Filler) Fill(rv reflect.Value, fields []Field, v int, raw json.RawMessage, path string) error {
	msg, unmapped := fl.Msg, &fl.Unmapped
	obj, err := object(raw)
	if err != nil {
		return fmt.Errorf("%s: %v", path, err)
	}
	for _, f := range activeFields(fields, v) {
		p := sub(path, f.Name)
		idx, ok := goField(msg, rv.Type(), p, f.Name)
		if !ok {
			*unmapped = append(*unmapped, p)
			continue
		}
		val, present := obj[f.Name]
		if !present {
			continue
		}
		if err := fl.setField(rv.FieldByIndex(idx), f, v, val, p, f.Nullable(v)); err != nil {
			return err
		}
	}
	return nil
}

func (fl *Filler) setField(fv reflect.Value, f *Field, v int, raw json.RawMessage, p string, nullable bool) error {
	if !f.Arr {
		return fl.setElem(fv, f, v, raw, p, nullable)
	}
	var elems []json.RawMessage
	if err := json.Unmarshal(raw, &elems); err != nil {
		return fmt.Errorf("%s: %v", p, err)
	}
	if fv.Kind() != reflect.Slice {
		return fmt.Errorf("%s: schema array but Go %s", p, fv.Type())
	}
	if len(elems) == 0 && fl.NilEmpty && !nullable {
		return nil
	}
	s := reflect.MakeSlice(fv.Type(), len(elems), len(elems))
	for i, e := range elems {
		if err := fl.setElem(s.Index(i), f, v, e, p, false); err != nil {
			return err
		}
	}
	fv.Set(s)
	return nil
}

func (fl *Filler) setElem(fv reflect.Value, f *Field, v int, raw json.RawMessage, p string, nullable bool) error {
	switch f.T {
	case "bool":
		var b bool
		if err := json.Unmarshal(raw, &b); err != nil {
			return fmt.Errorf("%s: %v", p, err)
		}
		if fv.Kind() != reflect.Bool {
			return fmt.Errorf("%s: schema bool but Go %s", p, fv.Type())
		}
		fv.SetBool(b)
	case "int8", "int16", "int32", "uint16":
		var n int64
		if err := json.Unmarshal(raw, &n); err != nil {
			return fmt.Errorf("%s: %v", p, err)
		}
		return setInt(fv, n, p)
	case "int64":
		b, err := byteTuple(raw)
		if err != nil || len(b) != 8 {
			return fmt.Errorf("%s: bad int64 tuple", p)
		}
		return setInt(fv, int64(binary.BigEndian.Uint64(b)), p)
	case "float64":
		b, err := byteTuple(raw)
		if err != nil || len(b) != 8 {
			return fmt.Errorf("%s: bad float64 tuple", p)
		}
		if fv.Kind() != reflect.Float64 {
			return fmt.Errorf("%s: schema float64 but Go %s", p, fv.Type())
		}
		fv.SetFloat(math.Float64frombits(binary.BigEndian.Uint64(b)))
	case "string":
		b, err := byteTuple(raw)
		if err != nil {
			return fmt.Errorf("%s: %v", p, err)
		}
		if fv.Kind() != reflect.String {
			return fmt.Errorf("%s: schema string but Go %s", p, fv.Type())
		}
		fv.SetString(string(b))
	case "bytes", "uuid":
		b, err := byteTuple(raw)
		if err != nil {
			return fmt.Errorf("%s: %v", p, err)
		}
		if fv.Kind() == reflect.Array && fv.Type().Elem().Kind() == reflect.Uint8 && fv.Len() == len(b) {
			reflect.Copy(fv, reflect.ValueOf(b))
			return nil
		}
		if fv.Kind() != reflect.Slice || fv.Type().Elem().Kind() != reflect.Uint8 {
			return fmt.Errorf("%s: schema bytes but Go %s", p, fv.Type())
		}
		if len(b) == 0 && fl.NilEmpty && !nullable {
			return nil
		}
		fv.SetBytes(b)
	case "records":
		if fv.Type() != recordSetType {
			return fmt.Errorf("%s: schema records but Go %s", p, fv.Type())
		}
		// the empty record set (record encoding itself is property C05): a version 1 set without messages
		fv.Set(reflect.ValueOf(protocol.RecordSet{Version: 1, Records: protocol.NewRecordReader()}))
	default: // struct
		if fv.Kind() == reflect.Struct && fv.Type() != recordSetType {
			return fl.Fill(fv, f.Fields, v, raw, p)
		}
		// a schema struct with a single field at this version carried by a scalar in Go ([]string for [{Name}])
		act := activeFields(f.Fields, v)
		if len(act) != 1 {
			return fmt.Errorf("%s: schema struct but Go %s", p, fv.Type())
		}
		obj, err := object(raw)
		if err != nil {
			return fmt.Errorf("%s: %v", p, err)
		}
		inner, present := obj[act[0].Name]
		if !present {
			return nil
		}
		return fl.setField(fv, act[0], v, inner, sub(p, act[0].Name), nullable && act[0].Nullable(v))
	}
	return nil
}

func setInt(fv reflect.Value, n int64, p string) error {
	switch fv.Kind() {
	case reflect.Int8, reflect.Int16, reflect.Int32, reflect.Int64, reflect.Int:
		if fv.OverflowInt(n) {
			return fmt.Errorf("%s: value %d overflows Go %s", p, n, fv.Type())
		}
		fv.SetInt(n)
	case reflect.Uint8, reflect.Uint16, reflect.Uint32, reflect.Uint64:
		if n < 0 || fv.OverflowUint(uint64(n)) {
			return fmt.Errorf("%s: value %d overflows Go %s", p, n, fv.Type())
		}
		fv.SetUint(uint64(n))
	default:
		return fmt.Errorf("%s: schema integer but Go %s", p, fv.Type())
	}
	return nil
}

func tuple(b []byte) []int {
	out := make([]int, len(b))
	for i, x := range b {
		out[i] = int(x)
	}
	return out
}

// Dump renders the Go struct in the schema's shape: every schema field that has a Go field, whatever its version
// range (the specification checks the ones outside the version are zero); nil slices are omitted (the Go view of
// null); "$unmapped" lists the schema fields of this struct without a Go field.
type Dumper struct {
	Msg      string
	TypeErrs []string
}

func (d *Dumper) mismatch(p string, fv reflect.Value, f *Field) interface{} {
	d.TypeErrs = append(d.TypeErrs, fmt.Sprintf("%s: schema %s but Go %s", p, f.T, fv.Type()))
	switch {
	case f.Arr:
		return []int{}
	case f.T == "bool":
		return false
	case f.T == "int8" || f.T == "int16" || f.T == "int32" || f.T == "uint16":
		return 0
	case f.T == "struct":
		return map[string]interface{}{"$unmapped": []string{}}
	}
	return []int{}
}

func (d *Dumper) Dump(rv reflect.Value, fields []Field, v int, path string) map[string]interface{} {
	msg := d.Msg
	out := map[string]interface{}{}
	unm := []string{}
	used := map[string]bool{}
	for i := range fields {
		f := &fields[i]
		if !f.Active(v) {
			continue
		}
		idx, ok := goField(msg, rv.Type(), sub(path, f.Name), f.Name)
		if !ok {
			unm = append(unm, f.Name)
			continue
		}
		used[fmt.Sprint(idx)] = true
		if x, ok := d.dumpField(rv.FieldByIndex(idx), f, v, sub(path, f.Name)); ok {
			out[f.Name] = x
		}
	}
	for i := range fields {
		f := &fields[i]
		if f.Active(v) {
			continue
		}
		idx, ok := goField(msg, rv.Type(), sub(path, f.Name), f.Name)
		if !ok || used[fmt.Sprint(idx)] {
			continue
		}
		if x, ok := d.dumpField(rv.FieldByIndex(idx), f, -1, sub(path, f.Name)); ok {
			out[f.Name] = x
		}
	}
	out["$unmapped"] = unm
	return out
}

func (d *Dumper) dumpField(fv reflect.Value, f *Field, v int, p string) (interface{}, bool) {
	if !f.Arr {
		return d.dumpElem(fv, f, v, p)
	}
	if fv.Kind() != reflect.Slice {
		return d.mismatch(p, fv, f), true
	}
	if fv.IsNil() {
		return nil, false
	}
	out := make([]interface{}, fv.Len())
	for i := range out {
		out[i], _ = d.dumpElem(fv.Index(i), f, v, p)
	}
	return out, true
}

func (d *Dumper) dumpElem(fv reflect.Value, f *Field, v int, p string) (interface{}, bool) {
	switch f.T {
	case "bool":
		if fv.Kind() == reflect.Bool {
			return fv.Bool(), true
		}
	case "int8", "int16", "int32", "uint16":
		switch fv.Kind() {
		case reflect.Int8, reflect.Int16, reflect.Int32:
			return fv.Int(), true
		case reflect.Uint8, reflect.Uint16:
			return fv.Uint(), true
		}
	case "int64":
		if fv.Kind() == reflect.Int64 {
			var b [8]byte
			binary.BigEndian.PutUint64(b[:], uint64(fv.Int()))
			return tuple(b[:]), true
		}
	case "float64":
		if fv.Kind() == reflect.Float64 {
			var b [8]byte
			binary.BigEndian.PutUint64(b[:], math.Float64bits(fv.Float()))
			return tuple(b[:]), true
		}
	case "string":
		if fv.Kind() == reflect.String {
			return tuple([]byte(fv.String())), true
		}
	case "bytes", "uuid":
		if fv.Kind() == reflect.Slice && fv.Type().Elem().Kind() == reflect.Uint8 {
			if fv.IsNil() {
				return nil, false
			}
			return tuple(fv.Bytes()), true
		}
		if fv.Kind() == reflect.Array && fv.Type().Elem().Kind() == reflect.Uint8 {
			b := make([]byte, fv.Len())
			reflect.Copy(reflect.ValueOf(b), fv)
			return tuple(b), true
		}
	case "records":
		if fv.Type() == recordSetType {
			return []int{}, true
		}
	default:
		if fv.Kind() == reflect.Struct && fv.Type() != recordSetType {
			return d.Dump(fv, f.Fields, v, p), true
		}
		var act []*Field
		if v >= 0 {
			act = activeFields(f.Fields, v)
		} else if len(f.Fields) == 1 {
			act = []*Field{&f.Fields[0]}
		}
		if len(act) == 1 {
			o := map[string]interface{}{"$unmapped": []string{}}
			if x, ok := d.dumpField(fv, act[0], v, sub(p, act[0].Name)); ok {
				o[act[0].Name] = x
			}
			return o, true
		}
	}
	e := *f
	e.Arr = false
	return d.mismatch(p, fv, &e), true
}
