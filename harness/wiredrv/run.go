//go:build verif

package wiredrv

import (
	"bufio"
	"bytes"
	"encoding/json"
	"fmt"
	"io"
	"os"
	"reflect"
	"runtime/debug"
	"syscall"
	"time"

	"github.com/segmentio/kafka-go/protocol"
)

// Vector is one line written by WireGen.tla.
type Vector struct {
	ID         string          `json:"id"`
	Msg        string          `json:"msg"`
	Api        string          `json:"api"`
	ApiKey     int             `json:"apiKey"`
	Kind       string          `json:"kind"`
	V          int             `json:"v"`
	Mode       string          `json:"mode"`
	Corr       int32           `json:"corr"`
	ClientNull bool            `json:"clientNull"`
	Client     []int           `json:"client"`
	Value      json.RawMessage `json:"value"`
	Frame      []int           `json:"frame"`
}

type Decoded struct {
	Reader   string                 `json:"reader"`
	Ok       bool                   `json:"ok"`
	Err      string                 `json:"err"`
	Consumed int                    `json:"consumed"`
	Corr     int32                  `json:"corr"`
	Ver      int                    `json:"ver"`
	Client   []int                  `json:"client"`
	Value    map[string]interface{} `json:"value"`
	TypeErrs []string               `json:"typeErrs"`
}

type Result struct {
	ID       string    `json:"id"`
	Build    string    `json:"build"`
	EncTried bool      `json:"encTried"`
	EncOk    bool      `json:"encOk"`
	EncErr   string    `json:"encErr"`
	Enc      []int     `json:"enc"`
	Unmapped []string  `json:"unmapped"`
	Decs     []Decoded `json:"decs"`
}

// VectorChild: reads vectors on stdin, answers "S <id>" / "R <result json>" (same protocol as FuzzChild): a decoder that
// misreads a well-formed frame may ask for an absurd allocation and take the process down.
func VectorChild(schemaPath, build string) int {
	schemas, err := LoadSchemas(schemaPath)
	if err != nil {
		fmt.Fprintln(os.Stderr, err)
		return 2
	}
	debug.SetMemoryLimit(childMemLimit)
	lim := syscall.Rlimit{Cur: childASLimit, Max: childASLimit}
	_ = syscall.Setrlimit(syscall.RLIMIT_AS, &lim)
	in := bufio.NewReaderSize(os.Stdin, 1<<20)
	out := bufio.NewWriter(os.Stdout)
	for {
		line, err := in.ReadBytes('\n')
		if len(bytes.TrimSpace(line)) > 0 {
			v := new(Vector)
			if e := json.Unmarshal(line, v); e != nil {
				fmt.Fprintln(os.Stderr, "bad vector:", e)
				return 2
			}
			fmt.Fprintf(out, "S %s\n", v.ID)
			out.Flush()
			r := RunVector(schemas, v, build)
			b, _ := json.Marshal(&r)
			fmt.Fprintf(out, "R %s\n", b)
			out.Flush()
		}
		if err != nil {
			return 0
		}
	}
}

// VectorsMain runs every vector of the file in child processes and writes one result per vector, in order; a vector
// whose child died gets a result that says so (no encoding, decode error "fatal: ...").
func VectorsMain(schemaPath, in, out, build string, par int) int {
	var lines [][]byte
	var ids []string
	err := ForEachLine(in, func(b []byte) error {
		var v struct {
			ID string `json:"id"`
		}
		if err := json.Unmarshal(b, &v); err != nil {
			return err
		}
		lines = append(lines, b)
		ids = append(ids, v.ID)
		return nil
	})
	if err != nil {
		fmt.Fprintln(os.Stderr, "bad vector file:", err)
		return 2
	}
	results := make([][]byte, len(lines))
	failed := Pool([]string{"-mode", "vecchild", "-schemas", schemaPath, "-build", build}, lines, par, 30*time.Second,
		func(i int, b []byte, status, detail string) {
			if status == "ok" {
				results[i] = bytes.TrimSpace(b)
				return
			}
			r := Result{ID: ids[i], Build: build, EncTried: true, EncErr: status + ": " + detail, Enc: []int{}, Unmapped: []string{},
				Decs: []Decoded{{Reader: "bufio", Err: status + ": " + detail, Client: []int{}, Value: map[string]interface{}{"$unmapped": []string{}}, TypeErrs: []string{}}}}
			results[i], _ = json.Marshal(&r)
		})
	if failed != nil {
		fmt.Fprintln(os.Stderr, "cannot start child:", failed)
		return 2
	}
	of, err := os.Create(out)
	if err != nil {
		fmt.Fprintln(os.Stderr, err)
		return 2
	}
	defer of.Close()
	w := bufio.NewWriterSize(of, 1<<20)
	defer w.Flush()
	for _, b := range results {
		w.Write(b)
		w.WriteByte('\n')
	}
	return 0
}

var Sentinel = []byte{0xDE, 0xAD, 0xBE, 0xEF, 0x01}

func toBytes(a []int) []byte {
	b := make([]byte, len(a))
	for i, x := range a {
		b[i] = byte(x)
	}
	return b
}

// RunVector: mode "rt": value -> Go message -> protocol.WriteRequest/WriteResponse -> bytes; every mode: the
// specification's frame followed by sentinel bytes -> protocol.ReadRequest/ReadResponse -> Go message -> value.
func RunVector(schemas map[string]*Message, vec *Vector, build string) (res Result) {
	res = Result{ID: vec.ID, Build: build, Enc: []int{}, Unmapped: []string{}, Decs: []Decoded{}}
	m := schemas[vec.Msg]
	ent, ok := Registry[vec.Api]
	if m == nil || !ok {
		res.EncErr = "unknown message " + vec.Msg
		return
	}
	if vec.Mode == "rt" || vec.Mode == "nil" {
		res.EncTried = true
		func() {
			defer func() {
				if r := recover(); r != nil {
					res.EncErr = fmt.Sprintf("panic: %v", r)
				}
			}()
			var msg protocol.Message
			if vec.Kind == "request" {
				msg = ent.Req()
			} else {
				msg = ent.Res()
			}
			fl := &Filler{Msg: vec.Msg, NilEmpty: vec.Mode == "nil"}
			if err := fl.Fill(reflect.ValueOf(msg).Elem(), m.Fields, vec.V, vec.Value, ""); err != nil {
				res.Unmapped = append(res.Unmapped, fl.Unmapped...)
				res.EncErr = "fill: " + err.Error()
				return
			}
			res.Unmapped = append(res.Unmapped, fl.Unmapped...)
			var buf bytes.Buffer
			var err error
			if vec.Kind == "request" {
				err = protocol.WriteRequest(&buf, int16(vec.V), vec.Corr, string(toBytes(vec.Client)), msg)
			} else {
				err = protocol.WriteResponse(&buf, int16(vec.V), vec.Corr, msg)
			}
			if err != nil {
				res.EncErr = err.Error()
				return
			}
			res.EncOk = true
			res.Enc = tuple(buf.Bytes())
		}()
	}
	frame := toBytes(vec.Frame)
	for _, kind := range []string{"bufio", "bytes"} {
		res.Decs = append(res.Decs, decodeOnce(m, ent, vec, frame, kind))
	}
	return
}

func decodeOnce(m *Message, ent apiEntry, vec *Vector, frame []byte, kind string) (d Decoded) {
	d = Decoded{Reader: kind, Client: []int{}, Value: map[string]interface{}{"$unmapped": []string{}}, TypeErrs: []string{}}
	defer func() {
		if r := recover(); r != nil {
			d.Ok = false
			d.Err = fmt.Sprintf("panic: %v", r)
		}
	}()
	all := append(append([]byte(nil), frame...), Sentinel...)
	src := bytes.NewReader(all)
	var r io.Reader = src
	var br *bufio.Reader
	if kind == "bufio" {
		br = bufio.NewReader(src)
		r = br
	}
	var msg protocol.Message
	var err error
	if vec.Kind == "request" {
		var ver int16
		var client string
		ver, d.Corr, client, msg, err = protocol.ReadRequest(r)
		d.Ver = int(ver)
		d.Client = tuple([]byte(client))
	} else {
		d.Corr, msg, err = protocol.ReadResponse(r, ent.Key, int16(vec.V))
		d.Ver = vec.V
	}
	d.Consumed = len(all) - src.Len()
	if br != nil {
		d.Consumed -= br.Buffered()
	}
	if err != nil {
		d.Err = err.Error()
		return
	}
	if msg == nil {
		d.Err = "nil message"
		return
	}
	d.Ok = true
	du := &Dumper{Msg: vec.Msg}
	d.Value = du.Dump(reflect.ValueOf(msg).Elem(), m.Fields, vec.V, "")
	if du.TypeErrs != nil {
		d.TypeErrs = du.TypeErrs
	}
	return
}
