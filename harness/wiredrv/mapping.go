//go:build verif

package wiredrv

import (
	"reflect"
	"strings"
)

// GoNames: schema field path (schema names joined by ".") -> name of the Go struct field, per message, where the
// names differ by more than letter case.  Everything else is matched case-insensitively on letters and digits.
// A schema field without a Go field is reported as unmapped; the specification decides what that means (allowed
// for tagged fields the library does not know, a mismatch otherwise).
var GoNames = map[string]map[string]string{
	"MetadataRequest": {"Topics": "TopicNames"},
	"ProduceRequest": {"TimeoutMs": "Timeout", "TopicData": "Topics", "TopicData.Name": "Topic", "TopicData.PartitionData": "Partitions",
		"TopicData.PartitionData.Index": "Partition", "TopicData.PartitionData.Records": "RecordSet"},
	"ProduceResponse": {"Responses": "Topics", "Responses.Name": "Topic", "Responses.PartitionResponses": "Partitions",
		"Responses.PartitionResponses.Index": "Partition", "Responses.PartitionResponses.LogAppendTimeMs": "LogAppendTime"},
	"FetchRequest":            {"MaxWaitMs": "MaxWaitTime", "ForgottenTopicsData": "ForgottenTopics"},
	"FetchResponse":           {"Responses": "Topics", "Responses.Partitions.PartitionIndex": "Partition", "Responses.Partitions.Records": "RecordSet"},
	"ListOffsetsRequest":      {"Topics.Name": "Topic", "Topics.Partitions.PartitionIndex": "Partition"},
	"ListOffsetsResponse":     {"Topics.Name": "Topic", "Topics.Partitions.PartitionIndex": "Partition"},
	"JoinGroupResponse":       {"Leader": "LeaderID"},
	"SyncGroupResponse":       {"Assignment": "Assignments"},
	"OffsetFetchResponse":     {"Topics.Partitions.CommittedLeaderEpoch": "ComittedLeaderEpoch"},
	"TxnOffsetCommitRequest":  {"Topics.Partitions.PartitionIndex": "Partition"},
	"TxnOffsetCommitResponse": {"Topics.Partitions.PartitionIndex": "Partition"},
	"DeleteGroupsRequest":     {"GroupsNames": "GroupIDs"},
	"DeleteGroupsResponse":    {"Results": "Responses"},
	"ElectLeadersRequest":     {"TopicPartitions.Partitions": "PartitionIDs"},
	"ElectLeadersResponse":    {"ThrottleTimeMs": "ThrottleTime", "ReplicaElectionResults.PartitionResult": "PartitionResults"},
	"DescribeConfigsRequest":  {"Resources.ConfigurationKeys": "ConfigNames"},
	"DescribeConfigsResponse": {"Results": "Resources", "Results.Configs": "ConfigEntries", "Results.Configs.Name": "ConfigName",
		"Results.Configs.Value": "ConfigValue", "Results.Configs.Synonyms": "ConfigSynonyms", "Results.Configs.Synonyms.Name": "ConfigName",
		"Results.Configs.Synonyms.Value": "ConfigValue", "Results.Configs.Synonyms.Source": "ConfigSource",
		"Results.Configs.Documentation": "ConfigDocumentation"},
	"DeleteAclsRequest":  {"Filters.PatternTypeFilter": "ResourcePatternTypeFilter"},
	"DeleteAclsResponse": {"FilterResults.MatchingAcls.PatternType": "ResourcePatternType"},
	// kafka-go nests the fields of the DescribeAcls request in a struct `Filter`
	"DescribeAclsRequest": {"ResourceTypeFilter": "Filter.ResourceTypeFilter", "ResourceNameFilter": "Filter.ResourceNameFilter",
		"PatternTypeFilter": "Filter.ResourcePatternTypeFilter", "PrincipalFilter": "Filter.PrincipalFilter", "HostFilter": "Filter.HostFilter",
		"Operation": "Filter.Operation", "PermissionType": "Filter.PermissionType"},
	"AlterClientQuotasRequest":            {"Entries.Entity": "Entities"},
	"AlterClientQuotasResponse":           {"Entries": "Results", "Entries.Entity": "Entities"},
	"DescribeClientQuotasResponse":        {"Entries.Entity": "Entities"},
	"AlterPartitionReassignmentsResponse": {"Responses": "Results"},
}

func canon(s string) string {
	var b strings.Builder
	for _, r := range strings.ToLower(s) {
		if (r >= 'a' && r <= 'z') || (r >= '0' && r <= '9') {
			b.WriteRune(r)
		}
	}
	return b.String()
}

// goField finds the Go field of struct type t for the schema field at path (msg-relative); the result is an index path
// for reflect.Value.FieldByIndex (a mapped name may descend into a nested Go struct: "Filter.Operation").
func goField(msg string, t reflect.Type, path, name string) ([]int, bool) {
	want := name
	if m := GoNames[msg]; m != nil {
		if g, ok := m[path]; ok {
			var idx []int
			for _, part := range strings.Split(g, ".") {
				if t.Kind() != reflect.Struct {
					return nil, false
				}
				f, ok := t.FieldByName(part)
				if !ok {
					return nil, false
				}
				idx = append(idx, f.Index...)
				t = f.Type
			}
			return idx, true
		}
	}
	c := canon(want)
	for i := 0; i < t.NumField(); i++ {
		f := t.Field(i)
		if f.PkgPath != "" || f.Name == "_" {
			continue
		}
		if tag, ok := f.Tag.Lookup("kafka"); ok && tag == "-" {
			continue
		}
		if canon(f.Name) == c {
			return []int{i}, true
		}
	}
	return nil, false
}
