//go:build verif

package wiredrv

import (
	"bufio"
	"bytes"
	"encoding/json"
	"fmt"
	"io"
	"os"
	"os/exec"
	"runtime"
	"runtime/debug"
	"strings"
	"sync"
	"syscall"
	"time"

	"github.com/segmentio/kafka-go/protocol"
)

// FuzzCase is one line written by WireFuzzGen.tla: a response frame in which exactly one length field is hostile.
type FuzzCase struct {
	ID     string `json:"id"`
	ApiKey int    `json:"apiKey"`
	V      int    `json:"v"`
	Frame  []int  `json:"frame"`
	// token form (frames with record batches): the harness patches the checksums the specification cannot compute
	Crcs []CrcFix `json:"crcs"`
}

// CrcFix: write the checksum of frame[From:To] (big endian, 4 bytes) at frame[At:At+4].
type CrcFix struct {
	Kind string `json:"kind"` // crc32c | crc32
	At   int    `json:"at"`
	From int    `json:"from"`
	To   int    `json:"to"`
}

type FuzzResult struct {
	ID      string `json:"id"`
	Outcome string `json:"outcome"` // decoded | error | panic | fatal | hang
	Alloc   int64  `json:"alloc"`   // bytes allocated while decoding (TotalAlloc delta), capped at 2^31-1
	Detail  string `json:"detail"`
	Millis  int64  `json:"millis"`
}

const (
	childMemLimit = 256 << 20 // GOMEMLIMIT of a child (soft)
	childASLimit  = 3 << 30   // RLIMIT_AS of a child (hard): a decoder asking for more dies with "out of memory"
	caseTimeout   = 8 * time.Second
)

// FuzzChild reads cases on stdin (one JSON object per line) and answers each with "S <id>" when it starts and
// "R <result json>" when protocol.ReadResponse has returned or panicked.  A fatal runtime error kills this process;
// the parent then knows from the last "S" line which case did it.
func FuzzChild() int {
	debug.SetMemoryLimit(childMemLimit)
	lim := syscall.Rlimit{Cur: childASLimit, Max: childASLimit}
	_ = syscall.Setrlimit(syscall.RLIMIT_AS, &lim)
	in := bufio.NewReaderSize(os.Stdin, 1<<20)
	out := bufio.NewWriter(os.Stdout)
	for {
		line, err := in.ReadBytes('\n')
		if len(bytes.TrimSpace(line)) > 0 {
			var c FuzzCase
			if e := json.Unmarshal(line, &c); e != nil {
				fmt.Fprintln(os.Stderr, "bad case:", e)
				return 2
			}
			fmt.Fprintf(out, "S %s\n", c.ID)
			out.Flush()
			r := runCase(&c)
			b, _ := json.Marshal(r)
			fmt.Fprintf(out, "R %s\n", b)
			out.Flush()
		}
		if err != nil {
			return 0
		}
	}
}

func runCase(c *FuzzCase) (res FuzzResult) {
	res.ID = c.ID
	frame := toBytes(c.Frame)
	t0 := time.Now()
	var m0, m1 runtime.MemStats
	runtime.ReadMemStats(&m0)
	var msg protocol.Message
	func() {
		defer func() {
			if r := recover(); r != nil {
				res.Outcome = "panic"
				res.Detail = fmt.Sprint(r)
			}
		}()
		// the transport reads responses through a *bufio.Reader
		var err error
		_, msg, err = protocol.ReadResponse(bufio.NewReader(bytes.NewReader(frame)), protocol.ApiKey(c.ApiKey), int16(c.V))
		if err != nil {
			res.Outcome = "error"
			res.Detail = err.Error()
		} else {
			res.Outcome = "decoded"
		}
	}()
	runtime.ReadMemStats(&m1) // (the allocation bound is about one decode of the frame: measured before the second pass)
	if res.Outcome != "panic" && m1.TotalAlloc-m0.TotalAlloc > 128<<10 {
		// A big figure may be a one-off of the process rather than of the frame: the first decode after the child started
		// fills type caches and page/decompressor pools (about 550 KB), and so does the first one after a garbage collection
		// emptied the sync.Pools.  An allocation that the frame's length fields demand comes back on every decode: decode
		// again and keep the smaller figure.
		var n0, n1 runtime.MemStats
		runtime.ReadMemStats(&n0)
		func() {
			defer func() { recover() }()
			_, m2, _ := protocol.ReadResponse(bufio.NewReader(bytes.NewReader(frame)), protocol.ApiKey(c.ApiKey), int16(c.V))
			runtime.KeepAlive(m2)
		}()
		runtime.ReadMemStats(&n1)
		if n1.TotalAlloc-n0.TotalAlloc < m1.TotalAlloc-m0.TotalAlloc {
			m0, m1 = n0, n1
		}
	}
	if res.Outcome != "panic" {
		// the same frame with more bytes of the stream behind it (the next response): a length that reaches past the end of
		// the frame then finds bytes to read instead of EOF
		func() {
			defer func() {
				if r := recover(); r != nil {
					res.Outcome = "panic"
					res.Detail = "(with the next frame following in the stream) " + fmt.Sprint(r)
				}
			}()
			next := append(append([]byte{}, frame...), 0, 0, 0, 60)
			next = append(next, bytes.Repeat([]byte{0, 0, 0, 7, 1, 2, 3, 4, 5, 6}, 6)...)
			_, m2, _ := protocol.ReadResponse(bufio.NewReader(bytes.NewReader(next)), protocol.ApiKey(c.ApiKey), int16(c.V))
			runtime.KeepAlive(m2)
		}()
	}
	runtime.KeepAlive(msg)
	a := int64(m1.TotalAlloc - m0.TotalAlloc)
	if a > 1<<31-1 {
		a = 1<<31 - 1
	}
	res.Alloc = a
	res.Millis = time.Since(t0).Milliseconds()
	if len(res.Detail) > 300 {
		res.Detail = res.Detail[:300]
	}
	return
}

type child struct {
	cmd    *exec.Cmd
	stdin  io.WriteCloser
	out    *bufio.Reader
	stderr *bytes.Buffer
}

func startChild(args ...string) (*child, error) {
	exe, err := os.Executable()
	if err != nil {
		return nil, err
	}
	cmd := exec.Command(exe, append([]string{"wire"}, args...)...)
	cmd.Env = append(os.Environ(), fmt.Sprintf("GOMEMLIMIT=%d", childMemLimit), "GOTRACEBACK=single", "GOMAXPROCS=2")
	stdin, err := cmd.StdinPipe()
	if err != nil {
		return nil, err
	}
	stdout, err := cmd.StdoutPipe()
	if err != nil {
		return nil, err
	}
	c := &child{cmd: cmd, stdin: stdin, out: bufio.NewReaderSize(stdout, 1<<20), stderr: new(bytes.Buffer)}
	cmd.Stderr = c.stderr
	if err := cmd.Start(); err != nil {
		return nil, err
	}
	return c, nil
}

func (c *child) kill() {
	c.stdin.Close()
	c.cmd.Process.Kill()
	c.cmd.Wait()
}

// ask sends one line to the child and waits for its "R <json>" answer.  status: "ok", "fatal" (the child died; detail
// holds the head of its stderr) or "hang" (no answer within the time limit; the child is killed).  After anything but
// "ok" the child is gone and must be replaced.
func (c *child) ask(line []byte, limit time.Duration) (payload []byte, status, detail string) {
	type answer struct {
		b   []byte
		err error
	}
	ch := make(chan answer, 1)
	go func() {
		if _, err := c.stdin.Write(append(line, '\n')); err != nil {
			ch <- answer{err: err}
			return
		}
		for {
			l, err := c.out.ReadString('\n')
			if err != nil {
				ch <- answer{err: err}
				return
			}
			if strings.HasPrefix(l, "R ") {
				ch <- answer{b: []byte(l[2:])}
				return
			}
		}
	}()
	select {
	case a := <-ch:
		if a.err == nil {
			return a.b, "ok", ""
		}
		c.kill()
		detail = firstLines(c.stderr.String(), 3)
		if detail == "" {
			detail = "child died: " + a.err.Error()
		}
		return nil, "fatal", detail
	case <-time.After(limit):
		c.kill()
		return nil, "hang", fmt.Sprintf("no outcome within %s (killed)", limit)
	}
}

// Pool runs lines through child processes started with args (par at a time); handle is called with the index and either
// the child's answer or the way it died.
func Pool(args []string, lines [][]byte, par int, limit time.Duration, handle func(i int, payload []byte, status, detail string)) error {
	next := make(chan int, len(lines))
	for i := range lines {
		next <- i
	}
	close(next)
	var wg sync.WaitGroup
	var failed error
	var mu sync.Mutex
	for w := 0; w < par; w++ {
		wg.Add(1)
		go func() {
			defer wg.Done()
			var c *child
			defer func() {
				if c != nil {
					c.kill()
				}
			}()
			for i := range next {
				if c == nil {
					var err error
					if c, err = startChild(args...); err != nil {
						mu.Lock()
						failed = err
						mu.Unlock()
						return
					}
				}
				b, status, detail := c.ask(lines[i], limit)
				handle(i, b, status, detail)
				if status != "ok" {
					c = nil
				}
			}
		}()
	}
	wg.Wait()
	return failed
}

func firstLines(s string, n int) string {
	ls := strings.Split(strings.TrimSpace(s), "\n")
	if len(ls) > n {
		ls = ls[:n]
	}
	out := strings.Join(ls, " | ")
	if len(out) > 300 {
		out = out[:300]
	}
	return out
}

// FuzzMain runs every case of the file in child processes (par at a time) and writes one result line per case, in order.
func FuzzMain(cases, out string, par int) int {
	var lines [][]byte
	var ids []string
	err := ForEachLine(cases, func(b []byte) error {
		var c FuzzCase
		if err := json.Unmarshal(b, &c); err != nil {
			return err
		}
		if len(c.Crcs) > 0 {
			fr := toBytes(c.Frame)
			if err := patchCrcs(fr, c.Crcs); err != nil {
				return fmt.Errorf("%s: %v", c.ID, err)
			}
			c.Frame = tuple(fr)
		}
		nb, _ := json.Marshal(&FuzzCase{ID: c.ID, ApiKey: c.ApiKey, V: c.V, Frame: c.Frame})
		lines = append(lines, nb)
		ids = append(ids, c.ID)
		return nil
	})
	if err != nil {
		fmt.Fprintln(os.Stderr, "bad case file:", err)
		return 2
	}
	results := make([]FuzzResult, len(lines))
	failed := Pool([]string{"-mode", "fuzzchild"}, lines, par, caseTimeout, func(i int, b []byte, status, detail string) {
		r := FuzzResult{ID: ids[i]}
		if status == "ok" {
			if err := json.Unmarshal(b, &r); err != nil {
				status, detail = "fatal", "unreadable answer of the child"
			}
		}
		if status != "ok" {
			r.Outcome, r.Detail = status, detail
			if status == "fatal" {
				r.Alloc = 1<<31 - 1
			}
		}
		results[i] = r
	})
	if failed != nil {
		fmt.Fprintln(os.Stderr, "cannot start child:", failed)
		return 2
	}
	of, err := os.Create(out)
	if err != nil {
		fmt.Fprintln(os.Stderr, err)
		return 2
	}
	defer of.Close()
	w := bufio.NewWriterSize(of, 1<<20)
	defer w.Flush()
	enc := json.NewEncoder(w)
	for i := range results {
		if err := enc.Encode(&results[i]); err != nil {
			fmt.Fprintln(os.Stderr, err)
			return 2
		}
	}
	return 0
}
