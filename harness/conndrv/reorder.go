//go:build verif

package conndrv

import (
	"time"

	"verifharness/fakekafka"
	"verifharness/fakenet"
	"verifharness/kwire"
	"verifharness/trace"
)

// Out-of-order answers and parked writers (scenario family c06-reorder-*).
//
// Script.AnswerOrder lists operations; the broker holds the answer to each of them back and writes them in that order,
// each as soon as it and all answers before it in the list can be written (the requests themselves arrive in script
// order: an operation with AfterReq = o starts when the request of operation o has reached the broker).
//
// Op.HoldWrite parks the goroutine between "the request is with the broker" and "Write returned" (what a goroutine that
// is not rescheduled right after the kernel took its bytes looks like): the net.Conn the kafka.Conn is built on returns
// from Write only when
//   1. the broker has processed the request (and written every answer that request made writable), and
//   2. every other operation that is waiting for its response has looked at the response stream since (it took a
//      response, yielded, or failed).
// No sleeps: both conditions are events of the run (bounded waits only as a safety net).  While a writer is parked it
// holds the Conn's write lock, so no later request is written: the answers that can be written are exactly those whose
// requests have arrived.

type stashed struct {
	frame []byte
	ev    trace.Event
}

type reorder struct {
	stash    map[int]stashed
	next     int                   // index into AnswerOrder of the next answer to write
	nwritten int                   // answers written so far
	seen     map[int]int           // op -> nwritten at its last look at the response stream (hook events)
	arrived  map[int]bool          // the broker has processed the op's request
	reqGate  map[int]chan struct{} // closed when the op's request has been processed by the broker
	finished map[int]bool
}

func newReorder(sc *Script) *reorder {
	ro := &reorder{stash: map[int]stashed{}, seen: map[int]int{}, arrived: map[int]bool{}, reqGate: map[int]chan struct{}{}, finished: map[int]bool{}}
	for i := range sc.Ops {
		ro.reqGate[sc.Ops[i].O] = make(chan struct{})
	}
	return ro
}

func (r *run) inAnswerOrder(o int) bool {
	for _, x := range r.sc.AnswerOrder {
		if x == o {
			return true
		}
	}
	return false
}

// looked is called from the hook: operation o has just looked at the head of the response stream.
func (r *run) looked(o int) {
	r.mu.Lock()
	r.ro.seen[o] = r.ro.nwritten
	r.mu.Unlock()
}

// hold takes the answer to o's request and writes every answer that has become writable, in AnswerOrder.
func (r *run) hold(req *fakekafka.Request, rep *fakekafka.Reply, o int, ev trace.Event) *fakekafka.Reply {
	id := req.CorrID
	if rep.CorrID != nil {
		id = *rep.CorrID
	}
	var w kwire.W
	w.I32(id)
	w.Raw(rep.Body)
	r.mu.Lock()
	r.ro.stash[o] = stashed{frame: kwire.Frame(w.B), ev: ev}
	r.mu.Unlock()
	for r.ro.next < len(r.sc.AnswerOrder) {
		r.mu.Lock()
		st, ok := r.ro.stash[r.sc.AnswerOrder[r.ro.next]]
		r.mu.Unlock()
		if !ok {
			break
		}
		r.ro.next++
		r.rec.Emit(st.ev)
		req.Conn.Write(st.frame)
		r.mu.Lock()
		r.ro.nwritten++
		r.mu.Unlock()
	}
	return &fakekafka.Reply{None: true, CutAt: -1}
}

// requestProcessed marks o's request as processed by the broker (after the answers it made writable were written).
func (r *run) requestProcessed(o int) {
	r.mu.Lock()
	if !r.ro.arrived[o] {
		r.ro.arrived[o] = true
		close(r.ro.reqGate[o])
	}
	r.mu.Unlock()
}

// heldConn is the client end of the connection: Write returns when the scenario lets it.
type heldConn struct {
	*fakenet.Conn
	r *run
}

func (h *heldConn) Write(p []byte) (int, error) {
	n, err := h.Conn.Write(p)
	h.r.parkAfterWrite()
	return n, err
}

func (r *run) parkAfterWrite() {
	r.mu.Lock()
	o := r.gids[goid()]
	var op *Op
	for i := range r.sc.Ops {
		if r.sc.Ops[i].O == o && r.sc.Ops[i].HoldWrite {
			op = &r.sc.Ops[i]
		}
	}
	started := r.started
	r.mu.Unlock()
	if op == nil || !started {
		return
	}
	r.rec.Emit(trace.Event{"ev": "whold", "o": o})
	// 1. the broker has the request and has written what it made writable
	select {
	case <-r.ro.reqGate[o]:
	case <-time.After(2 * time.Second):
	}
	// 2. the waiting operations have looked at the stream as it is now
	lim := time.Now().Add(2 * time.Second)
	for time.Now().Before(lim) {
		r.mu.Lock()
		pending := false
		if r.ro.nwritten > 0 {
			for q, there := range r.ro.arrived {
				if there && q != o && !r.ro.finished[q] && r.ro.seen[q] < r.ro.nwritten {
					pending = true
				}
			}
		}
		r.mu.Unlock()
		if !pending {
			break
		}
		time.Sleep(20 * time.Microsecond)
	}
	r.rec.Emit(trace.Event{"ev": "wrelease", "o": o})
}
