//go:build verif

// Package conndrv runs scenarios on a real kafka.Conn against the fake broker:
// error-code injection followed by a probe operation (C11), concurrent
// payload-tagged operations (C06) and responses cut at a byte offset (C17).
package conndrv

import (
	"context"
	"errors"
	"fmt"
	"io"
	"runtime"
	"strconv"
	"strings"
	"sync"
	"time"

	kafka "github.com/segmentio/kafka-go"

	"verifharness/fakekafka"
	"verifharness/fakenet"
	"verifharness/krec"
	"verifharness/kwire"
	"verifharness/trace"
)

type Fault struct {
	Err     int    `json:"err,omitempty"`     // error code placed in the operation's error field
	Field   string `json:"field,omitempty"`   // which error field: "partition" (default), "topic"; Fetch v7+: "top", "top+data" (response level)
	Cut     *int   `json:"cut,omitempty"`     // deliver only this many bytes of the response frame
	DelayMs int    `json:"delayMs,omitempty"` // delay the response
	Chunks  []int  `json:"chunks,omitempty"`  // deliver the response in pieces
	Stall   int    `json:"stall,omitempty"`   // > 0: deliver this many bytes, pause StallMs, deliver the rest
	StallMs int    `json:"stallMs,omitempty"`
	Corr    int    `json:"corr,omitempty"`   // answer with correlation id = the request's + Corr (a framing error for the client)
	Report  bool   `json:"report,omitempty"` // the operation is expected to report the injected code
	// Fragmentation (no fault for the client): the complete frame is delivered in pieces, each one written only after
	// the client took the previous one from the socket, so that the client's buffered reader sees exactly these pieces.
	Splits   []int `json:"splits,omitempty"` // byte positions of the frame at which a new piece starts (ascending)
	Piece    int   `json:"piece,omitempty"`  // > 0: from position From on, pieces of this many bytes
	From     int   `json:"from,omitempty"`
	HoldRest bool  `json:"holdRest,omitempty"` // what follows the first piece is written once the next request has arrived (pipelined use)
}

func (f *Fault) fragmented() bool { return f != nil && (len(f.Splits) > 0 || f.Piece > 0) }

type Op struct {
	O          int    `json:"o"`
	G          int    `json:"g"`
	Kind       string `json:"kind"` // lastOffset firstOffset offsetAt partitions brokers controller produce fetch createTopics deleteTopics apiVersions
	Arg        int    `json:"arg,omitempty"`
	Fault      *Fault `json:"fault,omitempty"`
	DeadlineMs int    `json:"deadlineMs,omitempty"`
	SleepMs    int    `json:"sleepMs,omitempty"`    // pause before the operation starts
	HoldReqMs  int    `json:"holdReqMs,omitempty"`  // pause inside doRequest (write lock held), so that other callers queue up
	HoldWrite  bool   `json:"holdWrite,omitempty"`  // the Write of the request returns only when the scenario lets it (reorder.go)
	AfterReq   int    `json:"afterReq,omitempty"`   // start once the broker has processed this operation's request
	AfterPiece int    `json:"afterPiece,omitempty"` // start once the client took the first piece of this operation's (fragmented) response
}

// RecSpec describes one stored record of a scenario with its own data: lengths of key / value (-1: null) and headers.
type RecSpec struct {
	Off int64 `json:"off"`
	K   int   `json:"k"`
	V   int   `json:"v"`
	Hn  int   `json:"hn,omitempty"` // number of headers
	Hk  int   `json:"hk,omitempty"` // length of every header key
	Hv  int   `json:"hv,omitempty"` // length of every header value (-1: null)
}

type Script struct {
	ID       string         `json:"id"`
	Kind     string         `json:"kind"` // c11 c06 c17
	Versions map[string]int `json:"versions"`
	Ops      []Op           `json:"ops"`
	Codec    int            `json:"codec,omitempty"`
	Data     [][]RecSpec    `json:"data,omitempty"`   // the partition's batches (default: 12 small records in batches of 4)
	Poison   *Poison        `json:"poison,omitempty"` // kind "pool": the first step (pool.go)
	// AnswerOrder: the broker answers these operations in this order, whatever the order of their requests (reorder.go)
	AnswerOrder []int `json:"answerOrder,omitempty"`
}

const topic = "t"
const nrecs = 12

var apiByName = map[string]int16{"produce": 0, "fetch": 1, "listoffsets": 2, "metadata": 3, "createtopics": 19, "deletetopics": 20}

func goid() uint64 {
	var buf [64]byte
	n := runtime.Stack(buf[:], false)
	f := strings.Fields(string(buf[:n]))
	id, _ := strconv.ParseUint(f[1], 10, 64)
	return id
}

type run struct {
	sc        *Script
	rec       *trace.Recorder
	net       *fakenet.Net
	cl        *fakekafka.Cluster
	conn      *kafka.Conn
	mu        sync.Mutex
	gids      map[uint64]int
	byTag     map[string][]*Op // request signature -> ops in script order (for fault placement and reply events)
	gates     map[int]chan struct{}
	gateOnce  map[int]*sync.Once
	ro        *reorder
	frameLen  map[int]int
	lastYield map[int]string
	started   bool
	used      map[int]bool
}

var (
	runsMu sync.RWMutex
	runs   = map[*kafka.Conn]*run{}
)

func errClass(err error) (string, int) {
	var ke kafka.Error
	switch {
	case err == nil:
		return "response", 0
	case errors.As(err, &ke):
		return "kafkaError", int(ke)
	case errors.Is(err, io.ErrNoProgress):
		return "noProgress", 0
	}
	return "ioError", 0
}

// InstallHook routes Conn hook events to the owning run.
func InstallHook(prev func(string, ...interface{})) func(string, ...interface{}) {
	return func(ev string, args ...interface{}) {
		if len(args) > 0 {
			if c, ok := args[0].(*kafka.Conn); ok {
				runsMu.RLock()
				r := runs[c]
				runsMu.RUnlock()
				if r != nil {
					r.hook(ev, args[1:])
				}
				return
			}
		}
		if prev != nil {
			prev(ev, args...)
		}
	}
}

func (r *run) opOfG() int {
	r.mu.Lock()
	defer r.mu.Unlock()
	return r.gids[goid()]
}

func (r *run) hook(ev string, a []interface{}) {
	switch ev {
	case "conn.req.begin":
		o := r.opOfG()
		r.rec.Emit(trace.Event{"ev": "reqbegin", "o": o, "id": int(a[0].(int32))})
		if r.sc != nil {
			for i := range r.sc.Ops {
				if r.sc.Ops[i].O == o && r.sc.Ops[i].HoldReqMs > 0 {
					time.Sleep(time.Duration(r.sc.Ops[i].HoldReqMs) * time.Millisecond)
				}
			}
		}
	case "conn.req":
		err, _ := a[1].(error)
		r.rec.Emit(trace.Event{"ev": "req", "o": r.opOfG(), "id": int(a[0].(int32)), "ok": err == nil})
	case "conn.take":
		defer r.looked(r.opOfG())
		r.rec.Emit(trace.Event{"ev": "take", "o": r.opOfG(), "id": int(a[0].(int32)), "size": a[1].(int)})
	case "conn.yield":
		// busy loop in waitResponse: one event per change of the observed id is enough
		r.mu.Lock()
		key := fmt.Sprintf("%d/%d", a[0], a[1])
		o := r.gids[goid()]
		dup := r.lastYield[o] == key
		r.lastYield[o] = key
		r.ro.seen[o] = r.ro.nwritten
		r.mu.Unlock()
		if !dup {
			r.rec.Emit(trace.Event{"ev": "yield", "o": o, "id": int(a[0].(int32)), "rid": int(a[1].(int32))})
		}
	case "conn.noprogress":
		defer r.looked(r.opOfG())
		r.rec.Emit(trace.Event{"ev": "noprogress", "o": r.opOfG(), "id": int(a[0].(int32)), "rid": int(a[1].(int32))})
	case "conn.peekerr":
		defer r.looked(r.opOfG())
		r.rec.Emit(trace.Event{"ev": "peekerr", "o": r.opOfG(), "id": int(a[0].(int32))})
	case "conn.done":
		err, _ := a[1].(error)
		cls, code := errClass(err)
		r.rec.Emit(trace.Event{"ev": "done", "o": r.opOfG(), "id": int(a[0].(int32)), "result": cls, "code": code})
	case "batch.close":
		err, _ := a[1].(error)
		cls, code := errClass(err)
		if errors.Is(err, io.ErrShortBuffer) {
			// the application's buffer was too small: the batch reports it, the rest of the response is drained and the
			// Conn stays open -- for the connection this is a completely read response
			cls = "response"
		}
		r.rec.Emit(trace.Event{"ev": "done", "o": r.opOfG(), "id": 0, "result": cls, "code": code, "batch": true})
	}
}

func tsOf(k int) int64 { return 1_600_000_000_000 + int64(k)*1000 }

func valueOf(off int64) []byte {
	return []byte(fmt.Sprintf("rec-%d-%s", off, strings.Repeat("v", int(off%7))))
}

// fill returns n bytes that depend on the record and the field (nil for n < 0).
func fill(tag string, off int64, n int) []byte {
	if n < 0 {
		return nil
	}
	pat := fmt.Sprintf("%s%d|", tag, off)
	out := make([]byte, n)
	for i := range out {
		out[i] = pat[i%len(pat)]
	}
	return out
}

func specRec(x RecSpec) krec.Rec {
	r := krec.Rec{Offset: x.Off, TsMs: tsOf(int(x.Off)), Key: fill("k", x.Off, x.K), Value: fill("v", x.Off, x.V)}
	for h := 0; h < x.Hn; h++ {
		r.Headers = append(r.Headers, krec.Hdr{Key: string(fill(fmt.Sprintf("h%d.", h), x.Off, x.Hk)), Value: fill(fmt.Sprintf("w%d.", h), x.Off, x.Hv)})
	}
	return r
}

// sameMessage compares a message returned by the library with the stored record.
func sameMessage(m kafka.Message, want krec.Rec) bool {
	if m.Offset != want.Offset || m.Time.UnixMilli() != want.TsMs || len(m.Headers) != len(want.Headers) {
		return false
	}
	if string(m.Key) != string(want.Key) || string(m.Value) != string(want.Value) {
		return false
	}
	for i, h := range m.Headers {
		if h.Key != want.Headers[i].Key || string(h.Value) != string(want.Headers[i].Value) {
			return false
		}
	}
	return true
}

// newCluster builds the (deterministic) cluster every scenario starts from.
func newCluster(sc *Script) (*fakenet.Net, *fakekafka.Cluster) {
	n := fakenet.NewNet()
	cl := fakekafka.NewCluster(n, 2)
	vs := fakekafka.DefaultVersions()
	for name, max := range sc.Versions {
		if k, ok := apiByName[name]; ok {
			vs[k] = fakekafka.VersionRange{Min: 0, Max: int16(max)}
		}
	}
	cl.Versions = vs
	t := cl.AddTopic(topic, 1)
	p := t.Partitions[0]
	p.Leader, p.Replicas, p.ISR = 1, []int{1, 2}, []int{1, 2}
	var recs []krec.Rec
	for i := 0; i < nrecs && sc.Data == nil; i++ {
		recs = append(recs, krec.Rec{Offset: int64(i), TsMs: tsOf(i), Key: []byte(fmt.Sprintf("k%d", i)), Value: valueOf(int64(i))})
		if len(recs) == 4 {
			p.AppendV2(recs, sc.Codec)
			recs = nil
		}
	}
	for _, b := range sc.Data {
		recs = nil
		for _, x := range b {
			recs = append(recs, specRec(x))
		}
		if len(recs) > 0 {
			p.AppendV2(recs, sc.Codec)
		}
	}
	for i := 1; i <= 6; i++ {
		tt := cl.AddTopic(fmt.Sprintf("topic%d", i), i)
		for _, pp := range tt.Partitions {
			pp.Leader = 1 + pp.ID%2
		}
	}
	return n, cl
}

// signature of a request as the broker sees it, used to find the operation it belongs to
func signature(req *fakekafka.Request) string {
	r := kwire.R{B: req.Body}
	switch req.ApiKey {
	case fakekafka.ListOffsets:
		r.I32()
		if r.ArrayLen() > 0 {
			r.Str()
			if r.ArrayLen() > 0 {
				r.I32()
				return fmt.Sprintf("list:%d", r.I64())
			}
		}
	case fakekafka.Metadata:
		n := r.ArrayLen()
		if n > 0 {
			return "meta:" + r.Str()
		}
		return "meta:"
	case fakekafka.Produce:
		return "produce"
	case fakekafka.Fetch:
		return "fetch"
	case fakekafka.CreateTopics:
		return "create"
	case fakekafka.DeleteTopics:
		return "delete"
	case fakekafka.ApiVersions:
		return "apiversions"
	}
	return ""
}

func opSignature(op *Op) string {
	switch op.Kind {
	case "lastOffset":
		return "list:-1"
	case "firstOffset":
		return "list:-2"
	case "offsetAt":
		return fmt.Sprintf("list:%d", tsOf(op.Arg))
	case "partitions":
		return fmt.Sprintf("meta:topic%d", op.Arg)
	case "partitionsOwn":
		return "meta:" + topic
	case "brokers", "controller":
		return "meta:"
	case "produce":
		return "produce"
	case "fetch", "fetchShort", "fetchPartial", "fetchClose2":
		return "fetch"
	case "createTopics":
		return "create"
	case "deleteTopics":
		return "delete"
	case "apiVersions":
		return "apiversions"
	}
	return ""
}

// errorBody builds the response body carrying the injected error code for the request.
func (r *run) faultReply(req *fakekafka.Request, op *Op) *fakekafka.Reply {
	f := op.Fault
	if f == nil {
		return nil
	}
	c := r.cl
	if f.Err != 0 {
		c.Lock()
		p := c.Part(topic, 0)
		switch req.ApiKey {
		case fakekafka.ListOffsets:
			p.ListErr = int16(f.Err)
			defer func() { c.Lock(); p.ListErr = 0; c.Unlock() }()
		case fakekafka.Fetch:
			if f.Field != "top" && f.Field != "top+data" {
				p.FetchPlan = append([]fakekafka.FetchFault{{Err: int16(f.Err)}}, p.FetchPlan...)
			}
		case fakekafka.Produce:
			p.ProducePlan = append([]fakekafka.ProduceFault{{Err: int16(f.Err)}}, p.ProducePlan...)
		case fakekafka.Metadata:
			if f.Field == "partition" {
				p.Err = int16(f.Err)
				defer func() { c.Lock(); p.Err = 0; c.Unlock() }()
			}
		}
		c.Unlock()
		if req.ApiKey == fakekafka.Metadata && f.Field != "partition" {
			rep := metadataTopicError(req, int16(f.Err))
			return &rep
		}
		if req.ApiKey == fakekafka.CreateTopics || req.ApiKey == fakekafka.DeleteTopics {
			rep := topicsError(req, int16(f.Err))
			return &rep
		}
	}
	rep := req.Broker.Handle(req)
	if req.ApiKey == fakekafka.ApiVersions && f.Err != 0 && len(rep.Body) >= 2 {
		// the error code of an ApiVersions response is its first field; the list of versions follows it all the same
		rep.Body = append([]byte{byte(uint16(f.Err) >> 8), byte(f.Err)}, rep.Body[2:]...)
	}
	if req.ApiKey == fakekafka.Fetch && f.Err != 0 && (f.Field == "top" || f.Field == "top+data") && req.Version >= 7 && len(rep.Body) >= 10 {
		// the response-level error code of Fetch v7+ follows the throttle time.  "top": throttle, error code, session
		// id, empty topic array (what a broker sends); "top+data": the partition data is left in place behind the
		// error code (the tail the client has to skip is longer)
		var w kwire.W
		w.Raw(rep.Body[:4])
		w.I16(int16(f.Err))
		w.I32(0)
		if f.Field == "top" {
			w.ArrayLen(0)
		} else {
			w.Raw(rep.Body[10:])
		}
		rep.Body = w.B
	}
	if f.Cut != nil {
		rep.CutAt = *f.Cut
	}
	if f.DelayMs > 0 {
		rep.Delay = time.Duration(f.DelayMs) * time.Millisecond
	}
	if len(f.Chunks) > 0 {
		rep.Chunks = f.Chunks
	}
	if f.Stall > 0 {
		rep.StallAt, rep.StallFor = f.Stall, time.Duration(f.StallMs)*time.Millisecond
	}
	if f.Corr != 0 {
		id := req.CorrID + int32(f.Corr)
		rep.CorrID = &id
	}
	return &rep
}

// openGate lets the operations waiting for the first piece of o's response start.
func (r *run) openGate(o int) {
	if once := r.gateOnce[o]; once != nil {
		once.Do(func() { close(r.gates[o]) })
	}
}

// deliverPieces writes the complete response frame in pieces and records how far the delivery got: "reply" (nothing
// delivered yet), "replyhdr" (size and correlation id are there), "replyrest" (all of it), each right before the write
// that makes it true.  Two ways of pacing:
//   - fragmentation faults (Splits / Piece): a piece is written when the client has taken everything written before from
//     the socket: its buffered reader then holds exactly the pieces delivered so far, whatever the scheduling, and the
//     position at which it has to wait for more is the split position;
//   - Chunks: short pauses between the pieces (time for the other goroutines of the scenario to interleave).
func (r *run) deliverPieces(req *fakekafka.Request, rep *fakekafka.Reply, op *Op, ev trace.Event) *fakekafka.Reply {
	f := op.Fault
	conn := req.Conn
	if rep.Delay > 0 {
		select {
		case <-time.After(rep.Delay):
		case <-conn.Done():
		}
	}
	if conn.IsClosed() {
		return &fakekafka.Reply{Close: true, CutAt: -1}
	}
	id := req.CorrID
	if rep.CorrID != nil {
		id = *rep.CorrID
	}
	var w kwire.W
	w.I32(id)
	w.Raw(rep.Body)
	frame := kwire.Frame(w.B)
	paced := !f.fragmented()
	var cuts []int
	if paced {
		k := 0
		for _, n := range f.Chunks {
			k += n
			cuts = append(cuts, k)
		}
	} else {
		cuts = append(cuts, f.Splits...)
		if f.Piece > 0 {
			for k := f.From; k < len(frame); k += f.Piece {
				cuts = append(cuts, k)
			}
		}
	}
	taken := func() {
		lim := time.Now().Add(1500 * time.Millisecond)
		for n := 0; conn.PeerUnread() > 0 && !conn.IsClosed() && time.Now().Before(lim); n++ {
			if n < 20 {
				runtime.Gosched()
			} else {
				time.Sleep(20 * time.Microsecond)
			}
		}
	}
	o, cid := ev["o"], int(req.CorrID)
	ev["cut"], ev["pieces"] = 0, true
	r.rec.Emit(ev)
	hdr := false
	write := func(from, to int) {
		if to >= len(frame) {
			r.rec.Emit(trace.Event{"ev": "replyrest", "o": o, "id": cid})
		} else if to >= 8 && !hdr {
			hdr = true
			r.rec.Emit(trace.Event{"ev": "replyhdr", "o": o, "id": cid})
		}
		conn.Write(frame[from:to])
	}
	pos, first := 0, true
	for _, k := range cuts {
		if k <= pos || k >= len(frame) {
			continue
		}
		write(pos, k)
		pos = k
		if paced {
			time.Sleep(2 * time.Millisecond)
			continue
		}
		taken()
		if first {
			first = false
			r.openGate(op.O)
			if f.HoldRest {
				lim := time.Now().Add(1500 * time.Millisecond)
				for conn.BytesUnread() == 0 && !conn.IsClosed() && time.Now().Before(lim) {
					time.Sleep(50 * time.Microsecond)
				}
			}
		}
	}
	r.openGate(op.O)
	write(pos, len(frame))
	return &fakekafka.Reply{None: true, CutAt: -1}
}

func metadataTopicError(req *fakekafka.Request, code int16) fakekafka.Reply {
	r := kwire.R{B: req.Body}
	n := r.ArrayLen()
	var names []string
	for i := 0; i < n; i++ {
		names = append(names, r.Str())
	}
	var w kwire.W
	if req.Version >= 3 {
		w.I32(0)
	}
	w.ArrayLen(1)
	w.I32(1)
	w.Str("b1")
	w.I32(9092)
	if req.Version >= 1 {
		w.NStr(nil)
	}
	if req.Version >= 2 {
		s := "fake"
		w.NStr(&s)
	}
	if req.Version >= 1 {
		w.I32(1)
	}
	w.ArrayLen(len(names))
	for _, name := range names {
		w.I16(code)
		w.Str(name)
		if req.Version >= 1 {
			w.Bool(false)
		}
		w.ArrayLen(0)
	}
	return fakekafka.Body(w.B)
}

func topicsError(req *fakekafka.Request, code int16) fakekafka.Reply {
	var w kwire.W
	if (req.ApiKey == fakekafka.CreateTopics && req.Version >= 2) || (req.ApiKey == fakekafka.DeleteTopics && req.Version >= 1) {
		w.I32(0)
	}
	w.ArrayLen(1)
	w.Str("newtopic")
	w.I16(code)
	if req.ApiKey == fakekafka.CreateTopics && req.Version >= 1 {
		w.NStr(nil)
	}
	return fakekafka.Body(w.B)
}

type result struct {
	cls  string
	code int
	own  bool
	info string
	nrec int
}

// exec performs one operation on the Conn and compares the payload with what the
// cluster state says the answer to *this* request is.
func (r *run) exec(conn *kafka.Conn, cl *fakekafka.Cluster, op *Op) (res result) {
	defer func() {
		if p := recover(); p != nil {
			res = result{cls: "panic", info: fmt.Sprint(p)}
		}
	}()
	cl.Lock()
	p := cl.Part(topic, 0)
	hw, start := p.HW, p.LogStart
	var stored []krec.Rec
	if r.sc != nil && r.sc.Data != nil {
		stored = p.AllRecords()
	}
	cl.Unlock()
	// the stored record at (or, in a log with gaps, first after) an offset
	storedFrom := func(off int64) []krec.Rec {
		for i := range stored {
			if stored[i].Offset >= off {
				return stored[i:]
			}
		}
		return nil
	}
	switch op.Kind {
	case "lastOffset":
		v, err := conn.ReadLastOffset()
		res.cls, res.code = errClass(err)
		res.own = v == hw
		res.info = fmt.Sprint(v)
	case "firstOffset":
		v, err := conn.ReadFirstOffset()
		res.cls, res.code = errClass(err)
		res.own = v == start
		res.info = fmt.Sprint(v)
	case "offsetAt":
		v, err := conn.ReadOffset(time.UnixMilli(tsOf(op.Arg)))
		res.cls, res.code = errClass(err)
		res.own = v == int64(op.Arg)
		res.info = fmt.Sprint(v)
	case "partitions", "partitionsOwn":
		name := fmt.Sprintf("topic%d", op.Arg)
		want := op.Arg
		if op.Kind == "partitionsOwn" {
			name, want = topic, 1
		}
		ps, err := conn.ReadPartitions(name)
		res.cls, res.code = errClass(err)
		res.own = len(ps) == want
		for _, q := range ps {
			wantLeader := 1 + q.ID%2
			if op.Kind == "partitionsOwn" {
				wantLeader = 1
			}
			if q.Topic != name || q.Leader.ID != wantLeader {
				res.own = false
			}
		}
		res.info = fmt.Sprintf("%s:%d", name, len(ps))
	case "brokers":
		bs, err := conn.Brokers()
		res.cls, res.code = errClass(err)
		res.own = len(bs) == 2
		res.info = fmt.Sprint(len(bs))
	case "controller":
		b, err := conn.Controller()
		res.cls, res.code = errClass(err)
		res.own = b.ID == 1
	case "apiVersions":
		vs, err := conn.ApiVersions()
		res.cls, res.code = errClass(err)
		res.own = len(vs) == len(cl.Versions)
	case "produce":
		val := []byte(fmt.Sprintf("produced-%d", op.O))
		_, _, off, _, err := conn.WriteCompressedMessagesAt(nil, kafka.Message{Value: val})
		res.cls, res.code = errClass(err)
		res.own = off == hw
		res.info = fmt.Sprint(off)
	case "createTopics":
		err := conn.CreateTopics(kafka.TopicConfig{Topic: "newtopic", NumPartitions: 2, ReplicationFactor: 1})
		res.cls, res.code = errClass(err)
		res.own = true
	case "deleteTopics":
		err := conn.DeleteTopics("topic6")
		res.cls, res.code = errClass(err)
		res.own = true
	case "fetch":
		from := int64(op.Arg)
		if _, err := conn.Seek(from, kafka.SeekAbsolute|kafka.SeekDontCheck); err != nil {
			res.cls, res.code = errClass(err)
			return
		}
		b := conn.ReadBatch(1, 1<<20)
		own := true
		next := from
		n := 0
		var rerr error
		for {
			m, err := b.ReadMessage()
			if err != nil {
				rerr = err
				break
			}
			if stored != nil {
				// scenario with its own data: the n-th message is the n-th stored record from the requested offset on
				if w := storedFrom(from); n >= len(w) || !sameMessage(m, w[n]) {
					own = false
				}
			} else if m.Offset != next || string(m.Value) != string(valueOf(m.Offset)) || m.Time.UnixMilli() != tsOf(int(m.Offset)) {
				own = false
			}
			next = m.Offset + 1
			n++
		}
		if stored != nil && n > 0 {
			if w := storedFrom(from); n == len(w) {
				next = hw // every stored record was returned
			} else if next == hw {
				next = -1
			}
		}
		cerr := b.Close()
		if cerr != nil {
			rerr = cerr
		} else if errors.Is(rerr, io.EOF) {
			rerr = nil
		}
		res.cls, res.code = errClass(rerr)
		res.nrec = n
		res.own = own && (rerr != nil || next == hw)
		res.info = fmt.Sprintf("from=%d n=%d", from, n)
	case "fetchShort", "fetchPartial", "fetchClose2":
		// a batch that the application does not read to its end: Read with a buffer that is too small for the first
		// message (io.ErrShortBuffer, the Conn stays usable), or one message of several and Close (once / twice)
		from := int64(op.Arg)
		if _, err := conn.Seek(from, kafka.SeekAbsolute|kafka.SeekDontCheck); err != nil {
			res.cls, res.code = errClass(err)
			return
		}
		b := conn.ReadBatch(1, 1<<20)
		var rerr error
		if op.Kind == "fetchShort" {
			_, err := b.Read(make([]byte, 3))
			if !errors.Is(err, io.ErrShortBuffer) {
				rerr = fmt.Errorf("Read with a 3-byte buffer: %v", err)
				if err != nil {
					rerr = err
				}
			}
			res.own = errors.Is(err, io.ErrShortBuffer)
		} else {
			m, err := b.ReadMessage()
			rerr = err
			res.own = err == nil && m.Offset == from && string(m.Value) == string(valueOf(m.Offset))
			if stored != nil {
				w := storedFrom(from)
				res.own = err == nil && len(w) > 0 && sameMessage(m, w[0])
			}
			res.nrec = 1
		}
		cerr := b.Close()
		if op.Kind == "fetchClose2" {
			b.Close()
		}
		if rerr == nil && cerr != nil && !errors.Is(cerr, io.ErrShortBuffer) {
			rerr = cerr
		}
		res.cls, res.code = errClass(rerr)
		res.info = fmt.Sprintf("%s from=%d", op.Kind, from)
	default:
		res = result{cls: "ioError", info: "unknown op"}
	}
	return
}

func (r *run) timed(conn *kafka.Conn, cl *fakekafka.Cluster, op *Op) result {
	ch := make(chan result, 1)
	go func() {
		r.mu.Lock()
		r.gids[goid()] = op.O
		r.mu.Unlock()
		d := 700 * time.Millisecond
		if op.DeadlineMs > 0 {
			d = time.Duration(op.DeadlineMs) * time.Millisecond
		}
		conn.SetDeadline(time.Now().Add(d))
		ch <- r.exec(conn, cl, op)
	}()
	select {
	case x := <-ch:
		return x
	case <-time.After(6 * time.Second):
		return result{cls: "hang"}
	}
}

func dial(n *fakenet.Net) (*kafka.Conn, *fakenet.Conn, error) {
	nc, err := n.DialContext(context.Background(), "tcp", "b1:9092")
	if err != nil {
		return nil, nil, err
	}
	return kafka.NewConnWith(nc, kafka.ConnConfig{ClientID: "vh", Topic: topic, Partition: 0}), nc.(*fakenet.Conn), nil
}

// setup builds cluster, connection and the fault-injecting intercept for a script.
func setup(sc *Script) (*run, *fakenet.Conn, error) {
	r := &run{sc: sc, rec: trace.New(), gids: map[uint64]int{}, byTag: map[string][]*Op{}, gates: map[int]chan struct{}{}, gateOnce: map[int]*sync.Once{}, lastYield: map[int]string{}, frameLen: map[int]int{}, used: map[int]bool{}}
	r.net, r.cl = newCluster(sc)
	for i := range sc.Ops {
		op := &sc.Ops[i]
		r.byTag[opSignature(op)] = append(r.byTag[opSignature(op)], op)
		if op.Fault.fragmented() {
			r.gates[op.O], r.gateOnce[op.O] = make(chan struct{}), new(sync.Once)
		}
	}
	r.ro = newReorder(sc)
	conn, nc, err := dial(r.net)
	for i := range sc.Ops {
		if sc.Ops[i].HoldWrite && err == nil {
			// the same connection, with a client end whose Write returns when the scenario lets it
			conn = kafka.NewConnWith(&heldConn{Conn: nc, r: r}, kafka.ConnConfig{ClientID: "vh", Topic: topic, Partition: 0})
			break
		}
	}
	if err != nil {
		return r, nil, err
	}
	r.conn = conn
	runsMu.Lock()
	runs[conn] = r
	runsMu.Unlock()
	r.cl.Intercept = func(req *fakekafka.Request) *fakekafka.Reply {
		if req.ConnSeq == 0 {
			req.Conn.OnClose = func() { r.rec.Emit(trace.Event{"ev": "peerclosed"}) }
		}
		sig := signature(req)
		var op *Op
		r.mu.Lock()
		if list := r.byTag[sig]; len(list) > 0 {
			// the k-th request with a signature belongs to the k-th operation with it; with one such operation (every
			// scenario but the fragmentation ones) a further request with the same signature belongs to none
			op = list[len(list)-1]
			if len(list) > 1 {
				for _, x := range list {
					if !r.used[x.O] {
						op = x
						break
					}
				}
			}
		}
		if !r.started || (op != nil && r.used[op.O]) {
			op = nil // warm-up traffic, or a second request with the same signature
		}
		if op != nil {
			r.used[op.O] = true
		}
		r.mu.Unlock()
		o := 0
		if op != nil {
			o = op.O
		}
		unread := req.Conn.PeerUnread()
		var rep *fakekafka.Reply
		if op != nil && op.Fault != nil {
			rep = r.faultReply(req, op)
		}
		if rep == nil {
			x := req.Broker.Handle(req)
			rep = &x
		}
		kerr := op != nil && op.Fault != nil && op.Fault.Err != 0 && op.Fault.Report
		cut := -1
		if rep.CutAt >= 0 {
			cut = rep.CutAt
		}
		flen := 8 + len(rep.Body)
		ev := trace.Event{"ev": "reply", "o": o, "id": int(req.CorrID), "api": int(req.ApiKey), "v": int(req.Version),
			"kerr": kerr, "cut": cut, "len": flen, "unread": unread, "sig": sig, "rid": int(req.CorrID)}
		if rep.CorrID != nil {
			ev["rid"] = int(*rep.CorrID)
		}
		if op != nil && r.inAnswerOrder(op.O) && rep.CutAt < 0 && rep.StallAt == 0 && !rep.None && !rep.Close && rep.Raw == nil && rep.Gate == nil && rep.Lazy == nil {
			// held back and written in the scenario's answer order
			res := r.hold(req, rep, op.O, ev)
			r.requestProcessed(op.O)
			return res
		}
		if op != nil {
			r.requestProcessed(op.O)
		}
		if op != nil && (op.Fault.fragmented() || (op.Fault != nil && len(rep.Chunks) > 0)) && rep.CutAt < 0 && rep.StallAt == 0 && !rep.None && !rep.Close && rep.Raw == nil && rep.Gate == nil && rep.Lazy == nil {
			// delivered here, piece by piece, so that the trace says how much of the frame had been delivered when
			return r.deliverPieces(req, rep, op, ev)
		}
		rep.OnSend = func() { r.rec.Emit(ev) }
		if rep.StallAt > 0 {
			// the first piece is what a cut at that byte would deliver; the rest follows after the pause
			st := rep.StallAt
			if st > flen-1 {
				st = flen - 1
			}
			ev["cut"] = st
			id := int(req.CorrID)
			rep.OnRest = func() { r.rec.Emit(trace.Event{"ev": "replyrest", "o": o, "id": id}) }
		}
		return rep
	}
	return r, nc, nil
}

func (r *run) teardown() {
	runsMu.Lock()
	delete(runs, r.conn)
	runsMu.Unlock()
	r.conn.Close()
}

// Run executes one scenario and returns its trace.
func Run(sc *Script) []trace.Event {
	if sc.Kind == "pool" {
		return RunPool(sc)
	}
	r, nc, err := setup(sc)
	vs := map[string]interface{}{}
	for k, v := range sc.Versions {
		vs[k] = v
	}
	ops := make([]interface{}, len(sc.Ops))
	for i := range sc.Ops {
		op := &sc.Ops[i]
		f := map[string]interface{}{"err": 0, "cut": -1, "report": false, "stall": 0, "corr": 0, "split": op.Fault.fragmented()}
		if op.Fault != nil {
			f["stall"] = op.Fault.Stall
			f["corr"] = op.Fault.Corr
			f["err"] = op.Fault.Err
			f["report"] = op.Fault.Report
			if op.Fault.Cut != nil {
				f["cut"] = *op.Fault.Cut
			}
		}
		ops[i] = map[string]interface{}{"o": op.O, "g": op.G, "kind": op.Kind, "fault": f}
	}
	r.rec.Emit(trace.Event{"ev": "cfg", "id": sc.ID, "kind": sc.Kind, "versions": vs, "ops": ops, "nops": len(sc.Ops)})
	if err != nil {
		r.rec.Emit(trace.Event{"ev": "end", "error": err.Error()})
		return r.rec.Events()
	}
	conn := r.conn
	defer r.teardown()

	// version negotiation happens on first use; do it up front so that scenarios start from a known point
	warm := func(r *run) error {
		r.mu.Lock()
		r.gids[goid()] = 0
		r.mu.Unlock()
		r.conn.SetDeadline(time.Now().Add(2 * time.Second))
		if _, err := r.conn.ApiVersions(); err != nil {
			return err
		}
		_, err := r.conn.ReadPartitions()
		r.mu.Lock()
		r.started = true
		r.mu.Unlock()
		return err
	}
	if err := warm(r); err != nil {
		r.rec.Emit(trace.Event{"ev": "end", "error": "warm-up: " + err.Error()})
		return r.rec.Events()
	}
	r.rec.Emit(trace.Event{"ev": "start"})

	// baseline: what each operation (with its own injected fault) returns on a fresh connection to an identical cluster
	fresh := map[int]result{}
	concurrent := sc.Kind == "c06" || sc.Kind == "c11p"
	if sc.Kind == "c11" || sc.Kind == "c11p" {
		for i := range sc.Ops {
			// (alone, and with its response delivered in one piece: fragmentation is not a fault)
			one := sc.Ops[i]
			one.AfterPiece = 0
			if one.Fault.fragmented() {
				f := *one.Fault
				f.Splits, f.Piece, f.HoldRest = nil, 0, false
				one.Fault = &f
			}
			sub := &Script{ID: sc.ID, Kind: "c11", Versions: sc.Versions, Codec: sc.Codec, Data: sc.Data, Ops: []Op{one}}
			fr, _, err := setup(sub)
			if err != nil {
				continue
			}
			if warm(fr) == nil {
				fresh[sc.Ops[i].O] = fr.timed(fr.conn, fr.cl, &sub.Ops[0])
			}
			fr.teardown()
		}
	}

	emitEnd := func(op *Op, res result) {
		e := trace.Event{"ev": "opend", "o": op.O, "kind": op.Kind, "result": res.cls, "code": res.code, "own": res.own,
			"info": res.info, "nrec": res.nrec, "freshResult": "", "freshOwn": false, "freshNrec": 0, "closed": nc.IsClosed()}
		if f, ok := fresh[op.O]; ok {
			e["freshResult"], e["freshOwn"], e["freshNrec"] = f.cls, f.own, f.nrec
		}
		r.rec.Emit(e)
	}

	byG := map[int][]*Op{}
	var gs []int
	for i := range sc.Ops {
		op := &sc.Ops[i]
		if _, ok := byG[op.G]; !ok {
			gs = append(gs, op.G)
		}
		byG[op.G] = append(byG[op.G], op)
	}
	var wg sync.WaitGroup
	startAll := make(chan struct{})
	if !concurrent {
		close(startAll)
	}
	for _, g := range gs {
		wg.Add(1)
		go func(list []*Op) {
			defer wg.Done()
			<-startAll
			for _, op := range list {
				if op.SleepMs > 0 {
					time.Sleep(time.Duration(op.SleepMs) * time.Millisecond)
				}
				if g := r.ro.reqGate[op.AfterReq]; g != nil {
					select {
					case <-g:
					case <-time.After(3 * time.Second):
					}
				}
				if g := r.gates[op.AfterPiece]; g != nil {
					select {
					case <-g:
					case <-time.After(2 * time.Second):
					}
				}
				r.rec.Emit(trace.Event{"ev": "opbegin", "o": op.O, "kind": op.Kind})
				res := r.timed(conn, r.cl, op)
				r.mu.Lock()
				r.ro.finished[op.O] = true
				r.mu.Unlock()
				emitEnd(op, res)
			}
		}(byG[g])
		if !concurrent {
			wg.Wait() // sequential scenarios: one goroutine after the other
		}
	}
	if concurrent {
		close(startAll)
	}
	wg.Wait()
	r.rec.Emit(trace.Event{"ev": "end", "closed": nc.IsClosed()})
	return r.rec.Events()
}
