//go:build verif

package conndrv

import (
	"context"
	"errors"
	"fmt"
	"io"
	"time"

	kafka "github.com/segmentio/kafka-go"

	"verifharness/fakekafka"
	"verifharness/fakenet"
	"verifharness/krec"
	"verifharness/trace"
)

// Poison is the first step of a "pool" scenario, the one that may leave the process-wide buffer pool in a bad state.
// Default (nil or mode "close2"): a batch read partly and closed twice.  Otherwise a fetch whose response is such that
// the header of its FIRST message / record batch cannot be read, closed once, on a connection of its own:
//
//	"trunc": the record set is N bytes long (what a broker does at MaxBytes);
//	"cut":   the connection is lost N bytes into the record set;
//	"stall": N bytes of the record set arrive, the rest only long after the deadline.
//
// Magic is the format of the data of that fetch (0, 1: message sets of topic "old"; 2: record batches of topic "t").
type Poison struct {
	Mode  string `json:"mode"`
	N     int    `json:"n"`
	Magic int    `json:"magic"`
}

const oldTopic = "old"

// fetchSetPos is the position, in the response frame, of the first byte of the record set of a single-partition fetch.
func fetchSetPos(version int16, topicName string) int {
	switch {
	case version >= 7:
		return 66 + len(topicName)
	case version >= 5:
		return 60 + len(topicName)
	case version >= 4:
		return 52 + len(topicName)
	case version >= 1:
		return 40 + len(topicName)
	}
	return 36 + len(topicName)
}

// poisonFetch performs the failed-first-header fetch and closes the broken batch once.
func poisonFetch(sc *Script, n *fakenet.Net, cl *fakekafka.Cluster) (err error, closed bool) {
	po := sc.Poison
	name := topic
	if po.Magic < 2 {
		name = oldTopic
		cl.Lock()
		t := cl.Topics[oldTopic]
		cl.Unlock()
		if t == nil {
			t = cl.AddTopic(oldTopic, 1)
			p := t.Partitions[0]
			p.Leader, p.Replicas, p.ISR = 1, []int{1}, []int{1}
			var recs []krec.Rec
			for i := 0; i < 4; i++ {
				recs = append(recs, krec.Rec{Offset: int64(i), TsMs: tsOf(i), Key: []byte(fmt.Sprintf("k%d", i)), Value: valueOf(int64(i))})
			}
			p.AppendBatch(fakekafka.PBatch{Base: 0, Last: 3, Records: recs, Bytes: krec.SetV01(int8(po.Magic), recs), Magic: int8(po.Magic)})
		}
	}
	if po.Mode == "trunc" {
		cl.Lock()
		p := cl.Part(name, 0)
		p.FetchPlan = append([]fakekafka.FetchFault{{TruncAt: po.N}}, p.FetchPlan...)
		cl.Unlock()
	} else {
		armed := true
		cl.Lock()
		defer func() { cl.Lock(); cl.Intercept = nil; cl.Unlock() }()
		cl.Intercept = func(req *fakekafka.Request) *fakekafka.Reply {
			if req.ApiKey != fakekafka.Fetch || !armed {
				return nil
			}
			armed = false
			rep := req.Broker.Handle(req)
			at := fetchSetPos(req.Version, name) + po.N
			if po.Mode == "cut" {
				rep.CutAt = at
			} else {
				rep.StallAt, rep.StallFor = at, 1500*time.Millisecond
			}
			return &rep
		}
		cl.Unlock()
	}
	nc, derr := n.DialContext(context.Background(), "tcp", "b1:9092")
	if derr != nil {
		return derr, true
	}
	c := kafka.NewConnWith(nc, kafka.ConnConfig{ClientID: "vh", Topic: name, Partition: 0})
	defer c.Close()
	c.SetDeadline(time.Now().Add(2 * time.Second))
	if _, err := c.ApiVersions(); err != nil { // (version negotiation up front, under a deadline that cannot expire)
		return err, true
	}
	if po.Mode == "stall" {
		c.SetDeadline(time.Now().Add(60 * time.Millisecond))
	}
	c.Seek(0, kafka.SeekAbsolute|kafka.SeekDontCheck)
	b := c.ReadBatch(1, 1<<20)
	_, err = b.ReadMessage()
	cerr := b.Close()
	if err == nil || errors.Is(err, io.EOF) {
		err = cerr
	}
	return err, nc.(*fakenet.Conn).IsClosed()
}

// RunPool is the scenario kind "pool": two Conns of one process read compressed batches at the same time after a
// Batch was closed twice.  Buffers the library recycles between batches (decompression buffers, pages) must never be
// shared by two live readers: every message a Conn returns is the one stored at that offset (C06: no call receives
// another call's data).  Everything runs in one goroutine in a fixed order.
func RunPool(sc *Script) []trace.Event {
	rec := trace.New()
	n, cl := newCluster(sc)
	ops := []interface{}{}
	for o := 1; o <= 3; o++ {
		kind := "poolread"
		if o == 1 && sc.Poison != nil && sc.Poison.Mode != "" && sc.Poison.Mode != "close2" {
			kind = "poolpoison"
		}
		ops = append(ops, map[string]interface{}{"o": o, "g": 1, "kind": kind,
			"fault": map[string]interface{}{"err": 0, "cut": -1, "report": false, "stall": 0, "corr": 0, "split": false}})
	}
	rec.Emit(trace.Event{"ev": "cfg", "id": sc.ID, "kind": sc.Kind, "versions": map[string]interface{}{}, "ops": ops, "nops": 3})
	a, na, err := dial(n)
	if err != nil {
		rec.Emit(trace.Event{"ev": "end", "error": err.Error()})
		return rec.Events()
	}
	b, nb, err := dial(n)
	if err != nil {
		rec.Emit(trace.Event{"ev": "end", "error": err.Error()})
		return rec.Events()
	}
	defer a.Close()
	defer b.Close()
	end := func(o int, own bool, err error, nrec int, closed bool) {
		cls, code := errClass(err)
		rec.Emit(trace.Event{"ev": "opend", "o": o, "kind": "poolread", "result": cls, "code": code, "own": own, "info": fmt.Sprint(err),
			"nrec": nrec, "freshResult": "", "freshOwn": false, "freshNrec": 0, "closed": closed})
	}
	check := func(m kafka.Message, want int64) bool {
		return m.Offset == want && string(m.Value) == string(valueOf(want)) && string(m.Key) == fmt.Sprintf("k%d", want)
	}
	if sc.Poison != nil && sc.Poison.Mode != "" && sc.Poison.Mode != "close2" {
		// 1. a fetch whose first header cannot be read, on a third connection; the broken batch is closed once
		rec.Emit(trace.Event{"ev": "opbegin", "o": 1, "kind": "poolpoison"})
		perr, pclosed := poisonFetch(sc, n, cl)
		cls, code := errClass(perr)
		rec.Emit(trace.Event{"ev": "opend", "o": 1, "kind": "poolpoison", "result": cls, "code": code, "own": true, "info": fmt.Sprint(perr),
			"nrec": 0, "freshResult": "", "freshOwn": false, "freshNrec": 0, "closed": pclosed})
	} else {
		// 1. a batch of conn A read partly and closed twice
		rec.Emit(trace.Event{"ev": "opbegin", "o": 1, "kind": "poolread"})
		a.Seek(0, kafka.SeekAbsolute|kafka.SeekDontCheck)
		b0 := a.ReadBatch(1, 1<<20)
		m, err := b0.ReadMessage()
		own := err == nil && check(m, 0)
		cerr := b0.Close()
		b0.Close()
		if err == nil {
			err = cerr
		}
		end(1, own, err, 1, na.IsClosed())
	}
	// 2./3. A and B read at the same time: one message each, then the rest of each response
	a.Seek(0, kafka.SeekAbsolute|kafka.SeekDontCheck)
	b.Seek(4, kafka.SeekAbsolute|kafka.SeekDontCheck)
	rec.Emit(trace.Event{"ev": "opbegin", "o": 2, "kind": "poolread"})
	rec.Emit(trace.Event{"ev": "opbegin", "o": 3, "kind": "poolread"})
	ba := a.ReadBatch(1, 1<<20)
	bb := b.ReadBatch(1, 1<<20)
	ownA, ownB := true, true
	nextA, nextB := int64(0), int64(4)
	var errA, errB error
	step := func(bt *kafka.Batch, next *int64, own *bool, e *error) bool {
		if *e != nil {
			return false
		}
		m, err := bt.ReadMessage()
		if err != nil {
			if !errors.Is(err, io.EOF) {
				*e = err
			} else {
				*e = io.EOF
			}
			return false
		}
		if !check(m, *next) {
			*own = false
		}
		*next = m.Offset + 1
		return true
	}
	for i := 0; i < 2*nrecs; i++ {
		okA := step(ba, &nextA, &ownA, &errA)
		okB := step(bb, &nextB, &ownB, &errB)
		if !okA && !okB {
			break
		}
	}
	fin := func(bt *kafka.Batch, e error, next int64) error {
		cerr := bt.Close()
		if errors.Is(e, io.EOF) {
			e = nil
		}
		if e == nil {
			e = cerr
		}
		if e == nil && next != nrecs {
			e = fmt.Errorf("the batch ended at offset %d of %d", next, nrecs)
		}
		return e
	}
	errA = fin(ba, errA, nextA)
	errB = fin(bb, errB, nextB)
	end(2, ownA, errA, int(nextA), na.IsClosed())
	end(3, ownB, errB, int(nextB-4), nb.IsClosed())
	rec.Emit(trace.Event{"ev": "end", "closed": false})
	return rec.Events()
}
