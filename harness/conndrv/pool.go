//go:build verif

package conndrv

import (
	"errors"
	"fmt"
	"io"

	kafka "github.com/segmentio/kafka-go"

	"verifharness/trace"
)

// RunPool is the scenario kind "pool": two Conns of one process read compressed batches at the same time after a
// Batch was closed twice.  Buffers the library recycles between batches (decompression buffers, pages) must never be
// shared by two live readers: every message a Conn returns is the one stored at that offset (C06: no call receives
// another call's data).  Everything runs in one goroutine in a fixed order.
func RunPool(sc *Script) []trace.Event {
	rec := trace.New()
	n, cl := newCluster(sc)
	_ = cl
	ops := []interface{}{}
	for o := 1; o <= 3; o++ {
		ops = append(ops, map[string]interface{}{"o": o, "g": 1, "kind": "poolread",
			"fault": map[string]interface{}{"err": 0, "cut": -1, "report": false, "stall": 0, "corr": 0, "split": false}})
	}
	rec.Emit(trace.Event{"ev": "cfg", "id": sc.ID, "kind": sc.Kind, "versions": map[string]interface{}{}, "ops": ops, "nops": 3})
	a, na, err := dial(n)
	if err != nil {
		rec.Emit(trace.Event{"ev": "end", "error": err.Error()})
		return rec.Events()
	}
	b, nb, err := dial(n)
	if err != nil {
		rec.Emit(trace.Event{"ev": "end", "error": err.Error()})
		return rec.Events()
	}
	defer a.Close()
	defer b.Close()
	end := func(o int, own bool, err error, nrec int, closed bool) {
		cls, code := errClass(err)
		rec.Emit(trace.Event{"ev": "opend", "o": o, "kind": "poolread", "result": cls, "code": code, "own": own, "info": fmt.Sprint(err),
			"nrec": nrec, "freshResult": "", "freshOwn": false, "freshNrec": 0, "closed": closed})
	}
	check := func(m kafka.Message, want int64) bool {
		return m.Offset == want && string(m.Value) == string(valueOf(want)) && string(m.Key) == fmt.Sprintf("k%d", want)
	}
	// 1. a batch of conn A read partly and closed twice
	rec.Emit(trace.Event{"ev": "opbegin", "o": 1, "kind": "poolread"})
	a.Seek(0, kafka.SeekAbsolute|kafka.SeekDontCheck)
	b0 := a.ReadBatch(1, 1<<20)
	m, err := b0.ReadMessage()
	own := err == nil && check(m, 0)
	cerr := b0.Close()
	b0.Close()
	if err == nil {
		err = cerr
	}
	end(1, own, err, 1, na.IsClosed())
	// 2./3. A and B read at the same time: one message each, then the rest of each response
	a.Seek(0, kafka.SeekAbsolute|kafka.SeekDontCheck)
	b.Seek(4, kafka.SeekAbsolute|kafka.SeekDontCheck)
	rec.Emit(trace.Event{"ev": "opbegin", "o": 2, "kind": "poolread"})
	rec.Emit(trace.Event{"ev": "opbegin", "o": 3, "kind": "poolread"})
	ba := a.ReadBatch(1, 1<<20)
	bb := b.ReadBatch(1, 1<<20)
	ownA, ownB := true, true
	nextA, nextB := int64(0), int64(4)
	var errA, errB error
	step := func(bt *kafka.Batch, next *int64, own *bool, e *error) bool {
		if *e != nil {
			return false
		}
		m, err := bt.ReadMessage()
		if err != nil {
			if !errors.Is(err, io.EOF) {
				*e = err
			} else {
				*e = io.EOF
			}
			return false
		}
		if !check(m, *next) {
			*own = false
		}
		*next = m.Offset + 1
		return true
	}
	for i := 0; i < 2*nrecs; i++ {
		okA := step(ba, &nextA, &ownA, &errA)
		okB := step(bb, &nextB, &ownB, &errB)
		if !okA && !okB {
			break
		}
	}
	fin := func(bt *kafka.Batch, e error, next int64) error {
		cerr := bt.Close()
		if errors.Is(e, io.EOF) {
			e = nil
		}
		if e == nil {
			e = cerr
		}
		if e == nil && next != nrecs {
			e = fmt.Errorf("the batch ended at offset %d of %d", next, nrecs)
		}
		return e
	}
	errA = fin(ba, errA, nextA)
	errB = fin(bb, errB, nextB)
	end(2, ownA, errA, int(nextA), na.IsClosed())
	end(3, ownB, errB, int(nextB-4), nb.IsClosed())
	rec.Emit(trace.Event{"ev": "end", "closed": false})
	return rec.Events()
}
