// Package fakenet is an in-memory network: named listeners, buffered duplex
// connections with deadlines, and a census of every connection dialled.
package fakenet

import (
	"context"
	"errors"
	"fmt"
	"io"
	"net"
	"os"
	"sync"
	"syscall"
	"time"
)

type addr struct{ s string }

func (a addr) Network() string { return "tcp" }
func (a addr) String() string  { return a.s }

// half is one direction of a connection: an unbounded byte queue.
type half struct {
	mu       sync.Mutex
	cond     *sync.Cond
	buf      []byte
	wclosed  bool // writer side closed: reader sees EOF after draining
	rclosed  bool // reader side closed: writes fail
	reset    bool // connection reset: reader sees ECONNRESET
	deadline time.Time
	timer    *time.Timer
	written  int64
	read     int64
	stalled  bool // the receiver's window is closed: writes block (until their deadline) instead of being queued
}

func newHalf() *half {
	h := &half{}
	h.cond = sync.NewCond(&h.mu)
	return h
}

type timeoutError struct{}

func (timeoutError) Error() string   { return "i/o timeout" }
func (timeoutError) Timeout() bool   { return true }
func (timeoutError) Temporary() bool { return true }
func (timeoutError) Is(err error) bool {
	return err == os.ErrDeadlineExceeded || err == context.DeadlineExceeded
}

func (h *half) readInto(p []byte) (int, error) {
	h.mu.Lock()
	defer h.mu.Unlock()
	for {
		if h.rclosed {
			return 0, net.ErrClosed
		}
		if len(h.buf) > 0 {
			n := copy(p, h.buf)
			h.buf = h.buf[n:]
			h.read += int64(n)
			return n, nil
		}
		if h.reset {
			return 0, &net.OpError{Op: "read", Net: "tcp", Err: syscall.ECONNRESET}
		}
		if h.wclosed {
			return 0, io.EOF
		}
		if !h.deadline.IsZero() && !time.Now().Before(h.deadline) {
			return 0, &net.OpError{Op: "read", Net: "tcp", Err: timeoutError{}}
		}
		h.cond.Wait()
	}
}

func (h *half) setDeadline(t time.Time) {
	h.mu.Lock()
	h.deadline = t
	if h.timer != nil {
		h.timer.Stop()
		h.timer = nil
	}
	if !t.IsZero() {
		d := time.Until(t)
		if d < 0 {
			d = 0
		}
		h.timer = time.AfterFunc(d, func() {
			h.mu.Lock()
			h.cond.Broadcast()
			h.mu.Unlock()
		})
	}
	h.cond.Broadcast()
	h.mu.Unlock()
}

func (h *half) write(p []byte, deadline func() time.Time) (int, error) {
	h.mu.Lock()
	defer h.mu.Unlock()
	var timer *time.Timer
	for h.stalled && !h.wclosed && !h.rclosed && !h.reset {
		d := deadline()
		if !d.IsZero() && !time.Now().Before(d) {
			return 0, &net.OpError{Op: "write", Net: "tcp", Err: timeoutError{}}
		}
		if timer != nil {
			timer.Stop()
		}
		if !d.IsZero() {
			timer = time.AfterFunc(time.Until(d), func() { h.mu.Lock(); h.cond.Broadcast(); h.mu.Unlock() })
		}
		h.cond.Wait()
	}
	if timer != nil {
		timer.Stop()
	}
	if h.wclosed {
		return 0, net.ErrClosed
	}
	if h.rclosed || h.reset {
		return 0, &net.OpError{Op: "write", Net: "tcp", Err: syscall.EPIPE}
	}
	h.buf = append(h.buf, p...)
	h.written += int64(len(p))
	h.cond.Broadcast()
	return len(p), nil
}

// Conn is one end of an in-memory connection.
type Conn struct {
	in, out       *half
	local, remote addr
	closeOnce     sync.Once
	closed        chan struct{}
	ID            int
	Owner         string
	wmu           sync.Mutex
	wdeadline     time.Time
	// OnClose, if set before the connection is used, is called once when this end is closed,
	// inside the critical section that makes the close visible to the peer's writes.
	OnClose func()
}

func (c *Conn) Read(p []byte) (int, error) { return c.in.readInto(p) }
func (c *Conn) Write(p []byte) (int, error) {
	c.wmu.Lock()
	d := c.wdeadline
	c.wmu.Unlock()
	if !d.IsZero() && !time.Now().Before(d) {
		return 0, &net.OpError{Op: "write", Net: "tcp", Err: timeoutError{}}
	}
	return c.out.write(p, func() time.Time { c.wmu.Lock(); defer c.wmu.Unlock(); return c.wdeadline })
}

// StallIncoming closes (or reopens) this end's receive window: while it is closed the peer's writes block until their
// write deadline instead of being queued.
func (c *Conn) StallIncoming(on bool) {
	c.in.mu.Lock()
	c.in.stalled = on
	c.in.cond.Broadcast()
	c.in.mu.Unlock()
}
func (c *Conn) Close() error {
	c.closeOnce.Do(func() {
		close(c.closed)
		c.out.mu.Lock()
		c.out.wclosed = true
		c.out.cond.Broadcast()
		c.out.mu.Unlock()
		c.in.mu.Lock()
		if c.OnClose != nil {
			c.OnClose()
		}
		c.in.rclosed = true
		c.in.cond.Broadcast()
		c.in.mu.Unlock()
	})
	return nil
}

// Reset makes the peer's reads fail with ECONNRESET once buffered data is drained.
func (c *Conn) Reset() {
	c.out.mu.Lock()
	c.out.reset = true
	c.out.cond.Broadcast()
	c.out.mu.Unlock()
	c.Close()
}

func (c *Conn) IsClosed() bool {
	select {
	case <-c.closed:
		return true
	default:
		return false
	}
}
func (c *Conn) Done() <-chan struct{} { return c.closed }
func (c *Conn) LocalAddr() net.Addr   { return c.local }
func (c *Conn) RemoteAddr() net.Addr  { return c.remote }
func (c *Conn) BytesRead() int64      { c.in.mu.Lock(); defer c.in.mu.Unlock(); return c.in.read }
func (c *Conn) BytesUnread() int      { c.in.mu.Lock(); defer c.in.mu.Unlock(); return len(c.in.buf) }
func (c *Conn) PeerUnread() int       { c.out.mu.Lock(); defer c.out.mu.Unlock(); return len(c.out.buf) }
func (c *Conn) SetDeadline(t time.Time) error {
	c.SetReadDeadline(t)
	c.SetWriteDeadline(t)
	return nil
}
func (c *Conn) SetReadDeadline(t time.Time) error { c.in.setDeadline(t); return nil }
func (c *Conn) SetWriteDeadline(t time.Time) error {
	c.wmu.Lock()
	c.wdeadline = t
	c.wmu.Unlock()
	c.out.mu.Lock()
	c.out.cond.Broadcast() // a blocked write looks at the new deadline
	c.out.mu.Unlock()
	return nil
}

// Pipe returns the two ends of a connection.
func Pipe(clientAddr, serverAddr string) (*Conn, *Conn) {
	a, b := newHalf(), newHalf()
	c := &Conn{in: a, out: b, local: addr{clientAddr}, remote: addr{serverAddr}, closed: make(chan struct{})}
	s := &Conn{in: b, out: a, local: addr{serverAddr}, remote: addr{clientAddr}, closed: make(chan struct{})}
	return c, s
}

// Net is a set of listeners addressed by "host:port".
type Net struct {
	Name      string // optional: makes client addresses unique across Nets ("client:<name>:<id>")
	mu        sync.Mutex
	listeners map[string]func(*Conn)
	down      map[string]string // addr -> "refuse" | "blackhole"
	conns     []*Conn           // client ends, in dial order
	dials     map[string]int
}

func NewNet() *Net {
	return &Net{listeners: map[string]func(*Conn){}, down: map[string]string{}, dials: map[string]int{}}
}

// Listen registers a handler that is run in its own goroutine for every accepted connection.
func (n *Net) Listen(address string, serve func(*Conn)) {
	n.mu.Lock()
	n.listeners[address] = serve
	n.mu.Unlock()
}

// SetDown makes an address refuse connections ("refuse"), swallow dials until the context ends ("blackhole") or work again ("").
func (n *Net) SetDown(address, mode string) {
	n.mu.Lock()
	if mode == "" {
		delete(n.down, address)
	} else {
		n.down[address] = mode
	}
	n.mu.Unlock()
}

// DialContext has the signature of net.Dialer.DialContext / kafka.Dialer.DialFunc / kafka.Transport.Dial.
func (n *Net) DialContext(ctx context.Context, network, address string) (net.Conn, error) {
	return n.DialOwner(ctx, "", address)
}

func (n *Net) DialOwner(ctx context.Context, owner, address string) (net.Conn, error) {
	n.mu.Lock()
	serve := n.listeners[address]
	mode := n.down[address]
	n.dials[address]++
	n.mu.Unlock()
	if err := ctx.Err(); err != nil {
		return nil, err
	}
	switch {
	case mode == "blackhole":
		<-ctx.Done()
		return nil, &net.OpError{Op: "dial", Net: "tcp", Err: timeoutError{}}
	case mode == "refuse" || serve == nil:
		return nil, &net.OpError{Op: "dial", Net: "tcp", Addr: addr{address}, Err: syscall.ECONNREFUSED}
	}
	n.mu.Lock()
	id := len(n.conns) + 1
	c, s := Pipe(fmt.Sprintf("client:%s:%d", n.Name, id), address)
	c.ID, s.ID, c.Owner, s.Owner = id, id, owner, owner
	n.conns = append(n.conns, c)
	n.mu.Unlock()
	go serve(s)
	return c, nil
}

// Dialer returns a dial function that tags connections with an owner, for the census.
func (n *Net) Dialer(owner string) func(ctx context.Context, network, address string) (net.Conn, error) {
	return func(ctx context.Context, network, address string) (net.Conn, error) {
		return n.DialOwner(ctx, owner, address)
	}
}

// Open returns the client connections (optionally of one owner) that are not closed.
func (n *Net) Open(owner string) []*Conn {
	n.mu.Lock()
	defer n.mu.Unlock()
	var out []*Conn
	for _, c := range n.conns {
		if (owner == "" || c.Owner == owner) && !c.IsClosed() {
			out = append(out, c)
		}
	}
	return out
}

func (n *Net) Dials(address string) int {
	n.mu.Lock()
	defer n.mu.Unlock()
	return n.dials[address]
}

func (n *Net) NumConns() int {
	n.mu.Lock()
	defer n.mu.Unlock()
	return len(n.conns)
}

var ErrNoListener = errors.New("fakenet: no listener")
