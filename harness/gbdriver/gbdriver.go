//go:build verif

// Package gbdriver calls the real group balancers of kafka-go (RangeGroupBalancer,
// RoundRobinGroupBalancer, RackAffinityGroupBalancer) on inputs enumerated by the C14 engine and
// writes (input, output) lines that TLC judges with the predicates of spec/groupbal/GroupBalancers.tla.
//
// Nothing here decides whether an output is right: the driver only runs AssignGroups, recovers a
// panic, and serialises what the balancer returned.
package gbdriver

import (
	"encoding/json"
	"fmt"
	"sort"

	kafka "github.com/segmentio/kafka-go"
)

// Input is one case: a balancer name, the members in their listing order and the partitions in
// their listing order (as assignTopicPartitions in consumergroup.go would pass them).
type Input struct {
	N          int         `json:"n"`
	Balancer   string      `json:"balancer"` // "range" | "roundrobin" | "rack"
	Members    []Member    `json:"members"`
	Partitions []Partition `json:"partitions"`
	Late       []Member    `json:"late"`    // leader path: members that join after generation 1
	Leave      []string    `json:"leave"`   // leader path: members that leave after generation 1
	Leader2    string      `json:"leader2"` // leader path: preferred leader of generation 2 (effective when the first one left)
	Leader     string      `json:"leader"`  // "": call AssignGroups directly; otherwise the member that leads a real group (leader.go)
}

type Member struct {
	ID     string   `json:"id"`
	Topics []string `json:"topics"`
	Rack   string   `json:"rack"` // becomes GroupMember.UserData (what RackAffinityGroupBalancer.UserData sends)
}

type Partition struct {
	Topic string `json:"topic"`
	ID    int    `json:"id"`
	Rack  string `json:"rack"` // Partition.Leader.Rack
}

// Entry is one member/topic entry of the GroupMemberAssignments map.
type Entry struct {
	M  string `json:"m"`
	T  string `json:"t"`
	Ps []int  `json:"ps"`
}

// Run is the result of one AssignGroups call: the entries of the returned map (sorted by member,
// topic so that equal maps serialise equally), or the panic text.
type Run struct {
	Members []Member `json:"members"`
	Out     []Entry  `json:"out"`
	Panic   string   `json:"panic"`
}

// Line is what TLC reads. `In` is the input as listed; `Out`/`Panic` the result for that listing;
// `Sorted` the result of a second call with the same members listed in ascending ID order (Range and
// RoundRobin only; HasSorted is false otherwise); Reps counts how many of the repetitions produced
// exactly this output (RackAffinity iterates Go maps, so the repetitions may differ).
type Line struct {
	N   int    `json:"n"`
	Bal string `json:"bal"`
	In  struct {
		Members []Member    `json:"members"`
		Parts   []Partition `json:"parts"`
	} `json:"in"`
	Out       []Entry `json:"out"`
	Panic     string  `json:"panic"`
	HasSorted bool    `json:"hasSorted"`
	Sorted    Run     `json:"sorted"`
	Reps      int     `json:"reps"`
	// leader path (leader.go); Path is "" for a direct call of AssignGroups
	Path       string   `json:"path"`
	Leader     string   `json:"leader"`
	Elected    string   `json:"elected"`
	Generation int      `json:"generation"`
	Err        string   `json:"err"`
	Asked      []string `json:"asked"`
	Phase      int      `json:"phase"`
}

func balancer(name string) (kafka.GroupBalancer, error) {
	switch name {
	case "range":
		return kafka.RangeGroupBalancer{}, nil
	case "roundrobin":
		return kafka.RoundRobinGroupBalancer{}, nil
	case "rack":
		return kafka.RackAffinityGroupBalancer{}, nil
	}
	return nil, fmt.Errorf("unknown balancer %q", name)
}

func toKafka(members []Member, parts []Partition) ([]kafka.GroupMember, []kafka.Partition) {
	ms := make([]kafka.GroupMember, 0, len(members))
	for _, m := range members {
		gm := kafka.GroupMember{ID: m.ID, Topics: append([]string(nil), m.Topics...)}
		if m.Rack != "" {
			gm.UserData = []byte(m.Rack)
		}
		ms = append(ms, gm)
	}
	ps := make([]kafka.Partition, 0, len(parts))
	for _, p := range parts {
		ps = append(ps, kafka.Partition{Topic: p.Topic, ID: p.ID, Leader: kafka.Broker{Rack: p.Rack}})
	}
	return ms, ps
}

// call runs the real AssignGroups once and flattens the returned map.
func call(b kafka.GroupBalancer, members []Member, parts []Partition) (out []Entry, panicText string) {
	ms, ps := toKafka(members, parts)
	var res kafka.GroupMemberAssignments
	func() {
		defer func() {
			if r := recover(); r != nil {
				panicText = fmt.Sprint(r)
				if panicText == "" {
					panicText = "panic"
				}
			}
		}()
		res = b.AssignGroups(ms, ps)
	}()
	out = []Entry{}
	if panicText != "" {
		return out, panicText
	}
	for m, byTopic := range res {
		for t, ids := range byTopic {
			e := Entry{M: m, T: t, Ps: append([]int{}, ids...)}
			out = append(out, e)
		}
	}
	sort.Slice(out, func(i, j int) bool {
		if out[i].M != out[j].M {
			return out[i].M < out[j].M
		}
		return out[i].T < out[j].T
	})
	return out, ""
}

func nonNil(in *Input) {
	if in.Members == nil {
		in.Members = []Member{}
	}
	for i := range in.Members {
		if in.Members[i].Topics == nil {
			in.Members[i].Topics = []string{}
		}
	}
	if in.Partitions == nil {
		in.Partitions = []Partition{}
	}
}

// Judge-free execution of one input: returns one line per distinct result among `reps` calls.
func Execute(in Input, reps int) ([]Line, error) {
	b, err := balancer(in.Balancer)
	if err != nil {
		return nil, err
	}
	nonNil(&in)
	if in.Balancer != "rack" || reps < 1 {
		reps = 1
	}
	var lines []Line
	seen := map[string]int{}
	for r := 0; r < reps; r++ {
		out, p := call(b, in.Members, in.Partitions)
		key, _ := json.Marshal(struct {
			O []Entry
			P string
		}{out, p})
		if k, ok := seen[string(key)]; ok {
			lines[k].Reps++
			continue
		}
		seen[string(key)] = len(lines)
		l := Line{N: in.N, Bal: in.Balancer, Out: out, Panic: p, Reps: 1, Asked: []string{}}
		l.In.Members, l.In.Parts = in.Members, in.Partitions
		l.Sorted = Run{Members: []Member{}, Out: []Entry{}}
		lines = append(lines, l)
	}
	if in.Balancer == "range" || in.Balancer == "roundrobin" {
		// second call: the same set of members listed in ascending ID order (bytewise, as Go compares strings)
		sm := append([]Member{}, in.Members...)
		sort.SliceStable(sm, func(i, j int) bool { return sm[i].ID < sm[j].ID })
		out, p := call(b, sm, in.Partitions)
		for i := range lines {
			lines[i].HasSorted = true
			lines[i].Sorted = Run{Members: sm, Out: out, Panic: p}
		}
	}
	return lines, nil
}
