//go:build verif

package gbdriver

// Leader path (Input.Leader != ""): the same input is not handed to AssignGroups directly but played by
// real ConsumerGroups against a fake cluster.  One kafka.ConsumerGroup per member (its own Topics, the
// balancer under test as its only GroupBalancer, its rack as RackAffinityGroupBalancer.Rack) joins group
// "g"; the fake coordinator waits for all of them, elects Input.Leader, lists the members in the order of
// Input.Members in the leader's JoinGroup response, and the elected member runs
// ConsumerGroup.assignTopicPartitions: decode the members' metadata, ask the broker for the partitions of
// the subscribed topics (the fake broker answers for exactly the topics asked, as a real one does), call
// the balancer, encode the SyncGroup request.  What every member then receives as Generation.Assignments
// is written as the output of the line; the input of the line is the members as listed by the coordinator
// and the partitions the cluster really has.  TLC judges the line with the same clauses as a direct call.

import (
	"context"
	"fmt"
	"sort"
	"sync"
	"sync/atomic"
	"time"

	kafka "github.com/segmentio/kafka-go"

	"verifharness/fakekafka"
	"verifharness/fakenet"
	"verifharness/kwire"
)

var leaderCounter int64

func balancerFor(name, rack string) (kafka.GroupBalancer, error) {
	if name == "rack" {
		return kafka.RackAffinityGroupBalancer{Rack: rack}, nil
	}
	return balancer(name)
}

// ExecuteLeader plays one input through the leader path and returns one line.  Err is set when the
// group did not form (a member's Next failed or timed out): such a line is not judged.
func ExecuteLeader(in Input) ([]Line, []map[string]interface{}, error) {
	nonNil(&in)
	l := Line{N: in.N, Bal: in.Balancer, Out: []Entry{}, Reps: 1, Path: "leader", Leader: in.Leader, Phase: 1}
	l.Sorted = Run{Members: []Member{}, Out: []Entry{}}
	l.In.Members = in.Members

	// the cluster: one broker per rack that leads a partition (plus a rackless one when needed); brokers
	// are numbered in order of first appearance
	n := fakenet.NewNet()
	n.Name = fmt.Sprintf("gb%d", atomic.AddInt64(&leaderCounter, 1))
	rackBroker := map[string]int{}
	var racks []string
	for _, p := range in.Partitions {
		if _, ok := rackBroker[p.Rack]; !ok {
			rackBroker[p.Rack] = len(racks) + 1
			racks = append(racks, p.Rack)
		}
	}
	if len(racks) == 0 {
		racks = []string{""}
		rackBroker[""] = 1
	}
	cl := fakekafka.NewCluster(n, len(racks))
	cl.Lock()
	for i, r := range racks {
		cl.Brokers[i+1].Rack = r
	}
	// topics: the partitions of a topic must be numbered 0..k-1 (the fake broker indexes them by id)
	byTopic := map[string][]Partition{}
	var topicOrder []string
	for _, p := range in.Partitions {
		if _, ok := byTopic[p.Topic]; !ok {
			topicOrder = append(topicOrder, p.Topic)
		}
		byTopic[p.Topic] = append(byTopic[p.Topic], p)
	}
	cl.Unlock()
	truth := []Partition{}
	sort.Strings(topicOrder)
	for _, t := range topicOrder {
		ps := byTopic[t]
		sort.Slice(ps, func(i, j int) bool { return ps[i].ID < ps[j].ID })
		for i, p := range ps {
			if p.ID != i {
				return nil, nil, fmt.Errorf("leader path needs partitions numbered 0..k-1, topic %s has %d at position %d", t, p.ID, i)
			}
		}
		tt := cl.AddTopic(t, len(ps))
		cl.Lock()
		for i, p := range ps {
			b := rackBroker[p.Rack]
			tt.Partitions[i].Leader = b
			tt.Partitions[i].Replicas = []int{b}
			tt.Partitions[i].ISR = []int{b}
		}
		cl.Unlock()
		truth = append(truth, ps...)
	}
	l.In.Parts = truth

	// phase 2 (optional): after generation 1 some members leave and/or others join; the line of generation 2 has the
	// members of that generation as its input
	phase2 := len(in.Late) > 0 || len(in.Leave) > 0
	leaving := map[string]bool{}
	for _, id := range in.Leave {
		leaving[id] = true
	}
	all := append(append([]Member{}, in.Members...), in.Late...)
	order := map[string]int{}
	for i, m := range all {
		order[m.ID] = i
	}
	tr := &tracer{}
	subs := map[string][]string{}
	var ids []string
	for _, m := range all {
		subs[m.ID] = m.Topics
		ids = append(ids, m.ID)
	}
	nparts := map[string]int{}
	for t, ps := range byTopic {
		nparts[t] = len(ps)
	}
	tr.emit(map[string]interface{}{"ev": "cfg", "n": in.N, "members": ids, "subs": subs, "nparts": nparts, "bal": in.Balancer})
	cl.GroupOpts = fakekafka.GroupOptions{
		MinJoin:      len(in.Members),
		PreferLeader: in.Leader,
		MemberID:     func(clientID string, n int) string { return clientID },
		Listing: func(ids []string) []string {
			sort.SliceStable(ids, func(i, j int) bool { return order[ids[i]] < order[ids[j]] })
			return ids
		},
		OnRound: func(gen int32, leader string, members []string) {
			tr.emit(map[string]interface{}{"ev": "round", "gen": int(gen), "leader": leader, "members": append([]string{}, members...)})
		},
		OnSync: func(member string, gen int32, asg map[string][]byte, code int16) {
			tr.emit(map[string]interface{}{"ev": "sync", "m": member, "gen": int(gen), "code": int(code), "asg": decodeAssignments(asg)})
		},
	}
	cl.OnJournal = func(e fakekafka.JournalEntry) {
		switch e.ApiKey {
		case fakekafka.JoinGroup:
			if c, _ := e.Info["code"].(int); c == 0 {
				tr.emit(map[string]interface{}{"ev": "join", "m": e.Info["member"]})
			}
		case fakekafka.Metadata:
			if ts, ok := e.Info["topics"].([]string); ok && len(ts) > 0 && order[e.Owner] >= 0 && subs[e.Owner] != nil {
				tr.emit(map[string]interface{}{"ev": "meta", "m": e.Owner, "topics": append([]string{}, ts...)})
			}
		case fakekafka.Heartbeat:
			if c, _ := e.Info["code"].(int); c != 0 {
				tr.emit(map[string]interface{}{"ev": "hbfail", "m": e.Info["member"], "code": c})
			}
		case fakekafka.LeaveGroup:
			tr.emit(map[string]interface{}{"ev": "leave", "m": e.Info["member"]})
		}
	}

	type result struct {
		id  string
		gen *kafka.Generation
		err error
	}
	var gmu sync.Mutex
	groups := map[string]*kafka.ConsumerGroup{}
	closeAll := func() {
		var wg sync.WaitGroup
		gmu.Lock()
		for _, cg := range groups {
			wg.Add(1)
			go func(cg *kafka.ConsumerGroup) { defer wg.Done(); cg.Close() }(cg)
		}
		gmu.Unlock()
		wg.Wait()
	}
	res := make(chan result, 4*len(all)+4)
	ctx, cancel := context.WithTimeout(context.Background(), 30*time.Second)
	defer cancel()
	hb := time.Second
	if phase2 {
		hb = 60 * time.Millisecond
	}
	start := func(m Member) error {
		b, err := balancerFor(in.Balancer, m.Rack)
		if err != nil {
			return err
		}
		cg, err := kafka.NewConsumerGroup(kafka.ConsumerGroupConfig{
			ID: "g", Brokers: []string{"b1:9092"}, Topics: append([]string(nil), m.Topics...),
			Dialer:         &kafka.Dialer{DialFunc: n.Dialer(m.ID), Timeout: 5 * time.Second, ClientID: m.ID},
			GroupBalancers: []kafka.GroupBalancer{b}, HeartbeatInterval: hb, JoinGroupBackoff: 50 * time.Millisecond,
			SessionTimeout: 30 * time.Second, RebalanceTimeout: 30 * time.Second, Timeout: 10 * time.Second, StartOffset: kafka.FirstOffset,
		})
		if err != nil {
			return err
		}
		gmu.Lock()
		groups[m.ID] = cg
		gmu.Unlock()
		go func(id string, cg *kafka.ConsumerGroup) {
			for {
				gen, err := cg.Next(ctx)
				if err == nil {
					tr.emit(map[string]interface{}{"ev": "got", "m": id, "gen": int(gen.ID), "asg": flatten(id, gen.Assignments, false)})
				}
				res <- result{id, gen, err}
				if err != nil {
					return
				}
			}
		}(m.ID, cg)
		return nil
	}
	collect := func(l *Line, members []Member, wantGen int32) {
		want := map[string]bool{}
		for _, m := range members {
			want[m.ID] = true
		}
		for len(want) > 0 {
			r := <-res
			if r.err != nil {
				if leaving[r.id] && !want[r.id] {
					continue // the second Next of a member that was closed
				}
				l.Err = fmt.Sprintf("member %s: Next: %v", r.id, r.err)
				delete(want, r.id)
				continue
			}
			if r.gen.ID != wantGen || !want[r.id] {
				continue
			}
			delete(want, r.id)
			if r.gen.MemberID != r.id {
				l.Err = fmt.Sprintf("member %s was given the id %s", r.id, r.gen.MemberID)
			}
			for _, e := range flatten(r.id, r.gen.Assignments, true) {
				l.Out = append(l.Out, e)
			}
		}
		sort.Slice(l.Out, func(i, j int) bool {
			if l.Out[i].M != l.Out[j].M {
				return l.Out[i].M < l.Out[j].M
			}
			return l.Out[i].T < l.Out[j].T
		})
		if st := cl.GroupState("g"); st != nil {
			cl.Lock()
			l.Elected, l.Generation = st.Leader, int(st.Generation)
			cl.Unlock()
		}
		// which topics the leader asked the broker for (recorded, not judged)
		l.Asked = []string{}
		for _, e := range cl.Journal() {
			if e.ApiKey == fakekafka.Metadata && e.Owner == l.Elected {
				if ts, ok := e.Info["topics"].([]string); ok && len(ts) >= len(l.Asked) {
					l.Asked = ts
				}
			}
		}
	}

	defer closeAll()
	for _, m := range in.Members {
		if err := start(m); err != nil {
			return nil, nil, err
		}
	}
	collect(&l, in.Members, 1)
	if l.Err == "" && (l.Elected != in.Leader || l.Generation != 1) {
		l.Err = fmt.Sprintf("the group formed with leader %s in generation %d, wanted %s in generation 1", l.Elected, l.Generation, in.Leader)
	}
	lines := []Line{l}
	if phase2 && l.Err == "" {
		l2 := Line{N: in.N, Bal: in.Balancer, Out: []Entry{}, Reps: 1, Path: "leader", Leader: in.Leader2, Phase: 2}
		l2.Sorted = Run{Members: []Member{}, Out: []Entry{}}
		l2.In.Parts = truth
		var stay []Member
		for _, m := range all {
			if !leaving[m.ID] {
				stay = append(stay, m)
			}
		}
		l2.In.Members = stay
		if in.Leader2 != "" {
			cl.Lock()
			cl.GroupOpts.PreferLeader = in.Leader2
			cl.Unlock()
		}
		for _, id := range in.Leave {
			gmu.Lock()
			cg := groups[id]
			delete(groups, id)
			gmu.Unlock()
			cg.Close()
		}
		for _, m := range in.Late {
			if err := start(m); err != nil {
				return nil, nil, err
			}
		}
		collect(&l2, stay, 2)
		if l2.Err == "" && l2.Generation != 2 {
			l2.Err = fmt.Sprintf("phase 2 ended in generation %d, wanted 2", l2.Generation)
		}
		if l2.Leader == "" {
			l2.Leader = l2.Elected
		}
		lines = append(lines, l2)
	}
	events := tr.stop()
	return lines, events, nil
}

// tracer is the one recorder of a run: coordinator-side events arrive under the cluster's lock, member-side ones from
// the members' goroutines
type tracer struct {
	mu      sync.Mutex
	events  []map[string]interface{}
	pending map[string]interface{} // a completed round, held back until the JoinGroup request that completed it is logged
	stopped bool
}

// The fake coordinator completes a round inside the handler of the last JoinGroup request, before that request is
// journaled (one critical section): the round is logged after the request.
func (t *tracer) emit(e map[string]interface{}) {
	t.mu.Lock()
	defer t.mu.Unlock()
	if t.stopped {
		return
	}
	switch {
	case e["ev"] == "round":
		t.pending = e
		return
	case e["ev"] == "join":
		t.events = append(t.events, e)
		if t.pending != nil {
			t.events = append(t.events, t.pending)
			t.pending = nil
		}
		return
	case t.pending != nil:
		t.events = append(t.events, t.pending)
		t.pending = nil
	}
	t.events = append(t.events, e)
}

func (t *tracer) stop() []map[string]interface{} {
	t.mu.Lock()
	defer t.mu.Unlock()
	t.stopped = true
	return t.events
}

func flatten(id string, as map[string][]kafka.PartitionAssignment, keepEmpty bool) []Entry {
	out := []Entry{}
	for t, ps := range as {
		e := Entry{M: id, T: t, Ps: []int{}}
		for _, a := range ps {
			e.Ps = append(e.Ps, a.ID)
		}
		if len(e.Ps) > 0 || keepEmpty {
			out = append(out, e)
		}
	}
	sort.Slice(out, func(i, j int) bool { return out[i].T < out[j].T })
	return out
}

// decodeAssignments reads the consumer-protocol assignments of a SyncGroup request (version, [topic, [partition]], user data)
func decodeAssignments(asg map[string][]byte) []Entry {
	out := []Entry{}
	for m, b := range asg {
		r := kwire.R{B: b}
		if len(b) == 0 {
			continue
		}
		r.I16()
		n := r.ArrayLen()
		for i := 0; i < n; i++ {
			e := Entry{M: m, T: r.Str(), Ps: []int{}}
			k := r.ArrayLen()
			for j := 0; j < k; j++ {
				e.Ps = append(e.Ps, int(r.I32()))
			}
			if len(e.Ps) > 0 {
				out = append(out, e)
			}
		}
	}
	sort.Slice(out, func(i, j int) bool {
		if out[i].M != out[j].M {
			return out[i].M < out[j].M
		}
		return out[i].T < out[j].T
	})
	return out
}
