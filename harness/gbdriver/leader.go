//go:build verif

package gbdriver

// Leader path (Input.Leader != ""): the same input is not handed to AssignGroups directly but played by
// real ConsumerGroups against a fake cluster.  One kafka.ConsumerGroup per member (its own Topics, the
// balancer under test as its only GroupBalancer, its rack as RackAffinityGroupBalancer.Rack) joins group
// "g"; the fake coordinator waits for all of them, elects Input.Leader, lists the members in the order of
// Input.Members in the leader's JoinGroup response, and the elected member runs
// ConsumerGroup.assignTopicPartitions: decode the members' metadata, ask the broker for the partitions of
// the subscribed topics (the fake broker answers for exactly the topics asked, as a real one does), call
// the balancer, encode the SyncGroup request.  What every member then receives as Generation.Assignments
// is written as the output of the line; the input of the line is the members as listed by the coordinator
// and the partitions the cluster really has.  TLC judges the line with the same clauses as a direct call.

import (
	"context"
	"fmt"
	"sort"
	"sync"
	"sync/atomic"
	"time"

	kafka "github.com/segmentio/kafka-go"

	"verifharness/fakekafka"
	"verifharness/fakenet"
)

var leaderCounter int64

func balancerFor(name, rack string) (kafka.GroupBalancer, error) {
	if name == "rack" {
		return kafka.RackAffinityGroupBalancer{Rack: rack}, nil
	}
	return balancer(name)
}

// ExecuteLeader plays one input through the leader path and returns one line.  Err is set when the
// group did not form (a member's Next failed or timed out): such a line is not judged.
func ExecuteLeader(in Input) (Line, error) {
	nonNil(&in)
	l := Line{N: in.N, Bal: in.Balancer, Out: []Entry{}, Reps: 1, Path: "leader", Leader: in.Leader}
	l.Sorted = Run{Members: []Member{}, Out: []Entry{}}
	l.In.Members = in.Members

	// the cluster: one broker per rack that leads a partition (plus a rackless one when needed); brokers
	// are numbered in order of first appearance
	n := fakenet.NewNet()
	n.Name = fmt.Sprintf("gb%d", atomic.AddInt64(&leaderCounter, 1))
	rackBroker := map[string]int{}
	var racks []string
	for _, p := range in.Partitions {
		if _, ok := rackBroker[p.Rack]; !ok {
			rackBroker[p.Rack] = len(racks) + 1
			racks = append(racks, p.Rack)
		}
	}
	if len(racks) == 0 {
		racks = []string{""}
		rackBroker[""] = 1
	}
	cl := fakekafka.NewCluster(n, len(racks))
	cl.Lock()
	for i, r := range racks {
		cl.Brokers[i+1].Rack = r
	}
	// topics: the partitions of a topic must be numbered 0..k-1 (the fake broker indexes them by id)
	byTopic := map[string][]Partition{}
	var topicOrder []string
	for _, p := range in.Partitions {
		if _, ok := byTopic[p.Topic]; !ok {
			topicOrder = append(topicOrder, p.Topic)
		}
		byTopic[p.Topic] = append(byTopic[p.Topic], p)
	}
	cl.Unlock()
	truth := []Partition{}
	sort.Strings(topicOrder)
	for _, t := range topicOrder {
		ps := byTopic[t]
		sort.Slice(ps, func(i, j int) bool { return ps[i].ID < ps[j].ID })
		for i, p := range ps {
			if p.ID != i {
				return l, fmt.Errorf("leader path needs partitions numbered 0..k-1, topic %s has %d at position %d", t, p.ID, i)
			}
		}
		tt := cl.AddTopic(t, len(ps))
		cl.Lock()
		for i, p := range ps {
			b := rackBroker[p.Rack]
			tt.Partitions[i].Leader = b
			tt.Partitions[i].Replicas = []int{b}
			tt.Partitions[i].ISR = []int{b}
		}
		cl.Unlock()
		truth = append(truth, ps...)
	}
	l.In.Parts = truth

	order := map[string]int{}
	for i, m := range in.Members {
		order[m.ID] = i
	}
	cl.GroupOpts = fakekafka.GroupOptions{
		MinJoin:      len(in.Members),
		PreferLeader: in.Leader,
		MemberID:     func(clientID string, n int) string { return clientID },
		Listing: func(ids []string) []string {
			sort.SliceStable(ids, func(i, j int) bool { return order[ids[i]] < order[ids[j]] })
			return ids
		},
	}

	type result struct {
		id  string
		gen *kafka.Generation
		err error
	}
	var groups []*kafka.ConsumerGroup
	defer func() {
		var wg sync.WaitGroup
		for _, cg := range groups {
			wg.Add(1)
			go func(cg *kafka.ConsumerGroup) { defer wg.Done(); cg.Close() }(cg)
		}
		wg.Wait()
	}()
	res := make(chan result, len(in.Members))
	ctx, cancel := context.WithTimeout(context.Background(), 20*time.Second)
	defer cancel()
	for _, m := range in.Members {
		b, err := balancerFor(in.Balancer, m.Rack)
		if err != nil {
			return l, err
		}
		cg, err := kafka.NewConsumerGroup(kafka.ConsumerGroupConfig{
			ID: "g", Brokers: []string{"b1:9092"}, Topics: append([]string(nil), m.Topics...),
			Dialer:         &kafka.Dialer{DialFunc: n.Dialer(m.ID), Timeout: 5 * time.Second, ClientID: m.ID},
			GroupBalancers: []kafka.GroupBalancer{b}, HeartbeatInterval: time.Second, JoinGroupBackoff: 50 * time.Millisecond,
			SessionTimeout: 30 * time.Second, RebalanceTimeout: 30 * time.Second, Timeout: 10 * time.Second, StartOffset: kafka.FirstOffset,
		})
		if err != nil {
			return l, err
		}
		groups = append(groups, cg)
		go func(id string, cg *kafka.ConsumerGroup) {
			gen, err := cg.Next(ctx)
			res <- result{id, gen, err}
		}(m.ID, cg)
	}
	for range in.Members {
		r := <-res
		if r.err != nil {
			l.Err = fmt.Sprintf("member %s: Next: %v", r.id, r.err)
			continue
		}
		if r.gen.MemberID != r.id {
			l.Err = fmt.Sprintf("member %s was given the id %s", r.id, r.gen.MemberID)
		}
		for t, as := range r.gen.Assignments {
			e := Entry{M: r.id, T: t, Ps: []int{}}
			for _, a := range as {
				e.Ps = append(e.Ps, a.ID)
			}
			l.Out = append(l.Out, e)
		}
	}
	if st := cl.GroupState("g"); st != nil {
		cl.Lock()
		l.Elected, l.Generation = st.Leader, int(st.Generation)
		cl.Unlock()
	}
	if l.Err == "" && (l.Elected != in.Leader || l.Generation != 1) {
		l.Err = fmt.Sprintf("the group formed with leader %s in generation %d, wanted %s in generation 1", l.Elected, l.Generation, in.Leader)
	}
	sort.Slice(l.Out, func(i, j int) bool {
		if l.Out[i].M != l.Out[j].M {
			return l.Out[i].M < l.Out[j].M
		}
		return l.Out[i].T < l.Out[j].T
	})
	// which topics the leader asked the broker for (recorded, not judged)
	for _, e := range cl.Journal() {
		if e.ApiKey == fakekafka.Metadata && e.Owner == in.Leader {
			if ts, ok := e.Info["topics"].([]string); ok && len(ts) > 0 {
				l.Asked = ts
			}
		}
	}
	if l.Asked == nil {
		l.Asked = []string{}
	}
	return l, nil
}
