// Package kwire is a small, independent implementation of the Kafka wire
// primitives, used by the fake cluster (it never imports kafka-go's codecs).
package kwire

import (
	"encoding/binary"
	"errors"
)

type W struct{ B []byte }

func (w *W) I8(v int8)   { w.B = append(w.B, byte(v)) }
func (w *W) I16(v int16) { w.B = binary.BigEndian.AppendUint16(w.B, uint16(v)) }
func (w *W) I32(v int32) { w.B = binary.BigEndian.AppendUint32(w.B, uint32(v)) }
func (w *W) I64(v int64) { w.B = binary.BigEndian.AppendUint64(w.B, uint64(v)) }
func (w *W) Bool(v bool) {
	if v {
		w.I8(1)
	} else {
		w.I8(0)
	}
}
func (w *W) Str(s string) { w.I16(int16(len(s))); w.B = append(w.B, s...) }
func (w *W) NStr(s *string) {
	if s == nil {
		w.I16(-1)
		return
	}
	w.Str(*s)
}
func (w *W) Bytes(b []byte) {
	if b == nil {
		w.I32(-1)
		return
	}
	w.I32(int32(len(b)))
	w.B = append(w.B, b...)
}
func (w *W) Raw(b []byte) { w.B = append(w.B, b...) }
func (w *W) UVarint(v uint64) {
	for v >= 0x80 {
		w.B = append(w.B, byte(v)|0x80)
		v >>= 7
	}
	w.B = append(w.B, byte(v))
}
func (w *W) Varint(v int64) { w.UVarint(uint64((v << 1) ^ (v >> 63))) }
func (w *W) CStr(s string)  { w.UVarint(uint64(len(s)) + 1); w.B = append(w.B, s...) }
func (w *W) CNStr(s *string) {
	if s == nil {
		w.UVarint(0)
		return
	}
	w.CStr(*s)
}
func (w *W) CBytes(b []byte) {
	if b == nil {
		w.UVarint(0)
		return
	}
	w.UVarint(uint64(len(b)) + 1)
	w.B = append(w.B, b...)
}
func (w *W) ArrayLen(n int)  { w.I32(int32(n)) }
func (w *W) CArrayLen(n int) { w.UVarint(uint64(n) + 1) }
func (w *W) Tags()           { w.UVarint(0) }

// Frame prefixes the payload with its 4-byte size.
func Frame(payload []byte) []byte {
	out := make([]byte, 4, 4+len(payload))
	binary.BigEndian.PutUint32(out, uint32(len(payload)))
	return append(out, payload...)
}

var ErrShort = errors.New("kwire: short buffer")

type R struct {
	B   []byte
	Err error
}

func (r *R) need(n int) bool {
	if r.Err != nil {
		return false
	}
	if n < 0 || len(r.B) < n {
		r.Err = ErrShort
		return false
	}
	return true
}
func (r *R) I8() int8 {
	if !r.need(1) {
		return 0
	}
	v := int8(r.B[0])
	r.B = r.B[1:]
	return v
}
func (r *R) I16() int16 {
	if !r.need(2) {
		return 0
	}
	v := int16(binary.BigEndian.Uint16(r.B))
	r.B = r.B[2:]
	return v
}
func (r *R) I32() int32 {
	if !r.need(4) {
		return 0
	}
	v := int32(binary.BigEndian.Uint32(r.B))
	r.B = r.B[4:]
	return v
}
func (r *R) I64() int64 {
	if !r.need(8) {
		return 0
	}
	v := int64(binary.BigEndian.Uint64(r.B))
	r.B = r.B[8:]
	return v
}
func (r *R) Bool() bool { return r.I8() != 0 }
func (r *R) Str() string {
	n := int(r.I16())
	if n < 0 {
		return ""
	}
	if !r.need(n) {
		return ""
	}
	s := string(r.B[:n])
	r.B = r.B[n:]
	return s
}
func (r *R) NStr() *string {
	n := int(r.I16())
	if n < 0 {
		return nil
	}
	if !r.need(n) {
		return nil
	}
	s := string(r.B[:n])
	r.B = r.B[n:]
	return &s
}
func (r *R) Bytes() []byte {
	n := int(r.I32())
	if n < 0 {
		return nil
	}
	if !r.need(n) {
		return nil
	}
	b := append([]byte{}, r.B[:n]...)
	r.B = r.B[n:]
	return b
}
func (r *R) Take(n int) []byte {
	if !r.need(n) {
		return nil
	}
	b := r.B[:n]
	r.B = r.B[n:]
	return b
}
func (r *R) UVarint() uint64 {
	var v uint64
	var s uint
	for i := 0; ; i++ {
		if !r.need(1) {
			return 0
		}
		b := r.B[0]
		r.B = r.B[1:]
		v |= uint64(b&0x7f) << s
		if b < 0x80 {
			return v
		}
		s += 7
		if i > 9 {
			r.Err = errors.New("kwire: varint too long")
			return 0
		}
	}
}
func (r *R) Varint() int64 {
	u := r.UVarint()
	return int64(u>>1) ^ -int64(u&1)
}
func (r *R) CStr() string {
	n := int(r.UVarint()) - 1
	if n < 0 {
		return ""
	}
	if !r.need(n) {
		return ""
	}
	s := string(r.B[:n])
	r.B = r.B[n:]
	return s
}
func (r *R) CBytes() []byte {
	n := int(r.UVarint()) - 1
	if n < 0 {
		return nil
	}
	if !r.need(n) {
		return nil
	}
	b := append([]byte{}, r.B[:n]...)
	r.B = r.B[n:]
	return b
}
func (r *R) ArrayLen() int  { return int(r.I32()) }
func (r *R) CArrayLen() int { return int(r.UVarint()) - 1 }
func (r *R) Tags() {
	n := int(r.UVarint())
	for i := 0; i < n && r.Err == nil; i++ {
		r.UVarint()
		sz := int(r.UVarint())
		r.Take(sz)
	}
}
