//go:build verif

package connwire

import (
	"context"
	"fmt"
	"math"
	"sort"
	"strings"
	"time"

	kafka "github.com/segmentio/kafka-go"
	"github.com/segmentio/kafka-go/compress"
	"github.com/segmentio/kafka-go/sasl/plain"

	"verifharness/fakekafka"
)

// version profiles: highest version advertised per API (lowest is always 0).  The Conn codec negotiates
// Produce {2,3,7}, Fetch {2,5,10}, Metadata {1,6}, CreateTopics {0,1,2}, DeleteTopics {0,1}, JoinGroup {1,2},
// SaslHandshake {0,1}; maxima between two of these make it fall back to the lower one.
type profile struct {
	name string
	vs   map[int16]int16
}

var profiles = []profile{
	{"max", map[int16]int16{}},
	{"min", map[int16]int16{fakekafka.Produce: 2, fakekafka.Fetch: 2, fakekafka.Metadata: 1, fakekafka.CreateTopics: 0, fakekafka.DeleteTopics: 0, fakekafka.JoinGroup: 1, fakekafka.SaslHandshake: 0}},
	{"mid", map[int16]int16{fakekafka.Produce: 3, fakekafka.Fetch: 5, fakekafka.Metadata: 5, fakekafka.CreateTopics: 1, fakekafka.DeleteTopics: 1, fakekafka.JoinGroup: 2, fakekafka.SaslHandshake: 1}},
	{"between", map[int16]int16{fakekafka.Produce: 6, fakekafka.Fetch: 9, fakekafka.Metadata: 3, fakekafka.CreateTopics: 2, fakekafka.DeleteTopics: 0, fakekafka.JoinGroup: 1}},
	{"between2", map[int16]int16{fakekafka.Produce: 4, fakekafka.Fetch: 4, fakekafka.Metadata: 6, fakekafka.CreateTopics: 1}},
}

var produceMax = map[int]int16{2: 2, 3: 5, 7: 7}
var fetchMax = map[int]int16{2: 3, 5: 8, 10: 10}

type codecT struct {
	name  string
	codec kafka.CompressionCodec
}

var codecs = []codecT{
	{"none", nil},
	{"gzip", compress.Gzip.Codec()},
	{"snappy", compress.Snappy.Codec()},
	{"lz4", compress.Lz4.Codec()},
	{"zstd", compress.Zstd.Codec()},
}

func rep(s string, n int) []byte { return []byte(strings.Repeat(s, n)) }

// base time of the explicit-time message sets: a whole number of milliseconds
var t0 = time.Unix(1_700_000_000, 0)

func at(d time.Duration) time.Time { return t0.Add(d) }

const ms = time.Millisecond
const us = time.Microsecond

// msgSet is a named batch for one Produce request.
type msgSet struct {
	name string
	msgs []kafka.Message
}

// straddle: a batch whose second record lies d (not a whole number of milliseconds) after/before the first, chosen so
// that the Duration between the two (truncated to ms) and the difference of their millisecond timestamps fall on
// different sides of the zig-zag varint length boundary `bound` (64, 8192, 1048576 ms).
func straddle(bound int64) []msgSet {
	b := time.Duration(bound) * ms
	return []msgSet{
		{fmt.Sprintf("straddle+%d", bound), []kafka.Message{
			{Value: []byte("a"), Time: at(900 * us)},
			{Value: []byte("b"), Time: at(900*us + b - ms + 200*us)}, // Duration bound-1 ms, timestamps differ by bound
		}},
		{fmt.Sprintf("straddle-%d", bound), []kafka.Message{
			{Value: []byte("a"), Time: at(100 * us)},
			{Value: []byte("b"), Time: at(100*us - b - 200*us)}, // Duration -bound ms, timestamps differ by -(bound+1)
		}},
		{fmt.Sprintf("near+%d", bound), []kafka.Message{
			{Key: []byte("k"), Value: []byte("a"), Time: at(500 * us)},
			{Key: []byte("k"), Value: []byte("b"), Time: at(500*us + b - ms)},
			{Key: []byte("k"), Value: []byte("c"), Time: at(500*us + b)},
			{Key: []byte("k"), Value: []byte("d"), Time: at(499*us + b)},
			{Key: []byte("k"), Value: []byte("e"), Time: at(501*us + b - ms)},
			{Key: []byte("k"), Value: []byte("f"), Time: at(999*us + b - ms)},
		}},
	}
}

func baseSets() []msgSet {
	sets := []msgSet{
		{"single-now", []kafka.Message{{Value: []byte("v")}}},
		{"nil-nil", []kafka.Message{{Key: nil, Value: nil}}},
		{"empty-empty", []kafka.Message{{Key: []byte{}, Value: []byte{}}}},
		{"key-nil-value", []kafka.Message{{Key: []byte("key"), Value: nil}, {Key: nil, Value: []byte("value")}, {Key: []byte{}, Value: []byte("x")}, {Key: []byte("y"), Value: []byte{}}}},
		{"headers", []kafka.Message{
			{Key: []byte("k"), Value: []byte("v"), Headers: []kafka.Header{{Key: "h", Value: []byte("x")}}},
			{Value: []byte("v2"), Headers: []kafka.Header{{Key: "", Value: nil}, {Key: strings.Repeat("H", 130), Value: []byte{}}, {Key: "é€", Value: rep("z", 64)}}},
			{Value: []byte("v3"), Headers: []kafka.Header{}},
		}},
		{"aligned-times", []kafka.Message{
			{Value: []byte("0"), Time: at(0)}, {Value: []byte("1"), Time: at(1 * ms)}, {Value: []byte("63"), Time: at(63 * ms)}, {Value: []byte("64"), Time: at(64 * ms)},
			{Value: []byte("8191"), Time: at(8191 * ms)}, {Value: []byte("8192"), Time: at(8192 * ms)}, {Value: []byte("-1"), Time: at(-1 * ms)},
			{Value: []byte("-64"), Time: at(-64 * ms)}, {Value: []byte("-65"), Time: at(-65 * ms)}, {Value: []byte("same"), Time: at(0)},
		}},
		{"lengths-63-64", []kafka.Message{
			{Key: rep("k", 63), Value: rep("v", 64), Time: at(0)}, {Key: rep("k", 64), Value: rep("v", 63), Time: at(0)},
			{Key: rep("k", 127), Value: rep("v", 128), Time: at(3 * ms)}, {Key: rep("k", 1), Value: rep("v", 8191), Time: at(3 * ms)},
		}},
		{"big-value", []kafka.Message{{Key: []byte("big"), Value: rep("0123456789abcdef", 512), Time: at(0)}, {Value: []byte("tail"), Time: at(0)}}},
	}
	sets = append(sets, straddle(64)...)
	sets = append(sets, straddle(8192)...)
	sets = append(sets, straddle(1048576)...)
	var many []kafka.Message
	for i := 0; i < 120; i++ {
		// 0.7 ms apart: the millisecond parts accumulate differently from the durations
		many = append(many, kafka.Message{Key: []byte(fmt.Sprintf("k%d", i%7)), Value: []byte(fmt.Sprintf("value-%03d", i)), Time: at(time.Duration(i) * 700 * us)})
	}
	sets = append(sets, msgSet{"many-120", many})
	var all []kafka.Message
	for _, s := range straddle(64) {
		all = append(all, s.msgs...)
	}
	for _, s := range straddle(8192) {
		all = append(all, s.msgs...)
	}
	sets = append(sets, msgSet{"straddles-in-one-batch", all})
	return sets
}

var lens = []int{-1, 0, 1, 2, 62, 63, 64, 65, 127, 128, 300}

func (e *env) randBytes(n int) []byte {
	if n < 0 {
		return nil
	}
	b := make([]byte, n)
	for i := range b {
		b[i] = byte(e.rng.Intn(256))
	}
	return b
}

// randSets: seeded batches with random key/value/header lengths and times that are not aligned on milliseconds,
// with differences drawn around the varint length boundaries.
func (e *env) randSets(n int) []msgSet {
	bounds := []int64{1, 64, 8192, 1048576, 134217728}
	var out []msgSet
	for s := 0; s < n; s++ {
		k := 1 + e.rng.Intn(6)
		base := time.Duration(e.rng.Intn(1000)) * us
		var msgs []kafka.Message
		for i := 0; i < k; i++ {
			b := bounds[e.rng.Intn(len(bounds))]
			d := time.Duration(b)*ms + time.Duration(e.rng.Intn(3000)-1500)*us
			if e.rng.Intn(3) == 0 {
				d = -d
			}
			if i == 0 {
				d = 0
			}
			m := kafka.Message{Key: e.randBytes(lens[e.rng.Intn(len(lens))]), Value: e.randBytes(lens[e.rng.Intn(len(lens))]), Time: at(base + d)}
			for h := e.rng.Intn(3); h > 0; h-- {
				m.Headers = append(m.Headers, kafka.Header{Key: string(rep("h", e.rng.Intn(4))), Value: e.randBytes(lens[e.rng.Intn(len(lens))])})
			}
			msgs = append(msgs, m)
		}
		out = append(out, msgSet{fmt.Sprintf("rand-%d", s), msgs})
	}
	return out
}

func cloneMsgs(in []kafka.Message) []kafka.Message {
	out := make([]kafka.Message, len(in))
	copy(out, in)
	return out
}

// produceScenario: one Conn per (transactional id) on topic t/0, one Produce request per message set.
func produceScenario(ver int, c codecT, tier string) *Scenario {
	return &Scenario{
		Name:     fmt.Sprintf("produce-v%d-%s", ver, c.name),
		Versions: map[int16]int16{fakekafka.Produce: produceMax[ver]},
		Run: func(e *env) {
			sets := baseSets()
			if c.codec != nil && tier == "quick" {
				// compressed batches: the pre-computed size is the compressed length, taken after the fact
				sets = append(sets[:5], sets[8:11]...)
			}
			nrand := 6
			if tier != "quick" {
				nrand = 40
			}
			sets = append(sets, e.randSets(nrand)...)
			conn := e.conn("b1:9092", kafka.ConnConfig{ClientID: "producer-" + c.name, Topic: "t", Partition: 0})
			if conn == nil {
				return
			}
			defer conn.Close()
			for i, s := range sets {
				s := s
				if i == 3 {
					e.do("SetRequiredAcks", func() error { return conn.SetRequiredAcks(1) })
				}
				e.do("produce "+s.name, func() error {
					conn.SetDeadline(time.Now().Add(opTimeout))
					var err error
					if c.codec == nil && i%2 == 0 {
						_, err = conn.WriteMessages(cloneMsgs(s.msgs)...)
					} else {
						_, err = conn.WriteCompressedMessages(c.codec, cloneMsgs(s.msgs)...)
					}
					return err
				})
			}
			e.do("Write", func() error { _, err := conn.Write([]byte("plain Write")); return err })
			// a transactional id (Produce v3+ carries it), other topics / partitions
			for _, cfg := range []kafka.ConnConfig{
				{ClientID: "tx", Topic: "t", Partition: 1, TransactionalID: "txn-id-1"},
				{ClientID: "tx", Topic: longTopic, Partition: 1, TransactionalID: strings.Repeat("T", 300)},
				{ClientID: "", Topic: "", Partition: 0},
				{ClientID: strings.Repeat("c", 260), Topic: utfTopic, Partition: 0},
				{ClientID: "edge", Topic: "t", Partition: math.MaxInt32},
			} {
				c2 := e.conn("b1:9092", cfg)
				if c2 == nil {
					continue
				}
				for _, s := range sets[:4] {
					s := s
					e.do("produce(2) "+s.name, func() error {
						c2.SetDeadline(time.Now().Add(opTimeout))
						_, err := c2.WriteCompressedMessages(c.codec, cloneMsgs(s.msgs)...)
						return err
					})
				}
				c2.Close()
			}
		},
	}
}

// fetchScenario: Fetch at the negotiated version with various offsets, min/max bytes, isolation levels; ListOffsets v1.
func fetchScenario(ver int) *Scenario {
	return &Scenario{
		Name:     fmt.Sprintf("fetch-v%d", ver),
		Versions: map[int16]int16{fakekafka.Fetch: fetchMax[ver]},
		Run: func(e *env) {
			type rb struct {
				off   int64
				cfg   kafka.ReadBatchConfig
				plain bool
			}
			reads := []rb{
				{0, kafka.ReadBatchConfig{MinBytes: 1, MaxBytes: 1 << 20}, true},
				{0, kafka.ReadBatchConfig{MinBytes: 100, MaxBytes: 1 << 16, IsolationLevel: kafka.ReadCommitted}, false},
				{8, kafka.ReadBatchConfig{MinBytes: 1, MaxBytes: 1 << 30, MaxWait: 250 * ms}, false},
				{11, kafka.ReadBatchConfig{MinBytes: 1 << 20, MaxBytes: 1 << 20, MaxWait: 1}, false},
				{12, kafka.ReadBatchConfig{MinBytes: 1, MaxBytes: 4096, IsolationLevel: kafka.ReadUncommitted, MaxWait: 24 * time.Hour}, false},
				{math.MaxInt64, kafka.ReadBatchConfig{MinBytes: 1, MaxBytes: 10}, false},
				// last: a response cut inside a batch can make the Conn give up the connection
				{0, kafka.ReadBatchConfig{MinBytes: 100, MaxBytes: 1000, IsolationLevel: kafka.ReadCommitted}, false},
				{4, kafka.ReadBatchConfig{MinBytes: 0, MaxBytes: 1}, true},
			}
			for _, cfg := range []kafka.ConnConfig{
				{ClientID: "fetcher", Topic: "t", Partition: 0},
				{ClientID: "fetcher", Topic: "t", Partition: 1},
				{ClientID: "", Topic: longTopic, Partition: 1},
				{ClientID: "f", Topic: "", Partition: 0},
				{ClientID: "fetch-" + strings.Repeat("é", 40), Topic: utfTopic, Partition: 0},
				{ClientID: "edge", Topic: "no-such-topic", Partition: math.MaxInt32},
			} {
				conn := e.conn("b1:9092", cfg)
				if conn == nil {
					continue
				}
				// offsets: ListOffsets v1 with -2, -1 and explicit times; Seek variants send it too
				e.do("ReadFirstOffset", func() error { _, err := conn.ReadFirstOffset(); return err })
				e.do("ReadLastOffset", func() error { _, err := conn.ReadLastOffset(); return err })
				e.do("ReadOffsets", func() error { _, _, err := conn.ReadOffsets(); return err })
				for _, t := range []time.Time{time.UnixMilli(tsOf(5)), time.UnixMilli(0), time.UnixMilli(1), time.Unix(-1, 0), time.UnixMilli(1 << 40), {}, at(999 * us), time.Unix(0, math.MaxInt64)} {
					t := t
					e.do("ReadOffset", func() error { conn.SetDeadline(time.Now().Add(opTimeout)); _, err := conn.ReadOffset(t); return err })
				}
				for _, w := range []int{kafka.SeekStart, kafka.SeekEnd, kafka.SeekCurrent, kafka.SeekAbsolute} {
					w := w
					e.do("Seek", func() error { _, err := conn.Seek(2, w); return err })
				}
				e.do("ReadMessage", func() error {
					conn.SetDeadline(time.Now().Add(opTimeout))
					conn.Seek(0, kafka.SeekStart)
					_, err := conn.ReadMessage(1 << 16)
					return err
				})
				for i, r := range reads {
					r := r
					e.do(fmt.Sprintf("fetch %s/%d #%d", cfg.Topic, cfg.Partition, i), func() error {
						conn.SetDeadline(time.Now().Add(opTimeout))
						if _, err := conn.Seek(r.off, kafka.SeekAbsolute|kafka.SeekDontCheck); err != nil {
							return err
						}
						var b *kafka.Batch
						if r.plain {
							b = conn.ReadBatch(r.cfg.MinBytes, r.cfg.MaxBytes)
						} else {
							b = conn.ReadBatchWith(r.cfg)
						}
						for n := 0; n < 3; n++ {
							if _, err := b.ReadMessage(); err != nil {
								break
							}
						}
						return b.Close()
					})
				}
				conn.Close()
			}
		},
	}
}

func manyTopics(n int) []string {
	out := make([]string, n)
	for i := range out {
		out[i] = fmt.Sprintf("bulk-topic-%03d", i)
	}
	return out
}

// adminScenario: ApiVersions, Metadata, CreateTopics, DeleteTopics on one profile.
func adminScenario(p profile) *Scenario {
	return &Scenario{
		Name:     "admin-" + p.name,
		Versions: p.vs,
		Run: func(e *env) {
			for _, cid := range []string{"admin", "", strings.Repeat("A", 1000), "clé-€"} {
				conn := e.conn("b1:9092", kafka.ConnConfig{ClientID: cid, Topic: "t", Partition: 2})
				if conn == nil {
					continue
				}
				e.do("ApiVersions", func() error { _, err := conn.ApiVersions(); return err })
				e.do("ApiVersions", func() error { _, err := conn.ApiVersions(); return err })
				e.do("Brokers", func() error { _, err := conn.Brokers(); return err })
				e.do("Controller", func() error { _, err := conn.Controller(); return err })
				for _, topics := range [][]string{nil, {}, {"t"}, {""}, {"t", "topic3", longTopic, utfTopic, ""}, {"missing"}, manyTopics(60)} {
					topics := topics
					e.do("ReadPartitions", func() error {
						conn.SetDeadline(time.Now().Add(opTimeout))
						_, err := conn.ReadPartitions(topics...)
						return err
					})
				}
				creates := [][]kafka.TopicConfig{
					{},
					{{Topic: "new1", NumPartitions: 3, ReplicationFactor: 2}},
					{{Topic: "", NumPartitions: -1, ReplicationFactor: -1}},
					{{Topic: "assigned", NumPartitions: -1, ReplicationFactor: -1, ReplicaAssignments: []kafka.ReplicaAssignment{
						{Partition: 0, Replicas: []int{1, 2}}, {Partition: 1, Replicas: []int{}}, {Partition: math.MaxInt32, Replicas: []int{math.MaxInt32, 0, math.MinInt32, -1}}}}},
					{{Topic: "configured", NumPartitions: 1, ReplicationFactor: 1, ConfigEntries: []kafka.ConfigEntry{
						{ConfigName: "retention.ms", ConfigValue: "86400000"}, {ConfigName: "", ConfigValue: ""}, {ConfigName: "cleanup.policy", ConfigValue: strings.Repeat("compact,", 100)}}}},
					{{Topic: longTopic, NumPartitions: math.MaxInt32, ReplicationFactor: math.MaxInt16}, {Topic: utfTopic, NumPartitions: math.MinInt32, ReplicationFactor: math.MinInt16,
						ReplicaAssignments: []kafka.ReplicaAssignment{}, ConfigEntries: []kafka.ConfigEntry{}}},
				}
				var bulk []kafka.TopicConfig
				for i, name := range manyTopics(40) {
					tc := kafka.TopicConfig{Topic: name, NumPartitions: i, ReplicationFactor: i % 4}
					if i%3 == 0 {
						tc.ConfigEntries = []kafka.ConfigEntry{{ConfigName: "k", ConfigValue: fmt.Sprint(i)}}
					}
					if i%5 == 0 {
						tc.ReplicaAssignments = []kafka.ReplicaAssignment{{Partition: i, Replicas: []int{i, i + 1}}}
					}
					bulk = append(bulk, tc)
				}
				creates = append(creates, bulk)
				for _, tcs := range creates {
					tcs := tcs
					e.do("CreateTopics", func() error { conn.SetDeadline(time.Now().Add(opTimeout)); return conn.CreateTopics(tcs...) })
				}
				for _, names := range [][]string{{}, {"topic6"}, {"", longTopic}, {"missing", "missing"}, manyTopics(50), {utfTopic}} {
					names := names
					e.do("DeleteTopics", func() error { conn.SetDeadline(time.Now().Add(opTimeout)); return conn.DeleteTopics(names...) })
				}
				// one short deadline: the time-outs sent in CreateTopics / DeleteTopics derive from it
				e.do("CreateTopics(short deadline)", func() error {
					conn.SetDeadline(time.Now().Add(1500 * ms))
					return conn.CreateTopics(kafka.TopicConfig{Topic: "soon", NumPartitions: 1, ReplicationFactor: 1})
				})
				conn.Close()
			}
		},
	}
}

func waitJournal(e *env, api int16, n int, d time.Duration) bool {
	deadline := time.Now().Add(d)
	for {
		c := 0
		for _, j := range e.cl.Journal() {
			if j.ApiKey == api {
				c++
			}
		}
		if c >= n {
			return true
		}
		if time.Now().After(deadline) {
			return false
		}
		time.Sleep(5 * time.Millisecond)
	}
}

type nolog struct{}

func (nolog) Printf(string, ...interface{}) {}

// groupScenario: kafka.ConsumerGroup members (FindCoordinator, JoinGroup, SyncGroup, OffsetFetch, Heartbeat,
// OffsetCommit, LeaveGroup and Metadata travel through Conn's codec).
func groupScenario(p profile, variant int) *Scenario {
	return &Scenario{
		Name:     fmt.Sprintf("group-%s-%d", p.name, variant),
		Versions: p.vs,
		Run: func(e *env) {
			gid := "g"
			topics := []string{"t"}
			cid := "member"
			balancers := []kafka.GroupBalancer(nil)
			retention := time.Duration(0)
			switch variant {
			case 1:
				gid = "group-" + strings.Repeat("G", 200)
				topics = []string{"t", "topic6", longTopic, utfTopic, "topic3"}
				cid = ""
				balancers = []kafka.GroupBalancer{kafka.RackAffinityGroupBalancer{Rack: "rack-1"}, kafka.RangeGroupBalancer{}, kafka.RoundRobinGroupBalancer{}}
				retention = 36 * time.Hour
			case 2:
				gid = "é"
				topics = []string{"topic5", "t"}
				cid = strings.Repeat("m", 300)
				balancers = []kafka.GroupBalancer{kafka.RoundRobinGroupBalancer{}}
			}
			newMember := func(i int) *kafka.ConsumerGroup {
				d := &kafka.Dialer{DialFunc: e.dialFunc(cid), ClientID: cid, Timeout: opTimeout}
				cg, err := kafka.NewConsumerGroup(kafka.ConsumerGroupConfig{
					ID: gid, Brokers: []string{"b1:9092"}, Dialer: d, Topics: topics, GroupBalancers: balancers,
					HeartbeatInterval: 30 * ms, JoinGroupBackoff: 50 * ms, SessionTimeout: 8 * time.Second, RebalanceTimeout: 2 * time.Second,
					RetentionTime: retention, StartOffset: kafka.FirstOffset, Timeout: opTimeout, Logger: nolog{}, ErrorLogger: nolog{},
				})
				if err != nil {
					e.errf("NewConsumerGroup: %v", err)
					return nil
				}
				return cg
			}
			next := func(cg *kafka.ConsumerGroup) *kafka.Generation {
				ctx, cancel := context.WithTimeout(context.Background(), 15*time.Second)
				defer cancel()
				var gen *kafka.Generation
				e.do("Next", func() error { var err error; gen, err = cg.Next(ctx); return err })
				return gen
			}
			commit := func(gen *kafka.Generation, offs map[string]map[int]int64) {
				if gen != nil {
					e.do("CommitOffsets", func() error { return gen.CommitOffsets(offs) })
				}
			}
			m1 := newMember(1)
			if m1 == nil {
				return
			}
			g1 := next(m1)
			commit(g1, map[string]map[int]int64{"t": {0: 5, 1: 0, 3: math.MaxInt64}})
			commit(g1, map[string]map[int]int64{})
			commit(g1, map[string]map[int]int64{"t": {}, longTopic: {1: 1 << 40, 0: -1}, utfTopic: {0: 7}, "": {0: 1}})
			nhb := 0
			for _, j := range e.cl.Journal() {
				if j.ApiKey == fakekafka.Heartbeat {
					nhb++
				}
			}
			waitJournal(e, fakekafka.Heartbeat, nhb+2, 5*time.Second)
			if variant != 0 {
				// a second member: the first one is told to rejoin (JoinGroup with a member id, SyncGroup of a follower)
				m2 := newMember(2)
				if m2 != nil {
					ch := make(chan *kafka.Generation, 1)
					go func() { ch <- next(m2) }()
					g1b := next(m1)
					g2 := <-ch
					commit(g1b, map[string]map[int]int64{"t": {0: 6}})
					commit(g2, map[string]map[int]int64{"t": {1: 2}, "topic5": {4: 9}})
					e.do("Close m2", m2.Close)
				}
			}
			e.do("Close m1", m1.Close)
		},
	}
}

// saslScenario: Dialer with the PLAIN mechanism: ApiVersions, SaslHandshake v0 (bare tokens follow) or v1 (SaslAuthenticate v0).
func saslScenario(p profile) *Scenario {
	return &Scenario{
		Name:     "sasl-" + p.name,
		Versions: p.vs,
		Sasl:     true,
		Run: func(e *env) {
			users := make([]string, 0, len(saslUsers))
			for u := range saslUsers {
				users = append(users, u)
			}
			sort.Strings(users)
			for i, user := range users {
				pw := saslUsers[user]
				cid := fmt.Sprintf("sasl-client-%d", len(user))
				d := &kafka.Dialer{ClientID: cid, DialFunc: e.dialFunc(cid), SASLMechanism: plain.Mechanism{Username: user, Password: pw}, Timeout: opTimeout}
				var conn *kafka.Conn
				e.do("DialContext", func() error {
					ctx, cancel := context.WithTimeout(context.Background(), opTimeout)
					defer cancel()
					var err error
					if i%2 == 0 {
						conn, err = d.DialLeader(ctx, "tcp", "b1:9092", "t", 1)
					} else {
						conn, err = d.DialContext(ctx, "tcp", "b1:9092")
					}
					return err
				})
				if conn == nil {
					continue
				}
				conn.SetDeadline(time.Now().Add(opTimeout))
				e.do("ReadPartitions", func() error { _, err := conn.ReadPartitions("t"); return err })
				conn.Close()
			}
		},
	}
}

// lowScenario: the broker advertises, for APIs whose version the Conn negotiates, a highest version BELOW the lowest one the
// Conn implements (Produce < 2, Fetch < 2, Metadata < 1, JoinGroup < 1), or does not advertise the API at all.  The operations
// must fail on the client side ("no matching versions were found"): any frame of such an API would carry a version above the
// advertised range, which WireConnCheck flags (version-above-advertised).  The other operations of the scenario still work.
func lowScenario(name string, vs map[int16]int16) *Scenario {
	return &Scenario{
		Name:     "low-" + name,
		Versions: vs,
		Run: func(e *env) {
			for _, cfg := range []kafka.ConnConfig{{ClientID: "old-broker", Topic: "t", Partition: 0}, {ClientID: "", Topic: longTopic, Partition: 1}} {
				conn := e.conn("b1:9092", cfg)
				if conn == nil {
					continue
				}
				step := func(what string, f func() error) {
					e.do(what, func() error { conn.SetDeadline(time.Now().Add(opTimeout)); return f() })
				}
				step("ApiVersions", func() error { _, err := conn.ApiVersions(); return err })
				step("WriteMessages", func() error { _, err := conn.WriteMessages(kafka.Message{Value: []byte("v"), Time: at(0)}); return err })
				step("WriteCompressedMessages", func() error {
					_, err := conn.WriteCompressedMessages(compress.Gzip.Codec(), kafka.Message{Key: []byte("k"), Value: []byte("v")})
					return err
				})
				step("ReadPartitions", func() error { _, err := conn.ReadPartitions("t"); return err })
				step("ReadPartitions()", func() error { _, err := conn.ReadPartitions(); return err })
				step("ReadBatch", func() error {
					if _, err := conn.Seek(0, kafka.SeekAbsolute|kafka.SeekDontCheck); err != nil {
						return err
					}
					b := conn.ReadBatch(1, 1<<16)
					b.ReadMessage()
					return b.Close()
				})
				step("ReadMessage", func() error { _, err := conn.ReadMessage(1 << 16); return err })
				step("ReadLastOffset", func() error { _, err := conn.ReadLastOffset(); return err })
				conn.Close()
			}
			// a consumer group member: FindCoordinator, then JoinGroup at the negotiated version (and Metadata as the leader)
			d := &kafka.Dialer{DialFunc: e.dialFunc("old-member"), ClientID: "old-member", Timeout: opTimeout}
			cg, err := kafka.NewConsumerGroup(kafka.ConsumerGroupConfig{
				ID: "g-old", Brokers: []string{"b1:9092"}, Dialer: d, Topics: []string{"t"},
				HeartbeatInterval: 30 * ms, JoinGroupBackoff: 300 * ms, SessionTimeout: 8 * time.Second, RebalanceTimeout: 2 * time.Second,
				StartOffset: kafka.FirstOffset, Timeout: opTimeout, Logger: nolog{}, ErrorLogger: nolog{},
			})
			if err != nil {
				e.errf("NewConsumerGroup: %v", err)
				return
			}
			ctx, cancel := context.WithTimeout(context.Background(), 1200*ms)
			e.do("Next", func() error { _, err := cg.Next(ctx); return err })
			cancel()
			e.do("Close", cg.Close)
			// DialLeader looks the partition up with Metadata
			e.do("DialLeader", func() error {
				ctx, cancel := context.WithTimeout(context.Background(), 1500*ms)
				defer cancel()
				c, err := d.DialLeader(ctx, "tcp", "b1:9092", "t", 1)
				if c != nil {
					c.Close()
				}
				return err
			})
		},
	}
}

// probeScenario (only with -probe, not part of the check): the versions the Conn does NOT negotiate.  ListOffsets v1, Metadata v1
// (Brokers / Controller), OffsetCommit v2, OffsetFetch v1 are hard-coded, and an API that is not advertised is treated as
// advertised with range 0..0 (so CreateTopics / DeleteTopics / SaslHandshake v0 are sent to a broker that does not list them).
func probeScenario(group bool) *Scenario {
	name, vs := "probe-hardcoded", map[int16]int16{fakekafka.ListOffsets: 0, fakekafka.Metadata: 0, fakekafka.CreateTopics: -1, fakekafka.DeleteTopics: -1}
	if group {
		name, vs = "probe-hardcoded-group", map[int16]int16{fakekafka.OffsetCommit: 1, fakekafka.OffsetFetch: 0, fakekafka.FindCoordinator: -1,
			fakekafka.SyncGroup: -1, fakekafka.Heartbeat: -1, fakekafka.LeaveGroup: -1}
	}
	return &Scenario{
		Name:     name,
		Versions: vs,
		Run: func(e *env) {
			conn := e.conn("b1:9092", kafka.ConnConfig{ClientID: "probe", Topic: "t", Partition: 0})
			if conn == nil {
				return
			}
			e.do("ReadLastOffset", func() error { _, err := conn.ReadLastOffset(); return err })
			e.do("Brokers", func() error { _, err := conn.Brokers(); return err })
			e.do("Controller", func() error { _, err := conn.Controller(); return err })
			e.do("CreateTopics", func() error {
				return conn.CreateTopics(kafka.TopicConfig{Topic: "x", NumPartitions: 1, ReplicationFactor: 1})
			})
			e.do("DeleteTopics", func() error { return conn.DeleteTopics("topic6") })
			conn.Close()
			d := &kafka.Dialer{DialFunc: e.dialFunc("probe-member"), ClientID: "probe-member", Timeout: opTimeout}
			cg, err := kafka.NewConsumerGroup(kafka.ConsumerGroupConfig{
				ID: "g-probe", Brokers: []string{"b1:9092"}, Dialer: d, Topics: []string{"t"},
				HeartbeatInterval: 30 * ms, JoinGroupBackoff: 300 * ms, SessionTimeout: 8 * time.Second, RebalanceTimeout: 2 * time.Second,
				StartOffset: kafka.FirstOffset, Timeout: opTimeout, Logger: nolog{}, ErrorLogger: nolog{},
			})
			if err != nil {
				e.errf("NewConsumerGroup: %v", err)
				return
			}
			ctx, cancel := context.WithTimeout(context.Background(), 3*time.Second)
			var gen *kafka.Generation
			e.do("Next", func() error { var err error; gen, err = cg.Next(ctx); return err })
			cancel()
			if gen != nil {
				e.do("CommitOffsets", func() error { return gen.CommitOffsets(map[string]map[int]int64{"t": {0: 1}}) })
			}
			e.do("Close", cg.Close)
		},
	}
}

// Scenarios is the list for a tier.
func Scenarios(tier string, probe bool) []*Scenario {
	var out []*Scenario
	if probe {
		out = append(out, probeScenario(false), probeScenario(true))
	}
	for _, v := range []int{2, 3, 7} {
		for _, c := range codecs {
			out = append(out, produceScenario(v, c, tier))
		}
	}
	for _, v := range []int{2, 5, 10} {
		out = append(out, fetchScenario(v))
	}
	for _, p := range profiles {
		out = append(out, adminScenario(p))
	}
	for i, p := range profiles[:3] {
		out = append(out, groupScenario(p, i))
	}
	out = append(out, groupScenario(profiles[3], 1))
	for _, p := range profiles[:3] {
		out = append(out, saslScenario(p))
	}
	// advertised maxima below the lowest version the Conn implements, one API at a time, all at once, and not advertised at all
	P, F, M, J := int16(fakekafka.Produce), int16(fakekafka.Fetch), int16(fakekafka.Metadata), int16(fakekafka.JoinGroup)
	out = append(out,
		lowScenario("produce-1", map[int16]int16{P: 1}),
		lowScenario("produce-0", map[int16]int16{P: 0}),
		lowScenario("fetch-1", map[int16]int16{F: 1}),
		lowScenario("fetch-0", map[int16]int16{F: 0}),
		lowScenario("metadata-0", map[int16]int16{M: 0}),
		lowScenario("joingroup-0", map[int16]int16{J: 0}),
		lowScenario("all", map[int16]int16{P: 1, F: 1, M: 0, J: 0}),
		lowScenario("kafka-0.10.0", map[int16]int16{P: 2, F: 2, M: 1, J: 0, fakekafka.OffsetCommit: 2, fakekafka.OffsetFetch: 1}),
		lowScenario("absent-produce", map[int16]int16{P: -1}),
		lowScenario("absent-fetch", map[int16]int16{F: -1}),
		lowScenario("absent-metadata", map[int16]int16{M: -1}),
		lowScenario("absent-joingroup", map[int16]int16{J: -1}),
		lowScenario("absent-all", map[int16]int16{P: -1, F: -1, M: -1, J: -1}),
	)
	return out
}
