//go:build verif

// Package connwire is driver B of property C04: it makes real kafka.Conn values (dialled through
// fakenet to fakekafka brokers) emit every request type the hand-written Conn codec can write, at
// every version it negotiates, and captures the raw client->broker byte stream of every connection
// together with the version ranges the broker advertised on it.  The streams are judged by
// spec/wire/WireConnCheck.tla (framing, header, canonical body encoding); nothing is judged here.
package connwire

import (
	"context"
	"fmt"
	"math/rand"
	"net"
	"sort"
	"strings"
	"sync"
	"time"

	kafka "github.com/segmentio/kafka-go"

	"verifharness/fakekafka"
	"verifharness/fakenet"
	"verifharness/krec"
	"verifharness/kwire"
)

// Adv is one advertised version range.
type Adv struct {
	K  int `json:"k"`
	Lo int `json:"lo"`
	Hi int `json:"hi"`
}

// Rec is one captured connection.
type Rec struct {
	Scenario   string `json:"scenario"`
	Conn       int    `json:"conn"`
	Addr       string `json:"addr"`
	ClientID   []int  `json:"clientId"`   // bytes of the client id the scenario configured for this connection
	Advertised []Adv  `json:"advertised"` // what the broker's ApiVersions response lists on this connection
	Stream     []int  `json:"stream"`     // every byte the client wrote, in order
	WErr       bool   `json:"werr"`       // a Write on the transport failed (the last frame may be incomplete)
}

// Log is the account of one scenario.
type Log struct {
	Scenario string   `json:"scenario"`
	Calls    int      `json:"calls"`
	Errs     []string `json:"errs"` // the first 40 errors returned by library calls (many are expected: unknown topics, ...)
	NErr     int      `json:"nerr"` // number of library calls that returned an error
	Conns    int      `json:"conns"`
	Ms       int64    `json:"ms"`
}

// tap records every byte written to the wrapped connection.
type tap struct {
	net.Conn
	mu       sync.Mutex
	buf      []byte
	werr     bool
	id       int
	addr     string
	clientID string
	adv      []Adv
}

func (t *tap) Write(p []byte) (int, error) {
	n, err := t.Conn.Write(p)
	t.mu.Lock()
	if n > 0 {
		t.buf = append(t.buf, p[:n]...)
	}
	if err != nil || n != len(p) {
		t.werr = true
	}
	t.mu.Unlock()
	return n, err
}

type env struct {
	name  string
	net   *fakenet.Net
	cl    *fakekafka.Cluster
	rng   *rand.Rand
	mu    sync.Mutex
	taps  []*tap
	errs  []string
	nerr  int
	calls int
}

const opTimeout = 10 * time.Second

func (e *env) errf(format string, a ...interface{}) {
	e.mu.Lock()
	e.nerr++
	if len(e.errs) < 40 {
		e.errs = append(e.errs, fmt.Sprintf(format, a...))
	}
	e.mu.Unlock()
}

// do runs one library call; errors are part of the account, not verdicts (many calls are expected to fail:
// unknown topics, partitions that do not exist).
func (e *env) do(what string, f func() error) {
	e.mu.Lock()
	e.calls++
	e.mu.Unlock()
	defer func() {
		if p := recover(); p != nil {
			e.errf("%s: PANIC %v", what, p)
		}
	}()
	if err := f(); err != nil {
		e.errf("%s: %v", what, err)
	}
}

func advOf(vs map[int16]fakekafka.VersionRange) []Adv {
	out := make([]Adv, 0, len(vs))
	for k, r := range vs {
		out = append(out, Adv{int(k), int(r.Min), int(r.Max)})
	}
	sort.Slice(out, func(i, j int) bool { return out[i].K < out[j].K })
	return out
}

// dialFunc is a kafka.Dialer.DialFunc whose connections are tapped; clientID is what the scenario configured.
func (e *env) dialFunc(clientID string) func(ctx context.Context, network, address string) (net.Conn, error) {
	if clientID == "" {
		clientID = kafka.DefaultClientID
	}
	return func(ctx context.Context, network, address string) (net.Conn, error) {
		nc, err := e.net.DialContext(ctx, network, address)
		if err != nil {
			return nil, err
		}
		e.cl.Lock()
		vs := e.cl.Versions
		for _, b := range e.cl.Brokers {
			if b.Addr() == address && b.Versions != nil {
				vs = b.Versions
			}
		}
		adv := advOf(vs)
		e.cl.Unlock()
		e.mu.Lock()
		t := &tap{Conn: nc, id: len(e.taps) + 1, addr: address, clientID: clientID, adv: adv}
		e.taps = append(e.taps, t)
		e.mu.Unlock()
		return t, nil
	}
}

// conn opens a low-level Conn on the leader's address.
func (e *env) conn(addr string, cfg kafka.ConnConfig) *kafka.Conn {
	nc, err := e.dialFunc(cfg.ClientID)(context.Background(), "tcp", addr)
	if err != nil {
		e.errf("dial %s: %v", addr, err)
		return nil
	}
	c := kafka.NewConnWith(nc, cfg)
	c.SetDeadline(time.Now().Add(opTimeout))
	return c
}

func (e *env) records() []Rec {
	e.mu.Lock()
	defer e.mu.Unlock()
	out := make([]Rec, 0, len(e.taps))
	for _, t := range e.taps {
		t.mu.Lock()
		r := Rec{Scenario: e.name, Conn: t.id, Addr: t.addr, ClientID: ints([]byte(t.clientID)), Advertised: t.adv, Stream: ints(t.buf), WErr: t.werr}
		t.mu.Unlock()
		out = append(out, r)
	}
	return out
}

func ints(b []byte) []int {
	out := make([]int, len(b))
	for i, x := range b {
		out[i] = int(x)
	}
	return out
}

// Scenario is one independent run against its own network and cluster.
type Scenario struct {
	Name     string
	Versions map[int16]int16 // highest advertised version per API key (others: fakekafka.DefaultVersions); -1: not advertised at all
	Sasl     bool
	Run      func(e *env)
}

const (
	longTopic = "topic-with-a-long-name.0123456789_0123456789_0123456789_0123456789_0123456789_0123456789_0123456789_0123456789_0123456789_0123456789_0123456789_0123456789_0123456789_0123456789_0123456789_0123456789_0123456789_0123456789_0123456789_0123456789-end"
	utfTopic  = "télé-€"
)

func tsOf(k int) int64 { return 1_600_000_000_000 + int64(k)*1000 }

// newEnv builds the cluster every scenario starts from: topics "t" (4 partitions, records in partition 0 and 1),
// "" (empty name), a long and a non-ASCII name, and topic1..topic6.  All partitions are led by broker 1.
func newEnv(sc *Scenario, seed int64) *env {
	n := fakenet.NewNet()
	cl := fakekafka.NewCluster(n, 2)
	vs := fakekafka.DefaultVersions()
	for k, max := range sc.Versions {
		if max < 0 {
			delete(vs, k) // the API is not advertised at all
		} else {
			vs[k] = fakekafka.VersionRange{Min: 0, Max: max}
		}
	}
	cl.Versions = vs
	add := func(name string, parts int) {
		t := cl.AddTopic(name, parts)
		for _, p := range t.Partitions {
			p.Leader, p.Replicas, p.ISR = 1, []int{1, 2}, []int{1, 2}
		}
	}
	add("t", 4)
	add("", 1)
	add(longTopic, 2)
	add(utfTopic, 1)
	for i := 1; i <= 6; i++ {
		add(fmt.Sprintf("topic%d", i), i)
	}
	for part := 0; part < 2; part++ {
		p := cl.Part("t", part)
		var recs []krec.Rec
		for i := 0; i < 12; i++ {
			recs = append(recs, krec.Rec{Offset: int64(i), TsMs: tsOf(i), Key: []byte(fmt.Sprintf("k%d", i)), Value: []byte(fmt.Sprintf("value-%d", i))})
			if len(recs) == 4 {
				p.AppendV2(recs, krec.None)
				recs = nil
			}
		}
	}
	if sc.Sasl {
		cl.Sasl = &fakekafka.SaslConfig{Mechanisms: []string{"PLAIN"}, Users: saslUsers}
	}
	// CreateTopics is answered without being applied (the requests carry boundary partition counts); ListGroups and
	// DescribeGroups are not implemented by the fake brokers and are not reachable from outside the package anyway.
	cl.Intercept = func(req *fakekafka.Request) *fakekafka.Reply {
		if req.ApiKey == fakekafka.CreateTopics {
			var w kwire.W
			if req.Version >= 2 {
				w.I32(0)
			}
			w.ArrayLen(0)
			rep := fakekafka.Body(w.B)
			return &rep
		}
		return nil
	}
	return &env{name: sc.Name, net: n, cl: cl, rng: rand.New(rand.NewSource(seed))}
}

var saslUsers = map[string]string{
	"alice":                            "secret",
	"u":                                "p",
	"user-" + strings.Repeat("x", 200): strings.Repeat("pw", 150),
	"jürgen":                           "grüß-€",
	"bob@example.com":                  " spaces and \t tabs ",
	"name,with=special":                "=,=",
	"n" + strings.Repeat("é", 63) + "": "q",
}

// RunScenario executes one scenario and returns the captured connections.
func RunScenario(sc *Scenario, seed int64) ([]Rec, Log) {
	t0 := time.Now()
	e := newEnv(sc, seed)
	done := make(chan struct{})
	go func() {
		defer close(done)
		defer func() {
			if p := recover(); p != nil {
				e.errf("scenario: PANIC %v", p)
			}
		}()
		sc.Run(e)
	}()
	select {
	case <-done:
	case <-time.After(60 * time.Second):
		e.errf("scenario: still running after 60 s (abandoned)")
	}
	recs := e.records()
	e.mu.Lock()
	lg := Log{Scenario: sc.Name, Calls: e.calls, Errs: append([]string{}, e.errs...), NErr: e.nerr, Conns: len(recs), Ms: time.Since(t0).Milliseconds()}
	e.mu.Unlock()
	return recs, lg
}
