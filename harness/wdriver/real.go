package wdriver

// Real-transport mode (cfg.net = "real"): the Writer is not given the scripted RoundTripper but a kafka.Transport
// that dials a fake cluster on the in-memory network, so that the produce path goes through the library's own
// connection pool, request encoder and response decoder.  The script's outcome table is applied by the broker:
// the request is applied or not, and the answer is sent, cut at a byte position, withheld, or replaced by an error
// code.  What the broker did is recorded as the same "produce" event the scripted transport records, with
// ok = "the complete acknowledgement was put on the wire".

import (
	"fmt"
	"strconv"
	"strings"
	"sync/atomic"
	"time"

	kafka "github.com/segmentio/kafka-go"

	"verifharness/fakekafka"
	"verifharness/fakenet"
	"verifharness/krec"
	"verifharness/kwire"
	"verifharness/trace"
)

var realCounter int64

type realNet struct {
	net *fakenet.Net
	cl  *fakekafka.Cluster
	tr  *kafka.Transport
}

func (r *run) newRealTransport() *realNet {
	cfg := r.sc.Cfg
	n := fakenet.NewNet()
	n.Name = fmt.Sprintf("w%d", atomic.AddInt64(&realCounter, 1))
	cl := fakekafka.NewCluster(n, 1)
	if cfg.ProduceVersion > 0 {
		cl.Versions[fakekafka.Produce] = fakekafka.VersionRange{Min: 0, Max: int16(cfg.ProduceVersion)}
	}
	for t, np := range cfg.NParts {
		cl.AddTopic(t, np)
	}
	cl.Intercept = r.interceptProduce
	tr := &kafka.Transport{Dial: n.Dialer("writer"), ClientID: "wdriver", DialTimeout: 5 * time.Second, IdleTimeout: 5 * time.Second,
		MetadataTTL: 10 * time.Second}
	return &realNet{net: n, cl: cl, tr: tr}
}

func (rn *realNet) close() {
	rn.tr.CloseIdleConnections()
}

// real-mode outcome kinds: the scripted ones that make sense on a wire, plus
//
//	ackCut@<k>   applied, the response frame is cut after k bytes and the connection closed
//	ackNever     applied, no answer is ever sent (the request times out on the client side)
func (r *run) interceptProduce(req *fakekafka.Request) *fakekafka.Reply {
	if req.ApiKey != fakekafka.Produce {
		return nil
	}
	// one topic-partition per request is all the Writer sends; anything else is recorded as it is
	rd := kwire.R{B: req.Body}
	if req.Version >= 3 {
		rd.NStr()
	}
	acks := rd.I16()
	rd.I32()
	topic, part := "", -1
	var set []byte
	nt := rd.ArrayLen()
	nparts := 0
	for i := 0; i < nt; i++ {
		t := rd.Str()
		np := rd.ArrayLen()
		for j := 0; j < np; j++ {
			p := rd.I32()
			s := rd.Bytes()
			nparts++
			if nparts == 1 {
				topic, part, set = t, int(p), s
			}
		}
	}
	key := fmt.Sprintf("%s/%d", topic, part)
	ids := []interface{}{}
	if batches, err := krec.DecodeSet(set); err == nil {
		for _, b := range batches {
			for _, rec := range b.Records {
				c, i, ok := parseValue(rec.Value)
				if !ok {
					c, i = -1, -1
				}
				ids = append(ids, []int{c, i})
			}
		}
	} else {
		ids = append(ids, []int{-2, -2}) // undecodable request: shows up as a message nobody submitted
	}
	r.mu.Lock()
	n := r.nextOut[key]
	r.nextOut[key] = n + 1
	r.mu.Unlock()
	r.gates.pass(fmt.Sprintf("prod:%s:%d", key, n))
	kind := "ok"
	if seq := r.sc.Outcomes[key]; n < len(seq) {
		kind = seq[n]
	}
	cut := -1
	if strings.HasPrefix(kind, "ackCut@") {
		cut, _ = strconv.Atoi(kind[len("ackCut@"):])
		kind = "ackCut"
	}
	var f fakekafka.ProduceFault
	switch kind {
	case "ok":
	case "ackLost":
		f.DropAfter = true
	case "ackCut":
		f.UseCut, f.CutFrame = true, cut
	case "ackNever":
	case "okStall": // acknowledged; afterwards this connection's receive window stays closed until gate "unstall:<tp>" opens
	case "rejTemp":
		f.Err = 6
	case "rejTemp2":
		f.Err = 19
	case "rejPerm":
		f.Err = 10
	case "rejUnknown":
		f.Err = -1
	case "rejPerm2":
		f.Err = 21
	case "netTransient":
		f.DropBefore = true
	default:
		kind = "ok"
	}
	if acks == 0 {
		// without acknowledgements nothing the broker answers is seen by the client
		if f.Err != 0 || f.DropBefore {
			kind = "silentDrop"
		} else {
			kind, f = "ok", fakekafka.ProduceFault{}
		}
	}
	if nparts != 1 {
		r.rec.Emit(trace.Event{"ev": "badrequest", "nparts": nparts})
	}
	var rep fakekafka.Reply
	r.rec.EmitWith(func() trace.Event {
		req.Broker.C.Lock()
		p := req.Broker.C.Part(topic, part)
		var before int64
		if p != nil {
			before = p.HW
			p.ProducePlan = append([]fakekafka.ProduceFault{f}, p.ProducePlan...)
		}
		req.Broker.C.Unlock()
		rep = req.Broker.Handle(req)
		applied := false
		if p != nil {
			req.Broker.C.Lock()
			applied = p.HW > before
			req.Broker.C.Unlock()
		}
		ok := !rep.Close && !rep.None && (rep.CutAt < 0 || rep.CutAt >= 8+len(rep.Body)) && f.Err == 0
		if kind == "ackNever" {
			rep = fakekafka.Reply{None: true, CutAt: -1}
			ok = false
		}
		if acks == 0 {
			ok = applied || kind == "silentDrop" // nobody notices either way
		}
		return trace.Event{"ev": "produce", "tp": []interface{}{topic, part}, "msgs": ids, "applied": applied,
			"ok": ok, "retriable": false, "kind": kind, "acks": int(acks), "v": int(req.Version), "cut": cut, "nparts": nparts}
	})
	if kind == "okStall" {
		conn := req.Conn
		prev := rep.OnSend
		rep.OnSend = func() {
			if prev != nil {
				prev()
			}
			conn.StallIncoming(true)
			go func() {
				r.gates.pass("unstall:" + key)
				conn.StallIncoming(false)
			}()
		}
	}
	return &rep
}
