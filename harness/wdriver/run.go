//go:build verif

package wdriver

import (
	"context"
	"errors"
	"io"
	"sync"
	"time"

	kafka "github.com/segmentio/kafka-go"

	"verifharness/trace"
)

// Watchdog is how long the driver waits for calls/Close that should have
// returned before it records a hang.
var Watchdog = 8 * time.Second

type callState struct {
	done   chan struct{}
	cancel context.CancelFunc
}

// Run executes one script and returns its trace.
func Run(sc *Script) []trace.Event {
	r := &run{sc: sc, rec: trace.New(), gids: map[uint64]int{}, pwIDs: map[interface{}]int{}, batchIDs: map[interface{}]int{},
		nextOut: map[string]int{}, log: map[string][]string{}, gates: newGates(), planned: map[[2]int]int{}}
	cfg := sc.Cfg
	bt := time.Duration(cfg.BatchTimeoutMs) * time.Millisecond
	if bt == 0 {
		bt = 30 * time.Millisecond
	}
	acks := kafka.RequireOne
	if !cfg.Acked {
		acks = kafka.RequireNone
	} else if cfg.RequireAll {
		acks = kafka.RequireAll
	}
	w := &kafka.Writer{
		Addr:            kafka.TCP("b1:9092"),
		Topic:           cfg.Topic,
		Balancer:        balancer{r},
		MaxAttempts:     cfg.MaxAttempts,
		WriteBackoffMin: time.Millisecond,
		WriteBackoffMax: 3 * time.Millisecond,
		BatchSize:       cfg.BatchSize,
		BatchBytes:      int64(cfg.BatchBytes),
		BatchTimeout:    bt,
		RequiredAcks:    acks,
		Async:           cfg.Async,
		Compression:     kafka.Compression(cfg.Compression),
		Transport:       transport{r},
	}
	if cfg.Net == "real" {
		rn := r.newRealTransport()
		defer rn.close()
		w.Transport = rn.tr
		w.WriteTimeout = 150 * time.Millisecond
		if cfg.WriteTimeoutMs > 0 {
			w.WriteTimeout = time.Duration(cfg.WriteTimeoutMs) * time.Millisecond
		}
	}
	w.Completion = func(ms []kafka.Message, err error) {
		ids := msgIDs(ms)
		if len(ms) > 0 {
			c, i, _ := parseValue(ms[0].Value)
			r.gates.pass(gateName("comp", c, i))
		}
		r.rec.Emit(trace.Event{"ev": "completion", "msgs": ids, "ok": err == nil})
	}
	r.w = w
	runsMu.Lock()
	runs[w] = r
	runsMu.Unlock()
	defer func() {
		runsMu.Lock()
		delete(runs, w)
		for b, br := range batchRuns {
			if br == r {
				delete(batchRuns, b)
			}
		}
		runsMu.Unlock()
	}()

	nparts := map[string]interface{}{}
	for t, n := range cfg.NParts {
		nparts[t] = n
	}
	effBytes := cfg.BatchBytes
	if effBytes == 0 {
		effBytes = 1048576 // the Writer's documented default
	}
	r.rec.Emit(trace.Event{"ev": "cfg", "id": sc.ID, "batchSize": cfg.BatchSize, "batchBytes": effBytes,
		"maxAttempts": cfg.MaxAttempts, "acked": cfg.Acked, "async": cfg.Async, "topic": cfg.Topic, "nparts": nparts,
		"batchTimeoutMs": int(bt / time.Millisecond)})

	calls := map[int]*callState{}
	lastOfG := map[int]chan struct{}{}
	var closeDone chan struct{}
	var wg sync.WaitGroup

	for _, st := range sc.Steps {
		switch st.Op {
		case "call":
			cs := &callState{done: make(chan struct{})}
			ctx := context.Background()
			if st.Cancellable {
				ctx, cs.cancel = context.WithCancel(ctx)
			}
			calls[st.C] = cs
			prev := lastOfG[st.G]
			lastOfG[st.G] = cs.done
			msgs := make([]kafka.Message, len(st.Msgs))
			desc := make([]interface{}, len(st.Msgs))
			r.mu.Lock()
			for i, m := range st.Msgs {
				msgs[i] = makeMessage(st.C, i+1, m)
				desc[i] = map[string]interface{}{"sz": MessageSize(st.C, i+1, m), "topic": m.Topic}
				r.planned[[2]int{st.C, i + 1}] = m.P
			}
			r.mu.Unlock()
			st := st
			wg.Add(1)
			go func() {
				defer wg.Done()
				defer close(cs.done)
				if prev != nil {
					<-prev
				}
				r.mu.Lock()
				r.gids[goid()] = st.C
				r.mu.Unlock()
				r.rec.Emit(trace.Event{"ev": "call", "c": st.C, "g": st.G, "msgs": desc, "cancellable": st.Cancellable})
				err := w.WriteMessages(ctx, msgs...)
				r.rec.Emit(returnEvent(st.C, err, len(msgs)))
			}()
		case "cancel":
			if cs := calls[st.C]; cs != nil && cs.cancel != nil {
				r.rec.Emit(trace.Event{"ev": "cancel", "c": st.C})
				cs.cancel()
			}
		case "close":
			closeDone = make(chan struct{})
			cd := closeDone
			wg.Add(1)
			go func() {
				defer wg.Done()
				defer close(cd)
				r.rec.Emit(trace.Event{"ev": "close.call"})
				w.Close()
				r.rec.Emit(trace.Event{"ev": "close.return"})
			}()
		case "sleep":
			time.Sleep(time.Duration(st.Ms) * time.Millisecond)
		case "waitcall":
			if cs := calls[st.C]; cs != nil {
				select {
				case <-cs.done:
				case <-time.After(Watchdog):
				}
			}
		case "waitclose":
			if closeDone != nil {
				select {
				case <-closeDone:
				case <-time.After(Watchdog):
				}
			}
		case "hold":
			r.gates.hold(st.Gate)
		case "release":
			r.gates.release(st.Gate)
		case "waitgate":
			r.gates.waitArrived(st.Gate, 2*time.Second)
		}
	}
	// end of script: everything must terminate without further input
	r.gates.releaseAll()
	deadline := make(chan struct{}) // closed (not a one-shot timer value): several calls may be hung
	wd := Watchdog
	if sc.Cfg.Net == "real" {
		// every request the broker never answers (or that stalls in its write phase) costs one write timeout, per attempt
		slow := 0
		for _, seq := range sc.Outcomes {
			for _, o := range seq {
				if o == "ackNever" || o == "okStall" {
					slow++
				}
			}
		}
		wd += time.Duration(slow*sc.Cfg.WriteTimeoutMs) * time.Millisecond
	}
	time.AfterFunc(wd, func() { close(deadline) })
	for c, cs := range calls {
		if sc.Cfg.Async {
			// asynchronous calls return at once by contract
		}
		select {
		case <-cs.done:
		case <-deadline:
			r.rec.Emit(trace.Event{"ev": "hang", "what": "call", "c": c})
		}
	}
	if closeDone == nil {
		// drain: let batch timers flush, then close so that goroutines end
		closeDone = make(chan struct{})
		cd := closeDone
		go func() {
			defer close(cd)
			r.rec.Emit(trace.Event{"ev": "close.call"})
			w.Close()
			r.rec.Emit(trace.Event{"ev": "close.return"})
		}()
	}
	select {
	case <-closeDone:
	case <-time.After(Watchdog):
		r.rec.Emit(trace.Event{"ev": "hang", "what": "close", "c": 0})
	}
	// a call made after Close returned must fail with io.ErrClosedPipe
	select {
	case <-closeDone:
		late := 1000
		r.mu.Lock()
		r.gids[goid()] = late
		r.mu.Unlock()
		r.rec.Emit(trace.Event{"ev": "call", "c": late, "g": 1000, "cancellable": false,
			"msgs": []interface{}{map[string]interface{}{"sz": ValueSize(late, 1, 40), "topic": lateTopic(cfg)}}})
		r.mu.Lock()
		r.planned[[2]int{late, 1}] = 0
		r.mu.Unlock()
		ctx, cancel := context.WithTimeout(context.Background(), 2*time.Second)
		err := w.WriteMessages(ctx, kafka.Message{Topic: lateTopic(cfg), Value: makeValue(late, 1, 40)})
		cancel()
		r.rec.Emit(returnEvent(late, err, 1))
		time.Sleep(5 * time.Millisecond)
	default:
	}
	r.rec.Emit(trace.Event{"ev": "end"})
	return r.rec.Events()
}

func lateTopic(cfg Cfg) string {
	if cfg.Topic != "" {
		return ""
	}
	for t := range cfg.NParts {
		return t
	}
	return "t"
}

func gateName(kind string, c, i int) string {
	return kind + ":" + itoa(c) + ":" + itoa(i)
}

func itoa(n int) string {
	if n == 0 {
		return "0"
	}
	neg := n < 0
	if neg {
		n = -n
	}
	var b [20]byte
	k := len(b)
	for n > 0 {
		k--
		b[k] = byte('0' + n%10)
		n /= 10
	}
	if neg {
		k--
		b[k] = '-'
	}
	return string(b[k:])
}

func returnEvent(c int, err error, n int) trace.Event {
	e := trace.Event{"ev": "return", "c": c, "errs": []interface{}{}}
	var we kafka.WriteErrors
	var tl kafka.MessageTooLargeError
	switch {
	case err == nil:
		e["kind"] = "nil"
	case errors.As(err, &we):
		e["kind"] = "errors"
		errs := make([]interface{}, len(we))
		for i := range we {
			errs[i] = we[i] == nil
		}
		e["errs"] = errs
	case errors.Is(err, io.ErrClosedPipe):
		e["kind"] = "closed"
	case errors.As(err, &tl):
		e["kind"] = "toolarge"
	case errors.Is(err, context.Canceled), errors.Is(err, context.DeadlineExceeded):
		e["kind"] = "ctx"
	default:
		s := err.Error()
		if len(s) > 18 && s[:18] == "kafka.(*Writer): T" {
			e["kind"] = "topic"
		} else {
			e["kind"] = "meta"
		}
		e["err"] = s
	}
	return e
}
