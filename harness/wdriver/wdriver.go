//go:build verif

// Package wdriver executes Writer scenarios (scripts) against the real
// kafka.Writer with a scripted RoundTripper, Balancer and Completion callback,
// and records the trace consumed by spec/writer/WriterTrace.tla and WriterMon.tla.
package wdriver

import (
	"context"
	"errors"
	"fmt"
	"io"
	"net"
	"reflect"
	"runtime"
	"strconv"
	"strings"
	"sync"
	"syscall"
	"time"

	kafka "github.com/segmentio/kafka-go"
	"github.com/segmentio/kafka-go/protocol"
	"github.com/segmentio/kafka-go/protocol/metadata"
	"github.com/segmentio/kafka-go/protocol/produce"

	"verifharness/trace"
)

type Msg struct {
	Sz    int    `json:"sz"`
	Topic string `json:"topic"`
	P     int    `json:"p"`
	Hv    int    `json:"hv,omitempty"` // > 0: the message carries one header whose value has this many bytes
}

type Step struct {
	Op          string `json:"op"`
	C           int    `json:"c,omitempty"`
	G           int    `json:"g,omitempty"`
	Msgs        []Msg  `json:"msgs,omitempty"`
	Cancellable bool   `json:"cancellable,omitempty"`
	Ms          int    `json:"ms,omitempty"`
	Gate        string `json:"gate,omitempty"`
}

type Cfg struct {
	BatchSize      int            `json:"batchSize"`
	BatchBytes     int            `json:"batchBytes"`
	MaxAttempts    int            `json:"maxAttempts"`
	Acked          bool           `json:"acked"`
	Async          bool           `json:"async"`
	Topic          string         `json:"topic"`
	NParts         map[string]int `json:"nparts"`
	BatchTimeoutMs int            `json:"batchTimeoutMs"`
	Compression    int            `json:"compression"`
	Net            string         `json:"net,omitempty"`            // "real": kafka.Transport + fake cluster instead of the scripted RoundTripper
	ProduceVersion int            `json:"produceVersion,omitempty"` // real mode: highest Produce version the broker offers
	WriteTimeoutMs int            `json:"writeTimeoutMs,omitempty"`
	RequireAll     bool           `json:"requireAll,omitempty"` // acked writers: RequiredAcks = RequireAll (-1) instead of RequireOne
}

type Script struct {
	ID       string              `json:"id"`
	Cfg      Cfg                 `json:"cfg"`
	Steps    []Step              `json:"steps"`
	Outcomes map[string][]string `json:"outcomes"`
	MetaErr  map[string]int      `json:"metaErr,omitempty"`
}

// outcome classes: what the scripted broker/transport does with a produce request.
type outcome struct{ applied, ok, retriable bool }

var outcomeTable = map[string]outcome{
	"ok":              {true, true, false},
	"ackLost":         {true, false, true},  // applied, connection cut before the response: io.ErrUnexpectedEOF
	"appliedTimeout":  {true, false, true},  // applied, response too slow: deadline exceeded (Temporary)
	"appliedNetOther": {true, false, false}, // applied, opaque transport error
	"rejTemp":         {false, false, true}, // NotLeaderForPartition in the partition response
	"rejTemp2":        {false, false, true}, // NotEnoughReplicas
	"rejPerm":         {false, false, false},
	"rejUnknown":      {false, false, false}, // UNKNOWN_SERVER_ERROR (-1), the only negative error code
	"rejPerm2":        {false, false, false}, // InvalidRequiredAcks (21): not retriable
	"netTransient":    {false, false, true},  // ECONNRESET before the request was applied
	"netRefused":      {false, false, true},  // ECONNREFUSED
	"netOther":        {false, false, false}, // opaque transport error
	"silentDrop":      {false, true, false},  // acks=none only: request lost, nobody notices
}

type timeoutErr struct{}

func (timeoutErr) Error() string   { return "i/o timeout (scripted)" }
func (timeoutErr) Timeout() bool   { return true }
func (timeoutErr) Temporary() bool { return true }

type run struct {
	sc   *Script
	rec  *trace.Recorder
	w    *kafka.Writer
	mu   sync.Mutex
	gids map[uint64]int // goroutine id -> call id
	// identities assigned in trace order, under the recorder lock
	pwIDs    map[interface{}]int
	batchIDs map[interface{}]int
	nextOut  map[string]int
	log      map[string][]string
	gates    *gates
	planned  map[[2]int]int
}

type gates struct {
	mu      sync.Mutex
	held    map[string]chan struct{}
	arrived map[string]chan struct{}
}

func newGates() *gates {
	return &gates{held: map[string]chan struct{}{}, arrived: map[string]chan struct{}{}}
}

func (g *gates) arrivedCh(name string) chan struct{} {
	ch := g.arrived[name]
	if ch == nil {
		ch = make(chan struct{})
		g.arrived[name] = ch
	}
	return ch
}

func (g *gates) hold(name string) {
	g.mu.Lock()
	g.held[name] = make(chan struct{})
	g.arrivedCh(name)
	g.mu.Unlock()
}

func (g *gates) release(name string) {
	g.mu.Lock()
	if ch := g.held[name]; ch != nil {
		close(ch)
		delete(g.held, name)
	}
	g.mu.Unlock()
}

func (g *gates) releaseAll() {
	g.mu.Lock()
	for n, ch := range g.held {
		close(ch)
		delete(g.held, n)
	}
	g.mu.Unlock()
}

// pass blocks while the gate is held.
func (g *gates) pass(name string) {
	g.mu.Lock()
	ch := g.held[name]
	if ch != nil {
		a := g.arrivedCh(name)
		select {
		case <-a:
		default:
			close(a)
		}
	}
	g.mu.Unlock()
	if ch != nil {
		<-ch
	}
}

func (g *gates) waitArrived(name string, d time.Duration) bool {
	g.mu.Lock()
	a := g.arrivedCh(name)
	g.mu.Unlock()
	select {
	case <-a:
		return true
	case <-time.After(d):
		return false
	}
}

func goid() uint64 {
	var buf [64]byte
	n := runtime.Stack(buf[:], false)
	f := strings.Fields(string(buf[:n]))
	id, _ := strconv.ParseUint(f[1], 10, 64)
	return id
}

var (
	runsMu    sync.RWMutex
	runs      = map[*kafka.Writer]*run{}
	batchRuns = map[interface{}]*run{} // batch -> run, for hooks that carry no Writer
)

// InstallHook routes the hook events of package kafka to the run that owns the Writer.
func InstallHook() {
	kafka.VerifHook = func(ev string, args ...interface{}) {
		if len(args) == 0 {
			return
		}
		if ev == "bq.put" { // carries the batch only; its run was registered when the batch was created
			runsMu.RLock()
			r := batchRuns[args[0]]
			runsMu.RUnlock()
			if r != nil {
				r.hook(ev, args)
			}
			return
		}
		w, ok := args[0].(*kafka.Writer)
		if !ok {
			return
		}
		runsMu.RLock()
		r := runs[w]
		runsMu.RUnlock()
		if r != nil {
			r.hook(ev, args[1:])
		}
	}
}

// ptr returns the identity of a hooked object. The pointer itself is used as
// map key, which also keeps the object alive so that addresses are not reused.
func ptr(x interface{}) interface{} {
	v := reflect.ValueOf(x)
	if !v.IsValid() || (v.Kind() == reflect.Ptr && v.IsNil()) {
		return nil
	}
	return x
}

func (r *run) callOfG() int {
	r.mu.Lock()
	defer r.mu.Unlock()
	return r.gids[goid()]
}

func (r *run) pwID(p interface{}) int { // under recorder lock
	id, ok := r.pwIDs[p]
	if !ok {
		id = len(r.pwIDs) + 1
		r.pwIDs[p] = id
	}
	return id
}

func (r *run) batchID(p interface{}) int { // under recorder lock
	if p == nil {
		return 0
	}
	id, ok := r.batchIDs[p]
	if !ok {
		id = len(r.batchIDs) + 1
		r.batchIDs[p] = id
	}
	return id
}

func (r *run) hook(ev string, a []interface{}) {
	r.gates.pass("hook:" + ev)
	switch ev {
	case "bq.put":
		// entry of batchQueue.Put, before the queue's lock: a pure scheduler gate (no event; the hand-over itself
		// is recorded by pw.put / pw.timer / pw.close under the partition mutex).  Holding gate "bqput:<batch>"
		// delays the enqueueing of one batch, which must also delay everything ordered after it.
		b := ptr(a[0])
		var id int
		r.rec.EmitWith(func() trace.Event { id = r.batchID(b); return nil })
		r.gates.pass(fmt.Sprintf("bqput:%d", id))
	case "w.enter":
		c := r.callOfG()
		r.rec.Emit(trace.Event{"ev": "enter", "c": c, "ok": a[0].(bool)})
	case "w.leave":
		r.rec.Emit(trace.Event{"ev": "leave", "c": r.callOfG()})
	case "w.bm.begin":
		r.rec.Emit(trace.Event{"ev": "bm.begin", "c": r.callOfG()})
	case "w.bm.end":
		r.rec.Emit(trace.Event{"ev": "bm.end", "c": r.callOfG()})
	case "w.close.begin":
		r.rec.Emit(trace.Event{"ev": "close.begin"})
	case "w.close.unlock":
		r.rec.Emit(trace.Event{"ev": "close.unlock"})
	case "pw.new":
		c := r.callOfG()
		p := ptr(a[0])
		r.rec.EmitWith(func() trace.Event {
			return trace.Event{"ev": "pw.new", "c": c, "pw": r.pwID(p), "tp": []interface{}{a[1].(string), a[2].(int)}}
		})
	case "pw.write.begin", "pw.write.end":
		c := r.callOfG()
		p := ptr(a[0])
		r.rec.EmitWith(func() trace.Event { return trace.Event{"ev": ev, "c": c, "pw": r.pwID(p)} })
	case "pw.batch":
		c := r.callOfG()
		p, b := ptr(a[0]), ptr(a[1])
		runsMu.Lock()
		batchRuns[b] = r
		runsMu.Unlock()
		r.rec.EmitWith(func() trace.Event {
			return trace.Event{"ev": "pw.batch", "c": c, "pw": r.pwID(p), "b": r.batchID(b)}
		})
	case "pw.put":
		c := r.callOfG()
		p, b := ptr(a[0]), ptr(a[1])
		r.rec.EmitWith(func() trace.Event {
			return trace.Event{"ev": "pw.put", "c": c, "pw": r.pwID(p), "b": r.batchID(b), "why": a[2].(string)}
		})
	case "pw.add":
		c := r.callOfG()
		p, b := ptr(a[0]), ptr(a[1])
		r.rec.EmitWith(func() trace.Event {
			return trace.Event{"ev": "pw.add", "c": c, "pw": r.pwID(p), "b": r.batchID(b), "i": a[2].(int) + 1}
		})
	case "pw.timer":
		p, b := ptr(a[0]), ptr(a[1])
		r.rec.EmitWith(func() trace.Event {
			return trace.Event{"ev": "pw.timer", "pw": r.pwID(p), "b": r.batchID(b), "enq": a[2].(bool)}
		})
	case "pw.ready":
		p, b := ptr(a[0]), ptr(a[1])
		r.rec.EmitWith(func() trace.Event {
			return trace.Event{"ev": "pw.ready", "pw": r.pwID(p), "b": r.batchID(b)}
		})
	case "pw.get":
		p, b := ptr(a[0]), ptr(a[1])
		r.rec.EmitWith(func() trace.Event {
			return trace.Event{"ev": "pw.get", "pw": r.pwID(p), "b": r.batchID(b)}
		})
	case "pw.exit":
		p := ptr(a[0])
		r.rec.EmitWith(func() trace.Event { return trace.Event{"ev": "pw.exit", "pw": r.pwID(p)} })
	case "pw.done":
		p, b := ptr(a[0]), ptr(a[1])
		ok := a[2] == nil
		r.rec.EmitWith(func() trace.Event {
			return trace.Event{"ev": "pw.done", "pw": r.pwID(p), "b": r.batchID(b), "ok": ok}
		})
	case "pw.close":
		p, b := ptr(a[0]), ptr(a[1])
		r.rec.EmitWith(func() trace.Event {
			return trace.Event{"ev": "pw.close", "pw": r.pwID(p), "b": r.batchID(b)}
		})
	}
}

// zigzag varint length, written here independently of the library
func varintLen(v int64) int {
	u := uint64((v << 1) ^ (v >> 63))
	n := 1
	for u >= 0x80 {
		u >>= 7
		n++
	}
	return n
}

// headerExtra is what one header {"h": value of hv bytes} adds to the size of a message
// (the header count varint is 1 byte with or without headers).
func headerExtra(hv int) int {
	if hv <= 0 {
		return 0
	}
	return varintLen(1) + 1 + varintLen(int64(hv)) + hv
}

// makeMessage builds the kafka.Message for script message (c, i): total size sz, optional header.
func makeMessage(c, i int, m Msg) kafka.Message {
	msg := kafka.Message{Topic: m.Topic, Value: makeValue(c, i, m.Sz-headerExtra(m.Hv))}
	if m.Hv > 0 {
		hv := make([]byte, m.Hv)
		for k := range hv {
			hv[k] = 'h'
		}
		msg.Headers = []kafka.Header{{Key: "h", Value: hv}}
	}
	return msg
}

// MessageSize is the writer's size measure of the message makeMessage builds.
func MessageSize(c, i int, m Msg) int {
	return ValueSize(c, i, m.Sz-headerExtra(m.Hv)) + headerExtra(m.Hv)
}

// message values are "c.i|" followed by padding.
func makeValue(c, i, sz int) []byte {
	const overhead = 23 // headers varint(1) + crc/magic/attrs(6) + key len(4) + value len(4) + timestamp(8)
	tag := fmt.Sprintf("%d.%d|", c, i)
	n := sz - overhead
	if n < len(tag) {
		n = len(tag)
	}
	v := make([]byte, n)
	copy(v, tag)
	for k := len(tag); k < n; k++ {
		v[k] = 'x'
	}
	return v
}

// ValueSize is the writer's size measure for a message built by makeValue.
func ValueSize(c, i, sz int) int { return 23 + len(makeValue(c, i, sz)) }

func parseValue(v []byte) (c, i int, ok bool) {
	s := string(v)
	k := strings.IndexByte(s, '|')
	if k < 0 {
		return 0, 0, false
	}
	parts := strings.Split(s[:k], ".")
	if len(parts) != 2 {
		return 0, 0, false
	}
	c, e1 := strconv.Atoi(parts[0])
	i, e2 := strconv.Atoi(parts[1])
	return c, i, e1 == nil && e2 == nil
}

func msgIDs(ms []kafka.Message) []interface{} {
	out := make([]interface{}, 0, len(ms))
	for _, m := range ms {
		c, i, ok := parseValue(m.Value)
		if !ok {
			c, i = -1, -1
		}
		out = append(out, []int{c, i})
	}
	return out
}

// --- scripted balancer -----------------------------------------------------

type balancer struct{ r *run }

func (b balancer) Balance(m kafka.Message, parts ...int) int {
	c, i, _ := parseValue(m.Value)
	b.r.gates.pass(fmt.Sprintf("bal:%d:%d", c, i))
	p := 0
	b.r.mu.Lock()
	p = b.r.planned[[2]int{c, i}]
	b.r.mu.Unlock()
	topic := m.Topic
	if topic == "" {
		topic = b.r.sc.Cfg.Topic
	}
	b.r.rec.Emit(trace.Event{"ev": "balance", "c": c, "i": i, "p": p, "offered": len(parts), "parts": append([]int{}, parts...), "topic": topic})
	return p
}

// --- scripted transport ----------------------------------------------------

type transport struct{ r *run }

func (t transport) RoundTrip(ctx context.Context, addr net.Addr, req kafka.Request) (kafka.Response, error) {
	switch q := req.(type) {
	case *metadata.Request:
		res := &metadata.Response{Brokers: []metadata.ResponseBroker{{NodeID: 1, Host: "b1", Port: 9092}}, ControllerID: 1}
		for _, name := range q.TopicNames {
			n, ok := t.r.sc.Cfg.NParts[name]
			rt := metadata.ResponseTopic{Name: name}
			if code, bad := t.r.sc.MetaErr[name]; bad {
				rt.ErrorCode = int16(code)
			} else if !ok {
				rt.ErrorCode = 3
			} else {
				for p := 0; p < n; p++ {
					rt.Partitions = append(rt.Partitions, metadata.ResponsePartition{PartitionIndex: int32(p), LeaderID: 1})
				}
			}
			res.Topics = append(res.Topics, rt)
		}
		return res, nil
	case *produce.Request:
		return t.r.produce(q)
	}
	return nil, fmt.Errorf("scripted transport: unexpected request %T", req)
}

func (r *run) produce(q *produce.Request) (kafka.Response, error) {
	if len(q.Topics) != 1 || len(q.Topics[0].Partitions) != 1 {
		r.rec.Emit(trace.Event{"ev": "badrequest", "what": "produce request with several topic-partitions"})
		return nil, errors.New("bad request")
	}
	topic := q.Topics[0].Topic
	part := int(q.Topics[0].Partitions[0].Partition)
	key := fmt.Sprintf("%s/%d", topic, part)
	ids := []interface{}{} // never nil: an empty produce request is recorded as "msgs": []
	var raw []string
	recs := q.Topics[0].Partitions[0].RecordSet.Records
	for recs != nil {
		rec, err := recs.ReadRecord()
		if err != nil {
			break
		}
		var v []byte
		if rec.Value != nil {
			v, _ = protocol.ReadAll(rec.Value)
		}
		c, i, ok := parseValue(v)
		if !ok {
			c, i = -1, -1
		}
		ids = append(ids, []int{c, i})
		raw = append(raw, fmt.Sprintf("%d.%d", c, i))
	}
	r.mu.Lock()
	n := r.nextOut[key]
	r.nextOut[key] = n + 1
	r.mu.Unlock()
	r.gates.pass(fmt.Sprintf("prod:%s:%d", key, n))
	kind := "ok"
	if seq := r.sc.Outcomes[key]; n < len(seq) {
		kind = seq[n]
	}
	if !r.sc.Cfg.Acked {
		// without acknowledgements the client cannot see broker-side rejections
		switch kind {
		case "rejTemp", "rejTemp2", "rejPerm", "rejUnknown", "rejPerm2":
			kind = "silentDrop"
		}
	} else if kind == "silentDrop" {
		kind = "ok"
	}
	oc := outcomeTable[kind]
	var base int64
	r.rec.EmitWith(func() trace.Event {
		if oc.applied {
			base = int64(len(r.log[key]))
			r.log[key] = append(r.log[key], raw...)
		}
		return trace.Event{"ev": "produce", "tp": []interface{}{topic, part}, "msgs": ids, "applied": oc.applied,
			"ok": oc.ok, "retriable": oc.retriable, "kind": kind, "acks": int(q.Acks)}
	})
	mk := func(code int16) *produce.Response {
		return &produce.Response{Topics: []produce.ResponseTopic{{Topic: topic, Partitions: []produce.ResponsePartition{{
			Partition: int32(part), ErrorCode: code, BaseOffset: base}}}}}
	}
	switch kind {
	case "ok", "silentDrop":
		return mk(0), nil
	case "ackLost":
		return nil, fmt.Errorf("scripted: connection lost: %w", io.ErrUnexpectedEOF)
	case "appliedTimeout":
		return nil, &net.OpError{Op: "read", Net: "tcp", Err: timeoutErr{}}
	case "appliedNetOther", "netOther":
		return nil, errors.New("scripted: opaque transport failure")
	case "rejTemp":
		return mk(6), nil
	case "rejTemp2":
		return mk(19), nil
	case "rejPerm":
		return mk(10), nil
	case "rejUnknown":
		return mk(-1), nil
	case "rejPerm2":
		return mk(21), nil
	case "netTransient":
		return nil, &net.OpError{Op: "write", Net: "tcp", Err: syscall.ECONNRESET}
	case "netRefused":
		return nil, &net.OpError{Op: "dial", Net: "tcp", Err: syscall.ECONNREFUSED}
	}
	return nil, fmt.Errorf("scripted: unknown outcome %q", kind)
}
