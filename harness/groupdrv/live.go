//go:build verif

package groupdrv

// Real-time, client-side events for the trace validation of the whole run loop
// of kafka.ConsumerGroup (spec/group/GroupTrace.tla).  Everything in this file
// ADDS events; the events GroupMon.tla / GenTrace.tla read keep their names,
// fields and positions.
//
//   gen.start / gen.fnexit / gen.close / gen.closed
//       the Generation hooks at the moment they fire (under Generation.lock),
//       also for a generation the application has not received yet or never
//       receives (the legacy gstart/... events of such a generation are buffered
//       until Next returns it, or lost).  `gix` numbers the Generation objects of
//       one member 1, 2, ... (pointer identity), `gen` is the coordinator's id.
//   cg.fail     nextGeneration is about to return an error: the library logs
//               "Unable to establish connection ..." / "Failed to join group" /
//               "Failed to sync group" / "Failed to fetch offsets" right before the
//               return; `rebalance` = errors.Is(err, RebalanceInProgress), the
//               test run() itself applies.
//   cg.joined   joinGroup got a JoinGroup response without error ("joined group ..." log line):
//               the client now holds the member id; cg.synced: syncGroup succeeded.  (The
//               coordinator's journal records a request when it arrives; a join / sync it
//               accepted may still be answered with an error once the rebalance completes.)
//   cg.leaving  leaveGroup(memberID) with a non-empty member id begins
//               ("Leaving group ..." log line).
//
// A Generation is created on the run-loop goroutine of its ConsumerGroup and the
// hook gets no reference to the group: the run-loop goroutine is recognised by its
// goroutine id, registered when the same goroutine logs "Joined group ..." through
// the member's Logger (which always precedes the creation of a Generation).

import (
	"context"
	"errors"
	"runtime"
	"strconv"
	"strings"

	kafka "github.com/segmentio/kafka-go"

	"verifharness/trace"
)

type liveGen struct {
	r   *run
	mid int
	gix int
}

var (
	// all three are protected by pendMu
	loopOwner = map[int64]owner{}         // goroutine id of a run loop -> member
	liveOwner = map[interface{}]liveGen{} // *kafka.Generation -> member, ordinal
	genSeq    = map[owner]int{}           // Generation objects seen per member
)

func goid() int64 {
	var buf [64]byte
	n := runtime.Stack(buf[:], false)
	f := strings.Fields(string(buf[:n]))
	if len(f) < 2 {
		return -1
	}
	id, err := strconv.ParseInt(f[1], 10, 64)
	if err != nil {
		return -1
	}
	return id
}

// registerLoop is called from the member's Logger on the run-loop goroutine.
func registerLoop(r *run, mid int) {
	id := goid()
	pendMu.Lock()
	loopOwner[id] = owner{r, mid}
	pendMu.Unlock()
}

// liveGenEvent emits the real-time copy of a Generation hook event.  Caller holds pendMu.
func liveGenEvent(ev string, a []interface{}) {
	lg, ok := liveOwner[a[0]]
	if !ok {
		o, known := genOwner[a[0]]
		if !known {
			if o, known = loopOwner[goid()]; !known {
				return
			}
		}
		genSeq[o]++
		lg = liveGen{o.r, o.mid, genSeq[o]}
		liveOwner[a[0]] = lg
	}
	e := trace.Event{"ev": ev, "m": lg.mid, "gix": lg.gix, "gen": a[1].(int)}
	switch ev {
	case "gen.start":
		e["tracked"], e["routines"] = a[2].(bool), a[3].(int)
	case "gen.fnexit", "gen.close":
		e["routines"], e["wasClosed"] = a[2].(int), a[3].(bool)
	case "gen.closed":
	default:
		return
	}
	lg.r.rec.Emit(e)
}

// forgetLive drops the bookkeeping of a finished run.
func forgetLive(r *run) {
	pendMu.Lock()
	for k, o := range loopOwner {
		if o.r == r {
			delete(loopOwner, k)
		}
	}
	for k, o := range liveOwner {
		if o.r == r {
			delete(liveOwner, k)
		}
	}
	for k := range genSeq {
		if k.r == r {
			delete(genSeq, k)
		}
	}
	pendMu.Unlock()
}

// liveLog turns the library's log lines on the run-loop goroutine into events.
func (l logger) liveLog(format string, args []interface{}) {
	phase := ""
	switch {
	case strings.HasPrefix(format, "joined group"):
		// joinGroup: the JoinGroup response arrived without error (before the leader computes the assignments)
		registerLoop(l.r, l.mid)
		e := trace.Event{"ev": "cg.joined", "m": l.mid, "member": "", "gen": -1}
		if len(args) > 2 {
			e["member"], _ = args[1].(string)
			if g, ok := args[2].(int32); ok {
				e["gen"] = int(g)
			}
		}
		l.r.rec.Emit(e)
		return
	case strings.HasPrefix(format, "Joined group"):
		registerLoop(l.r, l.mid)
		return
	case strings.HasPrefix(format, "sync group finished"):
		l.r.rec.Emit(trace.Event{"ev": "cg.synced", "m": l.mid})
		return
	case strings.HasPrefix(format, "Unable to establish connection to consumer group coordinator"):
		phase = "coord"
	case strings.HasPrefix(format, "Failed to join group"):
		phase = "join"
	case strings.HasPrefix(format, "Failed to sync group"):
		phase = "sync"
	case strings.HasPrefix(format, "Failed to fetch offsets"):
		phase = "fetch"
	case strings.HasPrefix(format, "Leaving group"):
		member := ""
		if len(args) > 1 {
			member, _ = args[1].(string)
		}
		l.r.rec.Emit(trace.Event{"ev": "cg.leaving", "m": l.mid, "member": member})
		return
	default:
		return
	}
	var err error
	if len(args) > 0 {
		err, _ = args[len(args)-1].(error)
	}
	e := trace.Event{"ev": "cg.fail", "m": l.mid, "phase": phase, "rebalance": false, "code": -1, "err": ""}
	if err != nil {
		e["err"] = err.Error()
		e["rebalance"] = errors.Is(err, kafka.RebalanceInProgress)
		var ke kafka.Error
		if errors.As(err, &ke) {
			e["code"] = int(ke)
		}
	}
	l.r.rec.Emit(e)
}

// errClass describes the error Next returned: (kafka error code or -1, group closed / context cancelled).
func errClass(err error) (int, bool) {
	code := -1
	var ke kafka.Error
	if errors.As(err, &ke) {
		code = int(ke)
	}
	return code, errors.Is(err, kafka.ErrGroupClosed) || errors.Is(err, context.Canceled) || errors.Is(err, context.DeadlineExceeded)
}
