//go:build verif

// Package groupdrv runs consumer-group scenarios: real kafka.Readers with a
// GroupID (or bare kafka.ConsumerGroups) against the fake coordinator, with
// scripted rebalances, evictions, crashes and injected coordinator errors.
package groupdrv

import (
	"context"
	"errors"
	"fmt"
	"io"
	"sort"
	"strings"
	"sync"
	"sync/atomic"
	"time"

	kafka "github.com/segmentio/kafka-go"

	"verifharness/fakekafka"
	"verifharness/fakenet"
	"verifharness/krec"
	"verifharness/kwire"
	"verifharness/trace"
)

type Step struct {
	Op     string `json:"op"`
	M      int    `json:"m,omitempty"`
	N      int    `json:"n,omitempty"`
	Commit string `json:"commit,omitempty"` // sync async none read last
	Ms     int    `json:"ms,omitempty"`
	Api    string `json:"api,omitempty"`
	Nth    int    `json:"nth,omitempty"`
	Code   int    `json:"code,omitempty"` // error code, or -1: drop the connection
	T      string `json:"t,omitempty"`
	P      int    `json:"p,omitempty"`
	Gate   string `json:"gate,omitempty"`
	Fns    int    `json:"fns,omitempty"`   // cg mode: functions started per generation
	Early  int    `json:"early,omitempty"` // cg mode: function k (1-based) returns on its own after EarlyMs
	Wait   bool   `json:"wait,omitempty"`
	Linger int    `json:"linger,omitempty"` // cg mode: every function takes this many ms to return after its context ended
	CtxMs  int    `json:"ctxMs,omitempty"`  // commitlast: the context of CommitMessages ends after this many ms (the caller gives up)
	PaceUs int    `json:"paceUs,omitempty"` // fetch: pause between two FetchMessage calls (a steadily consuming application)
	// fetch: every CancelEvery-th call is made with a context that is already done (an application polling with
	// per-call timeouts / shutting a worker down); such a call may return the context's error or a message, never both
	CancelEvery int `json:"cancelEvery,omitempty"`
}

type Script struct {
	ID          string         `json:"id"`
	Mode        string         `json:"mode"` // reader | cg
	Topics      map[string]int `json:"topics"`
	Records     int            `json:"records"`                    // records initially stored per partition
	QCap        int            `json:"qcap,omitempty"`             // Reader.QueueCapacity (default 10)
	FetchOrder  string         `json:"offsetFetchOrder,omitempty"` // "reverse": the coordinator answers OffsetFetch in reverse order
	StartOffset int64          `json:"startOffset"`                // -2 first, -1 last
	CommitMs    int            `json:"commitIntervalMs"`
	HeartbeatMs int            `json:"heartbeatMs"`
	BackoffMs   int            `json:"backoffMs"`
	Watch       bool           `json:"watch"`
	Drain       bool           `json:"drain"` // the script ends with live members reading until nothing more comes
	Steps       []Step         `json:"steps"`
}

func valueOf(t string, p int, off int64) []byte { return []byte(fmt.Sprintf("%s/%d@%d", t, p, off)) }

type member struct {
	id          int
	owner       string
	rd          *kafka.Reader
	cg          *kafka.ConsumerGroup
	cmds        chan func()
	done        chan struct{}
	last        []kafka.Message
	cancel      context.CancelFunc
	closed      bool
	commitCtx   time.Duration // > 0: CommitMessages gets a context that ends after this long
	burst       chan struct{} // closed when the calls of the last "commitburst" have returned
	paceUs      int
	cancelEvery int
}

type run struct {
	sc        *Script
	rec       *trace.Recorder
	net       *fakenet.Net
	cl        *fakekafka.Cluster
	mu        sync.Mutex
	members   map[int]*member
	byObj     map[interface{}]int // *kafka.Reader / *kafka.ConsumerGroup / *kafka.Generation -> member
	inject    map[string][]injection
	counts    map[string]int
	gates     map[string]chan struct{}
	arrived   map[string]chan struct{}
	topics    []string
	lastFetch map[string]time.Time
}

type injection struct {
	nth  int
	code int
}

var (
	runsMu  sync.RWMutex
	runs    = map[*run]bool{}
	counter int64
)

// InstallHook routes reader/generation hook events to the run owning the object.
func InstallHook(prev func(string, ...interface{})) func(string, ...interface{}) {
	return func(ev string, args ...interface{}) {
		if len(args) > 0 && strings.HasPrefix(ev, "gen.") {
			// a Generation is created inside the library: its first events (heartbeat loop Start) come
			// before the application has seen it. They are buffered until Next returns the generation.
			pendMu.Lock()
			liveGenEvent(ev, args) // real-time copy (gen.start ...), see live.go
			o, known := genOwner[args[0]]
			if !known {
				pend[args[0]] = append(pend[args[0]], pendEv{ev, args})
			}
			pendMu.Unlock()
			if known {
				o.r.hook(ev, o.mid, args, true)
			}
			return
		}
		if len(args) > 0 && (strings.HasPrefix(ev, "reader.") || strings.HasPrefix(ev, "cg.")) {
			runsMu.RLock()
			var rr *run
			var mid int
			for r := range runs {
				r.mu.Lock()
				if m, ok := r.byObj[args[0]]; ok {
					rr, mid = r, m
				}
				r.mu.Unlock()
				if rr != nil {
					break
				}
			}
			runsMu.RUnlock()
			if rr != nil {
				rr.hook(ev, mid, args, true)
			}
			return
		}
		if prev != nil {
			prev(ev, args...)
		}
	}
}

type owner struct {
	r   *run
	mid int
}

var (
	pendMu   sync.Mutex
	pend     = map[interface{}][]pendEv{}
	genOwner = map[interface{}]owner{}
)

type pendEv struct {
	ev   string
	args []interface{}
}

// adopt attributes a generation to a member and emits, in order, the events buffered for it.
func (r *run) adopt(gen interface{}, mid int) {
	pendMu.Lock()
	genOwner[gen] = owner{r, mid}
	pe := pend[gen]
	delete(pend, gen)
	for _, x := range pe {
		r.hook(x.ev, mid, x.args, false)
	}
	pendMu.Unlock()
}

func (r *run) hook(ev string, mid int, a []interface{}, gated bool) {
	if gated {
		r.pass("hook:" + ev + fmt.Sprintf(":%d", mid))
	}
	switch ev {
	case "reader.start":
		offs := map[string]interface{}{}
		// the argument is a map[topicPartition]int64 with an unexported key type: parse its %v rendering
		for _, e := range parseOffsets(fmt.Sprintf("%v", a[2])) {
			offs[fmt.Sprintf("%s/%d", e.t, e.p)] = e.off
		}
		r.rec.Emit(trace.Event{"ev": "rstart", "m": mid, "ver": a[1].(int64), "offsets": offs})
	case "reader.deliver":
		err, _ := a[5].(error)
		if err != nil {
			r.rec.Emit(trace.Event{"ev": "delivererr", "m": mid, "ver": a[1].(int64), "err": err.Error()})
			return
		}
		r.rec.Emit(trace.Event{"ev": "deliver", "m": mid, "ver": a[1].(int64), "tp": fmt.Sprintf("%s/%d", a[2].(string), a[3].(int)), "off": a[4].(int64)})
	case "reader.unsubscribe":
		r.rec.Emit(trace.Event{"ev": "unsub", "m": mid, "phase": a[1].(string)})
	case "gen.start":
		r.rec.Emit(trace.Event{"ev": "gstart", "m": mid, "gen": a[1].(int), "tracked": a[2].(bool), "routines": a[3].(int)})
	case "gen.fnexit":
		r.rec.Emit(trace.Event{"ev": "gfnexit", "m": mid, "gen": a[1].(int), "routines": a[2].(int), "wasClosed": a[3].(bool)})
	case "gen.close":
		r.rec.Emit(trace.Event{"ev": "gclose", "m": mid, "gen": a[1].(int), "routines": a[2].(int), "wasClosed": a[3].(bool)})
	case "gen.closed":
		r.rec.Emit(trace.Event{"ev": "gclosed", "m": mid, "gen": a[1].(int)})
	case "cg.offered":
		r.rec.Emit(trace.Event{"ev": "offered", "m": mid, "gen": a[1].(int), "member": a[2].(string)})
	case "cg.errsent", "cg.backoff", "cg.done":
		// run loop: the error was handed to Next / the back-off timer fired; Close: cg.done was closed
		r.rec.Emit(trace.Event{"ev": ev, "m": mid})
	}
}

type tpo struct {
	t   string
	p   int
	off int64
}

// parseOffsets parses fmt's rendering of map[topicPartition]int64: map[{t 0}:5 {t 1}:-2]
func parseOffsets(s string) []tpo {
	var out []tpo
	s = strings.TrimSuffix(strings.TrimPrefix(s, "map["), "]")
	for len(s) > 0 {
		i := strings.Index(s, "{")
		j := strings.Index(s, "}:")
		if i < 0 || j < 0 {
			break
		}
		key := s[i+1 : j]
		rest := s[j+2:]
		k := strings.Index(rest, " ")
		val := rest
		if k >= 0 {
			val = rest[:k]
			s = rest[k+1:]
		} else {
			s = ""
		}
		sp := strings.LastIndex(key, " ")
		if sp < 0 {
			continue
		}
		var e tpo
		e.t = key[:sp]
		fmt.Sscanf(key[sp+1:], "%d", &e.p)
		fmt.Sscanf(val, "%d", &e.off)
		out = append(out, e)
	}
	return out
}

func (r *run) gate(name string) chan struct{} {
	r.mu.Lock()
	defer r.mu.Unlock()
	return r.gates[name]
}

func (r *run) pass(name string) {
	r.mu.Lock()
	ch := r.gates[name]
	if ch != nil {
		a := r.arrived[name]
		select {
		case <-a:
		default:
			close(a)
		}
	}
	r.mu.Unlock()
	if ch != nil {
		<-ch
	}
}

type logger struct {
	r   *run
	mid int
}

func (l logger) Printf(format string, args ...interface{}) {
	l.liveLog(format, args) // client-side events cg.fail / cg.leaving, see live.go
	// gates on well-known log lines of the library (the library hands control to the application here)
	switch {
	case strings.HasPrefix(format, "subscribed to topics and partitions"):
		l.r.pass(fmt.Sprintf("log:subscribed:%d", l.mid))
	case strings.HasPrefix(format, "Joined group"):
		l.r.pass(fmt.Sprintf("log:joined:%d", l.mid))
	}
}

var apiOf = map[string]int16{"findcoordinator": fakekafka.FindCoordinator, "join": fakekafka.JoinGroup, "sync": fakekafka.SyncGroup,
	"heartbeat": fakekafka.Heartbeat, "leave": fakekafka.LeaveGroup, "offsetfetch": fakekafka.OffsetFetch, "offsetcommit": fakekafka.OffsetCommit}

var nameOf = map[int16]string{fakekafka.FindCoordinator: "findcoordinator", fakekafka.JoinGroup: "join", fakekafka.SyncGroup: "sync",
	fakekafka.Heartbeat: "heartbeat", fakekafka.LeaveGroup: "leave", fakekafka.OffsetFetch: "offsetfetch", fakekafka.OffsetCommit: "offsetcommit"}

func errorBody(api int16, code int16) []byte {
	var w kwire.W
	switch api {
	case fakekafka.FindCoordinator:
		w.I16(code)
		w.I32(-1)
		w.Str("")
		w.I32(-1)
	case fakekafka.JoinGroup:
		w.I16(code)
		w.I32(-1)
		w.Str("")
		w.Str("")
		w.Str("")
		w.ArrayLen(0)
	case fakekafka.SyncGroup:
		w.I16(code)
		w.Bytes([]byte{})
	case fakekafka.Heartbeat, fakekafka.LeaveGroup:
		w.I16(code)
	}
	return w.B
}

func (r *run) intercept(req *fakekafka.Request) *fakekafka.Reply {
	name, ok := nameOf[req.ApiKey]
	owner := req.Conn.Owner
	if req.ApiKey == fakekafka.Fetch {
		rr := kwire.R{B: req.Body}
		rr.I32()
		rr.I32()
		rr.I32()
		if req.Version >= 3 {
			rr.I32()
		}
		if req.Version >= 4 {
			rr.I8()
		}
		if req.Version >= 7 {
			rr.I32()
			rr.I32()
		}
		rr.ArrayLen()
		t := rr.Str()
		rr.ArrayLen()
		p := rr.I32()
		if req.Version >= 9 {
			rr.I32()
		}
		off := rr.I64()
		// polls that repeat the previous one are recorded at most twice a second
		bk := fmt.Sprintf("%s|%s/%d|%d", owner, t, p, off)
		r.mu.Lock()
		lastT, seen := r.lastFetch[bk]
		now := time.Now()
		emit := !seen || now.Sub(lastT) > 500*time.Millisecond
		if emit {
			r.lastFetch[bk] = now
		}
		r.mu.Unlock()
		if emit {
			r.rec.Emit(trace.Event{"ev": "bfetch", "owner": owner, "tp": fmt.Sprintf("%s/%d", t, p), "off": off})
		}
		// a poll at the end of the log is answered after a short wait, like MaxWait on a broker
		r.cl.Lock()
		pp := r.cl.Part(t, int(p))
		atEnd := pp != nil && off >= pp.HW
		r.cl.Unlock()
		if atEnd {
			rep := req.Broker.Handle(req)
			rep.Delay = 20 * time.Millisecond
			return &rep
		}
		return nil
	}
	if !ok {
		return nil
	}
	key := owner + "/" + name
	r.mu.Lock()
	r.counts[key]++
	n := r.counts[key]
	var inj *injection
	for i, x := range r.inject[key] {
		if x.nth == n || x.nth == 0 {
			inj = &r.inject[key][i]
			if x.nth == 0 {
				r.inject[key] = append(r.inject[key][:i], r.inject[key][i+1:]...)
			}
			break
		}
	}
	r.mu.Unlock()
	r.pass("coord:" + key)
	if inj == nil {
		return nil
	}
	r.rec.Emit(trace.Event{"ev": "injected", "owner": owner, "api": name, "code": inj.code, "n": n})
	if inj.code < 0 {
		return &fakekafka.Reply{Close: true, CutAt: -1}
	}
	switch req.ApiKey {
	case fakekafka.OffsetFetch, fakekafka.OffsetCommit:
		// per-partition error codes: let the coordinator build the answer for a group it does not own
		return r.perPartitionError(req, int16(inj.code))
	}
	rep := fakekafka.Body(errorBody(req.ApiKey, int16(inj.code)))
	return &rep
}

func (r *run) perPartitionError(req *fakekafka.Request, code int16) *fakekafka.Reply {
	rr := kwire.R{B: req.Body}
	rr.Str() // group
	if req.ApiKey == fakekafka.OffsetCommit {
		rr.I32()
		rr.Str()
		rr.I64()
	}
	var w kwire.W
	nt := rr.ArrayLen()
	w.ArrayLen(nt)
	for i := 0; i < nt; i++ {
		w.Str(rr.Str())
		np := rr.ArrayLen()
		w.ArrayLen(np)
		for j := 0; j < np; j++ {
			p := rr.I32()
			w.I32(p)
			if req.ApiKey == fakekafka.OffsetCommit {
				rr.I64()
				rr.NStr()
				w.I16(code)
			} else {
				w.I64(-1)
				s := ""
				w.NStr(&s)
				w.I16(code)
			}
		}
	}
	rep := fakekafka.Body(w.B)
	return &rep
}

// journal turns coordinator journal entries into trace events.
func (r *run) journal(e fakekafka.JournalEntry) {
	name, ok := nameOf[e.ApiKey]
	if !ok {
		return
	}
	ev := trace.Event{"ev": "coord", "api": name, "owner": e.Owner, "member": "", "generation": -1, "code": 0, "offsets": []interface{}{}}
	if v, ok := e.Info["member"].(string); ok {
		ev["member"] = v
	}
	if v, ok := e.Info["generation"].(int); ok {
		ev["generation"] = v
	}
	if v, ok := e.Info["code"].(int); ok {
		ev["code"] = v
	}
	if v, ok := e.Info["offsets"].([]interface{}); ok {
		ev["offsets"] = v
	}
	if v, ok := e.Info["round"].(int); ok {
		ev["round"] = v
	}
	r.rec.Emit(ev)
}

func (r *run) newMember(id int) *member {
	sc := r.sc
	m := &member{id: id, owner: fmt.Sprintf("m%d", id), cmds: make(chan func(), 64), done: make(chan struct{})}
	hb := time.Duration(sc.HeartbeatMs) * time.Millisecond
	if hb == 0 {
		hb = 25 * time.Millisecond
	}
	bo := time.Duration(sc.BackoffMs) * time.Millisecond
	if bo == 0 {
		bo = 60 * time.Millisecond
	}
	dialer := &kafka.Dialer{DialFunc: r.net.Dialer(m.owner), Timeout: 3 * time.Second, ClientID: m.owner}
	if sc.Mode == "cg" {
		cg, err := kafka.NewConsumerGroup(kafka.ConsumerGroupConfig{
			ID: "g", Brokers: []string{"b1:9092"}, Dialer: dialer, Topics: r.topics,
			HeartbeatInterval: hb, JoinGroupBackoff: bo, SessionTimeout: 6 * time.Second, RebalanceTimeout: 1500 * time.Millisecond,
			StartOffset: sc.StartOffset, Timeout: 3 * time.Second, Logger: logger{r, id}, WatchPartitionChanges: sc.Watch,
			PartitionWatchInterval: 40 * time.Millisecond,
		})
		if err != nil {
			r.rec.Emit(trace.Event{"ev": "starterr", "m": id, "err": err.Error()})
			return nil
		}
		m.cg = cg
		r.mu.Lock()
		r.byObj[cg] = id
		r.mu.Unlock()
	} else {
		cfg := kafka.ReaderConfig{
			Brokers: []string{"b1:9092"}, GroupID: "g", Dialer: dialer,
			QueueCapacity: qcapOf(sc), MinBytes: 1, MaxBytes: 1 << 20, MaxWait: 400 * time.Millisecond,
			HeartbeatInterval: hb, JoinGroupBackoff: bo, SessionTimeout: 6 * time.Second, RebalanceTimeout: 1500 * time.Millisecond,
			CommitInterval: time.Duration(sc.CommitMs) * time.Millisecond, StartOffset: sc.StartOffset,
			ReadBackoffMin: time.Millisecond, ReadBackoffMax: 10 * time.Millisecond, Logger: logger{r, id},
			WatchPartitionChanges: sc.Watch, PartitionWatchInterval: 40 * time.Millisecond, MaxAttempts: 3,
		}
		if len(r.topics) == 1 {
			cfg.Topic = r.topics[0]
		} else {
			cfg.GroupTopics = r.topics
		}
		m.rd = kafka.NewReader(cfg)
		r.mu.Lock()
		r.byObj[m.rd] = id
		r.mu.Unlock()
	}
	go func() {
		defer close(m.done)
		for f := range m.cmds {
			f()
		}
	}()
	return m
}

const callTimeout = 6 * time.Second

func (r *run) fetch(m *member, n int, commit string) {
	for i := 0; i < n; i++ {
		if m.paceUs > 0 {
			time.Sleep(time.Duration(m.paceUs) * time.Microsecond)
		}
		ctx, cancel := context.WithTimeout(context.Background(), callTimeout)
		if m.cancelEvery > 0 && i%m.cancelEvery == m.cancelEvery-1 {
			cancel() // the caller's context is done before the call
		}
		var msg kafka.Message
		var err error
		if commit == "read" {
			r.rec.Emit(trace.Event{"ev": "read.call", "m": m.id})
			msg, err = m.rd.ReadMessage(ctx)
		} else {
			r.rec.Emit(trace.Event{"ev": "fetch.call", "m": m.id})
			msg, err = m.rd.FetchMessage(ctx)
		}
		cancel()
		switch {
		case err == nil:
			ok := string(msg.Value) == string(valueOf(msg.Topic, msg.Partition, msg.Offset))
			r.rec.Emit(trace.Event{"ev": "msg", "m": m.id, "tp": fmt.Sprintf("%s/%d", msg.Topic, msg.Partition), "off": msg.Offset, "ok": ok, "read": commit == "read"})
			m.last = append(m.last, msg)
		case errors.Is(err, context.Canceled) && m.cancelEvery > 0:
			r.rec.Emit(trace.Event{"ev": "fetcherr", "m": m.id, "err": err.Error()})
			continue
		case errors.Is(err, context.DeadlineExceeded):
			r.rec.Emit(trace.Event{"ev": "nomsg", "m": m.id})
			return
		case errors.Is(err, io.EOF):
			r.rec.Emit(trace.Event{"ev": "eof", "m": m.id})
			return
		default:
			r.rec.Emit(trace.Event{"ev": "fetcherr", "m": m.id, "err": err.Error()})
			continue
		}
		if commit == "sync" || commit == "async" {
			r.commit(m, []kafka.Message{msg})
		}
	}
}

func (r *run) commit(m *member, msgs []kafka.Message) { r.commitID(m, msgs, 0) }

// commitID: cid distinguishes CommitMessages calls of one member that overlap in time (step "commitburst")
func (r *run) commitID(m *member, msgs []kafka.Message, cid int) {
	if len(msgs) == 0 {
		return
	}
	list := make([]interface{}, len(msgs))
	for i, x := range msgs {
		list[i] = []interface{}{fmt.Sprintf("%s/%d", x.Topic, x.Partition), x.Offset}
	}
	r.rec.Emit(trace.Event{"ev": "commit.call", "m": m.id, "msgs": list, "sync": r.sc.CommitMs == 0, "cid": cid})
	to := callTimeout
	if m.commitCtx > 0 {
		to = m.commitCtx
	}
	ctx, cancel := context.WithTimeout(context.Background(), to)
	err := m.rd.CommitMessages(ctx, msgs...)
	cancel()
	es := ""
	if err != nil {
		es = err.Error()
	}
	r.rec.Emit(trace.Event{"ev": "commit.return", "m": m.id, "msgs": list, "sync": r.sc.CommitMs == 0, "err": es, "cid": cid})
}

// cgLoop is the application of a bare ConsumerGroup: Next, start functions, Next again.
func (r *run) cgLoop(m *member, fns, early, earlyMs, lingerMs int) {
	ctx, cancel := context.WithCancel(context.Background())
	m.cancel = cancel
	go func() {
		for {
			r.pass(fmt.Sprintf("app:beforenext:%d", m.id))
			r.rec.Emit(trace.Event{"ev": "next.call", "m": m.id})
			gen, err := m.cg.Next(ctx)
			if err != nil {
				code, closed := errClass(err)
				r.rec.Emit(trace.Event{"ev": "next.err", "m": m.id, "err": err.Error(), "code": code, "closed": closed})
				if errors.Is(err, kafka.ErrGroupClosed) || ctx.Err() != nil {
					return
				}
				continue
			}
			r.adopt(gen, m.id)
			asg := map[string]interface{}{}
			for t, ps := range gen.Assignments {
				for _, p := range ps {
					asg[fmt.Sprintf("%s/%d", t, p.ID)] = p.Offset
				}
			}
			r.rec.Emit(trace.Event{"ev": "next.return", "m": m.id, "gen": int(gen.ID), "member": gen.MemberID, "assign": asg})
			r.pass(fmt.Sprintf("app:afternext:%d", m.id))
			for k := 1; k <= fns; k++ {
				k := k
				g := int(gen.ID)
				r.rec.Emit(trace.Event{"ev": "fn.start", "m": m.id, "gen": g, "k": k})
				gen.Start(func(fctx context.Context) {
					if k == early {
						select {
						case <-fctx.Done():
							time.Sleep(time.Duration(lingerMs) * time.Millisecond)
							r.rec.Emit(trace.Event{"ev": "fn.exit", "m": m.id, "gen": g, "k": k, "why": "ctx"})
						case <-time.After(time.Duration(earlyMs) * time.Millisecond):
							r.rec.Emit(trace.Event{"ev": "fn.exit", "m": m.id, "gen": g, "k": k, "why": "own"})
						}
						return
					}
					<-fctx.Done()
					time.Sleep(time.Duration(lingerMs) * time.Millisecond) // slow to wind down
					r.rec.Emit(trace.Event{"ev": "fn.exit", "m": m.id, "gen": g, "k": k, "why": "ctx"})
				})
			}
		}
	}()
}

func qcapOf(sc *Script) int {
	if sc.QCap > 0 {
		return sc.QCap
	}
	return 10
}

// Run executes one scenario and returns its trace.
func Run(sc *Script) []trace.Event {
	rec0 := trace.New()
	rec0.Cap, rec0.Always = 60000, map[string]bool{"end": true, "hang": true, "close.call": true, "close.return": true}
	r := &run{sc: sc, rec: rec0, net: fakenet.NewNet(), members: map[int]*member{}, byObj: map[interface{}]int{},
		inject: map[string][]injection{}, counts: map[string]int{}, gates: map[string]chan struct{}{}, arrived: map[string]chan struct{}{}, lastFetch: map[string]time.Time{}}
	r.net.Name = fmt.Sprintf("g%d", atomic.AddInt64(&counter, 1))
	r.cl = fakekafka.NewCluster(r.net, 2)
	r.cl.OffsetFetchOrder = sc.FetchOrder
	for t := range sc.Topics {
		r.topics = append(r.topics, t)
	}
	sort.Strings(r.topics)
	stored := map[string]interface{}{}
	for _, t := range r.topics {
		tt := r.cl.AddTopic(t, sc.Topics[t])
		for _, p := range tt.Partitions {
			p.Leader, p.Replicas, p.ISR = 1+p.ID%2, []int{1, 2}, []int{1, 2}
			var recs []krec.Rec
			for o := 0; o < sc.Records; o++ {
				recs = append(recs, krec.Rec{Offset: int64(o), TsMs: 1_600_000_000_000 + int64(o), Value: valueOf(t, p.ID, int64(o))})
				if len(recs) == 3 || o == sc.Records-1 {
					p.AppendV2(recs, krec.None)
					recs = nil
				}
			}
			stored[fmt.Sprintf("%s/%d", t, p.ID)] = sc.Records
		}
	}
	runsMu.Lock()
	runs[r] = true
	runsMu.Unlock()
	defer func() {
		runsMu.Lock()
		delete(runs, r)
		runsMu.Unlock()
		forgetLive(r)
	}()
	r.cl.Intercept = r.intercept
	r.cl.OnJournal = r.journal
	r.rec.Emit(trace.Event{"ev": "cfg", "id": sc.ID, "mode": sc.Mode, "stored": stored, "startOffset": sc.StartOffset,
		"sync": sc.CommitMs == 0, "heartbeatMs": sc.HeartbeatMs, "backoffMs": sc.BackoffMs, "watch": sc.Watch, "ntopics": len(r.topics)})

	closeMember := func(m *member, wait bool) {
		if m.closed {
			return
		}
		m.closed = true
		done := make(chan struct{})
		r.rec.Emit(trace.Event{"ev": "close.call", "m": m.id})
		go func() {
			if m.rd != nil {
				m.rd.Close()
			} else {
				if m.cancel != nil {
					m.cancel()
				}
				m.cg.Close()
			}
			r.rec.Emit(trace.Event{"ev": "close.return", "m": m.id})
			close(done)
		}()
		if wait {
			select {
			case <-done:
			case <-time.After(15 * time.Second):
				r.rec.Emit(trace.Event{"ev": "hang", "what": "close", "m": m.id})
			}
		}
		close(m.cmds)
	}

	for _, st := range sc.Steps {
		st := st
		switch st.Op {
		case "start":
			m := r.newMember(st.M)
			if m == nil {
				continue
			}
			r.members[st.M] = m
			r.rec.Emit(trace.Event{"ev": "start", "m": st.M})
			if sc.Mode == "cg" {
				r.cgLoop(m, st.Fns, st.Early, st.Ms, st.Linger)
			}
		case "fetch":
			if m := r.members[st.M]; m != nil && !m.closed {
				done := make(chan struct{})
				pace := st.PaceUs
				ce := st.CancelEvery
				m.cmds <- func() {
					m.paceUs, m.cancelEvery = pace, ce
					r.fetch(m, st.N, st.Commit)
					m.paceUs, m.cancelEvery = 0, 0
					close(done)
				}
				if st.Wait {
					<-done
				}
			}
		case "commitlast":
			if m := r.members[st.M]; m != nil && !m.closed {
				done := make(chan struct{})
				ctxMs := st.CtxMs
				m.cmds <- func() {
					if len(m.last) > 0 {
						m.commitCtx = time.Duration(ctxMs) * time.Millisecond
						r.commit(m, m.last[len(m.last)-1:])
						m.commitCtx = 0
					}
					close(done)
				}
				<-done
			}
		case "commitburst":
			// N CommitMessages calls at the same time, one per message among the last N handed out (the first reaches the
			// coordinator, the others queue up in the Reader); "waitburst" waits for all of them
			if m := r.members[st.M]; m != nil && !m.closed {
				done := make(chan struct{})
				m.cmds <- func() {
					n := st.N
					if n > len(m.last) {
						n = len(m.last)
					}
					var wg sync.WaitGroup
					burst := make(chan struct{})
					m.burst = burst
					for i := 0; i < n; i++ {
						msg := m.last[len(m.last)-n+i]
						wg.Add(1)
						go func(i int) {
							defer wg.Done()
							r.commitID(m, []kafka.Message{msg}, i+1)
						}(i)
						time.Sleep(2 * time.Millisecond) // the calls are issued in offset order
					}
					go func() { wg.Wait(); close(burst) }()
					close(done)
				}
				<-done
			}
		case "waitburst":
			if m := r.members[st.M]; m != nil && m.burst != nil {
				select {
				case <-m.burst:
				case <-time.After(10 * time.Second):
					r.rec.Emit(trace.Event{"ev": "hang", "what": "commit", "m": m.id})
				}
			}
		case "waitapp":
			if m := r.members[st.M]; m != nil && !m.closed {
				done := make(chan struct{})
				m.cmds <- func() { close(done) }
				select {
				case <-done:
				case <-time.After(30 * time.Second):
					r.rec.Emit(trace.Event{"ev": "hang", "what": "app", "m": st.M})
				}
			}
		case "stop":
			if m := r.members[st.M]; m != nil {
				closeMember(m, true)
			}
		case "stopasync":
			if m := r.members[st.M]; m != nil {
				closeMember(m, false)
			}
		case "evict":
			r.cl.Lock()
			var ids []string
			if g := r.cl.Groups["g"]; g != nil {
				for id, mm := range g.Members {
					if mm.ClientID == fmt.Sprintf("m%d", st.M) {
						ids = append(ids, id)
					}
				}
			}
			r.cl.Unlock()
			for _, id := range ids {
				r.rec.Emit(trace.Event{"ev": "evict", "m": st.M, "member": id})
				r.cl.Evict("g", id)
			}
		case "rebalance":
			r.rec.Emit(trace.Event{"ev": "rebalance"})
			r.cl.TriggerRebalance("g")
		case "inject":
			key := fmt.Sprintf("m%d/%s", st.M, st.Api)
			r.mu.Lock()
			r.inject[key] = append(r.inject[key], injection{nth: st.Nth, code: st.Code})
			r.mu.Unlock()
		case "append":
			r.cl.Lock()
			p := r.cl.Part(st.T, st.P)
			var recs []krec.Rec
			for i := 0; i < st.N; i++ {
				o := p.HW + int64(i)
				recs = append(recs, krec.Rec{Offset: o, TsMs: 1_600_000_000_000 + o, Value: valueOf(st.T, st.P, o)})
			}
			r.rec.EmitWith(func() trace.Event {
				p.AppendV2(recs, krec.None)
				return trace.Event{"ev": "append", "tp": fmt.Sprintf("%s/%d", st.T, st.P), "n": st.N, "hw": p.HW}
			})
			r.cl.Unlock()
		case "fetchfault":
			// the next N fetch requests for the partition are answered with an error code, or (code -1) not at all: the
			// connection is closed
			r.cl.Lock()
			if p := r.cl.Part(st.T, st.P); p != nil {
				n := st.N
				if n == 0 {
					n = 1
				}
				for i := 0; i < n; i++ {
					if st.Code < 0 {
						p.FetchPlan = append(p.FetchPlan, fakekafka.FetchFault{UseCut: true, CutFrame: 0})
					} else {
						p.FetchPlan = append(p.FetchPlan, fakekafka.FetchFault{Err: int16(st.Code)})
					}
				}
			}
			r.cl.Unlock()
			r.rec.Emit(trace.Event{"ev": "fetchfault", "tp": fmt.Sprintf("%s/%d", st.T, st.P), "code": st.Code})
		case "addpartition":
			r.cl.Lock()
			t := r.cl.Topics[st.T]
			np := &fakekafka.Partition{Topic: st.T, ID: len(t.Partitions), Leader: 1, Replicas: []int{1}, ISR: []int{1}}
			t.Partitions = append(t.Partitions, np)
			r.cl.Unlock()
			r.rec.Emit(trace.Event{"ev": "addpartition", "t": st.T})
		case "removepartition": // the topic was deleted and re-created with one partition less
			r.cl.Lock()
			if t := r.cl.Topics[st.T]; t != nil && len(t.Partitions) > 0 {
				t.Partitions = t.Partitions[:len(t.Partitions)-1]
			}
			r.cl.Unlock()
			r.rec.Emit(trace.Event{"ev": "addpartition", "t": st.T, "how": "removed"})
		case "deletetopic": // metadata answers UnknownTopicOrPartition from now on
			r.cl.Lock()
			delete(r.cl.Topics, st.T)
			r.cl.Unlock()
			r.rec.Emit(trace.Event{"ev": "addpartition", "t": st.T, "how": "deleted"})
		case "sleep":
			time.Sleep(time.Duration(st.Ms) * time.Millisecond)
		case "hold":
			r.mu.Lock()
			r.gates[st.Gate] = make(chan struct{})
			r.arrived[st.Gate] = make(chan struct{})
			r.mu.Unlock()
		case "release":
			r.mu.Lock()
			if ch := r.gates[st.Gate]; ch != nil {
				close(ch)
				delete(r.gates, st.Gate)
			}
			r.mu.Unlock()
		case "waitgate":
			r.mu.Lock()
			a := r.arrived[st.Gate]
			r.mu.Unlock()
			if a != nil {
				select {
				case <-a:
				case <-time.After(5 * time.Second):
					r.rec.Emit(trace.Event{"ev": "gatetimeout", "gate": st.Gate})
				}
			}
		}
	}
	// release every gate, close every member, then watch the cluster for late traffic
	r.mu.Lock()
	for n, ch := range r.gates {
		close(ch)
		delete(r.gates, n)
	}
	r.mu.Unlock()
	var ids []int
	for id := range r.members {
		ids = append(ids, id)
	}
	sort.Ints(ids)
	for _, id := range ids {
		closeMember(r.members[id], true)
	}
	r.rec.Emit(trace.Event{"ev": "allclosed"})
	time.Sleep(1500 * time.Millisecond)
	open := map[string]interface{}{}
	for _, id := range ids {
		open[fmt.Sprintf("m%d", id)] = len(r.net.Open(fmt.Sprintf("m%d", id)))
	}
	r.rec.Emit(trace.Event{"ev": "end", "open": open, "drained": sc.Drain})
	return r.rec.Events()
}
