SPECIFICATION Spec
INVARIANTS
  Internal_LineOK
  Internal_DecodersAgree
  Internal_CrcRange
  Report
  C05_AllLinesAccepted
CHECK_DEADLOCK FALSE
