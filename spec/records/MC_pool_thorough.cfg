SPECIFICATION Spec
CONSTANTS
  Pages = {p1, p2, p3, p4}
  Buffers = {b1, b2}
  Refs = {r1, r2, r3}
  MaxBufPages = 3
  Defect = "none"
SYMMETRY Symm
INVARIANTS TypeOK PoolClean RefcExact NoStale NoUnrelatedSharing
PROPERTIES CloseIdempotent
CHECK_DEADLOCK FALSE
