------------------------------ MODULE Records ------------------------------
(***************************************************************************)
(* Kafka record formats as byte layouts (C05).                             *)
(*                                                                         *)
(* Written from the Kafka protocol definition (message format 0/1, record  *)
(* batch format 2), not from kafka-go.  Payloads are symbolic byte strings *)
(* so that sizes from 0 to several 64 KiB pages cost nothing: a length is  *)
(* computed arithmetically and never materialised.                         *)
(*                                                                         *)
(* A layout is a sequence of fields [name, size].  Every length field,     *)
(* every checksum range and every count of the formats is derived from the *)
(* layouts below; the judge (RecordsCheck.tla) recomputes them from the    *)
(* content found on the wire and compares them with the length fields,     *)
(* counts and deltas actually written there.  Checksum VALUES are not      *)
(* computed in TLC: the spec says WHICH bytes a checksum covers and with   *)
(* which polynomial (CrcRange); the harness computes them with hash/crc32  *)
(* over exactly that range and reports the range it used.                  *)
(*                                                                         *)
(* 64-bit quantities: offsets are carried relative to a per-case origin,   *)
(* millisecond timestamps as limbs [s, m] (value = 1000*s + m, 0<=m<1000,  *)
(* floor division) relative to a per-case origin second; both fit TLC's    *)
(* 32-bit integers.  The harness reports anything outside that range as    *)
(* the sentinel OutOfRange, which equals no generated value.               *)
(***************************************************************************)
EXTENDS Integers, Sequences, FiniteSets, TLC

----------------------------------------------------------------------------
(* Symbolic byte strings                                                   *)

LitMax == 24
Null         == [k |-> "null", n |-> 0, b |-> <<>>, c |-> 0, s |-> 0, h |-> ""]
Lit(bytes)   == [k |-> "lit", n |-> Len(bytes), b |-> bytes, c |-> 0, s |-> 0, h |-> ""]
Rep(byte, n) == [k |-> "rep", n |-> n, b |-> <<>>, c |-> byte, s |-> 0, h |-> ""]
\* Pat(s, n): the pseudo-random self-describing string of the harness (recdrv.PatBytes); abstract here
Pat(seed, n) == [k |-> "pat", n |-> n, b |-> <<>>, c |-> 0, s |-> seed, h |-> ""]
Empty == Lit(<<>>)

IsNull(p) == p.k = "null"
PLen(p)   == p.n                       \* number of bytes (0 for null)
\* canonical forms: equal byte strings have equal descriptions
Canonical(p) ==
  CASE p.k = "null" -> p = Null
    [] p.k = "lit"  -> p.n = Len(p.b) /\ p.n <= LitMax /\ p = Lit(p.b)
    [] p.k = "rep"  -> p.n > LitMax /\ p.c \in 0..255 /\ p = Rep(p.c, p.n)
    [] p.k = "pat"  -> p.n > LitMax /\ p = Pat(p.s, p.n)
    [] p.k = "raw"  -> p.n > LitMax
    [] OTHER -> FALSE
\* equality up to the nil/empty distinction (what the Conn/Reader path promises on reads)
EqUpToNil(a, b) == a = b \/ (PLen(a) = 0 /\ PLen(b) = 0)

----------------------------------------------------------------------------
(* Limbs (milliseconds)                                                    *)

OutOfRange == 2000000000
IsOut(t)   == t.s >= OutOfRange \/ t.s <= -OutOfRange
Norm(s, m) == [s |-> s + (m \div 1000), m |-> m % 1000]
AddMs(a, d) == IF IsOut(a) \/ IsOut(d) THEN [s |-> OutOfRange, m |-> 0] ELSE Norm(a.s + d.s, a.m + d.m)
LimbLE(a, b) == a.s < b.s \/ (a.s = b.s /\ a.m <= b.m)
LimbOf(s, m) == [s |-> s, m |-> m]
\* a time given as seconds + nanoseconds: its millisecond timestamp is the floor
FloorMs(t) == [s |-> t.s, m |-> t.ns \div 1000000]

----------------------------------------------------------------------------
(* Layouts                                                                 *)

F(name, size) == [name |-> name, size |-> size]
RECURSIVE Size(_)
Size(layout) == IF layout = <<>> THEN 0 ELSE Head(layout).size + Size(Tail(layout))
RECURSIVE OffsetOf(_, _)
OffsetOf(layout, name) ==        \* offset of the first field called name
  IF Head(layout).name = name THEN 0 ELSE Head(layout).size + OffsetOf(Tail(layout), name)
RECURSIVE Concat(_)
Concat(ss) == IF ss = <<>> THEN <<>> ELSE Head(ss) \o Concat(Tail(ss))
RECURSIVE Sum(_)
Sum(ns) == IF ns = <<>> THEN 0 ELSE Head(ns) + Sum(Tail(ns))

\* a checksum covers the bytes [from, to) of the entry and uses the polynomial poly
CrcRange(poly, layout, first) == [poly |-> poly, from |-> OffsetOf(layout, first), to |-> Size(layout)]

(* Variable-length integers: zig-zag, then 7 bits per byte.  A value v    *)
(* needs the least k with zigzag(v) < 2^(7k), i.e. -2^(7k-1) <= v < 2^(7k-1) *)
P7(k) == CASE k = 1 -> 64 [] k = 2 -> 8192 [] k = 3 -> 1048576 [] k = 4 -> 134217728
FitsVarint(v, k) == k >= 5 \/ (v < P7(k) /\ v >= -P7(k))          \* 32-bit values always fit 5 bytes
VarintSize(v) == CHOOSE k \in 1..5 : FitsVarint(v, k) /\ \A j \in 1..(k-1) : ~FitsVarint(v, j)
\* the same for a millisecond limb (up to 6 bytes: |value| < 2^41 whenever s fits 32 bits)
L7(k) == CASE k = 1 -> LimbOf(0, 64) [] k = 2 -> LimbOf(8, 192) [] k = 3 -> LimbOf(1048, 576)
           [] k = 4 -> LimbOf(134217, 728) [] k = 5 -> LimbOf(17179869, 184)
NegL7(k) == CASE k = 1 -> LimbOf(-1, 936) [] k = 2 -> LimbOf(-9, 808) [] k = 3 -> LimbOf(-1049, 424)
           [] k = 4 -> LimbOf(-134218, 272) [] k = 5 -> LimbOf(-17179870, 816)
FitsVarintL(d, k) == k >= 6 \/ (LimbLE(NegL7(k), d) /\ ~LimbLE(L7(k), d))
VarintSizeL(d) == CHOOSE k \in 1..6 : FitsVarintL(d, k) /\ \A j \in 1..(k-1) : ~FitsVarintL(d, j)

NLen(p)   == IF IsNull(p) THEN -1 ELSE PLen(p)        \* the value of a nullable length field

----------------------------------------------------------------------------
(* Message format 0 and 1 (one entry of a message set)                     *)
(*   offset int64 | size int32 | crc int32 | magic int8 | attributes int8  *)
(*   | [timestamp int64, magic 1] | key bytes | value bytes                *)
(* size counts the bytes after itself; crc is IEEE over magic..value.      *)

MessageLayout(magic, key, value) ==
  << F("offset", 8), F("size", 4), F("crc", 4), F("magic", 1), F("attributes", 1) >>
  \o (IF magic >= 1 THEN << F("timestamp", 8) >> ELSE << >>)
  \o << F("keyLength", 4), F("key", PLen(key)), F("valueLength", 4), F("value", PLen(value)) >>

MessageSizeField(magic, key, value) == Size(MessageLayout(magic, key, value)) - 12
MessageCrc(magic, key, value) == CrcRange("ieee", MessageLayout(magic, key, value), "magic")

\* the structural description of a message as the harness reports one
Message(magic, offset, ts, key, value, attrs) ==
  [magic |-> magic, off |-> offset, sizeField |-> MessageSizeField(magic, key, value), attrs |-> attrs,
   ts |-> ts, key |-> key, value |-> value, crc |-> MessageCrc(magic, key, value)]
MessageV0(offset, key, value, attrs)     == Message(0, offset, LimbOf(0, 0), key, value, attrs)
MessageV1(offset, ts, key, value, attrs) == Message(1, offset, ts, key, value, attrs)

\* a message set is the concatenation of its messages; its size is the sum
MessageSetV1Size(msgs) == Sum([i \in 1..Len(msgs) |-> 12 + msgs[i].sizeField])

(* WrapperV1(codec, inner): one message whose value is the compressed      *)
(* message set `inner`, whose attributes carry the codec, whose key is     *)
(* null.  With magic 1 the inner offsets are relative and the wrapper's    *)
(* offset is the absolute offset of the last inner message:                *)
(*   absolute(i) = wrapper.off - (inner[last].off - inner[i].off)          *)
WrapperAbsolute(wrapperOff, innerOffs, i) == wrapperOff - (innerOffs[Len(innerOffs)] - innerOffs[i])
\* what a producer writes: inner offsets 0..n-1
InnerOffsetsOnProduce(n) == [i \in 1..n |-> i - 1]

----------------------------------------------------------------------------
(* Record batch format 2                                                   *)
(*   baseOffset int64 | batchLength int32 | partitionLeaderEpoch int32 |   *)
(*   magic int8 | crc int32 | attributes int16 | lastOffsetDelta int32 |   *)
(*   firstTimestamp int64 | maxTimestamp int64 | producerId int64 |        *)
(*   producerEpoch int16 | baseSequence int32 | count int32 | records      *)
(* batchLength counts the bytes after itself; crc is Castagnoli over       *)
(* attributes..end; the records section is compressed as a whole.          *)
(* Record: length varint | attributes int8 | timestampDelta varint |       *)
(*   offsetDelta varint | key varbytes | value varbytes | headers          *)

HeaderLayout(h) ==
  << F("headerKeyLength", VarintSize(PLen(h.k))), F("headerKey", PLen(h.k)),
     F("headerValueLength", VarintSize(NLen(h.v))), F("headerValue", PLen(h.v)) >>

RecordV2Layout(tsDelta, offDelta, key, value, headers) ==
  << F("attributes", 1), F("timestampDelta", VarintSizeL(tsDelta)), F("offsetDelta", VarintSize(offDelta)),
     F("keyLength", VarintSize(NLen(key))), F("key", PLen(key)),
     F("valueLength", VarintSize(NLen(value))), F("value", PLen(value)),
     F("headerCount", VarintSize(Len(headers))) >>
  \o Concat([i \in 1..Len(headers) |-> HeaderLayout(headers[i])])

\* the value of the record's length prefix, and the bytes the record occupies
RecordV2Length(r) == Size(RecordV2Layout(r.tsDelta, r.offDelta, r.key, r.value, r.headers))
RecordV2Size(r)   == VarintSize(RecordV2Length(r)) + RecordV2Length(r)
RecordsSectionSize(records) == Sum([i \in 1..Len(records) |-> RecordV2Size(records[i])])

BatchV2Layout(payloadLen) ==
  << F("baseOffset", 8), F("batchLength", 4), F("partitionLeaderEpoch", 4), F("magic", 1), F("crc", 4),
     F("attributes", 2), F("lastOffsetDelta", 4), F("firstTimestamp", 8), F("maxTimestamp", 8),
     F("producerId", 8), F("producerEpoch", 2), F("baseSequence", 4), F("count", 4), F("records", payloadLen) >>
BatchLengthField(payloadLen) == Size(BatchV2Layout(payloadLen)) - 12
BatchCrc(payloadLen) == CrcRange("castagnoli", BatchV2Layout(payloadLen), "attributes")

\* timestamp and offset of the i-th record of a batch
RecordTs(firstTs, r)  == AddMs(firstTs, r.tsDelta)
RecordOff(base, r)    == base + r.offDelta
LimbMax(a, b) == IF LimbLE(a, b) THEN b ELSE a
RECURSIVE MaxTs(_)
MaxTs(tss) == IF Len(tss) = 1 THEN tss[1] ELSE LimbMax(Head(tss), MaxTs(Tail(tss)))

----------------------------------------------------------------------------
(* Content of the page-pool log: a function of (partition, offset) only    *)
(* (the harness writes the same functions: recdrv.poolKey, poolValue).     *)

PoolValueLen == << 30, 70000, 200, 5000, 65536, 40000, 140000 >>
PoolSeed(part, off, field) == part * 1000000 + off * 2 + field
PoolKey(part, off)   == IF off % 5 = 0 THEN Null ELSE Pat(PoolSeed(part, off, 0), 25 + (off % 40))
PoolValue(part, off) == IF off % 13 = 0 THEN Null
                        ELSE IF off % 11 = 0 THEN Empty
                        ELSE Pat(PoolSeed(part, off, 1), PoolValueLen[(off % 7) + 1])

----------------------------------------------------------------------------
(* Sanity of the definitions themselves (evaluated once by TLC).           *)

ASSUME Size(BatchV2Layout(0)) = 61 /\ BatchLengthField(0) = 49 /\ BatchCrc(10) = [poly |-> "castagnoli", from |-> 21, to |-> 71]
ASSUME MessageSizeField(1, Null, Null) = 22 /\ MessageSizeField(0, Lit(<<1>>), Rep(7, 70000)) = 14 + 1 + 70000
ASSUME MessageCrc(1, Null, Lit(<<1, 2>>)) = [poly |-> "ieee", from |-> 16, to |-> 36]
ASSUME VarintSize(0) = 1 /\ VarintSize(-1) = 1 /\ VarintSize(63) = 1 /\ VarintSize(64) = 2 /\ VarintSize(-64) = 1 /\ VarintSize(-65) = 2
ASSUME VarintSize(8191) = 2 /\ VarintSize(8192) = 3 /\ VarintSize(65536) = 3 /\ VarintSize(70000) = 3 /\ VarintSize(1048576) = 4
ASSUME VarintSizeL(LimbOf(0, 0)) = 1 /\ VarintSizeL(LimbOf(0, 63)) = 1 /\ VarintSizeL(LimbOf(0, 64)) = 2 /\ VarintSizeL(LimbOf(-1, 936)) = 1
ASSUME VarintSizeL(LimbOf(-1, 935)) = 2 /\ VarintSizeL(LimbOf(8, 191)) = 2 /\ VarintSizeL(LimbOf(8, 192)) = 3 /\ VarintSizeL(LimbOf(2592000, 0)) = 5
ASSUME \A v \in (-9000..9000) \cup {-1048577, -1048576, 1048575, 1048576, -134217729, -134217728, 134217727, 134217728} :
         VarintSize(v) = VarintSizeL(Norm(0, v))
ASSUME RecordV2Length([tsDelta |-> LimbOf(0, 0), offDelta |-> 0, key |-> Null, value |-> Null, headers |-> <<>>]) = 6
ASSUME RecordV2Size([tsDelta |-> LimbOf(0, 1), offDelta |-> 1, key |-> Empty, value |-> Rep(1, 70000),
                     headers |-> <<[k |-> Lit(<<104>>), v |-> Null]>>]) = 3 + (1 + 1 + 1 + 1 + 3 + 70000 + 1 + 1 + 1 + 1)
ASSUME AddMs(LimbOf(1, 999), LimbOf(0, 2)) = LimbOf(2, 1) /\ AddMs(LimbOf(1, 1), LimbOf(-1, 999)) = LimbOf(1, 0)
ASSUME FloorMs([s |-> 1, ns |-> 1900000]) = LimbOf(1, 1) /\ FloorMs([s |-> 1, ns |-> 2100000]) = LimbOf(1, 2)
ASSUME WrapperAbsolute(12, <<0, 2>>, 1) = 10 /\ WrapperAbsolute(12, <<0, 1, 2>>, 2) = 11
=============================================================================
