SPECIFICATION Spec
INVARIANTS
  Internal_LineOK
  SelfTest
CHECK_DEADLOCK FALSE
