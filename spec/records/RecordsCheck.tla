---------------------------- MODULE RecordsCheck ----------------------------
(***************************************************************************)
(* Judge of C05.  Reads an ndjson file (environment variable RECLINES)     *)
(* written by the Go driver harness/recdrv from runs of the REAL kafka-go  *)
(* code and steps through it with the counter i.                           *)
(*                                                                         *)
(*  dir = "produce": `in` is the abstract record list handed to the        *)
(*     library, `wire` the structural description of the record sets the   *)
(*     fake broker received (every field as written: krec.ParseRaw, cross- *)
(*     checked with krec.DecodeSet).  ProducedOK recomputes every length   *)
(*     field, count and delta from the layouts of Records.tla.             *)
(*  dir = "fetch": `log` is the sequence of reference-encoded batches in   *)
(*     the partition, `from` the requested offset, `got` what the library  *)
(*     returned through path client (Client.Fetch), conn (Conn.ReadBatch + *)
(*     ReadMessage) or reader (Reader.FetchMessage).                       *)
(*  dir = "pool": concurrent decodes with key/value handles read late.     *)
(*                                                                         *)
(* Every clause of a line that is false is printed as                      *)
(*   <<"C05FAIL", id, {clauses}>>                                          *)
(* and counted in nfail; the invariant C05_AllLinesAccepted (nfail = 0     *)
(* after the last line) is the verdict.  Invariants called Internal_* are  *)
(* about the generator and the driver, never about kafka-go.               *)
(***************************************************************************)
EXTENDS Records, Json, IOUtils

Lines == ndJsonDeserialize(IOEnv.RECLINES)

VARIABLES i, nfail, stats
vars == <<i, nfail, stats>>

Active == i <= Len(Lines)
L == Lines[i]

Range(s) == {s[k] : k \in 1..Len(s)}
Idx(s) == 1..Len(s)
N(c, ok) == IF ok THEN {} ELSE {c}
B(x) == IF x THEN 1 ELSE 0

----------------------------------------------------------------------------
(* Produce direction                                                       *)

Ents(l) == l.wire.entries
IsWrapper(e) == e.magic < 2 /\ e.codec # 0

\* the records an entry carries, as an independent decoder reconstructs them
\* (offsets relative to the first record of the entry: a produce request has no absolute offsets)
MsgRecord(m, off) == [off |-> off, ts |-> m.ts, hasTs |-> m.magic >= 1, key |-> m.key, value |-> m.value, headers |-> <<>>]
EntryRecords(e) ==
  IF e.magic = 2
    THEN [k \in Idx(e.records) |->
            [off |-> e.records[k].offDelta - e.records[1].offDelta, ts |-> RecordTs(e.firstTs, e.records[k]), hasTs |-> TRUE,
             key |-> e.records[k].key, value |-> e.records[k].value, headers |-> e.records[k].headers]]
    ELSE IF IsWrapper(e)
      THEN [k \in Idx(e.inner) |-> MsgRecord(e.inner[k], WrapperAbsolute(0, [j \in Idx(e.inner) |-> e.inner[j].off], k)
                                                           - WrapperAbsolute(0, [j \in Idx(e.inner) |-> e.inner[j].off], 1))]
      ELSE << MsgRecord(e, 0) >>
Flat(l) == Concat([k \in Idx(Ents(l)) |-> EntryRecords(Ents(l)[k])])

\* --- one message (format 0/1), top level or inside a wrapper, against its layout
MsgLengthsOK(m) == m.sizeField = MessageSizeField(m.magic, m.key, m.value) /\ m.consumed = m.sizeField
MsgCrcRange(m)  == [poly |-> m.crc.poly, from |-> m.crc.from, to |-> m.crc.to] = MessageCrc(m.magic, m.key, m.value)
InnerAsMessages(e) == [k \in Idx(e.inner) |-> [sizeField |-> e.inner[k].sizeField]]
WrapperLengthsOK(e) ==
  /\ MsgLengthsOK(e)
  /\ e.innerTrailing = 0
  /\ \A k \in Idx(e.inner) : MsgLengthsOK(e.inner[k])
  /\ MessageSetV1Size(InnerAsMessages(e)) = e.rawLen         \* the inner messages fill the decompressed payload exactly

\* --- one record batch (format 2) against its layout
BatchLengthsOK(e) ==
  /\ e.sizeField = BatchLengthField(e.payloadLen) /\ e.consumed = e.sizeField
  /\ e.codec = 0 => e.rawLen = e.payloadLen
  /\ e.recBytes = e.rawLen                                   \* the count records fill the records section exactly
  /\ \A k \in Idx(e.records) : e.records[k].lenField = RecordV2Length(e.records[k]) /\ e.records[k].lenActual = e.records[k].lenField
  /\ RecordsSectionSize(e.records) = e.rawLen
BatchCrcRange(e) == [poly |-> e.crc.poly, from |-> e.crc.from, to |-> e.crc.to] = BatchCrc(e.payloadLen)
BatchCountOK(e) ==
  /\ e.count = Len(e.records)
  /\ e.lastDelta = e.count - 1
  /\ \A k \in Idx(e.records) : e.records[k].offDelta = k - 1 /\ e.records[k].attrs = 0
WrapperCountOK(e) ==
  /\ Len(e.inner) >= 1
  /\ [k \in Idx(e.inner) |-> e.inner[k].off] = InnerOffsetsOnProduce(Len(e.inner))

LengthsOK(e) == IF e.magic = 2 THEN BatchLengthsOK(e) ELSE IF IsWrapper(e) THEN WrapperLengthsOK(e) ELSE MsgLengthsOK(e)
CrcValid(e)  == e.crc.ok /\ (IsWrapper(e) => \A k \in Idx(e.inner) : e.inner[k].crc.ok)
CrcRangeOK(e) == IF e.magic = 2 THEN BatchCrcRange(e)
                 ELSE MsgCrcRange(e) /\ (IsWrapper(e) => \A k \in Idx(e.inner) : MsgCrcRange(e.inner[k]))
CountOK(e)   == IF e.magic = 2 THEN BatchCountOK(e) ELSE IF IsWrapper(e) THEN WrapperCountOK(e) ELSE TRUE
FormatOK(l, e) ==
  /\ e.magic = l.fmt /\ e.codec = l.codec /\ e.attrs = l.codec
  /\ IsWrapper(e) => IsNull(e.key) /\ \A k \in Idx(e.inner) : e.inner[k].magic = e.magic /\ e.inner[k].attrs = 0

HeadersEq(a, b) == Len(a) = Len(b) /\ \A k \in Idx(a) : a[k].k = b[k].k /\ a[k].v = b[k].v
HeadersEqUpToNil(a, b) == Len(a) = Len(b) /\ \A k \in Idx(a) : a[k].k = b[k].k /\ EqUpToNil(a[k].v, b[k].v)

P_Accepted(l) ==            \* the library reported success and an independent decoder got through the bytes
  /\ l.err = "" /\ l.wire.decodeErr = "" /\ l.wire.trailing = 0
  /\ Len(l.in) > 0 => l.wire.requests >= 1
P_Format(l)    == \A e \in Range(Ents(l)) : FormatOK(l, e)
P_Lengths(l)   == \A e \in Range(Ents(l)) : LengthsOK(e)
P_Crc(l)       == \A e \in Range(Ents(l)) : CrcValid(e)
P_Count(l)     == \A e \in Range(Ents(l)) : CountOK(e)
\* f is Flat(l), passed in so that TLC flattens a line once
P_Order(l, f)     == Len(f) = Len(l.in)
P_KeyValue(l, f)  == Len(f) = Len(l.in) => \A k \in Idx(l.in) : f[k].key = l.in[k].key /\ f[k].value = l.in[k].value
P_Headers(l, f)   == Len(f) = Len(l.in) /\ l.fmt = 2 => \A k \in Idx(l.in) : HeadersEq(f[k].headers, l.in[k].headers)
P_Timestamp(l, f) ==
  Len(f) = Len(l.in) => \A k \in Idx(l.in) :
     /\ f[k].hasTs
     /\ IF l.in[k].ts.zero
          THEN LimbLE(l.win[1], f[k].ts) /\ LimbLE(f[k].ts, l.win[2])   \* the library stamps "now"
          ELSE f[k].ts = FloorMs(l.in[k].ts)

FailedProduce(l) ==
  LET f == Flat(l) IN
  N("P_Accepted", P_Accepted(l)) \cup N("P_Format", P_Format(l)) \cup N("P_Lengths", P_Lengths(l)) \cup N("P_Crc", P_Crc(l))
  \cup N("P_Count", P_Count(l)) \cup N("P_Order", P_Order(l, f)) \cup N("P_KeyValue", P_KeyValue(l, f))
  \cup N("P_Headers", P_Headers(l, f)) \cup N("P_Timestamp", P_Timestamp(l, f))
ProducedOK(l) == FailedProduce(l) = {}

\* not clauses: the driver's two decoders agree, the harness verified each checksum over the range the spec states
DecodersAgree(l) ==
  l.wire.decodeErr = "" =>
    LET f == Flat(l) IN
    /\ Len(f) = Len(l.wire.decoded)
    /\ \A k \in Idx(l.wire.decoded) :
         LET a == f[k] b == l.wire.decoded[k] IN
           a.off = b.off /\ a.hasTs = b.hasTs /\ (a.hasTs => a.ts = b.ts) /\ a.key = b.key /\ a.value = b.value /\ HeadersEq(a.headers, b.headers)
CrcRangesAgree(l) == \A e \in Range(Ents(l)) : LengthsOK(e) => CrcRangeOK(e)

\* counted, never a verdict
MaxTsIsMax(e)  == e.magic = 2 /\ Len(e.records) > 0 => e.maxTs = MaxTs([k \in Idx(e.records) |-> RecordTs(e.firstTs, e.records[k])])
FirstTsIsFirst(e) == e.magic = 2 /\ Len(e.records) > 0 => e.records[1].tsDelta = LimbOf(0, 0)

----------------------------------------------------------------------------
(* Fetch direction                                                         *)

Served(l)  == SelectSeq(l.log, LAMBDA b : b.last >= l.from)         \* a broker answers with whole batches from the one holding `from`
Visible(b) == ~b.control /\ ~b.corrupt
RecsOf(bs) == Concat([k \in Idx(bs) |-> IF Visible(bs[k]) THEN bs[k].recs ELSE <<>>])
HasCorrupt(bs) == \E k \in Idx(bs) : bs[k].corrupt
FirstCorrupt(bs) == CHOOSE k \in Idx(bs) : bs[k].corrupt /\ \A j \in 1..(k-1) : ~bs[j].corrupt

(* Client.Fetch returns every record of the served batches (FetchResponse: *)
(* "kafka may return record batches that start at an offset before the one *)
(* that was requested. It is the program's responsibility to skip"), hides *)
(* control batches, and surfaces nothing of a batch whose checksum does not *)
(* match; whether batches after such a batch are still decoded is left     *)
(* open.  Conn.ReadBatch/ReadMessage and Reader skip records before the    *)
(* requested offset.                                                       *)
ClientChoices(s) ==
    IF ~HasCorrupt(s) THEN {RecsOf(s)}
    ELSE LET c == FirstCorrupt(s) IN
           {RecsOf(SubSeq(s, 1, c - 1)), RecsOf(SubSeq(s, 1, c - 1)) \o RecsOf(SubSeq(s, c + 1, Len(s))), <<>>}
ConnExpected(l, s) == SelectSeq(RecsOf(s), LAMBDA r : r.off >= l.from)
Choices(l, s)  == IF l.path = "client" THEN ClientChoices(s) ELSE {ConnExpected(l, s)}
Offs(rs)       == [k \in Idx(rs) |-> rs[k].off]
Matching(l, s) == LET o == Offs(l.got) IN {x \in Choices(l, s) : Offs(x) = o}

\* s is Served(l), m is Matching(l, s)
F_NoError(l, s) == ~HasCorrupt(s) => l.err = ""
F_Records(m)    == m # {}                       \* same records, same absolute offsets, same order
F_Content(l, m) ==
  m # {} => LET x == CHOOSE y \in m : TRUE IN
    \A k \in Idx(l.got) :
      LET g == l.got[k] IN
        IF l.path = "client"
          THEN g.key = x[k].key /\ g.value = x[k].value /\ HeadersEq(g.headers, x[k].headers)
          ELSE EqUpToNil(g.key, x[k].key) /\ EqUpToNil(g.value, x[k].value) /\ HeadersEqUpToNil(g.headers, x[k].headers)
F_Timestamp(l, m) == m # {} => LET x == CHOOSE y \in m : TRUE IN \A k \in Idx(l.got) : x[k].hasTs => l.got[k].ts = x[k].ts
OffsIn(bs, P(_)) == UNION {{r.off : r \in Range(b.recs)} : b \in {x \in Range(bs) : P(x)}}
F_ControlHidden(l, s) == l.path = "client" => {g.off : g \in Range(l.got)} \cap OffsIn(s, LAMBDA b : b.control) = {}
F_CorruptHidden(l, s) == l.path = "client" => {g.off : g \in Range(l.got)} \cap OffsIn(s, LAMBDA b : b.corrupt) = {}

FailedFetch(l) ==
  LET s == Served(l)
      m == Matching(l, s) IN
  N("F_NoError", F_NoError(l, s)) \cup N("F_Records", F_Records(m)) \cup N("F_Content", F_Content(l, m))
  \cup N("F_Timestamp", F_Timestamp(l, m)) \cup N("F_ControlHidden", F_ControlHidden(l, s)) \cup N("F_CorruptHidden", F_CorruptHidden(l, s))
FetchedOK(l) == FailedFetch(l) = {}

\* generator promises: canonical payloads, offsets ascending, control/corrupt batches only on the Client.Fetch path
LogOK(l) ==
  /\ \A b \in Range(l.log) : \A r \in Range(b.recs) : Canonical(r.key) /\ Canonical(r.value) /\ r.off <= b.last
  /\ \A k \in 1..(Len(l.log) - 1) : l.log[k].last < l.log[k + 1].base
  /\ l.path # "client" => \A b \in Range(l.log) : Visible(b)

----------------------------------------------------------------------------
(* Page pool: key/value handles stay intact until released                 *)

PoolExpected(s) == IF s.field = "key" THEN PoolKey(s.part, s.off) ELSE PoolValue(s.part, s.off)
Pool_Intact(l)  == l.pool.bad = 0 /\ \A k \in Idx(l.pool.samples) : l.pool.samples[k].got = PoolExpected(l.pool.samples[k])
Pool_NoError(l) == l.pool.errors = 0 /\ l.err = ""
FailedPool(l) == N("Pool_Intact", Pool_Intact(l)) \cup N("Pool_NoError", Pool_NoError(l))
PoolRan(l) == l.pool.decodes > 0 /\ l.pool.verified > 0 /\ l.pool.held > 0

----------------------------------------------------------------------------
Failed(l) == CASE l.dir = "produce" -> FailedProduce(l)
               [] l.dir = "fetch"   -> FailedFetch(l)
               [] l.dir = "pool"    -> FailedPool(l)

Internal_LineOK ==
  Active => /\ L.harness = "" /\ L.dir \in {"produce", "fetch", "pool"}
            /\ L.dir = "produce" => \A r \in Range(L.in) : Canonical(r.key) /\ Canonical(r.value)
            /\ L.dir = "fetch" => LogOK(L)
            /\ L.dir = "pool" /\ L.pool.errors = 0 => PoolRan(L)       \* a run without errors did exercise late reads
Internal_DecodersAgree == Active /\ L.dir = "produce" => DecodersAgree(L)
Internal_CrcRange      == Active /\ L.dir = "produce" => CrcRangesAgree(L)

Count(l) ==
  [lines    |-> 1,
   produce  |-> B(l.dir = "produce"), fetch |-> B(l.dir = "fetch"), pool |-> B(l.dir = "pool"),
   entries  |-> IF l.dir = "produce" THEN Len(Ents(l)) ELSE 0,
   records  |-> IF l.dir = "produce" THEN Len(Flat(l)) ELSE IF l.dir = "fetch" THEN Len(l.got) ELSE l.pool.records,
   maxTsNotMax     |-> B(l.dir = "produce" /\ \E e \in Range(Ents(l)) : ~MaxTsIsMax(e)),
   firstTsNotFirst |-> B(l.dir = "produce" /\ \E e \in Range(Ents(l)) : ~FirstTsIsFirst(e))]
Zero == [lines |-> 0, produce |-> 0, fetch |-> 0, pool |-> 0, entries |-> 0, records |-> 0, maxTsNotMax |-> 0, firstTsNotFirst |-> 0]
Add(a, b) == [f \in DOMAIN a |-> a[f] + b[f]]

Init == i = 1 /\ nfail = 0 /\ stats = Zero
Next == /\ Active
        /\ i' = i + 1
        /\ LET f == Failed(L) IN
             /\ nfail' = nfail + B(f # {})
             /\ IF f = {} THEN TRUE ELSE PrintT(<<"C05FAIL", L.id, f>>)
        /\ stats' = Add(stats, Count(L))
Spec == Init /\ [][Next]_vars

\* the verdict: after the last line no line has a false clause
C05_AllLinesAccepted == ~Active => nfail = 0
Report == ~Active => PrintT(<<"C05STATS", stats, nfail>>)

(***************************************************************************)
(* Self-test of the judge (RecordsSelfTest.cfg): lines derived from real   *)
(* ones by a known mutation carry the clauses they must fail in `expect`.  *)
(***************************************************************************)
SelfTest == Active => Failed(L) = Range(L.expect)
=============================================================================
