------------------------------ MODULE PagePool ------------------------------
(***************************************************************************)
(* Reference-counted 64 KiB pages of protocol/buffer.go (C05: "the         *)
(* key/value bytes it hands out stay intact until released, whatever else  *)
(* is decoded meanwhile").                                                 *)
(*                                                                         *)
(*   page        refc; lives in `pool` (sync.Pool) while nobody holds it   *)
(*   pageBuffer  a list of pages it holds one reference to each, refc      *)
(*   pageRef     a sub-list of a buffer's pages with its own references,   *)
(*               released once (`once`) by Close                          *)
(*                                                                         *)
(* A hold is [p, stale].  Handing a page out again (newPage from the pool  *)
(* or a fresh allocation reusing unreachable memory) overwrites it: every  *)
(* hold that still exists on that page becomes stale, i.e. its owner now   *)
(* reads bytes of somebody else's batch.  The property is that this never  *)
(* happens to a live holder (NoStale).                                     *)
(*                                                                         *)
(* Defect = "none" is the specified behaviour.  The other values are       *)
(* deliberately broken variants used as vacuity guards: TLC must reject    *)
(* each of them.                                                           *)
(***************************************************************************)
EXTENDS Integers, Sequences, FiniteSets, TLC

CONSTANTS Pages, Buffers, Refs, MaxBufPages, Defect

ASSUME Defect \in {"none", "closeTwice", "bufferLeak", "truncateKeepsRef", "refToNoRef"}

VARIABLES refc, pool, bstate, bpages, brefc, bfam, rstate, rpages, rfam
vars == <<refc, pool, bstate, bpages, brefc, bfam, rstate, rpages, rfam>>

Fams == 1..(Cardinality(Buffers) + Cardinality(Refs))
Hold(p) == [p |-> p, stale |-> FALSE]
PagesOf(hs) == {hs[k].p : k \in 1..Len(hs)}

LiveB == {b \in Buffers : bstate[b] = "live"}
OpenR == {r \in Refs : rstate[r] = "open"}
\* holders of page p (a holder lists a page at most once)
NumHolds(p) == Cardinality({b \in LiveB : p \in PagesOf(bpages[b])}) + Cardinality({r \in OpenR : p \in PagesOf(rpages[r])})
Unreachable(p) == p \notin pool /\ NumHolds(p) = 0
UsedFams == {bfam[b] : b \in LiveB} \cup {rfam[r] : r \in OpenR}
NextFam == CHOOSE f \in Fams \ UsedFams : \A g \in Fams \ UsedFams : f <= g

TypeOK ==
  /\ refc \in [Pages -> Int] /\ pool \subseteq Pages
  /\ bstate \in [Buffers -> {"free", "live"}] /\ brefc \in [Buffers -> 0..1] /\ bfam \in [Buffers -> Fams \cup {0}]
  /\ rstate \in [Refs -> {"unused", "open", "closed"}] /\ rfam \in [Refs -> Fams \cup {0}]
  /\ \A b \in Buffers : Len(bpages[b]) <= MaxBufPages
  /\ \A r \in Refs : Len(rpages[r]) <= MaxBufPages

Init ==
  /\ refc = [p \in Pages |-> 0] /\ pool = {}
  /\ bstate = [b \in Buffers |-> "free"] /\ bpages = [b \in Buffers |-> <<>>] /\ brefc = [b \in Buffers |-> 0]
  /\ bfam = [b \in Buffers |-> 0]
  /\ rstate = [r \in Refs |-> "unused"] /\ rpages = [r \in Refs |-> <<>>] /\ rfam = [r \in Refs |-> 0]

\* every existing hold on p turns stale: the page is being overwritten for a new owner
Taint(hs, p) == [k \in 1..Len(hs) |-> IF hs[k].p = p THEN [hs[k] EXCEPT !.stale = TRUE] ELSE hs[k]]

\* page.unref of a set of pages: decrement, a count reaching zero puts the page into the pool
UnrefAll(S) ==
  /\ refc' = [p \in Pages |-> IF p \in S THEN refc[p] - 1 ELSE refc[p]]
  /\ pool' = pool \cup {p \in S : refc[p] - 1 = 0}

\* newPageBuffer
NewBuffer(b) ==
  /\ bstate[b] = "free"
  /\ bstate' = [bstate EXCEPT ![b] = "live"] /\ brefc' = [brefc EXCEPT ![b] = 1]
  /\ bpages' = [bpages EXCEPT ![b] = <<>>] /\ bfam' = [bfam EXCEPT ![b] = NextFam]
  /\ UNCHANGED <<refc, pool, rstate, rpages, rfam>>

\* pageBuffer.Write / ReadFrom needing one more page: newPage takes it from the pool (ref) or allocates it
Write(b) ==
  /\ bstate[b] = "live" /\ Len(bpages[b]) < MaxBufPages
  /\ \E p \in Pages :
       /\ \/ p \in pool /\ pool' = pool \ {p} /\ refc' = [refc EXCEPT ![p] = @ + 1]
          \/ Unreachable(p) /\ pool' = pool /\ refc' = [refc EXCEPT ![p] = 1]
       /\ bpages' = [x \in Buffers |-> IF x = b THEN Append(Taint(bpages[x], p), Hold(p)) ELSE Taint(bpages[x], p)]
       /\ rpages' = [r \in Refs |-> Taint(rpages[r], p)]
  /\ UNCHANGED <<bstate, brefc, bfam, rstate, rfam>>

\* pageBuffer.refTo: a pageRef on the pages lo..hi of the buffer (possibly none: a zero-length key)
RefTo(b, r) ==
  /\ bstate[b] = "live" /\ rstate[r] = "unused"
  /\ \E lo \in 1..(Len(bpages[b]) + 1) : \E hi \in (lo - 1)..Len(bpages[b]) :
       LET hs == SubSeq(bpages[b], lo, hi) IN
         /\ rpages' = [rpages EXCEPT ![r] = hs]
         /\ refc' = [p \in Pages |-> IF p \in PagesOf(hs) /\ Defect # "refToNoRef" THEN refc[p] + 1 ELSE refc[p]]
  /\ rstate' = [rstate EXCEPT ![r] = "open"] /\ rfam' = [rfam EXCEPT ![r] = bfam[b]]
  /\ UNCHANGED <<pool, bstate, bpages, brefc, bfam>>

\* pageBuffer.unref reaching zero: release the pages, recycle the buffer
BufferUnref(b) ==
  /\ bstate[b] = "live"
  /\ IF Defect = "bufferLeak" THEN UNCHANGED <<refc, pool>> ELSE UnrefAll(PagesOf(bpages[b]))
  /\ bstate' = [bstate EXCEPT ![b] = "free"] /\ brefc' = [brefc EXCEPT ![b] = 0]
  /\ bpages' = [bpages EXCEPT ![b] = <<>>] /\ bfam' = [bfam EXCEPT ![b] = 0]
  /\ UNCHANGED <<rstate, rpages, rfam>>

\* pageBuffer.Truncate dropping the pages after the n-th
Truncate(b) ==
  /\ bstate[b] = "live"
  /\ \E n \in 0..(Len(bpages[b]) - 1) :
       /\ IF Defect = "truncateKeepsRef" THEN UNCHANGED <<refc, pool>>
          ELSE UnrefAll(PagesOf(SubSeq(bpages[b], n + 1, Len(bpages[b]))))
       /\ bpages' = [bpages EXCEPT ![b] = SubSeq(bpages[b], 1, n)]
  /\ UNCHANGED <<bstate, brefc, bfam, rstate, rpages, rfam>>

\* pageRef.Close: releases once; a second Close changes nothing
RefClose(r) ==
  \/ /\ rstate[r] = "open"
     /\ UnrefAll(PagesOf(rpages[r]))
     /\ rstate' = [rstate EXCEPT ![r] = "closed"]
     /\ rpages' = IF Defect = "closeTwice" THEN rpages ELSE [rpages EXCEPT ![r] = <<>>]
     /\ rfam' = [rfam EXCEPT ![r] = 0]             \* the family only matters while the pageRef is open
     /\ UNCHANGED <<bstate, bpages, brefc, bfam>>
  \/ /\ rstate[r] = "closed"
     /\ IF Defect = "closeTwice" /\ rpages[r] # <<>>
          THEN UnrefAll(PagesOf(rpages[r])) /\ rpages' = [rpages EXCEPT ![r] = <<>>]
          ELSE UNCHANGED <<refc, pool, rpages>>
     /\ UNCHANGED <<bstate, bpages, brefc, bfam, rstate, rfam>>

\* the program drops a closed pageRef; a later record gets a new one
RefForget(r) ==
  /\ rstate[r] = "closed"
  /\ rstate' = [rstate EXCEPT ![r] = "unused"] /\ rpages' = [rpages EXCEPT ![r] = <<>>]
  /\ UNCHANGED <<refc, pool, bstate, bpages, brefc, bfam, rfam>>

\* sync.Pool forgets a page (garbage collection)
PoolDrop(p) ==
  /\ p \in pool /\ pool' = pool \ {p}
  /\ UNCHANGED <<refc, bstate, bpages, brefc, bfam, rstate, rpages, rfam>>

Next ==
  \/ \E b \in Buffers : NewBuffer(b) \/ Write(b) \/ BufferUnref(b) \/ Truncate(b)
  \/ \E b \in Buffers, r \in Refs : RefTo(b, r)
  \/ \E r \in Refs : RefClose(r) \/ RefForget(r)
  \/ \E p \in Pages : PoolDrop(p)
Spec == Init /\ [][Next]_vars

----------------------------------------------------------------------------
\* a page in the pool has count 0 and is held by nobody
PoolClean == \A p \in pool : refc[p] = 0 /\ NumHolds(p) = 0
\* the count of a page is the number of its holders
RefcExact == \A p \in Pages : refc[p] = NumHolds(p)
\* nobody alive reads a page that was handed out again
NoStale ==
  /\ \A b \in LiveB : \A k \in 1..Len(bpages[b]) : ~bpages[b][k].stale
  /\ \A r \in OpenR : \A k \in 1..Len(rpages[r]) : ~rpages[r][k].stale
\* holders that do not stem from the same buffer share no page
Holders == {<<"b", b>> : b \in LiveB} \cup {<<"r", r>> : r \in OpenR}
FamOf(h) == IF h[1] = "b" THEN bfam[h[2]] ELSE rfam[h[2]]
PgOf(h)  == IF h[1] = "b" THEN PagesOf(bpages[h[2]]) ELSE PagesOf(rpages[h[2]])
NoUnrelatedSharing == \A h1, h2 \in Holders : FamOf(h1) # FamOf(h2) => PgOf(h1) \cap PgOf(h2) = {}
\* Close is idempotent: a step of a closed pageRef that stays closed changes no count and no pool
CloseIdempotent ==
  [][\A r \in Refs : (rstate[r] = "closed" /\ rstate'[r] = "closed" /\ UNCHANGED <<bstate, bpages, rstate>> /\ rpages' # rpages)
        => UNCHANGED <<refc, pool>>]_vars
Symm == Permutations(Pages) \cup Permutations(Buffers) \cup Permutations(Refs)
=============================================================================
