SPECIFICATION Spec
CONSTANTS
  WSizes = {1, 1023, 1024, 31743, 31744, 32767, 32768, 32769, 65536, 70000}
  RSizes = {1, 15, 16, 17, 4096, 32768, 100000}
  MaxWrites = 3
  MaxFlushes = 1
  Budgets <- BudgetsAll
  MaxSingles = 2
  ReadWrites = 1
  RefTotals = {1, 1024, 40000, 70000, 140000}
  MaxTruncItem = 5
INVARIANTS TypeOK FrameLens RoundTrip UnframedReadable HistoryFree
CHECK_DEADLOCK FALSE
