SPECIFICATION Spec
CONSTANTS
  WSizes = {1, 1023, 1024, 31743, 31744, 32767, 32768, 32769, 65536, 70000}
  RSizes = {1, 15, 16, 17, 4096, 32768, 100000}
  MaxWrites = 3
  MaxFlushes = 1
  Budgets <- BudgetsSome
  MaxSingles = 0
  ReadWrites = 0
  RefTotals = {}
  MaxTruncItem = 0
  RefBlocks <- BlocksJava
  Parts_ <- PartsWriter
INVARIANTS TypeOK FrameLens RoundTrip UnframedReadable HistoryFree
CHECK_DEADLOCK FALSE
