------------------------------- MODULE Codecs -------------------------------
(***************************************************************************)
(* The state machine of engine E11 (C16): one user at a time takes a       *)
(* pooled or a new codec object, uses it on a stream and gives it back     *)
(* (Close) or drops it (abandon).  The operators are those of CodecsOps.   *)
(*                                                                         *)
(* The object in use is run side by side with a `shadow`: a brand new      *)
(* object that receives the same operations.  HistoryFree says that what   *)
(* the user can observe (bytes accepted, the payload a decoder gets from   *)
(* the output and its well-formedness; for readers every result) is the    *)
(* same for both, whatever the pooled object did before -- including uses  *)
(* that failed or were abandoned.  The exact cut of a framed stream into   *)
(* blocks is NOT part of the observable: a framed writer whose input       *)
(* buffer was doubled by an earlier unframed use (the capacity survives    *)
(* Reset) flushes at the larger capacity; the stream is a valid xerial     *)
(* stream all the same (BlocksWithin32K below is deliberately not an       *)
(* invariant; the engine reports that TLC finds it violated).              *)
(*                                                                         *)
(* When a use ends, its history variables are dropped and only the pools   *)
(* (the residual states of released objects) remain, so the number of      *)
(* reuses is unbounded although the state space is finite.                 *)
(***************************************************************************)
EXTENDS CodecsOps

CONSTANTS WSizes,        \* sizes of a Write
          RSizes,        \* buffer sizes of a Read
          MaxWrites,     \* Write calls per use
          MaxFlushes,    \* explicit Flush calls per use
          Budgets,       \* sink budgets (-1: never fails)
          MaxSingles,    \* single Read calls before the drain
          ReadWrites,    \* outputs of uses with at most this many Writes are read interactively
          RefTotals,     \* payload sizes of reference-encoded streams
          MaxTruncItem,  \* truncations / source errors are placed at items 1..MaxTruncItem
          RefBlocks,     \* block sizes of reference xerial streams (the Java client: 32 KiB)
          Parts_         \* which of the three machines run: subset of {"snappy", "reader", "opaque"}

VARIABLES wpool, rpool, opool, ph, use
vars == <<wpool, rpool, opool, ph, use>>

Nil == [k |-> "none"]

Init == wpool = {} /\ rpool = {} /\ opool = {} /\ ph = "idle" /\ use = Nil

-----------------------------------------------------------------------------
(* snappy writer use *)
StartW ==
  /\ ph = "idle" /\ "snappy" \in Parts_
  /\ \E framed \in BOOLEAN, budget \in Budgets, o \in wpool \cup {NewXW(TRUE)} :
       /\ wpool' = wpool \ {o}                                   \* Acquire: pool | new
       /\ use' = [w |-> XWReset(o, framed), sh |-> NewXW(framed), \* Reset; the shadow is new
                  s |-> NewSink(budget), shs |-> NewSink(budget),
                  nw |-> 0, nf |-> 0, tot |-> 0, same |-> TRUE, failed |-> FALSE]
  /\ ph' = "w" /\ UNCHANGED <<rpool, opool>>

WStep(a, b, dw, df) ==
  /\ use' = [use EXCEPT !.w = a.w, !.s = a.s, !.sh = b.w, !.shs = b.s, !.nw = @ + dw, !.nf = @ + df,
                        !.tot = @ + a.ret, !.failed = a.err,
                        !.same = @ /\ (use.s.budget # -1 \/ (a.ret = b.ret /\ a.err = b.err))]
  /\ UNCHANGED <<wpool, rpool, opool, ph>>

WWrite ==
  /\ ph = "w" /\ ~use.failed /\ use.nw < MaxWrites
  /\ \E n \in WSizes : WStep(XWWrite(use.w, use.s, n), XWWrite(use.sh, use.shs, n), 1, 0)

(* Flush is not part of io.WriteCloser, the type the Codec interface hands out; it is reachable by a type    *)
(* assertion.  On a framed stream it only closes the current block.  On an unframed stream it would emit a  *)
(* raw block of its own (the stream is then two concatenated blocks, not a snappy block): out of contract,  *)
(* not modelled as a user action.                                                                           *)
WFlush ==
  /\ ph = "w" /\ ~use.failed /\ use.nf < MaxFlushes /\ use.w.len > 0 /\ use.w.framed
  /\ WStep(XWApply(use.w, use.s, [op |-> "flush"]), XWApply(use.sh, use.shs, [op |-> "flush"]), 0, 1)

(* Close = Flush, Reset(nil), Put.  Also after an error. *)
WClose ==
  /\ ph = "w"
  /\ LET a == XWFlush(use.w, use.s)
         b == XWFlush(use.sh, use.shs)
     IN /\ wpool' = {XWReset(a.w, TRUE)}                           \* Release (sync.Pool may drop what it held)
        /\ IF use.failed \/ a.err
           THEN ph' = "idle" /\ use' = Nil
           ELSE /\ ph' = "wdone"
                /\ use' = [items |-> a.s.items, shitems |-> b.s.items, total |-> use.tot, framed |-> use.w.framed,
                           nw |-> use.nw, same |-> use.same, clean |-> use.s.budget = -1]
  /\ UNCHANGED <<rpool, opool>>

WAbandon == ph = "w" /\ ph' = "idle" /\ use' = Nil /\ UNCHANGED <<wpool, rpool, opool>>   \* never Put back

(* a stream from a reference producer instead *)
StartRef ==
  /\ ph = "idle" /\ "reader" \in Parts_
  /\ \E t \in RefTotals, framed \in BOOLEAN, bsz \in RefBlocks :
       LET items == IF framed THEN XerialStream(t, bsz) ELSE RawStream(t) IN
       use' = [items |-> items, shitems |-> items, total |-> t, framed |-> framed, nw |-> 0, same |-> TRUE, clean |-> FALSE]
  /\ ph' = "wdone" /\ UNCHANGED <<wpool, rpool, opool>>

Forget == ph = "wdone" /\ ph' = "idle" /\ use' = Nil /\ UNCHANGED <<wpool, rpool, opool>>

-----------------------------------------------------------------------------
(* snappy reader use on the stream just produced, possibly cut / failing *)
Parts(it) == IF it.k = "hdr" THEN {"none", "hdr_lt8", "hdr_ge8"} ELSE {"none", "mid"}
Cuts(items) ==
  {[item |-> 0, part |-> "none", kind |-> "eof"], [item |-> Len(items) + 1, part |-> "none", kind |-> "ioerr"]}
  \cup {[item |-> i, part |-> p, kind |-> k] : i \in 1..Min(Len(items), MaxTruncItem), p \in {"none", "mid", "hdr_lt8", "hdr_ge8"}, k \in {"eof", "ioerr"}}
SrcOf(items, c) == IF c.item = 0 THEN Whole(items) ELSE Source(items, c.item - 1, c.part, c.kind)

StartR ==
  /\ ph = "wdone" /\ use.nw <= ReadWrites /\ "reader" \in Parts_
  /\ \E c \in Cuts(use.items), o \in rpool \cup {NewXR} :
       /\ c.item \in 1..Len(use.items) => c.part \in Parts(use.items[c.item])
       /\ rpool' = rpool \ {o}
       /\ use' = [r |-> XRReset(o), sh |-> NewXR, src |-> SrcOf(use.items, c), shsrc |-> SrcOf(use.items, c),
                  total |-> use.total, valid |-> c.item = 0, same |-> TRUE, contig |-> TRUE, next |-> 0,
                  singles |-> 0, fin |-> "ok"]
  /\ ph' = "r" /\ UNCHANGED <<wpool, opool>>

RStep(op) ==
  LET a == XRApply(use.r, use.src, op, use.next)
      b == XRApply(use.sh, use.shsrc, op, use.next)
  IN use' = [use EXCEPT !.r = a.r, !.src = a.src, !.sh = b.r, !.shsrc = b.src,
                        !.same = @ /\ a.ret = b.ret /\ a.runs = b.runs /\ a.res = b.res,
                        !.contig = @ /\ a.contig, !.next = a.next, !.fin = a.res,
                        !.singles = @ + (IF op.op = "read" THEN 1 ELSE 0)]

ROp ==
  /\ ph = "r" /\ use.fin = "ok"
  /\ \/ use.singles < (IF use.valid THEN MaxSingles ELSE 1) /\ \E bs \in RSizes : RStep([op |-> "read", n |-> bs])
     \/ \E bs \in RSizes : RStep([op |-> "drain", n |-> bs])
     \/ RStep([op |-> "writeto", n |-> 0])
  /\ UNCHANGED <<wpool, rpool, opool, ph>>

RClose ==                                                        \* at any point of the stream
  /\ ph = "r" /\ rpool' = {XRReset(use.r)} /\ ph' = "idle" /\ use' = Nil /\ UNCHANGED <<wpool, opool>>
RAbandon == ph = "r" /\ ph' = "idle" /\ use' = Nil /\ UNCHANGED <<wpool, rpool, opool>>

-----------------------------------------------------------------------------
(* gzip / lz4 / zstd objects.  Close gives the object back after a Reset   *)
(* on a nil / empty stream; what state that leaves inside the library is   *)
(* not known here ("clean" or "err"): the next Acquire resets again.       *)
(* gzip.NewReader reads the gzip header inside Reset: when that fails the  *)
(* pooled object goes straight back and the caller gets an error reader.   *)
OStart ==
  /\ ph = "idle" /\ "opaque" \in Parts_
  /\ \E c \in OpaqueCodecs, kind \in {"w", "r"} :
       \E o \in {x \in opool : x.codec = c /\ x.kind = kind} \cup {NewOp(c, kind)} :
          \/ /\ opool' = opool \ {o}
             /\ use' = [o |-> OpReset(o), start |-> OpReset(o).dirty] /\ ph' = "o"
          \/ /\ c = "gzip" /\ kind = "r" /\ o \in opool
             /\ opool' = (opool \ {o}) \cup {[o EXCEPT !.dirty = "err"]}
             /\ UNCHANGED <<use, ph>>
  /\ UNCHANGED <<wpool, rpool>>
OUse == ph = "o" /\ \E out \in {"ok", "err"} : use' = [use EXCEPT !.o = OpUse(@, out)] /\ UNCHANGED <<wpool, rpool, opool, ph>>
OClose ==
  /\ ph = "o" /\ \E d \in {"clean", "err"} : opool' = {x \in opool : x.codec # use.o.codec \/ x.kind # use.o.kind} \cup {[use.o EXCEPT !.dirty = d]}
  /\ ph' = "idle" /\ use' = Nil /\ UNCHANGED <<wpool, rpool>>
OAbandon == ph = "o" /\ ph' = "idle" /\ use' = Nil /\ UNCHANGED <<wpool, rpool, opool>>

Next == StartW \/ WWrite \/ WFlush \/ WClose \/ WAbandon \/ StartRef \/ Forget
        \/ StartR \/ ROp \/ RClose \/ RAbandon \/ OStart \/ OUse \/ OClose \/ OAbandon
Spec == Init /\ [][Next]_vars

-----------------------------------------------------------------------------
(* Invariants *)
TypeOK ==
  /\ ph \in {"idle", "w", "wdone", "r", "o"}
  /\ \A o \in wpool : o.len = 0 /\ o.nb = 0 /\ o.base = 0 /\ o.cap >= Block
  /\ \A o \in rpool : o.hdr = "zero" /\ o.nb = 0 /\ o.coff = 0 /\ o.cur = NoBlk

(* every frame length prefix is the length of exactly the block that       *)
(* follows, the header comes once and first; an unframed stream is one     *)
(* raw block -- at every point of an unfailed stream                       *)
FrameLens ==
  /\ ph = "w" /\ ~use.failed => WellFormed(use.s.items, use.w.framed) /\ use.w.base + use.w.len = use.tot
  /\ ph = "wdone" => WellFormed(use.items, use.framed)

(* bytes read = bytes written: the completed output holds the accepted     *)
(* payload in order, and a reader gets exactly that with every buffer size *)
(* and with WriteTo; interactively: every result continues exactly where   *)
(* the previous one ended, a complete stream never fails and ends at the   *)
(* end of the payload                                                      *)
RoundTrip ==
  /\ ph = "wdone" => /\ Covered(use.items) = use.total
                     /\ \A bs \in RSizes : DrainsTo(use.items, bs, use.total)
                     /\ WritesTo(use.items, use.total)
  /\ ph = "r" => /\ use.contig /\ use.next <= use.total
                 /\ use.valid => use.fin # "err" /\ (use.fin = "eof" => use.next = use.total)

(* a stream without the magic header is read as one raw block *)
UnframedReadable ==
  ph = "wdone" /\ ~use.framed /\ use.total > 0 =>
      use.items = RawStream(use.total) /\ XRRead(NewXR, Whole(use.items), use.total).n = use.total

(* the observable result of a use does not depend on earlier uses of the object *)
HistoryFree ==
  /\ ph = "w" => use.same
  /\ ph = "wdone" /\ use.clean => use.same /\ Covered(use.shitems) = Covered(use.items) /\ WellFormed(use.shitems, use.framed)
  /\ ph = "r" => use.same
  /\ ph = "o" => use.start = "clean"

(* sets for the configuration files (a .cfg cannot write -1) *)
BudgetsAll == {-1, 0, 1, 2, 3, 5}
BudgetsNone == {-1}
BudgetsSome == {-1, 0, 2, 3}
PartsWriter == {"snappy"}
PartsReader == {"snappy", "reader"}
PartsOpaque == {"opaque"}
BlocksJava == {Block}
BlocksAny == {Block, 2 * Block, 4 * Block, 20000}

(* informational: FALSE is reachable -- a framed block can exceed 32 KiB of input after an unframed use grew the buffer *)
BlocksWithin32K == ph = "wdone" => MaxBlock(use.items) <= Block \/ ~use.framed
=============================================================================
