---------------------------- MODULE CodecsTrace ----------------------------
(***************************************************************************)
(* Judge for histories recorded from the REAL codecs (harness/cdriver).    *)
(*                                                                         *)
(* Lines: {"ev":"hist"} starts a history (the driver emptied the pools),   *)
(* {"ev":"use"} is one complete use of a reader or writer with what was    *)
(* observed at every operation, the structure of the output as parsed by   *)
(* the driver's own framer and the verdicts of the reference decoder;      *)
(* {"ev":"conc"} is one goroutine of a concurrent run.                     *)
(*                                                                         *)
(* Every line is judged with the definitions of CodecsOps:                 *)
(*   property predicates (a false one is a violation of C16):              *)
(*     FrameLens    header once and first, every prefix = length of its    *)
(*                  block, every block decodes, nothing left over          *)
(*     RefReadable  the reference decoder of the format accepted the       *)
(*                  complete output and returned the payload; for snappy   *)
(*                  (every compression level, framed and unframed) the     *)
(*                  reference decoder is the driver's STRICT block decoder *)
(*                  (snappy elements only, copy offsets 1..produced): its  *)
(*                  verdict on every block the writer emitted is e.strict  *)
(*     RoundTrip    all bytes accepted; reference decoder / library reader *)
(*                  return exactly the payload; a complete stream ends     *)
(*                  with EOF and never fails                               *)
(*     HistoryFree  the same use (same key) observed after different       *)
(*                  prefixes gives the same observable result              *)
(*     Concurrent   every goroutine's own round trips succeeded            *)
(*     Crash        the codec panicked (no result at all)                  *)
(*   conformance (class "Model": the code left the model; not a verdict    *)
(*   about the property): per operation the values returned, the writes    *)
(*   to the sink, the cut into blocks, the result of every Read, computed  *)
(*   by running the operators on the object the model tracks under the     *)
(*   identity the driver observed (with the capacities it kept).           *)
(***************************************************************************)
EXTENDS CodecsOps, Json, IOUtils

Lines == ndJsonDeserialize(IOEnv.TRACE)

VARIABLES l, wobjs, robjs, base
tvars == <<l, wobjs, robjs, base>>

Put(f, k, v) == [x \in DOMAIN f \cup {k} |-> IF x = k THEN v ELSE f[x]]
Drop(f, k) == [x \in DOMAIN f \ {k} |-> f[x]]
HasOp(ops, name) == \E i \in DOMAIN ops : ops[i].op = name
SumSeq(s) == LET RECURSIVE Sm(_) Sm(i) == IF i = 0 THEN 0 ELSE s[i] + Sm(i - 1) IN Sm(Len(s))

-----------------------------------------------------------------------------
(* writer uses *)
RECURSIVE RunW(_, _, _, _, _)
RunW(w, s, ops, i, acc) ==
  IF i > Len(ops) THEN [w |-> w, s |-> s, res |-> acc]
  ELSE LET a == XWApply(w, s, ops[i]) IN
       RunW(a.w, a.s, ops, i + 1,
            Append(acc, [ret |-> a.ret, err |-> a.err, items |-> SubSeq(a.s.items, Len(s.items) + 1, Len(a.s.items))]))

FirstBad(res, isbad(_)) == IF \E i \in DOMAIN res : isbad(res[i]) THEN CHOOSE i \in DOMAIN res : isbad(res[i]) /\ \A j \in 1..(i - 1) : ~isbad(res[j]) ELSE Len(res) + 1

WOpMatch(o, x) ==
  /\ o.ret = x.ret /\ o.err = x.err /\ Len(o.uw) = Len(x.items)
  /\ \A j \in DOMAIN x.items : (x.items[j].k = "hdr" => o.uw[j] = 16) /\ (x.items[j].k = "len" => o.uw[j] = 4)

Requested(ops) == SumSeq([i \in DOMAIN ops |-> IF ops[i].op \in {"write", "readfrom"} THEN ops[i].n ELSE 0])
Complete(e) == e.closed /\ ~e.failed /\ e.budget = -1

W_FrameLens(e) ==
  (e.codec = "snappy" /\ Complete(e)) =>
     /\ e.rest = 0
     /\ \A i \in DOMAIN e.frames : e.frames[i][1] = e.frames[i][2] /\ e.frames[i][3] >= 0
     /\ IF e.mode = "framed" THEN e.hdr = (e.outlen > 0) ELSE ~e.hdr /\ Len(e.frames) <= 1
W_RoundTrip(e) ==
  Complete(e) => /\ \A i \in DOMAIN e.ops : ~e.ops[i].err /\ (e.ops[i].op \in {"write", "readfrom"} => e.ops[i].ret = e.ops[i].n)
                 /\ e.total = Requested(e.ops)
                 /\ e.refok /\ e.eq /\ e.declen = e.total
(* "the compressed stream is readable by the reference decoder of that format", for whatever level the codec  *)
(* value has (e.level; "" is the default).  e.strict[i] is the strict snappy block decoder's verdict on the     *)
(* i-th block of the output (framed: the block of the i-th xerial frame; unframed: the whole stream):           *)
(* ok = every element is a snappy element (an S2 repeat, i.e. a copy with offset 0, is not), n = bytes          *)
(* produced = the announced length.  The blocks together must be the accepted payload (e.eq compares the bytes).*)
W_RefReadable(e) ==
  Complete(e) =>
     /\ e.refok /\ e.eq /\ e.declen = e.total
     /\ e.codec = "snappy" =>
          /\ e.refdec = "snappy-block-strict"
          /\ Len(e.strict) = Len(e.frames)
          /\ \A i \in DOMAIN e.strict : e.strict[i].ok /\ e.strict[i].n >= 0 /\ e.strict[i].n = e.frames[i][3]
          /\ SumSeq([i \in DOMAIN e.strict |-> e.strict[i].n]) = e.total
(* what a user of the writer can observe: the values returned, and -- once the stream is complete -- what a   *)
(* decoder makes of the output.  The part of an abandoned (never closed) stream that happens to have reached  *)
(* the sink already is not an observable: it depends on the cut into blocks.                                  *)
W_Obs(e) ==
  LET rets == [i \in DOMAIN e.ops |-> <<e.ops[i].ret, e.ops[i].err>>] IN
  IF e.closed THEN [rets |-> rets, refok |-> e.refok, eq |-> e.eq, declen |-> e.declen, total |-> e.total]
  ELSE [rets |-> rets, refok |-> TRUE, eq |-> TRUE, declen |-> 0, total |-> e.total]

W_Model(e) ==
  LET framed == e.mode = "framed"
      w0 == IF e.obj \in DOMAIN wobjs THEN XWReset(wobjs[e.obj], framed) ELSE NewXW(framed)
      m  == RunW(w0, NewSink(e.budget), e.ops, 1, <<>>)
      fb == FirstBad(m.res, LAMBDA x : x.err)
      blks == Blocks(m.s.items)
  IN [ok |-> /\ \A i \in DOMAIN e.ops : i <= fb => WOpMatch(e.ops[i], m.res[i])
             /\ fb > Len(e.ops) =>
                  /\ e.hdr = (m.s.items # <<>> /\ m.s.items[1].k = "hdr")
                  /\ Len(e.frames) = Len(blks) /\ \A i \in DOMAIN blks : e.frames[i][3] = blks[i].n,
      w |-> m.w, maxblk |-> MaxBlock(m.s.items)]

-----------------------------------------------------------------------------
(* reader uses *)
RECURSIVE RunR(_, _, _, _, _, _)
RunR(r, src, ops, i, next, acc) ==
  IF i > Len(ops) THEN [r |-> r, res |-> acc]
  ELSE LET a == XRApply(r, src, ops[i], next) IN
       RunR(a.r, a.src, ops, i + 1, a.next, Append(acc, [ret |-> a.ret, runs |-> a.runs, res |-> a.res, contig |-> a.contig]))

Valid(e) == e.stream.trunc.kind = "none" /\ e.stream.srcok     \* complete output of a writer use that closed without error, or a reference stream
R_RoundTrip(e) ==
  /\ e.eq /\ e.total <= e.plen
  /\ \A i \in DOMAIN e.ops : e.ops[i].op \in {"read", "drain"} => e.ops[i].ret <= e.ops[i].n * e.ops[i].calls
  /\ Valid(e) => /\ \A i \in DOMAIN e.ops : e.ops[i].res \notin {"err", "stuck"}
                 /\ e.final = "eof" => e.total = e.plen
                 /\ (\E i \in DOMAIN e.ops : e.ops[i].op \in {"drain", "writeto"}) => e.final = "eof"
R_Obs(e) == [total |-> e.total, eq |-> e.eq, final |-> e.final]

R_Model(e) ==
  LET items == StreamOf(e.stream.hdr, e.stream.blocks)
      t  == e.stream.trunc
      src == IF t.kind = "none" THEN Whole(items) ELSE Source(items, t.item - 1, t.part, t.kind)
      r0 == IF e.obj \in DOMAIN robjs THEN XRReset(robjs[e.obj]) ELSE NewXR
      m  == RunR(r0, src, e.ops, 1, 0, <<>>)
      fb == FirstBad(m.res, LAMBDA x : x.res = "err")
  IN [ok |-> \A i \in DOMAIN e.ops : i <= fb =>
                 /\ e.ops[i].ret = m.res[i].ret /\ e.ops[i].res = m.res[i].res /\ e.ops[i].runs = m.res[i].runs
                 /\ m.res[i].contig,
      r |-> m.r]

-----------------------------------------------------------------------------
Classes(e) ==
  IF e.ev = "conc" THEN (IF e.fails = 0 /\ e.iters > 0 THEN {} ELSE {"Concurrent"})
  ELSE IF e.ev = "crash" THEN {"Crash"}          \* the codec panicked inside this use
  ELSE IF e.ev # "use" THEN {}
  ELSE LET hf == (e.kind = "r" \/ e.budget = -1) /\ e.key \in DOMAIN base
           obs == IF e.kind = "w" THEN W_Obs(e) ELSE R_Obs(e)
       IN (IF hf /\ base[e.key] # obs THEN {"HistoryFree"} ELSE {})
          \cup (IF e.kind = "w"
                THEN (IF W_FrameLens(e) THEN {} ELSE {"FrameLens"}) \cup (IF W_RoundTrip(e) THEN {} ELSE {"RoundTrip"})
                     \cup (IF W_RefReadable(e) THEN {} ELSE {"RefReadable"})
                     \cup (IF e.codec = "snappy" /\ ~W_Model(e).ok THEN {"Model"} ELSE {})
                ELSE (IF R_RoundTrip(e) THEN {} ELSE {"RoundTrip"})
                     \cup (IF e.codec = "snappy" /\ ~R_Model(e).ok THEN {"Model"} ELSE {}))

Report(e, cs) ==
  /\ \A c \in cs : PrintT(<<"MISMATCH", l, c>>)
  /\ (e.ev = "use" /\ e.kind = "w" /\ e.codec = "snappy") => PrintT(<<"MAXBLOCK", l, W_Model(e).maxblk>>)
  /\ l = Len(Lines) => PrintT(<<"JUDGED", l>>)

Init == l = 1 /\ wobjs = <<>> /\ robjs = <<>> /\ base = <<>>

Step(e) ==
  /\ Report(e, Classes(e))
  /\ CASE e.ev = "hist" -> wobjs' = <<>> /\ robjs' = <<>> /\ UNCHANGED base
       [] e.ev = "use" ->
            /\ base' = IF (e.kind = "r" \/ e.budget = -1) /\ e.key \notin DOMAIN base
                       THEN Put(base, e.key, IF e.kind = "w" THEN W_Obs(e) ELSE R_Obs(e)) ELSE base
            /\ IF e.codec # "snappy" THEN UNCHANGED <<wobjs, robjs>>
               ELSE IF e.kind = "w"
               THEN /\ wobjs' = IF HasOp(e.ops, "close") THEN Put(wobjs, e.obj, XWReset(W_Model(e).w, TRUE)) ELSE Drop(wobjs, e.obj)
                    /\ UNCHANGED robjs
               ELSE /\ robjs' = IF HasOp(e.ops, "close") THEN Put(robjs, e.obj, XRReset(R_Model(e).r)) ELSE Drop(robjs, e.obj)
                    /\ UNCHANGED wobjs
       [] OTHER -> UNCHANGED <<wobjs, robjs, base>>

Next == l <= Len(Lines) /\ l' = l + 1 /\ Step(Lines[l])
Spec == Init /\ [][Next]_tvars

Consumed == TLCGet("stats").diameter = Len(Lines) + 1
=============================================================================
