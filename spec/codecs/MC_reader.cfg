SPECIFICATION Spec
CONSTANTS
  WSizes = {1, 1024, 32768, 32769, 70000}
  RSizes = {1, 15, 16, 17, 4096, 32768, 100000}
  MaxWrites = 1
  MaxFlushes = 0
  Budgets <- BudgetsNone
  MaxSingles = 2
  ReadWrites = 1
  RefTotals = {1, 1024, 40000, 70000, 140000}
  MaxTruncItem = 5
  RefBlocks <- BlocksAny
  Parts_ <- PartsReader
INVARIANTS TypeOK FrameLens RoundTrip UnframedReadable HistoryFree
CHECK_DEADLOCK FALSE
