SPECIFICATION Spec
CONSTANTS
  WSizes = {1}
  RSizes = {1}
  MaxWrites = 0
  MaxFlushes = 0
  Budgets <- BudgetsNone
  MaxSingles = 0
  ReadWrites = 0
  RefTotals = {}
  MaxTruncItem = 0
  RefBlocks <- BlocksJava
  Parts_ <- PartsOpaque
INVARIANTS TypeOK HistoryFree
CHECK_DEADLOCK FALSE
