------------------------------ MODULE CodecsOps ------------------------------
(***************************************************************************)
(* Engine E11 (property C16): the compression codecs of kafka-go.          *)
(*                                                                         *)
(* Compression itself is abstract: a block of n payload bytes starting at  *)
(* payload offset off compresses to an opaque token C(off, n); only        *)
(* lengths and identities matter.  Modelled is everything around it:       *)
(*   (i)   the xerial writer (compress/snappy/xerial.go, xerialWriter):    *)
(*         input buffer fill level and capacity, the flush rule of Write / *)
(*         ReadFrom, Flush, Close; framed output = 16-byte header once,    *)
(*         then [4-byte length][block]*; unframed = one raw block at Close *)
(*   (ii)  the xerial reader (xerialReader): header detection on the first *)
(*         16 bytes only, framed chunk loop, unframed slurp, Read(buf)     *)
(*         with the direct-decode shortcut, WriteTo                        *)
(*   (iii) pooled objects: Acquire (pool | new) -> Reset -> use* ->        *)
(*         (error)? -> Close -> Release, with the residual state an object *)
(*         keeps across Reset as variables (snappy: capacities of the      *)
(*         input / output buffers; gzip, lz4, zstd: internal state         *)
(*         abstracted as `dirty`).                                         *)
(*                                                                         *)
(* This module holds the operators: pure functions on records.  The state  *)
(* machine and its invariants are in Codecs.tla, the judge for histories   *)
(* recorded from the real codecs in CodecsTrace.tla; both use these        *)
(* definitions and nothing else.                                           *)
(***************************************************************************)
EXTENDS Integers, Sequences, FiniteSets, TLC

Block == 32768        \* defaultBufferSize
Slack == 1024         \* fullEnough: cap - len < 1024
Min(a, b) == IF a < b THEN a ELSE b

-----------------------------------------------------------------------------
(* Stream items.  "hdr" is the 16-byte magic header, "len" a 4-byte        *)
(* big-endian prefix whose value is the length of C(off, n), "blk" is      *)
(* C(off, n) itself.                                                       *)
Hdr == [k |-> "hdr", off |-> 0, n |-> 0]
LenItem(off, n) == [k |-> "len", off |-> off, n |-> n]
BlkItem(off, n) == [k |-> "blk", off |-> off, n |-> n]

(* The underlying io.Writer: `budget` calls succeed (-1: all of them), the *)
(* next one fails without taking a byte.                                   *)
NewSink(budget) == [items |-> <<>>, budget |-> budget]
SinkWrite(s, it) ==
  IF s.budget = 0 THEN [s |-> s, ok |-> FALSE]
  ELSE [s |-> [items |-> Append(s.items, it), budget |-> IF s.budget > 0 THEN s.budget - 1 ELSE s.budget], ok |-> TRUE]

-----------------------------------------------------------------------------
(* (i) xerialWriter.  cap / len: capacity and fill of x.input; base: the   *)
(* payload offset of input[0]; nb: number of items written to the sink in  *)
(* this stream (stands for x.nbytes: zero iff nothing was written);        *)
(* ocap: 0 while x.output was never allocated.  A new object allocates     *)
(* its 32 KiB input buffer on the first Write; nothing observes the        *)
(* difference, so cap starts at Block.                                     *)
NewXW(framed) == [cap |-> Block, len |-> 0, base |-> 0, nb |-> 0, framed |-> framed, ocap |-> 0]

(* Reset (at Close and again in NewWriter) + the assignment of `framed` in *)
(* NewWriter.  The capacities survive: that is the residual state.         *)
XWReset(w, framed) == [w EXCEPT !.len = 0, !.base = 0, !.nb = 0, !.framed = framed]

RECURSIVE EmitAll(_, _, _)
EmitAll(nb, s, items) ==
  IF items = <<>> THEN [nb |-> nb, s |-> s, err |-> FALSE]
  ELSE LET r == SinkWrite(s, Head(items)) IN
       IF ~r.ok THEN [nb |-> nb, s |-> s, err |-> TRUE]
       ELSE EmitAll(nb + 1, r.s, Tail(items))

(* Flush: nothing when the buffer is empty; else the buffer is encoded and *)
(* emptied, and header (first flush of a framed stream), prefix (framed)   *)
(* and block are written in that order until a write fails.                *)
XWFlush(w, s) ==
  IF w.len = 0 THEN [w |-> w, s |-> s, err |-> FALSE]
  ELSE LET items == (IF w.framed /\ w.nb = 0 THEN <<Hdr>> ELSE <<>>)
                    \o (IF w.framed THEN <<LenItem(w.base, w.len)>> ELSE <<>>)
                    \o <<BlkItem(w.base, w.len)>>
           e == EmitAll(w.nb, s, items)
       IN [w |-> [w EXCEPT !.len = 0, !.base = w.base + w.len, !.nb = e.nb, !.ocap = 1], s |-> e.s, err |-> e.err]

(* Write(b), len(b) = rem: copy what fits; a framed writer flushes as soon *)
(* as fewer than Slack bytes are free; a full (unframed) buffer doubles.   *)
RECURSIVE XWWriteLoop(_, _, _, _)
XWWriteLoop(w, s, rem, acc) ==
  IF rem = 0 THEN [w |-> w, s |-> s, ret |-> acc, err |-> FALSE]
  ELSE LET w0 == IF w.len = w.cap THEN [w EXCEPT !.cap = 2 * @] ELSE w
           c  == Min(w0.cap - w0.len, rem)
           w1 == [w0 EXCEPT !.len = @ + c]
       IN IF w1.framed /\ w1.cap - w1.len < Slack
          THEN LET f == XWFlush(w1, s) IN
               IF f.err THEN [w |-> f.w, s |-> f.s, ret |-> acc + c, err |-> TRUE]
               ELSE XWWriteLoop(f.w, f.s, rem - c, acc + c)
          ELSE XWWriteLoop(w1, s, rem - c, acc + c)
XWWrite(w, s, n) == XWWriteLoop(w, s, n, 0)

(* ReadFrom(r) where r hands out the chunks one Read at a time (each Read  *)
(* is limited by the free space): the same cuts as Write of every chunk.   *)
RECURSIVE XWReadFrom(_, _, _, _)
XWReadFrom(w, s, chunks, acc) ==
  IF chunks = <<>> THEN [w |-> w, s |-> s, ret |-> acc, err |-> FALSE]
  ELSE LET a == XWWrite(w, s, Head(chunks)) IN
       IF a.err THEN [w |-> a.w, s |-> a.s, ret |-> acc + a.ret, err |-> TRUE]
       ELSE XWReadFrom(a.w, a.s, Tail(chunks), acc + a.ret)

(* One operation of a writer use.  op.op: "write" (op.n bytes), "flush",   *)
(* "readfrom" (op.chunks), "close" (= Flush), "abandon".                   *)
XWApply(w, s, op) ==
  CASE op.op = "write" -> XWWrite(w, s, op.n)
    [] op.op = "readfrom" -> XWReadFrom(w, s, op.chunks, 0)
    [] op.op \in {"flush", "close"} -> LET f == XWFlush(w, s) IN [w |-> f.w, s |-> f.s, ret |-> 0, err |-> f.err]
    [] OTHER -> [w |-> w, s |-> s, ret |-> 0, err |-> FALSE]

(* Structure predicates on an output (sequence of items).                  *)
Blocks(items) == SelectSeq(items, LAMBDA it : it.k = "blk")
RECURSIVE CoveredFrom(_, _)
CoveredFrom(blks, at) ==        \* the blocks are the payload bytes at, at+1, ... in order; result: end offset or -1
  IF blks = <<>> THEN at
  ELSE IF Head(blks).off = at /\ Head(blks).n > 0 THEN CoveredFrom(Tail(blks), at + Head(blks).n) ELSE -1
Covered(items) == CoveredFrom(Blocks(items), 0)

(* FrameLens: header exactly once, at the start; then (prefix, block)      *)
(* pairs in which the prefix is the length of exactly that block.          *)
FramedOK(items) ==
  \/ items = <<>>
  \/ /\ items[1] = Hdr
     /\ Len(items) % 2 = 1
     /\ \A i \in 2..Len(items) :
          IF i % 2 = 0 THEN items[i].k = "len" /\ items[i + 1] = BlkItem(items[i].off, items[i].n)
          ELSE items[i].k = "blk"
UnframedOK(items) == Len(items) <= 1 /\ \A i \in DOMAIN items : items[i].k = "blk"
WellFormed(items, framed) == IF framed THEN FramedOK(items) ELSE UnframedOK(items)
MaxBlock(items) == LET b == Blocks(items) IN IF b = <<>> THEN 0 ELSE CHOOSE m \in {b[i].n : i \in DOMAIN b} : \A i \in DOMAIN b : b[i].n <= m

-----------------------------------------------------------------------------
(* (ii) xerialReader.                                                      *)
(* The source: items, of which the first `avail` are complete; `part` says *)
(* whether bytes of the next item follow ("none": no; "mid": some;         *)
(* "hdr_lt8" / "hdr_ge8": fewer / at least 8 bytes of the header); `endk`  *)
(* is what the source returns after that: "eof" or "ioerr".  pos: next     *)
(* item; tail: the partial bytes are still unread.                         *)
Source(items, avail, part, endk) ==
  [items |-> items, avail |-> avail, part |-> part, endk |-> endk, pos |-> 1, tail |-> part # "none"]
Whole(items) == Source(items, Len(items), "none", "eof")
EndRes(src) == IF src.endk = "eof" THEN "eof" ELSE "err"

NoBlk == [off |-> 0, n |-> 0]
(* hdr: what x.header holds ("zero" after Reset, "magic", "other");        *)
(* nb: items consumed (x.nbytes > 0 iff nb > 0); cur / coff: x.output and  *)
(* x.offset; icap / ocap: 0 while x.input / x.output were never allocated. *)
NewXR == [hdr |-> "zero", nb |-> 0, cur |-> NoBlk, coff |-> 0, icap |-> 0, ocap |-> 0]
XRReset(r) == [r EXCEPT !.hdr = "zero", !.nb = 0, !.cur = NoBlk, !.coff = 0]

Fail(r, src, res) == [r |-> r, src |-> src, n |-> 0, off |-> 0, res |-> res]

(* decode of a complete block into dst (len(dst) = dlen) or into x.output  *)
Decode(r, src, blk, dlen) ==
  IF blk.n <= dlen THEN [r |-> r, src |-> src, n |-> blk.n, off |-> blk.off, res |-> "ok"]
  ELSE [r |-> [r EXCEPT !.cur = blk, !.coff = 0, !.ocap = 1], src |-> src, n |-> 0, off |-> blk.off, res |-> "ok"]

(* framed chunk: 4-byte prefix, then the block                             *)
FramedChunk(r, src, dlen) ==
  IF src.pos > src.avail
  THEN IF src.tail THEN Fail(r, [src EXCEPT !.tail = FALSE], "err")       \* part of a prefix: unexpected EOF
       ELSE Fail(r, src, EndRes(src))                                      \* clean end between frames
  ELSE LET l == src.items[src.pos] IN
       IF l.k # "len" THEN Fail(r, src, "err")
       ELSE LET s1 == [src EXCEPT !.pos = @ + 1] IN
            IF s1.pos > s1.avail
            THEN IF s1.tail THEN Fail(r, [s1 EXCEPT !.tail = FALSE], "err")   \* part of the block
                 ELSE Fail(r, s1, EndRes(s1))    \* EOFAfterPrefix: io.ReadFull reports plain EOF when no byte of the block came
            ELSE LET b == s1.items[s1.pos] IN
                 IF b.k # "blk" THEN Fail(r, s1, "err")
                 ELSE Decode([r EXCEPT !.nb = @ + 2, !.icap = 1], [s1 EXCEPT !.pos = @ + 1], b, dlen)

(* unframed: everything up to EOF is one raw block                         *)
UnframedChunk(r, src, dlen) ==
  LET n    == IF src.pos > src.avail THEN 0 ELSE src.avail - src.pos + 1
      s1   == [src EXCEPT !.pos = src.avail + 1, !.tail = FALSE]
      some == n > 0 \/ src.tail
      r1   == [r EXCEPT !.nb = @ + (IF some THEN 1 ELSE 0), !.icap = 1]
  IN IF src.endk = "ioerr" THEN Fail(r1, s1, "err")
     ELSE IF ~some THEN Fail(r1, s1, "eof")
     ELSE IF n = 1 /\ ~src.tail /\ src.items[src.pos].k = "blk" THEN Decode(r1, s1, src.items[src.pos], dlen)
     ELSE Fail(r1, s1, "err")                  \* not one valid raw block

(* readChunk(dst): the first 16 bytes of the stream (and only those)       *)
(* decide between framed and unframed.  A valid raw snappy block cannot    *)
(* begin with the magic bytes (they would decode as a copy with an offset  *)
(* before the start of the output).                                        *)
ReadChunk(r, src, dlen) ==
  LET r0 == [r EXCEPT !.cur = NoBlk, !.coff = 0] IN
  IF r0.nb = 0
  THEN IF src.avail = 0 /\ ~src.tail THEN Fail(r0, src, EndRes(src))             \* no byte at all
       ELSE IF src.avail >= 1 /\ src.items[1].k = "hdr"
            THEN FramedChunk([r0 EXCEPT !.hdr = "magic", !.nb = 1], [src EXCEPT !.pos = 2], dlen)
       ELSE IF src.avail = 0 /\ src.part = "hdr_ge8"
            THEN FramedChunk([r0 EXCEPT !.hdr = "magic", !.nb = 1], [src EXCEPT !.tail = FALSE], dlen)
       ELSE UnframedChunk([r0 EXCEPT !.hdr = "other"], src, dlen)
  ELSE IF r0.hdr = "magic" THEN FramedChunk(r0, src, dlen)
  ELSE UnframedChunk(r0, src, dlen)

(* Read(b), len(b) = bs                                                    *)
XRRead(r, src, bs) ==
  IF r.coff < r.cur.n
  THEN LET k == Min(bs, r.cur.n - r.coff) IN
       [r |-> [r EXCEPT !.coff = @ + k], src |-> src, n |-> k, off |-> r.cur.off + r.coff, res |-> "ok"]
  ELSE LET c == ReadChunk(r, src, bs) IN
       IF c.res # "ok" \/ c.n > 0 THEN c
       ELSE LET k == Min(bs, c.r.cur.n) IN
            [r |-> [c.r EXCEPT !.coff = k], src |-> c.src, n |-> k, off |-> c.r.cur.off, res |-> "ok"]

(* run-length list of result sizes: <<n, repetitions>>, equal neighbours merged *)
AddRun(runs, n, k) ==
  IF k = 0 \/ n = 0 THEN runs
  ELSE IF runs # <<>> /\ runs[Len(runs)][1] = n THEN [runs EXCEPT ![Len(runs)] = <<n, @[2] + k>>]
  ELSE Append(runs, <<n, k>>)

(* Read(bs) until EOF or error, summarised: runs, bytes, `next` = payload  *)
(* offset expected next, `contig` = every result continued exactly there.  *)
RECURSIVE DrainLoop(_, _, _, _)
DrainLoop(r, src, bs, a) ==
  IF r.coff < r.cur.n
  THEN LET rem == r.cur.n - r.coff
           at  == r.cur.off + r.coff
       IN DrainLoop([r EXCEPT !.coff = r.cur.n], src, bs,
                    [a EXCEPT !.runs = AddRun(AddRun(@, bs, rem \div bs), rem % bs, 1), !.tot = @ + rem,
                              !.contig = @ /\ at = a.next, !.next = at + rem])
  ELSE LET c == ReadChunk(r, src, bs) IN
       IF c.res # "ok" THEN [r |-> c.r, src |-> c.src, runs |-> a.runs, tot |-> a.tot, next |-> a.next, contig |-> a.contig, res |-> c.res]
       ELSE IF c.n > 0
            THEN DrainLoop(c.r, c.src, bs, [a EXCEPT !.runs = AddRun(@, c.n, 1), !.tot = @ + c.n,
                                                     !.contig = @ /\ c.off = a.next, !.next = c.off + c.n])
            ELSE DrainLoop(c.r, c.src, bs, a)
XRDrain(r, src, bs, next) == DrainLoop(r, src, bs, [runs |-> <<>>, tot |-> 0, next |-> next, contig |-> TRUE])

(* WriteTo(w): what is buffered, then every further chunk in one Write;    *)
(* the end of the stream is reported as success.                           *)
RECURSIVE WriteToLoop(_, _, _)
WriteToLoop(r, src, a) ==
  IF r.coff < r.cur.n
  THEN LET rem == r.cur.n - r.coff
           at  == r.cur.off + r.coff
       IN WriteToLoop([r EXCEPT !.coff = r.cur.n], src,
                      [a EXCEPT !.runs = AddRun(@, rem, 1), !.tot = @ + rem, !.contig = @ /\ at = a.next, !.next = at + rem])
  ELSE LET c == ReadChunk(r, src, 0) IN
       IF c.res # "ok" THEN [r |-> c.r, src |-> c.src, runs |-> a.runs, tot |-> a.tot, next |-> a.next, contig |-> a.contig, res |-> c.res]
       ELSE WriteToLoop(c.r, c.src, a)
XRWriteTo(r, src, next) == WriteToLoop(r, src, [runs |-> <<>>, tot |-> 0, next |-> next, contig |-> TRUE])

(* One operation of a reader use; uniform result record.                   *)
XRApply(r, src, op, next) ==
  CASE op.op = "read" ->
         LET a == XRRead(r, src, op.n) IN
         [r |-> a.r, src |-> a.src, ret |-> a.n, runs |-> <<>>, res |-> a.res,
          contig |-> (a.n = 0 \/ a.off = next), next |-> IF a.n > 0 THEN a.off + a.n ELSE next]
    [] op.op = "drain" ->
         LET a == XRDrain(r, src, op.n, next) IN
         [r |-> a.r, src |-> a.src, ret |-> a.tot, runs |-> a.runs, res |-> a.res, contig |-> a.contig, next |-> a.next]
    [] op.op = "writeto" ->
         LET a == XRWriteTo(r, src, next) IN
         [r |-> a.r, src |-> a.src, ret |-> a.tot, runs |-> a.runs, res |-> a.res, contig |-> a.contig, next |-> a.next]
    [] OTHER -> [r |-> r, src |-> src, ret |-> 0, runs |-> <<>>, res |-> "ok", contig |-> TRUE, next |-> next]

(* Streams of reference producers: one raw block; xerial framing with the  *)
(* given block size (the Java client: 32 KiB).                             *)
RawStream(total) == <<BlkItem(0, total)>>
RECURSIVE FramesFrom(_, _, _)
FramesFrom(at, total, bsz) ==
  IF at >= total THEN <<>>
  ELSE LET n == Min(bsz, total - at) IN <<LenItem(at, n), BlkItem(at, n)>> \o FramesFrom(at + n, total, bsz)
XerialStream(total, bsz) == <<Hdr>> \o FramesFrom(0, total, bsz)
(* a framed stream from the decoded lengths of its blocks *)
RECURSIVE FramesOf(_, _)
FramesOf(lens, at) ==
  IF lens = <<>> THEN <<>>
  ELSE <<LenItem(at, Head(lens)), BlkItem(at, Head(lens))>> \o FramesOf(Tail(lens), at + Head(lens))
StreamOf(hdr, lens) == IF hdr THEN <<Hdr>> \o FramesOf(lens, 0) ELSE IF lens = <<>> THEN <<>> ELSE <<BlkItem(0, lens[1])>>

(* RoundTrip, functional form: a new reader draining the complete stream   *)
(* with buffer size bs (or with WriteTo) returns exactly the payload.      *)
DrainsTo(items, bs, total) ==
  LET a == XRDrain(NewXR, Whole(items), bs, 0) IN a.res = "eof" /\ a.contig /\ a.tot = total /\ a.next = total
WritesTo(items, total) ==
  LET a == XRWriteTo(NewXR, Whole(items), 0) IN a.res = "eof" /\ a.contig /\ a.tot = total /\ a.next = total

-----------------------------------------------------------------------------
(* (iii) gzip, lz4, zstd: the format libraries are opaque; an object is    *)
(* "clean" after Reset, "used" / "err" after a use.  The result of a use   *)
(* is specified (lossless, readable by the reference decoder) only for an  *)
(* object that is clean when the use starts.                               *)
OpaqueCodecs == {"gzip", "lz4", "zstd"}
NewOp(codec, kind) == [codec |-> codec, kind |-> kind, dirty |-> "clean"]
OpReset(o) == [o EXCEPT !.dirty = "clean"]
OpUse(o, outcome) == [o EXCEPT !.dirty = IF outcome = "ok" THEN "used" ELSE "err"]

=============================================================================
