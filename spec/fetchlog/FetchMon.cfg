SPECIFICATION Spec
INVARIANTS C02_Ascending C02_StoredContent C02_NoGap C02_Progress
POSTCONDITION TraceAccepted
CHECK_DEADLOCK FALSE
