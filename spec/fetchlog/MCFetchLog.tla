----------------------------- MODULE MCFetchLog -----------------------------
EXTENDS FetchLog

B(base, last, present, fmt) == [base |-> base, last |-> last, present |-> present, fmt |-> fmt, comp |-> FALSE]
BC(base, last, present) == [base |-> base, last |-> last, present |-> present, fmt |-> "v2", comp |-> TRUE]

\* holes inside a batch, a batch starting before the requested offset
L1 == << B(0, 2, {0, 1, 2}, "v2"), B(3, 5, {3, 5}, "v2") >>
\* compacted tail, a retained empty batch, then data again
L2 == << B(0, 3, {0, 1}, "v2"), B(4, 5, {}, "v2"), B(6, 7, {6, 7}, "v2") >>
\* old formats: a compressed v1 wrapper with a hole, plain v1 messages (one per entry), then v2
L3 == << B(0, 2, {0, 2}, "v1w"), B(3, 3, {3}, "v1"), B(4, 4, {4}, "v1"), B(5, 6, {5, 6}, "v2") >>
\* everything compacted away at the end of the log
L4 == << B(0, 1, {0, 1}, "v2"), B(2, 4, {}, "v2") >>
\* compressed batches, one with a compacted tail
L5 == << BC(0, 2, {0, 1}), BC(3, 5, {3, 4, 5}), B(6, 7, {7}, "v2") >>

Base == [log |-> L1, logStart |-> 0, hw |-> 6, start |-> -2, qcap |-> 1, maxFaults |-> 2,
         setOffsets |-> 1, setTargets |-> {1, 4}, grow |-> <<>>, bug |-> "none"]
\* the log grows while the reader is positioned at its end (twice: what a skipped stretch is followed by must be delivered to be seen)
G1 == << B(6, 7, {6, 7}, "v2"), B(8, 9, {8, 9}, "v2") >>
Growing == [Base EXCEPT !.start = -1, !.grow = G1, !.setOffsets = 0, !.maxFaults = 1]

Configs ==
  { Base,
    [Base EXCEPT !.start = 4, !.qcap = 2],
    [Base EXCEPT !.log = L2, !.hw = 8, !.setTargets = {2, 5}],
    [Base EXCEPT !.log = L2, !.hw = 8, !.start = 3, !.setOffsets = 0],
    [Base EXCEPT !.log = L3, !.hw = 7, !.setTargets = {1}],
    [Base EXCEPT !.log = L3, !.hw = 7, !.start = 1, !.logStart = 1, !.setOffsets = 0],
    [Base EXCEPT !.log = L4, !.hw = 5, !.setTargets = {-1, 3}],
    [Base EXCEPT !.log = L1, !.start = -1, !.setTargets = {-2}],
    [Base EXCEPT !.log = L5, !.hw = 8, !.setTargets = {2}],
    Growing, [Growing EXCEPT !.maxFaults = 2, !.qcap = 2],
    [Growing EXCEPT !.start = -2, !.setOffsets = 1, !.setTargets = {-1}] }
ConfigsQuick == { Base, [Base EXCEPT !.log = L2, !.hw = 8, !.start = 3, !.setOffsets = 0],
                  [Base EXCEPT !.log = L3, !.hw = 7, !.setTargets = {1}], Growing }

\* vacuity guard: with the defect of finding F3 the model must fail
ConfigsDefect == { [Base EXCEPT !.log = L2, !.hw = 8, !.start = 3, !.setOffsets = 0, !.bug = "emptyBatchZero"] }
\* ... and with these: a position resolved again after a reconnect / a reconnect that forgets the position reached /
\* a call with a done context that throws a message away
ConfigsDefectReResolve == { [Growing EXCEPT !.bug = "reResolve"] }
ConfigsDefectRestart == { [Growing EXCEPT !.bug = "restartFromStart"] }
ConfigsDefectCancel == { [Base EXCEPT !.setOffsets = 0, !.maxFaults = 0, !.bug = "cancelDrops"] }
CONSTANT ConfigSet
MCInit == cfg \in ConfigSet /\ Init
MCSpec == MCInit /\ [][Next]_vars
\* bound the application: it fetches at most 10 messages
Bound == Len(got) <= 10
=============================================================================
