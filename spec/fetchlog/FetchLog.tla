------------------------------ MODULE FetchLog ------------------------------
(***************************************************************************)
(* Position keeping of a non-group kafka.Reader on one partition:          *)
(* Conn.offset / Batch.offset / Batch.lastOffset (conn.go, batch.go,       *)
(* message_reader.go), the reconnect offset of reader.run (reader.go) and  *)
(* the version filter of Reader.FetchMessage / SetOffset.                  *)
(*                                                                         *)
(* The broker stores the partition as physical batches                     *)
(*    [base, last, present, fmt]   (present: offsets that still exist)     *)
(* and answers a fetch at offset p with the batches whose last offset is   *)
(* >= p, whole, possibly followed by a truncated one, or with an error, or *)
(* the connection is lost inside the response.                             *)
(***************************************************************************)
EXTENDS Integers, Sequences, FiniteSets, TLC

VARIABLES
  cfg,        \* [log, logStart, hw, start, qcap, maxFaults, setOffsets, setTargets, grow, bug]; log, hw and grow change when the log grows
  pos,        \* Conn.offset: next offset the connection will fetch from
  rpos,       \* reader.run's offset: where to resume after a reconnect (-2 = first, -1 = last, or an offset)
  phase,      \* "init" | "idle" | "reading" | "down" | "closed"
  pending,    \* offsets of the current response still to be handed to the queue
  truncFrom,  \* index in `pending` from which the records belong to the truncated tail batch (0: none)
  endPos,     \* position after the response is fully consumed (jump past a compacted tail)
  respKind,   \* "data" | "cut"
  version,    \* Reader.version
  queue,      \* Reader.msgs: sequence of [ver, off]
  app,        \* [pc: "idle"|"waiting", ver] state of the application's FetchMessage call
  got,        \* messages returned by FetchMessage: [ver, off, callVer]
  starts,     \* version -> [sym: start position given to that version (-2 = first, -1 = last, or an offset),
              \*             abs: the offset it resolved to when the reader was positioned (Unres before)]
  faults      \* number of injected faults so far

vars == <<cfg, pos, rpos, phase, pending, truncFrom, endPos, respKind, version, queue, app, got, starts, faults>>

Max(a, b) == IF a >= b THEN a ELSE b
Range(s) == { s[i] : i \in DOMAIN s }
SetToSortedSeq(S) ==
  LET RECURSIVE F(_)
      F(T) == IF T = {} THEN <<>>
              ELSE LET m == CHOOSE x \in T : \A y \in T : x <= y IN <<m>> \o F(T \ {m})
  IN F(S)

Stored(c) == UNION { { o \in c.log[i].present : o >= c.logStart } : i \in DOMAIN c.log }
NextStoredFrom(c, o) == { x \in Stored(c) : x >= o }
\* the first/last offsets the broker reports
First(c) == c.logStart
Last(c) == c.hw

\* what a start position means once the reader has initialised (reader.initialize): f and l are the first and last
\* offsets the leader reports at that moment
ResolveAt(f, l, s) == IF s = -2 THEN f ELSE IF s = -1 THEN l ELSE Max(s, f)
Resolve(c, s) == ResolveAt(First(c), Last(c), s)
Unres == -3

\* batches served for a fetch at p, in log order
Served(c, p) == SelectSeq([i \in DOMAIN c.log |-> i], LAMBDA i : c.log[i].last >= p)

Init ==
  /\ pos = 0 /\ rpos = cfg.start /\ phase = "init"
  /\ pending = <<>> /\ truncFrom = 0 /\ endPos = 0 /\ respKind = "data"
  /\ version = 1 /\ queue = <<>> /\ app = [pc |-> "idle", ver |-> 0]
  /\ got = <<>> /\ starts = << [sym |-> cfg.start, abs |-> Unres] >> /\ faults = 0

\* reader.initialize: dial the leader, read first/last (f, l), clamp, Seek.  This is the moment a symbolic position
\* (first / last) is resolved: the first resolution of a version is the offset the reader is positioned at, and the
\* restart offset becomes absolute (reader.run: offset = start), so that a later reconnect does not resolve it again.
\* Defects (vacuity guards): "reResolve": the restart offset stays symbolic until the first delivery;
\* "restartFromStart": every reconnect starts again from the position the version was given.
Positioned(f, l) ==
  /\ LET s == IF cfg.bug = "restartFromStart" THEN starts[version].sym ELSE rpos
         o == ResolveAt(f, l, s) IN
       /\ o <= l                  \* beyond the end: OffsetOutOfRange, retried later
       /\ pos' = o
       /\ rpos' = IF cfg.bug = "reResolve" THEN rpos ELSE o
       /\ starts' = IF starts[version].abs = Unres THEN [starts EXCEPT ![version].abs = o] ELSE starts
  /\ phase' = "idle"
  /\ UNCHANGED <<cfg, pending, truncFrom, endPos, respKind, version, queue, app, got, faults>>

Initialize == phase \in {"init", "down"} /\ Positioned(First(cfg), Last(cfg))

\* a producer appends the next batch to the partition
Grow ==
  /\ cfg.grow # <<>>
  /\ cfg' = [cfg EXCEPT !.log = Append(@, Head(cfg.grow)), !.hw = Max(@, Head(cfg.grow).last + 1), !.grow = Tail(@)]
  /\ UNCHANGED <<pos, rpos, phase, pending, truncFrom, endPos, respKind, version, queue, app, got, starts, faults>>

(***************************************************************************)
(* The broker answers a fetch at pos with nb whole batches followed by the *)
(* first j records of the next one (j >= 0 counts records completely       *)
(* received; truncated = TRUE says such a partial batch follows).          *)
(***************************************************************************)
RecordsOf(b) == SetToSortedSeq(b.present)
Take(s, n) == SubSeq(s, 1, IF n <= Len(s) THEN n ELSE Len(s))

ResponseOffsetsAt(p, nb, truncated, j) ==
  LET S == Served(cfg, p)
      whole == [k \in 1 .. nb |-> RecordsOf(cfg.log[S[k]])]
      RECURSIVE Cat(_)
      Cat(k) == IF k = 0 THEN <<>> ELSE Cat(k - 1) \o whole[k]
      tail == IF truncated THEN Take(RecordsOf(cfg.log[S[nb + 1]]), j) ELSE <<>>
      keep(s) == SelectSeq(s, LAMBDA o : o >= p /\ o >= cfg.logStart)
  IN [whole |-> keep(Cat(nb)), tail |-> keep(tail)]

\* position after consuming the response completely: past the last offset of a whole v2 batch
ResponseOffsets(nb, truncated, j) == ResponseOffsetsAt(pos, nb, truncated, j)

EndOfAt(p, nb, truncated, th) ==
  LET S == Served(cfg, p) IN
  \* (th: the header of the truncated batch arrived completely; otherwise the whole batches before it
  \* count as fully consumed)
  IF nb >= 1 /\ (~truncated \/ ~th) /\ cfg.log[S[nb]].fmt = "v2"
    THEN IF cfg.bug = "emptyBatchZero" /\ ResponseOffsetsAt(p, nb, truncated, 0).whole = <<>>
           THEN 1        \* defect F3: Batch.lastOffset keeps its zero value when no record was read
           ELSE cfg.log[S[nb]].last + 1
    ELSE 0

EndOf(nb, truncated, th) == EndOfAt(pos, nb, truncated, th)

\* RespondAt(p, ...) leaves pos, rpos and phase' to its caller
RespondAt(p, kind, nb, truncated, th, j) ==
  /\ kind \in {"data", "cut"}
  /\ LET S == Served(cfg, p) IN
       /\ nb \in 0 .. Len(S)
       /\ truncated => nb < Len(S)
       /\ truncated => cfg.log[S[nb + 1]].fmt \notin {"v1w"} \/ j = 0     \* nothing of a cut compressed wrapper is readable
       /\ truncated => j <= Cardinality(cfg.log[S[nb + 1]].present)
       /\ ~truncated => j = 0 /\ ~th
       /\ (truncated /\ ~th) => j = 0
       /\ (kind = "data" /\ ~truncated) => nb >= 1 \/ Len(S) = 0
  /\ (kind = "cut" \/ truncated) => faults < cfg.maxFaults
  /\ faults' = IF kind = "cut" \/ truncated THEN faults + 1 ELSE faults
  /\ LET r == ResponseOffsetsAt(p, nb, truncated, j) IN
       /\ pending' = r.whole \o r.tail
       /\ truncFrom' = IF r.tail = <<>> THEN 0 ELSE Len(r.whole) + 1
  /\ endPos' = EndOfAt(p, nb, truncated, th)
  /\ respKind' = kind
  /\ phase' = "reading"
  /\ UNCHANGED <<cfg, version, queue, app, got, starts>>

Respond(kind, nb, truncated, th, j) ==
  /\ phase = "idle" /\ RespondAt(pos, kind, nb, truncated, th, j)
  /\ UNCHANGED <<pos, rpos>>

\* an error code instead of data
RespondError(code) ==
  /\ phase = "idle" /\ faults < cfg.maxFaults
  /\ faults' = faults + 1
  /\ CASE code \in {"NotLeader", "UnknownTopic"} -> phase' = "down" /\ UNCHANGED pos     \* the reader reconnects
       \* retried on the same connection (another broker error is handed to the application first)
       [] code \in {"TimedOut", "Surfaced"} -> phase' = "idle" /\ UNCHANGED pos
       \* the log start moved past the position (retention): continue at the first offset still available
       [] code = "OutOfRange" -> pos < First(cfg) /\ phase' = "idle" /\ pos' = First(cfg)
       [] OTHER -> FALSE
  /\ rpos' = IF code = "OutOfRange" THEN First(cfg) ELSE rpos
  /\ UNCHANGED <<cfg, pending, truncFrom, endPos, respKind, version, queue, app, got, starts>>

\* the connection is lost between two fetches (idle time-out, broker restart, ...)
ConnLost ==
  /\ phase = "idle" /\ faults < cfg.maxFaults
  /\ phase' = "down" /\ faults' = faults + 1
  /\ UNCHANGED <<cfg, pos, rpos, pending, truncFrom, endPos, respKind, version, queue, app, got, starts>>

\* the answer is cut inside the header of its first batch: nothing can be decoded, the client
\* treats it as a transport error and reconnects
RespondShort ==
  /\ phase = "idle" /\ faults < cfg.maxFaults /\ Len(Served(cfg, pos)) > 0
  /\ phase' = "down" /\ faults' = faults + 1
  /\ UNCHANGED <<cfg, pos, rpos, pending, truncFrom, endPos, respKind, version, queue, app, got, starts>>

\* reader.sendMessage of the next record of the response
DeliverOne ==
  /\ phase = "reading" /\ pending # <<>> /\ Len(queue) < cfg.qcap
  /\ LET o == Head(pending) IN
       /\ queue' = Append(queue, [ver |-> version, off |-> o])
       /\ pos' = o + 1 /\ rpos' = o + 1
  /\ pending' = Tail(pending)
  /\ truncFrom' = IF truncFrom > 1 THEN truncFrom - 1 ELSE IF truncFrom = 1 THEN 1 ELSE 0
  /\ UNCHANGED <<cfg, phase, endPos, respKind, version, app, got, starts, faults>>

\* records of a truncated batch need not all be readable (e.g. inside a compressed payload)
DropTruncated ==
  /\ phase = "reading" /\ truncFrom = 1 /\ pending # <<>>
  /\ pending' = <<>> /\ truncFrom' = 0
  /\ UNCHANGED <<cfg, pos, rpos, phase, endPos, respKind, version, queue, app, got, starts, faults>>

\* Batch.close: the position is written back to the Conn
EndResponse ==
  /\ phase = "reading" /\ pending = <<>>
  /\ pos' = IF respKind # "data" THEN pos
            ELSE IF cfg.bug = "emptyBatchZero" /\ endPos # 0 THEN endPos ELSE Max(pos, endPos)
  /\ phase' = IF respKind = "cut" THEN "down" ELSE "idle"
  /\ truncFrom' = 0
  /\ UNCHANGED <<cfg, rpos, pending, endPos, respKind, version, queue, app, got, starts, faults>>

\* the read deadline passes before the end of the response is reached (a slow link, a slow consumer): the batch is closed
\* where the reader got to (RequestTimedOut, retried on the same connection), the rest is asked for again
TimeoutResponse ==
  /\ phase = "reading" /\ respKind = "data"
  /\ pending' = <<>> /\ truncFrom' = 0 /\ phase' = "idle"
  /\ UNCHANGED <<cfg, pos, rpos, endPos, respKind, version, queue, app, got, starts, faults>>

\* the client gives up on the connection while the answer is on its way or being read (the read deadline passes on a slow
\* link, the connection is reset): what was not handed over yet is asked for again on the next connection
AbandonResponse ==
  /\ phase = "reading" /\ respKind = "data" /\ faults < cfg.maxFaults
  /\ faults' = faults + 1
  /\ pending' = <<>> /\ truncFrom' = 0 /\ phase' = "down"
  /\ UNCHANGED <<cfg, pos, rpos, endPos, respKind, version, queue, app, got, starts>>

\* the connection is lost while records of the response are still being read
CutNow ==
  /\ phase = "reading" /\ respKind = "cut"
  /\ pending' = <<>> /\ truncFrom' = 0 /\ phase' = "down"
  /\ UNCHANGED <<cfg, pos, rpos, endPos, respKind, version, queue, app, got, starts, faults>>

\* Reader.SetOffset(o): a new background reader replaces the old one
SetOffset(o) ==
  /\ phase # "closed" /\ version <= cfg.setOffsets
  /\ version' = version + 1
  /\ starts' = Append(starts, [sym |-> o, abs |-> Unres])
  /\ rpos' = o /\ phase' = "init"
  /\ pending' = <<>> /\ truncFrom' = 0
  /\ UNCHANGED <<cfg, pos, endPos, respKind, queue, app, got, faults>>

\* Reader.FetchMessage: reads the version under the mutex, then receives from the queue
AppBegin ==
  /\ app.pc = "idle"
  /\ app' = [pc |-> "waiting", ver |-> version]
  /\ UNCHANGED <<cfg, pos, rpos, phase, pending, truncFrom, endPos, respKind, version, queue, got, starts, faults>>

AppReceive ==
  /\ app.pc = "waiting" /\ queue # <<>>
  /\ LET m == Head(queue) IN
       IF m.ver >= app.ver
         THEN /\ got' = Append(got, [ver |-> m.ver, off |-> m.off, callVer |-> app.ver])
              /\ app' = [app EXCEPT !.pc = "idle"]
         ELSE /\ app' = [app EXCEPT !.ver = version]     \* stale message dropped, loop
              /\ UNCHANGED got
  /\ queue' = Tail(queue)
  /\ UNCHANGED <<cfg, pos, rpos, phase, pending, truncFrom, endPos, respKind, version, starts, faults>>

\* the call's context is done (cancelled, deadline): FetchMessage returns its error and has consumed nothing
\* (defect "cancelDrops": a message received at the same time is thrown away)
AppAbandon ==
  /\ app.pc = "waiting"
  /\ app' = [app EXCEPT !.pc = "idle"]
  /\ queue' = IF cfg.bug = "cancelDrops" /\ queue # <<>> THEN Tail(queue) ELSE queue
  /\ UNCHANGED <<cfg, pos, rpos, phase, pending, truncFrom, endPos, respKind, version, got, starts, faults>>

Next ==
  \/ Initialize \/ DeliverOne \/ DropTruncated \/ EndResponse \/ CutNow \/ AppBegin \/ AppReceive \/ AppAbandon
  \/ Grow \/ ConnLost \/ RespondShort \/ TimeoutResponse \/ AbandonResponse
  \/ \E k \in {"data", "cut"}, nb \in 0 .. 3, t \in BOOLEAN, th \in BOOLEAN, j \in 0 .. 3 : Respond(k, nb, t, th, j)
  \/ \E c \in {"NotLeader", "UnknownTopic", "TimedOut", "Surfaced"} : RespondError(c)
  \/ \E o \in cfg.setTargets : SetOffset(o)

Spec == Init /\ [][Next]_vars

-----------------------------------------------------------------------------
\* messages the application got from the current subscription version v
GotOf(v) == SelectSeq(got, LAMBDA m : m.ver = v)
ExpectedFrom(v) == SetToSortedSeq(NextStoredFrom(cfg, starts[v].abs))
IsPrefix(s, t) == Len(s) <= Len(t) /\ \A i \in DOMAIN s : s[i] = t[i]

\* C02: exactly the stored records from the position the reader was positioned at (what first / last meant at that
\* moment, however the log grew afterwards), in order, once each, no gaps
C02_ExactStream ==
  \A v \in DOMAIN starts :
     IF starts[v].abs = Unres THEN GotOf(v) = <<>>
     ELSE IsPrefix([i \in DOMAIN GotOf(v) |-> GotOf(v)[i].off], ExpectedFrom(v))

\* C02: a FetchMessage call that begins after SetOffset returned never gets an older version's message
C02_AfterSetOffset == \A i \in DOMAIN got : got[i].ver >= got[i].callVer

TypeOK == version >= 1 /\ Len(queue) <= cfg.qcap
=============================================================================
