--------------------------- MODULE FetchLogTrace ---------------------------
(***************************************************************************)
(* Conformance of traces of a real non-group kafka.Reader with             *)
(* FetchLog.tla: every fetch request the fake leader receives must ask for *)
(* exactly the model's position, every Batch.close must write back the     *)
(* model's position, and the messages the application gets must be the     *)
(* ones the model hands over.  Hand-over of records to the queue and the   *)
(* dropping of stale queued messages are not logged: they are silent steps *)
(* of the model, bounded by the records of the current response.           *)
(***************************************************************************)
EXTENDS FetchLog, Json, IOUtils

Trace == ndJsonDeserialize(IOEnv.TRACE)

VARIABLES l, conns, stale, appOff
tvars == <<vars, l, conns, stale, appOff>>

B(e) == [base |-> e.base, last |-> e.last, present |-> Range(e.present), fmt |-> e.fmt, comp |-> (e.codec # 0)]
CfgOf(e) == [log |-> [i \in DOMAIN e.log |-> B(e.log[i])], logStart |-> e.logStart, hw |-> e.hw, start |-> -2,
             qcap |-> 100000, maxFaults |-> 100000, setOffsets |-> 100000, setTargets |-> {}, bug |-> "none"]
NoCfg == [log |-> <<>>, logStart |-> 0, hw |-> 0, start |-> -2, qcap |-> 100000, maxFaults |-> 100000,
          setOffsets |-> 100000, setTargets |-> {}, bug |-> "none"]

TInit == cfg = NoCfg /\ Init /\ l = 1 /\ conns = {} /\ stale = {} /\ appOff = -2

Reset(e) ==
  /\ cfg' = CfgOf(e)
  /\ pos' = 0 /\ rpos' = -2 /\ phase' = "init"
  /\ pending' = <<>> /\ truncFrom' = 0 /\ endPos' = 0 /\ respKind' = "data"
  /\ version' = 1 /\ queue' = <<>> /\ app' = [pc |-> "idle", ver |-> 0]
  /\ got' = <<>> /\ starts' = <<-2>> /\ faults' = 0
  /\ conns' = {} /\ stale' = {} /\ appOff' = -2

Skip == UNCHANGED vars /\ UNCHANGED <<conns, stale, appOff>>
Keep == UNCHANGED <<conns, stale, appOff>>

CodeName(c) == CASE c = 6 -> "NotLeader" [] c = 7 -> "TimedOut" [] c = 1 -> "OutOfRange" [] OTHER -> "Other"

FetchEv(e) ==
  IF e.conn \in stale THEN Skip
  ELSE
    LET fresh == e.conn \notin conns
        p == IF fresh THEN Resolve(cfg, rpos) ELSE pos IN
    \* (a fetch on a new connection while the model is idle: the old connection was lost unobserved)
    /\ IF fresh THEN phase \in {"init", "down", "idle"} /\ p <= Last(cfg) ELSE phase = "idle"
    /\ e.off = p
    /\ conns' = conns \cup {e.conn} /\ UNCHANGED <<stale, appOff>>
    /\ CASE e.kind \in {"data", "cut"} ->
              /\ RespondAt(p, e.kind, e.nb, e.truncated, e.hdr, e.j) /\ pos' = p
              /\ rpos' = IF fresh THEN p ELSE rpos
         [] e.kind = "shorthdr" ->
              /\ pos' = p /\ rpos' = (IF fresh THEN p ELSE rpos) /\ phase' = "down"
              /\ UNCHANGED <<cfg, pending, truncFrom, endPos, respKind, version, queue, app, got, starts, faults>>
         [] e.kind = "empty" ->
              /\ pos' = p /\ rpos' = (IF fresh THEN p ELSE rpos) /\ phase' = "idle"
              /\ UNCHANGED <<cfg, pending, truncFrom, endPos, respKind, version, queue, app, got, starts, faults>>
         [] e.kind = "err" ->
              /\ IF fresh
                   THEN \* Initialize, then the error answer
                        /\ e.code \in {6, 7}
                        /\ pos' = p /\ rpos' = p /\ phase' = (IF e.code = 6 THEN "down" ELSE "idle")
                        /\ UNCHANGED <<cfg, pending, truncFrom, endPos, respKind, version, queue, app, got, starts, faults>>
                   ELSE RespondError(CodeName(e.code))

CloseEv(e) ==
  IF e.conn \in stale \/ e.conn \notin conns THEN Skip
  ELSE IF phase = "reading" THEN EndResponse /\ pos' = e.offset /\ Keep
  \* Batch of an empty / error answer (after OffsetOutOfRange the reader seeks the Conn afterwards)
  ELSE phase \in {"idle", "down"} /\ (pos = e.offset \/ e.err # "") /\ Skip

SetOffsetEv(e) ==
  IF e.err # "" \/ e.o = appOff THEN Skip
  ELSE SetOffset(e.o) /\ stale' = stale \cup conns /\ conns' = conns /\ appOff' = e.o

MsgEv(e) ==
  /\ AppReceive /\ Len(got') = Len(got) + 1 /\ got'[Len(got')].off = e.off
  /\ appOff' = e.off + 1 /\ UNCHANGED <<conns, stale>>

Step(e) ==
  CASE e.ev = "cfg" -> Reset(e)
    [] e.ev = "fetch" -> FetchEv(e)
    [] e.ev = "close" -> CloseEv(e)
    [] e.ev = "setoffset.end" -> SetOffsetEv(e)
    [] e.ev = "call" -> (IF app.pc = "idle" THEN AppBegin ELSE UNCHANGED vars) /\ Keep
    [] e.ev = "msg" -> MsgEv(e)
    [] e.ev \in {"nomsg", "eof", "fetcherr"} ->
          /\ app' = [app EXCEPT !.pc = "idle"]
          /\ UNCHANGED <<cfg, pos, rpos, phase, pending, truncFrom, endPos, respKind, version, queue, got, starts, faults>> /\ Keep
    [] e.ev = "append" ->
          /\ cfg' = [cfg EXCEPT !.log = Append(@, B(e.batch)), !.hw = Max(@, e.batch.last + 1)]
          /\ UNCHANGED <<pos, rpos, phase, pending, truncFrom, endPos, respKind, version, queue, app, got, starts, faults>> /\ Keep
    [] e.ev = "logstart" ->
          /\ cfg' = [cfg EXCEPT !.logStart = e.o]
          /\ UNCHANGED <<pos, rpos, phase, pending, truncFrom, endPos, respKind, version, queue, app, got, starts, faults>> /\ Keep
    [] OTHER -> Skip

\* unlogged steps of the model
Silent ==
  /\ \/ DeliverOne \/ DropTruncated \/ CutNow
     \/ (app.pc = "waiting" /\ queue # <<>> /\ Head(queue).ver < app.ver /\ AppReceive)
  /\ UNCHANGED <<l, conns, stale, appOff>>

TNext == \/ (l <= Len(Trace) /\ l' = l + 1 /\ Step(Trace[l]))
         \/ (l <= Len(Trace) /\ Silent)
TSpec == TInit /\ [][TNext]_tvars

ASSUME TLCSet(1, 0)
HighWater == TLCSet(1, IF l > TLCGet(1) THEN l ELSE TLCGet(1))
TraceAccepted ==
  \/ TLCGet(1) = Len(Trace) + 1
  \/ ~PrintT(<<"DIVERGED_AT_LINE", TLCGet(1), Trace[TLCGet(1)]>>)
=============================================================================
