--------------------------- MODULE FetchLogTrace ---------------------------
(***************************************************************************)
(* Conformance of traces of a real non-group kafka.Reader with             *)
(* FetchLog.tla: every fetch request the fake leader receives must ask for *)
(* exactly the model's position, every Batch.close must write back the     *)
(* model's position, and the messages the application gets must be the     *)
(* ones the model hands over.  Hand-over of records to the queue and the   *)
(* dropping of stale queued messages are not logged: they are silent steps *)
(* of the model, bounded by the records of the current response.           *)
(* A (re)connection is positioned by the model's action Positioned at the  *)
(* event of the leader's first answer about the end of the log on that     *)
(* connection ("listoffsets", k = 1), with the first / last offsets the    *)
(* leader reported there: a symbolic position is resolved at that moment,  *)
(* once, whatever is appended later.  An attempt that does not get as far  *)
(* as fetching positions nothing: both continuations are explored.         *)
(***************************************************************************)
EXTENDS FetchLog, Json, IOUtils

Trace == ndJsonDeserialize(IOEnv.TRACE)

VARIABLES l, conns, stale, appOff, cur
tvars == <<vars, l, conns, stale, appOff, cur>>

B(e) == [base |-> e.base, last |-> e.last, present |-> Range(e.present), fmt |-> e.fmt, comp |-> (e.codec # 0)]
CfgOf(e) == [log |-> [i \in DOMAIN e.log |-> B(e.log[i])], logStart |-> e.logStart, hw |-> e.hw, start |-> -2,
             qcap |-> 100000, maxFaults |-> 100000, setOffsets |-> 100000, setTargets |-> {}, grow |-> <<>>, bug |-> "none"]
NoCfg == [log |-> <<>>, logStart |-> 0, hw |-> 0, start |-> -2, qcap |-> 100000, maxFaults |-> 100000,
          setOffsets |-> 100000, setTargets |-> {}, grow |-> <<>>, bug |-> "none"]

TInit == cfg = NoCfg /\ Init /\ l = 1 /\ conns = {} /\ stale = {} /\ appOff = -2 /\ cur = 0

Reset(e) ==
  /\ cfg' = CfgOf(e)
  /\ pos' = 0 /\ rpos' = -2 /\ phase' = "init"
  /\ pending' = <<>> /\ truncFrom' = 0 /\ endPos' = 0 /\ respKind' = "data"
  /\ version' = 1 /\ queue' = <<>> /\ app' = [pc |-> "idle", ver |-> 0]
  /\ got' = <<>> /\ starts' = << [sym |-> -2, abs |-> Unres] >> /\ faults' = 0
  /\ conns' = {} /\ stale' = {} /\ appOff' = -2 /\ cur' = 0

Skip == UNCHANGED vars /\ UNCHANGED <<conns, stale, appOff, cur>>
Keep == UNCHANGED <<conns, stale, appOff, cur>>

CodeName(c) == CASE c = 6 -> "NotLeader" [] c = 3 -> "UnknownTopic" [] c = 7 -> "TimedOut" [] c = 1 -> "OutOfRange" [] OTHER -> "Surfaced"

\* the leader's first answer about the end of the log on a new connection: reader.initialize positions the connection
\* (an unobserved loss of the previous connection may precede it)
ListEv(e) ==
  IF e.at # -1 \/ e.code # 0 \/ e.k # 1 \/ e.conn \in stale \/ e.conn \in conns \/ e.conn = cur THEN Skip
  ELSE \/ Skip
       \/ /\ phase \in {"init", "down", "idle"}
          /\ Positioned(e.first, e.off)
          /\ cur' = e.conn /\ UNCHANGED <<conns, stale, appOff>>

FetchEv(e) ==
  \* (an answer is recorded when it is sent: one that is sent on a connection the reader has given up meanwhile is not read)
  IF e.conn \in stale \/ (e.conn \in conns /\ e.conn # cur) THEN Skip
  ELSE
    \* the connection the model positioned, asking for exactly the model's position
    /\ e.conn = cur /\ phase = "idle" /\ e.off = pos
    /\ conns' = conns \cup {e.conn} /\ UNCHANGED <<stale, appOff, cur>>
    /\ CASE e.kind \in {"data", "cut"} ->
              RespondAt(pos, e.kind, e.nb, e.truncated, e.hdr, e.j) /\ UNCHANGED <<pos, rpos>>
         [] e.kind = "shorthdr" ->
              /\ phase' = "down"
              /\ UNCHANGED <<cfg, pos, rpos, pending, truncFrom, endPos, respKind, version, queue, app, got, starts, faults>>
         [] e.kind = "empty" -> UNCHANGED vars
         [] e.kind = "err" -> RespondError(CodeName(e.code))

CloseEv(e) ==
  IF e.conn \in stale \/ e.conn \notin conns \/ e.conn # cur THEN Skip
  ELSE IF phase = "reading" THEN \/ EndResponse /\ pos' = e.offset /\ Keep
                                 \/ e.timeout /\ TimeoutResponse /\ pos = e.offset /\ Keep
  \* Batch of an empty / error answer (after OffsetOutOfRange the reader seeks the Conn afterwards)
  ELSE phase \in {"idle", "down"} /\ (pos = e.offset \/ e.err # "") /\ Skip

\* (taken at the beginning of the call: what the superseded reader does from then on is not the model's concern, and
\* nothing of the new reader can be recorded before it)
SetOffsetEv(e) ==
  IF e.o = appOff THEN Skip
  ELSE SetOffset(e.o) /\ stale' = stale \cup conns \cup {cur} /\ conns' = conns /\ appOff' = e.o /\ cur' = 0

MsgEv(e) ==
  /\ AppReceive /\ Len(got') = Len(got) + 1 /\ got'[Len(got')].off = e.off
  /\ appOff' = e.off + 1 /\ UNCHANGED <<conns, stale, cur>>

Step(e) ==
  CASE e.ev = "cfg" -> Reset(e)
    [] e.ev = "fetch" -> FetchEv(e)
    [] e.ev = "listoffsets" -> ListEv(e)
    [] e.ev = "close" -> CloseEv(e)
    [] e.ev = "setoffset.begin" -> SetOffsetEv(e)
    [] e.ev = "call" -> (IF app.pc = "idle" THEN AppBegin ELSE UNCHANGED vars) /\ Keep
    [] e.ev = "msg" -> MsgEv(e)
    [] e.ev \in {"nomsg", "eof", "fetcherr", "ctxerr"} ->
          /\ app' = [app EXCEPT !.pc = "idle"]
          /\ UNCHANGED <<cfg, pos, rpos, phase, pending, truncFrom, endPos, respKind, version, queue, got, starts, faults>> /\ Keep
    [] e.ev = "append" ->
          /\ cfg' = [cfg EXCEPT !.log = Append(@, B(e.batch)), !.hw = Max(@, e.batch.last + 1)]
          /\ UNCHANGED <<pos, rpos, phase, pending, truncFrom, endPos, respKind, version, queue, app, got, starts, faults>> /\ Keep
    [] e.ev = "logstart" ->
          /\ cfg' = [cfg EXCEPT !.logStart = e.o]
          /\ UNCHANGED <<pos, rpos, phase, pending, truncFrom, endPos, respKind, version, queue, app, got, starts, faults>> /\ Keep
    [] OTHER -> Skip

\* unlogged steps of the model
Silent ==
  /\ \/ DeliverOne \/ DropTruncated \/ CutNow \/ AbandonResponse
     \/ (app.pc = "waiting" /\ queue # <<>> /\ Head(queue).ver < app.ver /\ AppReceive)
  /\ UNCHANGED <<l, conns, stale, appOff, cur>>

TNext == \/ (l <= Len(Trace) /\ l' = l + 1 /\ Step(Trace[l]))
         \/ (l <= Len(Trace) /\ Silent)
TSpec == TInit /\ [][TNext]_tvars

ASSUME TLCSet(1, 0)
HighWater == TLCSet(1, IF l > TLCGet(1) THEN l ELSE TLCGet(1))
TraceAccepted ==
  \/ TLCGet(1) = Len(Trace) + 1
  \/ ~PrintT(<<"DIVERGED_AT_LINE", TLCGet(1), Trace[TLCGet(1)]>>)
=============================================================================
