SPECIFICATION MCSpec
CONSTANT ConfigSet <- ConfigsDefectRestart
INVARIANTS TypeOK C02_ExactStream C02_AfterSetOffset
CONSTRAINT Bound
CHECK_DEADLOCK FALSE
