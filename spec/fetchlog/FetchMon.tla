------------------------------ MODULE FetchMon ------------------------------
(***************************************************************************)
(* Property monitor for a non-group kafka.Reader run against the fake      *)
(* leader: the broker's log layout (ground truth) and everything the       *)
(* application got are rebuilt from the recorded events, and C02 is        *)
(* evaluated in every state.  Application calls are sequential in the      *)
(* driver, so every message after "setoffset.end" belongs to a later call. *)
(***************************************************************************)
EXTENDS Integers, Sequences, FiniteSets, TLC, Json, IOUtils

Trace == ndJsonDeserialize(IOEnv.TRACE)

VARIABLES l, tid, present, logStart, hw, start, lower, seg, bad, stalled, hangs, unresolved
mvars == <<l, tid, present, logStart, hw, start, lower, seg, bad, stalled, hangs, unresolved>>

Init == /\ l = 1 /\ tid = "" /\ present = {} /\ logStart = 0 /\ hw = 0 /\ start = -2 /\ lower = 0
        /\ seg = <<>> /\ bad = {} /\ stalled = FALSE /\ hangs = {} /\ unresolved = FALSE

Range(s) == { s[i] : i \in DOMAIN s }
PresentOf(log) == UNION { Range(log[i].present) : i \in DOMAIN log }
Max(a, b) == IF a >= b THEN a ELSE b
LowerFor(s, ls, h) == IF s = -2 THEN ls ELSE IF s = -1 THEN h ELSE Max(s, ls)
Last(s) == s[Len(s)]
\* stored records the reader still owes the application
Owed == { x \in present : x >= logStart /\ x >= lower /\ (seg # <<>> => x > Last(seg)) }

Upd(e) ==
  CASE e.ev = "cfg" ->
         /\ tid' = e.id /\ present' = PresentOf(e.log) /\ logStart' = e.logStart /\ hw' = e.hw
         /\ start' = e.start /\ lower' = LowerFor(e.start, e.logStart, e.hw)
         /\ seg' = <<>> /\ bad' = {} /\ stalled' = FALSE /\ hangs' = {} /\ unresolved' = (e.start = -1)
    [] e.ev = "setoffset.end" /\ e.err = "" ->
         /\ start' = e.o /\ lower' = LowerFor(e.o, logStart, hw) /\ seg' = <<>>
         /\ unresolved' = (e.o = -1)
         /\ UNCHANGED <<tid, present, logStart, hw, bad, stalled, hangs>>
    \* "last" is resolved by the reader when it connects, not when SetOffset returns: the first fetch
    \* request the leader receives afterwards shows what it resolved to (never below the end at the
    \* time of the call, never beyond the current end)
    [] e.ev = "fetch" /\ unresolved ->
         /\ unresolved' = FALSE
         /\ lower' = IF e.off >= lower /\ e.off <= hw THEN e.off ELSE lower
         /\ UNCHANGED <<tid, present, logStart, hw, start, seg, bad, stalled, hangs>>
    [] e.ev = "msg" ->
         /\ seg' = Append(seg, e.off)
         /\ bad' = IF e.ok THEN bad ELSE bad \cup {e.off}
         /\ UNCHANGED <<tid, present, logStart, hw, start, lower, stalled, hangs, unresolved>>
    [] e.ev = "nomsg" ->
         /\ stalled' = (Owed # {} /\ ~unresolved)
         /\ UNCHANGED <<tid, present, logStart, hw, start, lower, seg, bad, hangs, unresolved>>
    [] e.ev = "append" ->
         /\ present' = present \cup Range(e.batch.present)
         /\ hw' = Max(hw, e.batch.last + 1)
         /\ UNCHANGED <<tid, logStart, start, lower, seg, bad, stalled, hangs, unresolved>>
    [] e.ev = "logstart" ->
         /\ logStart' = e.o
         /\ UNCHANGED <<tid, present, hw, start, lower, seg, bad, stalled, hangs, unresolved>>
    [] e.ev = "hang" ->
         /\ hangs' = hangs \cup {e.what}
         /\ UNCHANGED <<tid, present, logStart, hw, start, lower, seg, bad, stalled, unresolved>>
    [] OTHER -> UNCHANGED <<tid, present, logStart, hw, start, lower, seg, bad, stalled, hangs, unresolved>>

Next == l <= Len(Trace) /\ l' = l + 1 /\ Upd(Trace[l])
Spec == Init /\ [][Next]_mvars

\* C02: increasing offset order, each once
C02_Ascending == \A i \in 1 .. Len(seg) - 1 : seg[i] < seg[i + 1]
\* every delivered message is a stored record with the stored content, at or after the position
C02_StoredContent == /\ bad = {}
                     /\ \A i \in DOMAIN seg : seg[i] \in present /\ seg[i] >= lower
\* no stored record between the position and what was delivered is skipped
\* (records below the current log start may have been removed by retention before they were read)
C02_NoGap ==
  \A i \in DOMAIN seg :
     \A x \in present :
        (x >= lower /\ x >= logStart /\ x < seg[i] /\ (i > 1 => x > seg[i - 1])) => FALSE
\* no stall while stored records remain and no fault is pending
C02_Progress == ~stalled
C09r_CloseReturns == "close" \notin hangs

TraceAccepted == TLCGet("stats").diameter = Len(Trace) + 1
=============================================================================
