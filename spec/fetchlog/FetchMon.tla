------------------------------ MODULE FetchMon ------------------------------
(***************************************************************************)
(* Property monitor for a non-group kafka.Reader run against the fake      *)
(* leader: the broker's log layout (ground truth) and everything the       *)
(* application got are rebuilt from the recorded events, and C02 is        *)
(* evaluated in every state.  Application calls are sequential in the      *)
(* driver, so every message after "setoffset.end" belongs to a later call. *)
(***************************************************************************)
EXTENDS Integers, Sequences, FiniteSets, TLC, Json, IOUtils

Trace == ndJsonDeserialize(IOEnv.TRACE)

VARIABLES l, tid, present, logStart, hw, start, lower, seg, bad, stalled, hangs, unresolved,
          res,     \* connection -> the leader's first answer about the end of the log on that connection
          known,   \* connections seen so far
          old      \* connections that existed when the application last positioned the reader
mvars == <<l, tid, present, logStart, hw, start, lower, seg, bad, stalled, hangs, unresolved, res, known, old>>

Init == /\ l = 1 /\ tid = "" /\ present = {} /\ logStart = 0 /\ hw = 0 /\ start = -2 /\ lower = 0
        /\ seg = <<>> /\ bad = {} /\ stalled = FALSE /\ hangs = {} /\ unresolved = FALSE
        /\ res = <<>> /\ known = {} /\ old = {}

Range(s) == { s[i] : i \in DOMAIN s }
PresentOf(log) == UNION { Range(log[i].present) : i \in DOMAIN log }
Max(a, b) == IF a >= b THEN a ELSE b
LowerFor(s, ls, h) == IF s = -2 THEN ls ELSE IF s = -1 THEN h ELSE Max(s, ls)
Last(s) == s[Len(s)]
\* stored records the reader still owes the application
Owed == { x \in present : x >= logStart /\ x >= lower /\ (seg # <<>> => x > Last(seg)) }

Upd(e) ==
  CASE e.ev = "cfg" ->
         /\ tid' = e.id /\ present' = PresentOf(e.log) /\ logStart' = e.logStart /\ hw' = e.hw
         /\ start' = e.start /\ lower' = LowerFor(e.start, e.logStart, e.hw)
         /\ seg' = <<>> /\ bad' = {} /\ stalled' = FALSE /\ hangs' = {} /\ unresolved' = (e.start = -1)
         /\ res' = <<>> /\ known' = {} /\ old' = {}
    \* the application positions the reader.  (Taken at the beginning of the call: the new background reader may connect,
    \* resolve its position and fetch before the call is recorded as returned; the application makes no other call meanwhile.)
    [] e.ev = "setoffset.begin" ->
         /\ start' = e.o /\ lower' = LowerFor(e.o, logStart, hw) /\ seg' = <<>>
         /\ unresolved' = (e.o = -1)
         /\ UNCHANGED <<tid, present, logStart, hw, bad, stalled, hangs, res, known, old>>
    \* a new background reader replaces the previous one (Reader.start): the connections made so far are not its own
    [] e.ev = "start" ->
         /\ old' = known
         /\ UNCHANGED <<tid, present, logStart, hw, start, lower, seg, bad, stalled, hangs, unresolved, res, known>>
    \* the leader's first answer about the end of the log on a connection (reader.initialize asks before it seeks)
    [] e.ev = "listoffsets" /\ e.at = -1 /\ e.code = 0 /\ e.k = 1 ->
         /\ res' = IF e.conn \in DOMAIN res THEN res ELSE res @@ (e.conn :> e.off)
         /\ known' = known \cup {e.conn}
         /\ UNCHANGED <<tid, present, logStart, hw, start, lower, seg, bad, stalled, hangs, unresolved, old>>
    \* "last" is resolved by the reader when it connects, not when SetOffset returns.  The reader is positioned by the
    \* first connection of the new reader that gets as far as fetching: what the leader answered on THAT connection is
    \* the start, once and for all -- connections made later (after a fault) do not move it, whatever was appended
    \* meanwhile.  (Without a recorded answer: what the first fetch request asks for.)  It is never below the end at the
    \* time of the call and never beyond the current end.
    [] e.ev = "fetch" /\ unresolved /\ e.conn \notin old ->
         /\ unresolved' = FALSE
         /\ lower' = LET c == IF e.conn \in DOMAIN res THEN res[e.conn] ELSE e.off
                      IN IF c >= lower /\ c <= hw THEN c ELSE lower
         /\ known' = known \cup {e.conn}
         /\ UNCHANGED <<tid, present, logStart, hw, start, seg, bad, stalled, hangs, res, old>>
    [] e.ev = "msg" ->
         /\ seg' = Append(seg, e.off)
         /\ bad' = IF e.ok THEN bad ELSE bad \cup {e.off}
         /\ UNCHANGED <<tid, present, logStart, hw, start, lower, stalled, hangs, unresolved, res, known, old>>
    [] e.ev = "nomsg" ->
         /\ stalled' = (Owed # {} /\ ~unresolved)
         /\ UNCHANGED <<tid, present, logStart, hw, start, lower, seg, bad, hangs, unresolved, res, known, old>>
    [] e.ev = "append" ->
         /\ present' = present \cup Range(e.batch.present)
         /\ hw' = Max(hw, e.batch.last + 1)
         /\ UNCHANGED <<tid, logStart, start, lower, seg, bad, stalled, hangs, unresolved, res, known, old>>
    [] e.ev = "logstart" ->
         /\ logStart' = e.o
         /\ UNCHANGED <<tid, present, hw, start, lower, seg, bad, stalled, hangs, unresolved, res, known, old>>
    [] e.ev = "hang" ->
         /\ hangs' = hangs \cup {e.what}
         /\ UNCHANGED <<tid, present, logStart, hw, start, lower, seg, bad, stalled, unresolved, res, known, old>>
    [] OTHER -> UNCHANGED <<tid, present, logStart, hw, start, lower, seg, bad, stalled, hangs, unresolved, res, known, old>>

Next == l <= Len(Trace) /\ l' = l + 1 /\ Upd(Trace[l])
Spec == Init /\ [][Next]_mvars

\* C02: increasing offset order, each once
C02_Ascending == \A i \in 1 .. Len(seg) - 1 : seg[i] < seg[i + 1]
\* every delivered message is a stored record with the stored content, at or after the position
C02_StoredContent == /\ bad = {}
                     /\ \A i \in DOMAIN seg : seg[i] \in present /\ seg[i] >= lower
\* no stored record between the position and what was delivered is skipped
\* (records below the current log start may have been removed by retention before they were read)
C02_NoGap ==
  \A i \in DOMAIN seg :
     \A x \in present :
        (x >= lower /\ x >= logStart /\ x < seg[i] /\ (i > 1 => x > seg[i - 1])) => FALSE
\* no stall while stored records remain and no fault is pending
C02_Progress == ~stalled
C09r_CloseReturns == "close" \notin hangs

TraceAccepted == TLCGet("stats").diameter = Len(Trace) + 1
=============================================================================
