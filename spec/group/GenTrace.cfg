SPECIFICATION TSpec
INVARIANTS Accounting
POSTCONDITION TraceAccepted
CHECK_DEADLOCK FALSE
