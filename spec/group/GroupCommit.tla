---------------------------- MODULE GroupCommit ----------------------------
(***************************************************************************)
(* Delivery and offset commits of consumer-group Readers across            *)
(* rebalances (reader.go: subscribe/start, FetchMessage version filter,    *)
(* CommitMessages, commitLoopImmediate/Interval with the final commit when *)
(* a generation ends; consumergroup.go: fetchOffsets).  The generation     *)
(* life cycle itself is Group.tla; here it is abstracted to what C03       *)
(* reads: the coordinator's generation, the assignment, the committed      *)
(* offsets, and which generation each member believes it is in.            *)
(***************************************************************************)
EXTENDS Integers, Sequences, FiniteSets, TLC

CONSTANTS Members, Parts, N, ChanCap, Bug,   \* Bug: "none", or a seeded defect used as vacuity guard
       \* offsets 0 .. N-1 are stored in every partition
          MaxGens, QCap

VARIABLES
  cgen,        \* coordinator: current generation
  cassign,     \* coordinator: partition -> owning member (0: nobody) in the current generation
  committed,   \* coordinator: partition -> committed offset (-1: none)
  mgen,        \* member -> generation it believes it is in (0: rejoining / not in the group)
  massign,     \* member -> set of partitions assigned in its generation
  ver,         \* member -> Reader.version (bumped by every subscribe)
  nxt,         \* member -> partition -> next offset its fetcher will read
  queue,       \* member -> sequence of [ver, p, off] (Reader.msgs)
  chan,        \* member -> sequence of [p, off] commit requests (Reader.commits), off = message offset + 1
  stash,       \* member -> partition -> highest offset merged by the commit loop (-1: none)
  alive,       \* members that have not crashed
  handed,      \* member -> partition -> [ver, off] of the last message FetchMessage returned (off -1: none)
  gap,         \* a message was handed out that does not follow the previous one of its subscription
  delivered,   \* partition -> set of offsets returned to some application
  asked        \* partition -> highest message offset passed to CommitMessages (-1: none)

vars == <<cgen, cassign, committed, mgen, massign, ver, nxt, queue, chan, stash, alive, handed, gap, delivered, asked>>

Max(a, b) == IF a >= b THEN a ELSE b

Init ==
  /\ cgen = 0 /\ cassign = [p \in Parts |-> 0] /\ committed = [p \in Parts |-> -1]
  /\ mgen = [m \in Members |-> 0] /\ massign = [m \in Members |-> {}]
  /\ ver = [m \in Members |-> 0] /\ nxt = [m \in Members |-> [p \in Parts |-> 0]]
  /\ queue = [m \in Members |-> <<>>] /\ chan = [m \in Members |-> <<>>]
  /\ stash = [m \in Members |-> [p \in Parts |-> -1]]
  /\ alive = Members /\ handed = [m \in Members |-> [p \in Parts |-> [ver |-> 0, off |-> -1]]] /\ gap = FALSE
  /\ delivered = [p \in Parts |-> {}] /\ asked = [p \in Parts |-> -1]

\* the coordinator completes a rebalance: a new generation with a new assignment over the members that
\* are rejoining (mgen = 0); members still in the old generation find out later (heartbeat error)
NewGeneration(a) ==
  /\ cgen < MaxGens
  /\ \A p \in Parts : a[p] \in { m \in alive : mgen[m] = 0 } \cup {0}
  /\ \E p \in Parts : a[p] # 0
  /\ cgen' = cgen + 1 /\ cassign' = a
  /\ UNCHANGED <<committed, mgen, massign, ver, nxt, queue, chan, stash, alive, handed, gap, delivered, asked>>

\* sync + OffsetFetch + subscribe: the member starts its fetchers at the committed offsets (or the start offset 0)
Subscribe(m) ==
  /\ m \in alive /\ mgen[m] = 0 /\ cgen > 0 /\ \E p \in Parts : cassign[p] = m
  /\ ver[m] < cgen            \* one subscription per generation: a member that left joins a new generation
  /\ mgen' = [mgen EXCEPT ![m] = cgen]
  /\ massign' = [massign EXCEPT ![m] = { p \in Parts : cassign[p] = m }]
  /\ ver' = [ver EXCEPT ![m] = cgen]
  /\ nxt' = [nxt EXCEPT ![m] = [p \in Parts |-> IF committed[p] >= 0 THEN committed[p] + (IF Bug = "startPlus1" THEN 1 ELSE 0) ELSE 0]]
  /\ stash' = [stash EXCEPT ![m] = [p \in Parts |-> -1]]      \* the stash does not survive a rebalance
  /\ UNCHANGED <<cgen, cassign, committed, queue, chan, alive, handed, gap, delivered, asked>>

\* a fetcher hands the next record of an assigned partition to the queue
FetcherDeliver(m, p) ==
  /\ m \in alive /\ mgen[m] # 0 /\ p \in massign[m] /\ nxt[m][p] < N /\ Len(queue[m]) < QCap
  /\ queue' = [queue EXCEPT ![m] = Append(@, [ver |-> ver[m], p |-> p, off |-> nxt[m][p]])]
  /\ nxt' = [nxt EXCEPT ![m][p] = @ + 1]
  /\ UNCHANGED <<cgen, cassign, committed, mgen, massign, ver, chan, stash, alive, handed, gap, delivered, asked>>

\* FetchMessage: messages of older subscriptions are dropped
AppFetch(m) ==
  /\ m \in alive /\ queue[m] # <<>>
  /\ LET x == Head(queue[m]) IN
       IF x.ver >= ver[m] \/ Bug = "noVersionFilter"
         THEN /\ handed' = [handed EXCEPT ![m][x.p] = [ver |-> x.ver, off |-> x.off]]
              /\ gap' = (gap \/ (handed[m][x.p].ver = x.ver /\ handed[m][x.p].off + 1 # x.off)
                              \/ handed[m][x.p].ver > x.ver)      \* a message of an older subscription after a newer one
              /\ delivered' = [delivered EXCEPT ![x.p] = @ \cup {x.off}]
         ELSE UNCHANGED <<handed, gap, delivered>>
  /\ queue' = [queue EXCEPT ![m] = Tail(@)]
  /\ UNCHANGED <<cgen, cassign, committed, mgen, massign, ver, nxt, chan, stash, alive, asked>>

\* CommitMessages for the last message of partition p the application was handed
AppCommit(m, p) ==
  /\ m \in alive /\ handed[m][p].off >= 0 /\ Len(chan[m]) < ChanCap
  /\ chan' = [chan EXCEPT ![m] = Append(@, [p |-> p, off |-> handed[m][p].off + (IF Bug = "commitPlus2" THEN 2 ELSE 1)])]
  /\ asked' = [asked EXCEPT ![p] = Max(@, handed[m][p].off)]
  /\ UNCHANGED <<cgen, cassign, committed, mgen, massign, ver, nxt, queue, stash, alive, handed, gap, delivered>>

\* the commit loop merges a request into the stash (max per partition)
LoopMerge(m) ==
  /\ m \in alive /\ mgen[m] # 0 /\ chan[m] # <<>>
  /\ LET c == Head(chan[m]) IN stash' = [stash EXCEPT ![m][c.p] = Max(@, c.off)]
  /\ chan' = [chan EXCEPT ![m] = Tail(@)]
  /\ UNCHANGED <<cgen, cassign, committed, mgen, massign, ver, nxt, queue, alive, handed, gap, delivered, asked>>

\* OffsetCommit of the stash: the coordinator accepts it from a member of the current generation only
LoopCommit(m) ==
  /\ m \in alive /\ mgen[m] # 0 /\ \E p \in Parts : stash[m][p] >= 0
  /\ IF mgen[m] = cgen
       THEN committed' = [p \in Parts |-> IF stash[m][p] >= 0 THEN stash[m][p] ELSE committed[p]]
       ELSE UNCHANGED committed                       \* IllegalGeneration
  /\ stash' = [stash EXCEPT ![m] = [p \in Parts |-> -1]]
  /\ UNCHANGED <<cgen, cassign, mgen, massign, ver, nxt, queue, chan, alive, handed, gap, delivered, asked>>

\* the member's generation ends (heartbeat error, rebalance): final commit of everything queued for
\* commit, fetchers stopped, then it rejoins
GenEnd(m) ==
  /\ m \in alive /\ mgen[m] # 0
  /\ LET RECURSIVE Merge(_, _)
         Merge(st, ch) == IF ch = <<>> THEN st ELSE Merge([st EXCEPT ![Head(ch).p] = Max(@, Head(ch).off)], Tail(ch))
         final == Merge(stash[m], chan[m]) IN
       committed' = IF mgen[m] = cgen
                      THEN [p \in Parts |-> IF final[p] >= 0 THEN final[p] ELSE committed[p]]
                      ELSE committed
  /\ chan' = [chan EXCEPT ![m] = <<>>]
  /\ stash' = [stash EXCEPT ![m] = [p \in Parts |-> -1]]
  /\ mgen' = [mgen EXCEPT ![m] = 0] /\ massign' = [massign EXCEPT ![m] = {}]
  /\ UNCHANGED <<cgen, cassign, ver, nxt, queue, alive, handed, gap, delivered, asked>>

\* a member crashes: no final commit, it is evicted at the next rebalance
Crash(m) ==
  /\ m \in alive /\ Cardinality(alive) > 1
  /\ alive' = alive \ {m}
  /\ UNCHANGED <<cgen, cassign, committed, mgen, massign, ver, nxt, queue, chan, stash, handed, gap, delivered, asked>>

Assignments == [Parts -> Members \cup {0}]
Next ==
  \/ \E a \in Assignments : NewGeneration(a)
  \/ \E m \in Members : Subscribe(m) \/ AppFetch(m) \/ LoopMerge(m) \/ LoopCommit(m) \/ GenEnd(m) \/ Crash(m)
  \/ \E m \in Members, p \in Parts : FetcherDeliver(m, p)
  \/ \E m \in Members, p \in Parts : AppCommit(m, p)

Spec == Init /\ [][Next]_vars
NextNoCrash ==
  \/ \E a \in Assignments : NewGeneration(a)
  \/ \E m \in Members : Subscribe(m) \/ AppFetch(m) \/ LoopMerge(m) \/ LoopCommit(m) \/ GenEnd(m)
  \/ \E m \in Members, p \in Parts : FetcherDeliver(m, p) \/ AppCommit(m, p)
SpecNoCrash == Init /\ [][NextNoCrash]_vars

-----------------------------------------------------------------------------
\* C03: the committed offset never exceeds one plus the highest offset passed to CommitMessages
C03_CommitNotAhead == \A p \in Parts : committed[p] <= 1 + asked[p]
\* C03: every stored record below an acknowledged commit was delivered to some member before
C03_DeliveredBeforeCovered == \A p \in Parts : \A o \in 0 .. committed[p] - 1 : o \in delivered[p]
\* C03: within one subscription, a partition's records are handed out without gaps
C03_NoGapInStream == ~gap
\* only partitions of the member's assignment at that subscription are delivered: implied by Subscribe/FetcherDeliver
TypeOK == \A p \in Parts : committed[p] \in -1 .. N
=============================================================================
