SPECIFICATION Spec
CONSTANTS Members = {1, 2}
  Parts = {0}
  N = 3
  MaxGens = 2
  QCap = 1
  ChanCap = 1
  Bug = "none"
INVARIANTS TypeOK C03_CommitNotAhead C03_DeliveredBeforeCovered C03_NoGapInStream
CHECK_DEADLOCK FALSE
