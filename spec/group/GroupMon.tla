------------------------------ MODULE GroupMon ------------------------------
(***************************************************************************)
(* Property monitor for consumer-group scenarios run on the real code      *)
(* (kafka.Reader with a GroupID, or a bare kafka.ConsumerGroup) against    *)
(* the fake coordinator.  The coordinator's journal, the leader's fetch    *)
(* journal, the library's hook events and the application's calls are      *)
(* replayed; every clause of C03 / C15 / C09 (reader and group part) that  *)
(* an event can falsify is evaluated at that event and recorded in `viol`; *)
(* one invariant per clause.                                               *)
(***************************************************************************)
EXTENDS Integers, Sequences, FiniteSets, TLC, Json, IOUtils

Trace == ndJsonDeserialize(IOEnv.TRACE)

VARIABLES
  l, tid, cfg,
  stored,     \* tp -> number of stored records (offsets 0 .. n-1)
  committed,  \* tp -> last acknowledged committed offset (-1: none)
  asked,      \* tp -> highest offset passed to CommitMessages / handed out by ReadMessage (-1: none)
  delivered,  \* tp -> set of offsets returned to some member's application
  fetched,    \* owner -> (tp -> committed offset the coordinator returned in its last OffsetFetch)
  stream,     \* <<m, ver>> -> (tp -> [start, hw, got])
  pending,    \* <<m, call id>> -> [msgs, acked] of the CommitMessages calls in progress (call id 0 unless calls overlap)
  reading,    \* members inside ReadMessage
  handed,     \* m -> <<tp, off>> of a record FetchMessage took from the Reader's queue and has not yet returned to the application
  closedAt,   \* m -> time Close returned
  joined,     \* owner -> member id of its last successful JoinGroup ("" none)
  left,       \* owner -> set of member ids it sent LeaveGroup for
  faulted,    \* owners with an injected fault on findcoordinator / leave
  gens,       \* <<m, gen>> -> [routines, ended, closed, cause, lastHb]
  lastFail,   \* owner -> time of its last failed join/sync that requires a back-off (-1: none)
  closing,    \* members whose Close was called
  viol        \* set of violated clause labels

mvars == <<l, tid, cfg, stored, committed, asked, delivered, fetched, stream, pending, reading, handed, closedAt, joined, left,
           faulted, gens, lastFail, closing, viol>>

NoCfg == [mode |-> "", startOffset |-> -2, sync |-> TRUE, heartbeatMs |-> 25, backoffMs |-> 60]
Init ==
  /\ l = 1 /\ tid = "" /\ cfg = NoCfg /\ stored = <<>> /\ committed = <<>> /\ asked = <<>> /\ delivered = <<>>
  /\ fetched = <<>> /\ stream = <<>> /\ pending = <<>> /\ reading = {} /\ handed = <<>> /\ closedAt = <<>> /\ joined = <<>> /\ left = <<>>
  /\ faulted = {} /\ gens = <<>> /\ lastFail = <<>> /\ closing = {} /\ viol = {}

Get(f, k, d) == IF k \in DOMAIN f THEN f[k] ELSE d
Put(f, k, v) == (k :> v) @@ f
Del(f, k) == [x \in DOMAIN f \ {k} |-> f[x]]
Max(a, b) == IF a >= b THEN a ELSE b
TPKey(x) == x[1] \o "/" \o ToString(x[2])     \* ["t", 0] -> "t/0"
OwnerOf(m) == "m" \o ToString(m)
Last(s) == s[Len(s)]

Same == UNCHANGED <<tid, cfg, stored, committed, asked, delivered, fetched, stream, pending, reading, handed, closedAt, joined, left,
                    faulted, gens, lastFail, closing, viol>>

\* requests that arrive long after Close returned (the grace period absorbs the recording lag of in-flight ones)
LateCheck(e, owner) ==
  IF \E m \in DOMAIN closedAt : OwnerOf(m) = owner /\ e.ts > closedAt[m] + 1000
    THEN {"C09r_QuietAfterClose"} ELSE {}

\* born: time of the first Start; due: time since which the generation has a reason to end (-1: none yet)
\* offered: time the run loop had the generation ready for Next (it is live from then on)
NewGen == [routines |-> 0, ended |-> FALSE, closed |-> FALSE, cause |-> FALSE, lastHb |-> -1, born |-> -1, due |-> -1, offered |-> -1]
\* C15 "heartbeats are sent at the configured interval for as long as the generation lives": a generation that has been live for
\* longer than HbSlack without a single heartbeat reaching the coordinator (e.g. because nobody had called Next yet)
HbSlack == 3 * cfg.heartbeatMs + 2500
MOf(owner) == CHOOSE m \in 1 .. 20 : OwnerOf(m) = owner
\* (key <<m, 0>> is not a generation: it remembers when member m's last handshake was completed, i.e. since when the generation
\* that Next hands out afterwards has been live)
Silent(m, now) == \E k \in DOMAIN gens : k[1] = m /\ k[2] # 0 /\ gens[k].offered >= 0 /\ gens[k].lastHb < 0 /\ ~gens[k].ended /\ now - gens[k].offered > HbSlack
Due(g, now) == IF g.due < 0 /\ ~g.ended THEN [g EXCEPT !.due = now] ELSE g
\* C15 "ends it promptly": a generation that got a reason to end more than Grace ms ago has ended
Grace == 1500
\* (born >= 0: a generation the application was handed; the hooks of one it never received are not recorded, see above)
Overdue(m, now) == \E k \in DOMAIN gens : k[1] = m /\ k[2] # 0 /\ gens[k].born >= 0 /\ gens[k].due >= 0 /\ ~gens[k].ended /\ now - gens[k].due > Grace
Coord(e) ==
  LET owner == e.owner IN
  CASE e.api = "join" ->
         \* (a rejected join, e.g. UnknownMemberId after an eviction, means the old member id is gone)
         /\ joined' = IF e.code = 0 THEN Put(joined, owner, e.member) ELSE IF e.code = 25 THEN Put(joined, owner, "") ELSE joined
         /\ lastFail' = IF e.code \notin {0, 27} THEN Put(lastFail, owner, e.ts) ELSE Put(lastFail, owner, -1)
         /\ viol' = viol \cup LateCheck(e, owner)
                        \cup (IF Get(lastFail, owner, -1) >= 0 /\ e.ts - lastFail[owner] < cfg.backoffMs - 5
                                THEN {"C15_BackoffAfterFailedJoin"} ELSE {})
         /\ UNCHANGED <<tid, cfg, stored, committed, asked, delivered, fetched, stream, pending, reading, handed, closedAt, left, faulted, gens, closing>>
    [] e.api = "sync" ->
         /\ lastFail' = IF e.code \notin {0, 27} THEN Put(lastFail, owner, e.ts) ELSE lastFail
         /\ viol' = viol \cup LateCheck(e, owner)
         /\ UNCHANGED <<tid, cfg, stored, committed, asked, delivered, fetched, stream, pending, reading, handed, closedAt, joined, left, faulted, gens, closing>>
    [] e.api = "leave" ->
         /\ left' = Put(left, owner, Get(left, owner, {}) \cup {e.member})
         /\ UNCHANGED <<tid, cfg, stored, committed, asked, delivered, fetched, stream, pending, reading, handed, closedAt, joined, faulted, gens, lastFail, closing, viol>>
    [] e.api = "offsetfetch" ->
         /\ gens' = IF e.code = 0 /\ cfg.mode = "cg" THEN Put(gens, <<MOf(owner), 0>>, [NewGen EXCEPT !.offered = e.ts]) ELSE gens
         /\ fetched' = Put(fetched, owner, [k \in { TPKey(x) : x \in { e.offsets[i] : i \in DOMAIN e.offsets } } |->
                                              (CHOOSE x \in { e.offsets[i] : i \in DOMAIN e.offsets } : TPKey(x) = k)[3]])
         /\ viol' = viol \cup LateCheck(e, owner)
         /\ UNCHANGED <<tid, cfg, stored, committed, asked, delivered, stream, pending, reading, handed, closedAt, joined, left, faulted, lastFail, closing>>
    [] e.api = "offsetcommit" /\ e.code = 0 ->
         LET offs == { e.offsets[i] : i \in DOMAIN e.offsets } IN
         /\ committed' = [k \in DOMAIN committed \cup { TPKey(x) : x \in offs } |->
                             IF \E x \in offs : TPKey(x) = k THEN (CHOOSE x \in offs : TPKey(x) = k)[3] ELSE committed[k]]
         /\ pending' = [m \in DOMAIN pending |->
                          IF OwnerOf(m[1]) = owner
                            THEN [pending[m] EXCEPT !.acked = [k \in DOMAIN pending[m].acked \cup { TPKey(x) : x \in offs } |->
                                      Max(Get(pending[m].acked, k, -1),
                                          IF \E x \in offs : TPKey(x) = k THEN (CHOOSE x \in offs : TPKey(x) = k)[3] ELSE -1)]]
                            ELSE pending[m]]
         /\ viol' = viol \cup LateCheck(e, owner)
              \cup (IF \E x \in offs : x[3] > 1 + Get(asked, TPKey(x), -1) THEN {"C03_CommitNotAhead"} ELSE {})
              \cup (IF cfg.startOffset = -2 /\ \E x \in offs : \E o \in 0 .. x[3] - 1 :
                         o < Get(stored, TPKey(x), 0) /\ o \notin Get(delivered, TPKey(x), {})
                      THEN {"C03_DeliveredBeforeCovered"} ELSE {})
         /\ UNCHANGED <<tid, cfg, stored, asked, delivered, fetched, stream, reading, handed, closedAt, joined, left, faulted, gens, lastFail, closing>>
    [] e.api = "heartbeat" ->
         \* (the Generation hooks of a generation the application has not received yet are recorded only when Next returns it:
         \* a heartbeat may be the first event that mentions the generation)
         /\ gens' = LET k0 == <<MOf(owner), e.generation>>
                        base == IF k0 \in DOMAIN gens THEN gens ELSE Put(gens, k0, NewGen) IN
                    [k \in DOMAIN base |->
                       IF OwnerOf(k[1]) = owner /\ k[2] = e.generation
                         THEN (IF e.code # 0 THEN Due([base[k] EXCEPT !.lastHb = e.ts, !.cause = TRUE], e.ts) ELSE [base[k] EXCEPT !.lastHb = e.ts]) ELSE base[k]]
         /\ viol' = viol \cup LateCheck(e, owner)
              \cup (IF \E k \in DOMAIN gens : OwnerOf(k[1]) = owner /\ k[2] = e.generation /\ gens[k].closed
                      THEN {"C15_NoHeartbeatAfterEnd"} ELSE {})
              \* a member that has left the group (LeaveGroup is the last thing Close does) does not heartbeat any more
              \cup (IF e.member # "" /\ e.member \in Get(left, owner, {}) THEN {"C15_NoHeartbeatAfterEnd"} ELSE {})
              \cup (IF \E k \in DOMAIN gens : OwnerOf(k[1]) = owner /\ k[2] = e.generation /\ ~gens[k].ended
                          /\ gens[k].lastHb >= 0 /\ e.ts - gens[k].lastHb > 3 * cfg.heartbeatMs + 2500
                      THEN {"C15_HeartbeatInterval"} ELSE {})
         /\ UNCHANGED <<tid, cfg, stored, committed, asked, delivered, fetched, stream, pending, reading, handed, closedAt, joined, left, faulted, lastFail, closing>>
    [] OTHER -> viol' = viol \cup LateCheck(e, owner)
                /\ UNCHANGED <<tid, cfg, stored, committed, asked, delivered, fetched, stream, pending, reading, handed, closedAt, joined, left, faulted, gens, lastFail, closing>>

\* Reader.start: the offsets the new subscription begins at = committed offsets the coordinator returned, else StartOffset
RStart(e) ==
  LET owner == OwnerOf(e.m)
      f == Get(fetched, owner, <<>>)
      offs == e.offsets IN
  /\ stream' = Put(stream, <<e.m, e.ver>>, [k \in DOMAIN offs |-> [start |-> offs[k], hw |-> Get(stored, k, 0), got |-> <<>>, f0 |-> -1]])
  /\ viol' = viol \cup (IF ("!failed" \in DOMAIN f /\ DOMAIN offs # {}) \/ \E k \in DOMAIN offs : offs[k] # (IF Get(f, k, -1) >= 0 THEN f[k] ELSE cfg.startOffset)
                          THEN {"C03_StartAtCommit"} ELSE {})
  /\ UNCHANGED <<tid, cfg, stored, committed, asked, delivered, fetched, pending, reading, handed, closedAt, joined, left, faulted, gens, lastFail, closing>>

Deliver(e) ==
  LET key == <<e.m, e.ver>>
      known == key \in DOMAIN stream /\ e.tp \in DOMAIN stream[key]
      s == stream[key][e.tp]
      first == IF s.start >= 0 THEN s.start ELSE IF s.start = -2 THEN 0 ELSE s.hw IN
  /\ stream' = IF known THEN [stream EXCEPT ![key][e.tp].got = Append(@, e.off)] ELSE stream
  /\ delivered' = Put(delivered, e.tp, Get(delivered, e.tp, {}) \cup {e.off})
  /\ asked' = IF e.m \in reading THEN Put(asked, e.tp, Max(Get(asked, e.tp, -1), e.off)) ELSE asked
  /\ handed' = Put(handed, e.m, <<e.tp, e.off>>)
  /\ viol' = viol
       \cup (IF ~known THEN {"C03_OnlyAssigned"} ELSE {})
       \cup (IF known /\ s.got = <<>> /\ (IF s.start = -1 THEN e.off < first ELSE e.off # first) THEN {"C03_StartAtCommit"} ELSE {})
       \* StartOffset = LastOffset: "last" is resolved once, when the partition is assigned; the first fetch request of the
       \* member's first subscription shows what it resolved to, and delivery starts exactly there
       \cup (IF known /\ s.got = <<>> /\ s.start = -1 /\ s.f0 >= 0 /\ e.off # s.f0 THEN {"C03_StartAtCommit"} ELSE {})
       \* a record taken from the queue by an earlier FetchMessage call never reached the application
       \cup (IF e.m \in DOMAIN handed /\ e.m \notin reading THEN {"C03_DeliveredReachesApp"} ELSE {})
       \cup (IF known /\ s.got # <<>> /\ e.off # Last(s.got) + 1 THEN {"C03_NoGapInStream"} ELSE {})
       \cup (IF e.off >= Get(stored, e.tp, 0) THEN {"C03_StoredOnly"} ELSE {})
  /\ UNCHANGED <<tid, cfg, stored, committed, fetched, pending, reading, closedAt, joined, left, faulted, gens, lastFail, closing>>

GenKey(e) == <<e.m, e.gen>>
GenUpd(e) ==
  LET k == GenKey(e)
      g0 == Get(gens, k, NewGen) IN
  CASE e.ev = "gstart" ->
         /\ gens' = Put(gens, k, [g0 EXCEPT !.routines = IF e.tracked THEN e.routines ELSE @, !.born = IF @ < 0 THEN e.ts ELSE @])
         /\ UNCHANGED viol
    [] e.ev = "gfnexit" ->
         /\ gens' = Put(gens, k, [g0 EXCEPT !.routines = e.routines, !.ended = TRUE])
         \* the first function to return ends the generation: there must be a cause for it
         /\ viol' = viol \cup (IF ~e.wasClosed /\ ~g0.cause /\ ~cfg.gone /\ e.m \notin closing THEN {"C15_EndCauses"} ELSE {})
    [] e.ev = "gclose" ->
         /\ gens' = Put(gens, k, [g0 EXCEPT !.ended = TRUE])
         /\ viol' = viol \cup (IF ~e.wasClosed /\ e.m \notin closing THEN {"C15_EndCauses"} ELSE {})
    [] e.ev = "gclosed" ->
         /\ gens' = Put(gens, k, [g0 EXCEPT !.closed = TRUE])
         /\ viol' = viol \cup (IF g0.routines # 0 THEN {"C15_CloseWaits"} ELSE {})
    [] OTHER -> UNCHANGED <<gens, viol>>

Upd(e) ==
  CASE e.ev = "cfg" ->
         /\ tid' = e.id /\ cfg' = [mode |-> e.mode, startOffset |-> e.startOffset, sync |-> e.sync,
                                   heartbeatMs |-> (IF e.heartbeatMs = 0 THEN 25 ELSE e.heartbeatMs),
                                   backoffMs |-> (IF e.backoffMs = 0 THEN 60 ELSE e.backoffMs), watch |-> e.watch,
                                   gone |-> FALSE]   \* a watched topic was deleted: every new generation's watcher returns at once
         /\ stored' = e.stored
         /\ committed' = [k \in DOMAIN e.stored |-> -1] /\ asked' = [k \in DOMAIN e.stored |-> -1]
         /\ delivered' = [k \in DOMAIN e.stored |-> {}]
         /\ fetched' = <<>> /\ stream' = <<>> /\ pending' = <<>> /\ reading' = {} /\ handed' = <<>> /\ closedAt' = <<>> /\ joined' = <<>>
         /\ left' = <<>> /\ faulted' = {} /\ gens' = <<>> /\ lastFail' = <<>> /\ closing' = {} /\ viol' = {}
    [] e.ev = "coord" -> Coord(e)
    [] e.ev = "injected" ->
         /\ faulted' = IF e.api \in {"findcoordinator", "leave"} THEN faulted \cup {e.owner} ELSE faulted
         /\ lastFail' = IF e.api \in {"join", "sync"} /\ e.code # 27 THEN Put(lastFail, e.owner, e.ts) ELSE lastFail
         /\ gens' = IF e.api = "heartbeat"
                      THEN [k \in DOMAIN gens |-> IF OwnerOf(k[1]) = e.owner /\ ~gens[k].ended THEN Due([gens[k] EXCEPT !.cause = TRUE], e.ts) ELSE gens[k]]
                      ELSE gens
         \* a failed OffsetFetch: the member does not know the group's commits until it has asked again
         /\ fetched' = IF e.api = "offsetfetch" THEN Put(fetched, e.owner, [x \in {"!failed"} |-> 0]) ELSE fetched
         /\ UNCHANGED <<tid, cfg, stored, committed, asked, delivered, stream, pending, reading, handed, closedAt, joined, left, closing, viol>>
    [] e.ev = "evict" ->
         /\ joined' = Put(joined, OwnerOf(e.m), "")
         /\ UNCHANGED <<tid, cfg, stored, committed, asked, delivered, fetched, stream, pending, reading, handed, closedAt, left, faulted, gens, lastFail, closing, viol>>
    [] e.ev = "rstart" -> RStart(e)
    [] e.ev = "deliver" -> Deliver(e)
    [] e.ev = "msg" ->
         /\ viol' = viol \cup (IF ~e.ok THEN {"C03_StoredOnly"} ELSE {})
                        \cup (IF e.m \in DOMAIN handed /\ handed[e.m] # <<e.tp, e.off>> THEN {"C03_DeliveredReachesApp"} ELSE {})
         /\ reading' = reading \ {e.m}
         /\ handed' = Del(handed, e.m)
         /\ UNCHANGED <<tid, cfg, stored, committed, asked, delivered, fetched, stream, pending, closedAt, joined, left, faulted, gens, lastFail, closing>>
    [] e.ev = "read.call" ->
         /\ reading' = reading \cup {e.m}
         /\ UNCHANGED handed
         /\ UNCHANGED <<tid, cfg, stored, committed, asked, delivered, fetched, stream, pending, closedAt, joined, left, faulted, gens, lastFail, closing, viol>>
    [] e.ev \in {"nomsg", "eof", "fetcherr"} ->
         /\ reading' = reading \ {e.m}
         /\ handed' = Del(handed, e.m)
         \* FetchMessage returned an error although it had taken a record from the queue: the record is lost to the application
         /\ viol' = viol \cup (IF e.m \in DOMAIN handed /\ e.m \notin reading THEN {"C03_DeliveredReachesApp"} ELSE {})
         /\ UNCHANGED <<tid, cfg, stored, committed, asked, delivered, fetched, stream, pending, closedAt, joined, left, faulted, gens, lastFail, closing>>
    [] e.ev = "commit.call" ->
         /\ asked' = [k \in DOMAIN asked \cup { e.msgs[i][1] : i \in DOMAIN e.msgs } |->
                        Max(Get(asked, k, -1), IF \E i \in DOMAIN e.msgs : e.msgs[i][1] = k
                                                 THEN (CHOOSE x \in { e.msgs[i] : i \in DOMAIN e.msgs } :
                                                          x[1] = k /\ \A y \in { e.msgs[i] : i \in DOMAIN e.msgs } : y[1] = k => y[2] <= x[2])[2]
                                                 ELSE -1)]
         /\ pending' = Put(pending, <<e.m, IF "cid" \in DOMAIN e THEN e.cid ELSE 0>>, [msgs |-> e.msgs, acked |-> <<>>])
         /\ UNCHANGED <<tid, cfg, stored, committed, delivered, fetched, stream, reading, handed, closedAt, joined, left, faulted, gens, lastFail, closing, viol>>
    [] e.ev = "commit.return" ->
         /\ viol' = viol \cup
              (IF e.sync /\ e.err = "" /\ <<e.m, IF "cid" \in DOMAIN e THEN e.cid ELSE 0>> \in DOMAIN pending
                    /\ \E i \in DOMAIN e.msgs : Get(pending[<<e.m, IF "cid" \in DOMAIN e THEN e.cid ELSE 0>>].acked, e.msgs[i][1], -1) < e.msgs[i][2] + 1
                 THEN {"C03_SyncAckRecorded"} ELSE {})
         /\ UNCHANGED <<tid, cfg, stored, committed, asked, delivered, fetched, stream, pending, reading, handed, closedAt, joined, left, faulted, gens, lastFail, closing>>
    [] e.ev = "append" ->
         /\ stored' = Put(stored, e.tp, e.hw)
         /\ UNCHANGED <<tid, cfg, committed, asked, delivered, fetched, stream, pending, reading, handed, closedAt, joined, left, faulted, gens, lastFail, closing, viol>>
    [] e.ev = "close.call" ->
         /\ closing' = closing \cup {e.m}
         /\ viol' = viol \cup (IF Overdue(e.m, e.ts) THEN {"C15_EndsOnCause"} ELSE {})
                        \cup (IF Silent(e.m, e.ts) THEN {"C15_HeartbeatInterval"} ELSE {})
         /\ UNCHANGED <<tid, cfg, stored, committed, asked, delivered, fetched, stream, pending, reading, handed, closedAt, joined, left, faulted, gens, lastFail>>
    [] e.ev = "close.return" ->
         /\ closedAt' = Put(closedAt, e.m, e.ts)
         \* the group it had joined is left (unless the coordinator could not be reached because of an injected fault)
         /\ viol' = viol \cup
              (IF Get(joined, OwnerOf(e.m), "") # "" /\ OwnerOf(e.m) \notin faulted
                    /\ Get(joined, OwnerOf(e.m), "") \notin Get(left, OwnerOf(e.m), {})
                 THEN {"C15_LeaveOnClose"} ELSE {})
              \* Close returns only when every function started in any generation has returned
              \cup (IF \E k \in DOMAIN gens : k[1] = e.m /\ gens[k].routines # 0 THEN {"C15_CloseWaits"} ELSE {})
         /\ UNCHANGED <<tid, cfg, stored, committed, asked, delivered, fetched, stream, pending, reading, handed, joined, left, faulted, gens, lastFail, closing>>
    [] e.ev = "bfetch" ->
         /\ viol' = viol \cup LateCheck(e, e.owner)
         \* the first fetch request of the member's first subscription (no earlier fetcher of that member can still be writing)
         /\ stream' = LET ks == { k \in DOMAIN stream : k[1] = MOf(e.owner) } IN
                       IF ks # {} /\ (\A k1, k2 \in ks : k1 = k2)
                         THEN [k \in DOMAIN stream |->
                                 IF k \in ks /\ e.tp \in DOMAIN stream[k] /\ stream[k][e.tp].f0 < 0
                                   THEN [stream[k] EXCEPT ![e.tp].f0 = e.off] ELSE stream[k]]
                         ELSE stream
         /\ UNCHANGED <<tid, cfg, stored, committed, asked, delivered, fetched, pending, reading, handed, closedAt, joined, left, faulted, gens, lastFail, closing>>
    [] e.ev \in {"gstart", "gfnexit", "gclose", "gclosed"} ->
         /\ GenUpd(e)
         /\ UNCHANGED <<tid, cfg, stored, committed, asked, delivered, fetched, stream, pending, reading, handed, closedAt, joined, left, faulted, lastFail, closing>>
    [] e.ev \in {"gen.start", "gen.fnexit"} ->
         \* real-time copies of the Generation hooks (the "gstart"/"gfnexit" events of a generation are recorded only once Next has
         \* handed it out): the number of functions running in the gix-th generation the library created for member m, kept under
         \* the key <<m, -gix>>.  Close waits for these too, whether or not the application ever received the generation.
         /\ gens' = LET k == <<e.m, 0 - e.gix>> IN
                    IF e.ev = "gen.start" /\ ~e.tracked THEN gens
                    ELSE Put(gens, k, [Get(gens, k, NewGen) EXCEPT !.routines = e.routines])
         /\ UNCHANGED <<tid, cfg, stored, committed, asked, delivered, fetched, stream, pending, reading, handed, closedAt, joined, left, faulted, lastFail, closing, viol>>
    [] e.ev = "fn.exit" /\ e.why = "own" ->
         /\ gens' = Put(gens, GenKey(e), Due([Get(gens, GenKey(e), NewGen) EXCEPT !.cause = TRUE], e.ts))
         /\ UNCHANGED <<tid, cfg, stored, committed, asked, delivered, fetched, stream, pending, reading, handed, closedAt, joined, left, faulted, lastFail, closing, viol>>
    [] e.ev = "addpartition" ->
         /\ cfg' = IF cfg.watch /\ "how" \in DOMAIN e /\ e.how = "deleted" THEN [cfg EXCEPT !.gone = TRUE] ELSE cfg
         \* with WatchPartitionChanges, a generation whose watcher had time to read the old partition count must end
         /\ gens' = [k \in DOMAIN gens |-> IF cfg.watch /\ gens[k].born >= 0 /\ e.ts - gens[k].born > 150
                                             THEN Due([gens[k] EXCEPT !.cause = TRUE], e.ts) ELSE [gens[k] EXCEPT !.cause = TRUE]]
         /\ UNCHANGED <<tid, stored, committed, asked, delivered, fetched, stream, pending, reading, handed, closedAt, joined, left, faulted, lastFail, closing, viol>>
    [] e.ev = "offered" ->
         \* (the hook fires when Next has taken the generation; the application may have recorded next.return already)
         LET ready == Get(gens, <<e.m, 0>>, NewGen).offered
             g0 == Get(gens, <<e.m, e.gen>>, NewGen) IN
         /\ gens' = Put(gens, <<e.m, e.gen>>, [g0 EXCEPT !.offered = IF ready >= 0 THEN ready ELSE e.ts])
         \* live since `ready`, handed out only now, and not one heartbeat has reached the coordinator in between
         /\ viol' = viol \cup (IF ready >= 0 /\ e.ts - ready > HbSlack /\ g0.lastHb < 0 THEN {"C15_HeartbeatInterval"} ELSE {})
         /\ UNCHANGED <<tid, cfg, stored, committed, asked, delivered, fetched, stream, pending, reading, handed, closedAt, joined, left, faulted, lastFail, closing>>
    [] e.ev = "next.return" ->
         \* Next hands out a generation only when every tracked function of the earlier ones has returned
         /\ viol' = viol \cup (IF \E k \in DOMAIN gens : k[1] = e.m /\ k[2] > 0 /\ k[2] < e.gen /\ gens[k].routines # 0
                                 THEN {"C15_NextWaits"} ELSE {})
                        \cup (IF Silent(e.m, e.ts) THEN {"C15_HeartbeatInterval"} ELSE {})
         /\ UNCHANGED <<tid, cfg, stored, committed, asked, delivered, fetched, stream, pending, reading, handed, closedAt, joined, left, faulted, gens, lastFail, closing>>
    [] e.ev = "hang" ->
         /\ viol' = viol \cup {IF e.what = "close" THEN "C09r_CloseReturns" ELSE "C09r_AppReturns"}
         /\ UNCHANGED <<tid, cfg, stored, committed, asked, delivered, fetched, stream, pending, reading, handed, closedAt, joined, left, faulted, gens, lastFail, closing>>
    [] e.ev = "end" ->
         /\ viol' = viol
              \cup (IF \E o \in DOMAIN e.open : e.open[o] # 0 THEN {"C09r_ConnsClosed"} ELSE {})
              \* (a member that closed without being able to send LeaveGroup - injected fault - stays a member of the fake coordinator,
              \* which has no session expiry: the partitions it was assigned are not handed to anybody else, nothing can be concluded)
              \cup (IF e.drained /\ cfg.startOffset = -2 /\ \E k \in DOMAIN stored : \E o \in 0 .. stored[k] - 1 : o \notin Get(delivered, k, {})
                         /\ ~(\E m \in DOMAIN closedAt : Get(joined, OwnerOf(m), "") # "" /\ Get(joined, OwnerOf(m), "") \notin Get(left, OwnerOf(m), {}))
                      THEN {"C03_AtLeastOnce"} ELSE {})
         /\ UNCHANGED <<tid, cfg, stored, committed, asked, delivered, fetched, stream, pending, reading, handed, closedAt, joined, left, faulted, gens, lastFail, closing>>
    [] OTHER -> Same

Next == l <= Len(Trace) /\ l' = l + 1 /\ Upd(Trace[l])
Spec == Init /\ [][Next]_mvars

\* one invariant per clause
C03_CommitNotAhead == "C03_CommitNotAhead" \notin viol
C03_SyncAckRecorded == "C03_SyncAckRecorded" \notin viol
C03_StartAtCommit == "C03_StartAtCommit" \notin viol
C03_NoGapInStream == "C03_NoGapInStream" \notin viol
C03_OnlyAssigned == "C03_OnlyAssigned" \notin viol
C03_StoredOnly == "C03_StoredOnly" \notin viol
C03_DeliveredBeforeCovered == "C03_DeliveredBeforeCovered" \notin viol
C03_AtLeastOnce == "C03_AtLeastOnce" \notin viol
C03_DeliveredReachesApp == "C03_DeliveredReachesApp" \notin viol
C15_NextWaits == "C15_NextWaits" \notin viol
C15_CloseWaits == "C15_CloseWaits" \notin viol
C15_EndCauses == "C15_EndCauses" \notin viol
C15_EndsOnCause == "C15_EndsOnCause" \notin viol
C15_NoHeartbeatAfterEnd == "C15_NoHeartbeatAfterEnd" \notin viol
C15_HeartbeatInterval == "C15_HeartbeatInterval" \notin viol
C15_LeaveOnClose == "C15_LeaveOnClose" \notin viol
C15_BackoffAfterFailedJoin == "C15_BackoffAfterFailedJoin" \notin viol
C09r_QuietAfterClose == "C09r_QuietAfterClose" \notin viol
C09r_CloseReturns == "C09r_CloseReturns" \notin viol
C09r_AppReturns == "C09r_AppReturns" \notin viol
C09r_ConnsClosed == "C09r_ConnsClosed" \notin viol

TraceAccepted == TLCGet("stats").diameter = Len(Trace) + 1
=============================================================================
