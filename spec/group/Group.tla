------------------------------- MODULE Group -------------------------------
(***************************************************************************)
(* kafka.ConsumerGroup / Generation (consumergroup.go): the run loop       *)
(* (coordinator lookup, join, sync, offset fetch, offer on `next`, wait    *)
(* for the generation to end, close it, rejoin / leave / back off) and the *)
(* accounting of functions started in a generation (Start, the             *)
(* bookkeeping closure, close).  One member, adversarial coordinator.      *)
(***************************************************************************)
EXTENDS Integers, Sequences, FiniteSets, TLC

CONSTANTS MaxGens,      \* generations the member may go through
          MaxFns,       \* functions the application starts per generation (besides the heartbeat loop)
          MaxFaults     \* coordinator faults (errors / dropped connections)

VARIABLES
  rpc,        \* run loop: "join" | "offer" | "live" | "closing" | "leave" | "backoff" | "reporterr" | "exited"
  gen,        \* number of generations created so far; generation ids are 1..gen
  memberID,   \* 0: none, else the id the coordinator assigned (stays across generations)
  g,          \* per generation: [done, closed, routines, joined, closeWaiting]
  fn,         \* per function <<generation, k>>: "running" | "returned"; k = 0 is the heartbeat loop, k < 0 the partition watchers
  tracked,    \* set of functions counted in g.routines
  apc,        \* application: "idle" | "next" (blocked in Next) | "holding" (has a generation) | "done"
  held,       \* generation the application got from Next (0: none)
  started,    \* functions the application has started, per generation
  cgdone,     \* ConsumerGroup.done closed (Close called)
  closeRet,   \* Close returned
  lastErr,    \* error class of the last nextGeneration: "none" | "rebalance" | "other" | "closed"
  faults,
  leaves,     \* sequence of member ids sent in LeaveGroup
  hbOut,      \* heartbeat of generation n in flight (0: none)
  obsv        \* observation record for the properties (what a history would show), see ObsInit

vars == <<rpc, gen, memberID, g, fn, tracked, apc, held, started, cgdone, closeRet, lastErr, faults, leaves, hbOut, obsv>>

Fns(n) == { f \in DOMAIN fn : f[1] = n }
Live(n) == \E f \in Fns(n) : fn[f] = "running"
\* Lax: drop the guards that the code does not really have (a join already on its way when Close is called still
\* creates a Generation; the heartbeat loop's select may take the ticker once more after the context is done; the
\* selects of the run loop on { cg.done ; gen.done } and { cg.done ; back-off timer } may take the other ready branch).
\* The strict forms are the design intent; MC_lax.cfg checks the same invariants with the guards dropped (Lax <- LaxOn),
\* which is what the recorded traces show (GroupTrace counts JoinOK_lax / HeartbeatSend_lax).
Lax == FALSE
LaxOn == TRUE
NewG == [done |-> FALSE, closed |-> FALSE, routines |-> 0, joined |-> FALSE, closeWaiting |-> FALSE]

ObsInit == [offered |-> 0,            \* highest generation handed out by Next
            overlap |-> FALSE,        \* Next handed out a generation while a tracked function of an older one ran
            overlapAll |-> FALSE,     \* same, counting untracked functions too
            cause |-> {},             \* generations for which an end cause occurred
            ended |-> {},             \* generations whose close() completed
            hbAfterEnd |-> FALSE,     \* a heartbeat was sent for a generation after its close() completed
            needBackoff |-> FALSE,    \* a join failed (not RebalanceInProgress) and the back-off has not elapsed
            joinNoBackoff |-> FALSE,  \* a join was attempted while needBackoff
            closeCalled |-> FALSE]

Ev(k, n) ==
  obsv' =
    CASE k = "next" ->
           [obsv EXCEPT !.offered = n,
              !.overlap = @ \/ \E f \in tracked : f[1] < n /\ fn[f] = "running",
              !.overlapAll = @ \/ \E f \in DOMAIN fn : f[1] < n /\ fn[f] = "running"]
      [] k \in {"hbFailed", "fnEnds"} -> [obsv EXCEPT !.cause = @ \cup {n}]
      [] k = "closeEnd" -> [obsv EXCEPT !.ended = @ \cup {n}]
      [] k = "heartbeat" -> [obsv EXCEPT !.hbAfterEnd = @ \/ n \in obsv.ended]
      [] k = "joinfailOther" -> [obsv EXCEPT !.needBackoff = TRUE, !.joinNoBackoff = @ \/ obsv.needBackoff]
      [] k \in {"created", "joinfailRebalance"} -> [obsv EXCEPT !.joinNoBackoff = @ \/ obsv.needBackoff]
      [] k = "backoffOver" -> [obsv EXCEPT !.needBackoff = FALSE]
      [] k = "closeCall" -> [obsv EXCEPT !.closeCalled = TRUE]
      [] OTHER -> obsv


Init ==
  /\ rpc = "join" /\ gen = 0 /\ memberID = 0
  /\ g = <<>> /\ fn = <<>> /\ tracked = {}
  /\ apc = "idle" /\ held = 0 /\ started = <<>>
  /\ cgdone = FALSE /\ closeRet = FALSE /\ lastErr = "none" /\ faults = 0
  /\ leaves = <<>> /\ hbOut = 0 /\ obsv = ObsInit

(***************************************************************************)
(* nextGeneration up to the creation of the Generation: coordinator(),     *)
(* joinGroup, syncGroup, fetchOffsets.  Any of them may fail.              *)
(***************************************************************************)
\* (lax: the guard ~cgdone is dropped.  nextGeneration does not look at cg.done before its first select, so the
\* code can create a generation after Close was called; it then ends it at once (GenCloseBegin with rpc = "offer").
\* The model checked by TLC abstracts this into JoinWhenClosed; the trace validation (GroupTrace.tla) uses the
\* lax form for traces that show it.)
JoinOKx(lax) ==
  /\ rpc = "join" /\ (lax \/ ~cgdone) /\ gen < MaxGens
  /\ gen' = gen + 1
  /\ memberID' = IF memberID = 0 THEN gen + 1 ELSE memberID
  /\ g' = Append(g, [NewG EXCEPT !.routines = 1])              \* gen.heartbeatLoop: Start (tracked)
  /\ fn' = (<<gen + 1, 0>> :> "running") @@ fn
  /\ tracked' = tracked \cup {<<gen + 1, 0>>}
  /\ started' = Append(started, 0)
  /\ rpc' = "offer"
  /\ Ev("created", gen + 1)
  /\ UNCHANGED <<apc, held, cgdone, closeRet, lastErr, faults, leaves, hbOut>>
JoinOK == JoinOKx(Lax)

\* With WatchPartitionChanges the run loop starts, after the heartbeat loop and before it offers the generation,
\* one partition watcher per topic through the same Generation.Start: functions <<gen, -1>>, <<gen, -2>>, ...
\* (they return like application functions: FnReturn).  Watchers = 0 (no watcher) unless a configuration
\* overrides the definition, so the model-checking configurations explore what they explored before.
Watchers == 0
WatchStart(j) ==
  /\ rpc = "offer" /\ j >= 1 /\ <<gen, -j>> \notin DOMAIN fn
  /\ \A i \in 1 .. j - 1 : <<gen, -i>> \in DOMAIN fn
  /\ fn' = (<<gen, -j>> :> "running") @@ fn
  /\ IF g[gen].closed
       THEN UNCHANGED <<g, tracked>> /\ Ev("startUntracked", gen)
       ELSE /\ g' = [g EXCEPT ![gen].routines = @ + 1]
            /\ tracked' = tracked \cup {<<gen, -j>>}
            /\ Ev("start", gen)
  /\ UNCHANGED <<rpc, gen, memberID, apc, held, started, cgdone, closeRet, lastErr, faults, leaves, hbOut>>

\* a failure: RebalanceInProgress keeps the member id, anything else leaves the group and backs off.
\* (The coordinator may have assigned a member id before the failure, e.g. sync failing after join.)
JoinFailx(kind, gotID, lax) ==
  /\ rpc = "join" /\ (lax \/ ~cgdone) /\ faults < MaxFaults
  /\ faults' = faults + 1
  /\ memberID' = IF gotID /\ memberID = 0 THEN gen + 100 ELSE memberID
  /\ lastErr' = kind
  /\ rpc' = IF kind = "rebalance" THEN "reporterr" ELSE "leave"
  /\ Ev(IF kind = "rebalance" THEN "joinfailRebalance" ELSE "joinfailOther", gen)
  /\ UNCHANGED <<gen, g, fn, tracked, apc, held, started, cgdone, closeRet, leaves, hbOut>>
JoinFail(kind, gotID) == JoinFailx(kind, gotID, Lax)

\* select { cg.done -> gen.close(), ErrGroupClosed ; cg.next <- &gen }
Offer ==
  /\ rpc = "offer" /\ apc = "next"
  /\ \A j \in 1 .. Watchers : <<gen, -j>> \in DOMAIN fn
  /\ apc' = "holding" /\ held' = gen
  /\ rpc' = "live"
  /\ Ev("next", gen)
  /\ UNCHANGED <<gen, memberID, g, fn, tracked, started, cgdone, closeRet, lastErr, faults, leaves, hbOut>>

\* the application calls Next (after it is done with the previous generation, or at once)
AppNext ==
  /\ apc \in {"idle", "holding"} /\ ~closeRet
  /\ apc' = "next" /\ held' = 0
  /\ UNCHANGED <<rpc, gen, memberID, g, fn, tracked, started, cgdone, closeRet, lastErr, faults, leaves, hbOut, obsv>>

\* Generation.Start
Start(n) ==
  /\ apc = "holding" /\ held = n /\ started[n] < MaxFns
  /\ LET f == <<n, started[n] + 1>> IN
       /\ fn' = (f :> "running") @@ fn
       /\ started' = [started EXCEPT ![n] = @ + 1]
       /\ IF g[n].closed
            THEN UNCHANGED <<g, tracked>> /\ Ev("startUntracked", n)     \* deliberate deviation: not waited for
            ELSE /\ g' = [g EXCEPT ![n].routines = @ + 1]
                 /\ tracked' = tracked \cup {f}
                 /\ Ev("start", n)
  /\ UNCHANGED <<rpc, gen, memberID, apc, held, cgdone, closeRet, lastErr, faults, leaves, hbOut>>

\* a started function returns: either because its context is done, or on its own accord
\* (the latter ends the generation).  Bookkeeping under g.lock for tracked functions.
FnReturn(f, voluntary) ==
  /\ fn[f] = "running" /\ f[2] # 0
  /\ voluntary \/ g[f[1]].done
  /\ fn' = [fn EXCEPT ![f] = "returned"]
  /\ IF f \in tracked
       THEN g' = [g EXCEPT ![f[1]].done = TRUE, ![f[1]].closed = TRUE,
                           ![f[1]].routines = @ - 1,
                           ![f[1]].joined = (g[f[1]].routines = 1)]
       ELSE UNCHANGED g
  /\ Ev(IF voluntary /\ ~g[f[1]].done THEN "fnEnds" ELSE "fnExit", f[1])
  /\ UNCHANGED <<rpc, gen, memberID, tracked, apc, held, started, cgdone, closeRet, lastErr, faults, leaves, hbOut>>

\* heartbeat loop: ticker fires, heartbeat sent (only while the context is not done)
\* (lax: the guard ~g[n].done is dropped.  The loop's select { ctx.Done ; ticker.C } may take the ticker when both
\* are ready, and a request sent just before the context ended reaches the coordinator after it; used by the
\* trace validation only, see GroupTrace.tla.)
HeartbeatSendx(n, lax) ==
  /\ <<n, 0>> \in DOMAIN fn /\ fn[<<n, 0>>] = "running" /\ (lax \/ ~g[n].done) /\ hbOut = 0
  /\ hbOut' = n
  /\ Ev("heartbeat", n)
  /\ UNCHANGED <<rpc, gen, memberID, g, fn, tracked, apc, held, started, cgdone, closeRet, lastErr, faults, leaves>>
HeartbeatSend(n) == HeartbeatSendx(n, Lax)

\* the coordinator answers the heartbeat: ok, or an error (rebalance, illegal generation, dropped): the loop returns
HeartbeatReply(ok) ==
  /\ hbOut # 0
  /\ ok \/ faults < MaxFaults
  /\ faults' = IF ok THEN faults ELSE faults + 1
  /\ hbOut' = 0
  /\ LET f == <<hbOut, 0>> IN
       IF ok THEN UNCHANGED <<fn, g, obsv>>
       ELSE /\ fn' = [fn EXCEPT ![f] = "returned"]
            /\ g' = [g EXCEPT ![hbOut].done = TRUE, ![hbOut].closed = TRUE, ![hbOut].routines = @ - 1,
                              ![hbOut].joined = (g[hbOut].routines = 1)]
            /\ Ev("hbFailed", hbOut)
  /\ UNCHANGED <<rpc, gen, memberID, tracked, apc, held, started, cgdone, closeRet, lastErr, leaves>>

\* heartbeat loop sees ctx.Done and returns
HeartbeatStop(n) ==
  /\ <<n, 0>> \in DOMAIN fn /\ fn[<<n, 0>>] = "running" /\ g[n].done /\ hbOut # n
  /\ fn' = [fn EXCEPT ![<<n, 0>>] = "returned"]
  /\ g' = [g EXCEPT ![n].routines = @ - 1, ![n].joined = (g[n].routines = 1)]
  /\ Ev("fnExit", n)
  /\ UNCHANGED <<rpc, gen, memberID, tracked, apc, held, started, cgdone, closeRet, lastErr, faults, leaves, hbOut>>

\* nextGeneration: select { cg.done ; gen.done } fired -> gen.close() begins: close(done) if needed
\* (lax: when both channels are ready the select may take gen.done although cg.done is closed: nextGeneration then
\* returns nil and the loop joins once more before it notices the Close)
GenCloseBeginx(lax) ==
  /\ rpc \in {"live", "offer"} /\ (g[gen].done \/ cgdone)
  /\ rpc = "offer" => cgdone
  /\ g' = [g EXCEPT ![gen].done = TRUE, ![gen].closed = TRUE, ![gen].closeWaiting = (g[gen].routines > 0)]
  /\ \E err \in {"closed", "none"} :
        /\ err = "closed" => cgdone
        /\ err = "none" => (rpc = "live" /\ g[gen].done /\ (lax \/ ~cgdone))
        /\ lastErr' = err
  /\ rpc' = "closing"
  /\ Ev("closeBegin", gen)
  /\ UNCHANGED <<gen, memberID, fn, tracked, apc, held, started, cgdone, closeRet, faults, leaves, hbOut>>
GenCloseBegin == GenCloseBeginx(Lax)

\* gen.close() returns once `joined` is closed (or at once when no routine was running)
GenCloseEnd ==
  /\ rpc = "closing"
  /\ g[gen].closeWaiting => g[gen].joined
  /\ rpc' = IF lastErr = "closed" THEN "leave" ELSE "join"
  /\ Ev("closeEnd", gen)
  /\ UNCHANGED <<gen, memberID, g, fn, tracked, apc, held, started, cgdone, closeRet, lastErr, faults, leaves, hbOut>>

\* run(): leaveGroup(memberID) on ErrGroupClosed and on errors other than RebalanceInProgress
Leave ==
  /\ rpc = "leave"
  /\ leaves' = IF memberID # 0 THEN Append(leaves, memberID) ELSE leaves
  /\ IF lastErr = "closed" THEN rpc' = "exited" /\ UNCHANGED memberID
     ELSE rpc' = "reporterr" /\ memberID' = 0
  /\ UNCHANGED <<gen, g, fn, tracked, apc, held, started, cgdone, closeRet, lastErr, faults, hbOut, obsv>>

\* select { cg.done -> return ; cg.errs <- err }
ReportErr ==
  /\ rpc = "reporterr"
  \* (design intent: a member id kept across a RebalanceInProgress error is still registered with the
  \* coordinator, so the group is left before exiting; finding F12)
  /\ \/ cgdone /\ rpc' = "leave" /\ lastErr' = "closed" /\ UNCHANGED <<apc, obsv>>
     \/ apc = "next" /\ apc' = "idle" /\ Ev("nexterr", gen) /\ UNCHANGED lastErr
        /\ rpc' = IF lastErr = "other" THEN "backoff" ELSE "join"
  /\ UNCHANGED <<gen, memberID, g, fn, tracked, held, started, cgdone, closeRet, faults, leaves, hbOut>>

\* select { cg.done -> return ; backoff timer }  (lax: the select may take the timer although cg.done is closed)
Backoffx(lax) ==
  /\ rpc = "backoff"
  /\ \E to \in {"exited", "join"} :
        /\ to = "exited" => cgdone
        /\ to = "join" => (lax \/ ~cgdone)
        /\ rpc' = to
  /\ Ev("backoffOver", gen)
  /\ UNCHANGED <<gen, memberID, g, fn, tracked, apc, held, started, cgdone, closeRet, lastErr, faults, leaves, hbOut>>
Backoff == Backoffx(Lax)

\* join attempted while closed: coordinator()/joinGroup are not interruptible, but the loop exits at the next select
JoinWhenClosed ==
  /\ rpc = "join" /\ cgdone
  /\ lastErr' = "closed" /\ rpc' = "leave"
  /\ UNCHANGED <<gen, memberID, g, fn, tracked, apc, held, started, cgdone, closeRet, faults, leaves, hbOut, obsv>>

\* ConsumerGroup.Close
CloseCall ==
  /\ ~cgdone
  /\ cgdone' = TRUE
  /\ apc' = IF apc = "next" THEN "idle" ELSE apc          \* a blocked Next returns ErrGroupClosed
  /\ Ev("closeCall", gen)
  /\ UNCHANGED <<rpc, gen, memberID, g, fn, tracked, held, started, closeRet, lastErr, faults, leaves, hbOut>>

CloseReturn ==
  /\ cgdone /\ rpc = "exited" /\ ~closeRet
  /\ closeRet' = TRUE
  /\ Ev("closeReturn", gen)
  /\ UNCHANGED <<rpc, gen, memberID, g, fn, tracked, apc, held, started, cgdone, lastErr, faults, leaves, hbOut>>

Next ==
  \/ JoinOK \/ Offer \/ AppNext \/ GenCloseBegin \/ GenCloseEnd \/ Leave \/ ReportErr \/ Backoff
  \/ JoinWhenClosed \/ CloseCall \/ CloseReturn
  \/ \E j \in 1 .. Watchers : WatchStart(j)
  \/ \E k \in {"rebalance", "other"}, b \in BOOLEAN : JoinFail(k, b)
  \/ \E n \in 1 .. gen : Start(n) \/ HeartbeatSend(n) \/ HeartbeatStop(n)
  \/ \E f \in DOMAIN fn, v \in BOOLEAN : FnReturn(f, v)
  \/ \E ok \in BOOLEAN : HeartbeatReply(ok)

Spec == Init /\ [][Next]_vars
\* functions honour their context; the coordinator answers or the request times out
Fair == /\ WF_vars(GenCloseBegin) /\ WF_vars(GenCloseEnd) /\ WF_vars(Leave) /\ WF_vars(ReportErr) /\ WF_vars(Backoff)
        /\ WF_vars(JoinWhenClosed) /\ WF_vars(CloseReturn)
        /\ WF_vars(\E f \in DOMAIN fn : FnReturn(f, FALSE))
        /\ WF_vars(\E n \in 1 .. MaxGens : n <= gen /\ HeartbeatStop(n))
        /\ WF_vars(\E ok \in BOOLEAN : HeartbeatReply(ok))
        /\ WF_vars(JoinOK \/ \E k \in {"rebalance", "other"}, b \in BOOLEAN : JoinFail(k, b))
FairSpec == Spec /\ Fair

-----------------------------------------------------------------------------
\* accounting: routines counts the tracked functions still running; joined only when none is left
Accounting ==
  \A n \in 1 .. gen :
     /\ g[n].routines = Cardinality({ f \in tracked : f[1] = n /\ fn[f] = "running" })
     /\ g[n].joined => g[n].routines = 0
     /\ g[n].closed = g[n].done                       \* the context is cancelled exactly when the generation ends

\* C15: never two live generations -- counting the functions the mechanism tracks
C15_OneLive == ~obsv.overlap
\* the literal reading of the property also counts functions started after the generation had ended
C15_OneLiveAll == ~obsv.overlapAll
\* C15: a generation only ends for a cause
C15_EndCauses == \A n \in 1 .. gen : g[n].done => (n \in obsv.cause \/ obsv.closeCalled)
\* C15: no heartbeat is sent for a generation after it was closed (at most the one in flight)
C15_NoHeartbeatAfterEnd == ~obsv.hbAfterEnd
\* C15: closing the group sends LeaveGroup for the current member id
C15_LeaveOnClose ==
  closeRet => (memberID # 0 => (leaves # <<>> /\ leaves[Len(leaves)] = memberID))
\* C15: a failed join other than RebalanceInProgress is followed by the back-off before the next attempt
C15_BackoffAfterFailedJoin == ~obsv.joinNoBackoff

\* liveness (FairSpec): Close returns; a generation whose cause has occurred ends
L_CloseReturns == cgdone ~> closeRet
L_EndsWhenCaused == \A n \in 1 .. MaxGens : (n <= gen /\ g[n].done) ~> (n < gen \/ rpc \notin {"live"})
TypeOK == gen <= MaxGens /\ \A n \in 1 .. gen : g[n].routines >= 0
=============================================================================
