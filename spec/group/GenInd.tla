------------------------------- MODULE GenInd -------------------------------
(***************************************************************************)
(* Generation.Start / the bookkeeping closure / Generation.close           *)
(* (consumergroup.go) for an UNBOUNDED number of started functions, as an  *)
(* inductive invariant checked by Apalache (integers only):                *)
(*   - close() returns only when every tracked function has returned;      *)
(*   - the channel `joined` is closed at most once (a second close would   *)
(*     panic), and exactly when the last tracked function has returned;    *)
(*   - the first function to return ends the generation (closed).          *)
(* Group.tla checks the same accounting in small scope together with the   *)
(* run loop; GenTrace / GroupTrace bind the actions to the hooks gen.start,*)
(* gen.fnexit, gen.close, gen.closed.                                      *)
(***************************************************************************)
EXTENDS Integers

VARIABLES
  \* @type: Int;
  routines,      \* g.routines
  \* @type: Int;
  live,          \* ghost: tracked functions that have not yet done their exit bookkeeping
  \* @type: Int;
  untracked,     \* ghost: functions started after the generation closed (run, but nobody waits for them)
  \* @type: Bool;
  closed,        \* g.closed (done is closed)
  \* @type: Int;
  joinCloses,    \* how often close(g.joined) has been executed
  \* @type: Bool;
  everStarted,   \* a tracked function was started at some point
  \* @type: Str;
  closer         \* Generation.close(): "idle" | "waiting" (read r > 0, blocked on joined) | "returned"

vars == <<routines, live, untracked, closed, joinCloses, everStarted, closer>>

Init ==
  /\ routines = 0 /\ live = 0 /\ untracked = 0 /\ closed = FALSE
  /\ joinCloses = 0 /\ everStarted = FALSE /\ closer = "idle"

\* Start, generation not closed: one more tracked routine
StartTracked ==
  /\ ~closed
  /\ routines' = routines + 1 /\ live' = live + 1 /\ everStarted' = TRUE
  /\ UNCHANGED <<untracked, closed, joinCloses, closer>>

\* Start after the generation closed: the function runs untracked
StartUntracked ==
  /\ closed
  /\ untracked' = untracked + 1
  /\ UNCHANGED <<routines, live, closed, joinCloses, everStarted, closer>>

\* a tracked function returned: bookkeeping under g.lock
FnExit ==
  /\ live > 0
  /\ closed' = TRUE
  /\ routines' = routines - 1 /\ live' = live - 1
  /\ joinCloses' = IF routines - 1 = 0 THEN joinCloses + 1 ELSE joinCloses
  /\ UNCHANGED <<untracked, everStarted, closer>>

\* close(): mark closed, read r under the lock
CloseBegin ==
  /\ closer = "idle"
  /\ closed' = TRUE
  /\ closer' = IF routines > 0 THEN "waiting" ELSE "returned"
  /\ UNCHANGED <<routines, live, untracked, joinCloses, everStarted>>

\* <-g.joined
CloseEnd ==
  /\ closer = "waiting" /\ joinCloses > 0
  /\ closer' = "returned"
  /\ UNCHANGED <<routines, live, untracked, closed, joinCloses, everStarted>>

Next == StartTracked \/ StartUntracked \/ FnExit \/ CloseBegin \/ CloseEnd

\* the properties
CloseWaits      == closer = "returned" => live = 0
JoinedOnce      == joinCloses <= 1
FirstExitEnds   == (everStarted /\ live = 0) => closed

\* the inductive invariant
IndInv ==
  /\ routines >= 0 /\ live = routines /\ untracked >= 0
  /\ joinCloses \in {0, 1}
  /\ (joinCloses = 1) <=> (everStarted /\ routines = 0)
  /\ (everStarted /\ routines = 0) => closed
  /\ closer \in {"idle", "waiting", "returned"}
  /\ closer # "idle" => closed
  /\ closer = "returned" => routines = 0
  /\ (routines > 0) => everStarted

IndInit ==
  /\ routines \in Int /\ live \in Int /\ untracked \in Int /\ closed \in BOOLEAN
  /\ joinCloses \in Int /\ everStarted \in BOOLEAN /\ closer \in {"idle", "waiting", "returned"}
  /\ IndInv
Props == CloseWaits /\ JoinedOnce /\ FirstExitEnds
=============================================================================
