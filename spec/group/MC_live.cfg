SPECIFICATION FairSpec
CONSTANTS MaxGens = 2
  MaxFns = 1
  MaxFaults = 1
PROPERTIES L_CloseReturns
CHECK_DEADLOCK FALSE
