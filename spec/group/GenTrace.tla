------------------------------ MODULE GenTrace ------------------------------
(***************************************************************************)
(* Conformance of the Generation accounting of the real code with the      *)
(* actions of Group.tla: the hook events emitted under Generation.lock     *)
(* (gen.start, gen.fnexit, gen.close, gen.closed) of every generation of   *)
(* every member are replayed; each event must be the corresponding         *)
(* accounting step of the model on that generation's record                *)
(* [done, closed, routines, joined, closeWaiting], with the logged         *)
(* counter values equal to the model's.                                    *)
(* Used for the reader-mode scenarios (the application is kafka.Reader);   *)
(* the cg-mode scenarios are validated against the whole of Group.tla by   *)
(* GroupTrace.tla, which includes these checks.  The events are the        *)
(* real-time copies of the hooks (harness/groupdrv/live.go); a Generation  *)
(* object is identified by <<member, gix>>.                                *)
(***************************************************************************)
EXTENDS Integers, Sequences, FiniteSets, TLC, Json, IOUtils

Trace == ndJsonDeserialize(IOEnv.TRACE)

VARIABLES l, g      \* g: <<member, generation>> -> accounting record of Group.tla
tvars == <<l, g>>

NewG == [done |-> FALSE, closed |-> FALSE, routines |-> 0, joined |-> FALSE, closeWaiting |-> FALSE]
Get(k) == IF k \in DOMAIN g THEN g[k] ELSE NewG
Put(k, v) == (k :> v) @@ g

TInit == l = 1 /\ g = <<>>

\* Group.tla Start (tracked: routines++ ; untracked: nothing) / JoinOK's heartbeat Start
StartEv(e) ==
  LET k == <<e.m, e.gix>>  r == Get(k) IN
  /\ e.tracked = ~r.closed
  /\ IF e.tracked THEN e.routines = r.routines + 1 /\ g' = Put(k, [r EXCEPT !.routines = @ + 1])
                  ELSE g' = Put(k, r)

\* Group.tla FnReturn / HeartbeatReply(FALSE) / HeartbeatStop: bookkeeping of a tracked function
FnExitEv(e) ==
  LET k == <<e.m, e.gix>>  r == Get(k) IN
  /\ r.routines >= 1 /\ e.routines = r.routines - 1
  /\ e.wasClosed = r.closed
  /\ g' = Put(k, [r EXCEPT !.done = TRUE, !.closed = TRUE, !.routines = @ - 1, !.joined = (r.routines = 1)])

\* Group.tla GenCloseBegin
CloseEv(e) ==
  LET k == <<e.m, e.gix>>  r == Get(k) IN
  /\ e.routines = r.routines /\ e.wasClosed = r.closed
  /\ g' = Put(k, [r EXCEPT !.done = TRUE, !.closed = TRUE, !.closeWaiting = (r.routines > 0)])

\* Group.tla GenCloseEnd: only once `joined` is closed when there was something to wait for
ClosedEv(e) ==
  LET k == <<e.m, e.gix>>  r == Get(k) IN
  /\ r.closed /\ (r.closeWaiting => r.joined)
  /\ g' = g

Step(e) ==
  CASE e.ev = "cfg" -> g' = <<>>
    [] e.ev = "gen.start" -> StartEv(e)
    [] e.ev = "gen.fnexit" -> FnExitEv(e)
    [] e.ev = "gen.close" -> CloseEv(e)
    [] e.ev = "gen.closed" -> ClosedEv(e)
    [] OTHER -> g' = g

TNext == l <= Len(Trace) /\ l' = l + 1 /\ Step(Trace[l])
TSpec == TInit /\ [][TNext]_tvars

\* the accounting invariant of Group.tla on every generation seen
Accounting == \A k \in DOMAIN g : g[k].routines >= 0 /\ (g[k].joined => g[k].routines = 0) /\ (g[k].closed = g[k].done)

TraceAccepted ==
  \/ TLCGet("stats").diameter = Len(Trace) + 1
  \/ ~PrintT(<<"DIVERGED_AT_LINE", TLCGet("stats").diameter, Trace[TLCGet("stats").diameter]>>)
=============================================================================
