----------------------------- MODULE GroupTrace -----------------------------
(***************************************************************************)
(* Conformance of the WHOLE of Group.tla (run loop of kafka.ConsumerGroup, *)
(* Generation accounting, application, Close) with traces of the real code *)
(* (cg-mode scenarios of harness/groupdrv).  The trace of a scenario is    *)
(* projected on ONE member (`me`; both members are validated in one TLC    *)
(* run, they are two initial states) : the events of the other member and  *)
(* of the environment (evict, rebalance, addpartition, ...) are stuttering *)
(* steps.  Every event of the member is one action of Group.tla with its   *)
(* arguments bound from the logged fields, or a stuttering step that       *)
(* refines the inside of one (listed below); the trace is accepted when    *)
(* all events were consumed.                                               *)
(*                                                                         *)
(* event (fields)                         action of Group.tla              *)
(* -------------------------------------  -------------------------------- *)
(* coord findcoordinator|join|sync|       stuttering: progress x.jp inside *)
(*   offsetfetch accepted, of the owner;  rpc = "join" (idle -> coord ->   *)
(*   cg.joined, cg.synced (the client got joinreq -> joined -> syncreq ->  *)
(*   the answer)                          synced -> fetched); a request    *)
(*                                        out of this order, or in another *)
(*                                        run-loop state, diverges         *)
(* the same with code # 0 / `injected`    stuttering (evidence); the step  *)
(*                                        is taken at cg.fail              *)
(* cg.fail (phase, rebalance)             JoinFail(kind, gotID): kind =    *)
(*   [library logs "Failed to ..." right  "rebalance" iff errors.Is(err,   *)
(*   before nextGeneration returns err]   RebalanceInProgress), gotID iff  *)
(*                                        JoinGroup succeeded in this      *)
(*                                        attempt; JoinWhenClosed when the *)
(*                                        model has seen Close             *)
(* gen.start of a new Generation object   JoinOK  (linearization point:    *)
(*   (gix = gen + 1; the heartbeat loop's the Generation exists and its    *)
(*   Start, tracked, routines = 1)        first function is accounted)     *)
(* gen.start, gix = gen, rpc = "offer"    WatchStart(j)                    *)
(* gen.start otherwise                    Start(gix) (tracked / untracked) *)
(* offered | next.return (first of them)  Offer; the other one: stuttering *)
(*                                        (the two sides of cg.next <- gen)*)
(* next.call                              AppNext                          *)
(* cg.errsent | next.err not closed       ReportErr (application branch);  *)
(*   (first of them)                      the other one: stuttering (the   *)
(*                                        two sides of cg.errs <- err)     *)
(* cg.backoff                             Backoff (the timer branch)       *)
(* cg.done | next.err closed / context    CloseCall; the later one:        *)
(*   cancelled (first of them)            stuttering                       *)
(* fn.exit (k, why)                       FnReturn(<<n,k>>, why = "own")   *)
(*                                        if the function is untracked,    *)
(*                                        else stuttering (remembered)     *)
(* gen.fnexit                             FnReturn(f, v) of a remembered   *)
(*                                        application function or of a     *)
(*                                        watcher | HeartbeatStop(n) |     *)
(*                                        HeartbeatReply(FALSE)            *)
(* coord heartbeat ok                     HeartbeatSend(n) ; then the      *)
(*                                        forced step HeartbeatReply(TRUE) *)
(* coord heartbeat code # 0 | injected    HeartbeatSend(n) (the reply is   *)
(*                                        taken at gen.fnexit)             *)
(* gen.close / gen.closed                 GenCloseBegin / GenCloseEnd      *)
(* cg.leaving (member)                    Leave (member id non-empty)      *)
(* coord leave, findcoordinator of leave  stuttering (inside Leave)        *)
(* close.call                             stuttering (Close is invoked)    *)
(* close.return                           CloseReturn (cg.done was seen)   *)
(*                                                                         *)
(* Silent steps (the code has no observable point for them; at most MaxSil *)
(* between two events):                                                    *)
(*   ReportErr   the cg.done branch of select { cg.done ; cg.errs <- err } *)
(*   Backoff     the cg.done branch of select { cg.done ; back-off timer } *)
(*   Leave       with memberID = 0: leaveGroup("") returns at once         *)
(*   CloseCall   only between close.call and the cg.done event and only    *)
(*               right before a gen.close / cg.leaving of the member: the  *)
(*               hook fires after close(cg.done), the run loop can act on  *)
(*               the closed channel before the hook's event is recorded    *)
(*               (counted as CloseCall_early)                              *)
(* Forced step: HeartbeatReply(TRUE) right after the HeartbeatSend of an   *)
(* acknowledged heartbeat (one event = two actions).                       *)
(*                                                                         *)
(* Where the code does something the guards of Group.tla exclude, the lax  *)
(* forms JoinOKx / JoinFailx / HeartbeatSendx / GenCloseBeginx / Backoffx  *)
(* of the same actions are used and counted separately (JoinOK_lax,        *)
(* JoinFail_lax, HeartbeatSend_lax, GenCloseBegin_lax, Backoff_lax): a     *)
(* generation created / a join failing after Close was called, a heartbeat *)
(* reaching the coordinator after the context of its generation ended, a   *)
(* select that takes gen.done / the back-off timer although cg.done is     *)
(* closed too.  A Next call on a group the model has closed has no model   *)
(* counterpart (stuttering, s_nextOnClosed).                               *)
(***************************************************************************)
EXTENDS Group, Json, IOUtils

Trace == ndJsonDeserialize(IOEnv.TRACE)
Members == {1, 2}
MaxSil == 3

VARIABLES l,      \* next trace line
          me,     \* the member whose projection is validated
          x,      \* auxiliary record, see X0
          pend,   \* forced steps to take before the next event
          sil,    \* silent steps taken since the last event
          cnt     \* action name -> number of times it was matched (not part of the VIEW)
tvars == <<vars, l, me, x, pend, sil, cnt>>
TView == <<vars, l, me, x, pend, sil>>

Names == {"traces", "JoinOK", "JoinOK_lax", "JoinFail", "JoinFail_lax", "JoinWhenClosed", "WatchStart", "Offer", "AppNext",
          "Start", "Start_untracked", "FnReturn", "FnReturn_untracked", "FnReturn_watcher", "HeartbeatSend",
          "HeartbeatSend_lax", "HeartbeatReply_ok", "HeartbeatReply_fail", "HeartbeatStop", "GenCloseBegin", "GenCloseBegin_lax",
          "GenCloseEnd", "Leave", "Leave_noid", "ReportErr", "ReportErr_closed", "Backoff", "Backoff_lax", "Backoff_closed",
          "CloseCall", "CloseCall_app", "CloseCall_early", "CloseReturn", "s_err_other_side", "s_done_late",
          "s_join_progress", "s_join_evidence", "s_leave_rpc", "s_offer_other_side", "s_next_closed",
          "s_nextOnClosed", "s_fnexit", "s_closecall", "s_other"}
Count(a) == cnt' = [cnt EXCEPT ![a] = @ + 1]

X0(id, mode, tw) ==
  [tid |-> id, mode |-> mode,
   tw |-> tw,            \* partition watchers per generation
   jp |-> "idle",        \* progress of nextGeneration: idle | coord | joinreq | joined | syncreq | synced | fetched
   jmember |-> "",       \* member id in the JoinGroup response of this attempt
   jgen |-> -1,          \* generation id of this attempt (SyncGroup)
   ids |-> <<>>,         \* model member id -> the coordinator's
   rgen |-> <<>>,        \* generation n of the model -> the coordinator's generation id
   lib |-> <<>>,         \* generation n -> functions the library itself has started (heartbeat loop, watchers)
   exited |-> {},        \* <<n, k, own>>: application functions that announced their return (fn.exit)
   offer |-> "",         \* side of the Offer rendez-vous already seen: "" | "run" | "app"
   offerGen |-> 0,       \* ... and the generation it handed over
   err |-> "",           \* side of the ReportErr rendez-vous already seen: "" | "run" | "app"
   errClass |-> "",      \* ... and the class of the error it handed over
   close |-> 0,          \* 0 | 1: close.call seen | 2: CloseCall taken
   done |-> FALSE,       \* the cg.done event was seen
   leaving |-> 0,        \* 0 | 1: Leave taken, FindCoordinator of leaveGroup expected | 2: LeaveGroup expected
   deadNext |-> FALSE]   \* Next was called on a closed group

TInit == Init /\ l = 1 /\ me \in Members /\ x = X0("", "", 0) /\ pend = <<>> /\ sil = 0 /\ cnt = [a \in Names |-> 0]

Reset(e) ==
  /\ rpc' = "join" /\ gen' = 0 /\ memberID' = 0
  /\ g' = <<>> /\ fn' = <<>> /\ tracked' = {}
  /\ apc' = "idle" /\ held' = 0 /\ started' = <<>>
  /\ cgdone' = FALSE /\ closeRet' = FALSE /\ lastErr' = "none" /\ faults' = 0
  /\ leaves' = <<>> /\ hbOut' = 0 /\ obsv' = ObsInit
  /\ x' = X0(e.id, e.mode, IF e.watch THEN e.ntopics ELSE 0)

TWatchers == x.tw        \* overrides Watchers of Group.tla (GroupTrace.cfg)

Owner == "m" \o ToString(me)
Mine(e) == /\ x.mode = "cg"
           /\ \/ ("m" \in DOMAIN e /\ e.m = me)
              \/ ("owner" \in DOMAIN e /\ e.owner = Owner)
Stutter == UNCHANGED vars
MaxOf(S) == CHOOSE n \in S : \A k \in S : k <= n

\* ---- coordinator journal / injected faults ---------------------------------------------------
\* requests of nextGeneration (and the FindCoordinator of leaveGroup) as the coordinator's journal / the fault
\* injector saw them; ok = accepted (a join / sync accepted on arrival may still be answered with an error once
\* the rebalance completes: what the client got is cg.joined / cg.synced / cg.fail)
JoinRpc(api, ok, e) ==
  CASE api = "findcoordinator" ->
         IF x.leaving = 1
           THEN Stutter /\ x' = [x EXCEPT !.leaving = IF ok THEN 2 ELSE 0] /\ Count("s_leave_rpc")
           ELSE /\ rpc = "join" /\ x.jp = "idle"
                /\ Stutter /\ x' = [x EXCEPT !.leaving = 0, !.jp = IF ok THEN "coord" ELSE "idle"]
                /\ Count(IF ok THEN "s_join_progress" ELSE "s_join_evidence")
    [] api = "join" ->
         /\ rpc = "join" /\ x.jp = "coord"
         /\ Stutter /\ x' = IF ok THEN [x EXCEPT !.jp = "joinreq"] ELSE x
         /\ Count(IF ok THEN "s_join_progress" ELSE "s_join_evidence")
    [] api = "sync" ->
         /\ rpc = "join" /\ x.jp = "joined"
         /\ ok => e.member = x.jmember /\ e.generation = x.jgen
         /\ Stutter /\ x' = IF ok THEN [x EXCEPT !.jp = "syncreq"] ELSE x
         /\ Count(IF ok THEN "s_join_progress" ELSE "s_join_evidence")
    [] api = "offsetfetch" ->
         /\ rpc = "join" /\ x.jp = "synced"
         /\ Stutter /\ x' = IF ok THEN [x EXCEPT !.jp = "fetched"] ELSE x
         /\ Count(IF ok THEN "s_join_progress" ELSE "s_join_evidence")

\* the client got the JoinGroup response (it now holds the member id) / SyncGroup succeeded
JoinedEv(e) ==
  /\ rpc = "join" /\ x.jp = "joinreq"
  /\ memberID # 0 => x.ids[memberID] = e.member
  /\ Stutter /\ x' = [x EXCEPT !.jp = "joined", !.jmember = e.member, !.jgen = e.gen] /\ Count("s_join_progress")
SyncedEv ==
  /\ rpc = "join" /\ x.jp = "syncreq"
  /\ Stutter /\ x' = [x EXCEPT !.jp = "synced"] /\ Count("s_join_progress")

\* a heartbeat request reached the coordinator (or the fault injector): it was sent by the live heartbeat loop
HeartbeatEv(generation) ==
  /\ gen >= 1 /\ (generation >= 0 => x.rgen[gen] = generation)
  /\ HeartbeatSendx(gen, TRUE)
  /\ UNCHANGED x
  /\ Count(IF g[gen].done THEN "HeartbeatSend_lax" ELSE "HeartbeatSend")

CoordEv(e) ==
  CASE e.api \in {"findcoordinator", "join", "sync", "offsetfetch"} -> JoinRpc(e.api, e.code = 0, e)
    [] e.api = "heartbeat" -> HeartbeatEv(e.generation)
    [] e.api = "leave" ->
         /\ x.leaving = 2 /\ leaves # <<>> /\ x.ids[leaves[Len(leaves)]] = e.member
         /\ Stutter /\ x' = [x EXCEPT !.leaving = 0] /\ Count("s_leave_rpc")
    [] OTHER -> Stutter /\ UNCHANGED x /\ Count("s_other")

InjectedEv(e) ==
  CASE e.api \in {"findcoordinator", "join", "sync"} -> JoinRpc(e.api, FALSE, e)
    \* an injected OffsetFetch error code is carried by the partitions of the answer: a member that was assigned
    \* no partition does not see it
    [] e.api = "offsetfetch" -> \E ok \in (IF e.code >= 0 THEN BOOLEAN ELSE {FALSE}) : JoinRpc(e.api, ok, e)
    [] e.api = "heartbeat" -> HeartbeatEv(-1)
    [] e.api = "leave" -> x.leaving = 2 /\ Stutter /\ x' = [x EXCEPT !.leaving = 0] /\ Count("s_leave_rpc")
    [] OTHER -> Stutter /\ UNCHANGED x /\ Count("s_other")

\* ---- client-side events of the run loop --------------------------------------------------------
FailEv(e) ==
  LET kind == IF e.rebalance THEN "rebalance" ELSE "other"
      got == x.jp \in {"joined", "syncreq", "synced", "fetched"} IN      \* the client holds a member id of this attempt
  /\ CASE e.phase = "coord" -> x.jp \in {"idle", "coord"}
       [] e.phase = "join" -> x.jp \in {"coord", "joinreq", "joined"}     \* (joined: the leader's assignment failed)
       [] e.phase = "sync" -> x.jp \in {"joined", "syncreq"}
       [] e.phase = "fetch" -> x.jp \in {"synced", "fetched"}
       [] OTHER -> FALSE
  /\ IF ~cgdone THEN JoinFail(kind, got) /\ Count("JoinFail")
     \* Close was called: the model's abstraction is JoinWhenClosed, exact unless the attempt got a member id
     \* the model does not hold (the code then leaves the group with it)
     ELSE IF got /\ memberID = 0 THEN JoinFailx(kind, got, TRUE) /\ Count("JoinFail_lax")
     ELSE JoinWhenClosed /\ Count("JoinWhenClosed")
  /\ x' = [x EXCEPT !.jp = "idle",
                    !.ids = IF memberID = 0 /\ memberID' # 0 THEN (memberID' :> x.jmember) @@ @ ELSE @]

GenStartEv(e) ==
  IF e.gix = gen + 1
    THEN /\ x.jp = "fetched" /\ e.gen = x.jgen /\ e.tracked /\ e.routines = 1
         /\ JoinOKx(cgdone)
         /\ x' = [x EXCEPT !.jp = "idle", !.rgen = Append(@, e.gen), !.lib = Append(@, 1),
                           !.ids = IF memberID = 0 THEN (memberID' :> x.jmember) @@ @ ELSE @]
         /\ Count(IF cgdone THEN "JoinOK_lax" ELSE "JoinOK")
    ELSE IF e.gix = gen /\ rpc = "offer" /\ x.lib[gen] < 1 + x.tw
    THEN /\ WatchStart(x.lib[gen])
         /\ e.tracked = ~g[gen].closed /\ (e.tracked => e.routines = g'[gen].routines)
         /\ x' = [x EXCEPT !.lib[gen] = @ + 1]
         /\ Count("WatchStart")
    ELSE /\ e.gix \in 1 .. gen
         /\ Start(e.gix)
         /\ e.tracked = ~g[e.gix].closed /\ (e.tracked => e.routines = g'[e.gix].routines)
         /\ UNCHANGED x
         /\ Count(IF e.tracked THEN "Start" ELSE "Start_untracked")

\* gen.fnexit does not say which function did its bookkeeping: any running tracked function of the generation
\* that can return now -- an application function that announced it (fn.exit), the heartbeat loop, a watcher
GenFnExitEv(e) ==
  LET n == e.gix IN
  /\ n \in 1 .. gen
  /\ e.wasClosed = g[n].closed
  /\ \/ /\ hbOut = n /\ HeartbeatReply(FALSE) /\ UNCHANGED x /\ Count("HeartbeatReply_fail")
     \/ /\ hbOut # n /\ HeartbeatStop(n) /\ UNCHANGED x /\ Count("HeartbeatStop")
     \/ \E z \in x.exited :
          /\ z[1] = n /\ FnReturn(<<n, z[2]>>, z[3])
          /\ x' = [x EXCEPT !.exited = @ \ {z}] /\ Count("FnReturn")
     \/ \E j \in 1 .. x.tw :
          /\ <<n, -j>> \in DOMAIN fn /\ <<n, -j>> \in tracked
          /\ FnReturn(<<n, -j>>, TRUE) /\ UNCHANGED x /\ Count("FnReturn_watcher")
  /\ e.routines = g'[n].routines

FnExitEv(e) ==
  LET ns == { n \in 1 .. gen : x.rgen[n] = e.gen } IN
  /\ ns # {}
  /\ LET f == <<MaxOf(ns), e.k>> IN
       /\ f \in DOMAIN fn
       /\ IF f \in tracked
            THEN Stutter /\ x' = [x EXCEPT !.exited = @ \cup {<<f[1], f[2], e.why = "own">>}] /\ Count("s_fnexit")
            ELSE FnReturn(f, e.why = "own") /\ UNCHANGED x /\ Count("FnReturn_untracked")

\* the two sides of the rendez-vous `cg.next <- &gen`: whichever is recorded first takes the step; the other side
\* may be recorded much later (the run loop can be generations ahead when the application logs next.return)
OfferEv(side, e) ==
  IF x.offer # "" /\ x.offer # side
    THEN /\ e.gen = x.rgen[x.offerGen]
         /\ Stutter /\ x' = [x EXCEPT !.offer = ""] /\ Count("s_offer_other_side")
    ELSE /\ x.offer = "" /\ gen >= 1 /\ e.gen = x.rgen[gen] /\ e.member = x.ids[memberID]
         /\ Offer /\ x' = [x EXCEPT !.offer = side, !.offerGen = gen] /\ Count("Offer")

NextCallEv ==
  \/ AppNext /\ UNCHANGED x /\ Count("AppNext")
  \* Next on a group the model has closed returns ErrGroupClosed at once: no counterpart in the model
  \/ cgdone /\ Stutter /\ x' = [x EXCEPT !.deadNext = TRUE] /\ Count("s_nextOnClosed")

\* the two sides of the rendez-vous `cg.errs <- err` (cg.errsent on the run loop, next.err in the application):
\* whichever is recorded first takes the step
ErrEv(side, e) ==
  IF x.err # "" /\ x.err # side
    THEN /\ side = "app" => (x.errClass = "rebalance") = (e.code = 27)
         /\ Stutter /\ x' = [x EXCEPT !.err = ""] /\ Count("s_err_other_side")
    ELSE /\ x.err = "" /\ rpc = "reporterr"
         /\ side = "app" => (lastErr = "rebalance") = (e.code = 27)
         /\ ReportErr /\ rpc' # "leave"
         /\ x' = [x EXCEPT !.err = side, !.errClass = lastErr] /\ Count("ReportErr")

NextErrEv(e) ==
  IF e.closed
    THEN IF x.close = 1
           \* the application saw the group closed (or its context cancelled by the closing thread, just before
           \* close(cg.done)) ahead of the cg.done event: Close took effect
           THEN CloseCall /\ x' = [x EXCEPT !.close = 2] /\ Count("CloseCall_app")
           ELSE /\ x.close = 2 /\ (x.deadNext \/ apc = "idle")
                /\ Stutter /\ x' = [x EXCEPT !.deadNext = FALSE] /\ Count("s_next_closed")
    ELSE ErrEv("app", e)

\* close(cg.done) was executed (the hook fires right after it)
DoneEv ==
  /\ ~x.done
  /\ IF x.close = 1 THEN CloseCall /\ x' = [x EXCEPT !.close = 2, !.done = TRUE] /\ Count("CloseCall")
     ELSE x.close = 2 /\ Stutter /\ x' = [x EXCEPT !.done = TRUE] /\ Count("s_done_late")

Step(e) ==
  CASE e.ev = "coord" -> CoordEv(e)
    [] e.ev = "injected" -> InjectedEv(e)
    [] e.ev = "cg.fail" -> FailEv(e)
    [] e.ev = "cg.joined" -> JoinedEv(e)
    [] e.ev = "cg.synced" -> SyncedEv
    [] e.ev = "cg.leaving" ->
         /\ rpc = "leave" /\ memberID # 0 /\ x.ids[memberID] = e.member
         /\ Leave /\ x' = [x EXCEPT !.leaving = 1] /\ Count("Leave")
    [] e.ev = "gen.start" -> GenStartEv(e)
    [] e.ev = "gen.fnexit" -> GenFnExitEv(e)
    [] e.ev = "gen.close" ->
         /\ e.gix = gen /\ e.routines = g[gen].routines /\ e.wasClosed = g[gen].closed
         /\ GenCloseBeginx(TRUE) /\ UNCHANGED x
         /\ Count(IF cgdone /\ lastErr' = "none" THEN "GenCloseBegin_lax" ELSE "GenCloseBegin")
    [] e.ev = "gen.closed" -> e.gix = gen /\ GenCloseEnd /\ UNCHANGED x /\ Count("GenCloseEnd")
    [] e.ev = "fn.exit" -> FnExitEv(e)
    [] e.ev = "offered" -> OfferEv("run", e)
    [] e.ev = "next.return" -> OfferEv("app", e)
    [] e.ev = "next.call" -> NextCallEv
    [] e.ev = "next.err" -> NextErrEv(e)
    [] e.ev = "cg.errsent" -> ErrEv("run", e)
    [] e.ev = "cg.backoff" ->
         /\ Backoffx(TRUE) /\ rpc' = "join" /\ UNCHANGED x /\ Count(IF cgdone THEN "Backoff_lax" ELSE "Backoff")
    [] e.ev = "cg.done" -> DoneEv
    [] e.ev = "close.call" -> x.close = 0 /\ Stutter /\ x' = [x EXCEPT !.close = 1] /\ Count("s_closecall")
    [] e.ev = "close.return" -> x.close = 2 /\ x.done /\ CloseReturn /\ UNCHANGED x /\ Count("CloseReturn")
    \* start, fn.start, evict, hang, and the legacy gstart/gfnexit/gclose/gclosed copies (GenTrace.tla, GroupMon.tla)
    [] OTHER -> Stutter /\ UNCHANGED x /\ Count("s_other")

\* an acknowledged heartbeat is two actions of the model: the reply is forced before the next event
Forced(e) == IF e.ev = "coord" /\ e.api = "heartbeat" /\ e.code = 0 THEN <<"hbok">> ELSE <<>>

Consume ==
  /\ pend = <<>> /\ l <= Len(Trace) /\ l' = l + 1 /\ sil' = 0 /\ me' = me
  /\ LET e == Trace[l] IN
       IF e.ev = "cfg" THEN Reset(e) /\ pend' = <<>> /\ Count("traces")
       ELSE IF ~Mine(e) THEN Stutter /\ UNCHANGED <<x, cnt>> /\ pend' = <<>>
       ELSE Step(e) /\ pend' = Forced(e)

Force ==
  /\ pend # <<>> /\ Head(pend) = "hbok"
  /\ HeartbeatReply(TRUE) /\ pend' = Tail(pend)
  /\ UNCHANGED <<l, me, x, sil>> /\ Count("HeartbeatReply_ok")

\* the run loop took the cg.done branch of a select (no hook there), or had no member id to leave with
Silent ==
  \/ /\ ReportErr /\ rpc' = "leave" /\ UNCHANGED x /\ Count("ReportErr_closed")
  \/ /\ cgdone /\ Backoffx(TRUE) /\ rpc' = "exited" /\ UNCHANGED x /\ Count("Backoff_closed")
  \/ /\ rpc = "leave" /\ memberID = 0 /\ Leave /\ UNCHANGED x /\ Count("Leave_noid")
  \* the run loop acted on the closed cg.done before the event of the cg.done hook was recorded
  \/ /\ x.close = 1 /\ Mine(Trace[l]) /\ Trace[l].ev \in {"gen.close", "cg.leaving"}
     /\ CloseCall /\ x' = [x EXCEPT !.close = 2] /\ Count("CloseCall_early")

SilentStep ==
  /\ pend = <<>> /\ l <= Len(Trace) /\ sil < MaxSil /\ x.mode = "cg"
  /\ Silent /\ sil' = sil + 1 /\ UNCHANGED <<l, me, pend>>

TNext == Consume \/ Force \/ SilentStep
TSpec == TInit /\ [][TNext]_tvars

\* acceptance: the high-water mark of every member's projection is the end of the file (-workers 1)
ASSUME TLCSet(1, 0) /\ TLCSet(2, 0) /\ TLCSet(11, <<>>) /\ TLCSet(12, <<>>)
HighWater ==
  /\ TLCSet(me, IF l > TLCGet(me) THEN l ELSE TLCGet(me))
  /\ (l = Len(Trace) + 1 => TLCSet(10 + me, cnt))
TraceAccepted ==
  LET bad == { m \in Members : TLCGet(m) # Len(Trace) + 1 } IN
  IF bad = {} THEN \A m \in Members : PrintT(<<"COUNTS", m, TLCGet(10 + m)>>)
  ELSE ~(\A m \in bad : PrintT(<<"DIVERGED_AT_LINE", TLCGet(m), "member", m, Trace[TLCGet(m)]>>))
=============================================================================
