SPECIFICATION TSpec
CONSTANTS MaxGens = 1000000
  MaxFns = 1000000
  MaxFaults = 1000000
  Watchers <- TWatchers
VIEW TView
CONSTRAINT HighWater
INVARIANTS TypeOK Accounting C15_OneLive C15_EndCauses C15_NoHeartbeatAfterEnd C15_LeaveOnClose C15_BackoffAfterFailedJoin
POSTCONDITION TraceAccepted
CHECK_DEADLOCK FALSE
