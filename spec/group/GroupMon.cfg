SPECIFICATION Spec
INVARIANTS C03_CommitNotAhead C03_SyncAckRecorded C03_StartAtCommit C03_NoGapInStream C03_OnlyAssigned C03_StoredOnly C03_DeliveredBeforeCovered C03_AtLeastOnce C03_DeliveredReachesApp
  C15_NextWaits C15_CloseWaits C15_EndCauses C15_NoHeartbeatAfterEnd C15_HeartbeatInterval C15_LeaveOnClose C15_BackoffAfterFailedJoin
  C09r_QuietAfterClose C09r_CloseReturns C09r_AppReturns C09r_ConnsClosed
POSTCONDITION TraceAccepted
CHECK_DEADLOCK FALSE
