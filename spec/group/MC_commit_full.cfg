SPECIFICATION Spec
CONSTANTS Members = {1, 2}
  Parts = {0}
  N = 3
  MaxGens = 3
  QCap = 2
  ChanCap = 2
  Bug = "none"
INVARIANTS TypeOK C03_CommitNotAhead C03_DeliveredBeforeCovered C03_NoGapInStream
CHECK_DEADLOCK FALSE
