SPECIFICATION Spec
CONSTANT Lax <- LaxOn
CONSTANTS MaxGens = 2
  MaxFns = 2
  MaxFaults = 2
INVARIANTS TypeOK Accounting C15_OneLive C15_EndCauses C15_NoHeartbeatAfterEnd C15_LeaveOnClose C15_BackoffAfterFailedJoin
CHECK_DEADLOCK FALSE
