------------------------------ MODULE ConnMon ------------------------------
(***************************************************************************)
(* Property monitor for Conn scenarios: the application-level outcome of   *)
(* every operation is recorded verbatim and C06 / C11 / C17 (Conn part)    *)
(* are evaluated in every state of every trace.                            *)
(***************************************************************************)
EXTENDS Integers, Sequences, FiniteSets, TLC, Json, IOUtils

Trace == ndJsonDeserialize(IOEnv.TRACE)

VARIABLES l, tid, kind, plan, began, ended, res, clock,
          ids,      \* correlation ids of the requests written on the scenario's Conn so far
          dupid     \* a request was written with an id already used on this Conn
mvars == <<l, tid, kind, plan, began, ended, res, clock, ids, dupid>>

Init == l = 1 /\ tid = "" /\ kind = "" /\ plan = <<>> /\ began = <<>> /\ ended = <<>> /\ res = <<>> /\ clock = 0
        /\ ids = {} /\ dupid = FALSE

Upd(e) ==
  CASE e.ev = "cfg" ->
         /\ tid' = e.id /\ kind' = e.kind
         /\ plan' = [i \in DOMAIN e.ops |-> e.ops[i]]
         /\ began' = <<>> /\ ended' = <<>> /\ res' = <<>> /\ clock' = 0 /\ ids' = {} /\ dupid' = FALSE
    [] e.ev = "opbegin" ->
         /\ began' = e.o :> clock @@ began /\ clock' = clock + 1
         /\ UNCHANGED <<tid, kind, plan, ended, res, ids, dupid>>
    [] e.ev = "opend" ->
         /\ ended' = e.o :> clock @@ ended /\ clock' = clock + 1
         /\ res' = e.o :> [result |-> e.result, own |-> e.own, fresh |-> e.freshResult, freshOwn |-> e.freshOwn,
                           closed |-> e.closed, nrec |-> e.nrec, freshNrec |-> e.freshNrec, code |-> e.code] @@ res
         /\ UNCHANGED <<tid, kind, plan, began, ids, dupid>>
    [] e.ev = "reqbegin" ->
         /\ ids' = ids \cup {e.id} /\ dupid' = (dupid \/ e.id \in ids)
         /\ UNCHANGED <<tid, kind, plan, began, ended, res, clock>>
    [] OTHER -> UNCHANGED <<tid, kind, plan, began, ended, res, clock, ids, dupid>>

Next == l <= Len(Trace) /\ l' = l + 1 /\ Upd(Trace[l])
Spec == Init /\ [][Next]_mvars

PlanOf(o) == CHOOSE i \in DOMAIN plan : plan[i].o = o
FaultOf(o) == plan[PlanOf(o)].fault
Failed(o) == res[o].result \in {"ioError", "noProgress"}
\* b was started after a had returned
After(a, b) == a \in DOMAIN ended /\ b \in DOMAIN began /\ ended[a] < began[b]
CleanBefore(b) == \A a \in DOMAIN res : After(a, b) => res[a].result \in {"response", "kafkaError"}

\* operations that leave part of a fetch response unread on purpose (short buffer, early Close): the Conn stays usable
PartialReads == {"fetchShort", "fetchPartial", "fetchClose2"}

\* C06: a successful call returns the answer to its own (payload-tagged) request
C06_OwnResponse == \A o \in DOMAIN res : res[o].result = "response" => res[o].own

\* scenarios of kind "pool" inject no fault into their "poolread" steps (a first step of kind "poolpoison" is a fetch that
\* fails by design -- truncated, cut or stalled inside its first header -- and is closed once, as a program does): two Conns that only share the process (recycled buffers) each read their whole
\* response, exactly as a Conn alone does -- an error there is one Conn's data disturbed by the other's
C06_SharedBuffersClean ==
  kind = "pool" => \A o \in DOMAIN res : plan[PlanOf(o)].kind = "poolread" => (res[o].result = "response" /\ res[o].own)

\* the mechanism behind it: requests written on one Conn carry pairwise distinct correlation ids
C06_UniqueIds == ~dupid

\* C11: after broker-reported errors the next operation behaves as on a fresh connection
C11_NextAsFresh ==
  kind = "c11" =>
    \A b \in DOMAIN res :
       (CleanBefore(b) /\ \E a \in DOMAIN res : After(a, b) /\ (res[a].result = "kafkaError" \/ plan[PlanOf(a)].kind \in PartialReads))
          => res[b].result = res[b].fresh /\ res[b].own = res[b].freshOwn
C11_KafkaErrKeepsOpen ==
  kind = "c11" => \A a \in DOMAIN res : (res[a].result = "kafkaError" /\ CleanBefore(a)) => ~res[a].closed
\* an injected error code is reported as that error code
C11_ErrorReported ==
  kind = "c11" => \A a \in DOMAIN res : (FaultOf(a).report /\ CleanBefore(a)) => (res[a].result = "kafkaError" /\ res[a].code = FaultOf(a).err)
\* after a transport-level or framing error every later operation fails
C11_FailedStaysFailed ==
  \A a, b \in DOMAIN res : (Failed(a) /\ After(a, b)) => Failed(b)
\* ... because the Conn is closed by the failing operation: nothing is sent or parsed on it afterwards, so no bytes
\* left over from the failed exchange can be taken for (part of) a later response
C11_TransportErrorCloses ==
  \A a \in DOMAIN res : (res[a].result = "ioError" /\ CleanBefore(a)) => res[a].closed
\* a response that stalls past the deadline in the middle of its body is a transport-level error
C11_StallIsError ==
  \A a \in DOMAIN res : (FaultOf(a).stall > 0 /\ CleanBefore(a)) => res[a].result = "ioError"
\* a framing error is never produced by the library's own reading
C11_NoSpuriousNoProgress ==
  kind \in {"c11", "c06", "c11p"} => \A o \in DOMAIN res : (FaultOf(o).cut < 0 /\ FaultOf(o).corr = 0 /\ CleanBefore(o)) => res[o].result # "noProgress"
\* an answer with a foreign correlation id is a framing error for a Conn used by one goroutine
C11_WrongIdIsError ==
  kind = "c11" => \A o \in DOMAIN res : (FaultOf(o).corr # 0 /\ CleanBefore(o)) => Failed(o)

\* How the network fragments a complete response (segment boundaries: the pieces arrive one by one, each within the
\* deadline) is invisible: in a scenario (kinds "c11": one goroutine, "c11p": a second goroutine's request pipelined behind
\* the fragmented response) whose only disturbance is fragmentation, and possibly injected error codes, every operation
\* returns what it returns alone on a fresh connection that delivers its response in one piece: same outcome, same number
\* of records, the same (own) payload.  A read position left inside or beyond the fragmented frame shows here as a
\* failed, short or foreign result of that or of the next operation, or as a wait for bytes that are not part of the
\* response until the deadline expires (an "ioError" where the baseline has a "response").
OnlyFragmented ==
  /\ \E i \in DOMAIN plan : plan[i].fault.split
  /\ \A i \in DOMAIN plan : plan[i].fault.cut < 0 /\ plan[i].fault.stall = 0 /\ plan[i].fault.corr = 0
C11_FragmentsAsWhole ==
  (kind \in {"c11", "c11p"} /\ OnlyFragmented) =>
    \A o \in DOMAIN res : res[o].fresh # "" =>
       /\ res[o].result = res[o].fresh /\ res[o].own = res[o].freshOwn /\ res[o].nrec = res[o].freshNrec
       /\ (res[o].result \in {"response", "kafkaError"} => ~res[o].closed)

\* C17: a response cut before its end gives an error, never a result, a panic or a hang
C17_CutIsError ==
  \A o \in DOMAIN res : FaultOf(o).cut >= 0 => res[o].result \in {"ioError", "noProgress"}
C17_NoPanicNoHang == \A o \in DOMAIN res : res[o].result \notin {"panic", "hang"}

TraceAccepted == TLCGet("stats").diameter = Len(Trace) + 1
=============================================================================
