SPECIFICATION Spec
INVARIANTS C06_OwnResponse C11_NextAsFresh C11_KafkaErrKeepsOpen C11_ErrorReported C11_FailedStaysFailed C11_NoSpuriousNoProgress C11_FragmentsAsWhole C17_CutIsError C17_NoPanicNoHang
POSTCONDITION TraceAccepted
CHECK_DEADLOCK FALSE
