--------------------------- MODULE ConnMuxTrace ---------------------------
(***************************************************************************)
(* Conformance of traces recorded from a real kafka.Conn (hooks conn.req,  *)
(* conn.take, conn.yield, conn.noprogress, conn.peekerr, conn.done,        *)
(* batch.close) and from the fake broker (reply events) with ConnMux.tla.  *)
(* One model operation = one request, identified by its correlation id.    *)
(***************************************************************************)
EXTENDS Integers, Sequences, FiniteSets, TLC, Json, IOUtils

Trace == ndJsonDeserialize(IOEnv.TRACE)

Ops == 1 .. 40
ConsumeAll == TRUE
MaxCuts == 100
MaxTimeouts == 100

VARIABLES op, corr, inflight, rlock, closed, reqs, stream, deliv, peerClosed, rpos, mis, faults, l

M == INSTANCE ConnMux

tvars == <<op, corr, inflight, rlock, closed, reqs, stream, deliv, peerClosed, rpos, mis, faults, l>>

TInit == M!Init /\ l = 1

Reset ==
  /\ op' = [o \in Ops |-> [pc |-> "idle", id |-> 0, result |-> "none", frame |-> 0]]
  /\ corr' = 0 /\ inflight' = 0 /\ rlock' = 0 /\ closed' = FALSE
  /\ reqs' = <<>> /\ stream' = <<>> /\ deliv' = <<>> /\ peerClosed' = FALSE
  /\ rpos' = 0 /\ mis' = FALSE /\ faults' = [cuts |-> 0, timeouts |-> 0, wrongids |-> 0]

Skip == UNCHANGED <<op, corr, inflight, rlock, closed, reqs, stream, deliv, peerClosed, rpos, mis, faults>>

\* the broker wrote a response: the network delivers it at once, or only a prefix and then EOF
Reply(e) ==
  LET o == e.id IN
  /\ ~peerClosed /\ o \in M!Received \ M!Answered      \* (any request received and not answered yet, not only the oldest)
  /\ stream' = Append(stream, IF "rid" \in DOMAIN e /\ e.rid # e.id
                                 THEN [op |-> e.rid, kerr |-> FALSE, forged |-> TRUE, req |-> o]     \* a foreign correlation id
                                 ELSE [op |-> o, kerr |-> e.kerr, forged |-> FALSE, req |-> o])
  /\ deliv' = Append(deliv, IF e.cut < 0 \/ e.cut >= e.len THEN "full"
                            ELSE IF e.cut >= 8 THEN "hdr" ELSE "none")
  /\ UNCHANGED <<op, corr, inflight, rlock, closed, reqs, rpos, mis, faults, peerClosed>>

\* the broker end of the connection was closed (recorded inside fakenet's critical section)
PeerClosed ==
  /\ peerClosed' = TRUE
  /\ UNCHANGED <<op, corr, inflight, rlock, closed, reqs, stream, deliv, rpos, mis, faults>>

Owner == CHOOSE o \in Ops : op[o].pc = "own"

DoneEv(e) ==
  LET o == IF e.id # 0 THEN e.id ELSE Owner IN
  /\ op[o].pc = "own"
  /\ IF e.result \in {"response", "kafkaError"}
       THEN M!ReadBody(o)     \* (some operations report the broker's code only after the frame was read)
       ELSE \E w \in {"eof", "closed", "timeout"} : M!ReadErr(o, w)

Step(e) ==
  CASE e.ev = "cfg" -> Reset
    [] e.ev = "reqbegin" -> M!DoRequest(e.id) /\ corr' = e.id
    [] e.ev = "req" ->          \* the write returned: its outcome was decided when it began
         /\ IF e.ok THEN \E k \in DOMAIN reqs : reqs[k] = e.id ELSE op[e.id].result = "ioError"
         /\ Skip
    [] e.ev = "peerclosed" -> PeerClosed
    [] e.ev = "reply" -> Reply(e)
    [] e.ev = "replyhdr" ->     \* a response delivered in pieces: size and correlation id have arrived
         /\ deliv' = [k \in DOMAIN deliv |-> IF stream[k].req = e.id /\ deliv[k] = "none" THEN "hdr" ELSE deliv[k]]
         /\ UNCHANGED <<op, corr, inflight, rlock, closed, reqs, stream, rpos, mis, faults, peerClosed>>
    [] e.ev = "replyrest" ->    \* the rest of a stalled (or fragmented) response arrives
         /\ deliv' = [k \in DOMAIN deliv |-> IF stream[k].req = e.id THEN "full" ELSE deliv[k]]
         /\ UNCHANGED <<op, corr, inflight, rlock, closed, reqs, stream, rpos, mis, faults, peerClosed>>
    [] e.ev = "take" -> M!PeekOK(e.id) /\ op'[e.id].pc = "own"
    [] e.ev = "yield" -> M!PeekOK(e.id) /\ UNCHANGED op
    [] e.ev = "noprogress" -> M!PeekOK(e.id) /\ op'[e.id].result = "noProgress"
    [] e.ev = "peekerr" -> \E w \in {"eof", "closed", "timeout"} : M!PeekErr(e.id, w)
    [] e.ev = "done" -> DoneEv(e)
    [] OTHER -> Skip

TNext == l <= Len(Trace) /\ l' = l + 1 /\ Step(Trace[l])
TSpec == TInit /\ [][TNext]_tvars

TraceAccepted ==
  \/ TLCGet("stats").diameter = Len(Trace) + 1
  \/ ~PrintT(<<"DIVERGED_AT_LINE", TLCGet("stats").diameter, Trace[TLCGet("stats").diameter]>>)
=============================================================================
