SPECIFICATION Spec
CONSTANTS Ops = {1, 2, 3}
  ConsumeAll = TRUE
  MaxCuts = 1
  MaxTimeouts = 1
INVARIANTS TypeOK C06_OwnResponse C11_OtherErrCloses C11_NeverMisaligned C11_NoSpuriousNoProgress C17_CutIsError
PROPERTIES C11_KafkaErrKeeps C11_ClosedStaysFailed
CHECK_DEADLOCK FALSE
