------------------------------ MODULE ConnMux ------------------------------
(***************************************************************************)
(* One kafka.Conn shared by several operations (conn.go: do, doRequest,    *)
(* waitResponse, readResponse; batch.go: close).  Requests are numbered    *)
(* under the write lock; the read side is handed over between waiters by   *)
(* peeking at the next frame's correlation id.  The broker answers the     *)
(* requests it has received in any order (C06: "every order and delay in   *)
(* which the broker answers"); the network delivers the response stream    *)
(* frame header first, then the rest, and may cut it anywhere.             *)
(*                                                                         *)
(* ConsumeAll is the design intent "an operation that gets a Kafka error   *)
(* consumes its whole frame"; setting it to FALSE models the defect class  *)
(* of finding F2 and must make C11_NeverMisaligned fail (vacuity guard).   *)
(***************************************************************************)
EXTENDS Integers, Sequences, FiniteSets, TLC

CONSTANTS Ops,          \* set of operation ids (naturals)
          ConsumeAll,   \* BOOLEAN
          MaxCuts, MaxTimeouts

\* Overridable parameters (defaults = the code as it is):
\*   MaxWrongIds: answers the broker may send with a correlation id that is not the request's (a framing error);
\*   CloseOnNoProgress: waitResponse closes the connection when it reports io.ErrNoProgress (finding F20: it did not,
\*   the foreign frame stayed in the buffer and was later taken by the operation whose id it happened to carry).
\*   EnterAtWait / SoleWaiterTakes: a defective client (vacuity guard of C06_OwnResponse under out-of-order answers): the
\*   in-flight count is raised when a caller starts waiting for its response instead of before it writes its request, and
\*   a sole (counted) waiter takes whatever response is at the head of the stream.  Each alone is harmless; together two
\*   calls end up with each other's answers without any fault, as soon as the broker answers the later request first.
MaxWrongIds == 1
CloseOnNoProgress == TRUE
NoCloseOnNoProgress == FALSE
AnswerInOrder == FALSE      \* TRUE: the broker answers in request order only (smaller state space for the checks that are not about C06)
EnterAtWait == FALSE
SoleWaiterTakes == FALSE
Yes == TRUE

VARIABLES
  op,         \* o -> [pc, id, result, frame]
  corr,       \* Conn.correlationID
  inflight,   \* Conn.inflight
  rlock,      \* 0 (free) or the operation holding Conn.rlock
  closed,     \* the client closed the connection
  reqs,       \* operations in the order their requests reached the wire
  stream,     \* response frames written by the broker: [op |-> o, kerr |-> BOOLEAN, forged |-> BOOLEAN, req |-> o]; op = the
              \* operation whose correlation id the frame carries; req = the operation whose request it answers; forged: op # req
  deliv,      \* per frame: "none" | "hdr" | "full"
  peerClosed, \* the broker end is gone: nothing more will be delivered
  rpos,       \* frames consumed (completely or not) by the client
  mis,        \* the client's read position is inside a frame
  faults      \* [cuts, timeouts] injected so far

vars == <<op, corr, inflight, rlock, closed, reqs, stream, deliv, peerClosed, rpos, mis, faults>>

Init ==
  /\ op = [o \in Ops |-> [pc |-> "idle", id |-> 0, result |-> "none", frame |-> 0]]
  /\ corr = 0 /\ inflight = 0 /\ rlock = 0 /\ closed = FALSE
  /\ reqs = <<>> /\ stream = <<>> /\ deliv = <<>> /\ peerClosed = FALSE
  /\ rpos = 0 /\ mis = FALSE /\ faults = [cuts |-> 0, timeouts |-> 0, wrongids |-> 0]

Finish(o, res, f) == [op EXCEPT ![o].pc = "done", ![o].result = res, ![o].frame = f]

\* doRequest: under wlock number the request and write it; a failed write closes the connection
DoRequest(o) ==
  /\ op[o].pc = "idle"
  /\ corr' = corr + 1
  /\ IF closed \/ peerClosed
       THEN /\ op' = [Finish(o, "ioError", 0) EXCEPT ![o].id = corr + 1]
            /\ closed' = TRUE
            /\ UNCHANGED <<inflight, reqs>>
       ELSE /\ op' = [op EXCEPT ![o].pc = IF EnterAtWait THEN "sent" ELSE "wait", ![o].id = corr + 1]
            /\ reqs' = Append(reqs, o)
            /\ inflight' = IF EnterAtWait THEN inflight ELSE inflight + 1
            /\ UNCHANGED closed
  /\ UNCHANGED <<rlock, stream, deliv, peerClosed, rpos, mis, faults>>

\* (defective client only) the caller is counted when it starts waiting
EnterWait(o) ==
  /\ op[o].pc = "sent"
  /\ op' = [op EXCEPT ![o].pc = "wait"]
  /\ inflight' = inflight + 1
  /\ UNCHANGED <<corr, rlock, closed, reqs, stream, deliv, peerClosed, rpos, mis, faults>>

\* requests the broker has received / has answered
Received == {reqs[k] : k \in DOMAIN reqs}
Answered == {stream[k].req : k \in DOMAIN stream}
FirstUnanswered == reqs[CHOOSE k \in DOMAIN reqs : reqs[k] \notin Answered /\ \A j \in 1 .. k - 1 : reqs[j] \in Answered]

\* the broker answers a request it has received, not necessarily the oldest one, with success or a Kafka error code
BrokerReply(o, kerr) ==
  /\ ~peerClosed /\ o \in Received \ Answered
  /\ AnswerInOrder => o = FirstUnanswered
  /\ stream' = Append(stream, [op |-> o, kerr |-> kerr, forged |-> FALSE, req |-> o])
  /\ deliv' = Append(deliv, "none")
  /\ UNCHANGED <<op, corr, inflight, rlock, closed, reqs, peerClosed, rpos, mis, faults>>

\* the broker answers the next request with a frame that carries another operation's correlation id
BrokerReplyWrongId(o2) ==
  /\ ~peerClosed /\ Received \ Answered # {} /\ faults.wrongids < MaxWrongIds
  /\ o2 # FirstUnanswered
  /\ stream' = Append(stream, [op |-> o2, kerr |-> FALSE, forged |-> TRUE, req |-> FirstUnanswered])
  /\ deliv' = Append(deliv, "none")
  /\ faults' = [faults EXCEPT !.wrongids = @ + 1]
  /\ UNCHANGED <<op, corr, inflight, rlock, closed, reqs, peerClosed, rpos, mis>>

\* the network delivers the next piece of the stream
Deliver(f) ==
  /\ f \in DOMAIN deliv /\ ~peerClosed
  /\ ~closed          \* what arrives after the client closed its end is never read
  /\ \A g \in 1 .. f - 1 : deliv[g] = "full"
  /\ deliv[f] # "full"
  /\ deliv' = [deliv EXCEPT ![f] = IF @ = "none" THEN "hdr" ELSE "full"]
  /\ UNCHANGED <<op, corr, inflight, rlock, closed, reqs, stream, peerClosed, rpos, mis, faults>>

\* the connection is lost (C17): whatever was not delivered never arrives
Cut ==
  /\ ~peerClosed /\ faults.cuts < MaxCuts
  /\ peerClosed' = TRUE /\ faults' = [faults EXCEPT !.cuts = @ + 1]
  /\ UNCHANGED <<op, corr, inflight, rlock, closed, reqs, stream, deliv, rpos, mis>>

Next1 == rpos + 1        \* the frame at the client's read position
HdrAvail == Next1 \in DOMAIN deliv /\ deliv[Next1] # "none"
FullAvail == Next1 \in DOMAIN deliv /\ deliv[Next1] = "full"

\* waitResponse: c.rlock.Lock(); peekResponseSizeAndID succeeded.  (Taking the lock and the
\* blocking peek are one step: a waiter blocked in Peek only delays the others.)
PeekOK(o) ==
  \* (not "~closed": bytes already buffered by the Conn's bufio.Reader stay readable after a close)
  /\ op[o].pc = "wait" /\ rlock = 0
  /\ \/ mis            \* bytes from the middle of a frame are taken for a header
     \/ HdrAvail
  /\ LET mine == ~mis /\ (stream[Next1].op = o \/ (SoleWaiterTakes /\ inflight = 1)) IN
       IF mine
         THEN /\ op' = [op EXCEPT ![o].pc = "own"]                 \* take: keeps rlock
              /\ inflight' = inflight - 1
              /\ rlock' = o
         ELSE IF inflight = 1
           THEN /\ op' = Finish(o, "noProgress", 0)               \* io.ErrNoProgress
                /\ inflight' = inflight - 1 /\ UNCHANGED rlock
           ELSE UNCHANGED <<op, rlock, inflight>>                 \* yield and retry
  /\ closed' = IF ~(~mis /\ (stream[Next1].op = o \/ SoleWaiterTakes)) /\ inflight = 1 /\ CloseOnNoProgress THEN TRUE ELSE closed
  /\ UNCHANGED <<corr, reqs, stream, deliv, peerClosed, rpos, mis, faults>>

\* peek failed: EOF / reset after the peer went away, use of a closed connection, or the deadline
PeekErr(o, why) ==
  /\ op[o].pc = "wait" /\ rlock = 0
  /\ \/ why = "eof" /\ peerClosed /\ ~HdrAvail /\ ~mis
     \/ why = "closed" /\ closed
     \/ why = "timeout" /\ ~HdrAvail /\ ~mis /\ faults.timeouts < MaxTimeouts
  /\ faults' = IF why = "timeout" THEN [faults EXCEPT !.timeouts = @ + 1] ELSE faults
  /\ closed' = TRUE /\ inflight' = inflight - 1
  /\ op' = Finish(o, "ioError", 0)
  /\ UNCHANGED <<corr, rlock, reqs, stream, deliv, peerClosed, rpos, mis>>

\* the read callback of do(): consumes the frame, reports success or the broker's error code
ReadBody(o) ==
  /\ op[o].pc = "own" /\ FullAvail
  /\ LET f == Next1 IN
       /\ op' = Finish(o, IF stream[f].kerr THEN "kafkaError" ELSE "response", f)
       /\ mis' = (stream[f].kerr /\ ~ConsumeAll)
       /\ rpos' = rpos + 1
  /\ rlock' = 0
  /\ UNCHANGED <<corr, inflight, closed, reqs, stream, deliv, peerClosed, faults>>

\* the body could not be read completely: the connection is closed by do() / Batch.close
ReadErr(o, why) ==
  /\ op[o].pc = "own"
  /\ \/ why = "eof" /\ peerClosed /\ ~FullAvail
     \/ why = "closed" /\ closed
     \/ why = "timeout" /\ ~FullAvail /\ faults.timeouts < MaxTimeouts
  /\ faults' = IF why = "timeout" THEN [faults EXCEPT !.timeouts = @ + 1] ELSE faults
  /\ closed' = TRUE /\ rlock' = 0
  /\ op' = Finish(o, "ioError", Next1)
  /\ mis' = TRUE /\ rpos' = rpos + 1
  /\ UNCHANGED <<corr, inflight, reqs, stream, deliv, peerClosed>>

Next ==
  \/ \E o \in Ops : DoRequest(o) \/ PeekOK(o) \/ ReadBody(o)
                     \/ \E w \in {"eof", "closed", "timeout"} : PeekErr(o, w) \/ ReadErr(o, w)
  \/ \E o \in Ops : EnterWait(o)
  \/ \E o \in Ops, k \in BOOLEAN : BrokerReply(o, k)
  \/ \E o2 \in Ops : BrokerReplyWrongId(o2)
  \/ \E f \in DOMAIN deliv : Deliver(f)
  \/ Cut

Spec == Init /\ [][Next]_vars
FairSpec == Spec /\ WF_vars(Next)

-----------------------------------------------------------------------------
Done(o) == op[o].pc = "done"

\* C06: a call only ever consumes the frame that answers its own request
\* (a broker that answers with correlation ids of other pending or future requests can defeat any client: the clause is
\* claimed for brokers that echo the id; what the library owes after a foreign id is C11: an error and a closed connection)
C06_OwnResponse ==
  faults.wrongids = 0 =>
  \A o \in Ops : op[o].result \in {"response", "kafkaError"} =>
      /\ op[o].frame \in DOMAIN stream /\ stream[op[o].frame].op = o /\ ~stream[op[o].frame].forged

\* C11: a Kafka error leaves the connection open and aligned ...
C11_KafkaErrKeeps ==
  [][\A o \in Ops : (op'[o].result = "kafkaError" /\ op[o].result = "none")
        => (closed' = closed /\ ~mis')]_vars
\* ... any other failure closes it
C11_OtherErrCloses ==
  \A o \in Ops : op[o].result = "ioError" => closed
\* and bytes of one response are never interpreted as part of another
C11_NeverMisaligned == mis => closed
\* (after a transport failure leftover buffered bytes may still be taken for a header)
C11_NoSpuriousNoProgress == \A o \in Ops : op[o].result = "noProgress" => closed
\* once closed, every later operation fails
C11_ClosedStaysFailed ==
  [][\A o \in Ops : (closed /\ op[o].pc = "idle" /\ op'[o].pc # "idle") => op'[o].result = "ioError"]_vars

\* C17 (Conn part): an operation whose response was cut ends in an error
C17_CutIsError ==
  \A o \in Ops : (Done(o) /\ op[o].result \in {"response", "kafkaError"})
      => deliv[op[o].frame] = "full"

\* every operation terminates (deadlines): checked under FairSpec
L_Terminates == \A o \in Ops : <>(Done(o) \/ (op[o].pc = "idle"))
TypeOK == inflight >= 0 /\ rpos <= Len(stream)
=============================================================================
