---------------------------- MODULE OffsetsCheck ----------------------------
(***************************************************************************)
(* TLC as the judge of C19.  Input (environment variables):                *)
(*   CSFILE  ndjson, line k = abstract cluster state number k              *)
(*   CASES   ndjson, one line per query put to the REAL kafka-go code:     *)
(*           [id, api, csi (cluster state number), q (query), a (answer)]  *)
(*   MODE    "strict": the invariant AnswersExact fails at the first case  *)
(*           whose answer is not the projection of the cluster state that  *)
(*           Offsets.tla defines (the error trace shows cid and bad);      *)
(*           "report": every such case is printed as MISMATCH and the run  *)
(*           goes on (used to list all failing cases of a file).           *)
(* Judge(c) is the set of the answer's fields that differ.                 *)
(***************************************************************************)
EXTENDS Offsets, TLC, Json, IOUtils

CSs    == ndJsonDeserialize(IOEnv.CSFILE)
Cases  == ndJsonDeserialize(IOEnv.CASES)
Report == IOEnv.MODE = "report"

Fld(name, ok) == IF ok THEN {} ELSE {name}
TP(t, p) == t \o "/" \o ToString(p)

BrokerOfCS(cs, id) ==
  LET S == {i \in DOMAIN cs.brokers : cs.brokers[i].id = id}
  IN  IF S = {} THEN [id |-> id, host |-> "", port |-> 0] ELSE cs.brokers[CHOOSE i \in S : TRUE]
BrokersOfCS(cs, ids) == [j \in DOMAIN ids |-> BrokerOfCS(cs, ids[j])]

(***************************************************************************)
(* Conn.Seek / Conn.Offset: a chain of seeks on one fresh connection.      *)
(***************************************************************************)
JudgeSeek(cs, q, a) ==
  LET n == Len(q.steps)
      pos[k \in 0 .. n] ==
        IF k = 0 THEN FirstOffset
        ELSE SeekOutcome(cs, q.t, q.p, q.broker, pos[k - 1], q.steps[k].off, q.steps[k].whence, q.steps[k].dc).pos
      Exp(k) == SeekOutcome(cs, q.t, q.p, q.broker, pos[k - 1], q.steps[k].off, q.steps[k].whence, q.steps[k].dc)
      \* the class of a step is part of the field name, so that a finding can be identified by it
      Class(k) == IF q.steps[k].whence = SeekCurrent /\ ~q.steps[k].dc /\ pos[k - 1] \in {FirstOffset, LastOffset}
                    THEN "(SeekCurrent from symbolic position) " ELSE ""
      Step(k) ==
        LET e == Exp(k)
            s == a.steps[k]
            w == "step " \o ToString(k) \o " " \o Class(k)
        IN  Fld(w \o "err", s.err = e.err)
              \cup Fld(w \o "result", e.err # 0 \/ s.err # 0 \/ s.res = e.res)
              \cup Fld(w \o "position", <<s.aoff, s.awh>> = OffsetPair(e.pos))
      badSteps == {k \in 1 .. n : Step(k) # {}}
  IN  Fld("initial position", <<a.ioff, a.iwh>> = OffsetPair(FirstOffset))
        \cup (IF Len(a.steps) # n THEN {"steps"}
              \* later steps of a chain start from a position the code does not share: only the first
              \* diverging step is reported
              ELSE IF badSteps = {} THEN {} ELSE Step(MinOf(badSteps)))

(***************************************************************************)
(* Conn.ReadFirstOffset / ReadLastOffset / ReadOffset(time) / ReadOffsets  *)
(***************************************************************************)
JudgeReadOffset(cs, q, a) ==
  LET e0 == AskError(cs, q.t, q.p, q.broker)
      \* a lookup by timestamp may fail on its own (lerrt) where first/last succeed
      e  == IF e0 = 0 /\ q.kind = "time" /\ q.ts >= 0 /\ PartOf(cs, q.t, q.p).lerrt # 0 THEN PartOf(cs, q.t, q.p).lerrt ELSE e0
  IN  IF e # 0 THEN Fld("err", a.err = e)
      ELSE LET part == PartOf(cs, q.t, q.p)
           IN  Fld("err", a.err = 0) \cup
               (CASE q.kind = "first"   -> Fld("offset", a.off = part.start)
                  [] q.kind = "last"    -> Fld("offset", a.off = part.end)
                  \* (the Conn has no isolation level: every record below the log end offset is visible)
                  [] q.kind = "time"    -> Fld("offset", a.off = OffsetAt(part, q.ts, ReadUncommitted))
                  [] q.kind = "offsets" -> Fld("first", a.first = part.start) \cup Fld("last", a.last = part.end))

(***************************************************************************)
(* Partition descriptions (Conn.ReadPartitions, Client.Metadata)           *)
(***************************************************************************)
JudgeParts(cs, prefix, parts, topics) ==
  LET want == UNION {{<<t, p>> : p \in PartIds(cs, t)} : t \in topics \cap TopicNames(cs)}
      got  == {<<parts[i].topic, parts[i].id>> : i \in DOMAIN parts}
      One(i) ==
        LET t == parts[i].topic
            p == parts[i].id
            w == prefix \o TP(t, p) \o " "
        IN  IF <<t, p>> \notin want THEN {}
            ELSE LET part == PartOf(cs, t, p)
                 IN  Fld(w \o "leader", parts[i].leader = BrokerOfCS(cs, part.leader))
                       \cup Fld(w \o "replicas", parts[i].replicas = BrokersOfCS(cs, part.replicas))
                       \cup Fld(w \o "isr", parts[i].isr = BrokersOfCS(cs, part.isr))
                       \cup Fld(w \o "error", parts[i].err = part.merr)
  IN  Fld(prefix \o "partition list", got = want /\ Len(parts) = Cardinality(want))
        \cup UNION {One(i) : i \in DOMAIN parts}

\* ReadPartitions' doc comment: with no topic the connection's topic is used, with none configured all
\* partitions of the cluster; a comment in the code: an error of a topic is reported only if it is the
\* topic of the connection (or the connection has none), "otherwise the topic will simply have no
\* partitions in the result set".
JudgeReadPartitions(cs, q, a) ==
  LET eff == IF Len(q.topics) > 0 THEN Range(q.topics)
             ELSE IF q.ctopic # "" THEN {q.ctopic} ELSE TopicNames(cs)
      unknown == eff \ TopicNames(cs)
      mustErr == \E u \in unknown : q.ctopic = "" \/ u = q.ctopic
  IN  IF mustErr THEN Fld("err", a.err = UnknownTopicOrPartition)
      ELSE Fld("err", a.err = 0) \cup JudgeParts(cs, "", a.parts, eff)

JudgeMetadata(cs, q, a) ==
  LET want == IF q.all THEN TopicNames(cs) ELSE Range(q.topics)
      got  == {a.topics[i].name : i \in DOMAIN a.topics}
      One(i) ==
        LET t == a.topics[i]
        IN  IF t.name \notin want THEN {}
            ELSE IF ~HasTopic(cs, t.name)
              THEN Fld(t.name \o " error", t.err = UnknownTopicOrPartition) \cup Fld(t.name \o " partition list", t.parts = <<>>)
              ELSE Fld(t.name \o " error", t.err = 0) \cup JudgeParts(cs, "", t.parts, {t.name})
  IN  IF a.err # 0 THEN {"err"}
      ELSE Fld("brokers", Range(a.brokers) = Range(cs.brokers) /\ Len(a.brokers) = Len(cs.brokers))
             \cup Fld("controller", a.controller = BrokerOfCS(cs, cs.controller))
             \cup Fld("topic list", got = want /\ Len(a.topics) = Cardinality(want))
             \cup UNION {One(i) : i \in DOMAIN a.topics}

(***************************************************************************)
(* Client.ListOffsets: any combination of (topic, partition, timestamp)    *)
(* in one request; one answer per topic-partition; a failure of one        *)
(* partition is reported on it and nowhere else.  q.iso: the request's      *)
(* IsolationLevel, q.bv: highest ListOffsets version the brokers speak.    *)
(***************************************************************************)
JudgeListOffsets(cs, q, a) ==
  LET reqs == q.reqs
      iso  == EffectiveIsolation(q.iso, q.bv)
      want == {<<reqs[i].t, reqs[i].p>> : i \in DOMAIN reqs}
      got  == {<<a.parts[i].t, a.parts[i].p>> : i \in DOMAIN a.parts}
      allUnreachable == reqs # <<>> /\ \A i \in DOMAIN reqs : Unreachable(cs, reqs[i].t, reqs[i].p)
      Asked(t, p) == {reqs[i].ts : i \in {j \in DOMAIN reqs : reqs[j].t = t /\ reqs[j].p = p}}
      One(i) ==
        LET r == a.parts[i]
            w == TP(r.t, r.p) \o " "
            f == RoutedFault(cs, r.t, r.p)
        IN  IF <<r.t, r.p>> \notin want THEN {}
            ELSE IF f = -1 THEN Fld(w \o "error", r.err # 0)
            ELSE IF f # 0 THEN Fld(w \o "error", r.err = f)
            ELSE LET part  == PartOf(cs, r.t, r.p)
                     asked == Asked(r.t, r.p)
                     times == {ts \in asked : ts >= 0}
                     timedFail == part.lerrt # 0 /\ times # {}     \* the lookups by timestamp of this partition fail, the others succeed
                 IN  Fld(w \o "error", r.err = IF timedFail THEN part.lerrt ELSE 0)
                       \cup Fld(w \o "first", r.first = IF FirstOffset \in asked THEN part.start ELSE -1)
                       \cup Fld(w \o "last", r.last = IF LastOffset \in asked THEN OffsetAt(part, LastOffset, iso) ELSE -1)
                       \cup Fld(w \o "offsets",
                                \* (what Offsets holds for failed lookups is not specified)
                                timedFail \/
                                (/\ \A ts \in times : \E j \in DOMAIN r.offsets : r.offsets[j][1] = OffsetAt(part, ts, iso)
                                 /\ \A j \in DOMAIN r.offsets :
                                       \E ts \in times : OffsetAt(part, ts, iso) = r.offsets[j][1] /\ r.offsets[j][2] = ts))
  IN  IF a.err # 0 THEN Fld("err", allUnreachable)
      ELSE Fld("partition list", got = want /\ Len(a.parts) = Cardinality(want))
             \cup UNION {One(i) : i \in DOMAIN a.parts}

(***************************************************************************)
(* Client.OffsetFetch, OffsetCommit followed by OffsetFetch and            *)
(* ConsumerOffsets                                                         *)
(***************************************************************************)
WantedTPs(topics) == UNION {{<<topics[i].t, topics[i].parts[j]>> : j \in DOMAIN topics[i].parts} : i \in DOMAIN topics}

\* gerr: the error the coordinator answers for the whole group (0: none).  A refused OffsetFetch must report the
\* refusal (RefusalReported); the partitions it lists (none, or all of them: the coordinator's choice per API
\* version) carry the coordinator's code and nothing else is presented as a committed offset.
JudgeFetched(prefix, committed, gerr, topics, a) ==
  LET want == WantedTPs(topics)
      got  == {<<a.parts[i].t, a.parts[i].p>> : i \in DOMAIN a.parts}
      One(i) ==
        LET r == a.parts[i]
            w == prefix \o TP(r.t, r.p) \o " "
        IN  IF <<r.t, r.p>> \notin want THEN {}
            ELSE IF gerr # 0 THEN Fld(w \o "error", r.err = gerr)
            ELSE Fld(w \o "committed", r.off = CommittedIn(committed, r.t, r.p)) \cup Fld(w \o "error", r.err = 0)
  IN  IF a.err # 0 THEN {prefix \o "err"}
      ELSE IF gerr # 0
        THEN Fld(prefix \o "group error", a.gerr \in {0, gerr} /\
                   RefusalReported(gerr, want, a.gerr, {<<a.parts[i].t, a.parts[i].p, a.parts[i].err>> : i \in DOMAIN a.parts}))
               \cup Fld(prefix \o "partition list", got \subseteq want /\ Len(a.parts) = Cardinality(got))
               \cup UNION {One(i) : i \in DOMAIN a.parts}
      ELSE Fld(prefix \o "group error", a.gerr = 0)
             \cup Fld(prefix \o "partition list", got = want /\ Len(a.parts) = Cardinality(want))
             \cup UNION {One(i) : i \in DOMAIN a.parts}

JudgeOffsetFetch(cs, q, a) ==
  JudgeFetched("", IF q.group \in GroupIds(cs) THEN GroupOf(cs, q.group).committed ELSE <<>>, GroupError(cs, q.group), q.topics, a)

\* q.gerr: the coordinator refuses the (case-private) group with this code: the refusal is reported on every
\* partition of the commit (OffsetCommit has no group-level error field in any version), nothing is committed,
\* the OffsetFetch afterwards reports the refusal, and so does ConsumerOffsets (asked when q.co), whose only
\* way to report anything is its error result.
JudgeCommit(cs, q, a) ==
  LET after == IF q.gerr # 0 THEN q.init ELSE AfterCommit(q.init, q.commits)
      want  == {<<q.commits[i].t, q.commits[i].p>> : i \in DOMAIN q.commits}
      got   == {<<a.cparts[i].t, a.cparts[i].p>> : i \in DOMAIN a.cparts}
      coWant == {<<p, CommittedIn(after, q.ctopic, p)>> : p \in PartIds(cs, q.ctopic)}
  IN  IF a.cerr # 0 THEN {"commit err"}
      ELSE Fld("commit partition list", got = want /\ Len(a.cparts) = Cardinality(want))
             \cup Fld("commit errors", \A i \in DOMAIN a.cparts : a.cparts[i].err = q.gerr)
             \cup JudgeFetched("fetch ", after, q.gerr, q.fetch, a.fetch)
             \cup (IF ~q.co THEN {}
                   ELSE IF q.gerr # 0 THEN Fld("consumeroffsets of a refused group: err", a.co.err # 0)
                   ELSE Fld("consumeroffsets err", a.co.err = 0)
                          \cup Fld("consumeroffsets", a.co.err # 0 \/ (Range(a.co.offs) = coWant /\ Len(a.co.offs) = Cardinality(coWant))))

(***************************************************************************)
Judge(c) ==
  LET cs == CSs[c.csi]
  IN  IF c.a.panic THEN {"panic"}
      ELSE IF c.a.hang THEN {"hang"}
      ELSE CASE c.api = "seek"           -> JudgeSeek(cs, c.q, c.a)
             [] c.api = "readoffset"     -> JudgeReadOffset(cs, c.q, c.a)
             [] c.api = "readpartitions" -> JudgeReadPartitions(cs, c.q, c.a)
             [] c.api = "metadata"       -> JudgeMetadata(cs, c.q, c.a)
             [] c.api = "listoffsets"    -> JudgeListOffsets(cs, c.q, c.a)
             [] c.api = "offsetfetch"    -> JudgeOffsetFetch(cs, c.q, c.a)
             [] c.api = "commit"         -> JudgeCommit(cs, c.q, c.a)

Verdict(c) ==
  LET f == Judge(c)
  IN  IF f = {} \/ ~Report THEN f
      ELSE IF PrintT(<<"MISMATCH", c.id, f>>) THEN {} ELSE {}

VARIABLES i, cid, bad
vars == <<i, cid, bad>>

Init == i = 0 /\ cid = "" /\ bad = {}
Next == /\ i < Len(Cases)
        /\ i' = i + 1
        /\ cid' = Cases[i + 1].id
        /\ bad' = Verdict(Cases[i + 1])
Spec == Init /\ [][Next]_vars

\* The property: every answer of the real code is exactly the projection of the cluster state.
AnswersExact == bad = {}
=============================================================================
