SPECIFICATION Spec
INVARIANT AnswersExact
CHECK_DEADLOCK FALSE
