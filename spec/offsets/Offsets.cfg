\* constant-level run: TLC evaluates the ASSUMEd anchor cases of Offsets.tla
