------------------------------ MODULE Offsets ------------------------------
(***************************************************************************)
(* C19: offset and metadata queries report exactly the brokers' state.     *)
(*                                                                         *)
(* Part (i):  SeekResult, the whence arithmetic and range check of         *)
(*            Conn.Seek, stated from the DOCUMENTATION of Conn.Seek, of    *)
(*            the constants SeekStart / SeekAbsolute / SeekEnd /           *)
(*            SeekCurrent / SeekDontCheck, of Conn.Offset and of           *)
(*            FirstOffset / LastOffset (not from the code).                *)
(* Part (ii): the answers of the query APIs as projections of an abstract  *)
(*            cluster state CS.                                            *)
(*                                                                         *)
(* The module is pure (no variables); OffsetsCheck.tla evaluates it on the *)
(* answers the real library gave.                                          *)
(***************************************************************************)
EXTENDS Integers, Sequences, FiniteSets

(***************************************************************************)
(* (i) Seek                                                                *)
(***************************************************************************)
\* conn.go: "SeekStart = 0 // Seek relative to the first offset available in the partition."
\*          "SeekAbsolute = 1 // Seek to an absolute offset."
\*          "SeekEnd = 2 // Seek relative to the last offset available in the partition."
\*          "SeekCurrent = 3 // Seek relative to the current offset."
SeekStart    == 0
SeekAbsolute == 1
SeekEnd      == 2
SeekCurrent  == 3
Whences      == {SeekStart, SeekAbsolute, SeekEnd, SeekCurrent}

\* kafka.go: "LastOffset = -1 // The most recent offset available for a partition."
\*           "FirstOffset = -2 // The least recent offset available for a partition."
\* NewConnWith: "The offset is initialized to FirstOffset."  A connection position is therefore
\* either one of the two symbolic values or an absolute offset.
LastOffset  == -1
FirstOffset == -2

OffsetOutOfRange == "OffsetOutOfRange"
InvalidWhence    == "invalid whence"
\* Results are records of one shape (TLC cannot compare an integer with a string):
\* [off |-> new offset, err |-> ""]  or  [off |-> 0, err |-> OffsetOutOfRange | InvalidWhence]
NewOffset(n) == [off |-> n, err |-> ""]
Refused(e)   == [off |-> 0, err |-> e]

\* The absolute offset a (possibly symbolic) position stands for.
Resolve(cur, first, last) ==
  IF cur = FirstOffset THEN first ELSE IF cur = LastOffset THEN last ELSE cur

\* The offset a seek aims at.  Seek's doc comment: "When seeking relative to the end, the offset is
\* subtracted from the current offset" (the end offset is meant: the comment of SeekEnd says
\* "relative to the last offset"); "relative to the current offset" for a connection whose position is
\* symbolic (Offset() reports it as (0, SeekStart) / (0, SeekEnd)) is relative to the offset the symbol
\* stands for (the code added the numeric value of the symbol, -2 / -1, until /repo commit bc6f758, a
\* defect this specification exposed).
SeekTarget(cur, off, whence, first, last) ==
  CASE whence = SeekStart    -> first + off
    [] whence = SeekAbsolute -> off
    [] whence = SeekEnd      -> last - off
    [] whence = SeekCurrent  -> Resolve(cur, first, last) + off

\* "This flag may be combined to any of the SeekAbsolute and SeekCurrent constants to skip the bound
\* check that the connection would do otherwise."  The documentation says nothing about the flag with
\* SeekStart / SeekEnd (the code ignores it there, which needs the first/last offsets anyway): accepted.
SkipsCheck(whence, dontCheck) == dontCheck /\ whence \in {SeekAbsolute, SeekCurrent}

\* Deliberate deviation of the code, kept as a named case (DESIGN 5/6.14): an absolute seek to the
\* position the connection already has returns without asking the broker (and therefore without range
\* check).  The documentation does not mention it; in a static log it differs from the documented check
\* only when the current position was put out of range with SeekDontCheck or is a symbolic value.
UnchangedShortcut(cur, off, whence) == whence = SeekAbsolute /\ off = cur

\* Does this seek have to ask the broker for the first and last offsets?
SeekAsksBroker(cur, off, whence, dontCheck) ==
  /\ whence \in Whences
  /\ ~SkipsCheck(whence, dontCheck)
  /\ ~UnchangedShortcut(cur, off, whence)

\* New position, or OffsetOutOfRange, or "invalid whence".  first/last: first and last offset of the
\* partition (log start offset, log end offset) as held by the partition leader.
SeekResult(cur, off, whence, dontCheck, first, last) ==
  IF whence \notin Whences THEN Refused(InvalidWhence)
  ELSE IF dontCheck /\ whence = SeekAbsolute THEN NewOffset(off)
  \* SeekCurrent|SeekDontCheck from a symbolic position cannot be resolved without asking the broker; the
  \* documentation is silent, the code adds numerically: accepted.
  ELSE IF dontCheck /\ whence = SeekCurrent THEN NewOffset(cur + off)
  ELSE IF UnchangedShortcut(cur, off, whence) THEN NewOffset(off)
  ELSE LET t == SeekTarget(cur, off, whence, first, last)
       IN  IF first <= t /\ t <= last THEN NewOffset(t) ELSE Refused(OffsetOutOfRange)

\* Conn.Offset: "returns the current offset of the connection as pair of integers, where the first one is
\* an offset value and the second one indicates how to interpret it."
OffsetPair(pos) ==
  IF pos = FirstOffset THEN <<0, SeekStart>>
  ELSE IF pos = LastOffset THEN <<0, SeekEnd>>
  ELSE <<pos, SeekAbsolute>>

(***************************************************************************)
(* (ii) The abstract cluster state and its projections                     *)
(*                                                                         *)
(* CS = [brokers: Seq([id, host, port]), controller: Int, down: Seq(Int),  *)
(*       topics: Seq([name, parts: Seq([id, leader, replicas, isr, start,  *)
(*                    end, lso, ts, lerr, merr])]),                        *)
(*       groups: Seq([id, coord, gerr, committed: Seq([t, p, off])])]      *)
(* start/end: log start / log end offset (= high watermark); lso: last     *)
(* stable offset, start <= lso <= end (the records at lso..end-1 belong to *)
(* transactions that are still open); ts[o+1]: timestamp of the record     *)
(* at offset o (o in 0..end-1; records below start are deleted);           *)
(* gerr: error code the coordinator answers to OffsetFetch / OffsetCommit  *)
(* for the whole group (0: none; e.g. 14 GroupLoadInProgress);             *)
(* lerr: error the leader answers when asked for this partition's offsets; *)
(* lerrt: error it answers to lookups by timestamp (ts >= 0) only;         *)
(* merr: error reported in the metadata of the partition;                  *)
(* down: brokers whose address accepts no connection.                      *)
(***************************************************************************)
Range(s) == {s[i] : i \in DOMAIN s}
MinOf(S) == CHOOSE x \in S : \A y \in S : x <= y

UnknownTopicOrPartition == 3
NotLeaderForPartition   == 6

TopicNames(cs) == {cs.topics[i].name : i \in DOMAIN cs.topics}
HasTopic(cs, t) == t \in TopicNames(cs)
TopicOf(cs, t) == cs.topics[CHOOSE i \in DOMAIN cs.topics : cs.topics[i].name = t]
PartIds(cs, t) == {TopicOf(cs, t).parts[i].id : i \in DOMAIN TopicOf(cs, t).parts}
HasPart(cs, t, p) == HasTopic(cs, t) /\ p \in PartIds(cs, t)
PartOf(cs, t, p) == LET ps == TopicOf(cs, t).parts IN ps[CHOOSE i \in DOMAIN ps : ps[i].id = p]

\* Isolation levels (conn.go: "ReadUncommitted makes all records visible. With ReadCommitted only non-transactional
\* and committed records are visible"; ListOffsetsRequest.IsolationLevel "Defaults to ReadUncommitted").
ReadUncommitted == 0
ReadCommitted   == 1

\* The offset up to which a reader of that isolation level can fetch: the last stable offset for a
\* read_committed reader, the high watermark otherwise.
LastFetchable(part, iso) == IF iso = ReadCommitted THEN part.lso ELSE part.end

\* ListOffsets semantics of the protocol: -1 = last fetchable offset (log end offset / high watermark, or the
\* last stable offset under read_committed), -2 = log start offset, otherwise the first fetchable offset whose
\* record timestamp is >= ts, -1 when there is none.
OffsetAt(part, ts, iso) ==
  IF ts = LastOffset THEN LastFetchable(part, iso)
  ELSE IF ts = FirstOffset THEN part.start
  ELSE LET S == {o \in part.start .. (LastFetchable(part, iso) - 1) : part.ts[o + 1] >= ts}
       IN  IF S = {} THEN -1 ELSE MinOf(S)

\* The isolation level a ListOffsets request is served with: the field exists on the wire from version 2 of the
\* API on (doc comment of ListOffsetsRequest.IsolationLevel: "This field requires the kafka broker to support the
\* ListOffsets API in version 2 or above (otherwise the value is ignored)").  brokerMax: highest ListOffsets
\* version the brokers speak.
EffectiveIsolation(iso, brokerMax) == IF brokerMax >= 2 THEN iso ELSE ReadUncommitted

\* What a broker answers when asked for offsets of (t, p): 0 or the error code.
AskError(cs, t, p, broker) ==
  IF ~HasPart(cs, t, p) THEN UnknownTopicOrPartition
  ELSE LET part == PartOf(cs, t, p)
       IN  IF part.lerr # 0 THEN part.lerr
           ELSE IF part.leader # broker THEN NotLeaderForPartition
           ELSE 0

\* A client that routes by leader (kafka.Client + Transport) cannot reach the owner of (t, p).
Unreachable(cs, t, p) == HasPart(cs, t, p) /\ PartOf(cs, t, p).leader \in Range(cs.down)

\* The failure a routed client must report for (t, p): 0 none, a broker error code, or "unreachable".
RoutedFault(cs, t, p) ==
  IF ~HasPart(cs, t, p) THEN UnknownTopicOrPartition
  ELSE IF Unreachable(cs, t, p) THEN -1
  ELSE PartOf(cs, t, p).lerr

\* Error numbers used for outcomes: kafka-go's OffsetOutOfRange is Kafka error code 1; the whence error is
\* not a Kafka error (the driver reports it as -1000).
ErrOffsetOutOfRange == 1
ErrInvalidWhence    == -1000
ErrNumber(e) == IF e = OffsetOutOfRange THEN ErrOffsetOutOfRange ELSE IF e = InvalidWhence THEN ErrInvalidWhence ELSE 0

\* Outcome of a Seek on a connection to `broker` bound to (t, p): [err, res, pos].  err: 0, a broker error
\* code, ErrOffsetOutOfRange or ErrInvalidWhence.  A failed seek leaves the position unchanged.
SeekOutcome(cs, t, p, broker, cur, off, whence, dontCheck) ==
  LET ask == SeekAsksBroker(cur, off, whence, dontCheck)
      e   == IF ask THEN AskError(cs, t, p, broker) ELSE 0
  IN  IF e # 0 THEN [err |-> e, res |-> 0, pos |-> cur]
      ELSE LET part == PartOf(cs, t, p)
               r    == SeekResult(cur, off, whence, dontCheck, part.start, part.end)
           IN  IF r.err # ""
                 THEN [err |-> ErrNumber(r.err), res |-> 0, pos |-> cur]
                 ELSE [err |-> 0, res |-> r.off, pos |-> r.off]

\* Committed offset of a group for (t, p): -1 when there is none.
CommittedIn(committed, t, p) ==
  LET S == {i \in DOMAIN committed : committed[i].t = t /\ committed[i].p = p}
  IN  IF S = {} THEN -1 ELSE committed[CHOOSE i \in S : \A j \in S : j <= i].off

GroupIds(cs) == {cs.groups[i].id : i \in DOMAIN cs.groups}
GroupOf(cs, g) == cs.groups[CHOOSE i \in DOMAIN cs.groups : cs.groups[i].id = g]
Committed(cs, g, t, p) == IF g \in GroupIds(cs) THEN CommittedIn(GroupOf(cs, g).committed, t, p) ELSE -1

\* The error the coordinator answers to OffsetFetch / OffsetCommit of group g: 0 none.
GroupError(cs, g) == IF g \in GroupIds(cs) THEN GroupOf(cs, g).gerr ELSE 0

\* How a refused OffsetFetch must come back to the caller ("answers equal the cluster state or report the
\* error"): the group-level error of the answer is the coordinator's code, or (OffsetFetch v0/v1 have no
\* group-level field, the coordinator repeats the code on every partition) every partition asked for is listed
\* with that code.  topErr: group-level error of the answer, perPart: set of <<t, p, err>> of the answer.
RefusalReported(gerr, want, topErr, perPart) ==
  \/ topErr = gerr
  \/ /\ topErr = 0
     /\ want # {}
     /\ \A tp \in want : <<tp[1], tp[2], gerr>> \in perPart

\* OffsetCommit: the committed offsets afterwards (later entries win).
AfterCommit(committed, commits) == committed \o commits

(***************************************************************************)
(* Anchor cases: TLC evaluates these ASSUMEs when the module is loaded     *)
(* (sanity of the definitions themselves, independent of any code).        *)
(***************************************************************************)
AnchorPart == [id |-> 0, leader |-> 1, replicas |-> <<1, 2>>, isr |-> <<1>>, start |-> 1, end |-> 4,
               lso |-> 3, ts |-> <<10, 10, 20, 20>>, lerr |-> 0, merr |-> 0, lerrt |-> 0]
AnchorCS == [brokers |-> <<[id |-> 1, host |-> "b1", port |-> 9092], [id |-> 2, host |-> "b2", port |-> 9092]>>, controller |-> 1, down |-> <<2>>,
             topics |-> << [name |-> "ta", parts |-> <<AnchorPart, [AnchorPart EXCEPT !.id = 1, !.leader = 2]>>] >>,
             groups |-> << [id |-> "g", coord |-> 1, gerr |-> 0, committed |-> << [t |-> "ta", p |-> 0, off |-> 3] >>],
                           [id |-> "r", coord |-> 1, gerr |-> 14, committed |-> << [t |-> "ta", p |-> 0, off |-> 2] >>] >>]

ASSUME SeekResult(2, 1, SeekStart, FALSE, 1, 4) = NewOffset(2)
ASSUME SeekResult(2, 1, SeekEnd, FALSE, 1, 4) = NewOffset(3)
ASSUME SeekResult(2, 0, SeekEnd, FALSE, 1, 4) = NewOffset(4)
ASSUME SeekResult(2, -1, SeekEnd, FALSE, 1, 4) = Refused(OffsetOutOfRange)
ASSUME SeekResult(2, 2, SeekCurrent, FALSE, 1, 4) = NewOffset(4)
ASSUME SeekResult(2, 3, SeekCurrent, FALSE, 1, 4) = Refused(OffsetOutOfRange)
ASSUME SeekResult(2, 3, SeekCurrent, TRUE, 1, 4) = NewOffset(5)
ASSUME SeekResult(2, 9, SeekAbsolute, TRUE, 1, 4) = NewOffset(9)
ASSUME SeekResult(2, 0, SeekAbsolute, FALSE, 1, 4) = Refused(OffsetOutOfRange)
ASSUME SeekResult(2, 1, SeekAbsolute, FALSE, 1, 4) = NewOffset(1)
ASSUME SeekResult(2, 4, SeekAbsolute, FALSE, 1, 4) = NewOffset(4)
ASSUME SeekResult(2, 5, SeekAbsolute, FALSE, 1, 4) = Refused(OffsetOutOfRange)
ASSUME SeekResult(FirstOffset, 2, SeekCurrent, FALSE, 1, 4) = NewOffset(3)
ASSUME SeekResult(LastOffset, 0, SeekCurrent, FALSE, 1, 4) = NewOffset(4)
ASSUME SeekResult(2, 0, 4, FALSE, 1, 4) = Refused(InvalidWhence)
ASSUME SeekResult(2, 4, SeekStart, TRUE, 1, 4) = Refused(OffsetOutOfRange)
ASSUME OffsetPair(FirstOffset) = <<0, SeekStart>> /\ OffsetPair(LastOffset) = <<0, SeekEnd>> /\ OffsetPair(3) = <<3, SeekAbsolute>>
ASSUME OffsetAt(AnchorPart, -1, ReadUncommitted) = 4 /\ OffsetAt(AnchorPart, -2, ReadUncommitted) = 1
ASSUME OffsetAt(AnchorPart, 10, ReadUncommitted) = 1 /\ OffsetAt(AnchorPart, 11, ReadUncommitted) = 2 /\ OffsetAt(AnchorPart, 20, ReadUncommitted) = 2
ASSUME OffsetAt(AnchorPart, 21, ReadUncommitted) = -1 /\ OffsetAt(AnchorPart, 0, ReadUncommitted) = 1
ASSUME OffsetAt([AnchorPart EXCEPT !.start = 4, !.lso = 4], 0, ReadUncommitted) = -1
\* read_committed: the last stable offset (3) bounds what is reported; offset 3 (open transaction) is invisible
ASSUME OffsetAt(AnchorPart, -1, ReadCommitted) = 3 /\ OffsetAt(AnchorPart, -2, ReadCommitted) = 1
ASSUME OffsetAt(AnchorPart, 10, ReadCommitted) = 1 /\ OffsetAt(AnchorPart, 20, ReadCommitted) = 2
ASSUME OffsetAt([AnchorPart EXCEPT !.lso = 2], 20, ReadCommitted) = -1 /\ OffsetAt([AnchorPart EXCEPT !.lso = 2], 20, ReadUncommitted) = 2
ASSUME OffsetAt([AnchorPart EXCEPT !.lso = 1], -1, ReadCommitted) = 1 /\ OffsetAt([AnchorPart EXCEPT !.lso = 1], 0, ReadCommitted) = -1
ASSUME OffsetAt([AnchorPart EXCEPT !.lso = 4], -1, ReadCommitted) = 4
ASSUME EffectiveIsolation(ReadCommitted, 1) = ReadUncommitted /\ EffectiveIsolation(ReadCommitted, 2) = ReadCommitted
ASSUME EffectiveIsolation(ReadCommitted, 5) = ReadCommitted /\ EffectiveIsolation(ReadUncommitted, 5) = ReadUncommitted
ASSUME AskError(AnchorCS, "ta", 0, 1) = 0 /\ AskError(AnchorCS, "ta", 0, 2) = 6 /\ AskError(AnchorCS, "ta", 7, 1) = 3
ASSUME RoutedFault(AnchorCS, "ta", 0) = 0 /\ RoutedFault(AnchorCS, "ta", 1) = -1 /\ RoutedFault(AnchorCS, "tz", 0) = 3
ASSUME Committed(AnchorCS, "g", "ta", 0) = 3 /\ Committed(AnchorCS, "g", "ta", 1) = -1 /\ Committed(AnchorCS, "h", "ta", 0) = -1
ASSUME GroupError(AnchorCS, "g") = 0 /\ GroupError(AnchorCS, "r") = 14 /\ GroupError(AnchorCS, "h") = 0
ASSUME RefusalReported(14, {<<"ta", 0>>}, 14, {})
ASSUME RefusalReported(14, {<<"ta", 0>>, <<"ta", 1>>}, 0, {<<"ta", 0, 14>>, <<"ta", 1, 14>>})
ASSUME ~RefusalReported(14, {<<"ta", 0>>}, 0, {})
ASSUME ~RefusalReported(14, {<<"ta", 0>>, <<"ta", 1>>}, 0, {<<"ta", 0, 14>>, <<"ta", 1, 0>>})
ASSUME ~RefusalReported(14, {<<"ta", 0>>}, 16, {<<"ta", 0, 16>>})
ASSUME CommittedIn(AfterCommit(<<[t |-> "ta", p |-> 0, off |-> 3]>>, <<[t |-> "ta", p |-> 0, off |-> 1]>>), "ta", 0) = 1
ASSUME SeekOutcome(AnchorCS, "ta", 0, 1, 2, 1, SeekEnd, FALSE) = [err |-> 0, res |-> 3, pos |-> 3]
ASSUME SeekOutcome(AnchorCS, "ta", 0, 2, 2, 1, SeekEnd, FALSE) = [err |-> 6, res |-> 0, pos |-> 2]
ASSUME SeekOutcome(AnchorCS, "ta", 0, 2, 2, 1, SeekCurrent, TRUE) = [err |-> 0, res |-> 3, pos |-> 3]
=============================================================================
