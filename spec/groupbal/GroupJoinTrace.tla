--------------------------- MODULE GroupJoinTrace ---------------------------
(***************************************************************************)
(* Trace validation of the leader path against GroupJoin.tla.  The trace   *)
(* (environment variable GJTRACE, ndjson) is the concatenation of the runs *)
(* recorded by harness/gbdriver/leader.go: real ConsumerGroups forming a   *)
(* group on a fake cluster.  Every event is one action of the model with   *)
(* its arguments bound from the logged fields:                             *)
(*   cfg    the run's environment (members, subscriptions, partitions);    *)
(*          resets the model (TraceReset)                                  *)
(*   join   the coordinator handled a JoinGroup request        Join        *)
(*   round  the coordinator completed a round: generation,     CompleteJoin*)
(*          leader and member list as logged                               *)
(*   meta   the broker got a Metadata request of a member;     AskMeta     *)
(*          the topics asked must be the model's                           *)
(*   sync   the coordinator handled a SyncGroup request; the   SyncLeader  *)
(*          leader's carries the assignments the real balancer SyncFollower*)
(*          computed, which must be Balanced for the model's                *)
(*          view of the leader (member list, partitions seen)              *)
(*   got    ConsumerGroup.Next returned a Generation with      SyncResp    *)
(*          these assignments                                              *)
(*   hbfail a heartbeat was refused                            HeartbeatFails *)
(*   leave  LeaveGroup                                         Leave       *)
(* The JoinGroup response is not observable from outside; it is a silent   *)
(* step taken exactly when the member's next logged event needs it.        *)
(* The invariants of GroupJoin (Complete, Even, OwnedOnce, OnlySubscribed) *)
(* are evaluated in every state of the validated behaviour.                *)
(***************************************************************************)
EXTENDS GroupJoin, Json, IOUtils

Trace == ndJsonDeserialize(IOEnv.GJTRACE)

VARIABLE l
tvars == <<vars, l>>

SetOf(s) == {s[i] : i \in DOMAIN s}
EnvOf(e) ==
  [members |-> SetOf(e.members),
   subs    |-> [m \in AllMembers |-> IF m \in DOMAIN e.subs THEN SetOf(e.subs[m]) ELSE AllTopics],
   nparts  |-> [t \in AllTopics |-> IF t \in DOMAIN e.nparts THEN e.nparts[t] ELSE 0]]

Blank(e) ==
  /\ env' = e
  /\ cstate' = "Empty" /\ cgen' = 0 /\ cmembers' = {} /\ cjoined' = {} /\ cleader' = ""
  /\ casg' = [m \in AllMembers |-> {}]
  /\ mst' = [m \in AllMembers |-> "out"] /\ mgen' = [m \in AllMembers |-> 0]
  /\ mlist' = [m \in AllMembers |-> {}] /\ mseen' = [m \in AllMembers |-> {}]
  /\ masg' = [m \in AllMembers |-> {}]

\* the assignment function of a logged list of [m, t, ps] entries
PartsIn(asg) == UNION {{<<asg[i].t, asg[i].ps[j]>> : j \in DOMAIN asg[i].ps} : i \in DOMAIN asg}
OwnerIn(asg, p) == asg[CHOOSE i \in DOMAIN asg : asg[i].t = p[1] /\ \E j \in DOMAIN asg[i].ps : asg[i].ps[j] = p[2]].m
FunOf(asg) == [p \in PartsIn(asg) |-> OwnerIn(asg, p)]
NoDup(asg) == \A i, k \in DOMAIN asg : \A j \in DOMAIN asg[i].ps : \A n \in DOMAIN asg[k].ps :
                 (asg[i].t = asg[k].t /\ asg[i].ps[j] = asg[k].ps[n]) => (i = k /\ j = n)

NoEnv == [members |-> {}, subs |-> [m \in AllMembers |-> AllTopics], nparts |-> [t \in AllTopics |-> 0]]
TInit ==
  /\ l = 1 /\ env = NoEnv
  /\ cstate = "Empty" /\ cgen = 0 /\ cmembers = {} /\ cjoined = {} /\ cleader = ""
  /\ casg = [m \in AllMembers |-> {}]
  /\ mst = [m \in AllMembers |-> "out"] /\ mgen = [m \in AllMembers |-> 0]
  /\ mlist = [m \in AllMembers |-> {}] /\ mseen = [m \in AllMembers |-> {}]
  /\ masg = [m \in AllMembers |-> {}]

Step(e) ==
  CASE e.ev = "cfg"    -> Blank(EnvOf(e))
    [] e.ev = "join"   -> Join(e.m)
    [] e.ev = "round"  -> /\ CompleteJoin(e.leader)
                          /\ cgen' = e.gen /\ cmembers = SetOf(e.members)
    [] e.ev = "meta"   -> IF mst[e.m] = "leader"
                            THEN AskMeta(e.m) /\ AskedTopics(e.m) = SetOf(e.topics)
                            ELSE /\ mst[e.m] = "asked" /\ SetOf(e.topics) \subseteq AskedTopics(e.m)   \* the per-topic retries after an unknown topic
                                 /\ UNCHANGED vars
    [] e.ev = "sync"   -> IF mst[e.m] = "asked"
                            THEN /\ NoDup(e.asg)
                                 /\ SyncLeader(e.m, FunOf(e.asg))
                                 /\ mgen[e.m] = e.gen
                                 /\ (mst'[e.m] = "syncing") <=> (e.code = 0)
                            ELSE /\ SyncFollower(e.m)
                                 /\ e.asg = <<>> /\ mgen[e.m] = e.gen
                                 /\ (mst'[e.m] = "syncing") <=> (e.code = 0)
    [] e.ev = "got"    -> /\ SyncResp(e.m)
                          /\ mst'[e.m] = "in" /\ mgen[e.m] = e.gen
                          /\ masg'[e.m] = PartsIn(e.asg)
    [] e.ev = "hbfail" -> HeartbeatFails(e.m)
    [] e.ev = "leave"  -> Leave(e.m)

\* the JoinGroup response, taken when the member's next logged event presupposes it
NeedsJoinResp(e) == e.ev \in {"meta", "sync"} /\ mst[e.m] = "joining"

TNext ==
  /\ l <= Len(Trace)
  /\ IF NeedsJoinResp(Trace[l])
       THEN JoinResp(Trace[l].m) /\ UNCHANGED l
       ELSE Step(Trace[l]) /\ l' = l + 1

TSpec == TInit /\ [][TNext]_tvars

ASSUME TLCSet(1, 0) /\ TLCSet(2, << >>)
Summary == [cstate |-> cstate, cgen |-> cgen, cmembers |-> cmembers, cjoined |-> cjoined, cleader |-> cleader,
            mst |-> [m \in env.members |-> mst[m]], mgen |-> [m \in env.members |-> mgen[m]],
            mlist |-> [m \in env.members |-> mlist[m]], mseen |-> [m \in env.members |-> mseen[m]]]
HighWater == IF l > TLCGet(1) THEN TLCSet(1, l) /\ TLCSet(2, Summary) ELSE TRUE
TraceAccepted ==
  \/ TLCGet(1) = Len(Trace) + 1
  \/ ~PrintT(<<"DIVERGED_AT_LINE", TLCGet(1), Trace[TLCGet(1)]>>)
  \/ ~PrintT(<<"STATE_AT_DIVERGENCE", TLCGet(2)>>)
=============================================================================
