SPECIFICATION Spec
INVARIANTS
  Internal_InputOK
  Internal_OutputOK
  C14_Computed
  C14_ExactlyOnce
  C14_OnlySubscribers
  C14_Even
  C14_OrderFree
  C14_RangeShape
  C14_RRShape
  C14_RackBound
  Report
CHECK_DEADLOCK FALSE
