SPECIFICATION Spec
INVARIANTS
  Internal_InputOK
  Internal_OutputOK
  SelfTest
  Report
CHECK_DEADLOCK FALSE
