CONSTANTS
  AllMembers = {"a", "b"}
  AllTopics = {"t", "u"}
  MaxParts = 2
  MaxGen = 3
  LeaderAsksOwn = FALSE
  DropAllOnMissing = FALSE
SPECIFICATION MCLiveSpec
PROPERTIES EventuallySettled
CHECK_DEADLOCK FALSE
