CONSTANTS
  AllMembers = {"a", "b"}
  AllTopics = {"t", "u"}
  MaxParts = 2
  MaxGen = 3
  LeaderAsksOwn = FALSE
  DropAllOnMissing = TRUE
SPECIFICATION MCSpec
INVARIANTS Complete
CHECK_DEADLOCK FALSE
