CONSTANTS
  AllMembers = {"a", "b", "c", "d"}
  AllTopics = {"t", "u", "v"}
  MaxParts = 4
  MaxGen = 100
  LeaderAsksOwn = FALSE
  DropAllOnMissing = FALSE
SPECIFICATION TSpec
CONSTRAINT HighWater
INVARIANTS OwnedOnce OnlySubscribed Complete Even
POSTCONDITION TraceAccepted
CHECK_DEADLOCK FALSE
