---------------------------- MODULE MCGroupJoin ----------------------------
(* Model-checking instance of GroupJoin: every environment over two or three members and two topics with 0..2     *)
(* partitions.  NoLeave/NoEvict restrict Next for the liveness configuration.                                      *)
EXTENDS GroupJoin

\* symmetric environments are pruned by hand: only subscription maps in which unused members subscribe to everything
SmallEnvs ==
  {e \in Envs : \A m \in AllMembers \ e.members : e.subs[m] = AllTopics}

MCInit == Init /\ env \in SmallEnvs

NextNoLeave ==
  \/ \E m \in AllMembers :
       \/ Join(m) \/ JoinResp(m) \/ AskMeta(m) \/ SyncFollower(m) \/ SyncResp(m) \/ HeartbeatFails(m)
       \/ CompleteJoin(m)
       \/ \E f \in AllAssignments(m) : SyncLeader(m, f)
MCSpec == MCInit /\ [][Next]_vars
MCLiveSpec == MCInit /\ [][NextNoLeave]_vars /\ Fair
=============================================================================
