CONSTANTS
  AllMembers = {"a", "b"}
  AllTopics = {"t", "u"}
  MaxParts = 2
  MaxGen = 3
  LeaderAsksOwn = FALSE
  DropAllOnMissing = FALSE
SPECIFICATION MCSpec
INVARIANTS TypeOK OwnedOnce OnlySubscribed Complete Even LeaderSeesAll
CHECK_DEADLOCK FALSE
