CONSTANTS
  AllMembers = {"a", "b", "c"}
  AllTopics = {"t", "u"}
  MaxParts = 1
  MaxGen = 2
  LeaderAsksOwn = FALSE
  DropAllOnMissing = FALSE
SPECIFICATION MCSpec
INVARIANTS TypeOK OwnedOnce OnlySubscribed Complete Even LeaderSeesAll
CHECK_DEADLOCK FALSE
