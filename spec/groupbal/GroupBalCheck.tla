---------------------------- MODULE GroupBalCheck ----------------------------
(***************************************************************************)
(* Judge of C14: reads an ndjson file (environment variable GBLINES) whose *)
(* lines are (balancer, input, output) triples recorded by the Go driver   *)
(* (harness/gbdriver) from the REAL AssignGroups of kafka-go, and steps    *)
(* through the lines with the counter i.  Each clause of C14 is one        *)
(* invariant, evaluated on line i; a violated invariant names the clause   *)
(* and the error trace shows i, the failing line.                          *)
(*                                                                         *)
(* Line format: [n, bal, in, out, panic, hasSorted, sorted, reps]          *)
(*   bal \in {"range", "roundrobin", "rack"}; in/out as in GroupBalancers; *)
(*   panic # "" when AssignGroups panicked (no assignment was computed);   *)
(*   sorted = [members, out, panic]: second call with the members listed   *)
(*   in ascending id order (present when hasSorted).                       *)
(* Lines with path = "leader" were not produced by a direct call: real     *)
(* ConsumerGroups with those subscriptions formed a group against a fake   *)
(* cluster holding `in.parts`, the member `leader` was elected and ran     *)
(* ConsumerGroup.assignTopicPartitions; `in.members` is the listing of the *)
(* leader's JoinGroup response and `out` what every member received in its *)
(* SyncGroup response.  The clauses are the same: the partitions are those *)
(* the cluster has, not those the leader chose to ask for.                 *)
(***************************************************************************)
EXTENDS GroupBalancers, Json, IOUtils

Lines == ndJsonDeserialize(IOEnv.GBLINES)

VARIABLES i, info
vars == <<i, info>>

Active == i <= Len(Lines)
L == Lines[i]

\* not clauses of C14: the generator's promises and the driver's output format
Internal_InputOK  == Active => InputOK(L.in) /\ L.bal \in {"range", "roundrobin", "rack"}
Internal_OutputOK == Active /\ L.panic = "" => OutputOK(L.out)

\* the clauses of C14 on one line
Computed(l)           == l.panic = ""
Cl_ExactlyOnce(l)     == Computed(l) => ExactlyOnce(l.in, l.out)
Cl_OnlySubscribers(l) == Computed(l) => OnlySubscribers(l.in, l.out)
Cl_Even(l)            == Computed(l) => Even(l.in, l.out)
Cl_OrderFree(l)       == Computed(l) /\ l.hasSorted /\ l.bal \in {"range", "roundrobin"} => OrderFree(l.in, l.out, l.sorted)
Cl_RangeShape(l)      == Computed(l) /\ l.bal = "range" => RangeShape(l.in, l.out)
Cl_RRShape(l)         == Computed(l) /\ l.bal = "roundrobin" => RRShape(l.in, l.out)
Cl_RackBound(l)       == Computed(l) /\ l.bal = "rack" => RackBound(l.in, l.out)

\* one invariant per clause: the violated invariant names the clause, i the line
C14_Computed        == Active => Computed(L)
C14_ExactlyOnce     == Active => Cl_ExactlyOnce(L)
C14_OnlySubscribers == Active => Cl_OnlySubscribers(L)
C14_Even            == Active => Cl_Even(L)
C14_OrderFree       == Active => Cl_OrderFree(L)
C14_RangeShape      == Active => Cl_RangeShape(L)
C14_RRShape         == Active => Cl_RRShape(L)
C14_RackBound       == Active => Cl_RackBound(L)

(***************************************************************************)
(* Self-test of the judge (GroupBalSelfTest.cfg, selftest.ndjson): lines   *)
(* written by hand, each with the set of clauses it must fail in `expect`. *)
(* Guards against a clause that is vacuously true.                         *)
(***************************************************************************)
N(c, ok) == IF ok THEN {} ELSE {c}
Failed(l) ==
  N("C14_Computed", Computed(l)) \cup N("C14_ExactlyOnce", Cl_ExactlyOnce(l)) \cup
  N("C14_OnlySubscribers", Cl_OnlySubscribers(l)) \cup N("C14_Even", Cl_Even(l)) \cup
  N("C14_OrderFree", Cl_OrderFree(l)) \cup N("C14_RangeShape", Cl_RangeShape(l)) \cup
  N("C14_RRShape", Cl_RRShape(l)) \cup N("C14_RackBound", Cl_RackBound(l))
SelfTest == Active => Failed(L) = Ran(L.expect)

\* counted only (never a verdict): which exact rule the outputs follow
B(x) == IF x THEN 1 ELSE 0
Count(l) ==
  [lines      |-> 1,
   rangeLines |-> B(l.bal = "range" /\ l.panic = ""),
   rangeFloor |-> B(l.bal = "range" /\ l.panic = "" /\ RangeFloorRule(l.in, l.out)),
   rangeKafka |-> B(l.bal = "range" /\ l.panic = "" /\ RangeKafkaRule(l.in, l.out)),
   rrLines    |-> B(l.bal = "roundrobin" /\ l.panic = ""),
   rrRank     |-> B(l.bal = "roundrobin" /\ l.panic = "" /\ RRRankRule(l.in, l.out)),
   rackLines  |-> B(l.bal = "rack" /\ l.panic = ""),
   rackNoRack |-> B(l.bal = "rack" /\ l.panic = "" /\ RackBoundNoRack(l.in, l.out))]
Zero == [lines |-> 0, rangeLines |-> 0, rangeFloor |-> 0, rangeKafka |-> 0, rrLines |-> 0, rrRank |-> 0,
         rackLines |-> 0, rackNoRack |-> 0]
Add(a, b) == [f \in DOMAIN a |-> a[f] + b[f]]

Init == i = 1 /\ info = Zero
Next == /\ Active
        /\ i' = i + 1
        /\ info' = Add(info, Count(L))
Spec == Init /\ [][Next]_vars

\* reports the counters once, in the state after the last line
Report == (i = Len(Lines) + 1) => PrintT(<<"GBSTATS", info>>)
=============================================================================
