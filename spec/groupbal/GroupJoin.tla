------------------------------ MODULE GroupJoin ------------------------------
(***************************************************************************)
(* The membership protocol around the group balancers: how a set of        *)
(* consumer-group members with their own subscriptions arrives at the      *)
(* assignment the balancer computed (consumergroup.go: joinGroup,          *)
(* assignTopicPartitions, syncGroup, heartbeat errors; the group           *)
(* coordinator's side is Kafka's: Empty / Joining / AwaitSync / Stable).   *)
(* One action per request or response; the steps of the elected leader     *)
(* (JoinGroup response with the member list -> Metadata request for the    *)
(* subscribed topics -> balancer -> SyncGroup with all assignments) are    *)
(* separate actions, as in the code.                                       *)
(*                                                                         *)
(* What the balancer itself guarantees is GroupBalancers.tla (judged on    *)
(* the real AssignGroups); here it is abstracted to "some assignment of    *)
(* the partitions the leader saw that is Balanced".  The property of this  *)
(* module is what a user of a consumer group relies on (C14, mechanism     *)
(* "leader applies the negotiated balancer"): once the group is stable     *)
(* and everybody has synced, every partition the cluster has of a topic    *)
(* somebody subscribes to is owned by exactly one member, a subscriber.    *)
(*                                                                         *)
(* The environment (members, subscriptions, partitions per topic) is a     *)
(* variable that never changes, so that TLC checks every small environment *)
(* in one run (Init chooses it) and the trace specification can set it     *)
(* from the recorded run.  nparts[t] = 0: the topic does not exist on the  *)
(* cluster (the broker answers UnknownTopicOrPartition for it).            *)
(***************************************************************************)
EXTENDS Integers, FiniteSets, Sequences, TLC

CONSTANTS AllMembers,        \* universe of member ids
          AllTopics,         \* universe of topic names
          MaxParts,          \* partitions per topic in 0..MaxParts
          MaxGen,            \* bound on generations (model checking only)
          LeaderAsksOwn,     \* defect switch: the leader asks the broker for its own topics only (seeded C14/m5)
          DropAllOnMissing   \* defect switch: one missing topic hides the partitions of all others (F22 before 27357b0)

VARIABLES
  env,       \* [members, subs, nparts]: the unchanging environment
  cstate,    \* coordinator: "Empty" | "Joining" | "AwaitSync" | "Stable"
  cgen,      \* coordinator: generation
  cmembers,  \* coordinator: known members
  cjoined,   \* coordinator: members that joined the round in progress (or the last one)
  cleader,   \* coordinator: elected leader ("" none)
  casg,      \* coordinator: member -> set of partitions, from the leader's SyncGroup
  mst,       \* member -> "out" | "joining" | "leader" | "asked" | "follower" | "syncing" | "in" | "gone"
  mgen,      \* member -> generation of its last JoinGroup response
  mlist,     \* leader -> the member list of its JoinGroup response
  mseen,     \* leader -> the partitions its Metadata request returned
  masg       \* member -> the assignment of its last SyncGroup response

vars == <<env, cstate, cgen, cmembers, cjoined, cleader, casg, mst, mgen, mlist, mseen, masg>>

Members == env.members
Subs(m) == env.subs[m]
PartsOf(t) == {<<t, i>> : i \in 0..(env.nparts[t] - 1)}
Parts == UNION {PartsOf(t) : t \in AllTopics}
Subscribers(list, t) == {m \in list : t \in Subs(m)}

Envs ==
  {e \in [members : SUBSET AllMembers \ {{}}, subs : [AllMembers -> SUBSET AllTopics \ {{}}], nparts : [AllTopics -> 0..MaxParts]] : TRUE}

(***************************************************************************)
(* What a balancer may return for the members `list` and the partitions    *)
(* `seen` (C14, clauses exactly-once / only-subscribers / even): a         *)
(* function from the seen partitions that have a subscriber to one of      *)
(* their subscribers, loads per topic within one.                          *)
(***************************************************************************)
Assignable(list, seen) == {p \in seen : Subscribers(list, p[1]) # {}}
Load(f, m, t) == Cardinality({p \in DOMAIN f : p[1] = t /\ f[p] = m})
Balanced(f, list, seen) ==
  /\ DOMAIN f = Assignable(list, seen)
  /\ \A p \in DOMAIN f : f[p] \in Subscribers(list, p[1])
  /\ \A t \in AllTopics : \A m1, m2 \in Subscribers(list, t) : Load(f, m1, t) <= Load(f, m2, t) + 1
AsgOf(f, m) == {p \in DOMAIN f : f[p] = m}

Init ==
  /\ env \in Envs
  /\ cstate = "Empty" /\ cgen = 0 /\ cmembers = {} /\ cjoined = {} /\ cleader = ""
  /\ casg = [m \in AllMembers |-> {}]
  /\ mst = [m \in AllMembers |-> "out"] /\ mgen = [m \in AllMembers |-> 0]
  /\ mlist = [m \in AllMembers |-> {}] /\ mseen = [m \in AllMembers |-> {}]
  /\ masg = [m \in AllMembers |-> {}]

\* JoinGroup request: a new or rejoining member; a group that is not already joining starts a round
Join(m) ==
  /\ m \in Members /\ mst[m] = "out"
  /\ mst' = [mst EXCEPT ![m] = "joining"]
  /\ cmembers' = cmembers \cup {m}
  /\ cjoined' = (IF cstate = "Joining" THEN cjoined ELSE {}) \cup {m}
  /\ cstate' = "Joining"
  /\ UNCHANGED <<env, cgen, cleader, casg, mgen, mlist, mseen, masg>>

\* the round completes when every known member has (re)joined: new generation, the leader stays if it is
\* still a member, otherwise any member is elected
CompleteJoin(l) ==
  /\ cstate = "Joining" /\ cmembers # {} /\ cjoined = cmembers /\ cgen < MaxGen
  /\ l \in cmembers /\ (cleader \in cmembers => l = cleader)
  /\ cgen' = cgen + 1 /\ cleader' = l /\ cstate' = "AwaitSync"
  /\ casg' = [m \in AllMembers |-> {}]
  /\ UNCHANGED <<env, cmembers, cjoined, mst, mgen, mlist, mseen, masg>>

\* the rebalance timeout: a known member that does not rejoin is removed
Evict(m) ==
  /\ cstate = "Joining" /\ m \in cmembers \ cjoined
  /\ cmembers' = cmembers \ {m}
  /\ UNCHANGED <<env, cstate, cgen, cjoined, cleader, casg, mst, mgen, mlist, mseen, masg>>

\* JoinGroup response: generation, and for the leader the member list
JoinResp(m) ==
  /\ mst[m] = "joining"
  /\ ~(cstate = "Joining" /\ m \in cjoined)          \* its round has completed
  /\ cgen > 0
  /\ mgen' = [mgen EXCEPT ![m] = cgen]
  /\ IF m = cleader
       THEN /\ mst' = [mst EXCEPT ![m] = "leader"]
            /\ mlist' = [mlist EXCEPT ![m] = cmembers]
       ELSE /\ mst' = [mst EXCEPT ![m] = "follower"]
            /\ UNCHANGED mlist
  /\ UNCHANGED <<env, cstate, cgen, cmembers, cjoined, cleader, casg, mseen, masg>>

\* the leader asks the broker for the partitions of the topics of all listed members
AskedTopics(m) == IF LeaderAsksOwn THEN Subs(m) ELSE UNION {Subs(x) : x \in mlist[m]}
Answer(T) == IF DropAllOnMissing /\ (\E t \in T : env.nparts[t] = 0) THEN {} ELSE UNION {PartsOf(t) : t \in T}
AskMeta(m) ==
  /\ mst[m] = "leader"
  /\ mseen' = [mseen EXCEPT ![m] = Answer(AskedTopics(m))]
  /\ mst' = [mst EXCEPT ![m] = "asked"]
  /\ UNCHANGED <<env, cstate, cgen, cmembers, cjoined, cleader, casg, mgen, mlist, masg>>

\* SyncGroup request of the leader with the balancer's output f; refused when the group moved on
SyncLeader(m, f) ==
  /\ mst[m] = "asked" /\ Balanced(f, mlist[m], mseen[m])
  /\ IF cstate = "AwaitSync" /\ mgen[m] = cgen /\ m = cleader /\ m \in cmembers
       THEN /\ casg' = [x \in AllMembers |-> AsgOf(f, x)]
            /\ cstate' = "Stable"
            /\ mst' = [mst EXCEPT ![m] = "syncing"]
       ELSE /\ mst' = [mst EXCEPT ![m] = "out"]
            /\ UNCHANGED <<casg, cstate>>
  /\ UNCHANGED <<env, cgen, cmembers, cjoined, cleader, mgen, mlist, mseen, masg>>

\* SyncGroup request of a follower (no assignments)
SyncFollower(m) ==
  /\ mst[m] = "follower"
  /\ mst' = [mst EXCEPT ![m] = IF cstate \in {"AwaitSync", "Stable"} /\ mgen[m] = cgen /\ m \in cmembers THEN "syncing" ELSE "out"]
  /\ UNCHANGED <<env, cstate, cgen, cmembers, cjoined, cleader, casg, mgen, mlist, mseen, masg>>

\* SyncGroup response: the member's share once the leader's assignments arrived, or an error when a new round began
SyncResp(m) ==
  /\ mst[m] = "syncing" /\ cstate # "AwaitSync"
  /\ IF cstate = "Stable" /\ mgen[m] = cgen /\ m \in cmembers
       THEN /\ masg' = [masg EXCEPT ![m] = casg[m]]
            /\ mst' = [mst EXCEPT ![m] = "in"]
       ELSE /\ mst' = [mst EXCEPT ![m] = "out"]
            /\ UNCHANGED masg
  /\ UNCHANGED <<env, cstate, cgen, cmembers, cjoined, cleader, casg, mgen, mlist, mseen>>

\* a heartbeat of a member of a generation that is over (RebalanceInProgress, IllegalGeneration, UnknownMemberId):
\* the generation ends on the member, which rejoins
HeartbeatFails(m) ==
  /\ mst[m] = "in" /\ (cstate = "Joining" \/ mgen[m] # cgen \/ m \notin cmembers)
  /\ mst' = [mst EXCEPT ![m] = "out"]
  /\ masg' = [masg EXCEPT ![m] = {}]
  /\ UNCHANGED <<env, cstate, cgen, cmembers, cjoined, cleader, casg, mgen, mlist, mseen>>

\* LeaveGroup (Close): the member is gone for good, the others rebalance
Leave(m) ==
  /\ mst[m] = "in" /\ m \in cmembers
  /\ mst' = [mst EXCEPT ![m] = "gone"]
  /\ masg' = [masg EXCEPT ![m] = {}]
  /\ cmembers' = cmembers \ {m}
  /\ cjoined' = {}
  /\ cstate' = IF cmembers' = {} THEN "Empty" ELSE "Joining"
  /\ UNCHANGED <<env, cgen, cleader, casg, mgen, mlist, mseen>>

AllAssignments(m) == {f \in [Assignable(mlist[m], mseen[m]) -> Members] : Balanced(f, mlist[m], mseen[m])}

Next ==
  \/ \E m \in AllMembers :
       \/ Join(m) \/ Evict(m) \/ JoinResp(m) \/ AskMeta(m) \/ SyncFollower(m) \/ SyncResp(m) \/ HeartbeatFails(m) \/ Leave(m)
       \/ CompleteJoin(m)
       \/ \E f \in AllAssignments(m) : SyncLeader(m, f)

Spec == Init /\ [][Next]_vars
Fair == \A m \in AllMembers :
          /\ WF_vars(Join(m)) /\ WF_vars(JoinResp(m)) /\ WF_vars(AskMeta(m)) /\ WF_vars(SyncFollower(m))
          /\ WF_vars(SyncResp(m)) /\ WF_vars(HeartbeatFails(m)) /\ WF_vars(CompleteJoin(m))
          /\ WF_vars(\E f \in AllAssignments(m) : SyncLeader(m, f))
FairSpec == Spec /\ Fair

---------------------------------------------------------------------------
TypeOK ==
  /\ cstate \in {"Empty", "Joining", "AwaitSync", "Stable"}
  /\ cmembers \subseteq Members /\ cjoined \subseteq AllMembers
  /\ \A m \in AllMembers : mst[m] \in {"out", "joining", "leader", "asked", "follower", "syncing", "in", "gone"}

InGen(g) == {m \in AllMembers : mst[m] = "in" /\ mgen[m] = g}

\* no partition has two owners within one generation
OwnedOnce == \A m1, m2 \in AllMembers : (m1 # m2 /\ mst[m1] = "in" /\ mst[m2] = "in" /\ mgen[m1] = mgen[m2]) => masg[m1] \cap masg[m2] = {}

\* a member only ever holds partitions of topics it subscribes to
OnlySubscribed == \A m \in AllMembers : mst[m] = "in" => \A p \in masg[m] : p[1] \in Subs(m)

\* the group is settled: stable, and every member has taken its share of the current generation
Settled == cstate = "Stable" /\ cmembers # {} /\ \A m \in cmembers : mst[m] = "in" /\ mgen[m] = cgen

\* C14 through the protocol: in a settled group every partition of the cluster that belongs to a topic some member
\* subscribes to has exactly one owner among the members
Complete ==
  Settled => \A p \in Parts : Subscribers(cmembers, p[1]) # {} => Cardinality({m \in cmembers : p \in masg[m]}) = 1

\* ... and the loads per topic are within one
Even ==
  Settled => \A t \in AllTopics : \A m1, m2 \in Subscribers(cmembers, t) :
               Cardinality({p \in masg[m1] : p[1] = t}) <= Cardinality({p \in masg[m2] : p[1] = t}) + 1

\* mechanism (what the seeded change C14/m5 breaks): the leader's view covers the topics of every listed member
LeaderSeesAll == \A m \in AllMembers : mst[m] = "asked" => \A x \in mlist[m] : \A t \in Subs(x) : PartsOf(t) \subseteq mseen[m]

\* liveness: when nobody leaves any more, the group settles (checked under FairSpec with Leave/Evict disabled by the config)
EventuallySettled == <>[](Settled \/ cgen = MaxGen)
=============================================================================
