--------------------------- MODULE GroupBalancers ---------------------------
(***************************************************************************)
(* Postconditions of property C14 for the consumer-group balancers of      *)
(* kafka-go (groupbalancer.go: RangeGroupBalancer, RoundRobinGroupBalancer,*)
(* RackAffinityGroupBalancer, method AssignGroups), stated as predicates   *)
(* over an input and the output the real code returned for it.             *)
(*                                                                         *)
(* An input `in` is a record                                               *)
(*   members : sequence (the listing order) of [id, topics, rack]          *)
(*             id a string, topics a sequence of topic names the member    *)
(*             subscribes to, rack the member's rack ("" = none; it is     *)
(*             what the member sent as UserData)                           *)
(*   parts   : sequence (the listing order) of [topic, id, rack]           *)
(*             rack = rack of the partition's leader ("" = none)           *)
(* An output `out` is the returned map MemberID => topic => partitions,    *)
(* flattened to a sequence of entries [m, t, ps] (ps a sequence of         *)
(* partition ids), at most one entry per (m, t).  A missing entry and an   *)
(* entry with ps = <<>> mean the same: the member has nothing of the topic.*)
(*                                                                         *)
(* The clauses follow the text of C14; nothing in here is derived from the *)
(* Go source.  The operators at the end (RangeFloorRule, RangeKafkaRule,   *)
(* RRRankRule) are exact candidate rules that are only counted, never      *)
(* judged: the doc comment of RangeGroupBalancer shows Kafka's range       *)
(* assignor (5 partitions, 2 consumers: C0 [0,1,2], C1 [3,4]) whereas      *)
(* groupbalancer_test.go expects the extra partitions on the last members, *)
(* so the documented rule is not unambiguous and C14 only promises "a      *)
(* contiguous run" with loads differing by at most one.                    *)
(***************************************************************************)
EXTENDS Naturals, Sequences, FiniteSets, TLC

Ran(s) == {s[i] : i \in DOMAIN s}
Min2(a, b) == IF a <= b THEN a ELSE b

(***************************************************************************)
(* Member ids are strings, which TLA+ does not order.  The ids used by the *)
(* engine are taken from IdAlphabet, which is written in ascending         *)
(* bytewise order (the order Go's < on strings gives): "a" < "b" < "c" <   *)
(* "d" < "m000" < "m001" < ... < "m199" (fixed width, so numeric order is  *)
(* bytewise order).  IdKey maps an id to its position.                     *)
(***************************************************************************)
Pad3(n) == IF n < 10 THEN "00" \o ToString(n) ELSE IF n < 100 THEN "0" \o ToString(n) ELSE ToString(n)
IdAlphabet == <<"a", "b", "c", "d">> \o [n \in 1..200 |-> "m" \o Pad3(n - 1)]
IdSet == Ran(IdAlphabet)
IdKey == [id \in IdSet |-> CHOOSE k \in DOMAIN IdAlphabet : IdAlphabet[k] = id]
IdLess(x, y) == IdKey[x] < IdKey[y]

---------------------------------------------------------------------------
(* Reading an input *)
MemberIds(in) == {in.members[i].id : i \in DOMAIN in.members}
MemberRec(in, id) == in.members[CHOOSE i \in DOMAIN in.members : in.members[i].id = id]
Subs(in, id) == Ran(MemberRec(in, id).topics)
RackOf(in, id) == MemberRec(in, id).rack

\* a topic is subscribed when at least one member subscribes to it
SubscribedTopics(in) == UNION {Ran(in.members[i].topics) : i \in DOMAIN in.members}
Subscribers(in, t) == {in.members[i].id : i \in {j \in DOMAIN in.members : t \in Ran(in.members[j].topics)}}

\* the listed partitions of topic t: records and ids, in listing order
PartRecs(in, t) == SelectSeq(in.parts, LAMBDA p : p.topic = t)
PartIds(in, t) == LET s == PartRecs(in, t) IN [j \in DOMAIN s |-> s[j].id]
PartIdSet(in, t) == {in.parts[j].id : j \in {x \in DOMAIN in.parts : in.parts[x].topic = t}}
AllTopics(in) == SubscribedTopics(in) \cup {in.parts[j].topic : j \in DOMAIN in.parts}

\* what the enumerator promises: distinct known member ids, no topic twice in a subscription,
\* every member subscribes to something, no (topic, partition) listed twice
InputOK(in) ==
  /\ \A i, j \in DOMAIN in.members : in.members[i].id = in.members[j].id => i = j
  /\ \A i \in DOMAIN in.members :
       /\ in.members[i].id \in IdSet
       /\ in.members[i].topics # <<>>
       /\ \A x, y \in DOMAIN in.members[i].topics : in.members[i].topics[x] = in.members[i].topics[y] => x = y
  /\ \A i, j \in DOMAIN in.parts :
       (in.parts[i].topic = in.parts[j].topic /\ in.parts[i].id = in.parts[j].id) => i = j

(* Reading an output *)
OutputOK(out) == \A i, j \in DOMAIN out : (out[i].m = out[j].m /\ out[i].t = out[j].t) => i = j
Asg(out, m, t) ==
  LET I == {i \in DOMAIN out : out[i].m = m /\ out[i].t = t}
  IN IF I = {} THEN <<>> ELSE out[CHOOSE i \in I : TRUE].ps
OutMembers(out) == {out[i].m : i \in DOMAIN out}
OutTopics(out) == {out[i].t : i \in DOMAIN out}

---------------------------------------------------------------------------
(***************************************************************************)
(* "gives every partition of every subscribed topic to exactly one member":*)
(* over all entries of the output (whoever the member is) the partition    *)
(* occurs exactly once.                                                    *)
(***************************************************************************)
Occurrences(out, t, p) ==
  Cardinality({ij \in UNION {{<<i, j>> : j \in DOMAIN out[i].ps} : i \in {x \in DOMAIN out : out[x].t = t}} :
                 out[ij[1]].ps[ij[2]] = p})
ExactlyOnce(in, out) ==
  \A t \in SubscribedTopics(in) : \A p \in PartIdSet(in, t) : Occurrences(out, t, p) = 1

(***************************************************************************)
(* "... that subscribes to that topic and nothing to anyone else": whoever *)
(* holds something is a member, subscribes to the topic, and holds only    *)
(* partitions that are listed for that topic.                              *)
(***************************************************************************)
OnlySubscribers(in, out) ==
  \A i \in DOMAIN out :
     out[i].ps # <<>> =>
        /\ out[i].m \in MemberIds(in)
        /\ out[i].t \in Subs(in, out[i].m)
        /\ Ran(out[i].ps) \subseteq PartIdSet(in, out[i].t)

(* "per topic the loads of its subscribers differ by at most one" *)
Even(in, out) ==
  \A t \in SubscribedTopics(in) : \A m1, m2 \in Subscribers(in, t) :
     Len(Asg(out, m1, t)) <= Len(Asg(out, m2, t)) + 1

(***************************************************************************)
(* "Range and RoundRobin depend only on the set of members, not on the     *)
(* order they are listed in": `other` is the listing and output of a       *)
(* second call of the same balancer with the same partitions.  It must be  *)
(* a listing of the same set of members in ascending id order, must have   *)
(* produced an assignment, and the two assignments must be equal.  Since   *)
(* every listing order is compared with the one sorted listing, all        *)
(* listing orders of a set give the same output.                           *)
(***************************************************************************)
SameAssignment(in, out1, out2) ==
  \A m \in MemberIds(in) \cup OutMembers(out1) \cup OutMembers(out2) :
    \A t \in AllTopics(in) \cup OutTopics(out1) \cup OutTopics(out2) :
       Asg(out1, m, t) = Asg(out2, m, t)
IsSortedListingOf(members, in) ==
  /\ Ran(members) = Ran(in.members)
  /\ Len(members) = Len(in.members)
  /\ \A i \in 1..(Len(members) - 1) : IdLess(members[i].id, members[i + 1].id)
OrderFree(in, out, other) ==
  /\ IsSortedListingOf(other.members, in)
  /\ other.panic = ""
  /\ SameAssignment(in, out, other.out)

(***************************************************************************)
(* Range: "give each member a contiguous run of the listed partitions".    *)
(***************************************************************************)
IsRunOf(s, L) ==
  \/ s = <<>>
  \/ \E lo \in 1..Len(L) : lo + Len(s) - 1 <= Len(L) /\ s = SubSeq(L, lo, lo + Len(s) - 1)
RangeShape(in, out) ==
  \A t \in SubscribedTopics(in) : \A m \in Subscribers(in, t) : IsRunOf(Asg(out, m, t), PartIds(in, t))

(***************************************************************************)
(* RoundRobin: "give each member every k-th element of the listed          *)
(* partitions", k the number of subscribers of the topic: the elements at  *)
(* 0-based positions s, s+k, s+2k, ... for some start s < k.               *)
(***************************************************************************)
EveryKth(L, s, k) ==
  IF s >= Len(L) THEN <<>>
  ELSE [j \in 1..((Len(L) - s + k - 1) \div k) |-> L[s + (j - 1) * k + 1]]
RRShape(in, out) ==
  \A t \in SubscribedTopics(in) :
    LET k == Cardinality(Subscribers(in, t)) L == PartIds(in, t)
    IN \A m \in Subscribers(in, t) : \E s \in 0..(k - 1) : Asg(out, m, t) = EveryKth(L, s, k)

(***************************************************************************)
(* RackAffinity: "places, for every rack, at least min(partitions led in   *)
(* that rack, members in that rack times the floor of partitions per       *)
(* member) of the topic's partitions on members of the same rack".         *)
(* Per subscribed topic t with n listed partitions and k subscribers, and  *)
(* per rack r: the partitions of t whose leader is in r and whose assignee *)
(* is a subscriber in r number at least min(led, mem * (n \div k)).  This  *)
(* is the stronger of the two possible readings (counting any partition of *)
(* the topic held in r would follow from Even alone).  "" is "no rack" and *)
(* is not quantified over.                                                 *)
(***************************************************************************)
Racks(in) == ({in.members[i].rack : i \in DOMAIN in.members} \cup {in.parts[j].rack : j \in DOMAIN in.parts}) \ {""}
RackBoundAt(in, out, t, r) ==
  LET recs == PartRecs(in, t)
      n    == Len(recs)
      subs == Subscribers(in, t)
      k    == Cardinality(subs)
      led  == {recs[j].id : j \in {x \in DOMAIN recs : recs[x].rack = r}}
      mem  == {m \in subs : RackOf(in, m) = r}
      held == UNION {Ran(Asg(out, m, t)) : m \in mem}
  IN Cardinality(led \cap held) >= Min2(Cardinality(led), Cardinality(mem) * (n \div k))
RackBound(in, out) ==
  \A t \in SubscribedTopics(in) : \A r \in Racks(in) : RackBoundAt(in, out, t, r)
\* counted only: the same bound also for members and leaders without a rack
RackBoundNoRack(in, out) == \A t \in SubscribedTopics(in) : RackBoundAt(in, out, t, "")

---------------------------------------------------------------------------
(***************************************************************************)
(* Exact candidate rules (counted, not judged).  Rank(in,t,m) is the       *)
(* 0-based position of m among the subscribers of t in ascending id order. *)
(***************************************************************************)
Rank(in, t, m) == Cardinality({x \in Subscribers(in, t) : IdLess(x, m)})
\* member of rank i gets the listed partitions at 0-based positions [i*n \div k, (i+1)*n \div k)
RangeFloorRule(in, out) ==
  \A t \in SubscribedTopics(in) :
    LET L == PartIds(in, t) n == Len(L) k == Cardinality(Subscribers(in, t))
    IN \A m \in Subscribers(in, t) :
         LET i == Rank(in, t, m) IN Asg(out, m, t) = SubSeq(L, (i * n) \div k + 1, ((i + 1) * n) \div k)
\* Kafka's range assignor: the first n % k members get one more than the rest
RangeKafkaRule(in, out) ==
  \A t \in SubscribedTopics(in) :
    LET L == PartIds(in, t) n == Len(L) k == Cardinality(Subscribers(in, t)) q == n \div k r == n % k
    IN \A m \in Subscribers(in, t) :
         LET i == Rank(in, t, m) lo == q * i + Min2(i, r) len == q + (IF i < r THEN 1 ELSE 0)
         IN Asg(out, m, t) = SubSeq(L, lo + 1, lo + len)
\* member of rank i gets the listed partitions at 0-based positions i, i+k, i+2k, ...
RRRankRule(in, out) ==
  \A t \in SubscribedTopics(in) :
    LET L == PartIds(in, t) k == Cardinality(Subscribers(in, t))
    IN \A m \in Subscribers(in, t) : Asg(out, m, t) = EveryKth(L, Rank(in, t, m), k)
=============================================================================
