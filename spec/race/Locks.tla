------------------------------- MODULE Locks -------------------------------
(***************************************************************************)
(* The lock discipline of the kafka-go types documented as safe for        *)
(* concurrent use (property C10).                                           *)
(*                                                                          *)
(*  Guard    : type -> field -> guard, the DOCUMENTED discipline (struct    *)
(*             comments of conn.go, batch.go, writer.go, reader.go,         *)
(*             transport.go, balancer.go).  A guard is a lock name,         *)
(*             "atomic" (sync/atomic, atomic.Value, sync.Pool, sync.Once),  *)
(*             "immutable" (written before the value is shared) or          *)
(*             "handoff" (owned by one goroutine at a time, ownership moves *)
(*             through a lock, a channel or a goroutine start; not checked).*)
(*  PathTab  : per exported method (and per internal goroutine) the         *)
(*             sequence of acquire / access / release steps READ FROM THE   *)
(*             CODE of /repo (file:line in the comments).  Branches of a    *)
(*             method are separate paths.                                   *)
(*                                                                          *)
(* The state machine runs every pair and selected triples of paths of one  *)
(* type concurrently, one step at a time.  TLC evaluates in every reachable*)
(* state                                                                    *)
(*   Race       two threads are about to perform conflicting accesses (same*)
(*              field, at least one write, not both atomic): nothing orders*)
(*              them, no common lock is held;                               *)
(*   Discipline a thread is about to access a field without holding the    *)
(*              guard the table documents for it.                           *)
(* Both are reported as LEAD lines (PrintT) and do not stop TLC: this is a  *)
(* check of the documented discipline against a transcription of the code, *)
(* not of the code.  The engine turns every lead into programs that are run*)
(* on the real types under the Go race detector, which gives the verdict.  *)
(* TypeOK and LockSanity are ordinary invariants of the lock model itself. *)
(***************************************************************************)
EXTENDS Naturals, Sequences, FiniteSets, TLC

CONSTANT Triples        \* "none": pairs only; "distinct": also the triples of three different selected paths; "all": every selected triple

\* ---- step constructors ---------------------------------------------------
A(l)   == <<"acq", l>>      \* Lock
R(l)   == <<"rel", l>>      \* Unlock
RA(l)  == <<"racq", l>>     \* RLock
RR(l)  == <<"rrel", l>>     \* RUnlock
Rd(f)  == <<"rd", f>>       \* plain read
Wr(f)  == <<"wr", f>>       \* plain write
ARd(f) == <<"ard", f>>      \* atomic load / Pool.Get / Once
AWr(f) == <<"awr", f>>      \* atomic store, add, swap, CAS / Pool.Put
Go(p)  == <<"go", p>>       \* start a goroutine running path p
Set(b) == <<"set", b>>      \* the flag b (a modelled boolean field) becomes TRUE
Unless(b) == <<"unless", b>> \* continue only if flag b is FALSE, otherwise unlock everything and return

\* ---- the documented discipline --------------------------------------------
Guard ==
  [ conn |->       \* conn.go:25-68
      [ offset |-> "mutex", rbuf |-> "rlock", wbuf |-> "wlock", correlationID |-> "wlock",
        inflight |-> "atomic", requiredAcks |-> "atomic", apiVersions |-> "atomic",
        rdlvalue |-> "rdl", rdlrconn |-> "rdl", rdlwconn |-> "rdl",          \* connDeadline.mutex conn.go:1548-1553
        wdlvalue |-> "wdl", wdlrconn |-> "wdl", wdlwconn |-> "wdl" ],
    batch |->      \* batch.go:20-44 ("Batches are safe to use concurrently"), the batch owns the conn's rlock
      [ boffset |-> "bmutex", berr |-> "bmutex", bmsgs |-> "bmutex", bconn |-> "bmutex", block |-> "bmutex",
        blast |-> "bmutex", bconst |-> "immutable",                            \* topic partition highWaterMark throttle
        offset |-> "mutex", rdlvalue |-> "rdl", rdlrconn |-> "rdl", rdlwconn |-> "rdl" ],
    writer |->     \* writer.go:203-222, 940-950, 1006-1016
      [ closed |-> "mutex", writers |-> "mutex", currBatch |-> "pwmutex", queue |-> "qmutex", qclosed |-> "qmutex",
        stats |-> "atomic", batch |-> "handoff", config |-> "immutable" ],
    reader |->     \* reader.go:59-95
      [ version |-> "mutex", offset |-> "mutex", lag |-> "mutex", closed |-> "mutex", cancel |-> "mutex",
        once |-> "atomic", stats |-> "atomic", config |-> "immutable" ],
    greader |->    \* the same struct used as a consumer-group member
      [ version |-> "mutex", offset |-> "mutex", lag |-> "mutex", closed |-> "mutex", cancel |-> "mutex",
        once |-> "atomic", stats |-> "atomic", config |-> "immutable" ],
    transport |->  \* transport.go:120-121, 281-305, 958-968
      [ pools |-> "tmutex", conns |-> "pmutex", state |-> "atomic", refc |-> "atomic", ctrl |-> "immutable",
        idleConns |-> "gmutex", gclosed |-> "gmutex", timer |-> "gmutex" ],
    balancer |->   \* balancer.go:41-48, 76-79, 143-151
      [ rrcounter |-> "rrmutex", rrchunk |-> "rrmutex", counters |-> "lbmutex", hasher |-> "hlock",
        hasherref |-> "immutable", fnvpool |-> "atomic" ],
    codec |->      \* compress/*/: sync.Pool of readers / writers / encoders / decoders
      [ writerPool |-> "atomic", readerPool |-> "atomic", level |-> "immutable" ],
    selftest |->   \* not a kafka-go type: shows that the model reports what it must report
      [ x |-> "mu" ] ]

Flags == {"closed", "started"}    \* closed: w.closed / r.closed; started: r.version # 0

\* ---- building blocks of Conn operations (conn.go) ---------------------------
\* doRequest conn.go:1407-1427 with setConnWriteDeadline 1586-1593 / unsetConnWriteDeadline 1601-1605 on deadline d
Request(d, extra) ==
  <<AWr("inflight"), A("wlock"), Rd("correlationID"), Wr("correlationID"),
    A(d), Rd(d \o "value"), Wr(d \o "wconn"), R(d)>> \o extra \o
  <<Wr("wbuf"), A(d), Wr(d \o "wconn"), R(d), R("wlock")>>
\* waitResponse conn.go:1429-1473, the response is ours at once
Wait(d) ==
  <<A("rlock"), A(d), Rd(d \o "value"), Wr(d \o "rconn"), R(d), Rd("rbuf"), Wr("rbuf"), AWr("inflight")>>
\* one turn of the loop where the response belongs to somebody else (conn.go:1454-1468)
Yield(d) ==
  <<A("rlock"), A(d), Rd(d \o "value"), Wr(d \o "rconn"), R(d), Rd("rbuf"), ARd("inflight"), R("rlock")>>
\* do conn.go:1394-1404: read the body, unsetConnReadDeadline 1595-1599, unlock
Finish(d) == <<Wr("rbuf"), A(d), Wr(d \o "rconn"), R(d), R("rlock")>>
Op(d, extra) == Request(d, extra) \o Wait(d) \o Finish(d)
SetDl(d) == <<A(d), Wr(d \o "value"), Rd(d \o "rconn"), Rd(d \o "wconn"), R(d)>>   \* setDeadline conn.go:1562-1575
LockedRd(l, f) == <<A(l), Rd(f), R(l)>>
LockedWr(l, f) == <<A(l), Wr(f), R(l)>>

\* Reader.start reader.go:1194-1240 (called with r.mutex held); the version handed to the fetcher goroutines is
\* read here (reader.go:1210), the goroutines (1214-1239) only use their copy
Start == <<Rd("closed"), Unless("closed"), Rd("cancel"), Wr("cancel"), Rd("version"), Wr("version"), Rd("version"), Go("reader.fetcher")>>

\* batch.readMessage batch.go:253-334 (caller holds batch.mutex; the bytes come from conn.rbuf, whose lock the batch owns)
BReadMessage == <<Rd("berr"), Rd("boffset"), Wr("bmsgs"), Wr("boffset"), Wr("blast")>>

\* connGroup transport.go
GrabConn    == <<A("gmutex"), Rd("idleConns"), Wr("idleConns"), Rd("timer"), R("gmutex")>>                 \* 1075-1093
ReleaseConn == <<A("gmutex"), Rd("gclosed"), Rd("timer"), Wr("timer"), Wr("idleConns"), R("gmutex")>>      \* 1116-1138
CloseIdle   == <<A("gmutex"), Rd("idleConns"), Wr("idleConns"), Wr("gclosed"), R("gmutex")>>               \* 970-980
\* batchQueue writer.go:953-990
QPut   == <<A("qmutex"), Rd("qclosed"), Wr("queue"), R("qmutex")>>
QGet   == <<A("qmutex"), Rd("queue"), Rd("qclosed"), Wr("queue"), R("qmutex")>>
QClose == <<A("qmutex"), Wr("qclosed"), R("qmutex")>>

\* ---- the paths ---------------------------------------------------------------
\* n: name; t: type; dt, dm: the driver's type and method that executes it ("" for goroutines that only exist once a
\* method started them, "(name)" for library goroutines that run beside the API calls: they take part in the pairs);
\* sel: the path takes part in the selected triples; s: the steps
P(n, t, dt, dm, sel, s) == [n |-> n, t |-> t, dt |-> dt, dm |-> dm, sel |-> sel, s |-> s]

PathTab == <<
  \* ------------------------------------------------------------------ Conn
  P("conn.Offset", "conn", "conn", "Offset", TRUE, LockedRd("mutex", "offset")),                              \* conn.go:592-596
  P("conn.Seek.abs", "conn", "conn", "Seek", TRUE, LockedWr("mutex", "offset")),                              \* 640-645
  P("conn.Seek.cur", "conn", "conn", "SeekCurrent", FALSE, <<A("mutex"), Rd("offset"), Wr("offset"), R("mutex")>>), \* 647-653
  P("conn.Seek.start", "conn", "conn", "SeekStart", FALSE, Op("rdl", <<>>) \o LockedWr("mutex", "offset")),  \* 672, 699-701
  P("conn.ReadFirstOffset", "conn", "conn", "ReadFirstOffset", TRUE, Op("rdl", <<>>)),                        \* 949-987, 1363
  P("conn.ReadLastOffset.yield", "conn", "conn", "ReadLastOffset", FALSE, Request("rdl", <<>>) \o Yield("rdl") \o Wait("rdl") \o Finish("rdl")),
  P("conn.WriteMessages", "conn", "conn", "WriteMessages", TRUE,
      <<ARd("apiVersions")>> \o Op("wdl", <<ARd("requiredAcks")>>)),                                         \* 1156-1302, 218, 1206
  P("conn.ApiVersions.cold", "conn", "conn", "ApiVersions", FALSE,                                            \* 217-238, 1484-1544
      <<ARd("apiVersions")>> \o LockedRd("rdl", "rdlvalue") \o Op("rdl", <<>>) \o <<AWr("apiVersions")>>),
  P("conn.ReadBatch", "conn", "conn", "ReadBatch", TRUE,                                                      \* 770-915, batch.go:69-117,198-250
      LockedRd("mutex", "offset") \o LockedWr("mutex", "offset") \o <<ARd("apiVersions")>>
      \o Request("rdl", <<>>) \o Wait("rdl") \o <<Wr("rbuf")>>
      \o <<Wr("rbuf")>> \o LockedRd("mutex", "offset")                    \* Batch.ReadMessage: batch.go:218-225 reads conn.offset under conn.mutex
      \o <<A("rdl"), Wr("rdlrconn"), R("rdl")>> \o LockedWr("mutex", "offset") \o <<R("rlock")>>),            \* Batch.close 76-116
  P("conn.SetDeadline", "conn", "conn", "SetDeadline", TRUE, SetDl("rdl") \o SetDl("wdl")),                   \* 563-567
  P("conn.SetReadDeadline", "conn", "conn", "SetReadDeadline", TRUE, SetDl("rdl")),                           \* 572-575
  P("conn.SetWriteDeadline", "conn", "conn", "SetWriteDeadline", FALSE, SetDl("wdl")),                        \* 582-585
  P("conn.SetRequiredAcks", "conn", "conn", "SetRequiredAcks", TRUE, <<AWr("requiredAcks")>>),                \* 1313-1321
  P("conn.Close", "conn", "conn", "Close", FALSE, <<>>),                                                      \* 539-541: net.Conn.Close only
  \* ------------------------------------------------------------------ Batch (and the Conn it was read from)
  P("batch.Offset", "batch", "batch", "Offset", TRUE, LockedRd("bmutex", "boffset")),                         \* batch.go:60-65
  P("batch.Err", "batch", "batch", "Err", TRUE, LockedRd("bmutex", "berr")),                                  \* 129-134
  P("batch.HighWaterMark", "batch", "batch", "HighWaterMark", FALSE, <<Rd("bconst")>>),                       \* 45-57
  P("batch.Read", "batch", "batch", "Read", TRUE, <<A("bmutex"), Rd("boffset")>> \o BReadMessage \o <<R("bmutex")>>), \* 146-191
  P("batch.Read.short", "batch", "batch", "ReadShort", TRUE,
      <<A("bmutex"), Rd("boffset")>> \o BReadMessage \o <<Wr("berr"), Wr("boffset"), R("bmutex")>>),          \* 183-187
  P("batch.ReadMessage", "batch", "batch", "ReadMessage", TRUE,
      <<A("bmutex")>> \o BReadMessage \o <<Rd("bconn")>> \o LockedRd("mutex", "offset") \o BReadMessage \o <<R("bmutex"), Rd("bconst")>>), \* 198-250, 218-225
  P("batch.Close", "batch", "batch", "Close", TRUE,                                                           \* 69-117
      <<A("bmutex"), Rd("bconn"), Rd("block"), Wr("bconn"), Wr("block"), Wr("bmsgs"), Rd("berr"),
        A("rdl"), Wr("rdlrconn"), R("rdl"), A("mutex"), Rd("boffset"), Wr("offset"), R("mutex"), R("bmutex")>>),
  P("batch.Conn.Offset", "batch", "batch", "Conn.Offset", FALSE, LockedRd("mutex", "offset")),
  P("batch.Conn.Seek", "batch", "batch", "Conn.Seek", TRUE, LockedWr("mutex", "offset")),
  P("batch.Conn.SetReadDeadline", "batch", "batch", "Conn.SetReadDeadline", FALSE, SetDl("rdl")),
  \* ------------------------------------------------------------------ Writer
  P("writer.WriteMessages", "writer", "writer", "WriteMessages", TRUE,                                        \* writer.go:613-703
      <<A("mutex"), Rd("closed"), Unless("closed"), R("mutex")>>                                             \* enter 524-536
      \o <<Rd("config"), A("mutex"), Rd("closed"), Unless("closed"), Rd("writers"), Wr("writers"), Go("writer.writeBatches")>> \* batchMessages 706-741, 1018-1027
      \o <<A("pwmutex"), Rd("currBatch"), Wr("currBatch"), Go("writer.awaitBatch")>>                          \* writeMessages 1046-1088, 1092-1099
      \o QPut \o <<Wr("currBatch"), R("pwmutex"), R("mutex")>>),                                              \* 1074-1079
  P("writer.awaitBatch", "writer", "writer", "", FALSE,                                                       \* 1101-1127 (timer fired)
      <<A("pwmutex"), Rd("currBatch")>> \o QPut \o <<Wr("currBatch"), R("pwmutex"), AWr("stats")>>),
  P("writer.writeBatches", "writer", "writer", "", FALSE, QGet \o <<AWr("stats"), Rd("config"), AWr("stats")>>), \* 1029-1044, 1129-1214
  P("writer.Stats", "writer", "writer", "Stats", TRUE, <<AWr("stats")>>),                                     \* 895-922 (atomic swaps, stats.go)
  P("writer.Close", "writer", "writer", "Close", TRUE,                                                        \* 557-586, 1216-1229
      <<A("mutex"), Wr("closed"), Set("closed"), Rd("writers"), A("pwmutex"), Rd("currBatch")>> \o QPut
      \o <<Wr("currBatch")>> \o QClose \o <<R("pwmutex"), Wr("writers"), R("mutex")>>),
  \* ------------------------------------------------------------------ Reader
  P("reader.FetchMessage.first", "reader", "reader", "FetchMessage", TRUE,                                    \* reader.go:827-888
      <<AWr("once"), A("mutex"), Rd("closed"), Unless("closed"), Rd("version"), Unless("started"), Rd("offset")>> \o Start
      \o <<Set("started"), Rd("version"), R("mutex")>>                     \* 833-838: only the first call finds version = 0
      \o <<A("mutex"), Rd("version"), Wr("offset"), Rd("offset"), Wr("lag"), R("mutex")>>),                   \* 853-863
  P("reader.FetchMessage", "reader", "reader", "FetchMessage", TRUE,
      <<AWr("once"), A("mutex"), Rd("closed"), Rd("version"), R("mutex"),
        A("mutex"), Rd("version"), Wr("offset"), Rd("offset"), Wr("lag"), R("mutex")>>),
  P("reader.fetcher", "reader", "reader", "", FALSE, <<Rd("config"), AWr("stats")>>),                          \* 1214-1239: immutable config, its own copy of the version
  P("reader.SetOffset", "reader", "reader", "SetOffset", TRUE,                                                \* 1038-1064
      <<A("mutex"), Rd("closed"), Unless("closed"), Rd("offset"), Wr("offset"), Rd("version"), Rd("offset")>> \o Start
      \o <<AWr("once"), R("mutex")>>),
  P("reader.Offset", "reader", "reader", "Offset", TRUE, LockedRd("mutex", "offset")),                        \* 1003-1015
  P("reader.Lag", "reader", "reader", "Lag", FALSE, LockedRd("mutex", "lag")),                                \* 1019-1028
  P("reader.Stats", "reader", "reader", "Stats", TRUE, <<AWr("stats"), Rd("config")>>),                       \* 1109-1137
  P("reader.Close", "reader", "reader", "Close", TRUE,                                                        \* 769-793: r.cancel read after the unlock
      <<AWr("once"), A("mutex"), Rd("closed"), Wr("closed"), Set("closed"), R("mutex"), Rd("cancel")>>),
  \* ------------------------------------------------------------------ Reader as a group member (version starts at 1: only run() starts fetchers, reader.go:703-708)
  P("greader.FetchMessage", "greader", "greader", "FetchMessage", TRUE,
      <<AWr("once"), A("mutex"), Rd("closed"), Rd("version"), R("mutex"),
        A("mutex"), Rd("version"), Wr("offset"), Rd("offset"), Wr("lag"), R("mutex")>>),
  P("greader.CommitMessages", "greader", "greader", "CommitMessages", FALSE, <<Rd("config")>>),               \* 891-927: channels only
  P("greader.Stats", "greader", "greader", "Stats", TRUE, <<AWr("stats"), Rd("config")>>),
  P("greader.Close", "greader", "greader", "Close", TRUE,                                                     \* 769-793
      <<AWr("once"), A("mutex"), Rd("closed"), Wr("closed"), Set("closed"), R("mutex"), Rd("cancel")>>),
  P("greader.run.generation", "greader", "greader", "(run)", TRUE,                                            \* 293-372, 126-147, 111-115
      <<AWr("stats"), A("mutex")>> \o Start \o <<R("mutex"), Rd("cancel")>>                                   \* subscribe, then unsubscribe in a goroutine started afterwards
      \o <<AWr("stats"), A("mutex")>> \o Start \o <<R("mutex"), Rd("cancel")>>),                             \* next generation: only after started.Wait() (run() is one goroutine)
  \* ------------------------------------------------------------------ Transport / connPool / connGroup
  P("transport.RoundTrip", "transport", "client", "Metadata", TRUE,                                           \* transport.go:178-182, 212-226, 339-448
      <<RA("tmutex"), Rd("pools"), AWr("refc"), RR("tmutex"), ARd("state"), Rd("ctrl")>> \o GrabConn \o ReleaseConn \o <<AWr("refc")>>),
  P("transport.RoundTrip.broker", "transport", "client", "Produce", TRUE,                                     \* 644-653
      <<RA("tmutex"), Rd("pools"), AWr("refc"), RR("tmutex"), ARd("state"), RA("pmutex"), Rd("conns"), RR("pmutex")>>
      \o GrabConn \o ReleaseConn \o <<AWr("refc")>>),
  P("transport.RoundTrip.newpool", "transport", "client", "Fetch", TRUE,                                      \* 229-265
      <<RA("tmutex"), Rd("pools"), RR("tmutex"), A("tmutex"), Rd("pools"), Wr("pools"), Go("transport.discover"), R("tmutex"), ARd("state"), AWr("refc")>>),
  P("transport.discover", "transport", "client", "(discover)", TRUE,                                                   \* 503-584
      <<ARd("state"), A("pmutex"), Rd("conns"), Wr("conns"), R("pmutex"), AWr("state")>>),
  P("transport.idleTimer", "transport", "client", "(idleTimer)", FALSE,                                                  \* 1128-1132, 1095-1114
      <<A("gmutex"), Rd("timer"), Rd("idleConns"), Wr("idleConns"), R("gmutex")>>),
  P("transport.CloseIdleConnections", "transport", "client", "CloseIdleConnections", TRUE,                    \* 135-146, 325-337
      <<A("tmutex"), Rd("pools"), AWr("refc"), A("pmutex"), Rd("conns")>> \o CloseIdle \o <<Rd("ctrl")>> \o CloseIdle
      \o <<R("pmutex"), Wr("pools"), R("tmutex")>>),
  \* ------------------------------------------------------------------ balancers
  P("balancer.RoundRobin", "balancer", "balancer", "BalanceNil", TRUE,                                        \* balancer.go:55-68
      <<A("rrmutex"), Rd("rrchunk"), Wr("rrchunk"), Rd("rrcounter"), Wr("rrcounter"), R("rrmutex")>>),
  P("balancer.LeastBytes", "balancer", "balancer", "BalanceKey", TRUE,                                        \* 87-109
      <<A("lbmutex"), Rd("counters"), Wr("counters"), Rd("counters"), Wr("counters"), R("lbmutex")>>),
  P("balancer.Hash.hasher", "balancer", "balancer", "BalanceKey", TRUE,                                       \* 153-182 with a Hasher
      <<Rd("hasherref"), A("hlock"), Wr("hasher"), Rd("hasher"), R("hlock")>>),
  P("balancer.Hash.pool", "balancer", "balancer", "BalanceKey", FALSE, <<Rd("hasherref"), ARd("fnvpool"), AWr("fnvpool")>>), \* 163-165
  \* ------------------------------------------------------------------ codecs
  P("codec.NewWriter.Close", "codec", "codec", "Encode", TRUE, <<ARd("writerPool"), Rd("level"), AWr("writerPool")>>), \* gzip.go:51-64, 97-106 (same shape: snappy lz4 zstd)
  P("codec.NewReader.Close", "codec", "codec", "Decode", TRUE, <<ARd("readerPool"), AWr("readerPool")>>),      \* gzip.go:33-49, 75-95
  \* ------------------------------------------------------------------ self test of the model
  P("selftest.Good", "selftest", "", "", TRUE, LockedWr("mu", "x")),
  P("selftest.Bad", "selftest", "", "", TRUE, <<Wr("x")>>)
>>

NP == Len(PathTab)
PathIdx(name) == CHOOSE i \in 1..NP : PathTab[i].n = name
Types == {PathTab[i].t : i \in 1..NP}
Exported(i) == PathTab[i].dm # "" \/ PathTab[i].t = "selftest"

\* library goroutines of which a value has exactly one
Single(i) == PathTab[i].n \in {"greader.run.generation", "transport.discover"}
\* every pair i <= j of exported paths of one type, and the triples of selected paths
Pairs == {<<i, j>> \in (1..NP) \X (1..NP) : /\ i <= j /\ PathTab[i].t = PathTab[j].t /\ Exported(i) /\ Exported(j)
                                            /\ (i = j => ~Single(i))}
Trips == IF Triples # "none"
         THEN {<<i, j, k>> \in (1..NP) \X (1..NP) \X (1..NP) :
                 /\ i <= j /\ j <= k /\ (Triples = "distinct" => i < j /\ j < k)
                 /\ PathTab[i].t = PathTab[j].t /\ PathTab[j].t = PathTab[k].t
                 /\ PathTab[i].sel /\ PathTab[j].sel /\ PathTab[k].sel /\ Exported(i) /\ Exported(j) /\ Exported(k)
                 /\ (i = j => ~Single(i)) /\ (j = k => ~Single(j))}
         ELSE {}
Configs == Pairs \cup Trips

MaxThreads == 9      \* 3 program threads and the goroutines they start

VARIABLES
  th,      \* sequence of threads: [p |-> path index, pc |-> next step, parent |-> index of the thread of the program it belongs to]
  wheld,   \* lock -> thread holding it exclusively (0: nobody)
  rheld,   \* lock -> set of threads holding it shared
  flags    \* flag -> BOOLEAN
vars == <<th, wheld, rheld, flags>>

AllLocks == {"mutex", "rlock", "wlock", "rdl", "wdl", "bmutex", "pwmutex", "qmutex", "tmutex", "pmutex", "gmutex",
             "rrmutex", "lbmutex", "hlock", "mu"}

Steps(t) == PathTab[th[t].p].s
Live(t)  == th[t].pc <= Len(Steps(t))
Cur(t)   == Steps(t)[th[t].pc]
TypeOf   == PathTab[th[1].p].t

Init ==
  /\ \E c \in Configs : th = [x \in 1..Len(c) |-> [p |-> c[x], pc |-> 1, parent |-> x]]
  /\ wheld = [l \in AllLocks |-> 0]
  /\ rheld = [l \in AllLocks |-> {}]
  /\ flags = [b \in Flags |-> FALSE]

Advance(t) == th' = [th EXCEPT ![t].pc = @ + 1]

Step(t) ==
  /\ Live(t)
  /\ LET s == Cur(t) k == s[1] x == s[2] IN
     CASE k = "acq"  -> /\ wheld[x] = 0 /\ rheld[x] = {}
                        /\ wheld' = [wheld EXCEPT ![x] = t] /\ Advance(t) /\ UNCHANGED <<rheld, flags>>
       [] k = "rel"  -> /\ wheld' = [wheld EXCEPT ![x] = 0] /\ Advance(t) /\ UNCHANGED <<rheld, flags>>
       [] k = "racq" -> /\ wheld[x] = 0
                        /\ rheld' = [rheld EXCEPT ![x] = @ \cup {t}] /\ Advance(t) /\ UNCHANGED <<wheld, flags>>
       [] k = "rrel" -> /\ rheld' = [rheld EXCEPT ![x] = @ \ {t}] /\ Advance(t) /\ UNCHANGED <<wheld, flags>>
       [] k = "go"   -> /\ Len(th) < MaxThreads
                        /\ th' = Append([th EXCEPT ![t].pc = @ + 1], [p |-> PathIdx(x), pc |-> 1, parent |-> th[t].parent])
                        /\ UNCHANGED <<wheld, rheld, flags>>
       [] k = "set"  -> /\ flags' = [flags EXCEPT ![x] = TRUE] /\ Advance(t) /\ UNCHANGED <<wheld, rheld>>
       [] k = "unless" ->
            IF flags[x]
            THEN \* the method returns early: every lock it holds is released (the code unlocks on that branch)
                 /\ th' = [th EXCEPT ![t].pc = Len(Steps(t)) + 1]
                 /\ wheld' = [l \in AllLocks |-> IF wheld[l] = t THEN 0 ELSE wheld[l]]
                 /\ rheld' = [l \in AllLocks |-> rheld[l] \ {t}]
                 /\ UNCHANGED flags
            ELSE Advance(t) /\ UNCHANGED <<wheld, rheld, flags>>
       [] OTHER      -> Advance(t) /\ UNCHANGED <<wheld, rheld, flags>>      \* rd wr ard awr

Next == \E t \in 1..Len(th) : Step(t)
Spec == Init /\ [][Next]_vars

\* ---- what TLC evaluates ----------------------------------------------------------
IsAccess(s) == s[1] \in {"rd", "wr", "ard", "awr"}
IsWrite(s)  == s[1] \in {"wr", "awr"}
IsAtomic(s) == s[1] \in {"ard", "awr"}
Conflict(s1, s2) == /\ IsAccess(s1) /\ IsAccess(s2) /\ s1[2] = s2[2]
                    /\ (IsWrite(s1) \/ IsWrite(s2)) /\ ~(IsAtomic(s1) /\ IsAtomic(s2))
Holds(t, l)  == wheld[l] = t \/ t \in rheld[l]
HoldsX(t, l) == wheld[l] = t
\* a lock both hold orders nothing if both hold it shared and one of them writes: then it is still a conflict
Ordered(t1, t2) == \E l \in AllLocks : HoldsX(t1, l) /\ HoldsX(t2, l)

Label(t) == <<PathTab[th[t].p].n, PathTab[th[t].p].dt, PathTab[th[t].p].dm, PathTab[th[th[t].parent].p].dm>>

RaceLeads ==
  \A t1, t2 \in 1..Len(th) :
    (t1 < t2 /\ Live(t1) /\ Live(t2) /\ Conflict(Cur(t1), Cur(t2)) /\ ~Ordered(t1, t2))
      => PrintT(ToString(<<"LEAD", "race", TypeOf, Cur(t1)[2], Label(t1), Cur(t1)[1], Label(t2), Cur(t2)[1]>>))

GuardOf(f) == Guard[TypeOf][f]
Undisciplined(t) ==
  /\ Live(t) /\ IsAccess(Cur(t))
  /\ LET s == Cur(t) g == GuardOf(s[2]) IN
       CASE g = "atomic"    -> ~IsAtomic(s)
         [] g = "immutable" -> IsWrite(s)
         [] g = "handoff"   -> FALSE
         [] OTHER           -> IF IsWrite(s) THEN ~HoldsX(t, g) ELSE ~Holds(t, g)
DisciplineLeads ==
  \A t \in 1..Len(th) :
    Undisciplined(t) => PrintT(ToString(<<"LEAD", "discipline", TypeOf, Cur(t)[2], Label(t), Cur(t)[1], GuardOf(Cur(t)[2])>>))

TypeOK ==
  /\ Len(th) \in 2..MaxThreads
  /\ \A t \in 1..Len(th) : th[t].p \in 1..NP /\ th[t].pc \in 1..(Len(Steps(t)) + 1)
  /\ \A t \in 1..Len(th) : Live(t) /\ IsAccess(Cur(t)) => Cur(t)[2] \in DOMAIN Guard[TypeOf]
  /\ \A l \in AllLocks : wheld[l] \in 0..Len(th) /\ rheld[l] \subseteq 1..Len(th)

\* sanity of the lock model: exclusive and shared holders exclude each other; a finished thread holds nothing
LockSanity ==
  /\ \A l \in AllLocks : wheld[l] # 0 => rheld[l] = {}
  /\ \A t \in 1..Len(th) : ~Live(t) => \A l \in AllLocks : ~Holds(t, l)
  /\ \A t \in 1..Len(th) : Live(t) /\ Cur(t)[1] = "rel" => HoldsX(t, Cur(t)[2])
  /\ \A t \in 1..Len(th) : Live(t) /\ Cur(t)[1] = "rrel" => t \in rheld[Cur(t)[2]]

\* the modelled paths cannot block each other for ever (lock order)
Done == \A t \in 1..Len(th) : ~Live(t)
NoDeadlock == Done \/ ENABLED Next
=============================================================================
