---------------------------- MODULE ApiPrograms ----------------------------
(***************************************************************************)
(* Concurrent client programs over the exported methods of the types that  *)
(* kafka-go documents as safe for concurrent use (property C10).           *)
(*                                                                          *)
(* A behaviour of this module builds one program: a set of threads, each a *)
(* short sequence of method calls on ONE shared value of one type.  Every  *)
(* reachable state with at least two threads is a program; TLC enumerates   *)
(* them and prints each one (PROG lines), the engine turns the lines into   *)
(* JSON programs for harness/racedrv, which executes the threads of a      *)
(* program concurrently (start barrier) on the real type.                   *)
(*                                                                          *)
(* Shapes (the quantifier of C10 bounded to what can be run):               *)
(*   pairs    two threads, one call each: EVERY unordered pair of methods   *)
(*            of the type, a method with itself included;                   *)
(*   follow   two threads, one of them continues with a second call taken   *)
(*            from Special (Close, Stats, SetOffset, the deadline setters,  *)
(*            ...): the special call lands in the middle of the other       *)
(*            thread's I/O instead of at the barrier;                       *)
(*   triples  three threads, one call each, at least one of them Special.  *)
(* Method names are those of harness/racedrv (`vh race types`); the engine  *)
(* refuses to run when the two alphabets differ.                            *)
(***************************************************************************)
EXTENDS Naturals, Sequences, FiniteSets, TLC

CONSTANTS
  Shapes       \* subset of {"pairs", "follow", "triples"}

\* the alphabet: per type the sequence of its methods (the position gives the canonical order)
M == [
  conn |-> <<"Close", "SetDeadline", "SetReadDeadline", "SetWriteDeadline", "SetRequiredAcks", "Offset", "Seek", "SeekCurrent",
             "SeekStart", "SeekEnd", "Read", "ReadMessage", "ReadBatch", "ReadOffset", "ReadFirstOffset", "ReadLastOffset",
             "ReadOffsets", "ReadPartitions", "Write", "WriteMessages", "WriteCompressedMessages", "Brokers", "Controller",
             "ApiVersions", "CreateTopics", "DeleteTopics", "Broker", "LocalAddr", "RemoteAddr">>,
  batch |-> <<"Close", "Err", "Offset", "Conn.Seek", "Conn.SeekCurrent", "Conn.SetDeadline", "Conn.SetReadDeadline", "Conn.Close",
              "Read", "ReadShort", "ReadMessage", "HighWaterMark", "Partition", "Throttle", "Conn.Offset", "Conn.RemoteAddr">>,
  writer |-> <<"Close", "Stats", "WriteMessages", "WriteMany", "WriteMulti", "WriteCancel", "WriteEmpty", "WriteTooLarge">>,
  reader |-> <<"Close", "Stats", "SetOffset", "SetOffsetFirst", "Offset", "Lag", "FetchMessage", "ReadMessage", "CommitMessages",
               "SetOffsetAt", "ReadLag", "Config">>,
  greader |-> <<"Close", "Stats", "CommitMessages", "Offset", "Lag", "FetchMessage", "ReadMessage", "SetOffset", "SetOffsetFirst",
                "SetOffsetAt", "ReadLag", "Config">>,
  client |-> <<"CloseIdleConnections", "ClusterChange", "Metadata", "Produce", "ProduceCompressed", "Fetch", "ListOffsets", "CreateTopics",
               "DeleteTopics", "ApiVersions", "FindCoordinator", "OffsetFetch", "OffsetCommit", "ConsumerOffsets", "RoundTrip">>,
  balancer |-> <<"BalanceKey", "BalanceNil", "BalanceEmpty", "BalanceMore", "BalanceOne">>,
  codec |-> <<"Encode", "Decode", "RoundTrip", "EncodeLarge", "OpenClose">> ]

\* the calls that C10 singles out: state changes racing with I/O. NSpecial[t] = n: the first n methods of M[t].
NSpecial == [conn |-> 8, batch |-> 8, writer |-> 2, reader |-> 6, greader |-> 5, client |-> 3, balancer |-> 2, codec |-> 2]

Types == DOMAIN M
Special(t, i) == i <= NSpecial[t]

VARIABLES type, threads      \* threads: sequence of sequences of method indices
vars == <<type, threads>>

Init == type \in Types /\ threads = <<>>

N == Len(threads)
AllSingle == \A i \in 1..N : Len(threads[i]) = 1

\* a new thread with one call; first calls are kept in non-decreasing order (threads are interchangeable)
AddThread(m) ==
  /\ N < 3
  /\ AllSingle
  /\ N > 0 => threads[N][1] <= m
  /\ N = 2 => ("triples" \in Shapes /\ (Special(type, threads[1][1]) \/ Special(type, threads[2][1]) \/ Special(type, m)))
  /\ threads' = Append(threads, <<m>>)
  /\ UNCHANGED type

\* one thread of a pair continues with a special call
Follow(i, m) ==
  /\ "follow" \in Shapes
  /\ N = 2 /\ AllSingle
  /\ Special(type, m)
  /\ threads' = [threads EXCEPT ![i] = Append(@, m)]
  /\ UNCHANGED type

Next == \/ \E m \in 1..Len(M[type]) : AddThread(m)
        \/ \E i \in 1..2, m \in 1..Len(M[type]) : Follow(i, m)

Spec == Init /\ [][Next]_vars

Names(s) == [j \in 1..Len(s) |-> M[type][s[j]]]
Program == [i \in 1..N |-> Names(threads[i])]
Shape == IF N = 3 THEN "triples" ELSE IF AllSingle THEN "pairs" ELSE "follow"
Complete == N >= 2 /\ Shape \in Shapes

\* evaluated by TLC in every reachable state: prints the program (always TRUE)
Export == Complete => PrintT(ToString(<<"PROG", type, Shape, Program>>))

TypeOK == /\ type \in Types
          /\ N \in 0..3
          /\ \A i \in 1..N : Len(threads[i]) \in 1..2 /\ \A j \in 1..Len(threads[i]) : threads[i][j] \in 1..Len(M[type])
=============================================================================
