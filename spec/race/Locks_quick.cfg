SPECIFICATION Spec
CONSTANT Triples = "distinct"
INVARIANTS TypeOK LockSanity NoDeadlock RaceLeads DisciplineLeads
CHECK_DEADLOCK FALSE
