SPECIFICATION Spec
CONSTANT Shapes = {"pairs", "follow", "triples"}
INVARIANTS TypeOK Export
CHECK_DEADLOCK FALSE
