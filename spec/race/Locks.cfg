SPECIFICATION Spec
CONSTANT Triples = "all"
INVARIANTS TypeOK LockSanity NoDeadlock RaceLeads DisciplineLeads
CHECK_DEADLOCK FALSE
