SPECIFICATION Spec
CONSTANT Triples = "none"
INVARIANTS TypeOK LockSanity NoDeadlock RaceLeads DisciplineLeads
CHECK_DEADLOCK FALSE
