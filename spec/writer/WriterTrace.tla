---------------------------- MODULE WriterTrace ----------------------------
(***************************************************************************)
(* Conformance of traces recorded from the real kafka.Writer (hooks of the *)
(* `verif` build + scripted balancer / transport / completion callback)    *)
(* with the actions of Writer.tla.  Every event is one action of the       *)
(* specification with its arguments bound from the logged fields; the      *)
(* trace is accepted when all events were consumed.                        *)
(***************************************************************************)
EXTENDS Writer, Json, IOUtils

Trace == ndJsonDeserialize(IOEnv.TRACE)

VARIABLES l, cancelled
tvars == <<vars, l, cancelled>>

NoCfg == [batchSize |-> 1, batchBytes |-> 1, maxAttempts |-> 1, acked |-> TRUE, async |-> FALSE,
          topic |-> "", nparts |-> <<>>]
CfgOf(e) == [batchSize |-> e.batchSize, batchBytes |-> e.batchBytes, maxAttempts |-> e.maxAttempts,
             acked |-> e.acked, async |-> e.async, topic |-> e.topic, nparts |-> e.nparts]

TInit ==
  /\ l = 1 /\ cancelled = {}
  /\ cfg = NoCfg
  /\ calls = <<>> /\ chosen = <<>> /\ log = <<>> /\ attempts = <<>> /\ completions = <<>>
  /\ closeState = "none"
  /\ wclosed = FALSE /\ wmutex = <<"free", 0>> /\ wgroup = 0
  /\ writers = <<>> /\ pw = <<>> /\ batch = <<>>
  /\ cpc = <<>> /\ todo = <<>> /\ waits = <<>> /\ cur = <<>>

Reset(e) ==
  /\ cfg' = CfgOf(e) /\ cancelled' = {}
  /\ calls' = <<>> /\ chosen' = <<>> /\ attempts' = <<>> /\ completions' = <<>>
  /\ log' = [tp \in AllTP(CfgOf(e)) |-> <<>>]
  /\ closeState' = "none"
  /\ wclosed' = FALSE /\ wmutex' = <<"free", 0>> /\ wgroup' = 0
  /\ writers' = <<>> /\ pw' = <<>> /\ batch' = <<>>
  /\ cpc' = <<>> /\ todo' = <<>> /\ waits' = <<>> /\ cur' = <<>>

Skip == UNCHANGED vars /\ UNCHANGED cancelled

\* the sender that is busy with the batch carrying exactly these messages
SenderOf(ms) == { p \in DOMAIN pw : pw[p].sender = "busy" /\ batch[pw[p].sending].msgs = ms }

\* the application-level "return" event is recorded after the call has left the
\* writer; the model took the returning step at the "leave" (or failed "enter") event
Return(e) ==
  LET c == e.c IN
  /\ cpc[c] = "returned" /\ calls[c].result = e.kind
  /\ e.kind = "errors" => calls[c].errs = e.errs
  /\ Skip

\* w.leave(): whichever returning step of the model is enabled for the call
Leave(e) ==
  LET c == e.c IN
  IF cpc[c] = "returned" THEN Skip        \* asynchronous call: returned with BatchEnd
  ELSE /\ UNCHANGED cancelled
       /\ \/ c \in cancelled /\ ReturnCancelled(c)
          \/ ReturnDone(c)
          \/ ValidateReturn(c)
          \/ \E k \in {"topic", "meta"} : BalanceFail(c, k)
          \/ BatchBegin(c) /\ cpc'[c] = "returned"

Step(e) ==
  CASE e.ev = "cfg" -> Reset(e)
    [] e.ev = "call" -> Call(e.c, e.g, e.msgs) /\ UNCHANGED cancelled
    [] e.ev = "enter" -> Enter(e.c) /\ (cpc'[e.c] = "entered") = e.ok /\ UNCHANGED cancelled
    [] e.ev = "balance" -> Balance(e.c, e.p) /\ Len(chosen'[e.c]) = e.i /\ UNCHANGED cancelled
    [] e.ev = "bm.begin" -> BatchBegin(e.c) /\ cpc'[e.c] = "locked" /\ UNCHANGED cancelled
    [] e.ev = "pw.new" -> NewPartitionWriter(e.c, e.tp) /\ Len(pw') = e.pw /\ UNCHANGED cancelled
    [] e.ev = "pw.write.begin" ->
          e.pw \in DOMAIN pw /\ WMBegin(e.c, pw[e.pw].tp) /\ cur'[e.c].p = e.pw /\ UNCHANGED cancelled
    [] e.ev = "pw.batch" -> cur[e.c].p = e.pw /\ WMNewBatch(e.c) /\ Len(batch') = e.b /\ UNCHANGED cancelled
    [] e.ev = "pw.add" ->
          /\ cur[e.c].p = e.pw /\ pw[e.pw].curr = e.b /\ Head(cur[e.c].idxs) = e.i
          /\ WMAdd(e.c) /\ UNCHANGED cancelled
    [] e.ev = "pw.put" ->
          /\ cur[e.c].p = e.pw /\ pw[e.pw].curr = e.b
          /\ IF e.why = "full" THEN WMFull(e.c) ELSE WMOverflow(e.c)
          /\ UNCHANGED cancelled
    [] e.ev = "pw.write.end" -> cur[e.c].p = e.pw /\ WMEnd(e.c) /\ UNCHANGED cancelled
    [] e.ev = "bm.end" -> BatchEnd(e.c) /\ UNCHANGED cancelled
    [] e.ev = "pw.timer" ->
          /\ e.b \in DOMAIN batch /\ batch[e.b].pw = e.pw
          /\ (pw[e.pw].curr = e.b) = e.enq
          /\ AwaitTimer(e.b) /\ UNCHANGED cancelled
    [] e.ev = "pw.ready" -> e.b \in DOMAIN batch /\ AwaitReady(e.b) /\ UNCHANGED cancelled
    [] e.ev = "pw.get" ->
          /\ e.pw \in DOMAIN pw /\ pw[e.pw].queue # <<>> /\ Head(pw[e.pw].queue) = e.b
          /\ SenderGet(e.pw) /\ UNCHANGED cancelled
    [] e.ev = "pw.exit" -> e.pw \in DOMAIN pw /\ SenderExit(e.pw) /\ UNCHANGED cancelled
    [] e.ev = "produce" ->
          /\ \E p \in SenderOf(e.msgs) :
                /\ pw[p].tp = e.tp
                /\ Attempt(p, [applied |-> e.applied, ok |-> e.ok, retriable |-> e.retriable])
          /\ UNCHANGED cancelled
    [] e.ev = "completion" ->
          /\ \E p \in SenderOf(e.msgs) : Complete(p) /\ batch[pw[p].sending].lastOk = e.ok
          /\ UNCHANGED cancelled
    [] e.ev = "pw.done" ->
          /\ e.pw \in DOMAIN pw /\ pw[e.pw].sending = e.b /\ batch[e.b].lastOk = e.ok
          /\ Done(e.pw) /\ UNCHANGED cancelled
    [] e.ev = "return" -> Return(e)
    [] e.ev = "leave" -> Leave(e)
    [] e.ev = "cancel" -> cancelled' = cancelled \cup {e.c} /\ UNCHANGED vars
    [] e.ev = "close.begin" -> CloseBegin /\ UNCHANGED cancelled
    [] e.ev = "pw.close" ->
          /\ e.pw \in DOMAIN pw /\ pw[e.pw].curr = e.b
          /\ pw[e.pw].tp \in DOMAIN writers /\ writers[pw[e.pw].tp] = e.pw
          /\ ClosePW(pw[e.pw].tp) /\ UNCHANGED cancelled
    [] e.ev = "close.unlock" -> CloseUnlock /\ UNCHANGED cancelled
    [] e.ev = "close.return" -> CloseReturn /\ UNCHANGED cancelled
    [] OTHER -> Skip       \* close.call, hang, end: no counterpart in the model

TNext == l <= Len(Trace) /\ l' = l + 1 /\ Step(Trace[l])

TSpec == TInit /\ [][TNext]_tvars

TraceAccepted ==
  \/ TLCGet("stats").diameter = Len(Trace) + 1
  \/ ~PrintT(<<"DIVERGED_AT_LINE", TLCGet("stats").diameter, Trace[TLCGet("stats").diameter]>>)
=============================================================================
