----------------------------- MODULE WriterMon -----------------------------
(***************************************************************************)
(* Property monitor for traces recorded from the real kafka.Writer.        *)
(* The observable variables of WriterProps are rebuilt from the recorded   *)
(* events verbatim (no event is ever refused), and the listed properties   *)
(* are checked as invariants in every state of the trace.                  *)
(* Several traces are concatenated in one file; a "cfg" event starts a new *)
(* one.                                                                    *)
(***************************************************************************)
EXTENDS WriterProps, Json, IOUtils

Trace == ndJsonDeserialize(IOEnv.TRACE)

VARIABLES l, hangs, tid
mvars == <<obs, l, hangs, tid>>

NoCfg == [batchSize |-> 1, batchBytes |-> 1, maxAttempts |-> 1, acked |-> TRUE, async |-> FALSE,
          topic |-> "", nparts |-> <<>>]

Init ==
  /\ l = 1 /\ hangs = {} /\ tid = ""
  /\ cfg = NoCfg /\ calls = <<>> /\ chosen = <<>> /\ log = <<>>
  /\ attempts = <<>> /\ completions = <<>> /\ closeState = "none"

CfgOf(e) == [batchSize |-> e.batchSize, batchBytes |-> e.batchBytes, maxAttempts |-> e.maxAttempts,
             acked |-> e.acked, async |-> e.async, topic |-> e.topic, nparts |-> e.nparts]

ToSeq(x) == x       \* JSON arrays arrive as sequences

Upd(e) ==
  CASE e.ev = "cfg" ->
         /\ cfg' = CfgOf(e) /\ tid' = e.id /\ hangs' = {}
         /\ calls' = <<>> /\ chosen' = <<>> /\ log' = <<>>
         /\ attempts' = <<>> /\ completions' = <<>> /\ closeState' = "none"
    [] e.ev = "call" ->
         /\ calls' = e.c :> [g |-> e.g, msgs |-> e.msgs, returned |-> FALSE, result |-> "none",
                             errs |-> <<>>, seq |-> Cardinality(DOMAIN calls) + 1,
                             entered |-> FALSE, left |-> FALSE, afterClose |-> closeState = "returned"] @@ calls
         /\ chosen' = e.c :> <<>> @@ chosen
         /\ UNCHANGED <<cfg, log, attempts, completions, closeState, hangs, tid>>
    [] e.ev = "enter" /\ e.c \in DOMAIN calls ->
         /\ calls' = [calls EXCEPT ![e.c].entered = e.ok]
         /\ UNCHANGED <<cfg, chosen, log, attempts, completions, closeState, hangs, tid>>
    [] e.ev = "leave" /\ e.c \in DOMAIN calls ->
         /\ calls' = [calls EXCEPT ![e.c].left = TRUE]
         /\ UNCHANGED <<cfg, chosen, log, attempts, completions, closeState, hangs, tid>>
    [] e.ev = "balance" /\ e.c \in DOMAIN chosen ->
         /\ chosen' = [chosen EXCEPT ![e.c] = (e.i :> e.p) @@ @]
         \* the partition list the Writer hands to the Balancer is 0 .. n-1 for the n partitions of the message's topic
         /\ hangs' = IF "parts" \in DOMAIN e /\ e.topic \in DOMAIN cfg.nparts
                          /\ e.parts # [k \in 1 .. cfg.nparts[e.topic] |-> k - 1]
                        THEN hangs \cup {<<"badoffer", 0>>} ELSE hangs
         /\ UNCHANGED <<cfg, calls, log, attempts, completions, closeState, tid>>
    [] e.ev = "produce" ->
         /\ attempts' = Append(attempts, [tp |-> e.tp, msgs |-> e.msgs, applied |-> e.applied,
                                          ok |-> e.ok, retriable |-> e.retriable,
                                          n |-> Cardinality({k \in DOMAIN attempts : attempts[k].msgs = e.msgs})])
         /\ log' = IF ~e.applied THEN log
                   ELSE IF e.tp \in DOMAIN log THEN [log EXCEPT ![e.tp] = @ \o e.msgs]
                   ELSE e.tp :> e.msgs @@ log
         /\ UNCHANGED <<cfg, calls, chosen, completions, closeState, hangs, tid>>
    [] e.ev = "completion" ->
         /\ completions' = Append(completions, [msgs |-> e.msgs, ok |-> e.ok])
         /\ UNCHANGED <<cfg, calls, chosen, log, attempts, closeState, hangs, tid>>
    [] e.ev = "return" /\ e.c \in DOMAIN calls ->
         /\ calls' = [calls EXCEPT ![e.c].returned = TRUE, ![e.c].result = e.kind, ![e.c].errs = e.errs]
         /\ UNCHANGED <<cfg, chosen, log, attempts, completions, closeState, hangs, tid>>
    [] e.ev \in {"close.begin", "close.unlock", "close.return"} ->
         /\ closeState' = CASE e.ev = "close.begin" -> "begun" [] e.ev = "close.unlock" -> "waiting"
                            [] OTHER -> "returned"
         /\ UNCHANGED <<cfg, calls, chosen, log, attempts, completions, hangs, tid>>
    [] e.ev = "pw.new" ->
         \* one partition writer (one sender goroutine) per topic-partition for the life of the Writer
         /\ hangs' = IF <<"pw", e.tp>> \in hangs THEN hangs \cup {<<"dupwriter", 0>>} ELSE hangs \cup {<<"pw", e.tp>>}
         /\ UNCHANGED obs /\ UNCHANGED tid
    [] e.ev = "hang" ->
         /\ hangs' = hangs \cup {<<e.what, e.c>>}
         /\ UNCHANGED obs /\ UNCHANGED tid
    [] e.ev = "badrequest" ->
         /\ hangs' = hangs \cup {<<"badrequest", 0>>}
         /\ UNCHANGED obs /\ UNCHANGED tid
    [] OTHER -> UNCHANGED <<obs, hangs, tid>>

Next == l <= Len(Trace) /\ l' = l + 1 /\ Upd(Trace[l])

Spec == Init /\ [][Next]_mvars

\* C08 (liveness half, observed): no synchronous call is still blocked when the
\* watchdog expires although no further input is needed
C08_NoStuckCall == \A h \in hangs : h[1] # "call"
C08_SingleTP == \A h \in hangs : h[1] # "badrequest"
\* C07 (mechanism): a topic-partition never has two partition writers, i.e. two independent send queues
C07_SingleSender == \A h \in hangs : h[1] # "dupwriter"
\* C13 (Writer side): every partition list a Writer supplies to its balancer is the topic's full list, in order
C13w_OfferedAll == \A h \in hangs : h[1] # "badoffer"
\* C09 (liveness half, observed): Close returned before the watchdog expired
C09w_CloseReturns == \A h \in hangs : h[1] # "close"

\* nothing is sent or completed once Close has returned (trace form: a "cfg" event starts another trace)
C09w_QuietAfterCloseT ==
  [][(closeState = "returned" /\ tid' = tid /\ Trace[l].ev # "cfg") => UNCHANGED <<attempts, completions, log>>]_mvars

TraceAccepted == TLCGet("stats").diameter = Len(Trace) + 1
=============================================================================
