SPECIFICATION MCSpec
CONSTANT ConfigSet <- ConfigsQuick
INVARIANTS TypeOK Internal_OpenNotFull
  C01_NilMeansAcked C01_ErrorsExact C01_CompletionOnce C01_CompletionEvery C01_NoStrayWrites C01_DupOnlyFromLostAck
  C07_Order C07_OrderInRequest C08_Limits C08_RejectedUnsent C08_RejectedExactly
  C09w_AfterClose C09w_CloseMeansDrained C09w_AttemptsBounded
PROPERTIES C09w_QuietAfterClose
CHECK_DEADLOCK FALSE
