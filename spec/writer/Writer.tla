------------------------------- MODULE Writer -------------------------------
(***************************************************************************)
(* Model of kafka.Writer (writer.go): WriteMessages / batchMessages /      *)
(* partitionWriter / writeBatch / Close, one action per critical section.  *)
(*                                                                         *)
(* Observable (history) variables -- what the application, the balancer,   *)
(* the Completion callback and the (fake) broker can see -- are kept apart *)
(* from the internal ones so that the property definitions in              *)
(* WriterProps.tla can be evaluated both on this model and on traces       *)
(* recorded from the real code.                                            *)
(***************************************************************************)
EXTENDS WriterProps

VARIABLES
  wclosed,     \* Writer.closed
  wmutex,      \* holder of Writer.mutex: "free", "close" or <<"call", c>>
  wgroup,      \* Writer.group (sync.WaitGroup) counter
  writers,     \* Writer.writers : TP -> partition-writer id (only live entries)
  pw,          \* sequence of partition writers (records, see NewPW)
  batch,       \* sequence of write batches (records, see NewBatch)
  cpc,         \* per call: internal program counter
  todo,        \* per call: topic-partitions still to be handed to writeMessages
  waits,       \* per call: set of batch ids the synchronous call waits for
  cur          \* per call: cursor of the writeMessages loop (NoCur when outside)

internals == <<wclosed, wmutex, wgroup, writers, pw, batch, cpc, todo, waits, cur>>
vars == <<obs, internals>>

NewPW(tp)  == [tp |-> tp, curr |-> 0, queue |-> <<>>, qclosed |-> FALSE,
               sender |-> "idle", sending |-> 0, pclosed |-> FALSE]
NewBatch(p) == [pw |-> p, msgs |-> <<>>, bytes |-> 0, ready |-> FALSE,
                awaiter |-> "waiting", nattempts |-> 0, state |-> "open",
                lastRetriable |-> TRUE, lastOk |-> FALSE]

SzOf(m) == calls[m[1]].msgs[m[2]].sz

-----------------------------------------------------------------------------
Init ==
  /\ ObsInit
  /\ wclosed = FALSE /\ wmutex = <<"free", 0>> /\ wgroup = 0
  /\ writers = <<>> /\ pw = <<>> /\ batch = <<>>
  /\ cpc = <<>> /\ todo = <<>> /\ waits = <<>> /\ cur = <<>>

(***************************************************************************)
(* Application starts a call.  g is the submitting goroutine (calls of one *)
(* goroutine are sequential), ms the messages, cancellable whether the     *)
(* context may be cancelled.                                               *)
(***************************************************************************)
Call(c, g, ms) ==
  /\ c \notin DOMAIN calls
  /\ \A d \in DOMAIN calls : calls[d].g = g => calls[d].returned
  /\ calls' = c :> [g |-> g, msgs |-> ms, returned |-> FALSE, result |-> "none",
                    errs |-> <<>>, seq |-> Cardinality(DOMAIN calls) + 1,
                    entered |-> FALSE, left |-> FALSE, afterClose |-> closeState = "returned"] @@ calls
  /\ cpc' = c :> "called" @@ cpc
  /\ todo' = c :> {} @@ todo
  /\ waits' = c :> {} @@ waits
  /\ cur' = c :> [p |-> 0, tp |-> <<"", 0>>, idxs |-> <<>>] @@ cur
  /\ chosen' = c :> <<>> @@ chosen
  /\ UNCHANGED <<cfg, log, attempts, completions, closeState, wclosed, wmutex, wgroup,
                 writers, pw, batch>>

ReturnWith(c, kind, errs, left) ==
  /\ calls' = [calls EXCEPT ![c].returned = TRUE, ![c].result = kind, ![c].errs = errs, ![c].left = left]
  /\ cpc' = [cpc EXCEPT ![c] = "returned"]
  /\ wgroup' = IF left THEN wgroup - 1 ELSE wgroup

\* enter, under w.mutex
Enter(c) ==
  /\ cpc[c] = "called" /\ wmutex = <<"free", 0>>
  /\ IF wclosed
       THEN /\ ReturnWith(c, "closed", <<>>, FALSE)
       ELSE /\ calls' = [calls EXCEPT ![c].entered = TRUE]
            /\ cpc' = [cpc EXCEPT ![c] = "entered"]
            /\ wgroup' = wgroup + 1
  /\ UNCHANGED <<cfg, chosen, log, attempts, completions, closeState, wclosed, wmutex,
                 writers, pw, batch, todo, waits, cur>>

\* len(msgs) == 0 and the size loop (messageTooLarge) come before anything else
Valid(c) == Len(calls[c].msgs) > 0 /\ \A i \in DOMAIN calls[c].msgs : calls[c].msgs[i].sz <= cfg.batchBytes

ValidateReturn(c) ==
  /\ cpc[c] = "entered" /\ ~Valid(c)
  /\ IF Len(calls[c].msgs) = 0 THEN ReturnWith(c, "nil", <<>>, TRUE)
                                ELSE ReturnWith(c, "toolarge", <<>>, TRUE)
  /\ UNCHANGED <<cfg, chosen, log, attempts, completions, closeState, wclosed, wmutex,
                 writers, pw, batch, todo, waits, cur>>

TopicOf(c, i) == IF calls[c].msgs[i].topic # "" THEN calls[c].msgs[i].topic ELSE cfg.topic
TopicOK(c, i) == (calls[c].msgs[i].topic = "") # (cfg.topic = "")

\* one iteration of the assignment loop: chooseTopic, partitions, Balance
Balance(c, p) ==
  /\ cpc[c] \in {"entered", "balancing"} /\ Valid(c)
  /\ LET i == Len(chosen[c]) + 1 IN
       /\ TopicOK(c, i)
       /\ TopicOf(c, i) \in DOMAIN cfg.nparts
       /\ p \in 0 .. cfg.nparts[TopicOf(c, i)] - 1
       /\ chosen' = [chosen EXCEPT ![c] = Append(@, p)]
       /\ cpc' = [cpc EXCEPT ![c] = IF i = Len(calls[c].msgs) THEN "batching" ELSE "balancing"]
  /\ UNCHANGED <<cfg, calls, log, attempts, completions, closeState, wclosed, wmutex, wgroup,
                 writers, pw, batch, todo, waits, cur>>

\* chooseTopic error, or w.partitions failing (metadata error, unknown topic)
BalanceFail(c, kind) ==
  /\ cpc[c] \in {"entered", "balancing"} /\ Valid(c)
  /\ LET i == Len(chosen[c]) + 1 IN
       \/ kind = "topic" /\ ~TopicOK(c, i)
       \/ kind = "meta" /\ TopicOK(c, i)
  /\ ReturnWith(c, kind, <<>>, TRUE)
  /\ UNCHANGED <<cfg, chosen, log, attempts, completions, closeState, wclosed, wmutex,
                 writers, pw, batch, todo, waits, cur>>

TPsOf(c) == { <<TopicOf(c, i), chosen[c][i]>> : i \in DOMAIN chosen[c] }
IdxOf(c, tp) == SelectSeq([i \in DOMAIN chosen[c] |-> i],
                          LAMBDA i : <<TopicOf(c, i), chosen[c][i]>> = tp)

\* batchMessages: w.mutex.Lock().  The re-check of w.closed is the repair of
\* finding F1 (DESIGN section 8): a call that entered before Close but reaches
\* batchMessages after it fails with io.ErrClosedPipe instead of creating a
\* partition writer nobody will ever close.
BatchBegin(c) ==
  /\ cpc[c] = "batching" /\ wmutex = <<"free", 0>>
  /\ IF wclosed
       THEN /\ ReturnWith(c, "closed", <<>>, TRUE)
            /\ UNCHANGED <<wmutex, todo>>
       ELSE /\ wmutex' = <<"call", c>>
            /\ cpc' = [cpc EXCEPT ![c] = "locked"]
            /\ todo' = [todo EXCEPT ![c] = TPsOf(c)]
            /\ UNCHANGED <<calls, wgroup>>
  /\ UNCHANGED <<cfg, chosen, log, attempts, completions, closeState, wclosed,
                 writers, pw, batch, waits, cur>>

(***************************************************************************)
(* partitionWriter.writeMessages: the per-message loop, one action per     *)
(* instrumented step.  cur[c] is the loop cursor of call c: the partition  *)
(* writer whose mutex it holds and the message indexes still to assign.    *)
(***************************************************************************)
NoCur == [p |-> 0, tp |-> <<"", 0>>, idxs |-> <<>>]
PWBusy(p) == \E c \in DOMAIN cur : cur[c].p = p          \* ptw.mutex held by a writeMessages loop

IsFull(b) == Len(batch[b].msgs) >= cfg.batchSize \/ batch[b].bytes >= cfg.batchBytes
CurrFull(p) == pw[p].curr # 0 /\ IsFull(pw[p].curr)

\* newPartitionWriter (spawns writeBatches)
NewPartitionWriter(c, tp) ==
  /\ cpc[c] = "locked" /\ cur[c].p = 0 /\ tp \in todo[c] /\ tp \notin DOMAIN writers
  /\ pw' = Append(pw, NewPW(tp))
  /\ writers' = tp :> (Len(pw) + 1) @@ writers
  /\ wgroup' = wgroup + 1
  /\ UNCHANGED <<obs, wclosed, wmutex, batch, cpc, todo, waits, cur>>

\* ptw.mutex.Lock() in writeMessages
WMBegin(c, tp) ==
  /\ cpc[c] = "locked" /\ cur[c].p = 0 /\ tp \in todo[c] /\ tp \in DOMAIN writers
  /\ cur' = [cur EXCEPT ![c] = [p |-> writers[tp], tp |-> tp, idxs |-> IdxOf(c, tp)]]
  /\ UNCHANGED <<obs, wclosed, wmutex, wgroup, writers, pw, batch, cpc, todo, waits>>

\* currBatch == nil -> newWriteBatch (spawns awaitBatch)
WMNewBatch(c) ==
  /\ cur[c].p # 0 /\ cur[c].idxs # <<>> /\ pw[cur[c].p].curr = 0
  /\ batch' = Append(batch, NewBatch(cur[c].p))
  /\ pw' = [pw EXCEPT ![cur[c].p].curr = Len(batch) + 1]
  /\ wgroup' = wgroup + 1
  /\ UNCHANGED <<obs, wclosed, wmutex, writers, cpc, todo, waits, cur>>

Fits(b, m) == ~(Len(batch[b].msgs) > 0 /\ batch[b].bytes + SzOf(m) > cfg.batchBytes)

\* batch.trigger(); queue.Put(batch); currBatch = nil
EnqueueCurr(p) ==
  LET b == pw[p].curr IN
  /\ pw' = [pw EXCEPT ![p].queue = IF pw[p].qclosed THEN @ ELSE Append(@, b), ![p].curr = 0]
  /\ batch' = [batch EXCEPT ![b].ready = TRUE,
                            ![b].state = IF pw[p].qclosed THEN "dropped" ELSE "queued"]

\* !batch.add(...): the message does not fit, close the batch and retry
WMOverflow(c) ==
  /\ cur[c].p # 0 /\ cur[c].idxs # <<>>
  /\ LET p == cur[c].p IN
       /\ pw[p].curr # 0 /\ ~CurrFull(p)
       /\ ~Fits(pw[p].curr, <<c, Head(cur[c].idxs)>>)
       /\ EnqueueCurr(p)
  /\ UNCHANGED <<obs, wclosed, wmutex, wgroup, writers, cpc, todo, waits, cur>>

\* batch.add succeeded
WMAdd(c) ==
  /\ cur[c].p # 0 /\ cur[c].idxs # <<>>
  /\ LET p == cur[c].p  b == pw[p].curr  m == <<c, Head(cur[c].idxs)>> IN
       /\ b # 0 /\ ~CurrFull(p) /\ Fits(b, m)
       /\ batch' = [batch EXCEPT ![b].msgs = Append(@, m), ![b].bytes = @ + SzOf(m)]
       /\ waits' = [waits EXCEPT ![c] = @ \cup {b}]
  /\ cur' = [cur EXCEPT ![c].idxs = Tail(@)]
  /\ UNCHANGED <<obs, wclosed, wmutex, wgroup, writers, pw, cpc, todo>>

\* batch.full(...): close it at once
WMFull(c) ==
  /\ cur[c].p # 0 /\ CurrFull(cur[c].p)
  /\ EnqueueCurr(cur[c].p)
  /\ UNCHANGED <<obs, wclosed, wmutex, wgroup, writers, cpc, todo, waits, cur>>

\* writeMessages returns (ptw.mutex released)
WMEnd(c) ==
  /\ cur[c].p # 0 /\ cur[c].idxs = <<>> /\ ~CurrFull(cur[c].p)
  /\ todo' = [todo EXCEPT ![c] = @ \ {cur[c].tp}]
  /\ cur' = [cur EXCEPT ![c] = NoCur]
  /\ UNCHANGED <<obs, wclosed, wmutex, wgroup, writers, pw, batch, cpc, waits>>

\* batchMessages returns (mutex released); Async calls return nil here
BatchEnd(c) ==
  /\ cpc[c] = "locked" /\ todo[c] = {} /\ cur[c].p = 0
  /\ wmutex' = <<"free", 0>>
  /\ IF cfg.async
       THEN ReturnWith(c, "nil", <<>>, TRUE)
       ELSE /\ cpc' = [cpc EXCEPT ![c] = "waiting"]
            /\ UNCHANGED <<calls, wgroup>>
  /\ UNCHANGED <<cfg, chosen, log, attempts, completions, closeState, wclosed,
                 writers, pw, batch, todo, waits, cur>>

\* awaitBatch, timer branch: under ptw.mutex, enqueue iff still the current batch
AwaitTimer(b) ==
  /\ batch[b].awaiter = "waiting" /\ ~PWBusy(batch[b].pw)
  /\ LET p == batch[b].pw IN
       IF pw[p].curr = b
         THEN /\ pw' = [pw EXCEPT ![p].queue = IF pw[p].qclosed THEN @ ELSE Append(@, b),
                                  ![p].curr = 0]
              /\ batch' = [batch EXCEPT ![b].awaiter = "done",
                                        ![b].state = IF pw[p].qclosed THEN "dropped" ELSE "queued"]
         ELSE /\ pw' = pw
              /\ batch' = [batch EXCEPT ![b].awaiter = "done"]
  /\ wgroup' = wgroup - 1
  /\ UNCHANGED <<obs, wclosed, wmutex, writers, cpc, todo, waits, cur>>

\* awaitBatch, ready branch
AwaitReady(b) ==
  /\ batch[b].awaiter = "waiting" /\ batch[b].ready
  /\ batch' = [batch EXCEPT ![b].awaiter = "done"]
  /\ wgroup' = wgroup - 1
  /\ UNCHANGED <<obs, wclosed, wmutex, writers, pw, cpc, todo, waits, cur>>

\* writeBatches: batchQueue.Get
SenderGet(p) ==
  /\ pw[p].sender = "idle" /\ pw[p].queue # <<>>
  /\ LET b == Head(pw[p].queue) IN
       /\ pw' = [pw EXCEPT ![p].sender = "busy", ![p].sending = b, ![p].queue = Tail(@)]
       /\ batch' = [batch EXCEPT ![b].state = "sending"]
  /\ UNCHANGED <<obs, wclosed, wmutex, wgroup, writers, cpc, todo, waits, cur>>

SenderExit(p) ==
  /\ pw[p].sender = "idle" /\ pw[p].queue = <<>> /\ pw[p].qclosed
  /\ pw' = [pw EXCEPT ![p].sender = "exited"]
  /\ wgroup' = wgroup - 1
  /\ UNCHANGED <<obs, wclosed, wmutex, writers, batch, cpc, todo, waits, cur>>

(***************************************************************************)
(* One iteration of the retry loop in writeBatch.  The environment chooses *)
(* whether the broker applied the records, whether the client got a        *)
(* success, and (for failures) whether the error is one the writer retries *)
(* (isTemporary || isTransientNetworkError).                               *)
(***************************************************************************)
Outcomes ==
  { [applied |-> a, ok |-> k, retriable |-> r] :
        a \in BOOLEAN, k \in BOOLEAN, r \in BOOLEAN }

LegalOutcome(o) ==
  /\ o.ok => ~o.retriable
  /\ (cfg.acked /\ o.ok) => o.applied          \* an acknowledgement means applied

MoreAttempts(b) ==
  /\ batch[b].nattempts < cfg.maxAttempts
  /\ ~batch[b].lastOk
  /\ batch[b].lastRetriable

Attempt(p, o) ==
  /\ pw[p].sender = "busy"
  /\ LET b == pw[p].sending IN
       /\ MoreAttempts(b) /\ LegalOutcome(o)
       /\ batch' = [batch EXCEPT ![b].nattempts = @ + 1, ![b].lastOk = o.ok,
                                 ![b].lastRetriable = o.retriable]
       /\ attempts' = Append(attempts, [tp |-> pw[p].tp, msgs |-> batch[b].msgs,
                                        n |-> batch[b].nattempts, applied |-> o.applied,
                                        ok |-> o.ok, retriable |-> o.retriable])
       /\ log' = IF o.applied
                   THEN [log EXCEPT ![pw[p].tp] = @ \o batch[b].msgs]
                   ELSE log
  /\ UNCHANGED <<cfg, calls, chosen, completions, closeState, wclosed, wmutex, wgroup, writers,
                 pw, cpc, todo, waits, cur>>

\* end of writeBatch: Completion(batch.msgs, err) ...
Complete(p) ==
  /\ pw[p].sender = "busy"
  /\ LET b == pw[p].sending IN
       /\ ~MoreAttempts(b) /\ batch[b].state = "sending"
       /\ completions' = Append(completions, [msgs |-> batch[b].msgs, ok |-> batch[b].lastOk])
       /\ batch' = [batch EXCEPT ![b].state = "completed"]
  /\ UNCHANGED <<cfg, calls, chosen, log, attempts, closeState, wclosed, wmutex, wgroup, writers,
                 pw, cpc, todo, waits, cur>>

\* ... then batch.complete(err): close(batch.done)
Done(p) ==
  /\ pw[p].sender = "busy" /\ batch[pw[p].sending].state = "completed"
  /\ batch' = [batch EXCEPT ![pw[p].sending].state = "done"]
  /\ pw' = [pw EXCEPT ![p].sender = "idle", ![p].sending = 0]
  /\ UNCHANGED <<obs, wclosed, wmutex, wgroup, writers, cpc, todo, waits, cur>>

\* the select loop of WriteMessages: all batches done
ErrsOf(c) ==
  [i \in DOMAIN calls[c].msgs |->
     LET b == CHOOSE x \in waits[c] : <<c, i>> \in Range(batch[x].msgs) IN batch[b].lastOk]

ReturnDone(c) ==
  /\ cpc[c] = "waiting"
  /\ \A b \in waits[c] : batch[b].state = "done"
  /\ IF \A b \in waits[c] : batch[b].lastOk
       THEN ReturnWith(c, "nil", <<>>, TRUE)
       ELSE ReturnWith(c, "errors", ErrsOf(c), TRUE)
  /\ UNCHANGED <<cfg, chosen, log, attempts, completions, closeState, wclosed, wmutex,
                 writers, pw, batch, todo, waits, cur>>

\* ... or ctx.Done() wins the select
ReturnCancelled(c) ==
  /\ cpc[c] = "waiting"
  /\ ReturnWith(c, "ctx", <<>>, TRUE)
  /\ UNCHANGED <<cfg, chosen, log, attempts, completions, closeState, wclosed, wmutex,
                 writers, pw, batch, todo, waits, cur>>

-----------------------------------------------------------------------------
\* Close: w.mutex.Lock(); w.closed = true
CloseBegin ==
  /\ closeState = "none" /\ wmutex = <<"free", 0>>
  /\ wmutex' = <<"close", 0>> /\ wclosed' = TRUE /\ closeState' = "begun"
  /\ UNCHANGED <<cfg, calls, chosen, log, attempts, completions, wgroup, writers, pw, batch,
                 cpc, todo, waits, cur>>

\* close for one writer of the map
ClosePW(tp) ==
  /\ wmutex = <<"close", 0>> /\ closeState = "begun" /\ tp \in DOMAIN writers
  /\ LET p == writers[tp]  b == pw[p].curr IN
       /\ ~pw[p].pclosed
       /\ pw' = [pw EXCEPT ![p].queue = IF b # 0 THEN Append(@, b) ELSE @,
                            ![p].curr = 0, ![p].qclosed = TRUE, ![p].pclosed = TRUE]
       /\ batch' = IF b # 0 THEN [batch EXCEPT ![b].ready = TRUE, ![b].state = "queued"]
                   ELSE batch
  /\ UNCHANGED <<obs, wclosed, wmutex, wgroup, writers, cpc, todo, waits, cur>>

\* delete every entry, w.mutex.Unlock()
CloseUnlock ==
  /\ wmutex = <<"close", 0>> /\ closeState = "begun"
  /\ \A tp \in DOMAIN writers : pw[writers[tp]].pclosed
  /\ writers' = <<>> /\ wmutex' = <<"free", 0>> /\ closeState' = "waiting"
  /\ UNCHANGED <<cfg, calls, chosen, log, attempts, completions, wclosed, wgroup, pw, batch,
                 cpc, todo, waits, cur>>

\* w.group.Wait() returns
CloseReturn ==
  /\ closeState = "waiting" /\ wgroup = 0
  /\ closeState' = "returned"
  /\ UNCHANGED <<cfg, calls, chosen, log, attempts, completions, internals>>

-----------------------------------------------------------------------------
\* The model-checking Next takes the calls from cfg.plan.
Next ==
  \/ \E c \in DOMAIN cfg.plan : Call(c, cfg.plan[c].g, cfg.plan[c].msgs)
  \/ \E c \in DOMAIN calls :
        \/ Enter(c) \/ ValidateReturn(c) \/ BatchBegin(c) \/ BatchEnd(c)
        \/ ReturnDone(c)
        \/ (cfg.plan[c].cancellable /\ ReturnCancelled(c))
        \/ \E p \in 0 .. 3 : Balance(c, p)
        \/ \E k \in {"topic", "meta"} :
              /\ cpc[c] \in {"entered", "balancing"} /\ Valid(c)
              /\ k = "meta" => (cfg.metaFails \/ TopicOf(c, Len(chosen[c]) + 1) \notin DOMAIN cfg.nparts)
              /\ BalanceFail(c, k)
        \/ \E tp \in todo[c] : NewPartitionWriter(c, tp) \/ WMBegin(c, tp)
        \/ WMNewBatch(c) \/ WMOverflow(c) \/ WMAdd(c) \/ WMFull(c) \/ WMEnd(c)
  \/ \E b \in DOMAIN batch : AwaitTimer(b) \/ AwaitReady(b)
  \/ \E p \in DOMAIN pw :
        \/ SenderGet(p) \/ SenderExit(p) \/ Complete(p) \/ Done(p)
        \/ \E o \in Outcomes : (o \in cfg.outcomes) /\ Attempt(p, o)
  \/ (cfg.close /\ CloseBegin)
  \/ \E tp \in DOMAIN writers : ClosePW(tp)
  \/ CloseUnlock \/ CloseReturn

Spec == Init /\ [][Next]_vars

\* Fairness for the liveness configs: every internal step and the
\* environment's answers; the application's own moves (Call, CloseBegin,
\* ReturnCancelled) are not fair.  TLC needs constant quantifier bounds in
\* temporal formulas, hence the fixed ranges and the domain guards.
CallIds == 1 .. 3
PwIds == 1 .. 4
BatchIds == 1 .. 6
Parts == 0 .. 1
Topics == {"t", "u"}
InCalls(c) == c \in DOMAIN cpc
Fair ==
  /\ \A c \in CallIds :
        /\ WF_vars(InCalls(c) /\ Enter(c)) /\ WF_vars(InCalls(c) /\ ValidateReturn(c))
        /\ WF_vars(InCalls(c) /\ BatchBegin(c)) /\ WF_vars(InCalls(c) /\ BatchEnd(c))
        /\ WF_vars(InCalls(c) /\ ReturnDone(c))
        /\ WF_vars(InCalls(c) /\ \E p \in Parts : Balance(c, p))
        /\ WF_vars(InCalls(c) /\ cpc[c] \in {"entered", "balancing"} /\ BalanceFail(c, "topic"))
        /\ \A t \in Topics : \A p \in Parts :
              /\ WF_vars(InCalls(c) /\ NewPartitionWriter(c, <<t, p>>))
              /\ WF_vars(InCalls(c) /\ WMBegin(c, <<t, p>>))
        /\ WF_vars(InCalls(c) /\ WMNewBatch(c)) /\ WF_vars(InCalls(c) /\ WMOverflow(c))
        /\ WF_vars(InCalls(c) /\ WMAdd(c)) /\ WF_vars(InCalls(c) /\ WMFull(c)) /\ WF_vars(InCalls(c) /\ WMEnd(c))
  /\ \A b \in BatchIds : WF_vars(b \in DOMAIN batch /\ AwaitTimer(b)) /\ WF_vars(b \in DOMAIN batch /\ AwaitReady(b))
  /\ \A p \in PwIds :
        /\ WF_vars(p \in DOMAIN pw /\ SenderGet(p)) /\ WF_vars(p \in DOMAIN pw /\ SenderExit(p))
        /\ WF_vars(p \in DOMAIN pw /\ Complete(p)) /\ WF_vars(p \in DOMAIN pw /\ Done(p))
        /\ WF_vars(p \in DOMAIN pw /\ \E o \in Outcomes : (o \in cfg.outcomes) /\ Attempt(p, o))
  /\ \A t \in Topics : \A p \in Parts : WF_vars(ClosePW(<<t, p>>))
  /\ WF_vars(CloseUnlock) /\ WF_vars(CloseReturn)

FairSpec == Spec /\ Fair

-----------------------------------------------------------------------------
\* Internal consistency (conformance-level, not listed properties)
TypeOK ==
  /\ wgroup >= 0
  /\ \A p \in DOMAIN pw : pw[p].curr # 0 => batch[pw[p].curr].state = "open"
  /\ \A b \in DOMAIN batch : batch[b].state # "dropped"

\* Liveness (checked under FairSpec)
InBatch(c, i) == \E b \in DOMAIN batch : <<c, i>> \in Range(batch[b].msgs)
BatchDone(c, i) == \E b \in DOMAIN batch : <<c, i>> \in Range(batch[b].msgs) /\ batch[b].state = "done"
\* C08: every accepted message is sent (or exhausts its attempts) without further input
L_Flush == \A c \in CallIds : \A i \in 1 .. 3 : [](InBatch(c, i) => <>BatchDone(c, i))
\* C09: Close returns
L_Close == (closeState = "begun") ~> (closeState = "returned")
\* every call returns
L_CallsReturn == \A c \in CallIds : [](InCalls(c) => <>(InCalls(c) /\ cpc[c] = "returned"))
=============================================================================
