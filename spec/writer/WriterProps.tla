---------------------------- MODULE WriterProps ----------------------------
(***************************************************************************)
(* Observable state of a kafka.Writer run and the listed properties        *)
(* C01, C07, C08 and the Writer part of C09 as predicates over it.         *)
(* Used by Writer.tla (model), WriterTrace.tla (conformance of recorded    *)
(* traces) and WriterMon.tla (property monitor on recorded traces).        *)
(***************************************************************************)
EXTENDS Integers, Sequences, FiniteSets, TLC

VARIABLES
  cfg,          \* configuration record, constant during a behaviour
  calls,        \* call id -> [g, msgs, returned, result, errs, seq, entered, left, afterClose]
  chosen,       \* call id -> sequence of partitions the balancer returned so far
  log,          \* topic-partition -> sequence of message ids <<c, i>> (broker log)
  attempts,     \* journal of produce requests seen by the broker
  completions,  \* journal of Completion callbacks
  closeState    \* "none" | "begun" | "waiting" | "returned"

obs == <<cfg, calls, chosen, log, attempts, completions, closeState>>

Range(s) == { s[i] : i \in DOMAIN s }

AllTP(c) == { <<t, p>> : t \in DOMAIN c.nparts, p \in 0 .. 3 }

ObsInit ==
  /\ calls = <<>> /\ chosen = <<>>
  /\ log = [tp \in AllTP(cfg) |-> <<>>]
  /\ attempts = <<>> /\ completions = <<>>
  /\ closeState = "none"

Msgs == { <<c, i>> : c \in DOMAIN calls, i \in 1 .. 8 }
MsgsOfCall(c) == { <<c, i>> : i \in DOMAIN calls[c].msgs }
AllMsgs == UNION { MsgsOfCall(c) : c \in DOMAIN calls }

MTopic(m) == IF calls[m[1]].msgs[m[2]].topic # "" THEN calls[m[1]].msgs[m[2]].topic ELSE cfg.topic
HasChoice(m) == m[1] \in DOMAIN chosen /\ m[2] \in DOMAIN chosen[m[1]]
MTP(m) == <<MTopic(m), chosen[m[1]][m[2]]>>
MSz(m) == calls[m[1]].msgs[m[2]].sz

Count(x, s) == Cardinality({ i \in DOMAIN s : s[i] = x })

RECURSIVE SumSz(_)
SumSz(s) == IF s = <<>> THEN 0 ELSE MSz(Head(s)) + SumSz(Tail(s))

Known(m) == m[1] \in DOMAIN calls /\ m[2] \in DOMAIN calls[m[1]].msgs

\* message m was appended by a produce request the broker acknowledged, to the
\* partition of its topic that the balancer chose
Acked(m) ==
  \E k \in DOMAIN attempts :
     /\ attempts[k].ok /\ attempts[k].applied
     /\ m \in Range(attempts[k].msgs)
     /\ HasChoice(m) /\ attempts[k].tp = MTP(m)

Strict == cfg.acked /\ ~cfg.async

-----------------------------------------------------------------------------
\* C01
C01_NilMeansAcked ==
  \A c \in DOMAIN calls :
     (calls[c].returned /\ calls[c].result = "nil" /\ Strict)
        => \A m \in MsgsOfCall(c) : Acked(m)

C01_ErrorsExact ==
  \A c \in DOMAIN calls :
     (calls[c].returned /\ calls[c].result = "errors" /\ Strict)
        => /\ Len(calls[c].errs) = Len(calls[c].msgs)
           /\ \A i \in DOMAIN calls[c].msgs : calls[c].errs[i] <=> Acked(<<c, i>>)
           /\ \E i \in DOMAIN calls[c].msgs : ~calls[c].errs[i]

CompletionsOf(m) == { k \in DOMAIN completions : m \in Range(completions[k].msgs) }

C01_CompletionOnce ==
  /\ \A m \in AllMsgs : Cardinality(CompletionsOf(m)) <= 1
  /\ \A k \in DOMAIN completions :
        /\ \A m \in Range(completions[k].msgs) : Known(m) /\ Count(m, completions[k].msgs) = 1
        /\ cfg.acked => \A m \in Range(completions[k].msgs) : completions[k].ok <=> Acked(m)

\* "the Completion callback receives every accepted message exactly once": Completion runs before the batch is
\* marked done (writeBatch), so when a synchronous call has returned with nil or WriteErrors every message of the call
\* has had its callback; and once Close has returned, so has every message that was ever put into a produce request.
C01_CompletionEvery ==
  /\ \A c \in DOMAIN calls :
       (calls[c].returned /\ calls[c].result \in {"nil", "errors"} /\ Strict /\ Len(calls[c].msgs) > 0)
          => \A m \in MsgsOfCall(c) : Cardinality(CompletionsOf(m)) = 1
  /\ closeState = "returned" =>
       \A m \in AllMsgs : (\E k \in DOMAIN attempts : m \in Range(attempts[k].msgs))
                               => Cardinality(CompletionsOf(m)) = 1

C01_NoStrayWrites ==
  /\ \A tp \in DOMAIN log : \A k \in DOMAIN log[tp] :
        LET m == log[tp][k] IN Known(m) /\ HasChoice(m) /\ MTP(m) = tp
  /\ \A k \in DOMAIN attempts : \A m \in Range(attempts[k].msgs) :
        Known(m) /\ HasChoice(m) /\ MTP(m) = attempts[k].tp

AttemptsOf(m) == { k \in DOMAIN attempts : m \in Range(attempts[k].msgs) }

C01_DupOnlyFromLostAck ==
  /\ \A k \in DOMAIN attempts : \A m \in Range(attempts[k].msgs) : Count(m, attempts[k].msgs) = 1
  \* a message belongs to one batch: every request carrying it is the same batch
  /\ \A m \in AllMsgs : \A k1, k2 \in AttemptsOf(m) :
        attempts[k1].msgs = attempts[k2].msgs /\ attempts[k1].tp = attempts[k2].tp
  \* no retry after an acknowledged attempt
  /\ cfg.acked => \A m \in AllMsgs : \A k1, k2 \in AttemptsOf(m) :
        k1 < k2 => ~attempts[k1].ok
  \* copies in the log = applied attempts
  /\ \A m \in AllMsgs : HasChoice(m) /\ MTP(m) \in DOMAIN log =>
        Count(m, log[MTP(m)]) = Cardinality({ k \in AttemptsOf(m) : attempts[k].applied })

\* C07
Before(m1, m2) ==
  /\ calls[m1[1]].g = calls[m2[1]].g
  /\ \/ calls[m1[1]].seq < calls[m2[1]].seq
     \/ m1[1] = m2[1] /\ m1[2] < m2[2]

\* every copy of an earlier batch precedes every copy of a later one (messages
\* retried together in one batch are covered by C07_OrderInRequest)
SameBatch(m1, m2) == \E k \in DOMAIN attempts : m1 \in Range(attempts[k].msgs) /\ m2 \in Range(attempts[k].msgs)
C07_Order ==
  cfg.acked =>
    \A tp \in DOMAIN log : \A i, j \in DOMAIN log[tp] :
       (Known(log[tp][i]) /\ Known(log[tp][j]) /\ Before(log[tp][j], log[tp][i])
          /\ ~SameBatch(log[tp][i], log[tp][j])) => j < i

C07_OrderInRequest ==
  \A k \in DOMAIN attempts : \A i, j \in DOMAIN attempts[k].msgs :
     LET a == attempts[k].msgs[i]  b == attempts[k].msgs[j] IN
       (Known(a) /\ Known(b) /\ Before(b, a)) => j < i

\* C08
C08_Limits ==
  \A k \in DOMAIN attempts :
     /\ Len(attempts[k].msgs) >= 1
     /\ Len(attempts[k].msgs) <= cfg.batchSize
     /\ (\A m \in Range(attempts[k].msgs) : Known(m)) => SumSz(attempts[k].msgs) <= cfg.batchBytes
     /\ \A m \in Range(attempts[k].msgs) : Known(m) /\ HasChoice(m) => MTP(m) = attempts[k].tp

C08_RejectedUnsent ==
  \A c \in DOMAIN calls :
     (calls[c].returned /\ calls[c].result \in {"toolarge", "topic", "closed"})
        => \A m \in MsgsOfCall(c) : AttemptsOf(m) = {}

\* a call is rejected as too large / topic conflict exactly when its input says so
TopicConflict(c) == \E i \in DOMAIN calls[c].msgs : (calls[c].msgs[i].topic = "") = (cfg.topic = "")
TooLarge(c) == \E i \in DOMAIN calls[c].msgs : calls[c].msgs[i].sz > cfg.batchBytes
C08_RejectedExactly ==
  \A c \in DOMAIN calls : calls[c].returned =>
     /\ calls[c].result = "toolarge" => TooLarge(c)
     /\ calls[c].result = "topic" => TopicConflict(c)
     /\ calls[c].result \in {"nil", "errors", "ctx"} /\ Len(calls[c].msgs) > 0
           => ~TooLarge(c) /\ ~TopicConflict(c)

\* C09 (Writer part)
Accepted(c) ==
  /\ calls[c].returned /\ Len(calls[c].msgs) > 0
  /\ calls[c].result \in {"nil", "errors", "ctx"}

C09w_AfterClose ==
  \A c \in DOMAIN calls :
     calls[c].afterClose => ~calls[c].entered /\ (calls[c].returned => calls[c].result = "closed")

C09w_CloseMeansDrained ==
  closeState = "returned" =>
     /\ \A c \in DOMAIN calls : calls[c].entered => calls[c].left
     /\ \A c \in DOMAIN calls : Accepted(c) =>
           \A m \in MsgsOfCall(c) : Cardinality(CompletionsOf(m)) = 1
     /\ \A m \in AllMsgs : AttemptsOf(m) # {} => Cardinality(CompletionsOf(m)) = 1

\* nothing is sent or completed once Close has returned (action property)
C09w_QuietAfterClose ==
  [][closeState = "returned" => UNCHANGED <<attempts, completions, log>>]_obs

\* attempts of one batch never exceed MaxAttempts (C09: "has exhausted its attempts")
C09w_AttemptsBounded ==
  \A m \in AllMsgs : Cardinality(AttemptsOf(m)) <= cfg.maxAttempts

AllProps ==
  /\ C01_NilMeansAcked /\ C01_ErrorsExact /\ C01_CompletionOnce /\ C01_CompletionEvery /\ C01_NoStrayWrites
  /\ C01_DupOnlyFromLostAck /\ C07_Order /\ C07_OrderInRequest /\ C08_Limits
  /\ C08_RejectedUnsent /\ C08_RejectedExactly /\ C09w_AfterClose /\ C09w_CloseMeansDrained
  /\ C09w_AttemptsBounded
=============================================================================
