SPECIFICATION Spec
INVARIANTS
  C01_NilMeansAcked C01_ErrorsExact C01_CompletionOnce C01_CompletionEvery C01_NoStrayWrites C01_DupOnlyFromLostAck
  C07_Order C07_OrderInRequest C08_Limits C08_RejectedUnsent C08_RejectedExactly C08_NoStuckCall C08_SingleTP
  C09w_AfterClose C09w_CloseMeansDrained C09w_AttemptsBounded C09w_CloseReturns
PROPERTIES C09w_QuietAfterClose
POSTCONDITION TraceAccepted
CHECK_DEADLOCK FALSE
