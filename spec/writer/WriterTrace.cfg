SPECIFICATION TSpec
INVARIANTS TypeOK
POSTCONDITION TraceAccepted
CHECK_DEADLOCK FALSE
